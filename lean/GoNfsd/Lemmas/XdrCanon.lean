/- On CANONICAL input — booleans and presence flags written as 0 or 1, padding bytes zero — decoding
   and re-encoding gives back the very bytes that were consumed.  `canon` is the syntactic test
   (it follows the decoder through the input); `dec_canon` is the theorem.  Together with
   `dec_reenc` (every accepted input re-encodes, to the same length) and `dec_enc` (what the
   encoder writes decodes to the same value) this pins the decoder's leniency down to exactly
   those two freedoms. -/
import GoNfsd.Lemmas.XdrReenc

namespace GoNfsd.Model.Xdr

theorem takeN_eq {n : Nat} {bs a r : List UInt8} (h : takeN n bs = some (a, r)) : bs = a ++ r := by
  unfold takeN at h
  split at h
  · simp at h
  · simp at h
    obtain ⟨rfl, rfl⟩ := h
    exact (List.take_append_drop n bs).symm

theorem be_beNat : ∀ (w : List UInt8), be w.length (beNat w) = w
  | [] => by simp [be]
  | b :: bs => by
    have hlt := beNat_lt bs
    have hpos : 0 < 256 ^ bs.length := Nat.pow_pos (by decide)
    have hb : b.toNat < 256 := b.toNat_lt
    rw [beNat_cons]
    simp only [List.length_cons, be]
    have h1 : (b.toNat * 256 ^ bs.length + beNat bs) / 256 ^ bs.length = b.toNat := by
      rw [Nat.mul_comm, Nat.mul_add_div hpos, Nat.div_eq_of_lt hlt]; simp
    have h2 : (b.toNat * 256 ^ bs.length + beNat bs) % 256 ^ bs.length = beNat bs := by
      rw [Nat.mul_comm, Nat.mul_add_mod, Nat.mod_eq_of_lt hlt]
    rw [h1, h2, be_beNat bs, Nat.mod_eq_of_lt hb]
    simp

theorem be4_beNat {bs w r : List UInt8} (h : takeN 4 bs = some (w, r)) : be 4 (beNat w) = w := by
  have := be_beNat w
  rw [(takeN_len h).2] at this
  exact this

/-- all bytes zero -/
def allZero (p : List UInt8) : Bool := p.all (· == 0)

theorem allZero_eq {p : List UInt8} {n : Nat} (h : allZero p = true) (hl : p.length = n) : p = zeros n := by
  subst hl
  unfold zeros
  apply List.ext_getElem (by simp)
  intro i h1 h2
  simp only [List.getElem_replicate]
  have := List.all_eq_true.mp h p[i] (List.getElem_mem h1)
  simpa using this

/-- the padding of a counted string / opaque is zero -/
def canonBytes (bs : List UInt8) : Bool :=
  match takeN 4 bs with
  | none => true
  | some (w, r) =>
    match takeN (beNat w) r with
    | none => true
    | some (_, r') =>
      match takeN (padLen (beNat w)) r' with
      | none => true
      | some (p, _) => allZero p

/-- the chain loop: presence flags are 0 or 1, elements canonical -/
def canonChainWith (decElem : List UInt8 → Option (Val × List UInt8)) (canonElem : List UInt8 → Bool) :
    Nat → List UInt8 → Bool
  | 0, _ => true
  | fuel + 1, bs =>
    match takeN 4 bs with
    | none => true
    | some (w, rest) =>
      if beNat w = 0 then true else
      beNat w == 1 && canonElem rest &&
        match decElem rest with
        | none => true
        | some (_, rest') => canonChainWith decElem canonElem fuel rest'

mutual
/-- the input the decoder consumes for a value of type `t` is in canonical form -/
def canon : Ty → List UInt8 → Bool
  | .u32, _ => true
  | .u64, _ => true
  | .arrU32 _, _ => true
  | .bool, bs => match takeN 4 bs with | none => true | some (w, _) => beNat w ≤ 1
  | .str _, bs => canonBytes bs
  | .opaqueVar _, bs => canonBytes bs
  | .opaqueFix n, bs =>
    match takeN n bs with
    | none => true
    | some (_, r) => match takeN (padLen n) r with | none => true | some (p, _) => allZero p
  | .struct fs, bs => canonFields fs bs
  | .unionU32 keys arms hasDflt dflt, bs =>
    match takeN 4 bs with
    | none => true
    | some (w, r) =>
      match canonArm keys arms (beNat w) r with
      | some b => b
      | none => if hasDflt then canon dflt r else true
  | .unionBool t f, bs =>
    match takeN 4 bs with
    | none => true
    | some (w, r) => decide (beNat w ≤ 1) && (if beNat w != 0 then canon t r else canon f r)
  | .chain elem, bs =>
    canonChainWith (fun b => (decFields elem b).map fun p => (Val.struct p.1, p.2)) (canonFields elem) bs.length bs

def canonFields : List Ty → List UInt8 → Bool
  | [], _ => true
  | t :: ts, bs =>
    canon t bs && match dec t bs with | none => true | some (_, r) => canonFields ts r

def canonArm : List Nat → List Ty → Nat → List UInt8 → Option Bool
  | k :: ks, t :: ts, d, bs => if k = d then some (canon t bs) else canonArm ks ts d bs
  | _, _, _, _ => none
end

theorem decBytes_canon {max : Option Nat} {bs : List UInt8} {v : Val} {r : List UInt8}
    (h : decBytes max bs = some (v, r)) (hc : canonBytes bs = true) :
    ∃ d, v = .bytes d ∧ lenOk max d.length = true ∧ bs = be 4 d.length ++ d ++ zeros (padLen d.length) ++ r := by
  unfold decBytes at h
  unfold canonBytes at hc
  cases h1 : takeN 4 bs with
  | none => simp [h1] at h
  | some p =>
    obtain ⟨w, r1⟩ := p
    simp only [h1] at h hc
    split at h
    · rename_i hok
      cases h2 : takeN (beNat w) r1 with
      | none => simp [h2] at h
      | some p2 =>
        obtain ⟨d, r2⟩ := p2
        simp only [h2] at h hc
        cases h3 : takeN (padLen (beNat w)) r2 with
        | none => simp [h3] at h
        | some p3 =>
          obtain ⟨pd, r3⟩ := p3
          simp only [h3] at hc
          simp [h3] at h
          obtain ⟨rfl, rfl⟩ := h
          have l2 := (takeN_len h2).2
          have l3 := (takeN_len h3).2
          have e1 := takeN_eq h1; have e2 := takeN_eq h2; have e3 := takeN_eq h3
          have ew := be4_beNat h1
          have ez := allZero_eq hc l3
          refine ⟨d, rfl, by rw [l2]; exact hok, ?_⟩
          rw [l2, ew, e1, e2, e3, ez]
          simp [List.append_assoc]
    · simp at h

theorem decNums_bytes : ∀ (k : Nat) (bs : List UInt8) (ns : List Nat) (r : List UInt8),
    decNums k bs = some (ns, r) → ns.length = k ∧ ∃ c, encNums ns = some c ∧ bs = c ++ r := by
  intro k
  induction k with
  | zero =>
    intro bs ns r h
    simp [decNums] at h; obtain ⟨rfl, rfl⟩ := h
    exact ⟨rfl, [], by simp [encNums], by simp⟩
  | succ k ih =>
    intro bs ns r h
    simp only [decNums] at h
    cases h1 : takeN 4 bs with
    | none => simp [h1] at h
    | some p =>
      obtain ⟨w, r1⟩ := p
      simp only [h1] at h
      cases h2 : decNums k r1 with
      | none => simp [h2] at h
      | some p2 =>
        obtain ⟨ns', r2⟩ := p2
        simp [h2] at h
        obtain ⟨rfl, rfl⟩ := h
        obtain ⟨hl, c, hc, hcr⟩ := ih r1 ns' r2 h2
        have hw := word_lt h1
        refine ⟨by simp [hl], be 4 (beNat w) ++ c, by simp [encNums, hw, hc], ?_⟩
        rw [be4_beNat h1, takeN_eq h1, hcr, List.append_assoc]

theorem decChain_canon (encElem : Val → Option (List UInt8))
    (decElem : List UInt8 → Option (Val × List UInt8)) (canonElem : List UInt8 → Bool)
    (hel : ∀ b v r, decElem b = some (v, r) → canonElem b = true → ∃ c, encElem v = some c ∧ b = c ++ r) :
    ∀ (fuel : Nat) (bs : List UInt8) (vs : List Val) (r : List UInt8),
      decChainWith decElem fuel bs = some (vs, r) → canonChainWith decElem canonElem fuel bs = true →
      ∃ c, encChainWith encElem vs = some c ∧ bs = c ++ r := by
  intro fuel
  induction fuel with
  | zero => intro bs vs r h; simp [decChainWith] at h
  | succ f ih =>
    intro bs vs r h hc
    simp only [decChainWith] at h
    simp only [canonChainWith] at hc
    cases h1 : takeN 4 bs with
    | none => simp [h1] at h
    | some p =>
      obtain ⟨w, r1⟩ := p
      simp only [h1] at h hc
      have e1 := takeN_eq h1
      have ew := be4_beNat h1
      by_cases hz : beNat w = 0
      · rw [if_pos hz] at h
        simp at h; obtain ⟨rfl, rfl⟩ := h
        refine ⟨be 4 0, by simp [encChainWith], ?_⟩
        rw [← hz, ew, e1]
      · rw [if_neg hz] at h hc
        cases h2 : decElem r1 with
        | none => simp [h2] at h
        | some p2 =>
          obtain ⟨v, r2⟩ := p2
          simp only [h2] at h hc
          cases h3 : decChainWith decElem f r2 with
          | none => simp [h3] at h
          | some p3 =>
            obtain ⟨vs', r3⟩ := p3
            simp [h3] at h
            obtain ⟨rfl, rfl⟩ := h
            simp only [Bool.and_eq_true, beq_iff_eq] at hc
            obtain ⟨⟨hone, hce⟩, hcr⟩ := hc
            obtain ⟨a, ha, hab⟩ := hel r1 v r2 h2 hce
            obtain ⟨b, hb, hbb⟩ := ih r2 vs' r3 h3 hcr
            refine ⟨be 4 1 ++ a ++ b, by simp [encChainWith, ha, hb], ?_⟩
            rw [← hone, ew, e1, hab, hbb]
            simp [List.append_assoc]

/-- what canonical re-encoding has to deliver: the very bytes consumed -/
def Same (t : Ty) (bs : List UInt8) (v : Val) (r : List UInt8) : Prop :=
  ∃ c, enc t v = some c ∧ bs = c ++ r

mutual
theorem dec_canon : ∀ (t : Ty) (bs : List UInt8) (v : Val) (r : List UInt8),
    dec t bs = some (v, r) → canon t bs = true → Same t bs v r
  | .u32, bs, v, r, h, _ => by
    simp only [dec] at h
    cases h1 : takeN 4 bs with
    | none => simp [h1] at h
    | some p =>
      obtain ⟨w, r1⟩ := p
      simp [h1] at h; obtain ⟨rfl, rfl⟩ := h
      have hw := word_lt h1
      refine ⟨be 4 (beNat w), by simp [enc]; omega, ?_⟩
      rw [be4_beNat h1]; exact takeN_eq h1
  | .u64, bs, v, r, h, _ => by
    simp only [dec] at h
    cases h1 : takeN 8 bs with
    | none => simp [h1] at h
    | some p =>
      obtain ⟨w, r1⟩ := p
      simp [h1] at h; obtain ⟨rfl, rfl⟩ := h
      have hw := beNat_lt w
      have l1 := (takeN_len h1).2
      rw [l1] at hw
      have ew := be_beNat w
      rw [l1] at ew
      refine ⟨be 8 (beNat w), by simp [enc]; simpa using hw, ?_⟩
      rw [ew]; exact takeN_eq h1
  | .bool, bs, v, r, h, hc => by
    simp only [dec] at h
    simp only [canon] at hc
    cases h1 : takeN 4 bs with
    | none => simp [h1] at h
    | some p =>
      obtain ⟨w, r1⟩ := p
      simp only [h1] at hc
      simp [h1] at h; obtain ⟨rfl, rfl⟩ := h
      have hle : beNat w ≤ 1 := by simpa using hc
      have ew := be4_beNat h1
      have e1 := takeN_eq h1
      simp only [Same, enc]
      refine ⟨_, rfl, ?_⟩
      by_cases hz : beNat w = 0
      · simp [hz]; rw [← hz, ew]; exact e1
      · have h1' : beNat w = 1 := by omega
        simp [h1']; rw [← h1', ew]; exact e1
  | .str max, bs, v, r, h, hc => by
    simp only [dec] at h
    simp only [canon] at hc
    obtain ⟨d, rfl, hok, hb⟩ := decBytes_canon h hc
    simp only [Same, enc, hok, if_true]
    exact ⟨_, rfl, hb⟩
  | .opaqueVar max, bs, v, r, h, hc => by
    simp only [dec] at h
    simp only [canon] at hc
    obtain ⟨d, rfl, hok, hb⟩ := decBytes_canon h hc
    simp only [Same, enc, hok, if_true]
    exact ⟨_, rfl, hb⟩
  | .opaqueFix n, bs, v, r, h, hc => by
    simp only [dec] at h
    simp only [canon] at hc
    cases h1 : takeN n bs with
    | none => simp [h1] at h
    | some p =>
      obtain ⟨d, r1⟩ := p
      simp only [h1] at h hc
      cases h2 : takeN (padLen n) r1 with
      | none => simp [h2] at h
      | some p2 =>
        obtain ⟨pd, r2⟩ := p2
        simp only [h2] at hc
        simp [h2] at h; obtain ⟨rfl, rfl⟩ := h
        have l1 := takeN_len h1; have l2 := takeN_len h2
        have ez := allZero_eq hc l2.2
        simp only [Same, enc, l1.2, if_true]
        refine ⟨_, rfl, ?_⟩
        rw [takeN_eq h1, takeN_eq h2, ez, List.append_assoc]
  | .arrU32 max, bs, v, r, h, _ => by
    simp only [dec] at h
    cases h1 : takeN 4 bs with
    | none => simp [h1] at h
    | some p =>
      obtain ⟨w, r1⟩ := p
      simp only [h1] at h
      split at h
      · rename_i hok
        cases h2 : decNums (beNat w) r1 with
        | none => simp [h2] at h
        | some p2 =>
          obtain ⟨ns, r2⟩ := p2
          simp [h2] at h; obtain ⟨rfl, rfl⟩ := h
          obtain ⟨hl, c, hc, hcr⟩ := decNums_bytes _ _ _ _ h2
          refine ⟨be 4 ns.length ++ c, by simp [enc, hl, hok, hc], ?_⟩
          rw [hl, be4_beNat h1, takeN_eq h1, hcr, List.append_assoc]
      · simp at h
  | .struct fs, bs, v, r, h, hc => by
    simp only [dec] at h
    simp only [canon] at hc
    cases h1 : decFields fs bs with
    | none => simp [h1] at h
    | some p =>
      obtain ⟨vs, r1⟩ := p
      simp [h1] at h; obtain ⟨rfl, rfl⟩ := h
      obtain ⟨c, hcc, hl⟩ := decFields_canon fs bs vs r1 h1 hc
      exact ⟨c, by simp [enc, hcc], hl⟩
  | .unionU32 keys arms hasDflt dflt, bs, v, r, h, hc => by
    simp only [dec] at h
    simp only [canon] at hc
    cases h1 : takeN 4 bs with
    | none => simp [h1] at h
    | some p =>
      obtain ⟨w, r1⟩ := p
      simp only [h1] at h hc
      have hw := word_lt h1
      have ew := be4_beNat h1
      have e1 := takeN_eq h1
      cases h2 : decArm keys arms (beNat w) r1 with
      | some res =>
        simp only [h2] at h
        cases res with
        | none => simp at h
        | some p2 =>
          obtain ⟨v2, r2⟩ := p2
          simp at h; obtain ⟨rfl, rfl⟩ := h
          obtain ⟨c, hcc, hl⟩ := (decArm_canon keys arms (beNat w) r1).1 v2 r2 h2 (by
            intro b hb; rw [hb] at hc; exact hc)
          refine ⟨be 4 (beNat w) ++ c, by simp [enc, hw, hcc], ?_⟩
          rw [ew, e1, hl, List.append_assoc]
      | none =>
        simp only [h2] at h
        have hnone := (decArm_reenc keys arms (beNat w) r1).2 h2
        have hcnone := (decArm_canon keys arms (beNat w) r1).2 h2
        rw [hcnone] at hc
        split at h
        · rename_i hd
          rw [if_pos hd] at hc
          cases h3 : dec dflt r1 with
          | none => simp [h3] at h
          | some p3 =>
            obtain ⟨v3, r3⟩ := p3
            simp [h3] at h; obtain ⟨rfl, rfl⟩ := h
            obtain ⟨c, hcc, hl⟩ := dec_canon dflt r1 v3 r3 h3 hc
            refine ⟨be 4 (beNat w) ++ c, by simp [enc, hw, hnone v3, hd, hcc], ?_⟩
            rw [ew, e1, hl, List.append_assoc]
        · rename_i hd
          simp at h; obtain ⟨rfl, rfl⟩ := h
          refine ⟨be 4 (beNat w), by simp [enc, hw, hnone, hd], ?_⟩
          rw [ew]; exact e1
  | .unionBool t f, bs, v, r, h, hc => by
    simp only [dec] at h
    simp only [canon] at hc
    cases h1 : takeN 4 bs with
    | none => simp [h1] at h
    | some p =>
      obtain ⟨w, r1⟩ := p
      simp only [h1] at h hc
      have ew := be4_beNat h1
      have e1 := takeN_eq h1
      simp only [Bool.and_eq_true, decide_eq_true_eq] at hc
      obtain ⟨hle, hca⟩ := hc
      split at h
      · rename_i hnz
        rw [if_pos hnz] at hca
        have hone : beNat w = 1 := by
          have : beNat w ≠ 0 := by simpa using hnz
          omega
        cases h3 : dec t r1 with
        | none => simp [h3] at h
        | some p3 =>
          obtain ⟨v3, r3⟩ := p3
          simp [h3] at h; obtain ⟨rfl, rfl⟩ := h
          obtain ⟨c, hcc, hl⟩ := dec_canon t r1 v3 r3 h3 hca
          refine ⟨be 4 1 ++ c, by simp [enc, hcc], ?_⟩
          rw [← hone, ew, e1, hl, List.append_assoc]
      · rename_i hnz
        rw [if_neg hnz] at hca
        have hzero : beNat w = 0 := by simpa using hnz
        cases h3 : dec f r1 with
        | none => simp [h3] at h
        | some p3 =>
          obtain ⟨v3, r3⟩ := p3
          simp [h3] at h; obtain ⟨rfl, rfl⟩ := h
          obtain ⟨c, hcc, hl⟩ := dec_canon f r1 v3 r3 h3 hca
          refine ⟨be 4 0 ++ c, by simp [enc, hcc], ?_⟩
          rw [← hzero, ew, e1, hl, List.append_assoc]
  | .chain elem, bs, v, r, h, hc => by
    simp only [dec] at h
    simp only [canon] at hc
    cases h1 : decChainWith (fun b => (decFields elem b).map fun p => (Val.struct p.1, p.2)) bs.length bs with
    | none => simp [h1] at h
    | some p =>
      obtain ⟨vs, r1⟩ := p
      simp [h1] at h; obtain ⟨rfl, rfl⟩ := h
      obtain ⟨c, hcc, hl⟩ := decChain_canon
        (fun v => match v with | .struct fvs => encFields elem fvs | _ => none) _ (canonFields elem) (by
          intro b v' r' hb hcb
          cases h2 : decFields elem b with
          | none => simp [h2] at hb
          | some p2 =>
            obtain ⟨vs2, r2⟩ := p2
            simp [h2] at hb; obtain ⟨rfl, rfl⟩ := hb
            exact decFields_canon elem b vs2 r2 h2 hcb)
        _ _ _ _ h1 hc
      exact ⟨c, by simp only [enc]; exact hcc, hl⟩

theorem decFields_canon : ∀ (ts : List Ty) (bs : List UInt8) (vs : List Val) (r : List UInt8),
    decFields ts bs = some (vs, r) → canonFields ts bs = true → ∃ c, encFields ts vs = some c ∧ bs = c ++ r
  | [], bs, vs, r, h, _ => by
    simp [decFields] at h; obtain ⟨rfl, rfl⟩ := h
    exact ⟨[], by simp [encFields], by simp⟩
  | t :: ts, bs, vs, r, h, hc => by
    simp only [decFields] at h
    simp only [canonFields] at hc
    cases h1 : dec t bs with
    | none => simp [h1] at h
    | some p =>
      obtain ⟨v, r1⟩ := p
      simp only [h1] at h hc
      cases h2 : decFields ts r1 with
      | none => simp [h2] at h
      | some p2 =>
        obtain ⟨vs2, r2⟩ := p2
        simp [h2] at h; obtain ⟨rfl, rfl⟩ := h
        simp only [Bool.and_eq_true] at hc
        obtain ⟨a, ha, hal⟩ := dec_canon t bs v r1 h1 hc.1
        obtain ⟨b, hb, hbl⟩ := decFields_canon ts r1 vs2 r2 h2 hc.2
        exact ⟨a ++ b, by simp [encFields, ha, hb], by rw [hal, hbl, List.append_assoc]⟩

theorem decArm_canon : ∀ (ks : List Nat) (ts : List Ty) (d : Nat) (bs : List UInt8),
    (∀ v r, decArm ks ts d bs = some (some (v, r)) → (∀ b, canonArm ks ts d bs = some b → b = true) →
      ∃ c, encArm ks ts d v = some (some c) ∧ bs = c ++ r) ∧
    (decArm ks ts d bs = none → canonArm ks ts d bs = none)
  | [], ts, d, bs => by simp [decArm, encArm, canonArm]
  | k :: ks, [], d, bs => by simp [decArm, encArm, canonArm]
  | k :: ks, t :: ts, d, bs => by
    simp only [decArm, encArm, canonArm]
    by_cases hk : k = d
    · simp only [hk, if_true]
      constructor
      · intro v r h hc
        simp at h
        obtain ⟨c, hcc, hl⟩ := dec_canon t bs v r h (hc _ rfl)
        exact ⟨c, by simp [hcc], hl⟩
      · intro h; simp at h
    · simp only [hk, if_false]
      exact decArm_canon ks ts d bs
end

end GoNfsd.Model.Xdr

/- No directory of the reference model M6 ever holds a name longer than the announced maximum: an invariant of every operation. -/
import GoNfsd.Lemmas.Refs

namespace GoNfsd.Model.Fs
open GoNfsd.Gen.Consts

def NamesShort (x : Inode) : Prop := ∀ (k : Nat) (sl : Slot), x.slots[k]? = some sl → sl.name.length ≤ MAXNAMELEN

def AllNamesShort (s : FS) : Prop := ∀ i, NamesShort (s.get i)

theorem putSlot_short (slots : List Slot) (i : Nat) (x : Slot) (hx : x.name.length ≤ MAXNAMELEN)
    (h : ∀ (k : Nat) (sl : Slot), slots[k]? = some sl → sl.name.length ≤ MAXNAMELEN) :
    ∀ (k : Nat) (sl : Slot), (putSlot slots i x)[k]? = some sl → sl.name.length ≤ MAXNAMELEN := by
  intro k sl hk
  unfold putSlot at hk
  split at hk
  · rw [List.getElem?_append] at hk
    split at hk
    · exact h k sl hk
    · have : sl = x := by
        cases hh : [x][k - slots.length]? with
        | none => rw [hh] at hk; cases hk
        | some y =>
          rw [hh] at hk
          have := List.mem_of_getElem? hh
          simp at this; cases hk; exact this
      rw [this]; exact hx
  · rw [List.getElem?_set] at hk
    split at hk
    · split at hk
      · cases hk; exact hx
      · cases hk
    · exact h k sl hk

theorem set_free_short (slots : List Slot) (i : Nat)
    (h : ∀ (k : Nat) (sl : Slot), slots[k]? = some sl → sl.name.length ≤ MAXNAMELEN) :
    ∀ (k : Nat) (sl : Slot), (slots.set i freeSlot)[k]? = some sl → sl.name.length ≤ MAXNAMELEN := by
  intro k sl hk
  rw [List.getElem?_set] at hk
  split at hk
  · split at hk
    · cases hk; simp [freeSlot]
    · cases hk
  · exact h k sl hk

theorem addName_short (d d' : Inode) (slot inum : Nat) (name : Bytes) (h : addName d slot inum name = some d')
    (hd : NamesShort d) : NamesShort d' := by
  unfold addName at h
  split at h
  · cases h
  · rename_i hg
    split at h
    · cases h
    · simp only [Option.some.injEq] at h; subst h
      exact putSlot_short _ _ _ (by simp only; omega) hd

theorem remNameAt_short (d : Inode) (idx : Nat) (hd : NamesShort d) : NamesShort (remNameAt d idx) :=
  set_free_short _ _ hd

theorem freeInode_short (d : Inode) : NamesShort (freeInode d) := by
  intro k sl h; simp [freeInode] at h

theorem freshInode_short (kind gen inum parent : Nat) (t : Array UInt8) : NamesShort (freshInode kind gen inum parent t) := by
  intro k sl h
  unfold freshInode at h
  split at h
  · cases k with
    | zero => simp at h; subst h; simp [MAXNAMELEN]
    | succ k =>
      cases k with
      | zero => simp at h; subst h; simp [MAXNAMELEN]
      | succ k => simp at h
  · split at h <;> simp at h

theorem doCreate_short (s : FS) (c : Choice) (dfh name : Bytes) (kind : Nat) (t : Array UInt8) (i : Nat)
    (h : AllNamesShort s) : NamesShort ((doCreate s c dfh name kind t).1.get i) := by
  have hi := h i
  unfold doCreate
  grind (splits := 40) [get_set, → addName_short, freshInode_short, AllNamesShort]

theorem doRemove_short (s : FS) (dfh name : Bytes) (isdir : Bool) (i : Nat)
    (h : AllNamesShort s) : NamesShort ((doRemove s dfh name isdir).1.get i) := by
  have hi := h i
  unfold doRemove
  grind (splits := 40) [get_set, remNameAt_short, freeInode_short, AllNamesShort]

theorem unlinkTarget_short (s s1 : FS) (td fino : Nat) (toL : Option (Nat × Nat)) (i : Nat)
    (hu : unlinkTarget s td fino toL = some s1) (h : AllNamesShort s) : NamesShort (s1.get i) := by
  have hi := h i
  unfold unlinkTarget at hu
  grind (splits := 40) [get_set, remNameAt_short, freeInode_short, AllNamesShort]

theorem moveName_short (s1 s3 : FS) (c : Choice) (fd fidx td fino : Nat) (tname : Bytes) (r : Reply) (i : Nat)
    (hm : moveName s1 c fd fidx td fino tname = some (s3, r)) (h : AllNamesShort s1) : NamesShort (s3.get i) := by
  have hi := h i
  unfold moveName at hm
  grind (splits := 40) [get_set, remNameAt_short, → addName_short, AllNamesShort]

theorem doRename_short (s : FS) (c : Choice) (ffh fname tfh tname : Bytes) (i : Nat)
    (h : AllNamesShort s) : NamesShort ((doRename s c ffh fname tfh tname).1.get i) := by
  unfold doRename
  split
  · exact h i
  · split
    · exact h i
    · split
      · exact h i
      · split
        · exact h i
        · split
          · exact h i
          · split
            · exact h i
            · rename_i s1 hs1
              split
              · exact h i
              · exact h i
              · rename_i s3 r hne hm
                have h1 : AllNamesShort s1 := fun j => unlinkTarget_short _ _ _ _ _ j hs1 h
                exact moveName_short _ _ _ _ _ _ _ _ _ i hm h1

theorem step_short (s : FS) (op : Op) (c : Choice) (i : Nat) (h : AllNamesShort s) :
    NamesShort ((step s op c).1.get i) := by
  have hi := h i
  cases op <;> simp only [step]
  case create dfh name mode =>
    split
    · exact hi
    · exact doCreate_short _ _ _ _ _ _ _ h
  case mkdir => exact doCreate_short _ _ _ _ _ _ _ h
  case symlink => exact doCreate_short _ _ _ _ _ _ _ h
  case remove => exact doRemove_short _ _ _ _ _ h
  case rmdir => exact doRemove_short _ _ _ _ _ h
  case rename => exact doRename_short _ _ _ _ _ _ _ h
  all_goals (unfold NamesShort at *; grind (splits := 40) [get_set, resize, AllNamesShort, NamesShort])

theorem run_short (s : FS) (ops : List (Op × Choice)) (h : AllNamesShort s) : AllNamesShort (run s ops).1 := by
  induction ops generalizing s with
  | nil => exact h
  | cons x rest ih =>
    obtain ⟨op, c⟩ := x
    simp only [run]
    exact ih _ (fun i => step_short s op c i h)

theorem mkfs_short (u : Bool) (sz : Nat) : AllNamesShort (mkfs u sz) := by
  intro i k sl h
  simp only [mkfs, FS.get] at h
  split at h
  · cases k with
    | zero => simp at h; subst h; simp [MAXNAMELEN]
    | succ k =>
      cases k with
      | zero => simp at h; subst h; simp [MAXNAMELEN]
      | succ k => simp at h
  · simp at h

end GoNfsd.Model.Fs

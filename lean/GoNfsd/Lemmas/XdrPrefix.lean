/- The XDR decoder reads a message from the front and never looks further than what it consumes:
   if `dec t bs` succeeds it succeeds in the same way on every extension of `bs`.  With the
   round trip this gives prefix-freeness: no proper prefix of an encoding decodes. -/
import GoNfsd.Lemmas.XdrBound
import GoNfsd.Lemmas.XdrRoundtrip

namespace GoNfsd.Model.Xdr

theorem takeN_ext {n : Nat} {bs a r : List UInt8} (ext : List UInt8) (h : takeN n bs = some (a, r)) :
    takeN n (bs ++ ext) = some (a, r ++ ext) := by
  unfold takeN at h ⊢
  split at h
  · simp at h
  · rename_i hl
    simp at h
    obtain ⟨rfl, rfl⟩ := h
    have hle : n ≤ bs.length := by omega
    rw [if_neg (by simp; omega)]
    simp [List.take_append_of_le_length hle, List.drop_append_of_le_length hle]

theorem decBytes_ext {max : Option Nat} {bs : List UInt8} {v : Val} {r : List UInt8} (ext : List UInt8)
    (h : decBytes max bs = some (v, r)) : decBytes max (bs ++ ext) = some (v, r ++ ext) := by
  unfold decBytes at h ⊢
  cases h1 : takeN 4 bs with
  | none => simp [h1] at h
  | some p =>
    obtain ⟨w, r1⟩ := p
    simp only [h1] at h
    rw [takeN_ext ext h1]
    simp only []
    split at h
    · rename_i hok
      rw [if_pos hok]
      cases h2 : takeN (beNat w) r1 with
      | none => simp [h2] at h
      | some p2 =>
        obtain ⟨d, r2⟩ := p2
        simp only [h2] at h
        rw [takeN_ext ext h2]
        simp only []
        cases h3 : takeN (padLen (beNat w)) r2 with
        | none => simp [h3] at h
        | some p3 =>
          obtain ⟨pd, r3⟩ := p3
          simp [h3] at h
          obtain ⟨rfl, rfl⟩ := h
          rw [takeN_ext ext h3]
          simp
    · simp at h

theorem decNums_ext : ∀ (k : Nat) (bs : List UInt8) (ns : List Nat) (r ext : List UInt8),
    decNums k bs = some (ns, r) → decNums k (bs ++ ext) = some (ns, r ++ ext) := by
  intro k
  induction k with
  | zero => intro bs ns r ext h; simp [decNums] at h ⊢; obtain ⟨rfl, rfl⟩ := h; simp
  | succ k ih =>
    intro bs ns r ext h
    simp only [decNums] at h ⊢
    cases h1 : takeN 4 bs with
    | none => simp [h1] at h
    | some p =>
      obtain ⟨w, r1⟩ := p
      simp only [h1] at h
      rw [takeN_ext ext h1]
      simp only []
      cases h2 : decNums k r1 with
      | none => simp [h2] at h
      | some p2 =>
        obtain ⟨ns', r2⟩ := p2
        simp [h2] at h
        obtain ⟨rfl, rfl⟩ := h
        rw [ih r1 ns' r2 ext h2]

/-- the chain loop: stable under extension of the input and under more fuel -/
theorem decChain_ext (decElem : List UInt8 → Option (Val × List UInt8))
    (hel : ∀ b v r ext, decElem b = some (v, r) → decElem (b ++ ext) = some (v, r ++ ext)) :
    ∀ (fuel fuel' : Nat) (bs : List UInt8) (vs : List Val) (r ext : List UInt8), fuel ≤ fuel' →
      decChainWith decElem fuel bs = some (vs, r) →
      decChainWith decElem fuel' (bs ++ ext) = some (vs, r ++ ext) := by
  intro fuel
  induction fuel with
  | zero => intro fuel' bs vs r ext _ h; simp [decChainWith] at h
  | succ f ih =>
    intro fuel' bs vs r ext hf h
    obtain ⟨g, rfl⟩ : ∃ g, fuel' = g + 1 := ⟨fuel' - 1, by omega⟩
    simp only [decChainWith] at h ⊢
    cases h1 : takeN 4 bs with
    | none => simp [h1] at h
    | some p =>
      obtain ⟨w, r1⟩ := p
      simp only [h1] at h
      rw [takeN_ext ext h1]
      simp only []
      split at h
      · rename_i hz
        rw [if_pos hz]
        simp at h; obtain ⟨rfl, rfl⟩ := h; rfl
      · rename_i hz
        rw [if_neg hz]
        cases h2 : decElem r1 with
        | none => simp [h2] at h
        | some p2 =>
          obtain ⟨v, r2⟩ := p2
          simp only [h2] at h
          rw [hel r1 v r2 ext h2]
          simp only []
          cases h3 : decChainWith decElem f r2 with
          | none => simp [h3] at h
          | some p3 =>
            obtain ⟨vs', r3⟩ := p3
            simp [h3] at h
            obtain ⟨rfl, rfl⟩ := h
            rw [ih g r2 vs' r3 ext (by omega) h3]

mutual
theorem dec_ext : ∀ (t : Ty) (bs : List UInt8) (v : Val) (r ext : List UInt8),
    dec t bs = some (v, r) → dec t (bs ++ ext) = some (v, r ++ ext)
  | .u32, bs, v, r, ext, h => by
    simp only [dec] at h ⊢
    cases h1 : takeN 4 bs with
    | none => simp [h1] at h
    | some p => simp [h1] at h; obtain ⟨rfl, rfl⟩ := h; rw [takeN_ext ext h1]; rfl
  | .u64, bs, v, r, ext, h => by
    simp only [dec] at h ⊢
    cases h1 : takeN 8 bs with
    | none => simp [h1] at h
    | some p => simp [h1] at h; obtain ⟨rfl, rfl⟩ := h; rw [takeN_ext ext h1]; rfl
  | .bool, bs, v, r, ext, h => by
    simp only [dec] at h ⊢
    cases h1 : takeN 4 bs with
    | none => simp [h1] at h
    | some p => simp [h1] at h; obtain ⟨rfl, rfl⟩ := h; rw [takeN_ext ext h1]; rfl
  | .str max, bs, v, r, ext, h => by simp only [dec] at h ⊢; exact decBytes_ext ext h
  | .opaqueVar max, bs, v, r, ext, h => by simp only [dec] at h ⊢; exact decBytes_ext ext h
  | .opaqueFix n, bs, v, r, ext, h => by
    simp only [dec] at h ⊢
    cases h1 : takeN n bs with
    | none => simp [h1] at h
    | some p =>
      obtain ⟨d, r1⟩ := p
      simp only [h1] at h
      rw [takeN_ext ext h1]
      simp only []
      cases h2 : takeN (padLen n) r1 with
      | none => simp [h2] at h
      | some p2 =>
        simp [h2] at h; obtain ⟨rfl, rfl⟩ := h
        rw [takeN_ext ext h2]; rfl
  | .arrU32 max, bs, v, r, ext, h => by
    simp only [dec] at h ⊢
    cases h1 : takeN 4 bs with
    | none => simp [h1] at h
    | some p =>
      obtain ⟨w, r1⟩ := p
      simp only [h1] at h
      rw [takeN_ext ext h1]
      simp only []
      split at h
      · rename_i hok
        rw [if_pos hok]
        cases h2 : decNums (beNat w) r1 with
        | none => simp [h2] at h
        | some p2 =>
          obtain ⟨ns, r2⟩ := p2
          simp [h2] at h; obtain ⟨rfl, rfl⟩ := h
          rw [decNums_ext _ _ _ _ ext h2]; rfl
      · simp at h
  | .struct fs, bs, v, r, ext, h => by
    simp only [dec] at h ⊢
    cases h1 : decFields fs bs with
    | none => simp [h1] at h
    | some p =>
      obtain ⟨vs, r1⟩ := p
      simp [h1] at h; obtain ⟨rfl, rfl⟩ := h
      rw [decFields_ext fs bs vs r1 ext h1]; rfl
  | .unionU32 keys arms hasDflt dflt, bs, v, r, ext, h => by
    simp only [dec] at h ⊢
    cases h1 : takeN 4 bs with
    | none => simp [h1] at h
    | some p =>
      obtain ⟨w, r1⟩ := p
      simp only [h1] at h
      rw [takeN_ext ext h1]
      simp only []
      cases h2 : decArm keys arms (beNat w) r1 with
      | some res =>
        simp only [h2] at h
        cases res with
        | none => simp at h
        | some p2 =>
          obtain ⟨v2, r2⟩ := p2
          simp at h; obtain ⟨rfl, rfl⟩ := h
          rw [(decArm_ext keys arms (beNat w) r1 ext).1 v2 r2 h2]; rfl
      | none =>
        simp only [h2] at h
        rw [(decArm_ext keys arms (beNat w) r1 ext).2 h2]
        simp only []
        split at h
        · rename_i hd
          rw [if_pos hd]
          cases h3 : dec dflt r1 with
          | none => simp [h3] at h
          | some p3 =>
            obtain ⟨v3, r3⟩ := p3
            simp [h3] at h; obtain ⟨rfl, rfl⟩ := h
            rw [dec_ext dflt r1 v3 r3 ext h3]; rfl
        · rename_i hd
          rw [if_neg hd]
          simp at h; obtain ⟨rfl, rfl⟩ := h; rfl
  | .unionBool t f, bs, v, r, ext, h => by
    simp only [dec] at h ⊢
    cases h1 : takeN 4 bs with
    | none => simp [h1] at h
    | some p =>
      obtain ⟨w, r1⟩ := p
      simp only [h1] at h
      rw [takeN_ext ext h1]
      simp only []
      split at h
      · rename_i hb
        rw [if_pos hb]
        cases h3 : dec t r1 with
        | none => simp [h3] at h
        | some p3 =>
          obtain ⟨v3, r3⟩ := p3
          simp [h3] at h; obtain ⟨rfl, rfl⟩ := h
          rw [dec_ext t r1 v3 r3 ext h3]; rfl
      · rename_i hb
        rw [if_neg hb]
        cases h3 : dec f r1 with
        | none => simp [h3] at h
        | some p3 =>
          obtain ⟨v3, r3⟩ := p3
          simp [h3] at h; obtain ⟨rfl, rfl⟩ := h
          rw [dec_ext f r1 v3 r3 ext h3]; rfl
  | .chain elem, bs, v, r, ext, h => by
    simp only [dec] at h ⊢
    cases h1 : decChainWith (fun b => (decFields elem b).map fun p => (Val.struct p.1, p.2)) bs.length bs with
    | none => simp [h1] at h
    | some p =>
      obtain ⟨vs, r1⟩ := p
      simp [h1] at h; obtain ⟨rfl, rfl⟩ := h
      have := decChain_ext (fun b => (decFields elem b).map fun p => (Val.struct p.1, p.2)) (by
        intro b v' r' e hb
        cases h2 : decFields elem b with
        | none => simp [h2] at hb
        | some p2 =>
          obtain ⟨vs2, r2⟩ := p2
          simp [h2] at hb; obtain ⟨rfl, rfl⟩ := hb
          simp [decFields_ext elem b vs2 r2 e h2])
        bs.length (bs ++ ext).length bs vs r1 ext (by simp) h1
      rw [this]; rfl

theorem decFields_ext : ∀ (ts : List Ty) (bs : List UInt8) (vs : List Val) (r ext : List UInt8),
    decFields ts bs = some (vs, r) → decFields ts (bs ++ ext) = some (vs, r ++ ext)
  | [], bs, vs, r, ext, h => by simp [decFields] at h ⊢; obtain ⟨rfl, rfl⟩ := h; simp
  | t :: ts, bs, vs, r, ext, h => by
    simp only [decFields] at h ⊢
    cases h1 : dec t bs with
    | none => simp [h1] at h
    | some p =>
      obtain ⟨v, r1⟩ := p
      simp only [h1] at h
      rw [dec_ext t bs v r1 ext h1]
      simp only []
      cases h2 : decFields ts r1 with
      | none => simp [h2] at h
      | some p2 =>
        obtain ⟨vs2, r2⟩ := p2
        simp [h2] at h; obtain ⟨rfl, rfl⟩ := h
        rw [decFields_ext ts r1 vs2 r2 ext h2]

theorem decArm_ext : ∀ (ks : List Nat) (ts : List Ty) (d : Nat) (bs ext : List UInt8),
    (∀ v r, decArm ks ts d bs = some (some (v, r)) → decArm ks ts d (bs ++ ext) = some (some (v, r ++ ext))) ∧
    (decArm ks ts d bs = none → decArm ks ts d (bs ++ ext) = none)
  | [], ts, d, bs, ext => by simp [decArm]
  | k :: ks, [], d, bs, ext => by simp [decArm]
  | k :: ks, t :: ts, d, bs, ext => by
    simp only [decArm]
    by_cases hk : k = d
    · simp only [hk, if_true]
      constructor
      · intro v r h
        simp at h
        simp [dec_ext t bs v r ext h]
      · intro h; simp at h
    · simp only [hk, if_false]
      exact decArm_ext ks ts d bs ext
end

/-- No proper prefix of an encoding decodes: a message cut short anywhere — inside a word, a
    string, a union arm, an entry list — is refused, for every type descriptor. -/
theorem no_proper_prefix_decodes (t : Ty) (v : Val) (bs p q : List UInt8) (h : enc t v = some bs)
    (hp : bs = p ++ q) (hq : q ≠ []) : dec t p = none := by
  cases hd : dec t p with
  | none => rfl
  | some res =>
    obtain ⟨v', r⟩ := res
    exfalso
    have h1 := dec_ext t p v' r q hd
    have h2 := dec_enc t v bs [] h
    rw [List.append_nil, hp, h1] at h2
    simp at h2
    exact hq h2.2.2

end GoNfsd.Model.Xdr

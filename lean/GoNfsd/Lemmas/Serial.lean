import GoNfsd.Model.Serial

namespace GoNfsd.Model.Serial

/-- the effect of a list of actions on one object -/
def applyOn : List Act → Nat → Val → Val
  | [], _, v => v
  | a :: rest, o, v => applyOn rest o (if a.obj = o then a.f v else v)

theorem applyOn_append (l : List Act) (a : Act) (o : Nat) (v : Val) :
    applyOn (l ++ [a]) o v = if a.obj = o then a.f (applyOn l o v) else applyOn l o v := by
  induction l generalizing v with
  | nil => simp [applyOn]
  | cons b rest ih => simp only [List.cons_append, applyOn]; exact ih _

theorem applyOn_untouched (l : List Act) (o : Nat) (v : Val) (h : ∀ a ∈ l, a.obj ≠ o) : applyOn l o v = v := by
  induction l generalizing v with
  | nil => rfl
  | cons b rest ih =>
    simp only [applyOn]
    have hb : b.obj ≠ o := h b (by simp)
    simp only [hb, if_false]
    exact ih v (fun a ha => h a (List.mem_cons_of_mem _ ha))

theorem runSerial_state (t : Nat) (l : List Act) (c : Nat → Val) (o : Nat) :
    (runSerial t l c).1 o = applyOn l o (c o) := by
  induction l generalizing c with
  | nil => rfl
  | cons a rest ih =>
    simp only [runSerial, applyOn]
    rw [ih]
    by_cases h : o = a.obj
    · subst h; simp
    · have : ¬ a.obj = o := fun e => h e.symm
      simp [h, this]

/-- the values a serial run reads depend only on the objects it touches -/
theorem runSerial_reads_congr (t : Nat) (l : List Act) (c c' : Nat → Val)
    (h : ∀ a ∈ l, c a.obj = c' a.obj) : (runSerial t l c).2 = (runSerial t l c').2 := by
  induction l generalizing c c' with
  | nil => rfl
  | cons a rest ih =>
    simp only [runSerial]
    have ha := h a (by simp)
    rw [ha]
    congr 1
    apply ih
    intro b hb
    have hb' := h b (List.mem_cons_of_mem _ hb)
    by_cases hbo : b.obj = a.obj
    · simp [hbo, ha]
    · simp [hbo, hb']

theorem runSerial_reads_append (t : Nat) (l : List Act) (a : Act) (c : Nat → Val) :
    (runSerial t (l ++ [a]) c).2 = (runSerial t l c).2 ++ [(t, a.obj, applyOn l a.obj (c a.obj))] := by
  induction l generalizing c with
  | nil => simp [runSerial, applyOn]
  | cons b rest ih =>
    simp only [List.cons_append, runSerial, applyOn]
    rw [ih]
    by_cases h : a.obj = b.obj
    · simp [h]
    · have : ¬ b.obj = a.obj := fun e => h e.symm
      simp [h, this]

structure Inv (s : St) : Prop where
  /-- an object nobody holds is as the committed transactions left it -/
  free_eq : ∀ o, s.held o = none → s.A o = s.C o
  /-- an object somebody holds differs from that only by what the holder has done to it -/
  held_eq : ∀ o t, s.held o = some t → s.A o = applyOn (s.pend t) o (s.C o)
  /-- a transaction has touched only objects it holds -/
  pend_held : ∀ t a, a ∈ s.pend t → s.held a.obj = some t
  /-- what each transaction has read so far is what it reads in the serial execution -/
  reads_eq : ∀ t, s.reads.filter (fun r => r.1 == t) =
    s.sreads.filter (fun r => r.1 == t) ++ (runSerial t (s.pend t) s.C).2

theorem runSerial_reads_tag (t : Nat) (l : List Act) (c : Nat → Val) : ∀ r ∈ (runSerial t l c).2, r.1 = t := by
  induction l generalizing c with
  | nil => intro r hr; cases hr
  | cons a rest ih =>
    intro r hr
    simp only [runSerial, List.mem_cons] at hr
    rcases hr with h | h
    · rw [h]
    · exact ih _ r h

theorem filter_tag_eq (t : Nat) (l : List (Nat × Nat × Val)) (h : ∀ r ∈ l, r.1 = t) :
    l.filter (fun r => r.1 == t) = l := by
  apply List.filter_eq_self.2
  intro r hr; simp [h r hr]

theorem filter_tag_ne (t u : Nat) (l : List (Nat × Nat × Val)) (h : ∀ r ∈ l, r.1 = u) (hne : u ≠ t) :
    l.filter (fun r => r.1 == t) = [] := by
  apply List.filter_eq_nil_iff.2
  intro r hr
  simp [h r hr, hne]

theorem init_inv (v : Nat → Val) : Inv (init v) := by
  refine ⟨fun _ _ => rfl, ?_, ?_, ?_⟩
  · intro o t h; simp [init] at h
  · intro t a h; simp [init] at h
  · intro t; simp [init, runSerial]

theorem step_inv (s : St) (e : Ev) (h : Inv s) (ha : Allowed s e) : Inv (step s e) := by
  obtain ⟨h1, h2, h3, h4⟩ := h
  cases e with
  | acq t o =>
    have hfree : s.held o = none := ha
    have hnp : ∀ u a, a ∈ s.pend u → a.obj ≠ o := by
      intro u a hm he
      have := h3 u a hm
      rw [he, hfree] at this; cases this
    refine ⟨?_, ?_, ?_, h4⟩
    · intro x hx
      simp only [step] at hx ⊢
      by_cases hxo : x = o
      · simp [hxo] at hx
      · simp only [hxo, if_false] at hx; exact h1 x hx
    · intro x u hx
      simp only [step] at hx ⊢
      by_cases hxo : x = o
      · simp only [hxo, if_true, Option.some.injEq] at hx
        subst hx
        rw [hxo, applyOn_untouched _ _ _ (hnp t)]
        exact h1 o hfree
      · simp only [hxo, if_false] at hx; exact h2 x u hx
    · intro u a hm
      simp only [step] at hm ⊢
      have := h3 u a hm
      by_cases hao : a.obj = o
      · exact absurd hao (hnp u a hm)
      · simp only [hao, if_false]; exact this
  | act t a =>
    have hheld : s.held a.obj = some t := ha
    refine ⟨?_, ?_, ?_, ?_⟩
    · intro o ho
      simp only [step] at ho ⊢
      have hne : o ≠ a.obj := by intro he; rw [he, hheld] at ho; cases ho
      simp only [hne, if_false]; exact h1 o ho
    · intro o u ho
      simp only [step] at ho ⊢
      by_cases hoa : o = a.obj
      · subst hoa
        rw [hheld] at ho
        simp only [Option.some.injEq] at ho
        subst ho
        simp only [if_true, applyOn_append]
        rw [h2 a.obj t hheld]
      · simp only [hoa, if_false]
        by_cases hut : u = t
        · subst hut
          simp only [if_true, applyOn_append]
          have : ¬ a.obj = o := fun e => hoa e.symm
          simp only [this, if_false]
          exact h2 o u ho
        · simp only [hut, if_false]; exact h2 o u ho
    · intro u b hm
      simp only [step] at hm ⊢
      by_cases hut : u = t
      · subst hut
        simp only [if_true, List.mem_append, List.mem_singleton] at hm
        rcases hm with hm | hm
        · exact h3 u b hm
        · rw [hm]; exact hheld
      · simp only [hut, if_false] at hm; exact h3 u b hm
    · intro u
      simp only [step]
      by_cases hut : u = t
      · subst hut
        simp only [if_true, List.filter_append, runSerial_reads_append]
        rw [h4 u, ← h2 a.obj u hheld]
        simp
      · simp only [hut, if_false, List.filter_append]
        rw [h4 u]
        have : ((t, a.obj, s.A a.obj) : Nat × Nat × Val).1 ≠ u := fun e => hut e.symm
        simp [this]
  | commit t =>
    have hC : ∀ o, (runSerial t (s.pend t) s.C).1 o = applyOn (s.pend t) o (s.C o) :=
      fun o => runSerial_state t (s.pend t) s.C o
    have hother : ∀ o, s.held o ≠ some t → (runSerial t (s.pend t) s.C).1 o = s.C o := by
      intro o ho
      rw [hC o]
      apply applyOn_untouched
      intro a hm he
      have := h3 t a hm
      rw [he] at this; exact ho this
    refine ⟨?_, ?_, ?_, ?_⟩
    · intro o ho
      simp only [step] at ho ⊢
      by_cases hht : s.held o = some t
      · rw [hC o]; exact h2 o t hht
      · simp only [hht, if_false] at ho
        rw [hother o hht]; exact h1 o ho
    · intro o u ho
      simp only [step] at ho ⊢
      by_cases hht : s.held o = some t
      · simp [hht] at ho
      · simp only [hht, if_false] at ho
        have hut : u ≠ t := by intro e; rw [e] at ho; exact hht ho
        simp only [hut, if_false]
        rw [hother o hht]; exact h2 o u ho
    · intro u a hm
      simp only [step] at hm ⊢
      by_cases hut : u = t
      · simp [hut] at hm
      · simp only [hut, if_false] at hm
        have := h3 u a hm
        have hnt : s.held a.obj ≠ some t := by rw [this]; intro e; cases e; exact hut rfl
        simp only [hnt, if_false]; exact this
    · intro u
      simp only [step]
      by_cases hut : u = t
      · subst hut
        simp only [if_true, runSerial, List.append_nil, List.filter_append]
        rw [h4 u, filter_tag_eq u _ (runSerial_reads_tag u _ _)]
      · simp only [hut, if_false, List.filter_append]
        rw [filter_tag_ne u t _ (runSerial_reads_tag t _ _) (fun e => hut e.symm), List.append_nil, h4 u]
        congr 1
        apply runSerial_reads_congr
        intro a hm
        have := h3 u a hm
        have hnt : s.held a.obj ≠ some t := by rw [this]; intro e; cases e; exact hut rfl
        exact (hother a.obj hnt).symm

theorem run_inv (s : St) (es : List Ev) (h : Inv s) (ha : AllowedAll s es) : Inv (run s es) := by
  induction es generalizing s with
  | nil => exact h
  | cons e rest ih => exact ih _ (step_inv s e h ha.1) ha.2


/-! ### the serial execution, spelled out -/

/-- the transactions of a history in commit order, each with everything it did -/
def commitLog (s : St) : List Ev → List (Nat × List Act)
  | [] => []
  | e :: rest =>
    (match e with
      | .commit t => [(t, s.pend t)]
      | _ => []) ++ commitLog (step s e) rest

/-- run whole transactions one after the other -/
def serialExec (c : Nat → Val) : List (Nat × List Act) → (Nat → Val) × List (Nat × Nat × Val)
  | [] => (c, [])
  | (t, l) :: rest =>
    ((serialExec (runSerial t l c).1 rest).1, (runSerial t l c).2 ++ (serialExec (runSerial t l c).1 rest).2)

theorem run_serial_view (es : List Ev) : ∀ (s : St),
    (run s es).C = (serialExec s.C (commitLog s es)).1 ∧
    (run s es).sreads = s.sreads ++ (serialExec s.C (commitLog s es)).2 := by
  induction es with
  | nil => intro s; simp [run, commitLog, serialExec]
  | cons e rest ih =>
    intro s
    obtain ⟨i1, i2⟩ := ih (step s e)
    simp only [run]
    rw [i1, i2]
    cases e with
    | acq t o => simp [commitLog, step]
    | act t a => simp [commitLog, step]
    | commit t => simp [commitLog, step, serialExec, List.append_assoc]

end GoNfsd.Model.Serial

/-
The bookkeeping invariant of a file on M7: nothing is mapped beyond what size and ShrinkSize
account for, so every later truncation or removal (which start from there) reaches every block.
Preserved by WRITE (also a short one), hole-filling READ, the finishing of a pending shrink and
SETATTR of the size.
-/
import GoNfsd.Lemmas.ShrinkTree

namespace GoNfsd.Model.BlockMap
open GoNfsd.Gen.Consts

theorem firstBn_posOf' (bn : Nat) : firstBn (posOf bn) = bn := by
  unfold posOf
  by_cases h1 : bn < NDIRECT
  · simp only [h1, if_true, firstBn]
  · by_cases h2 : bn - NDIRECT < NBLKBLK
    · simp only [h1, h2, if_true, if_false, firstBn]; omega
    · simp only [h1, h2, if_false, firstBn]
      have := Nat.div_add_mod (bn - NDIRECT - NBLKBLK) NBLKBLK
      omega

/-- mapping a block below `N` maps nothing from `N` on -/
theorem bmap_keeps_empty (s : S) (blks : List Nat) (bn N : Nat) (h : WFB s blks)
    (hbn : bn < NDIRECT + NBLKBLK + NBLKBLK * NBLKBLK) (hN : bn < N)
    (hemp : EmptyFrom s.st blks N) :
    EmptyFrom (bmap s blks bn).1.st (bmap s blks bn).2.1 N := by
  intro q hq hle
  rw [(bmap_ok s blks bn h hbn).above q hq (by rw [firstBn_posOf']; omega)]
  exact hemp q hq hle

theorem EmptyFrom.mono {st : Store} {blks : List Nat} {a b : Nat} (h : EmptyFrom st blks a) (hab : a ≤ b) :
    EmptyFrom st blks b := fun q hq hle => h q hq (by omega)

/-! ### cells only ever change to zero under `Shrink` -/

theorem free_cells (s : S) (b y x : Nat) : (s.free b).st y x = s.st y x ∨ (s.free b).st y x = 0 := by
  rw [free_st]
  split
  · exact Or.inl rfl
  · simp only [Store.zero]; split
    · exact Or.inr rfl
    · exact Or.inl rfl

theorem indshrink_cells (l : Nat) : ∀ (s : S) (root bn y x : Nat),
    (indshrink s root l bn).1.st y x = s.st y x ∨ (indshrink s root l bn).1.st y x = 0 := by
  induction l with
  | zero =>
    intro s root bn y x
    rw [indshrink_zero]; split <;> exact Or.inl rfl
  | succ l ih =>
    intro s root bn y x
    unfold indshrink
    by_cases hr : root = 0
    · simp [hr]
    · simp only [hr, if_false]
      by_cases hn : s.st root (bn / pow l) = 0
      · simp [hn]
      · simp only [ne_eq, hn, not_false_eq_true, if_true]
        generalize hres : indshrink s (s.st root (bn / pow l)) l (bn % pow l) = res
        have h1 := ih s (s.st root (bn / pow l)) (bn % pow l)
        rw [hres] at h1
        obtain ⟨s1, fr⟩ := res
        simp only at h1 ⊢
        by_cases hf : fr = 0
        · simp only [hf, not_true_eq_false, if_false]; exact h1 y x
        · simp only [hf, not_false_eq_true, if_true]
          have h2 := free_cells ({ s1 with st := s1.st.put root (bn / pow l) 0 } : S) fr y x
          rcases h2 with h2 | h2
          · rw [h2]
            simp only [Store.put]
            split
            · exact Or.inr rfl
            · exact h1 y x
          · exact Or.inr h2

theorem shrinkStep_cells (s : S) (blks : List Nat) (idx y x : Nat) :
    (shrinkStep s blks idx).1.st y x = s.st y x ∨ (shrinkStep s blks idx).1.st y x = 0 := by
  unfold shrinkStep
  by_cases h1 : idx < NDIRECT
  · simp only [h1, if_true]; exact free_cells _ _ _ _
  · simp only [h1, if_false]
    by_cases h2 : idx - NDIRECT < NBLKBLK
    · simp only [h2, if_true]
      generalize hres : indshrink s (blks.getD INDIRECT 0) 1 (idx - NDIRECT) = res
      have h := indshrink_cells 1 s (blks.getD INDIRECT 0) (idx - NDIRECT)
      rw [hres] at h
      obtain ⟨s1, fr⟩ := res
      simp only at h ⊢
      by_cases hf : fr = 0
      · simp only [hf, ne_eq, not_true_eq_false, if_false]; exact h y x
      · simp only [ne_eq, hf, not_false_eq_true, if_true]
        rcases free_cells s1 (blks.getD INDIRECT 0) y x with h2 | h2
        · rw [h2]; exact h y x
        · exact Or.inr h2
    · simp only [h2, if_false]
      generalize hres : indshrink s (blks.getD DINDIRECT 0) 2 (idx - NDIRECT - NBLKBLK) = res
      have h := indshrink_cells 2 s (blks.getD DINDIRECT 0) (idx - NDIRECT - NBLKBLK)
      rw [hres] at h
      obtain ⟨s1, fr⟩ := res
      simp only at h ⊢
      by_cases hf : fr = 0
      · simp only [hf, ne_eq, not_true_eq_false, if_false]; exact h y x
      · simp only [ne_eq, hf, not_false_eq_true, if_true]
        rcases free_cells s1 (blks.getD DINDIRECT 0) y x with h2 | h2
        · rw [h2]; exact h y x
        · exact Or.inr h2

theorem shrinkTo_cells (T N : Nat) : ∀ (s : S) (blks : List Nat) (y x : Nat),
    (shrinkTo s blks T N).1.st y x = s.st y x ∨ (shrinkTo s blks T N).1.st y x = 0 := by
  induction N with
  | zero => intro s blks y x; exact Or.inl rfl
  | succ n ih =>
    intro s blks y x
    unfold shrinkTo
    by_cases hT : T < n + 1
    · simp only [hT, if_true]
      rcases ih (shrinkStep s blks n).1 (shrinkStep s blks n).2 y x with h | h
      · rw [h]; exact shrinkStep_cells s blks n y x
      · exact Or.inr h
    · simp only [hT, if_false]; exact Or.inl trivial

/-! ### what is freed has been zeroed -/

theorem free_freed_zero (s : S) (b c : Nat) (h : c ∈ (s.free b).freed) :
    c ∈ s.freed ∨ ∀ x, (s.free b).st c x = 0 := by
  rw [free_freed] at h
  by_cases hb : b = 0
  · rw [if_pos hb] at h; exact Or.inl h
  · rw [if_neg hb, List.mem_cons] at h
    rcases h with h | h
    · right; intro x; rw [free_st, if_neg hb, h]; simp [Store.zero]
    · exact Or.inl h

theorem indshrink_freed_zero (l : Nat) : ∀ (s : S) (root bn c : Nat),
    c ∈ (indshrink s root l bn).1.freed → c ∈ s.freed ∨ ∀ x, (indshrink s root l bn).1.st c x = 0 := by
  induction l with
  | zero =>
    intro s root bn c h
    rw [indshrink_zero] at h
    split at h <;> exact Or.inl h
  | succ l ih =>
    intro s root bn c
    unfold indshrink
    by_cases hr : root = 0
    · simp only [hr, if_true]; exact Or.inl
    · simp only [hr, if_false]
      by_cases hn : s.st root (bn / pow l) = 0
      · simp only [hn, ne_eq, not_true_eq_false, if_false]; exact Or.inl
      · simp only [ne_eq, hn, not_false_eq_true, if_true]
        generalize hres : indshrink s (s.st root (bn / pow l)) l (bn % pow l) = res
        have h1 := ih s (s.st root (bn / pow l)) (bn % pow l) c
        rw [hres] at h1
        obtain ⟨s1, fr⟩ := res
        simp only at h1 ⊢
        by_cases hf : fr = 0
        · simp only [hf, not_true_eq_false, if_false]; exact h1
        · simp only [hf, not_false_eq_true, if_true]
          intro hc
          rcases free_freed_zero ({ s1 with st := s1.st.put root (bn / pow l) 0 } : S) fr c hc with h2 | h2
          · rcases h1 h2 with h3 | h3
            · exact Or.inl h3
            · right
              intro x
              rcases free_cells ({ s1 with st := s1.st.put root (bn / pow l) 0 } : S) fr c x with h4 | h4
              · rw [h4]
                simp only [Store.put]
                split
                · rfl
                · exact h3 x
              · exact h4
          · exact Or.inr h2

theorem shrinkStep_freed_zero (s : S) (blks : List Nat) (idx c : Nat)
    (h : c ∈ (shrinkStep s blks idx).1.freed) : c ∈ s.freed ∨ ∀ x, (shrinkStep s blks idx).1.st c x = 0 := by
  unfold shrinkStep at h ⊢
  by_cases h1 : idx < NDIRECT
  · simp only [h1, if_true] at h ⊢; exact free_freed_zero _ _ _ h
  · simp only [h1, if_false] at h ⊢
    by_cases h2 : idx - NDIRECT < NBLKBLK
    · simp only [h2, if_true] at h ⊢
      generalize hres : indshrink s (blks.getD INDIRECT 0) 1 (idx - NDIRECT) = res at h
      have hi := indshrink_freed_zero 1 s (blks.getD INDIRECT 0) (idx - NDIRECT) c
      rw [hres] at hi
      obtain ⟨s1, fr⟩ := res
      simp only at hi h ⊢
      by_cases hf : fr = 0
      · simp only [hf, ne_eq, not_true_eq_false, if_false] at h ⊢; exact hi h
      · simp only [ne_eq, hf, not_false_eq_true, if_true] at h ⊢
        rcases free_freed_zero s1 (blks.getD INDIRECT 0) c h with h3 | h3
        · rcases hi h3 with h4 | h4
          · exact Or.inl h4
          · right; intro x
            rcases free_cells s1 (blks.getD INDIRECT 0) c x with h5 | h5
            · rw [h5]; exact h4 x
            · exact h5
        · exact Or.inr h3
    · simp only [h2, if_false] at h ⊢
      generalize hres : indshrink s (blks.getD DINDIRECT 0) 2 (idx - NDIRECT - NBLKBLK) = res at h
      have hi := indshrink_freed_zero 2 s (blks.getD DINDIRECT 0) (idx - NDIRECT - NBLKBLK) c
      rw [hres] at hi
      obtain ⟨s1, fr⟩ := res
      simp only at hi h ⊢
      by_cases hf : fr = 0
      · simp only [hf, ne_eq, not_true_eq_false, if_false] at h ⊢; exact hi h
      · simp only [ne_eq, hf, not_false_eq_true, if_true] at h ⊢
        rcases free_freed_zero s1 (blks.getD DINDIRECT 0) c h with h3 | h3
        · rcases hi h3 with h4 | h4
          · exact Or.inl h4
          · right; intro x
            rcases free_cells s1 (blks.getD DINDIRECT 0) c x with h5 | h5
            · rw [h5]; exact h4 x
            · exact h5
        · exact Or.inr h3

/-- EVERY BLOCK THE RUN OF `Shrink` FREES IS ALL ZEROS AFTERWARDS -/
theorem shrinkTo_freed_zero (T N : Nat) : ∀ (s : S) (blks : List Nat) (c : Nat),
    c ∈ (shrinkTo s blks T N).1.freed → c ∈ s.freed ∨ ∀ x, (shrinkTo s blks T N).1.st c x = 0 := by
  induction N with
  | zero => intro s blks c h; exact Or.inl h
  | succ n ih =>
    intro s blks c
    unfold shrinkTo
    by_cases hT : T < n + 1
    · simp only [hT, if_true]
      intro h
      rcases ih (shrinkStep s blks n).1 (shrinkStep s blks n).2 c h with h1 | h1
      · rcases shrinkStep_freed_zero s blks n c h1 with h2 | h2
        · exact Or.inl h2
        · right; intro x
          rcases shrinkTo_cells T n (shrinkStep s blks n).1 (shrinkStep s blks n).2 c x with h3 | h3
          · rw [h3]; exact h2 x
          · exact h3
      · exact Or.inr h1
    · simp only [hT, if_false]; exact Or.inl

/-- THE RUN OF `Shrink` KEEPS THE TREE WELL-FORMED (with what the allocator still holds) -/
theorem shrinkTo_wf (s : S) (blks : List Nat) (T N : Nat) (h : WFB s blks) (hN : N ≤ MAXBLKS)
    (hemp : EmptyFrom s.st blks N) :
    WFB (shrinkTo s blks T N).1 (shrinkTo s blks T N).2 := by
  obtain ⟨hl, hinj, hp, _, hal⟩ := shrinkTo_ok T N s blks h.len h.inj hN hemp
  refine ⟨hl, hinj, ?_, by rw [hal]; exact h.distinct⟩
  intro a ha ha0
  rw [hal] at ha
  obtain ⟨f1, f2⟩ := h.fresh a ha ha0
  refine ⟨?_, ?_⟩
  · intro p hpv
    rw [hp p hpv]
    split
    · exact Ne.symm ha0
    · exact f1 p hpv
  · intro i
    rcases shrinkTo_cells T N s blks a i with hc | hc
    · rw [hc]; exact f2 i
    · exact hc


/-! ### the inode-level operations -/

/-- the number of blocks size and ShrinkSize account for -/
def bound (ino : Ino) : Nat := max ino.shrink (roundUp ino.size)

structure InoOK (s : S) (ino : Ino) : Prop where
  wf : WFB s ino.blks
  le : bound ino ≤ MAXBLKS
  /-- NOTHING IS MAPPED BEYOND THE BOOKKEEPING -/
  empty : EmptyFrom s.st ino.blks (bound ino)

theorem roundUp_mul (k : Nat) : roundUp (k * BlockSize) = k := by
  simp only [roundUp, BlockSize]; omega

theorem roundUp_mono {a b : Nat} (h : a ≤ b) : roundUp a ≤ roundUp b := by
  simp only [roundUp, BlockSize]; omega

theorem lt_roundUp {bn sz : Nat} (h : bn * BlockSize < sz) : bn < roundUp sz := by
  simp only [roundUp, BlockSize] at *; omega

theorem roundUp_le {k sz : Nat} (h : sz ≤ k * BlockSize) : roundUp sz ≤ k := by
  simp only [roundUp, BlockSize] at *; omega

theorem le_roundUp {k sz : Nat} (h : k * BlockSize ≤ sz) : k ≤ roundUp sz := by
  simp only [roundUp, BlockSize] at *; omega

theorem writeBlocks_ok (bn n : Nat) : ∀ (s : S) (ino : Ino) (cnt E : Nat), WFB s ino.blks →
    EmptyFrom s.st ino.blks E → bn + cnt + n ≤ MAXBLKS →
    WFB (writeBlocks s ino bn n cnt).1 (writeBlocks s ino bn n cnt).2.1.blks ∧
    (writeBlocks s ino bn n cnt).2.1.size = ino.size ∧
    cnt ≤ (writeBlocks s ino bn n cnt).2.2 ∧ (writeBlocks s ino bn n cnt).2.2 ≤ cnt + n ∧
    ((writeBlocks s ino bn n cnt).2.2 = cnt + n →
      (writeBlocks s ino bn n cnt).2.1.shrink = ino.shrink ∧
      EmptyFrom (writeBlocks s ino bn n cnt).1.st (writeBlocks s ino bn n cnt).2.1.blks (max E (bn + cnt + n))) ∧
    ((writeBlocks s ino bn n cnt).2.2 < cnt + n →
      EmptyFrom (writeBlocks s ino bn n cnt).1.st (writeBlocks s ino bn n cnt).2.1.blks
        (max E (bn + (writeBlocks s ino bn n cnt).2.2 + 1)) ∧
      (writeBlocks s ino bn n cnt).2.1.shrink =
        (if (writeBlocks s ino bn n cnt).2.2 > 0 ∧ bn + (writeBlocks s ino bn n cnt).2.2 + 1 > ino.shrink
          then bn + (writeBlocks s ino bn n cnt).2.2 + 1 else ino.shrink)) := by
  induction n with
  | zero =>
    intro s ino cnt E hw he _
    simp only [writeBlocks]
    refine ⟨hw, trivial, Nat.le_refl _, Nat.le_refl _, fun _ => ⟨trivial, he.mono (Nat.le_max_left _ _)⟩, fun h => absurd h (Nat.lt_irrefl _)⟩
  | succ n ih =>
    intro s ino cnt E hw he hle
    have hbn : bn + cnt < NDIRECT + NBLKBLK + NBLKBLK * NBLKBLK := by rw [MAXBLKS_eq] at hle; omega
    have hok := bmap_ok s ino.blks (bn + cnt) hw hbn
    have hemp1 : EmptyFrom (bmap s ino.blks (bn + cnt)).1.st (bmap s ino.blks (bn + cnt)).2.1 (max E (bn + cnt + 1)) :=
      bmap_keeps_empty s ino.blks (bn + cnt) _ hw hbn (by omega) (he.mono (Nat.le_max_left _ _))
    unfold writeBlocks
    generalize hres : bmap s ino.blks (bn + cnt) = res at hok hemp1
    obtain ⟨s', blks', blkno, fl⟩ := res
    simp only at hok hemp1 ⊢
    by_cases hb : blkno = 0
    · simp only [hb, if_true]
      refine ⟨hok.wf, trivial, Nat.le_refl _, by omega, fun h => absurd h (by omega), fun _ => ⟨hemp1, trivial⟩⟩
    · simp only [hb, if_false]
      obtain ⟨i1, i2, i3, i4, i5, i6⟩ := ih s' { ino with blks := blks' } (cnt + 1) (max E (bn + cnt + 1)) hok.wf hemp1 (by omega)
      refine ⟨i1, i2, by omega, by omega, ?_, ?_⟩
      · intro heq
        obtain ⟨j1, j2⟩ := i5 (by omega)
        refine ⟨j1, j2.mono ?_⟩
        omega
      · intro hlt
        obtain ⟨j1, j2⟩ := i6 (by omega)
        refine ⟨j1.mono ?_, j2⟩
        omega

theorem opWrite_ok (s : S) (ino : Ino) (bn n : Nat) (h : InoOK s ino) (hle : bn + n ≤ MAXBLKS)
    (hpos : (opWrite s ino bn n).2.2 > 0) : InoOK (opWrite s ino bn n).1 (opWrite s ino bn n).2.1 := by
  unfold opWrite at hpos ⊢
  obtain ⟨w1, w2, _, w4, w5, w6⟩ := writeBlocks_ok bn n s ino 0 (bound ino) h.wf h.empty (by omega)
  generalize hres : writeBlocks s ino bn n 0 = res at *
  obtain ⟨s', ino', cnt⟩ := res
  simp only at hpos w1 w2 w4 w5 w6 ⊢
  simp only [Nat.zero_add, Nat.add_zero] at w4 w5 w6
  have hble := h.le
  have hbdef : bound ino = max ino.shrink (roundUp ino.size) := rfl
  -- the bound after the write
  by_cases hall : cnt = n
  · obtain ⟨e1, e2⟩ := w5 hall
    by_cases hup : cnt > 0 ∧ (bn + cnt) * BlockSize > ino'.size
    · simp only [hup, and_self, if_true]
      have hb : bound { ino' with size := (bn + cnt) * BlockSize } = max (bound ino) (bn + n) := by
        simp only [bound, roundUp_mul, e1]
        have : roundUp ino.size ≤ bn + cnt := roundUp_le (by rw [← w2]; omega)
        omega
      refine ⟨w1, by rw [hb]; omega, ?_⟩
      rw [hb]; exact e2
    · simp only [hup, if_false]
      have hsz : bn + cnt ≤ roundUp ino'.size := by
        have : (bn + cnt) * BlockSize ≤ ino'.size := by
          rcases Nat.lt_or_ge ino'.size ((bn + cnt) * BlockSize) with hlt | hge
          · exact absurd ⟨hpos, hlt⟩ hup
          · exact hge
        exact le_roundUp this
      have hb : bound ino' = max (bound ino) (bn + n) := by
        simp only [bound, e1, w2] at hsz ⊢; omega
      refine ⟨w1, by rw [hb]; omega, ?_⟩
      rw [hb]; exact e2
  · obtain ⟨e1, e2⟩ := w6 (by omega)
    simp only [hpos, true_and] at e2
    have hshr : ino.shrink ≤ ino'.shrink ∧ bn + cnt + 1 ≤ ino'.shrink := by
      rw [e2]; split <;> omega
    by_cases hup : cnt > 0 ∧ (bn + cnt) * BlockSize > ino'.size
    · simp only [hup, and_self, if_true]
      have hb1 : max (bound ino) (bn + cnt + 1) ≤ bound { ino' with size := (bn + cnt) * BlockSize } := by
        simp only [bound, roundUp_mul]
        have : roundUp ino.size ≤ bn + cnt := roundUp_le (by rw [← w2]; omega)
        omega
      have hb2 : bound { ino' with size := (bn + cnt) * BlockSize } ≤ MAXBLKS := by
        simp only [bound, roundUp_mul]
        rw [e2]; split <;> omega
      exact ⟨w1, hb2, e1.mono hb1⟩
    · simp only [hup, if_false]
      have hb1 : max (bound ino) (bn + cnt + 1) ≤ bound ino' := by
        simp only [bound, w2]; omega
      have hb2 : bound ino' ≤ MAXBLKS := by
        simp only [bound, w2]
        rw [e2]; split <;> omega
      exact ⟨w1, hb2, e1.mono hb1⟩

theorem opReadBlock_ok (s : S) (ino : Ino) (bn : Nat) (h : InoOK s ino) :
    InoOK (opReadBlock s ino bn).1 (opReadBlock s ino bn).2 := by
  unfold opReadBlock
  by_cases hb : bn * BlockSize ≥ ino.size
  · simp only [hb, if_true]; exact h
  · simp only [hb, if_false]
    have hlt : bn < bound ino := by
      have := lt_roundUp (Nat.lt_of_not_ge hb)
      simp only [bound]; omega
    have hbn : bn < NDIRECT + NBLKBLK + NBLKBLK * NBLKBLK := by
      have := h.le; rw [MAXBLKS_eq] at this; omega
    have hok := bmap_ok s ino.blks bn h.wf hbn
    have hemp := bmap_keeps_empty s ino.blks bn (bound ino) h.wf hbn hlt h.empty
    generalize hres : bmap s ino.blks bn = res at hok hemp
    obtain ⟨s', blks', blkno, fl⟩ := res
    exact ⟨hok.wf, h.le, hemp⟩

theorem finishShrink_ok (s : S) (ino : Ino) (h : InoOK s ino) :
    InoOK (finishShrink s ino).1 (finishShrink s ino).2 := by
  unfold finishShrink
  by_cases hs : ino.shrink > roundUp ino.size
  · simp only [hs, if_true]
    have hb : bound ino = ino.shrink := by simp only [bound]; omega
    have hle := h.le
    have hemp := h.empty
    rw [hb] at hle hemp
    have hwf := shrinkTo_wf s ino.blks (roundUp ino.size) ino.shrink h.wf hle hemp
    obtain ⟨_, _, hp, _, _⟩ := shrinkTo_ok (roundUp ino.size) ino.shrink s ino.blks h.wf.len h.wf.inj hle hemp
    generalize hres : shrinkTo s ino.blks (roundUp ino.size) ino.shrink = res at hwf hp
    obtain ⟨s', blks'⟩ := res
    simp only at hwf hp ⊢
    refine ⟨hwf, by simp only [bound]; omega, ?_⟩
    intro q hq hge
    simp only [bound, Nat.max_self] at hge
    show ptr s'.st blks' q = 0
    rw [hp q hq, if_pos hge]
  · simp only [hs, if_false]; exact h

theorem opResize_ok (s : S) (ino : Ino) (sz : Nat) (h : InoOK s ino) (hsz : roundUp sz ≤ MAXBLKS) :
    InoOK (opResize s ino sz).1 (opResize s ino sz).2 := by
  unfold opResize
  have hold : (if ino.shrink > roundUp ino.size then ino.shrink else roundUp ino.size) = bound ino := by
    simp only [bound]; split <;> omega
  rw [hold]
  -- the partial last block
  have hstep : ∀ (s1 : S) (blks1 : List Nat),
      (s1, blks1) = (if sz < ino.size ∧ sz % BlockSize ≠ 0 then
          ((bmap s ino.blks (sz / BlockSize)).1, (bmap s ino.blks (sz / BlockSize)).2.1) else (s, ino.blks)) →
      WFB s1 blks1 ∧ EmptyFrom s1.st blks1 (bound ino) := by
    intro s1 blks1 he
    by_cases hc : sz < ino.size ∧ sz % BlockSize ≠ 0
    · rw [if_pos hc] at he
      simp only [Prod.mk.injEq] at he
      have hlt : sz / BlockSize < bound ino := by
        have : sz / BlockSize < roundUp ino.size := by
          simp only [roundUp, BlockSize] at *; omega
        simp only [bound]; omega
      have hbn : sz / BlockSize < NDIRECT + NBLKBLK + NBLKBLK * NBLKBLK := by
        have := h.le; rw [MAXBLKS_eq] at this; omega
      rw [he.1, he.2]
      exact ⟨(bmap_ok s ino.blks _ h.wf hbn).wf, bmap_keeps_empty s ino.blks _ _ h.wf hbn hlt h.empty⟩
    · rw [if_neg hc] at he
      simp only [Prod.mk.injEq] at he
      rw [he.1, he.2]
      exact ⟨h.wf, h.empty⟩
  generalize hs1 : (if sz < ino.size ∧ sz % BlockSize ≠ 0 then
      (let (s', blks', _, _) := bmap s ino.blks (sz / BlockSize); (s', blks')) else (s, ino.blks)) = st1
  have hs1' : st1 = (if sz < ino.size ∧ sz % BlockSize ≠ 0 then
      ((bmap s ino.blks (sz / BlockSize)).1, (bmap s ino.blks (sz / BlockSize)).2.1) else (s, ino.blks)) := by
    rw [← hs1]
  obtain ⟨s1, blks1⟩ := st1
  obtain ⟨hw1, he1⟩ := hstep s1 blks1 hs1'
  simp only
  by_cases hsh : roundUp sz < bound ino
  · simp only [hsh, if_true]
    have hwf := shrinkTo_wf s1 blks1 (roundUp sz) (bound ino) hw1 h.le he1
    obtain ⟨_, _, hp, _, _⟩ := shrinkTo_ok (roundUp sz) (bound ino) s1 blks1 hw1.len hw1.inj h.le he1
    generalize hres : shrinkTo s1 blks1 (roundUp sz) (bound ino) = res at hwf hp
    obtain ⟨s2, blks2⟩ := res
    simp only at hwf hp ⊢
    refine ⟨hwf, by simp only [bound, Nat.max_self]; exact hsz, ?_⟩
    intro q hq hge
    simp only [bound, Nat.max_self] at hge
    show ptr s2.st blks2 q = 0
    rw [hp q hq, if_pos hge]
  · simp only [hsh, if_false]
    refine ⟨hw1, by simp only [bound, Nat.max_self]; exact hsz, ?_⟩
    simp only [bound, Nat.max_self]
    exact he1.mono (by omega)


/-! ### every sequence of operations on a file -/

inductive IOp where
  | write (bn n : Nat)      -- WRITE of the whole blocks [bn, bn+n)
  | read (bn : Nat)         -- READ of block bn (fills a hole inside the file)
  | resize (sz : Nat)       -- SETATTR of the size, shrink run to completion
  | finish                  -- finish a pending shrink (`getShrink`, the shrinker thread)

def IOp.ok : IOp → Prop
  | .write bn n => bn + n ≤ MAXBLKS
  | .resize sz => roundUp sz ≤ MAXBLKS
  | _ => True

/-- one operation; a WRITE that maps nothing fails and is aborted: nothing happened -/
def inoStep (p : S × Ino) : IOp → S × Ino
  | .write bn n => if (opWrite p.1 p.2 bn n).2.2 > 0 then ((opWrite p.1 p.2 bn n).1, (opWrite p.1 p.2 bn n).2.1) else p
  | .read bn => opReadBlock p.1 p.2 bn
  | .resize sz => opResize p.1 p.2 sz
  | .finish => finishShrink p.1 p.2

theorem inoStep_ok (p : S × Ino) (op : IOp) (h : InoOK p.1 p.2) (hop : op.ok) :
    InoOK (inoStep p op).1 (inoStep p op).2 := by
  cases op with
  | write bn n =>
    simp only [inoStep]
    split
    · rename_i hpos; exact opWrite_ok p.1 p.2 bn n h hop hpos
    · exact h
  | read bn => exact opReadBlock_ok p.1 p.2 bn h
  | resize sz => exact opResize_ok p.1 p.2 sz h hop
  | finish => exact finishShrink_ok p.1 p.2 h

def inoRun (p : S × Ino) : List IOp → S × Ino
  | [] => p
  | op :: rest => inoRun (inoStep p op) rest

theorem inoRun_ok (p : S × Ino) (ops : List IOp) (h : InoOK p.1 p.2) (hops : ∀ op ∈ ops, op.ok) :
    InoOK (inoRun p ops).1 (inoRun p ops).2 := by
  induction ops generalizing p with
  | nil => exact h
  | cons op rest ih =>
    simp only [inoRun]
    exact ih _ (inoStep_ok p op h (hops op (by simp))) (fun o ho => hops o (List.mem_cons_of_mem _ ho))

def emptyIno : Ino := { blks := List.replicate (NDIRECT + 2) 0, size := 0, shrink := 0 }

theorem InoOK_empty (allocs : List Nat) (hd : DistinctNZ allocs) :
    InoOK { st := emptyStore, allocs := allocs } emptyIno := by
  have hz : ∀ q, ptr emptyStore (List.replicate (NDIRECT + 2) 0) q = 0 := by
    intro q
    rw [ptr_eq_ptrR]
    have hg : ∀ k : Nat, (List.replicate (NDIRECT + 2) (0 : Nat))[k]?.getD 0 = 0 := by
      intro k
      rw [List.getElem?_replicate]
      split <;> rfl
    cases q <;> simp [ptrR, hg, emptyStore]
  refine ⟨WFB_empty allocs hd, ?_, fun q _ _ => hz q⟩
  simp only [bound, emptyIno, roundUp, BlockSize]
  rw [MAXBLKS_eq]
  omega


/-! ### a request that cannot finish the shrink says so -/

theorem shrinkToB_reached (target : Nat) : ∀ (budget shrink : Nat) (s : S) (blks : List Nat),
    target ≤ shrink → target ≤ (shrinkToB s blks target budget shrink).2.2 ∧
      (shrinkToB s blks target budget shrink).2.2 ≤ shrink := by
  intro budget
  induction budget with
  | zero => intro shrink s blks h; cases shrink <;> simp [shrinkToB] <;> omega
  | succ b ih =>
    intro shrink s blks h
    cases shrink with
    | zero => simp [shrinkToB]; omega
    | succ n =>
      unfold shrinkToB
      by_cases ht : target < n + 1
      · simp only [ht, if_true]
        have := ih n (shrinkStep s blks n).1 (shrinkStep s blks n).2 (by omega)
        omega
      · simp only [ht, if_false]; omega

/-- THE FLAG `Resize` RETURNS IS EXACT: the caller is told to start the background shrinker if
    and only if the inode is left with blocks still to free (`IsShrinking`), whatever the
    estimate said and however much room the transaction really had.  (Before fix b79792e the flag
    was false whenever the estimate held — a 507-block file was left half-freed with nobody to
    finish it.) -/
theorem resize_flag_is_exact (s : S) (ino : Ino) (sz : Nat) (fits : Bool) (budget : Nat) :
    (opResizeB s ino sz fits budget).2.2 = true ↔
      (opResizeB s ino sz fits budget).2.1.shrink > roundUp (opResizeB s ino sz fits budget).2.1.size := by
  unfold opResizeB
  generalize (if ino.shrink > roundUp ino.size then ino.shrink else roundUp ino.size) = oldsz
  generalize (if sz < ino.size ∧ sz % BlockSize ≠ 0 then
      (let (s', blks', _, _) := bmap s ino.blks (sz / BlockSize); (s', blks')) else (s, ino.blks)) = st1
  obtain ⟨s1, blks1⟩ := st1
  simp only
  by_cases hlt : roundUp sz < oldsz
  · simp only [hlt, if_true]
    cases fits with
    | true =>
      simp only [if_true]
      generalize hres : shrinkToB s1 blks1 (roundUp sz) budget oldsz = res
      obtain ⟨s2, blks2, reached⟩ := res
      simp only [decide_eq_true_eq]
    | false =>
      simp only [Bool.false_eq_true, if_false, true_iff]
      exact hlt
  · simp only [hlt, if_false, Bool.false_eq_true, false_iff]
    omega


/-- a run of `Shrink` with a budget is the run down to wherever the budget lets it get -/
theorem shrinkToB_eq (target : Nat) : ∀ (budget shrink : Nat) (s : S) (blks : List Nat), target ≤ shrink →
    shrinkToB s blks target budget shrink =
      ((shrinkTo s blks (max target (shrink - budget)) shrink).1,
       (shrinkTo s blks (max target (shrink - budget)) shrink).2, max target (shrink - budget)) := by
  intro budget
  induction budget with
  | zero =>
    intro shrink s blks h
    have hm : max target (shrink - 0) = shrink := by omega
    rw [hm]
    cases shrink with
    | zero => simp [shrinkToB, shrinkTo]
    | succ n => simp [shrinkToB, shrinkTo]
  | succ b ih =>
    intro shrink s blks h
    cases shrink with
    | zero =>
      have : target = 0 := by omega
      subst this
      simp [shrinkToB, shrinkTo]
    | succ n =>
      unfold shrinkToB
      by_cases ht : target < n + 1
      · simp only [ht, if_true]
        rw [ih n (shrinkStep s blks n).1 (shrinkStep s blks n).2 (by omega)]
        have hm : max target (n + 1 - (b + 1)) = max target (n - b) := by omega
        rw [hm]
        conv => rhs; unfold shrinkTo
        have hlt : max target (n - b) < n + 1 := by omega
        simp only [hlt, if_true]
      · simp only [ht, if_false]
        have hm : max target (n + 1 - (b + 1)) = n + 1 := by omega
        rw [hm]
        conv => rhs; unfold shrinkTo
        simp

/-- … so a request that runs out of room leaves the file exactly as the bookkeeping says: nothing
    mapped from its new ShrinkSize on, the tree well-formed — the rest is the shrinker's. -/
theorem opResizeB_ok (s : S) (ino : Ino) (sz : Nat) (fits : Bool) (budget : Nat) (h : InoOK s ino)
    (hsz : roundUp sz ≤ MAXBLKS) :
    InoOK (opResizeB s ino sz fits budget).1 (opResizeB s ino sz fits budget).2.1 := by
  unfold opResizeB
  have hold : (if ino.shrink > roundUp ino.size then ino.shrink else roundUp ino.size) = bound ino := by
    simp only [bound]; split <;> omega
  rw [hold]
  have hstep : ∀ (s1 : S) (blks1 : List Nat),
      (s1, blks1) = (if sz < ino.size ∧ sz % BlockSize ≠ 0 then
          ((bmap s ino.blks (sz / BlockSize)).1, (bmap s ino.blks (sz / BlockSize)).2.1) else (s, ino.blks)) →
      WFB s1 blks1 ∧ EmptyFrom s1.st blks1 (bound ino) := by
    intro s1 blks1 he
    by_cases hc : sz < ino.size ∧ sz % BlockSize ≠ 0
    · rw [if_pos hc] at he
      simp only [Prod.mk.injEq] at he
      have hlt : sz / BlockSize < bound ino := by
        have : sz / BlockSize < roundUp ino.size := by
          simp only [roundUp, BlockSize] at *; omega
        simp only [bound]; omega
      have hbn : sz / BlockSize < NDIRECT + NBLKBLK + NBLKBLK * NBLKBLK := by
        have := h.le; rw [MAXBLKS_eq] at this; omega
      rw [he.1, he.2]
      exact ⟨(bmap_ok s ino.blks _ h.wf hbn).wf, bmap_keeps_empty s ino.blks _ _ h.wf hbn hlt h.empty⟩
    · rw [if_neg hc] at he
      simp only [Prod.mk.injEq] at he
      rw [he.1, he.2]
      exact ⟨h.wf, h.empty⟩
  generalize hs1 : (if sz < ino.size ∧ sz % BlockSize ≠ 0 then
      (let (s', blks', _, _) := bmap s ino.blks (sz / BlockSize); (s', blks')) else (s, ino.blks)) = st1
  have hs1' : st1 = (if sz < ino.size ∧ sz % BlockSize ≠ 0 then
      ((bmap s ino.blks (sz / BlockSize)).1, (bmap s ino.blks (sz / BlockSize)).2.1) else (s, ino.blks)) := by
    rw [← hs1]
  obtain ⟨s1, blks1⟩ := st1
  obtain ⟨hw1, he1⟩ := hstep s1 blks1 hs1'
  simp only
  by_cases hsh : roundUp sz < bound ino
  · simp only [hsh, if_true]
    cases fits with
    | true =>
      simp only [if_true]
      rw [shrinkToB_eq (roundUp sz) budget (bound ino) s1 blks1 (by omega)]
      simp only
      generalize hT : max (roundUp sz) (bound ino - budget) = T
      have hTle : T ≤ bound ino := by omega
      have hTge : roundUp sz ≤ T := by omega
      have hwf := shrinkTo_wf s1 blks1 T (bound ino) hw1 h.le he1
      obtain ⟨_, _, hp, _, _⟩ := shrinkTo_ok T (bound ino) s1 blks1 hw1.len hw1.inj h.le he1
      generalize hres : shrinkTo s1 blks1 T (bound ino) = res at hwf hp
      obtain ⟨s2, blks2⟩ := res
      simp only at hwf hp ⊢
      have hb : bound { blks := blks2, size := sz, shrink := T } = T := by simp only [bound]; omega
      refine ⟨hwf, by rw [hb]; have := h.le; omega, ?_⟩
      rw [hb]
      intro q hq hge
      show ptr s2.st blks2 q = 0
      rw [hp q hq, if_pos hge]
    | false =>
      simp only [Bool.false_eq_true, if_false]
      have hb : bound { blks := blks1, size := sz, shrink := bound ino } = bound ino := by
        have hsh' := hsh
        simp only [bound] at hsh' ⊢; omega
      exact ⟨hw1, by rw [hb]; exact h.le, by rw [hb]; exact he1⟩
  · simp only [hsh, if_false]
    refine ⟨hw1, by simp only [bound, Nat.max_self]; exact hsz, ?_⟩
    simp only [bound, Nat.max_self]
    exact he1.mono (by omega)

end GoNfsd.Model.BlockMap

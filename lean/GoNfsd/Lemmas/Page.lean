/- Lemmas about directory paging (`pageGo`): a page is a prefix of the list of live slots at or
   beyond the start offset; non-empty whenever there is such a slot. -/
import GoNfsd.Model.Fs

namespace GoNfsd.Model.Fs
open GoNfsd.Gen.Consts

/-- the live slots from index `idx` on whose offset is at or beyond `start`, with their cookies -/
def liveFromGo (start : Nat) : List Slot → Nat → List (Slot × Nat)
  | [], _ => []
  | sl :: rest, idx =>
    if idx * DIRENTSZ < start ∨ sl.inum = 0 then liveFromGo start rest (idx + 1)
    else (sl, (idx + 1) * DIRENTSZ) :: liveFromGo start rest (idx + 1)

def liveFrom (slots : List Slot) (start : Nat) : List (Slot × Nat) := liveFromGo start slots 0

/-- a page is a prefix of the live slots; complete when `eof`, non-empty otherwise -/
theorem pageGo_prefix (start lim1 lim2 : Nat) (inc1 inc2 : Nat → Nat) :
    ∀ (rest : List Slot) (idx a b : Nat),
      ∃ k, (pageGo start lim1 lim2 inc1 inc2 rest idx a b).2 = (liveFromGo start rest idx).take k ∧
        ((pageGo start lim1 lim2 inc1 inc2 rest idx a b).1 = true →
            (pageGo start lim1 lim2 inc1 inc2 rest idx a b).2 = liveFromGo start rest idx) ∧
        ((pageGo start lim1 lim2 inc1 inc2 rest idx a b).1 = false →
            1 ≤ k ∧ k ≤ (liveFromGo start rest idx).length) := by
  intro rest
  induction rest with
  | nil => intro idx a b; exact ⟨0, by simp [pageGo, liveFromGo]⟩
  | cons sl rest ih =>
    intro idx a b
    unfold pageGo liveFromGo
    by_cases h : idx * DIRENTSZ < start ∨ sl.inum = 0
    · simp only [h, if_true]
      exact ih (idx + 1) a b
    · simp only [h, if_false]
      by_cases h2 : a + inc1 sl.name.length ≥ lim1 ∨ b + inc2 sl.name.length ≥ lim2
      · simp only [h2, if_true]
        exact ⟨1, by simp⟩
      · simp only [h2, if_false]
        obtain ⟨k, hk1, hk2, hk3⟩ := ih (idx + 1) (a + inc1 sl.name.length) (b + inc2 sl.name.length)
        refine ⟨k + 1, by simp [hk1], ?_, ?_⟩
        · intro he; simp [hk2 he]
        · intro he
          have := hk3 he
          simp; omega

/-- every element of `liveFromGo` is a live slot of the list at the index its cookie encodes,
    at or beyond the start offset -/
theorem liveFromGo_mem (start : Nat) : ∀ (rest : List Slot) (idx : Nat) (e : Slot × Nat),
    e ∈ liveFromGo start rest idx →
      ∃ j, rest[j]? = some e.1 ∧ e.1.inum ≠ 0 ∧ e.2 = (idx + j + 1) * DIRENTSZ ∧
        start ≤ (idx + j) * DIRENTSZ := by
  intro rest
  induction rest with
  | nil => intro idx e h; simp [liveFromGo] at h
  | cons sl rest ih =>
    intro idx e h
    unfold liveFromGo at h
    by_cases hc : idx * DIRENTSZ < start ∨ sl.inum = 0
    · simp only [hc, if_true] at h
      obtain ⟨j, h1, h2, h3, h4⟩ := ih (idx + 1) e h
      exact ⟨j + 1, by simpa using h1, h2, by rw [h3]; congr 1; omega, by
        have : idx + 1 + j = idx + (j + 1) := by omega
        rw [← this]; exact h4⟩
    · simp only [hc, if_false, List.mem_cons] at h
      rcases h with h | h
      · subst h
        refine ⟨0, by simp, ?_, by simp, ?_⟩
        · intro h0; exact hc (Or.inr h0)
        · simp; omega
      · obtain ⟨j, h1, h2, h3, h4⟩ := ih (idx + 1) e h
        exact ⟨j + 1, by simpa using h1, h2, by rw [h3]; congr 1; omega, by
          have : idx + 1 + j = idx + (j + 1) := by omega
          rw [← this]; exact h4⟩

/-- conversely every live slot at or beyond the start offset is in `liveFromGo` -/
theorem liveFromGo_complete (start : Nat) : ∀ (rest : List Slot) (idx j : Nat) (sl : Slot),
    rest[j]? = some sl → sl.inum ≠ 0 → start ≤ (idx + j) * DIRENTSZ →
      (sl, (idx + j + 1) * DIRENTSZ) ∈ liveFromGo start rest idx := by
  intro rest
  induction rest with
  | nil => intro idx j sl h; simp at h
  | cons s0 rest ih =>
    intro idx j sl h hl hs
    unfold liveFromGo
    cases j with
    | zero =>
      simp at h; subst h
      have hc : ¬ (idx * DIRENTSZ < start ∨ s0.inum = 0) := by
        intro hh; rcases hh with hh | hh
        · simp at hs; omega
        · exact hl hh
      simp [hc]
    | succ j =>
      simp at h
      have := ih (idx + 1) j sl h hl (by
        have : idx + 1 + j = idx + (j + 1) := by omega
        rw [this]; exact hs)
      have e : idx + 1 + j + 1 = idx + (j + 1) + 1 := by omega
      rw [e] at this
      by_cases hc : idx * DIRENTSZ < start ∨ s0.inum = 0
      · simp only [hc, if_true]; exact this
      · simp only [hc, if_false]; exact List.mem_cons_of_mem _ this

/-- cookies in `liveFromGo` are strictly increasing and all exceed `idx * DIRENTSZ` -/
theorem liveFromGo_sorted (start : Nat) : ∀ (rest : List Slot) (idx : Nat),
    (liveFromGo start rest idx).Pairwise (fun x y => x.2 < y.2) ∧
    ∀ e ∈ liveFromGo start rest idx, idx * DIRENTSZ < e.2 := by
  intro rest
  induction rest with
  | nil => intro idx; simp [liveFromGo]
  | cons sl rest ih =>
    intro idx
    unfold liveFromGo
    obtain ⟨ih1, ih2⟩ := ih (idx + 1)
    have hb : ∀ e ∈ liveFromGo start rest (idx + 1), idx * DIRENTSZ < e.2 := by
      intro e he
      have := ih2 e he
      have : idx * DIRENTSZ ≤ (idx + 1) * DIRENTSZ := Nat.mul_le_mul_right _ (by omega)
      omega
    by_cases hc : idx * DIRENTSZ < start ∨ sl.inum = 0
    · simp only [hc, if_true]
      exact ⟨ih1, hb⟩
    · simp only [hc, if_false]
      refine ⟨List.pairwise_cons.mpr ⟨?_, ih1⟩, ?_⟩
      · intro e he; exact ih2 e he
      · intro e he
        simp at he
        rcases he with he | he
        · subst he; simp [DIRENTSZ]
        · exact hb e he

end GoNfsd.Model.Fs

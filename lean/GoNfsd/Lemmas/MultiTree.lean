import GoNfsd.Lemmas.Dirty

/-! M7 for MANY files: several pointer trees (root arrays) over one store of index blocks and one
    allocator.  Mapping a block of one file keeps "no block has two owners" ACROSS files — data
    blocks and index blocks alike — and moves no pointer of any other file. -/
namespace GoNfsd.Model.BlockMap
open GoNfsd.Gen.Consts

/-! ### what `bmap` leaves in the allocator was there before -/

theorem alloc_sub (s : S) : ∀ x ∈ s.alloc.2.allocs, x ∈ s.allocs := by
  unfold S.alloc
  cases h : s.allocs with
  | nil => intro x hx; simpa [h] using hx
  | cons a r => intro x hx; simp at hx; simp [hx]

theorem indbmap_sub (l : Nat) : ∀ (s : S) (root off : Nat),
    ∀ x ∈ (indbmap s root l off).1.allocs, x ∈ s.allocs := by
  induction l with
  | zero =>
    intro s root off
    rw [indbmap0]
    split
    · exact alloc_sub s
    · intro x hx; exact hx
  | succ l ih =>
    intro s root off
    unfold indbmap
    by_cases hr : root = 0
    · simp only [hr, if_true]
      have ha := alloc_sub s
      generalize hres : s.alloc = res at ha
      obtain ⟨a, s1⟩ := res
      simp only at ha ⊢
      by_cases ha0 : a = 0
      · simp only [ha0, if_true]; exact ha
      · simp only [ha0, if_false]
        have := ih s1 (s1.st a (off / pow l)) (off % pow l)
        generalize hr2 : indbmap s1 (s1.st a (off / pow l)) l (off % pow l) = r2 at this
        obtain ⟨s2, b, nn⟩ := r2
        simp only at this ⊢
        intro x hx
        apply ha
        apply this
        split at hx <;> exact hx
    · simp only [hr, if_false]
      have := ih s (s.st root (off / pow l)) (off % pow l)
      generalize hr2 : indbmap s (s.st root (off / pow l)) l (off % pow l) = r2 at this
      obtain ⟨s2, b, nn⟩ := r2
      simp only at this ⊢
      intro x hx
      apply this
      split at hx <;> exact hx

theorem bmap_sub (s : S) (blks : List Nat) (bn : Nat) :
    ∀ x ∈ (bmap s blks bn).1.allocs, x ∈ s.allocs := by
  unfold bmap
  by_cases h1 : bn < NDIRECT
  · simp only [h1, if_true]
    split
    · have := alloc_sub s
      generalize s.alloc = res at this
      obtain ⟨b, s'⟩ := res
      exact this
    · intro x hx; exact hx
  · simp only [h1, if_false]
    by_cases h2 : bn - NDIRECT < NBLKBLK
    · simp only [h2, if_true]
      have := indbmap_sub 1 s (blks.getD INDIRECT 0) (bn - NDIRECT)
      generalize indbmap s (blks.getD INDIRECT 0) 1 (bn - NDIRECT) = res at this
      obtain ⟨s', b, r⟩ := res
      exact this
    · simp only [h2, if_false]
      have := indbmap_sub 2 s (blks.getD DINDIRECT 0) (bn - NDIRECT - NBLKBLK)
      generalize indbmap s (blks.getD DINDIRECT 0) 2 (bn - NDIRECT - NBLKBLK) = res at this
      obtain ⟨s', b, r⟩ := res
      exact this

/-! ### a tree depends only on its own index blocks -/

theorem ptr_congr (st st' : Store) (blks : List Nat)
    (h : ∀ P, P.valid → (P = .iroot ∨ P = .droot ∨ ∃ j, P = .dmid j) → ptr st blks P ≠ 0 →
      ∀ x, st' (ptr st blks P) x = st (ptr st blks P) x) :
    ∀ q, q.valid → ptr st' blks q = ptr st blks q := by
  intro q hq
  have h8 : blks.getD INDIRECT 0 ≠ 0 → ∀ x, st' (blks.getD INDIRECT 0) x = st (blks.getD INDIRECT 0) x :=
    h .iroot trivial (Or.inl rfl)
  have h9 : blks.getD DINDIRECT 0 ≠ 0 → ∀ x, st' (blks.getD DINDIRECT 0) x = st (blks.getD DINDIRECT 0) x :=
    h .droot trivial (Or.inr (Or.inl rfl))
  cases q with
  | dir i => rfl
  | iroot => rfl
  | droot => rfl
  | ileaf i =>
    show (if blks.getD INDIRECT 0 = 0 then 0 else st' (blks.getD INDIRECT 0) i) =
      (if blks.getD INDIRECT 0 = 0 then 0 else st (blks.getD INDIRECT 0) i)
    by_cases hr : blks.getD INDIRECT 0 = 0
    · rw [if_pos hr, if_pos hr]
    · rw [if_neg hr, if_neg hr]; exact h8 hr i
  | dmid j =>
    show (if blks.getD DINDIRECT 0 = 0 then 0 else st' (blks.getD DINDIRECT 0) j) =
      (if blks.getD DINDIRECT 0 = 0 then 0 else st (blks.getD DINDIRECT 0) j)
    by_cases hr : blks.getD DINDIRECT 0 = 0
    · rw [if_pos hr, if_pos hr]
    · rw [if_neg hr, if_neg hr]; exact h9 hr j
  | dleaf j i =>
    show (if blks.getD DINDIRECT 0 = 0 then 0 else
        if st' (blks.getD DINDIRECT 0) j = 0 then 0 else st' (st' (blks.getD DINDIRECT 0) j) i) =
      (if blks.getD DINDIRECT 0 = 0 then 0 else
        if st (blks.getD DINDIRECT 0) j = 0 then 0 else st (st (blks.getD DINDIRECT 0) j) i)
    by_cases hr : blks.getD DINDIRECT 0 = 0
    · rw [if_pos hr, if_pos hr]
    · rw [if_neg hr, if_neg hr, h9 hr j]
      by_cases hmid : st (blks.getD DINDIRECT 0) j = 0
      · rw [if_pos hmid, if_pos hmid]
      · rw [if_neg hmid, if_neg hmid]
        have hm := h (.dmid j) hq.1 (Or.inr (Or.inr ⟨j, rfl⟩))
        have e : ptr st blks (.dmid j) = st (blks.getD DINDIRECT 0) j := by
          show (if blks.getD DINDIRECT 0 = 0 then 0 else st (blks.getD DINDIRECT 0) j) = _
          rw [if_neg hr]
        rw [e] at hm
        exact hm hmid i

theorem anc_valid (p : Pos) (hp : p.valid) : ∀ P ∈ anc p, P.valid := by
  cases p with
  | dleaf j i => intro P hP; simp [anc] at hP; rcases hP with rfl | rfl; exact trivial; exact hp.1
  | ileaf i => intro P hP; simp [anc] at hP; subst hP; exact trivial
  | _ => intro P hP; simp [anc] at hP

/-! ### many files -/

structure MWF (s : S) (roots : Nat → List Nat) : Prop where
  len : ∀ a, (roots a).length = NDIRECT + 2
  /-- no block is pointed to from two positions — of one file or of two -/
  inj : ∀ a b p q, p.valid → q.valid → ptr s.st (roots a) p ≠ 0 →
    ptr s.st (roots a) p = ptr s.st (roots b) q → a = b ∧ p = q
  /-- what the allocator will hand out is in use in no file and is all zeros -/
  fresh : ∀ x ∈ s.allocs, x ≠ 0 → (∀ a p, p.valid → ptr s.st (roots a) p ≠ x) ∧ ∀ i, s.st x i = 0
  distinct : DistinctNZ s.allocs

theorem MWF.file {s : S} {roots : Nat → List Nat} (h : MWF s roots) (a : Nat) : WFB s (roots a) :=
  ⟨h.len a, fun p q hp hq hne he => (h.inj a a p q hp hq hne he).2,
   fun x hx hx0 => ⟨fun p hp => (h.fresh x hx hx0).1 a p hp, (h.fresh x hx hx0).2⟩, h.distinct⟩

def setRoots (roots : Nat → List Nat) (a : Nat) (blks : List Nat) : Nat → List Nat :=
  fun x => if x = a then blks else roots x

/-- MAPPING A BLOCK OF ONE FILE AMONG MANY: the invariant is kept (one owner per block across all
    files, the allocator's blocks unused and zero) and no pointer of any other file moves. -/
theorem mbmap_ok (s : S) (roots : Nat → List Nat) (a bn : Nat) (h : MWF s roots)
    (hbn : bn < NDIRECT + NBLKBLK + NBLKBLK * NBLKBLK) :
    MWF (bmap s (roots a) bn).1 (setRoots roots a (bmap s (roots a) bn).2.1) ∧
    ∀ b, b ≠ a → ∀ q, q.valid → ptr (bmap s (roots a) bn).1.st (roots b) q = ptr s.st (roots b) q := by
  have ok := bmap_ok s (roots a) bn (h.file a) hbn
  have hpv := (posOf_valid bn hbn).1
  -- where the new pointers of file a come from
  have hnew : ∀ p, p.valid → ptr (bmap s (roots a) bn).1.st (bmap s (roots a) bn).2.1 p ≠ 0 →
      (ptr (bmap s (roots a) bn).1.st (bmap s (roots a) bn).2.1 p = ptr s.st (roots a) p ∧ ptr s.st (roots a) p ≠ 0) ∨
      (ptr (bmap s (roots a) bn).1.st (bmap s (roots a) bn).2.1 p ∈ s.allocs) := by
    intro p hp hne
    rcases ok.fromAllocs p hp with h1 | h1
    · exact Or.inl ⟨h1, by rw [← h1]; exact hne⟩
    · exact Or.inr h1
  -- no other file's tree reads a cell that changed
  have hframe : ∀ b, b ≠ a → ∀ q, q.valid → ptr (bmap s (roots a) bn).1.st (roots b) q = ptr s.st (roots b) q := by
    intro b hb
    apply ptr_congr
    intro P hPv _ hPne x
    apply Classical.byContradiction
    intro hc
    obtain ⟨hy0, P', hP', hPy⟩ := bmap_touch s (roots a) bn (h.file a) hbn _ x hc
    have hP'v := anc_valid _ hpv P' hP'
    rcases hnew P' hP'v (by rw [hPy]; exact hy0) with ⟨h1, h2⟩ | h1
    · rw [hPy] at h1
      exact hb (h.inj a b P' P hP'v hPv h2 h1.symm).1.symm
    · rw [hPy] at h1
      exact (h.fresh _ h1 hy0).1 b P hPv rfl
  refine ⟨⟨?_, ?_, ?_, ok.wf.distinct⟩, hframe⟩
  · intro x
    unfold setRoots
    by_cases hx : x = a
    · simp only [hx, if_true]; exact ok.wf.len
    · simp only [hx, if_false]; exact h.len x
  · intro x y p q hp hq hne he
    unfold setRoots at hne he
    by_cases hx : x = a <;> by_cases hy : y = a
    · subst hx; subst hy
      simp only [if_true] at hne he
      exact ⟨rfl, ok.wf.inj p q hp hq hne he⟩
    · subst hx
      simp only [if_true, hy, if_false] at hne he
      rw [hframe y hy q hq] at he
      exfalso
      rcases hnew p hp hne with ⟨h1, h2⟩ | h1
      · rw [h1] at he; exact hy (h.inj x y p q hp hq h2 he).1.symm
      · rw [he] at h1
        exact (h.fresh _ h1 (by rw [← he]; exact hne)).1 y q hq rfl
    · subst hy
      simp only [if_true, hx, if_false] at hne he
      rw [hframe x hx p hp] at hne he
      exfalso
      have hne' : ptr (bmap s (roots y) bn).1.st (bmap s (roots y) bn).2.1 q ≠ 0 := by rw [← he]; exact hne
      rcases hnew q hq hne' with ⟨h1, h2⟩ | h1
      · rw [h1] at he; exact hx (h.inj x y p q hp hq hne he).1
      · rw [← he] at h1
        exact (h.fresh _ h1 hne).1 x p hp rfl
    · simp only [hx, hy, if_false] at hne he
      rw [hframe x hx p hp] at hne he
      rw [hframe y hy q hq] at he
      exact h.inj x y p q hp hq hne he
  · intro x hx hx0
    have hxs := bmap_sub s (roots a) bn x hx
    obtain ⟨f1, f2⟩ := ok.wf.fresh x hx hx0
    refine ⟨?_, f2⟩
    intro f p hp
    unfold setRoots
    by_cases hf : f = a
    · simp only [hf, if_true]; exact f1 p hp
    · simp only [hf, if_false]
      rw [hframe f hf p hp]
      exact (h.fresh x hxs hx0).1 f p hp

/-! ### any sequence of mappings on any files -/

/-- map block `op.2` of file `op.1` -/
def mstep (sr : S × (Nat → List Nat)) (op : Nat × Nat) : S × (Nat → List Nat) :=
  ((bmap sr.1 (sr.2 op.1) op.2).1, setRoots sr.2 op.1 (bmap sr.1 (sr.2 op.1) op.2).2.1)

theorem mrun_wf (ops : List (Nat × Nat)) : ∀ (sr : S × (Nat → List Nat)), MWF sr.1 sr.2 →
    (∀ op ∈ ops, op.2 < NDIRECT + NBLKBLK + NBLKBLK * NBLKBLK) →
    MWF (ops.foldl mstep sr).1 (ops.foldl mstep sr).2 := by
  induction ops with
  | nil => intro sr h _; exact h
  | cons op rest ih =>
    intro sr h hb
    simp only [List.foldl_cons]
    exact ih _ (mbmap_ok sr.1 sr.2 op.1 op.2 h (hb op (by simp))).1 (fun o ho => hb o (List.mem_cons_of_mem _ ho))

theorem MWF_empty (allocs : List Nat) (hd : DistinctNZ allocs) :
    MWF { st := emptyStore, allocs := allocs } (fun _ => List.replicate (NDIRECT + 2) 0) := by
  have hz : ∀ q, ptr emptyStore (List.replicate (NDIRECT + 2) 0) q = 0 := by
    intro q
    rw [ptr_eq_ptrR]
    have hg : ∀ k : Nat, (List.replicate (NDIRECT + 2) (0 : Nat))[k]?.getD 0 = 0 := by
      intro k
      rw [List.getElem?_replicate]
      split <;> rfl
    cases q <;> simp [ptrR, hg, emptyStore]
  refine ⟨fun _ => by simp, ?_, ?_, hd⟩
  · intro a b p q _ _ hne
    exact absurd (hz p) hne
  · intro x _ hx0
    exact ⟨fun a p _ => by rw [hz p]; exact Ne.symm hx0, fun _ => rfl⟩

end GoNfsd.Model.BlockMap

import GoNfsd.Lemmas.MultiShrink
import GoNfsd.Lemmas.FsckBridge

/-! Every pointer of every file lies in the region the allocator's numbers come from: an invariant
    of every history of mappings, truncations and reuse (M7m), and — on the image — the checker's
    "pointers inside the data region" (`chkPtrs`). -/
namespace GoNfsd.Model.BlockMap
open GoNfsd.Gen.Consts GoNfsd.Model.Fsck

/-- all non-null pointers of all files, and all numbers the allocator may still hand out, lie in
    `[lo, hi)` -/
structure InRegion (lo hi : Nat) (s : S) (roots : Nat → List Nat) : Prop where
  ptrs : ∀ a p, p.valid → ptr s.st (roots a) p ≠ 0 → lo ≤ ptr s.st (roots a) p ∧ ptr s.st (roots a) p < hi
  allocs : ∀ x ∈ s.allocs, x ≠ 0 → lo ≤ x ∧ x < hi

theorem region_map (lo hi : Nat) (s : S) (roots : Nat → List Nat) (a bn : Nat) (h : MWF s roots)
    (hbn : bn < NDIRECT + NBLKBLK + NBLKBLK * NBLKBLK) (hr : InRegion lo hi s roots) :
    InRegion lo hi (bmap s (roots a) bn).1 (setRoots roots a (bmap s (roots a) bn).2.1) := by
  have ok := bmap_ok s (roots a) bn (h.file a) hbn
  have hframe := (mbmap_ok s roots a bn h hbn).2
  constructor
  · intro b p hp hne
    unfold setRoots at hne ⊢
    by_cases hb : b = a
    · simp only [hb, if_true] at hne ⊢
      rcases ok.fromAllocs p hp with h1 | h1
      · rw [h1] at hne ⊢; exact hr.ptrs a p hp hne
      · exact hr.allocs _ h1 hne
    · simp only [hb, if_false] at hne ⊢
      rw [hframe b hb p hp] at hne ⊢
      exact hr.ptrs b p hp hne
  · intro x hx hx0
    exact hr.allocs x (bmap_sub s (roots a) bn x hx) hx0

theorem region_shrink (lo hi : Nat) (s : S) (roots : Nat → List Nat) (a T N : Nat) (h : MWF s roots)
    (hN : N ≤ MAXBLKS) (hemp : EmptyFrom s.st (roots a) N) (hr : InRegion lo hi s roots) :
    InRegion lo hi (shrinkTo s (roots a) T N).1 (setRoots roots a (shrinkTo s (roots a) T N).2) := by
  obtain ⟨_, _, o3, _, o5⟩ := shrinkTo_ok T N s (roots a) (h.len a) (h.file a).injR hN hemp
  have hframe := (mshrink_ok s roots a T N h hN hemp).2.1
  constructor
  · intro b p hp hne
    unfold setRoots at hne ⊢
    by_cases hb : b = a
    · simp only [hb, if_true] at hne ⊢
      rw [o3 p hp] at hne ⊢
      by_cases ht : T ≤ firstBn p
      · rw [if_pos ht] at hne; exact absurd rfl hne
      · rw [if_neg ht] at hne ⊢; exact hr.ptrs a p hp hne
    · simp only [hb, if_false] at hne ⊢
      rw [hframe b hb p hp] at hne ⊢
      exact hr.ptrs b p hp hne
  · intro x hx hx0
    rw [o5] at hx
    exact hr.allocs x hx hx0

/-- what a recycling step hands back to the allocator lies in the region as well -/
def RecycleInRegion (lo hi : Nat) : List MOp → Prop
  | [] => True
  | .recycle L :: rest => (∀ x ∈ L, x ≠ 0 → lo ≤ x ∧ x < hi) ∧ RecycleInRegion lo hi rest
  | _ :: rest => RecycleInRegion lo hi rest

theorem mhistory_region (lo hi : Nat) (ops : List MOp) : ∀ (sr : S × (Nat → List Nat)), MWF sr.1 sr.2 → MValid sr ops →
    RecycleInRegion lo hi ops → InRegion lo hi sr.1 sr.2 →
    InRegion lo hi (ops.foldl mapply sr).1 (ops.foldl mapply sr).2 := by
  induction ops with
  | nil => intro sr _ _ _ hr; exact hr
  | cons op rest ih =>
    intro sr h hv hrec hr
    simp only [List.foldl_cons]
    obtain ⟨hop, hrest⟩ := hv
    have hwf : MWF (mapply sr op).1 (mapply sr op).2 := by
      cases op with
      | map a bn => exact (mbmap_ok sr.1 sr.2 a bn h hop).1
      | shrink a T N => exact (mshrink_ok sr.1 sr.2 a T N h hop.1 hop.2).1
      | recycle L => exact mrecycle sr.1 sr.2 L h hop.1 hop.2
    cases op with
    | map a bn => exact ih _ hwf hrest hrec (region_map lo hi sr.1 sr.2 a bn h hop hr)
    | shrink a T N => exact ih _ hwf hrest hrec (region_shrink lo hi sr.1 sr.2 a T N h hop.1 hop.2 hr)
    | recycle L =>
      refine ih _ hwf hrest hrec.2 ⟨hr.ptrs, ?_⟩
      intro x hx hx0
      rcases List.mem_append.mp hx with h1 | h1
      · exact hr.allocs x h1 hx0
      · exact hrec.1 x h1 hx0

/-- the image with its disk size -/
def imageOfSz (sz : Nat) (st : Store) (files : List (Nat × List Nat)) : Image := { imageOf st files with sz := sz }

theorem allOwned_imageOfSz (sz : Nat) (st : Store) (files : List (Nat × List Nat)) :
    allOwned (imageOfSz sz st files) = allOwned (imageOf st files) := rfl

/-- POINTERS INSIDE THE DATA REGION ON THE IMAGE -/
theorem imageOf_ptrs_in_region (sz : Nat) (s : S) (roots : Nat → List Nat) (h : MWF s roots)
    (hr : InRegion (GoNfsd.Gen.Super.MkFsSuper sz).DataStart sz s roots) (files : List Nat) :
    chkPtrs (imageOfSz sz s.st (files.map fun a => (a, roots a))) = true := by
  unfold chkPtrs
  rw [List.all_eq_true]
  intro b hb
  rw [allOwned_imageOfSz] at hb
  unfold allOwned at hb
  obtain ⟨ino, hino, hbi⟩ := List.mem_flatMap.mp hb
  obtain ⟨f, hf, rfl⟩ := List.mem_map.mp hino
  obtain ⟨a, _, rfl⟩ := List.mem_map.mp hf
  have hown := owned_blk (imageOf s.st (files.map fun a => (a, roots a))) s.st
    { inum := a, kind := 1, nlink := 1, gen := 0, size := 0, shrink := 0, blks := roots a } (h.len a)
    (imageOf_IndOK s.st _ (a, roots a) hf)
  rw [hown] at hbi
  obtain ⟨h1, h2⟩ := mem_nz.mp hbi
  obtain ⟨p, hp, hpb⟩ := List.mem_map.mp h1
  have := hr.ptrs a p (posList_valid p hp) (by rw [hpb]; exact h2)
  rw [hpb] at this
  have e1 : dataStart (imageOfSz sz s.st (files.map fun a => (a, roots a))) = (GoNfsd.Gen.Super.MkFsSuper sz).DataStart := rfl
  have e2 : (imageOfSz sz s.st (files.map fun a => (a, roots a))).sz = sz := rfl
  rw [e1, e2]
  simp only [Bool.and_eq_true, decide_eq_true_eq]
  exact this

theorem ptr_empty (q : Pos) : ptr emptyStore (List.replicate (NDIRECT + 2) 0) q = 0 := by
  rw [ptr_eq_ptrR]
  have hg : ∀ k : Nat, (List.replicate (NDIRECT + 2) (0 : Nat))[k]?.getD 0 = 0 := by
    intro k
    rw [List.getElem?_replicate]
    split <;> rfl
  cases q <;> simp [ptrR, hg, emptyStore]

theorem region_empty (lo hi : Nat) (allocs : List Nat) (ha : ∀ x ∈ allocs, x ≠ 0 → lo ≤ x ∧ x < hi) :
    InRegion lo hi { st := emptyStore, allocs := allocs } (fun _ => List.replicate (NDIRECT + 2) 0) :=
  ⟨fun _ p _ hne => absurd (ptr_empty p) hne, ha⟩

end GoNfsd.Model.BlockMap

namespace GoNfsd.Model.BlockMap
open GoNfsd.Gen.Consts GoNfsd.Model.Fsck

/-- the image of regular files given as model inodes (pointers, size, ShrinkSize) -/
def imageOfInos (st : Store) (files : List (Nat × Ino)) : Image :=
  { imageOf st (files.map fun f => (f.1, f.2.blks)) with
    inodes := files.map fun f => { inum := f.1, kind := 1, nlink := 1, gen := 0, size := f.2.size, shrink := f.2.shrink, blks := f.2.blks } }

theorem indOf_imageOfInos (st : Store) (files : List (Nat × Ino)) (b : Nat) :
    indOf (imageOfInos st files) b = indOf (imageOf st (files.map fun f => (f.1, f.2.blks))) b := rfl

/-- SIZES AGREE WITH THE BLOCKS PRESENT ON THE IMAGE: for files that satisfy the bookkeeping
    invariant `InoOK` (nothing is mapped at or beyond `max(ShrinkSize, ⌈size/4096⌉)`; kept by every
    WRITE, READ and resize: `Lemmas/InoOps`) the checker's `chkSizes` holds -/
theorem imageOfInos_sizes (s : S) (files : List (Nat × Ino)) (h : ∀ f ∈ files, InoOK s f.2) :
    chkSizes (imageOfInos s.st files) = true := by
  unfold chkSizes
  rw [List.all_eq_true]
  intro ino hino
  obtain ⟨f, hf, rfl⟩ := List.mem_map.mp hino
  have hk : ((1 : Nat) != NF3DIR) = true := by decide
  simp only [hk, Bool.true_or, Bool.and_true]
  have hok := h f hf
  have hIndOK : IndOK (imageOfInos s.st files) s.st f.2.blks := by
    have := imageOf_IndOK s.st (files.map fun f => (f.1, f.2.blks)) (f.1, f.2.blks) (List.mem_map.mpr ⟨f, hf, rfl⟩)
    exact this
  have hb : Fsck.bound { inum := f.1, kind := 1, nlink := 1, gen := 0, size := f.2.size, shrink := f.2.shrink, blks := f.2.blks } = bound f.2 := by
    simp only [Fsck.bound, bound, roundUp]
    exact Nat.max_comm _ _
  exact owned_below_bound (imageOfInos s.st files) s.st _ hok.wf.len hIndOK (by rw [hb]; exact hok.empty)

end GoNfsd.Model.BlockMap

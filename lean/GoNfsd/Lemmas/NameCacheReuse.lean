/- M8e: a name added right after a removal goes into the slot the removal freed (`Lastoff` points at it) — what makes a
   RENAME inside a directory refill the slot of the old name. -/
import GoNfsd.Lemmas.NameCache

namespace GoNfsd.Model.NameCache
open GoNfsd.Model.Fs GoNfsd.Gen.Consts

theorem firstFree_at_freed (slots : List Slot) (i : Nat) (h : i < slots.length) :
    firstFree (slots.set i freeSlot) i = some i := by
  unfold firstFree
  have hd : (slots.set i freeSlot).drop i = freeSlot :: (slots.set i freeSlot).drop (i + 1) := by
    rw [List.drop_eq_getElem_cons (by simpa using h)]
    simp
  rw [hd]
  simp [firstFreeGo, freeSlot]

/-- the slot `AddNameDir` picks when the hint is a slot that was just freed (and is not slot 0, whose offset doubles as
    "none found"): that very slot -/
theorem addSlot_reuses_the_freed_slot (slots : List Slot) (i : Nat) (h : i < slots.length) (h0 : i ≠ 0) :
    addSlot (slots.set i freeSlot) i = i := by
  unfold addSlot
  rw [firstFree_at_freed slots i h]
  cases i with
  | zero => exact absurd rfl h0
  | succ n => rfl

/-- REMOVE THEN ADD: after `RemName` has cleared slot `i > 0`, the next `AddName` on that directory writes slot `i` -/
theorem add_after_remove_reuses_the_slot (d : Dir) (name name' : Bytes) (inum i : Nat) (h : DInv d)
    (hr : (remName d name).2 = some i) (h0 : i ≠ 0) (hl : name'.length ≤ MAXNAMELEN) :
    (addName (remName d name).1 inum name').2 = some i := by
  obtain ⟨ino, hlive⟩ := remName_clears_the_name d name i h hr
  have hlt := live_lt d.slots name ino i hlive
  unfold remName at hr ⊢
  by_cases hlen : name.length > MAXNAMELEN
  · simp [hlen] at hr
  · simp only [hlen, if_false] at hr ⊢
    cases hlk : d.cache.lookup name with
    | none => rw [hlk] at hr; cases hr
    | some r =>
      obtain ⟨a, j⟩ := r
      rw [hlk] at hr
      simp only [Option.some.injEq] at hr
      subst hr
      simp only []
      unfold addName
      have : ¬ name'.length > MAXNAMELEN := by omega
      simp only [this, if_false, Dir.cache]
      rw [addSlot_reuses_the_freed_slot d.slots j hlt h0]

end GoNfsd.Model.NameCache

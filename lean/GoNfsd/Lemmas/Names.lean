/- Names are unique in every directory of every reachable state of the reference file system M6. -/
import GoNfsd.Lemmas.Lookup
import GoNfsd.Lemmas.Fs
open GoNfsd.Model.Fs GoNfsd.Gen.Consts

namespace GoNfsd.Model.Fs

/-- the names in use in a directory -/
def liveNames (slots : List Slot) : List Bytes := (slots.filter fun s => s.inum ≠ 0).map (·.name)

theorem liveNames_cons (s : Slot) (rest : List Slot) :
    liveNames (s :: rest) = if s.inum ≠ 0 then s.name :: liveNames rest else liveNames rest := by
  unfold liveNames
  by_cases h : s.inum = 0 <;> simp [h]

theorem lookupGo_none_notin (name : Bytes) (slots : List Slot) (k : Nat) (h : lookupGo name slots k = none) :
    name ∉ liveNames slots := by
  induction slots generalizing k with
  | nil => simp [liveNames]
  | cons s rest ih =>
    simp only [lookupGo] at h
    split at h
    · cases h
    · rename_i hn
      rw [liveNames_cons]
      by_cases h0 : s.inum = 0
      · simp [h0]; exact ih (k + 1) h
      · simp only [ne_eq, h0, not_false_eq_true, if_true, List.mem_cons, not_or]
        refine ⟨fun he => hn ⟨h0, he.symm⟩, ih (k + 1) h⟩

/-- clearing a slot only removes a name -/
theorem liveNames_set_free_sublist (slots : List Slot) (idx : Nat) :
    (liveNames (slots.set idx freeSlot)).Sublist (liveNames slots) := by
  induction slots generalizing idx with
  | nil => simp
  | cons s rest ih =>
    cases idx with
    | zero =>
      simp only [List.set_cons_zero, liveNames_cons, freeSlot]
      by_cases h0 : s.inum = 0
      · simp [h0]
      · simp [h0]
    | succ n =>
      simp only [List.set_cons_succ, liveNames_cons]
      by_cases h0 : s.inum = 0
      · simp [h0]; exact ih n
      · simp [h0]; exact ih n

theorem nodup_set_free (slots : List Slot) (idx : Nat) (h : (liveNames slots).Nodup) :
    (liveNames (slots.set idx freeSlot)).Nodup :=
  List.Nodup.sublist (liveNames_set_free_sublist slots idx) h

theorem lookupGo_some_spec (name : Bytes) (slots : List Slot) (k ino j : Nat)
    (h : lookupGo name slots k = some (ino, j)) :
    ∃ sl, k ≤ j ∧ slots[j - k]? = some sl ∧ sl.inum ≠ 0 ∧ sl.name = name ∧ sl.inum = ino := by
  induction slots generalizing k with
  | nil => simp [lookupGo] at h
  | cons s rest ih =>
    simp only [lookupGo] at h
    split at h
    · rename_i hm
      simp only [Option.some.injEq, Prod.mk.injEq] at h
      obtain ⟨h1, h2⟩ := h
      subst h2
      exact ⟨s, Nat.le_refl _, by simp, hm.1, hm.2, h1⟩
    · obtain ⟨sl, hk, hget, hrest⟩ := ih (k + 1) h
      refine ⟨sl, by omega, ?_, hrest⟩
      have : j - k = (j - (k + 1)) + 1 := by omega
      rw [this]
      simpa using hget

/-- clearing a live slot removes exactly its name -/
theorem liveNames_clear_perm (slots : List Slot) (idx : Nat) (sl : Slot)
    (hget : slots[idx]? = some sl) (hl : sl.inum ≠ 0) :
    (liveNames slots).Perm (sl.name :: liveNames (slots.set idx freeSlot)) := by
  induction slots generalizing idx with
  | nil => simp at hget
  | cons s rest ih =>
    cases idx with
    | zero =>
      simp at hget; subst hget
      simp [liveNames_cons, hl, freeSlot]
    | succ n =>
      simp at hget
      simp only [List.set_cons_succ, liveNames_cons]
      by_cases h0 : s.inum = 0
      · simp [h0]; exact ih n hget
      · simp only [ne_eq, h0, not_false_eq_true, if_true]
        exact (List.Perm.cons _ (ih n hget)).trans (List.Perm.swap _ _ _)

/-- after the slot a lookup found has been cleared, the name is gone (names being unique) -/
theorem name_gone_after_clear (slots : List Slot) (name : Bytes) (ino idx : Nat)
    (hn : (liveNames slots).Nodup) (h : lookupSlots slots name = some (ino, idx)) :
    name ∉ liveNames (slots.set idx freeSlot) := by
  obtain ⟨sl, _, hget, hl, hname, _⟩ := lookupGo_some_spec name slots 0 ino idx h
  simp only [Nat.sub_zero] at hget
  have hp := liveNames_clear_perm slots idx sl hget hl
  have := (hp.nodup_iff).1 hn
  rw [hname] at this
  exact (List.nodup_cons.1 this).1

/-- filling a free slot adds exactly the new name -/
theorem liveNames_fill_perm (slots : List Slot) (idx : Nat) (f s : Slot)
    (hget : slots[idx]? = some f) (hf : f.inum = 0) (hs : s.inum ≠ 0) :
    (liveNames (slots.set idx s)).Perm (s.name :: liveNames slots) := by
  induction slots generalizing idx with
  | nil => simp at hget
  | cons x rest ih =>
    cases idx with
    | zero =>
      simp at hget; subst hget
      simp [liveNames_cons, hs, hf]
    | succ n =>
      simp at hget
      simp only [List.set_cons_succ, liveNames_cons]
      by_cases h0 : x.inum = 0
      · simp [h0]; exact ih n hget
      · simp only [ne_eq, h0, not_false_eq_true, if_true]
        exact (List.Perm.cons _ (ih n hget)).trans (List.Perm.swap _ _ _)

theorem liveNames_append_one (slots : List Slot) (s : Slot) (hs : s.inum ≠ 0) :
    liveNames (slots ++ [s]) = liveNames slots ++ [s.name] := by
  simp [liveNames, List.filter_append, hs]

/-- `putSlot` of a live entry whose name is not yet in use keeps names unique -/
theorem nodup_putSlot (slots : List Slot) (i : Nat) (s : Slot) (hok : slotOk slots i = true)
    (hs : s.inum ≠ 0) (hnot : s.name ∉ liveNames slots) (hn : (liveNames slots).Nodup) :
    (liveNames (putSlot slots i s)).Nodup := by
  unfold putSlot
  by_cases he : i = slots.length
  · simp only [he, if_true]
    rw [liveNames_append_one slots s hs]
    exact List.nodup_append.2 ⟨hn, by simp, by intro a ha b hb; simp at hb; subst hb; intro he; subst he; exact hnot ha⟩
  · simp only [he, if_false]
    unfold slotOk at hok
    simp only [he, decide_false, Bool.false_or] at hok
    cases hg : slots[i]? with
    | none => simp [hg] at hok
    | some f =>
      simp only [hg, decide_eq_true_eq] at hok
      have hp := liveNames_fill_perm slots i f s hg hok hs
      exact (hp.nodup_iff).2 (List.nodup_cons.2 ⟨hnot, hn⟩)

/-- names are unique in every directory (and in whatever slot list any inode carries) -/
def NU (s : FS) : Prop := ∀ i, (liveNames (s.get i).slots).Nodup

theorem NU_set (s : FS) (i : Nat) (x : Inode) (h : NU s) (hx : (liveNames x.slots).Nodup) : NU (s.set i x) := by
  intro j
  rw [get_set]
  split
  · exact hx
  · exact h j

theorem freshInode_nodup (kind gen inum parent : Nat) (t : Array UInt8) :
    (liveNames (freshInode kind gen inum parent t).slots).Nodup := by
  unfold freshInode
  split
  · simp only [liveNames_cons]
    by_cases h1 : inum = 0 <;> by_cases h2 : parent = 0 <;> simp [h1, h2, liveNames] <;> decide
  · split <;> simp [liveNames]

theorem freeInode_nodup (i : Inode) : (liveNames (freeInode i).slots).Nodup := by
  simp [freeInode, liveNames]

theorem lookupIn_none_notin (d : Inode) (name : Bytes) (hk : d.kind = NF3DIR) (h : lookupIn d name = none) :
    name ∉ liveNames d.slots := by
  unfold lookupIn at h
  simp only [hk, ne_eq, not_true_eq_false, if_false] at h
  exact lookupGo_none_notin name d.slots 0 h

theorem addName_nodup (d d' : Inode) (slot inum : Nat) (name : Bytes) (hi : inum ≠ 0)
    (hnot : name ∉ liveNames d.slots) (hn : (liveNames d.slots).Nodup) (h : addName d slot inum name = some d') :
    (liveNames d'.slots).Nodup := by
  unfold addName at h
  split at h
  · cases h
  · split at h
    · cases h
    · rename_i hok
      simp only [Option.some.injEq] at h
      subst h
      simp only [Bool.not_eq_true, Bool.not_eq_false] at hok
      exact nodup_putSlot d.slots slot ⟨inum, name⟩ (by simpa using hok) hi hnot hn

theorem doCreate_reply (s : FS) (c : Choice) (dfh name : Bytes) (kind : Nat) (t : Array UInt8) :
    (doCreate s c dfh name kind t).2.isOk = false ∨ ∃ fh a, (doCreate s c dfh name kind t).2 = .handle fh a := by
  unfold doCreate
  grind [Reply.isOk]

theorem doCreate_NU (s : FS) (c : Choice) (dfh name : Bytes) (kind : Nat) (t : Array UInt8) (h : NU s) :
    NU (doCreate s c dfh name kind t).1 := by
  rcases doCreate_reply s c dfh name kind t with hf | ⟨fh, a, hr⟩
  · rw [doCreate_fail s c dfh name kind t hf]; exact h
  · have hfull : doCreate s c dfh name kind t = ((doCreate s c dfh name kind t).1, .handle fh a) := by
      rw [← hr]
    obtain ⟨dino, d', hres, hl, _, _, _, h2, ha, hs', _, _⟩ := doCreate_ok_shape s c dfh name kind t _ fh a hfull
    rw [hs']
    have hkind : (s.get dino).kind = NF3DIR := by
      unfold addName at ha
      by_cases hk : (s.get dino).kind = NF3DIR
      · exact hk
      · simp [hk] at ha
    have hnot := lookupIn_none_notin (s.get dino) name hkind hl
    have hd' := addName_nodup (s.get dino) d' c.slot c.inum name (by omega) hnot (h dino) ha
    exact NU_set _ _ _ (NU_set _ _ _ h (freshInode_nodup _ _ _ _ _)) hd'

theorem remNameAt_nodup (d : Inode) (idx : Nat) (h : (liveNames d.slots).Nodup) :
    (liveNames (remNameAt d idx).slots).Nodup := by
  simp only [remNameAt]
  exact nodup_set_free d.slots idx h

theorem doRemove_NU (s : FS) (dfh name : Bytes) (isdir : Bool) (h : NU s) : NU (doRemove s dfh name isdir).1 := by
  unfold doRemove
  split
  · exact h
  · split
    · exact h
    · dsimp only
      split
      · exact h
      · repeat' split
        all_goals first
          | exact h
          | exact NU_set _ _ _ (NU_set _ _ _ h (remNameAt_nodup _ _ (h _))) (freeInode_nodup _)

theorem lookupIn_some_spec (d : Inode) (name : Bytes) (ino idx : Nat) (h : lookupIn d name = some (ino, idx)) :
    d.kind = NF3DIR ∧ lookupSlots d.slots name = some (ino, idx) ∧ ino ≠ 0 := by
  unfold lookupIn at h
  by_cases hk : d.kind = NF3DIR
  · simp only [hk, ne_eq, not_true_eq_false, if_false] at h
    obtain ⟨sl, _, _, hl, _, hi⟩ := lookupGo_some_spec name d.slots 0 ino idx h
    exact ⟨hk, h, by rw [← hi]; exact hl⟩
  · simp [hk] at h

theorem notin_of_sublist {l l' : List Bytes} {n : Bytes} (hs : l'.Sublist l) (h : n ∉ l) : n ∉ l' :=
  fun hm => h (hs.subset hm)

/-- unlinking the target of a RENAME keeps names unique and leaves the target name unused -/
theorem unlinkTarget_spec (s s1 : FS) (td fino : Nat) (tname : Bytes) (hN : NU s)
    (hk : (s.get td).kind = NF3DIR)
    (h : unlinkTarget s td fino (lookupIn (s.get td) tname) = some s1) :
    NU s1 ∧ tname ∉ liveNames (s1.get td).slots := by
  unfold unlinkTarget at h
  cases hl : lookupIn (s.get td) tname with
  | none =>
    rw [hl] at h
    simp only [Option.some.injEq] at h
    subst h
    exact ⟨hN, lookupIn_none_notin _ _ hk hl⟩
  | some p =>
    obtain ⟨tino, tidx⟩ := p
    rw [hl] at h
    simp only at h
    split at h
    · cases h
    · split at h
      · cases h
      · simp only [Option.some.injEq] at h
        subst h
        obtain ⟨_, hls, _⟩ := lookupIn_some_spec _ _ _ _ hl
        refine ⟨NU_set _ _ _ (NU_set _ _ _ hN (remNameAt_nodup _ _ (hN _))) (freeInode_nodup _), ?_⟩
        rw [get_set]
        split
        · simp [freeInode, liveNames]
        · rw [get_set_same]
          simp only [remNameAt]
          exact name_gone_after_clear _ _ _ _ (hN td) hls

theorem moveName_NU (s1 s3 : FS) (c : Choice) (fd fidx td fino : Nat) (tname : Bytes) (r : Reply)
    (hN : NU s1) (hf : fino ≠ 0) (hnot : tname ∉ liveNames (s1.get td).slots)
    (h : moveName s1 c fd fidx td fino tname = some (s3, r)) : NU s3 := by
  unfold moveName at h
  simp only at h
  split at h
  · cases h
  · split at h
    · simp only [Option.some.injEq, Prod.mk.injEq] at h
      rw [← h.1]; exact hN
    · rename_i d' ha
      simp only [Option.some.injEq, Prod.mk.injEq] at h
      rw [← h.1]
      have hN2 : NU (s1.set fd (remNameAt (s1.get fd) fidx)) := NU_set _ _ _ hN (remNameAt_nodup _ _ (hN _))
      have hnot2 : tname ∉ liveNames ((s1.set fd (remNameAt (s1.get fd) fidx)).get td).slots := by
        rw [get_set]
        split
        · rename_i he
          rw [← he]
          simp only [remNameAt]
          exact notin_of_sublist (liveNames_set_free_sublist _ _) hnot
        · exact hnot
      exact NU_set _ _ _ hN2 (addName_nodup _ d' c.slot fino tname hf hnot2 (hN2 td) ha)

theorem doRename_NU (s : FS) (c : Choice) (ffh fname tfh tname : Bytes) (hN : NU s) :
    NU (doRename s c ffh fname tfh tname).1 := by
  unfold doRename
  split
  · exact hN
  · split
    · exact hN
    · rename_i fd td _
      split
      · exact hN
      · rename_i fino fidx hlf
        split
        · exact hN
        · split
          · exact hN
          · split
            · exact hN
            · rename_i s1 hs1
              obtain ⟨_, _, hf0⟩ := lookupIn_some_spec _ _ _ _ hlf
              split
              · exact hN
              · exact hN
              · rename_i s3 r _ hm
                -- the target directory is a directory (otherwise moveName refuses)
                by_cases hk : (s.get td).kind = NF3DIR
                · obtain ⟨hN1, hnot⟩ := unlinkTarget_spec s s1 td fino tname hN hk hs1
                  exact moveName_NU s1 s3 c fd fidx td fino tname r hN1 hf0 hnot hm
                · -- not a directory: no target entry, nothing unlinked, and moveName refuses
                  have hl : lookupIn (s.get td) tname = none := by simp [lookupIn, hk]
                  rw [hl] at hs1
                  simp only [unlinkTarget, Option.some.injEq] at hs1
                  subst hs1
                  unfold moveName at hm
                  simp only at hm
                  have hk2 : ((s.set fd (remNameAt (s.get fd) fidx)).get td).kind ≠ NF3DIR := by
                    rw [get_set]
                    split
                    · rename_i he; rw [he] at hk; simpa [remNameAt] using hk
                    · exact hk
                  simp [hk2] at hm

theorem resize_slots (i : Inode) (sz : Nat) : (resize i sz).slots = i.slots := by
  unfold resize; split <;> rfl

/-- NAMES ARE UNIQUE AFTER EVERY OPERATION: one step of the reference file system keeps the
    names of every directory distinct. -/
theorem step_NU (s : FS) (op : Op) (c : Choice) (h : NU s) : NU (step s op c).1 := by
  cases op with
  | create dfh name mode => simp only [step]; split; exact h; exact doCreate_NU _ _ _ _ _ _ h
  | mkdir dfh name => exact doCreate_NU _ _ _ _ _ _ h
  | symlink dfh name target => exact doCreate_NU _ _ _ _ _ _ h
  | remove dfh name => exact doRemove_NU _ _ _ _ h
  | rmdir dfh name => exact doRemove_NU _ _ _ _ h
  | rename ffh fname tfh tname => exact doRename_NU _ _ _ _ _ _ h
  | setattr fh size atime mtime =>
    cases size <;> cases atime <;> cases mtime <;> simp only [step] <;> (repeat' split) <;>
      first
        | exact h
        | (apply NU_set _ _ _ h; simpa [resize_slots] using h _)
  | write fh off count stable data =>
    simp only [step]
    repeat' split
    all_goals first
      | exact h
      | exact NU_set _ _ _ h (h _)
  | _ =>
    simp only [step]
    repeat' split
    all_goals exact h

theorem mkfs_NU (u : Bool) (sz : Nat) : NU (mkfs u sz) := by
  intro i
  simp only [mkfs, FS.get]
  split
  · simp only [liveNames_cons]
    simp [ROOTINUM, liveNames]
  · simp [liveNames]

/-- names are unique in EVERY reachable state: after any history from the freshly formatted
    file system -/
theorem run_NU (s : FS) (ops : List (Op × Choice)) (h : NU s) : NU (run s ops).1 := by
  induction ops generalizing s with
  | nil => exact h
  | cons x rest ih =>
    obtain ⟨op, c⟩ := x
    simp only [run]
    exact ih _ (step_NU s op c h)

theorem notin_lookup_none (name : Bytes) (slots : List Slot) (k : Nat) (h : name ∉ liveNames slots) :
    lookupGo name slots k = none := by
  induction slots generalizing k with
  | nil => rfl
  | cons s rest ih =>
    rw [liveNames_cons] at h
    simp only [lookupGo]
    by_cases h0 : s.inum = 0
    · simp only [h0, ne_eq, not_true_eq_false, if_false, false_and] at h ⊢
      exact ih (k + 1) h
    · simp only [ne_eq, h0, not_false_eq_true, if_true, List.mem_cons, not_or] at h
      have : ¬ (s.inum ≠ 0 ∧ s.name = name) := fun hc => h.1 hc.2.symm
      simp only [this, if_false]
      exact ih (k + 1) h.2

/-- A removed name is gone: after a successful REMOVE/RMDIR of `name` in a directory whose names
    are unique (every reachable state), a LOOKUP of `name` in that directory finds nothing —
    there is no second entry of the same name behind the removed one. -/
theorem removed_disappear (s s' : FS) (dfh name : Bytes) (isdir : Bool) (d : Nat) (hN : NU s)
    (hres : resolve s dfh = some d) (h : doRemove s dfh name isdir = (s', .done)) :
    lookupIn (s'.get d) name = none := by
  unfold doRemove at h
  split at h
  · simp at h
  · rw [hres] at h
    simp only at h
    split at h
    · simp at h
    · rename_i cino idx hl
      obtain ⟨hk, hls, _⟩ := lookupIn_some_spec _ _ _ _ hl
      repeat' split at h
      all_goals try (simp at h; done)
      simp only [Prod.mk.injEq, and_true] at h
      subst h
      rw [get_set]
      split
      · simp [lookupIn, freeInode, lookupSlots, lookupGo]
      · rw [get_set_same]
        unfold lookupIn
        simp only [remNameAt, hk, ne_eq, not_true_eq_false, if_false]
        exact notin_lookup_none _ _ _ (name_gone_after_clear _ _ _ _ (hN d) hls)

end GoNfsd.Model.Fs

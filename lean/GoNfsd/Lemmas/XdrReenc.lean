/- Whatever the decoder produces, the encoder accepts, and the encoding is exactly as long as what
   the decoder consumed: decoded values respect every bound of their type (numbers below 2^32 /
   2^64, lengths within the declared maxima, a discriminant with its own arm), and the only
   freedom the decoder allows the sender — a boolean written as any non-zero word, padding bytes
   of any value — does not change the size. -/
import GoNfsd.Lemmas.XdrBound

namespace GoNfsd.Model.Xdr

theorem beNat_lt (bs : List UInt8) : beNat bs < 256 ^ bs.length := by
  induction bs with
  | nil => simp [beNat]
  | cons b bs ih =>
    rw [beNat_cons]
    have hb : b.toNat < 256 := b.toNat_lt
    simp only [List.length_cons, Nat.pow_succ]
    have hpos : 0 < 256 ^ bs.length := Nat.pow_pos (by decide)
    calc b.toNat * 256 ^ bs.length + beNat bs
        < b.toNat * 256 ^ bs.length + 256 ^ bs.length := by omega
      _ = (b.toNat + 1) * 256 ^ bs.length := by rw [Nat.add_mul]; simp
      _ ≤ 256 * 256 ^ bs.length := Nat.mul_le_mul_right _ (by omega)
      _ = 256 ^ bs.length * 256 := Nat.mul_comm _ _

theorem word_lt {bs w r : List UInt8} (h : takeN 4 bs = some (w, r)) : beNat w < 2 ^ 32 := by
  have := beNat_lt w
  rw [(takeN_len h).2] at this
  simpa using this

/-- what re-encoding has to deliver -/
def Reenc (t : Ty) (bs : List UInt8) (v : Val) (r : List UInt8) : Prop :=
  ∃ c, enc t v = some c ∧ c.length + r.length = bs.length

theorem decBytes_reenc {max : Option Nat} {bs : List UInt8} {v : Val} {r : List UInt8}
    (h : decBytes max bs = some (v, r)) :
    ∃ d, v = .bytes d ∧ lenOk max d.length = true ∧ 4 + d.length + padLen d.length + r.length = bs.length := by
  unfold decBytes at h
  cases h1 : takeN 4 bs with
  | none => simp [h1] at h
  | some p =>
    obtain ⟨w, r1⟩ := p
    simp only [h1] at h
    split at h
    · rename_i hok
      cases h2 : takeN (beNat w) r1 with
      | none => simp [h2] at h
      | some p2 =>
        obtain ⟨d, r2⟩ := p2
        simp only [h2] at h
        cases h3 : takeN (padLen (beNat w)) r2 with
        | none => simp [h3] at h
        | some p3 =>
          obtain ⟨pd, r3⟩ := p3
          simp [h3] at h
          obtain ⟨rfl, rfl⟩ := h
          have l1 := takeN_len h1; have l2 := takeN_len h2; have l3 := takeN_len h3
          refine ⟨d, rfl, by rw [l2.2]; exact hok, ?_⟩
          rw [l2.2]; omega
    · simp at h

theorem decNums_reenc : ∀ (k : Nat) (bs : List UInt8) (ns : List Nat) (r : List UInt8),
    decNums k bs = some (ns, r) →
    ns.length = k ∧ ∃ c, encNums ns = some c ∧ c.length = 4 * k ∧ c.length + r.length = bs.length := by
  intro k
  induction k with
  | zero =>
    intro bs ns r h
    simp [decNums] at h; obtain ⟨rfl, rfl⟩ := h
    exact ⟨rfl, [], by simp [encNums], by simp, by simp⟩
  | succ k ih =>
    intro bs ns r h
    simp only [decNums] at h
    cases h1 : takeN 4 bs with
    | none => simp [h1] at h
    | some p =>
      obtain ⟨w, r1⟩ := p
      simp only [h1] at h
      cases h2 : decNums k r1 with
      | none => simp [h2] at h
      | some p2 =>
        obtain ⟨ns', r2⟩ := p2
        simp [h2] at h
        obtain ⟨rfl, rfl⟩ := h
        obtain ⟨hl, c, hc, hcl, hcr⟩ := ih r1 ns' r2 h2
        have hw := word_lt h1
        have l1 := (takeN_len h1).1
        refine ⟨by simp [hl], be 4 (beNat w) ++ c, ?_, by simp; omega, by simp; omega⟩
        simp [encNums, hw, hc]

/-- the chain loop re-encodes, element by element -/
theorem decChain_reenc (encElem : Val → Option (List UInt8))
    (decElem : List UInt8 → Option (Val × List UInt8))
    (hel : ∀ b v r, decElem b = some (v, r) → ∃ c, encElem v = some c ∧ c.length + r.length = b.length) :
    ∀ (fuel : Nat) (bs : List UInt8) (vs : List Val) (r : List UInt8),
      decChainWith decElem fuel bs = some (vs, r) →
      ∃ c, encChainWith encElem vs = some c ∧ c.length + r.length = bs.length := by
  intro fuel
  induction fuel with
  | zero => intro bs vs r h; simp [decChainWith] at h
  | succ f ih =>
    intro bs vs r h
    simp only [decChainWith] at h
    cases h1 : takeN 4 bs with
    | none => simp [h1] at h
    | some p =>
      obtain ⟨w, r1⟩ := p
      simp only [h1] at h
      have l1 := (takeN_len h1).1
      split at h
      · simp at h; obtain ⟨rfl, rfl⟩ := h
        exact ⟨be 4 0, by simp [encChainWith], by simp; omega⟩
      · cases h2 : decElem r1 with
        | none => simp [h2] at h
        | some p2 =>
          obtain ⟨v, r2⟩ := p2
          simp only [h2] at h
          cases h3 : decChainWith decElem f r2 with
          | none => simp [h3] at h
          | some p3 =>
            obtain ⟨vs', r3⟩ := p3
            simp [h3] at h
            obtain ⟨rfl, rfl⟩ := h
            obtain ⟨a, ha, hal⟩ := hel r1 v r2 h2
            obtain ⟨b, hb, hbl⟩ := ih r2 vs' r3 h3
            exact ⟨be 4 1 ++ a ++ b, by simp [encChainWith, ha, hb], by simp; omega⟩

mutual
theorem dec_reenc : ∀ (t : Ty) (bs : List UInt8) (v : Val) (r : List UInt8),
    dec t bs = some (v, r) → Reenc t bs v r
  | .u32, bs, v, r, h => by
    simp only [dec] at h
    cases h1 : takeN 4 bs with
    | none => simp [h1] at h
    | some p =>
      obtain ⟨w, r1⟩ := p
      simp [h1] at h; obtain ⟨rfl, rfl⟩ := h
      have := word_lt h1; have := (takeN_len h1).1
      exact ⟨be 4 (beNat w), by simp [enc]; omega, by simp; omega⟩
  | .u64, bs, v, r, h => by
    simp only [dec] at h
    cases h1 : takeN 8 bs with
    | none => simp [h1] at h
    | some p =>
      obtain ⟨w, r1⟩ := p
      simp [h1] at h; obtain ⟨rfl, rfl⟩ := h
      have hw := beNat_lt w
      rw [(takeN_len h1).2] at hw
      have := (takeN_len h1).1
      exact ⟨be 8 (beNat w), by simp [enc]; simpa using hw, by simp; omega⟩
  | .bool, bs, v, r, h => by
    simp only [dec] at h
    cases h1 : takeN 4 bs with
    | none => simp [h1] at h
    | some p =>
      obtain ⟨w, r1⟩ := p
      simp [h1] at h; obtain ⟨rfl, rfl⟩ := h
      have := (takeN_len h1).1
      simp only [Reenc, enc]
      exact ⟨_, rfl, by simp; omega⟩
  | .str max, bs, v, r, h => by
    simp only [dec] at h
    obtain ⟨d, rfl, hok, hl⟩ := decBytes_reenc h
    simp only [Reenc, enc, hok, if_true]
    exact ⟨_, rfl, by simp; omega⟩
  | .opaqueVar max, bs, v, r, h => by
    simp only [dec] at h
    obtain ⟨d, rfl, hok, hl⟩ := decBytes_reenc h
    simp only [Reenc, enc, hok, if_true]
    exact ⟨_, rfl, by simp; omega⟩
  | .opaqueFix n, bs, v, r, h => by
    simp only [dec] at h
    cases h1 : takeN n bs with
    | none => simp [h1] at h
    | some p =>
      obtain ⟨d, r1⟩ := p
      simp only [h1] at h
      cases h2 : takeN (padLen n) r1 with
      | none => simp [h2] at h
      | some p2 =>
        obtain ⟨pd, r2⟩ := p2
        simp [h2] at h; obtain ⟨rfl, rfl⟩ := h
        have l1 := takeN_len h1; have l2 := takeN_len h2
        simp only [Reenc, enc, l1.2, if_true]
        exact ⟨_, rfl, by simp; omega⟩
  | .arrU32 max, bs, v, r, h => by
    simp only [dec] at h
    cases h1 : takeN 4 bs with
    | none => simp [h1] at h
    | some p =>
      obtain ⟨w, r1⟩ := p
      simp only [h1] at h
      split at h
      · rename_i hok
        cases h2 : decNums (beNat w) r1 with
        | none => simp [h2] at h
        | some p2 =>
          obtain ⟨ns, r2⟩ := p2
          simp [h2] at h; obtain ⟨rfl, rfl⟩ := h
          obtain ⟨hl, c, hc, hcl, hcr⟩ := decNums_reenc _ _ _ _ h2
          have l1 := (takeN_len h1).1
          exact ⟨be 4 ns.length ++ c, by simp [enc, hl, hok, hc], by simp; omega⟩
      · simp at h
  | .struct fs, bs, v, r, h => by
    simp only [dec] at h
    cases h1 : decFields fs bs with
    | none => simp [h1] at h
    | some p =>
      obtain ⟨vs, r1⟩ := p
      simp [h1] at h; obtain ⟨rfl, rfl⟩ := h
      obtain ⟨c, hc, hl⟩ := decFields_reenc fs bs vs r1 h1
      exact ⟨c, by simp [enc, hc], hl⟩
  | .unionU32 keys arms hasDflt dflt, bs, v, r, h => by
    simp only [dec] at h
    cases h1 : takeN 4 bs with
    | none => simp [h1] at h
    | some p =>
      obtain ⟨w, r1⟩ := p
      simp only [h1] at h
      have hw := word_lt h1
      have l1 := (takeN_len h1).1
      cases h2 : decArm keys arms (beNat w) r1 with
      | some res =>
        simp only [h2] at h
        cases res with
        | none => simp at h
        | some p2 =>
          obtain ⟨v2, r2⟩ := p2
          simp at h; obtain ⟨rfl, rfl⟩ := h
          obtain ⟨c, hc, hl⟩ := (decArm_reenc keys arms (beNat w) r1).1 v2 r2 h2
          exact ⟨be 4 (beNat w) ++ c, by simp [enc, hw, hc], by simp; omega⟩
      | none =>
        simp only [h2] at h
        have hnone := (decArm_reenc keys arms (beNat w) r1).2 h2
        split at h
        · rename_i hd
          cases h3 : dec dflt r1 with
          | none => simp [h3] at h
          | some p3 =>
            obtain ⟨v3, r3⟩ := p3
            simp [h3] at h; obtain ⟨rfl, rfl⟩ := h
            obtain ⟨c, hc, hl⟩ := dec_reenc dflt r1 v3 r3 h3
            exact ⟨be 4 (beNat w) ++ c, by simp [enc, hw, hnone v3, hd, hc], by simp; omega⟩
        · rename_i hd
          simp at h; obtain ⟨rfl, rfl⟩ := h
          exact ⟨be 4 (beNat w), by simp [enc, hw, hnone, hd], by simp; omega⟩
  | .unionBool t f, bs, v, r, h => by
    simp only [dec] at h
    cases h1 : takeN 4 bs with
    | none => simp [h1] at h
    | some p =>
      obtain ⟨w, r1⟩ := p
      simp only [h1] at h
      have l1 := (takeN_len h1).1
      split at h
      · cases h3 : dec t r1 with
        | none => simp [h3] at h
        | some p3 =>
          obtain ⟨v3, r3⟩ := p3
          simp [h3] at h; obtain ⟨rfl, rfl⟩ := h
          obtain ⟨c, hc, hl⟩ := dec_reenc t r1 v3 r3 h3
          exact ⟨be 4 1 ++ c, by simp [enc, hc], by simp; omega⟩
      · cases h3 : dec f r1 with
        | none => simp [h3] at h
        | some p3 =>
          obtain ⟨v3, r3⟩ := p3
          simp [h3] at h; obtain ⟨rfl, rfl⟩ := h
          obtain ⟨c, hc, hl⟩ := dec_reenc f r1 v3 r3 h3
          exact ⟨be 4 0 ++ c, by simp [enc, hc], by simp; omega⟩
  | .chain elem, bs, v, r, h => by
    simp only [dec] at h
    cases h1 : decChainWith (fun b => (decFields elem b).map fun p => (Val.struct p.1, p.2)) bs.length bs with
    | none => simp [h1] at h
    | some p =>
      obtain ⟨vs, r1⟩ := p
      simp [h1] at h; obtain ⟨rfl, rfl⟩ := h
      obtain ⟨c, hc, hl⟩ := decChain_reenc
        (fun v => match v with | .struct fvs => encFields elem fvs | _ => none) _ (by
          intro b v' r' hb
          cases h2 : decFields elem b with
          | none => simp [h2] at hb
          | some p2 =>
            obtain ⟨vs2, r2⟩ := p2
            simp [h2] at hb; obtain ⟨rfl, rfl⟩ := hb
            exact decFields_reenc elem b vs2 r2 h2)
        _ _ _ _ h1
      exact ⟨c, by simp only [enc]; exact hc, hl⟩

theorem decFields_reenc : ∀ (ts : List Ty) (bs : List UInt8) (vs : List Val) (r : List UInt8),
    decFields ts bs = some (vs, r) → ∃ c, encFields ts vs = some c ∧ c.length + r.length = bs.length
  | [], bs, vs, r, h => by
    simp [decFields] at h; obtain ⟨rfl, rfl⟩ := h
    exact ⟨[], by simp [encFields], by simp⟩
  | t :: ts, bs, vs, r, h => by
    simp only [decFields] at h
    cases h1 : dec t bs with
    | none => simp [h1] at h
    | some p =>
      obtain ⟨v, r1⟩ := p
      simp only [h1] at h
      cases h2 : decFields ts r1 with
      | none => simp [h2] at h
      | some p2 =>
        obtain ⟨vs2, r2⟩ := p2
        simp [h2] at h; obtain ⟨rfl, rfl⟩ := h
        obtain ⟨a, ha, hal⟩ := dec_reenc t bs v r1 h1
        obtain ⟨b, hb, hbl⟩ := decFields_reenc ts r1 vs2 r2 h2
        exact ⟨a ++ b, by simp [encFields, ha, hb], by simp; omega⟩

theorem decArm_reenc : ∀ (ks : List Nat) (ts : List Ty) (d : Nat) (bs : List UInt8),
    (∀ v r, decArm ks ts d bs = some (some (v, r)) →
      ∃ c, encArm ks ts d v = some (some c) ∧ c.length + r.length = bs.length) ∧
    (decArm ks ts d bs = none → ∀ v, encArm ks ts d v = none)
  | [], ts, d, bs => by simp [decArm, encArm]
  | k :: ks, [], d, bs => by simp [decArm, encArm]
  | k :: ks, t :: ts, d, bs => by
    simp only [decArm, encArm]
    by_cases hk : k = d
    · simp only [hk, if_true]
      constructor
      · intro v r h
        simp at h
        obtain ⟨c, hc, hl⟩ := dec_reenc t bs v r h
        exact ⟨c, by simp [hc], hl⟩
      · intro h; simp at h
    · simp only [hk, if_false]
      exact decArm_reenc ks ts d bs
end

end GoNfsd.Model.Xdr

import GoNfsd.Model.ObjLog

namespace GoNfsd.Model.ObjLog

/-- nothing is durable that was not appended; the remembered position is a position -/
def Inv (s : OL) : Prop := s.durable ≤ s.next ∧ s.pos ≤ s.next

theorem step_inv (s : OL) (e : Ev) (h : Inv s) : Inv (step s e) := by
  obtain ⟨h1, h2⟩ := h
  cases e with
  | commit fits wait =>
    cases fits with
    | true =>
      cases wait <;> simp [step, Inv] <;> omega
    | false => simp [step, Inv]; omega
  | flush => simp [step, Inv]; omega
  | bg k => simp [step, Inv]; omega

theorem run_inv (es : List Ev) : ∀ s, Inv s → Inv (run s es) := by
  induction es with
  | nil => intro s h; exact h
  | cons e es ih => intro s h; exact ih _ (step_inv s e h)

theorem step_durable_mono (s : OL) (e : Ev) : s.durable ≤ (step s e).durable := by
  cases e with
  | commit fits wait => cases fits <;> cases wait <;> simp [step] <;> omega
  | flush => simp [step]; omega
  | bg k => simp [step]; omega

theorem step_next_mono (s : OL) (e : Ev) : s.next ≤ (step s e).next := by
  cases e with
  | commit fits wait => cases fits <;> simp [step]
  | flush => simp [step]
  | bg k => simp [step]

theorem run_durable_mono (es : List Ev) : ∀ s, s.durable ≤ (run s es).durable := by
  induction es with
  | nil => intro s; exact Nat.le_refl _
  | cons e es ih => intro s; exact Nat.le_trans (step_durable_mono s e) (ih _)

/-- a stable commit of a transaction the log takes makes EVERYTHING appended so far durable,
    whatever was remembered, refused or flushed before -/
theorem stable_commit_all_durable (s : OL) (h : Inv s) :
    (step s (.commit true true)).durable = (step s (.commit true true)).next := by
  obtain ⟨h1, _⟩ := h
  simp [step]; omega

/-- `Flush()` right after a refused transaction makes nothing durable -/
theorem flush_after_refusal_noop (s : OL) (w : Bool) :
    (step (step s (.commit false w)) .flush).durable = s.durable := by
  simp [step]

/-- `Flush()` right after a transaction the log took is complete -/
theorem flush_after_commit_complete (s : OL) (w : Bool) (h : Inv s) :
    (step (step s (.commit true w)) .flush).durable = (step (step s (.commit true w)) .flush).next := by
  obtain ⟨h1, _⟩ := h
  cases w <;> simp [step] <;> omega

end GoNfsd.Model.ObjLog

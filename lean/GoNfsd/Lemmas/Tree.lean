/-
The tree clauses of C04 — "." names the directory itself, ".." names the directory that holds
its name, every object in use is reachable from the root — as an invariant of every operation
of the reference file system M6 EXCEPT a RENAME that moves a directory to another directory
(the known finding: the real RENAME leaves ".." behind and accepts a move into the own subtree).
-/
import GoNfsd.Lemmas.Named

namespace GoNfsd.Model.Fs
open GoNfsd.Gen.Consts

/-- reachable from the root by names -/
inductive Reach (s : FS) : Nat → Prop
  | root : Reach s ROOTINUM
  | step (d idx ino : Nat) : Reach s d → Ref s d idx ino → Reach s ino

theorem reach_transfer (s s' : FS) (P : Nat → Prop)
    (hedge : ∀ d idx ino, Ref s d idx ino → P ino → P d ∧ (Reach s' d → Reach s' ino)) :
    ∀ x, Reach s x → P x → Reach s' x := by
  intro x hr
  induction hr with
  | root => intro _; exact Reach.root
  | step d idx ino _ href ih =>
    intro hp
    obtain ⟨hpd, hf⟩ := hedge d idx ino href hp
    exact hf (ih hpd)

structure WFT (s : FS) : Prop where
  wfo : WFO s
  /-- "." names the directory itself -/
  dot : ∀ d, (s.get d).kind = NF3DIR → ∃ sl, (s.get d).slots[0]? = some sl ∧ sl.inum = d
  /-- ".." of a named directory names the directory that holds the name -/
  dotdot : ∀ d idx ino, Ref s d idx ino → (s.get ino).kind = NF3DIR →
    ∃ sl, (s.get ino).slots[1]? = some sl ∧ sl.inum = d
  /-- ".." of the root names the root -/
  rootdd : ∃ sl, (s.get ROOTINUM).slots[1]? = some sl ∧ sl.inum = ROOTINUM
  /-- every object in use is reachable from the root -/
  tree : ∀ ino, (s.get ino).kind ≠ 0 → Reach s ino

theorem WFT_mkfs (u : Bool) (sz : Nat) : WFT (mkfs u sz) := by
  refine ⟨WFO_mkfs u sz, ?_, ?_, ?_, ?_⟩
  · intro d hk
    simp only [mkfs, FS.get] at hk ⊢
    split at hk
    · rename_i he; subst he; simp
    · simp [NF3DIR] at hk
  · intro d idx ino hr
    exact absurd hr (by
      intro ⟨sl, hget, _, _, hidx⟩
      simp only [mkfs, FS.get] at hget
      split at hget
      · have := two_slots_lt _ _ _ _ hget; omega
      · simp at hget)
  · simp [mkfs, FS.get]
  · intro ino hk
    simp only [mkfs, FS.get] at hk
    split at hk
    · rename_i he; rw [he]; exact Reach.root
    · simp at hk


/-! ### unlinking a name and freeing its object -/

theorem unlinked_get (s : FS) (dino idx cino j : Nat) : (unlinked s dino idx cino).get j =
    if j = cino then freeInode (if cino = dino then remNameAt (s.get dino) idx else s.get cino)
    else if j = dino then remNameAt (s.get dino) idx else s.get j := by
  simp only [unlinked]
  rw [get_set2, get_set]

theorem unlinked_kind (s : FS) (dino idx cino j : Nat) (hj : j ≠ cino) :
    ((unlinked s dino idx cino).get j).kind = (s.get j).kind := by
  rw [unlinked_get]
  simp only [hj, if_false]
  split
  · rename_i he; rw [he]; rfl
  · rfl

theorem unlinked_low (s : FS) (dino idx cino j k : Nat) (hj : j ≠ cino) (hk : k < 2) (hidx : 2 ≤ idx) :
    ((unlinked s dino idx cino).get j).slots[k]? = (s.get j).slots[k]? := by
  rw [unlinked_get]
  simp only [hj, if_false]
  split
  · rename_i he
    simp only [remNameAt, List.getElem?_set]
    have : ¬ idx = k := by omega
    simp only [this, if_false]; rw [he]
  · rfl

theorem unlinked_refs_old (s : FS) (dino idx cino d j ino : Nat)
    (hr : Ref (unlinked s dino idx cino) d j ino) : Ref s d j ino ∧ d ≠ cino := by
  obtain ⟨sl, hg, hi, hn0, hj⟩ := hr
  rw [unlinked_get] at hg
  by_cases hc : d = cino
  · simp only [hc, if_true, freeInode] at hg; simp at hg
  · simp only [hc, if_false] at hg
    by_cases hd : d = dino
    · simp only [hd, if_true, remNameAt] at hg
      obtain ⟨_, hold⟩ := set_free_get _ _ _ _ hg (by rw [hi]; exact hn0)
      exact ⟨⟨sl, by rw [hd]; exact hold, hi, hn0, hj⟩, hc⟩
    · simp only [hd, if_false] at hg
      exact ⟨⟨sl, hg, hi, hn0, hj⟩, hc⟩

theorem unlinked_WFT (s : FS) (dino idx cino : Nat) (h : WFT s) (hdk : (s.get dino).kind = NF3DIR)
    (href : Ref s dino idx cino) (hno : NoRefsFrom s cino) : WFT (unlinked s dino idx cino) := by
  have hO := unlinked_WFO s dino idx cino h.wfo hdk href hno
  obtain ⟨sl0, hget0, hino0, hc0, hidx⟩ := href
  have href : Ref s dino idx cino := ⟨sl0, hget0, hino0, hc0, hidx⟩
  have hcr : cino ≠ ROOTINUM := fun he => h.wfo.root_unnamed dino idx (he ▸ href)
  have hfreed : ((unlinked s dino idx cino).get cino).kind = 0 := by
    rw [unlinked_get]; simp [freeInode]
  refine ⟨hO, ?_, ?_, ?_, ?_⟩
  · intro d hk
    have hdc : d ≠ cino := by
      intro he; rw [he, hfreed] at hk; simp [NF3DIR] at hk
    rw [unlinked_kind _ _ _ _ _ hdc] at hk
    rw [unlinked_low _ _ _ _ _ _ hdc (by omega) hidx]
    exact h.dot d hk
  · intro d j ino hr hk
    obtain ⟨hold, _⟩ := unlinked_refs_old _ _ _ _ _ _ _ hr
    have hic : ino ≠ cino := by
      intro he; rw [he, hfreed] at hk; simp [NF3DIR] at hk
    rw [unlinked_kind _ _ _ _ _ hic] at hk
    rw [unlinked_low _ _ _ _ _ _ hic (by omega) hidx]
    exact h.dotdot d j ino hold hk
  · rw [unlinked_low _ _ _ _ _ _ (Ne.symm hcr) (by omega) hidx]
    exact h.rootdd
  · intro ino hk
    have hic : ino ≠ cino := by
      intro he; rw [he, hfreed] at hk; exact hk rfl
    rw [unlinked_kind _ _ _ _ _ hic] at hk
    refine reach_transfer s _ (fun x => x ≠ cino) ?_ ino (h.tree ino hk) hic
    intro d j x hr hx
    have hdc : d ≠ cino := fun he => hno j x (he ▸ hr)
    refine ⟨hdc, fun hrd => Reach.step d j x hrd (unlinked_ref_keep s dino idx cino d j x hr ?_ hdc)⟩
    intro ⟨e1, e2⟩
    obtain ⟨sl, hg, hi, _, _⟩ := hr
    rw [e1, e2, hget0] at hg
    simp only [Option.some.injEq] at hg
    rw [← hg] at hi; exact hx (hi.symm.trans hino0)

theorem doRemove_WFT (s : FS) (dfh name : Bytes) (isdir : Bool) (h : WFT s) : WFT (doRemove s dfh name isdir).1 := by
  unfold doRemove
  split
  · exact h
  · rename_i hill
    split
    · exact h
    · rename_i dino _
      dsimp only
      split
      · exact h
      · rename_i cino idx hl
        obtain ⟨hk, hls, _⟩ := lookupIn_some_spec _ _ _ _ hl
        have href := lookup_is_ref s dino name cino idx (h.wfo.wfn.dots dino hk) hls (by simpa using hill)
        split
        · exact h
        · split
          · exact h
          · rename_i hc2
            split
            · exact h
            · rename_i hc3
              split
              · exact h
              · rename_i hc4
                have hno : NoRefsFrom s cino := by
                  by_cases hd : (s.get cino).kind = NF3DIR
                  · apply noRefs_of_empty
                    cases isdir with
                    | true =>
                      apply Classical.byContradiction
                      intro hne
                      exact hc3 ⟨rfl, hne⟩
                    | false => exact absurd ⟨by simp, hd⟩ hc4
                  · exact noRefs_of_not_dir s cino h.wfo.wfn hd
                exact unlinked_WFT s dino idx cino h hk href hno


/-! ### CREATE / MKDIR / SYMLINK -/

theorem putSlot_low (slots : List Slot) (slot k : Nat) (x : Slot) (hok : slotOk slots slot = true)
    (h2 : 2 ≤ slot) (hk : k < 2) : (putSlot slots slot x)[k]? = slots[k]? := by
  rw [putSlot_get _ _ _ _ hok]
  have : ¬ k = slot := by omega
  simp only [this, if_false]

theorem doCreate_WFT (s : FS) (c : Choice) (dfh name : Bytes) (kind : Nat) (t : Array UInt8)
    (hkind : kind ≠ 0) (h : WFT s) : WFT (doCreate s c dfh name kind t).1 := by
  have hO := doCreate_WFO s c dfh name kind t hkind h.wfo
  rcases doCreate_reply s c dfh name kind t with hf | ⟨fh, a, hr⟩
  · rw [doCreate_fail s c dfh name kind t hf]; exact h
  · have hfull : doCreate s c dfh name kind t = ((doCreate s c dfh name kind t).1, .handle fh a) := by rw [← hr]
    obtain ⟨dino, d', hres, hl, hne, hfree, _, hci2, ha, hs', _, _⟩ := doCreate_ok_shape s c dfh name kind t _ fh a hfull
    obtain ⟨hdk, hok, hslots, hdk'⟩ := addName_some_spec _ _ _ _ _ ha
    rw [hs'] at hO ⊢
    generalize hfr : freshInode kind ((s.get c.inum).gen + 1) c.inum dino t = fresh at *
    have hfk : fresh.kind = kind := by rw [← hfr]; exact freshInode_kind _ _ _ _ _
    have hfs : fresh.slots = if kind = NF3DIR then [⟨c.inum, [46]⟩, ⟨dino, [46, 46]⟩] else [] := by
      rw [← hfr]; exact freshInode_slots _ _ _ _ _
    have hcr : c.inum ≠ ROOTINUM := by
      intro he; rw [he] at hfree; rw [h.wfo.root_dir] at hfree; simp [NF3DIR] at hfree
    have hslot2 := slotOk_ge_two (s.get dino) c.slot (h.wfo.wfn.dots dino hdk) hok
    have hcd : ¬ c.inum = dino := Ne.symm hne
    have hkind' : ∀ j, j ≠ c.inum → (((s.set c.inum fresh).set dino d').get j).kind = (s.get j).kind := by
      intro j hj
      rw [get_set2]
      by_cases hd : j = dino
      · simp only [hd, if_true]; rw [hdk']
      · simp only [hd, hj, if_false]
    have hlow : ∀ j k, j ≠ c.inum → k < 2 →
        (((s.set c.inum fresh).set dino d').get j).slots[k]? = (s.get j).slots[k]? := by
      intro j k hj hk
      rw [get_set2]
      by_cases hd : j = dino
      · simp only [hd, if_true]; rw [hslots, putSlot_low _ _ _ _ hok hslot2 hk]
      · simp only [hd, hj, if_false]
    have hnewget : ((s.set c.inum fresh).set dino d').get c.inum = fresh := by
      rw [get_set2]; simp only [hcd, if_false, if_true]
    have keep : ∀ d j ino, Ref s d j ino → Ref ((s.set c.inum fresh).set dino d') d j ino := by
      intro d j ino ⟨sl, hg, hi, hn0, hj⟩
      refine ⟨sl, ?_, hi, hn0, hj⟩
      rw [get_set2]
      by_cases hd : d = dino
      · subst hd
        simp only [if_true]
        rw [hslots, putSlot_get _ _ _ _ hok]
        have := slotOk_not_live _ _ _ _ hok hg (by rw [hi]; exact hn0)
        simp only [this, if_false]; exact hg
      · simp only [hd, if_false]
        by_cases hc : d = c.inum
        · subst hc
          rw [h.wfo.wfn.noslots _ (by rw [hfree]; simp [NF3DIR])] at hg
          simp at hg
        · simp only [hc, if_false]; exact hg
    have hnew : Ref ((s.set c.inum fresh).set dino d') dino c.slot c.inum := by
      refine ⟨⟨c.inum, name⟩, ?_, rfl, by omega, hslot2⟩
      rw [get_set2]
      simp only [if_true]
      rw [hslots, putSlot_get _ _ _ _ hok]
      simp
    have refs : ∀ d idx ino, Ref ((s.set c.inum fresh).set dino d') d idx ino →
        (d = dino ∧ ino = c.inum) ∨ (Ref s d idx ino) := by
      intro d idx ino ⟨sl, hget, hino, hn0, hidx⟩
      rw [get_set2] at hget
      by_cases hd : d = dino
      · subst hd
        simp only [if_true] at hget
        rw [hslots, putSlot_get _ _ _ _ hok] at hget
        by_cases hi : idx = c.slot
        · simp only [hi, if_true, Option.some.injEq] at hget
          subst hget
          exact Or.inl ⟨rfl, hino.symm⟩
        · simp only [hi, if_false] at hget
          exact Or.inr ⟨sl, hget, hino, hn0, hidx⟩
      · simp only [hd, if_false] at hget
        by_cases hc : d = c.inum
        · subst hc
          simp only [if_true] at hget
          rw [hfs] at hget
          split at hget
          · have := two_slots_lt _ _ _ _ hget; omega
          · simp at hget
        · simp only [hc, if_false] at hget
          exact Or.inr ⟨sl, hget, hino, hn0, hidx⟩
    refine ⟨hO, ?_, ?_, ?_, ?_⟩
    · intro d hk
      by_cases hc : d = c.inum
      · rw [hc, hnewget] at hk ⊢
        rw [hfk] at hk
        rw [hfs]; simp [hk]
      · rw [hkind' _ hc] at hk
        rw [hlow _ _ hc (by omega)]
        exact h.dot d hk
    · intro d j ino hr hk
      rcases refs d j ino hr with ⟨hd, hi⟩ | hold
      · rw [hi, hnewget] at hk ⊢
        rw [hfk] at hk
        rw [hfs, hd]; simp [hk]
      · have hic : ino ≠ c.inum := fun he => (h.wfo.wfn.nd d j ino hold) (he ▸ hfree)
        rw [hkind' _ hic] at hk
        rw [hlow _ _ hic (by omega)]
        exact h.dotdot d j ino hold hk
    · rw [hlow _ _ (Ne.symm hcr) (by omega)]; exact h.rootdd
    · intro ino hk
      have htrans : ∀ x, Reach s x → Reach ((s.set c.inum fresh).set dino d') x := by
        intro x hx
        exact reach_transfer s _ (fun _ => True)
          (fun d j y hr _ => ⟨trivial, fun hrd => Reach.step d j y hrd (keep d j y hr)⟩) x hx trivial
      by_cases hic : ino = c.inum
      · rw [hic]
        have hdl : (s.get dino).kind ≠ 0 := by rw [hdk]; simp [NF3DIR]
        exact Reach.step dino c.slot c.inum (htrans dino (h.tree dino hdl)) hnew
      · rw [hkind' _ hic] at hk
        exact htrans ino (h.tree ino hk)


/-! ### moving a name (RENAME after its target was unlinked) -/

theorem moved_WFT (s1 : FS) (slot fd fidx td fino : Nat) (tname : Bytes) (d' : Inode) (h : WFT s1)
    (hfdk : (s1.get fd).kind = NF3DIR) (href : Ref s1 fd fidx fino)
    (ha : addName ((s1.set fd (remNameAt (s1.get fd) fidx)).get td) slot fino tname = some d')
    (hNU : NU ((s1.set fd (remNameAt (s1.get fd) fidx)).set td d'))
    (hrestr : fd = td ∨ (s1.get fino).kind ≠ NF3DIR) (hftd : fino ≠ td) :
    WFT ((s1.set fd (remNameAt (s1.get fd) fidx)).set td d') := by
  have hO := moved_WFO s1 slot fd fidx td fino tname d' h.wfo hfdk href ha hNU
  obtain ⟨sl0, hget0, hino0, hf0, hfidx⟩ := href
  have href : Ref s1 fd fidx fino := ⟨sl0, hget0, hino0, hf0, hfidx⟩
  generalize hdto : (s1.set fd (remNameAt (s1.get fd) fidx)).get td = dto at ha
  obtain ⟨hdtok, hok, hslots, hdk'⟩ := addName_some_spec _ _ _ _ _ ha
  have hdto' : dto = if td = fd then remNameAt (s1.get fd) fidx else s1.get td := by
    rw [← hdto, get_set]
  have hdtokind : dto.kind = (s1.get td).kind := by
    rw [hdto']; split
    · rename_i he; rw [he]; rfl
    · rfl
  have htdk : (s1.get td).kind = NF3DIR := by rw [← hdtokind]; exact hdtok
  have hdtodots : HasDots dto := by
    rw [hdto']; split
    · exact hasDots_set_free _ _ (h.wfo.wfn.dots fd hfdk) hfidx
    · exact h.wfo.wfn.dots td htdk
  have hslot2 := slotOk_ge_two dto slot hdtodots hok
  have hkind : ∀ i, (((s1.set fd (remNameAt (s1.get fd) fidx)).set td d').get i).kind = (s1.get i).kind := by
    intro i
    rw [get_set2]
    by_cases hi : i = td
    · simp only [hi, if_true]; rw [hdk', hdtokind]
    · simp only [hi, if_false]
      by_cases hi2 : i = fd
      · simp only [hi2, if_true]; rfl
      · simp only [hi2, if_false]
  have hrem_low : ∀ k, k < 2 → (remNameAt (s1.get fd) fidx).slots[k]? = (s1.get fd).slots[k]? := by
    intro k hk
    simp only [remNameAt, List.getElem?_set]
    have : ¬ fidx = k := by omega
    simp only [this, if_false]
  have hlow : ∀ j k, k < 2 →
      (((s1.set fd (remNameAt (s1.get fd) fidx)).set td d').get j).slots[k]? = (s1.get j).slots[k]? := by
    intro j k hk
    rw [get_set2]
    by_cases hd : j = td
    · simp only [hd, if_true]
      rw [hslots, putSlot_low _ _ _ _ hok hslot2 hk, hdto']
      split
      · rename_i he; rw [hrem_low k hk, he]
      · rfl
    · simp only [hd, if_false]
      by_cases hdf : j = fd
      · simp only [hdf, if_true]; exact hrem_low k hk
      · simp only [hdf, if_false]
  have dto_get : ∀ j sl, (s1.get td).slots[j]? = some sl → sl.inum ≠ 0 → ¬ (td = fd ∧ j = fidx) →
      dto.slots[j]? = some sl := by
    intro j sl hg hl hnot
    rw [hdto']
    split
    · rename_i he
      simp only [remNameAt]
      rw [List.getElem?_set]
      have : ¬ fidx = j := fun e => hnot ⟨he, e.symm⟩
      simp only [this, if_false]
      rw [← he]; exact hg
    · exact hg
  have keep : ∀ d j ino, Ref s1 d j ino → ¬ (d = fd ∧ j = fidx) →
      Ref ((s1.set fd (remNameAt (s1.get fd) fidx)).set td d') d j ino := by
    intro d j ino ⟨sl, hg, hi, hn0, hj⟩ hnot
    refine ⟨sl, ?_, hi, hn0, hj⟩
    rw [get_set2]
    by_cases hd : d = td
    · subst hd
      simp only [if_true]
      have hdg := dto_get j sl hg (by rw [hi]; exact hn0) hnot
      rw [hslots, putSlot_get _ _ _ _ hok]
      have := slotOk_not_live _ _ _ _ hok hdg (by rw [hi]; exact hn0)
      simp only [this, if_false]; exact hdg
    · simp only [hd, if_false]
      by_cases hdf : d = fd
      · subst hdf
        simp only [if_true, remNameAt]
        rw [List.getElem?_set]
        have : ¬ fidx = j := fun e => hnot ⟨rfl, e.symm⟩
        simp only [this, if_false]; exact hg
      · simp only [hdf, if_false]; exact hg
  have hnew : Ref ((s1.set fd (remNameAt (s1.get fd) fidx)).set td d') td slot fino := by
    refine ⟨⟨fino, tname⟩, ?_, rfl, hf0, hslot2⟩
    rw [get_set2]
    simp only [if_true]
    rw [hslots, putSlot_get _ _ _ _ hok]
    simp
  have refs_old : ∀ d j ino, Ref ((s1.set fd (remNameAt (s1.get fd) fidx)).set td d') d j ino →
      (d = td ∧ ino = fino) ∨ Ref s1 d j ino := by
    intro d j ino ⟨sl, hg, hi, hn0, hj⟩
    rw [get_set2] at hg
    by_cases hd : d = td
    · subst hd
      simp only [if_true] at hg
      rw [hslots, putSlot_get _ _ _ _ hok] at hg
      by_cases hjs : j = slot
      · simp only [hjs, if_true, Option.some.injEq] at hg
        subst hg
        exact Or.inl ⟨rfl, hi.symm⟩
      · simp only [hjs, if_false] at hg
        rw [hdto'] at hg
        by_cases hdf : d = fd
        · simp only [hdf, if_true, remNameAt] at hg
          obtain ⟨_, hold⟩ := set_free_get _ _ _ _ hg (by rw [hi]; exact hn0)
          exact Or.inr ⟨sl, by rw [hdf]; exact hold, hi, hn0, hj⟩
        · simp only [hdf, if_false] at hg
          exact Or.inr ⟨sl, hg, hi, hn0, hj⟩
    · simp only [hd, if_false] at hg
      by_cases hdf : d = fd
      · simp only [hdf, if_true, remNameAt] at hg
        obtain ⟨_, hold⟩ := set_free_get _ _ _ _ hg (by rw [hi]; exact hn0)
        exact Or.inr ⟨sl, by rw [hdf]; exact hold, hi, hn0, hj⟩
      · simp only [hdf, if_false] at hg
        exact Or.inr ⟨sl, hg, hi, hn0, hj⟩
  -- the moved edge leads to `fino`
  have moved_edge : ∀ d j x, Ref s1 d j x → d = fd ∧ j = fidx → x = fino := by
    intro d j x ⟨sl, hg, hi, _, _⟩ ⟨e1, e2⟩
    rw [e1, e2, hget0] at hg
    simp only [Option.some.injEq] at hg
    rw [← hi, ← hg]; exact hino0
  refine ⟨hO, ?_, ?_, ?_, ?_⟩
  · intro d hk
    rw [hkind] at hk
    rw [hlow _ _ (by omega)]
    exact h.dot d hk
  · intro d j ino hr hk
    rw [hkind] at hk
    rw [hlow _ _ (by omega)]
    rcases refs_old d j ino hr with ⟨hd, hi⟩ | hold
    · rw [hi] at hk ⊢
      rcases hrestr with he | hnd
      · rw [hd, ← he]; exact h.dotdot fd fidx fino href hk
      · exact absurd hk hnd
    · exact h.dotdot d j ino hold hk
  · rw [hlow _ _ (by omega)]; exact h.rootdd
  · intro ino hk
    rw [hkind] at hk
    rcases hrestr with he | hnd
    · -- within one directory: the subtree below the moved object follows the new name
      refine reach_transfer s1 _ (fun _ => True) ?_ ino (h.tree ino hk) trivial
      intro d j x hr _
      refine ⟨trivial, fun hrd => ?_⟩
      by_cases hmv : d = fd ∧ j = fidx
      · have hx := moved_edge d j x hr hmv
        rw [hx]
        have hdt : d = td := hmv.1.trans he
        exact Reach.step td slot fino (hdt ▸ hrd) hnew
      · exact Reach.step d j x hrd (keep d j x hr hmv)
    · -- the moved object is not a directory: no path passes through it
      have hno : NoRefsFrom s1 fino := noRefs_of_not_dir s1 fino h.wfo.wfn hnd
      have hothers : ∀ x, Reach s1 x → x ≠ fino →
          Reach ((s1.set fd (remNameAt (s1.get fd) fidx)).set td d') x := by
        intro x hx hne
        refine reach_transfer s1 _ (fun y => y ≠ fino) ?_ x hx hne
        intro d j y hr hy
        have hdf : d ≠ fino := fun e => hno j y (e ▸ hr)
        refine ⟨hdf, fun hrd => Reach.step d j y hrd (keep d j y hr ?_)⟩
        intro hmv
        exact hy (moved_edge d j y hr hmv)
      by_cases hif : ino = fino
      · rw [hif]
        have htl : (s1.get td).kind ≠ 0 := by rw [htdk]; simp [NF3DIR]
        exact Reach.step td slot fino (hothers td (h.tree td htl) (Ne.symm hftd)) hnew
      · exact hothers ino (h.tree ino hk) hif


/-! ### RENAME -/

/-- the RENAME would move a directory into another directory -/
def movesDir (s : FS) (ffh fname tfh : Bytes) : Prop :=
  ∃ fd td fino fidx, renameDirs s ffh tfh = some (fd, td) ∧
    lookupIn (s.get fd) fname = some (fino, fidx) ∧ fd ≠ td ∧ (s.get fino).kind = NF3DIR

def movesDirB (s : FS) (ffh fname tfh : Bytes) : Bool :=
  match renameDirs s ffh tfh with
  | none => false
  | some (fd, td) =>
    match lookupIn (s.get fd) fname with
    | none => false
    | some (fino, _) => decide (fd ≠ td) && decide ((s.get fino).kind = NF3DIR)

theorem movesDir_iff (s : FS) (ffh fname tfh : Bytes) :
    movesDir s ffh fname tfh ↔ movesDirB s ffh fname tfh = true := by
  unfold movesDir movesDirB
  constructor
  · intro ⟨fd, td, fino, fidx, h1, h2, h3, h4⟩
    simp [h1, h2, h3, h4]
  · intro h
    split at h
    · cases h
    · rename_i fd td h1
      split at h
      · cases h
      · rename_i fino fidx h2
        simp only [Bool.and_eq_true, decide_eq_true_eq] at h
        exact ⟨fd, td, fino, fidx, h1, h2, h.1, h.2⟩

instance (s : FS) (ffh fname tfh : Bytes) : Decidable (movesDir s ffh fname tfh) :=
  decidable_of_iff _ (movesDir_iff s ffh fname tfh).symm

theorem doRename_WFT (s : FS) (c : Choice) (ffh fname tfh tname : Bytes) (h : WFT s)
    (hnm : ¬ movesDir s ffh fname tfh) : WFT (doRename s c ffh fname tfh tname).1 := by
  unfold doRename
  split
  · exact h
  · rename_i hill
    simp only [not_or, Bool.not_eq_true] at hill
    split
    · exact h
    · rename_i fd td hfd
      split
      · exact h
      · rename_i fino fidx hlf
        split
        · exact h
        · rename_i hftd
          split
          · exact h
          · rename_i hself
            split
            · exact h
            · rename_i s1 hs1
              obtain ⟨hfdk, hlfs, hf0⟩ := lookupIn_some_spec _ _ _ _ hlf
              have href0 := lookup_is_ref s fd fname fino fidx (h.wfo.wfn.dots fd hfdk) hlfs hill.1
              split
              · exact h
              · exact h
              · rename_i s3 r hnb hm
                have h1 : WFT s1 ∧ Ref s1 fd fidx fino ∧ (s1.get fd).kind = NF3DIR ∧
                    (s1.get fino).kind = (s.get fino).kind := by
                  cases hlt : lookupIn (s.get td) tname with
                  | none =>
                    rw [hlt] at hs1
                    simp only [unlinkTarget, Option.some.injEq] at hs1
                    subst hs1
                    exact ⟨h, href0, hfdk, rfl⟩
                  | some p =>
                    obtain ⟨tino, tidx⟩ := p
                    rw [hlt] at hs1
                    obtain ⟨htdk, hlts, ht0⟩ := lookupIn_some_spec _ _ _ _ hlt
                    have hreft := lookup_is_ref s td tname tino tidx (h.wfo.wfn.dots td htdk) hlts hill.2
                    unfold unlinkTarget at hs1
                    simp only at hs1
                    split at hs1
                    · cases hs1
                    · rename_i hc1
                      split at hs1
                      · cases hs1
                      · rename_i hc2
                        simp only [Option.some.injEq] at hs1
                        have hs1' : s1 = unlinked s td tidx tino := hs1.symm
                        have htf : tino ≠ fino := by
                          intro he
                          subst he
                          obtain ⟨e1, _⟩ := h.wfo.wfn.ur fd fidx td tidx tino href0 hreft
                          exact hself ⟨e1, by rw [hlt]; rfl⟩
                        have hno : NoRefsFrom s tino := by
                          by_cases hd : (s.get tino).kind = NF3DIR
                          · apply noRefs_of_empty
                            apply Classical.byContradiction
                            intro hne
                            exact hc2 ⟨hd, hne⟩
                          · exact noRefs_of_not_dir s tino h.wfo.wfn hd
                        have hfdt : fd ≠ tino := by
                          intro he
                          subst he
                          exact hno fidx fino href0
                        have hnot : ¬ (fd = td ∧ fidx = tidx) := by
                          intro ⟨e1, e2⟩
                          obtain ⟨sl, hg, hi, _, _⟩ := href0
                          obtain ⟨sl', hg', hi', _, _⟩ := hreft
                          rw [e1, e2, hg'] at hg
                          simp only [Option.some.injEq] at hg
                          rw [hg] at hi'; exact htf (hi'.symm.trans hi)
                        rw [hs1']
                        refine ⟨unlinked_WFT s td tidx tino h htdk hreft hno,
                          unlinked_ref_keep s td tidx tino fd fidx fino href0 hnot hfdt, ?_,
                          unlinked_kind s td tidx tino fino (Ne.symm htf)⟩
                        rw [unlinked_kind s td tidx tino fd hfdt]; exact hfdk
                obtain ⟨hW1, hR1, hK1, hKf⟩ := h1
                have hNUfinal : NU s3 := by
                  have := doRename_NU s c ffh fname tfh tname h.wfo.wfn.nu
                  unfold doRename at this
                  have hill' : ¬ (illegalName fname = true ∨ illegalName tname = true) := by
                    simp [hill.1, hill.2]
                  rw [if_neg hill'] at this
                  simp only [hfd, hlf] at this
                  rw [if_neg hftd, if_neg hself] at this
                  simp only [hs1, hm] at this
                  exact this
                have hrestr : fd = td ∨ (s1.get fino).kind ≠ NF3DIR := by
                  by_cases he : fd = td
                  · exact Or.inl he
                  · refine Or.inr ?_
                    rw [hKf]
                    intro hk
                    exact hnm ⟨fd, td, fino, fidx, hfd, hlf, he, hk⟩
                unfold moveName at hm
                simp only at hm
                split at hm
                · cases hm
                · split at hm
                  · simp only [Option.some.injEq, Prod.mk.injEq] at hm
                    exact absurd hm.2.symm (hnb _)
                  · rename_i d' ha
                    simp only [Option.some.injEq, Prod.mk.injEq] at hm
                    rw [← hm.1] at hNUfinal ⊢
                    exact moved_WFT s1 c.slot fd fidx td fino tname d' hW1 hK1 hR1 ha hNUfinal hrestr hftd

/-! ### every operation, every history without a directory moved to another directory -/

theorem WFT_set_same (s : FS) (i : Nat) (x : Inode) (h : WFT s) (hs : x.slots = (s.get i).slots)
    (hk : x.kind = (s.get i).kind) : WFT (s.set i x) := by
  have hslots : ∀ j, ((s.set i x).get j).slots = (s.get j).slots := by
    intro j; rw [get_set]; split
    · rename_i he; rw [he, hs]
    · rfl
  have hkind : ∀ j, ((s.set i x).get j).kind = (s.get j).kind := by
    intro j; rw [get_set]; split
    · rename_i he; rw [he, hk]
    · rfl
  have href : ∀ d j ino, Ref (s.set i x) d j ino ↔ Ref s d j ino := by
    intro d j ino; simp only [Ref, hslots]
  refine ⟨WFO_set_same s i x h.wfo hs hk, ?_, ?_, ?_, ?_⟩
  · intro d hd; rw [hkind] at hd; rw [hslots]; exact h.dot d hd
  · intro d j ino hr hd
    rw [hkind] at hd; rw [hslots]
    exact h.dotdot d j ino ((href _ _ _).1 hr) hd
  · rw [hslots]; exact h.rootdd
  · intro ino hk'
    rw [hkind] at hk'
    exact reach_transfer s _ (fun _ => True)
      (fun d j y hr _ => ⟨trivial, fun hrd => Reach.step d j y hrd ((href _ _ _).2 hr)⟩) ino (h.tree ino hk') trivial

/-- the operation is not a RENAME that moves a directory to another directory -/
def NoDirMove (s : FS) : Op → Prop
  | .rename ffh fname tfh _ => ¬ movesDir s ffh fname tfh
  | _ => True

instance (s : FS) (op : Op) : Decidable (NoDirMove s op) := by
  cases op <;> simp only [NoDirMove] <;> infer_instance

theorem step_WFT (s : FS) (op : Op) (c : Choice) (h : WFT s) (hn : NoDirMove s op) :
    WFT (step s op c).1 := by
  cases op with
  | create dfh name mode =>
    simp only [step]; split; exact h; exact doCreate_WFT _ _ _ _ _ _ (by decide) h
  | mkdir dfh name => exact doCreate_WFT _ _ _ _ _ _ (by decide) h
  | symlink dfh name target => exact doCreate_WFT _ _ _ _ _ _ (by decide) h
  | remove dfh name => exact doRemove_WFT _ _ _ _ h
  | rmdir dfh name => exact doRemove_WFT _ _ _ _ h
  | rename ffh fname tfh tname => exact doRename_WFT _ _ _ _ _ _ h hn
  | setattr fh size atime mtime =>
    cases size <;> cases atime <;> cases mtime <;> simp only [step] <;> (repeat' split) <;>
      first
        | exact h
        | (apply WFT_set_same _ _ _ h <;> simp only [resize_slots, resize_kind])
  | write fh off count stable data =>
    simp only [step]
    repeat' split
    all_goals first
      | exact h
      | exact WFT_set_same _ _ _ h rfl rfl
  | _ =>
    simp only [step]
    repeat' split
    all_goals exact h

/-- no operation of the history moves a directory to another directory -/
def NoDirMoves : FS → List (Op × Choice) → Prop
  | _, [] => True
  | s, (op, c) :: rest => NoDirMove s op ∧ NoDirMoves (step s op c).1 rest

instance decNoDirMoves : (s : FS) → (ops : List (Op × Choice)) → Decidable (NoDirMoves s ops)
  | _, [] => isTrue trivial
  | s, (op, c) :: rest =>
    have := decNoDirMoves (step s op c).1 rest
    inferInstanceAs (Decidable (NoDirMove s op ∧ NoDirMoves (step s op c).1 rest))

theorem run_WFT (s : FS) (ops : List (Op × Choice)) (h : WFT s) (hn : NoDirMoves s ops) :
    WFT (run s ops).1 := by
  induction ops generalizing s with
  | nil => exact h
  | cons x rest ih =>
    obtain ⟨op, c⟩ := x
    simp only [run]
    exact ih _ (step_WFT s op c h hn.1) hn.2

end GoNfsd.Model.Fs

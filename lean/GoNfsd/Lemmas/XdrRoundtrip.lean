/- The mutual round-trip induction over type descriptors. -/
import GoNfsd.Lemmas.Xdr

namespace GoNfsd.Model.Xdr

mutual
theorem dec_enc : ∀ (t : Ty) (v : Val) (bs rest : List UInt8),
    enc t v = some bs → dec t (bs ++ rest) = some (v, rest)
  | .u32, v, bs, rest, h => by
    cases v <;> simp [enc] at h
    obtain ⟨hn, rfl⟩ := h
    simp [dec, take_word, beNat_be 4 _ (by simpa using hn)]
  | .u64, v, bs, rest, h => by
    cases v <;> simp [enc] at h
    obtain ⟨hn, rfl⟩ := h
    simp [dec, take_word, beNat_be 8 _ (by simpa using hn)]
  | .bool, v, bs, rest, h => by
    cases v <;> simp [enc] at h
    subst h
    rename_i b
    cases b <;> simp [dec, take_word, beNat_be 4 _ (by decide : (0:Nat) < 256 ^ 4),
      beNat_be 4 _ (by decide : (1:Nat) < 256 ^ 4)]
  | .str max, v, bs, rest, h => by
    cases v <;> simp [enc] at h
    obtain ⟨hl, rfl⟩ := h
    simpa [dec] using decBytes_enc max _ rest hl
  | .opaqueVar max, v, bs, rest, h => by
    cases v <;> simp [enc] at h
    obtain ⟨hl, rfl⟩ := h
    simpa [dec] using decBytes_enc max _ rest hl
  | .opaqueFix n, v, bs, rest, h => by
    cases v <;> simp [enc] at h
    obtain ⟨hl, rfl⟩ := h
    rename_i d
    simp only [dec, List.append_assoc]
    rw [takeN_append' d _ n hl]
    simp only []
    rw [takeN_append' (zeros (padLen n)) rest _ (zeros_length _)]
    simp
  | .arrU32 max, v, bs, rest, h => by
    cases v <;> simp [enc] at h
    obtain ⟨hl, b, hb, rfl⟩ := h
    simp only [dec, List.append_assoc, take_word, beNat_be 4 _ (lenOk_lt hl), hl, if_true,
      decNums_enc _ b rest hb]
    simp
  | .struct fs, v, bs, rest, h => by
    cases v <;> simp [enc] at h
    simp [dec, decFields_enc fs _ bs rest h]
  | .unionU32 keys arms hasDflt dflt, v, bs, rest, h => by
    cases v <;> simp only [enc] at h <;> try (simp at h; done)
    rename_i d w
    split at h
    · rename_i hd
      have hd' : d < 256 ^ 4 := by simpa using hd
      cases harm : encArm keys arms d w with
      | some r =>
        simp only [harm] at h
        cases r with
        | none => simp at h
        | some b =>
          simp at h; subst h
          have := (decArm_enc keys arms d w (some b) harm).1 b rest rfl
          simp [dec, take_word, beNat_be 4 _ hd', this]
      | none =>
        simp only [harm] at h
        have hnone := (decArm_enc keys arms d w none harm).2 rfl
        cases hasDflt with
        | true =>
          simp at h
          obtain ⟨b, hb, rfl⟩ := h
          have := dec_enc dflt w b rest hb
          simp [dec, take_word, beNat_be 4 _ hd', hnone, this]
        | false =>
          simp at h
          split at h
          · simp at h; subst h
            simp [dec, take_word, beNat_be 4 _ hd', hnone]
          · simp at h
    · simp at h
  | .unionBool t f, v, bs, rest, h => by
    cases v <;> simp only [enc] at h <;> try (simp at h; done)
    rename_i b w
    cases b with
    | true =>
      simp at h
      obtain ⟨a, ha, rfl⟩ := h
      have := dec_enc t w a rest ha
      simp [dec, take_word, beNat_be 4 _ (by decide : (1:Nat) < 256 ^ 4), this]
    | false =>
      simp at h
      obtain ⟨a, ha, rfl⟩ := h
      have := dec_enc f w a rest ha
      simp [dec, take_word, beNat_be 4 _ (by decide : (0:Nat) < 256 ^ 4), this]
  | .chain elem, v, bs, rest, h => by
    cases v <;> simp only [enc] at h <;> try (simp at h; done)
    rename_i vs
    have hlen := encChain_length _ vs bs h
    have := decChain_enc _
      (fun b => (decFields elem b).map fun p => (Val.struct p.1, p.2)) vs
      (by
        intro w _ b r hw
        cases w with
        | struct fvs =>
          simp only [] at hw
          simp [decFields_enc elem fvs b r hw]
        | _ => simp at hw)
      bs rest (bs ++ rest).length h (by simp; omega)
    simp only [dec]
    rw [this]
    rfl

theorem decFields_enc : ∀ (ts : List Ty) (vs : List Val) (bs rest : List UInt8),
    encFields ts vs = some bs → decFields ts (bs ++ rest) = some (vs, rest)
  | [], vs, bs, rest, h => by
    cases vs <;> simp [encFields] at h
    subst h; simp [decFields]
  | t :: ts, vs, bs, rest, h => by
    cases vs with
    | nil => simp [encFields] at h
    | cons v vs =>
      simp only [encFields] at h
      cases ha : enc t v with
      | none => simp [ha] at h
      | some a =>
        cases hb : encFields ts vs with
        | none => simp [ha, hb] at h
        | some b =>
          simp [ha, hb] at h; subst h
          have h1 := dec_enc t v a (b ++ rest) ha
          have h2 := decFields_enc ts vs b rest hb
          simp [decFields, h1, h2]

theorem decArm_enc : ∀ (ks : List Nat) (ts : List Ty) (d : Nat) (v : Val)
    (r : Option (Option (List UInt8))), encArm ks ts d v = r →
    (∀ b rest, r = some (some b) → decArm ks ts d (b ++ rest) = some (some (v, rest))) ∧
    (r = none → ∀ bs, decArm ks ts d bs = none)
  | [], ts, d, v, r, h => by
    simp [encArm] at h; subst h; simp [decArm]
  | k :: ks, [], d, v, r, h => by
    simp [encArm] at h; subst h; simp [decArm]
  | k :: ks, t :: ts, d, v, r, h => by
    simp only [encArm] at h
    by_cases hk : k = d
    · simp [hk] at h
      subst h
      constructor
      · intro b rest hb
        simp at hb
        simp [decArm, hk, dec_enc t v b rest hb]
      · intro hn; simp at hn
    · simp [hk] at h
      have ih := decArm_enc ks ts d v r h
      constructor
      · intro b rest hb
        simp [decArm, hk, ih.1 b rest hb]
      · intro hn bs
        simp [decArm, hk, ih.2 hn bs]
end

end GoNfsd.Model.Xdr

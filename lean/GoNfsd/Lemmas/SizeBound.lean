/- No regular file of the reference model M6 ever exceeds the announced maximum file size: an invariant of every operation. -/
import GoNfsd.Lemmas.FsStep

namespace GoNfsd.Model.Fs
open GoNfsd.Gen.Consts

/-- a regular file is no larger than `MaxFileSize` -/
def SizeOK (x : Inode) : Prop := x.kind = NF3REG → x.size ≤ MaxFileSize

def AllSizeOK (s : FS) : Prop := ∀ i, SizeOK (s.get i)

theorem doCreate_size (s : FS) (c : Choice) (dfh name : Bytes) (kind : Nat) (t : Array UInt8) (i : Nat)
    (h : AllSizeOK s) : SizeOK ((doCreate s c dfh name kind t).1.get i) := by
  have hi := h i
  unfold doCreate
  unfold AllSizeOK SizeOK at *
  grind (splits := 40) [get_set, addName, freshInode, NF3REG, NF3DIR, NF3LNK]

theorem doRemove_size (s : FS) (dfh name : Bytes) (isdir : Bool) (i : Nat)
    (h : AllSizeOK s) : SizeOK ((doRemove s dfh name isdir).1.get i) := by
  have hi := h i
  unfold doRemove
  unfold AllSizeOK SizeOK at *
  grind (splits := 40) [get_set, remNameAt, freeInode, NF3REG, NF3DIR]

theorem unlinkTarget_size (s s1 : FS) (td fino : Nat) (toL : Option (Nat × Nat)) (i : Nat)
    (hu : unlinkTarget s td fino toL = some s1) (h : AllSizeOK s) : SizeOK (s1.get i) := by
  have hi := h i
  unfold unlinkTarget at hu
  unfold AllSizeOK SizeOK at *
  grind (splits := 40) [get_set, remNameAt, freeInode, NF3REG, NF3DIR]

theorem moveName_size (s1 s3 : FS) (c : Choice) (fd fidx td fino : Nat) (tname : Bytes) (r : Reply) (i : Nat)
    (hm : moveName s1 c fd fidx td fino tname = some (s3, r)) (h : AllSizeOK s1) : SizeOK (s3.get i) := by
  have hi := h i
  unfold moveName at hm
  unfold AllSizeOK SizeOK at *
  grind (splits := 40) [get_set, remNameAt, addName, NF3REG, NF3DIR]

theorem doRename_size (s : FS) (c : Choice) (ffh fname tfh tname : Bytes) (i : Nat)
    (h : AllSizeOK s) : SizeOK ((doRename s c ffh fname tfh tname).1.get i) := by
  unfold doRename
  split
  · exact h i
  · split
    · exact h i
    · split
      · exact h i
      · split
        · exact h i
        · split
          · exact h i
          · split
            · exact h i
            · rename_i s1 hs1
              split
              · exact h i
              · exact h i
              · rename_i s3 r hne hm
                have h1 : AllSizeOK s1 := fun j => unlinkTarget_size _ _ _ _ _ j hs1 h
                exact moveName_size _ _ _ _ _ _ _ _ _ i hm h1

theorem step_size (s : FS) (op : Op) (c : Choice) (i : Nat) (h : AllSizeOK s) :
    SizeOK ((step s op c).1.get i) := by
  have hi := h i
  cases op <;> simp only [step]
  case create dfh name mode =>
    split
    · exact hi
    · exact doCreate_size _ _ _ _ _ _ _ h
  case mkdir => exact doCreate_size _ _ _ _ _ _ _ h
  case symlink => exact doCreate_size _ _ _ _ _ _ _ h
  case remove => exact doRemove_size _ _ _ _ _ h
  case rmdir => exact doRemove_size _ _ _ _ _ h
  case rename => exact doRename_size _ _ _ _ _ _ _ h
  all_goals (unfold AllSizeOK SizeOK at *; grind (splits := 40) [get_set, resize, NF3REG])

theorem step_allsize (s : FS) (op : Op) (c : Choice) (h : AllSizeOK s) : AllSizeOK (step s op c).1 :=
  fun i => step_size s op c i h

theorem run_allsize (s : FS) (ops : List (Op × Choice)) (h : AllSizeOK s) : AllSizeOK (run s ops).1 := by
  induction ops generalizing s with
  | nil => exact h
  | cons x rest ih =>
    obtain ⟨op, c⟩ := x
    simp only [run]
    exact ih _ (step_allsize s op c h)

theorem mkfs_allsize (u : Bool) (sz : Nat) : AllSizeOK (mkfs u sz) := by
  intro i
  simp only [mkfs, FS.get, SizeOK]
  split
  · intro h; simp [NF3DIR, NF3REG] at h
  · intro h; simp [NF3REG] at h

end GoNfsd.Model.Fs

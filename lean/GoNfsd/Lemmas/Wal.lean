/- Lemmas for the write-ahead-log crash theorem. -/
import GoNfsd.Model.Wal

namespace GoNfsd.Model.Wal
open GoNfsd.Gen.Consts

variable {α : Type}

/-- the slot / address-table entry of a position within the last `L` positions below `e` is
    that position's -/
theorem lastPos_window (e p : Nat) (h1 : p < e) (h2 : e ≤ p + L) : lastPos e (p % L) = p := by
  unfold lastPos
  simp only [L, WAL_LOGSZ] at *
  by_cases h : e % 511 > p % 511
  · simp only [h, if_true]; omega
  · simp only [h, if_false]; omega

/-- two positions less than `L` apart do not share a slot -/
theorem no_slot_clash (p q : Nat) (h1 : p < q) (h2 : q < p + L) : q % L ≠ p % L := by
  simp only [L, WAL_LOGSZ] at *
  omega

theorem applyUpds_append (m : Nat → α) (us vs : List (Upd α)) (a : Nat) :
    applyUpds m (us ++ vs) a = applyUpds (applyUpds m us) vs a := by
  induction us generalizing m with
  | nil => rfl
  | cons u us ih =>
    simp only [List.cons_append, applyUpds]
    rw [ih]

/-- updates that do not touch address `a` leave it as it was -/
theorem applyUpds_untouched (m : Nat → α) (us : List (Upd α)) (a : Nat) (h : ∀ u ∈ us, u.addr ≠ a) :
    applyUpds m us a = m a := by
  induction us generalizing m with
  | nil => rfl
  | cons u us ih =>
    simp only [applyUpds]
    rw [ih _ (fun v hv => h v (List.mem_cons_of_mem _ hv))]
    have : a ≠ u.addr := fun he => h u (by simp) he.symm
    simp [this]

/-- if some update touches `a`, what was there before does not matter -/
theorem applyUpds_touched (m m' : Nat → α) (us : List (Upd α)) (a : Nat) (h : ∃ u ∈ us, u.addr = a) :
    applyUpds m us a = applyUpds m' us a := by
  induction us generalizing m m' with
  | nil => obtain ⟨u, hu, _⟩ := h; simp at hu
  | cons u us ih =>
    simp only [applyUpds]
    by_cases hr : ∃ v ∈ us, v.addr = a
    · exact ih _ _ hr
    · have hnone : ∀ v ∈ us, v.addr ≠ a := fun v hv he => hr ⟨v, hv, he⟩
      rw [applyUpds_untouched _ us a hnone, applyUpds_untouched _ us a hnone]
      obtain ⟨w, hw, hwa⟩ := h
      simp at hw
      rcases hw with hw | hw
      · subst hw; simp [hwa]
      · exact absurd hwa (hnone w hw)

theorem seg_split (U : Nat → Upd α) (lo mid hi : Nat) (h1 : lo ≤ mid) (h2 : mid ≤ hi) :
    seg U lo hi = seg U lo mid ++ seg U mid hi := by
  obtain ⟨k, rfl⟩ := Nat.exists_eq_add_of_le h1
  obtain ⟨j, rfl⟩ := Nat.exists_eq_add_of_le h2
  unfold seg
  rw [← List.map_append]
  congr 1
  have e1 : lo + k + j - lo = k + j := by omega
  have e2 : lo + k - lo = k := by omega
  have e3 : lo + k + j - (lo + k) = j := by omega
  rw [e1, e2, e3]
  exact (List.range'_append_1).symm

theorem mem_seg (U : Nat → Upd α) (lo hi : Nat) (u : Upd α) :
    u ∈ seg U lo hi ↔ ∃ p, lo ≤ p ∧ p < hi ∧ U p = u := by
  unfold seg
  simp only [List.mem_map, List.mem_range'_1]
  constructor
  · rintro ⟨p, ⟨h1, h2⟩, rfl⟩; exact ⟨p, h1, by omega, rfl⟩
  · rintro ⟨p, h1, h2, rfl⟩; exact ⟨p, ⟨h1, by omega⟩, rfl⟩

theorem spec_split (base : Nat → α) (U : Nat → Upd α) (s e : Nat) (h : s ≤ e) (a : Nat) :
    spec base U e a = applyUpds (spec base U s) (seg U s e) a := by
  unfold spec
  rw [seg_split U 0 s e (Nat.zero_le _) h, applyUpds_append]

/-- the protocol invariant -/
def Inv (s : St) : Prop :=
  s.sD ≤ s.homeDur ∧ s.homeDur ≤ s.homeCur ∧ s.homeCur ≤ s.eD ∧ s.eD ≤ s.slotDur ∧
  s.slotDur ≤ s.slotEnd ∧ s.slotEnd ≤ s.sD + L ∧
  (∀ x ∈ s.pS, s.sD ≤ x ∧ x ≤ s.homeDur) ∧
  (∀ x ∈ s.pE, s.eD ≤ x ∧ x ≤ s.slotDur ∧ x ≤ s.sD + L)

theorem getLast_mem_or (l : List Nat) (d : Nat) : l.getLast?.getD d = d ∨ l.getLast?.getD d ∈ l := by
  cases h : l.getLast? with
  | none => left; rfl
  | some x => right; simp; exact List.mem_of_getLast? h

theorem sIssued_bounds (s : St) (h : Inv s) : s.sD ≤ s.sIssued ∧ s.sIssued ≤ s.homeDur := by
  obtain ⟨h1, _, _, _, _, _, hS, _⟩ := h
  unfold St.sIssued
  rcases getLast_mem_or s.pS s.sD with he | hm
  · rw [he]; exact ⟨Nat.le_refl _, h1⟩
  · exact hS _ hm

theorem eIssued_bounds (s : St) (h : Inv s) : s.eD ≤ s.eIssued ∧ s.eIssued ≤ s.slotDur ∧ s.eIssued ≤ s.sD + L := by
  obtain ⟨h1, h2, h3, h4, h5, h6, _, hE⟩ := h
  unfold St.eIssued
  rcases getLast_mem_or s.pE s.eD with he | hm
  · rw [he]; exact ⟨Nat.le_refl _, h4, by omega⟩
  · exact hE _ hm

theorem inv_init : Inv init := by
  simp [Inv, init]

theorem inv_step (s : St) (x : Step) (h : Inv s) (g : guard s x) : Inv (step s x) := by
  have hsI := sIssued_bounds s h
  have heI := eIssued_bounds s h
  obtain ⟨h1, h2, h3, h4, h5, h6, hS, hE⟩ := h
  cases x with
  | slot =>
    simp only [guard] at g
    refine ⟨h1, h2, h3, h4, ?_, ?_, hS, hE⟩
    · show s.slotDur ≤ s.slotEnd + 1; omega
    · show s.slotEnd + 1 ≤ s.sD + L; omega
  | hdr1 e =>
    simp only [guard] at g
    refine ⟨h1, h2, h3, h4, h5, h6, hS, ?_⟩
    intro y hy
    simp only [step, List.mem_append, List.mem_singleton] at hy
    rcases hy with hy | hy
    · exact hE y hy
    · subst hy; exact ⟨Nat.le_trans heI.1 g.1, g.2.1, g.2.2⟩
  | home =>
    simp only [guard] at g
    refine ⟨h1, ?_, ?_, h4, h5, h6, hS, hE⟩
    · show s.homeDur ≤ s.homeCur + 1; omega
    · show s.homeCur + 1 ≤ s.eD; omega
  | hdr2 y =>
    simp only [guard] at g
    refine ⟨h1, h2, h3, h4, h5, h6, ?_, hE⟩
    intro z hz
    simp only [step, List.mem_append, List.mem_singleton] at hz
    rcases hz with hz | hz
    · exact hS z hz
    · subst hz; exact ⟨Nat.le_trans hsI.1 g.1, g.2⟩
  | barrier =>
    simp only [step, Inv]
    refine ⟨by omega, Nat.le_refl _, by omega, by omega, Nat.le_refl _, by omega, by simp, by simp⟩

/-- where the start and the end of a valid crash state lie -/
theorem crash_bounds (s : St) (U : Nat → Upd α) (c : Crash) (h : Inv s) (hv : c.valid s U) :
    s.sD ≤ c.start ∧ c.start ≤ s.homeDur ∧ s.eD ≤ c.endv ∧ c.endv ≤ s.slotDur ∧ c.endv ≤ s.sD + L := by
  obtain ⟨h1, h2, h3, h4, h5, h6, hS, hE⟩ := h
  obtain ⟨hcs, hce, _, _⟩ := hv
  have a : s.sD ≤ c.start ∧ c.start ≤ s.homeDur := by
    rcases hcs with h | h
    · rw [h]; exact ⟨Nat.le_refl _, h1⟩
    · exact hS _ h
  have b : s.eD ≤ c.endv ∧ c.endv ≤ s.slotDur ∧ c.endv ≤ s.sD + L := by
    rcases hce with h | h
    · rw [h]; exact ⟨Nat.le_refl _, h4, by omega⟩
    · exact hE _ h
  exact ⟨a.1, a.2, b.1, b.2.1, b.2.2⟩

theorem inv_restart (s : St) (U : Nat → Upd α) (c : Crash) (h : Inv s) (hv : c.valid s U) : Inv (restart c) := by
  have hb := crash_bounds s U c h hv
  obtain ⟨h1, h2, h3, h4, h5, h6, _, _⟩ := h
  simp only [Inv, restart]
  refine ⟨Nat.le_refl _, Nat.le_refl _, by omega, Nat.le_refl _, Nat.le_refl _, by omega, by simp, by simp⟩

theorem reach_inv (U : Nat → Upd α) (s : St) (h : Reach U s) : Inv s := by
  induction h with
  | init => exact inv_init
  | step s x _ g ih => exact inv_step s x ih g
  | crash s c _ hv ih => exact inv_restart s U c ih hv

end GoNfsd.Model.Wal

/- Lemmas about the block-map model M7 (Model/BlockMap.lean). -/
import GoNfsd.Model.BlockMap
open GoNfsd.Model.BlockMap GoNfsd.Gen.Consts

namespace GoNfsd.Model.BlockMap

theorem indshrink1_ret (s : S) (root off : Nat) :
    (indshrink s root 1 off).2 = if root = 0 then 0 else if off = 0 then root else 0 := by
  by_cases hr : root = 0
  · simp [indshrink, hr]
  · by_cases ho : off = 0
    · simp [indshrink, hr, pow, ho]
    · simp [indshrink, hr, pow, ho]

theorem indshrink2_ret (s : S) (root bn : Nat) :
    (indshrink s root 2 bn).2 = if root = 0 then 0 else if bn = 0 then root else 0 := by
  by_cases hr : root = 0
  · simp [indshrink, hr]
  · have : (bn / NBLKBLK = 0 ∧ bn % NBLKBLK = 0) ↔ bn = 0 := by
      simp only [NBLKBLK]; omega
    simp only [indshrink, hr, if_false, pow, this]

/-- What one round of `Shrink` does to the inode's own pointers: a direct pointer is cleared at
    its index; the indirect root is cleared exactly at index 8 and the double-indirect root
    exactly at index 520 — the FIRST index each of them serves — and at no other index. -/
theorem shrinkStep_blks (s : S) (blks : List Nat) (idx : Nat) :
    (shrinkStep s blks idx).2 =
      if idx < NDIRECT then blks.set idx 0
      else if idx = NDIRECT then (if blks.getD INDIRECT 0 = 0 then blks else blks.set INDIRECT 0)
      else if idx < NDIRECT + NBLKBLK then blks
      else if idx = NDIRECT + NBLKBLK then (if blks.getD DINDIRECT 0 = 0 then blks else blks.set DINDIRECT 0)
      else blks := by
  unfold shrinkStep
  by_cases h1 : idx < NDIRECT
  · simp [h1]
  · rw [if_neg h1, if_neg h1]
    by_cases h2 : idx - NDIRECT < NBLKBLK
    · simp only [h2, if_true]
      generalize hroot : blks.getD INDIRECT 0 = root
      have hret := indshrink1_ret s root (idx - NDIRECT)
      generalize indshrink s root 1 (idx - NDIRECT) = res at hret
      obtain ⟨s', fr⟩ := res
      simp only at hret ⊢
      have h3 : idx < NDIRECT + NBLKBLK := by omega
      by_cases h4 : idx = NDIRECT
      · have : idx - NDIRECT = 0 := by omega
        rw [this] at hret
        simp only [h4, if_true] at hret ⊢
        by_cases hr : root = 0
        · simp [hr] at hret; subst hret; simp [hr]
        · simp [hr] at hret; subst hret; simp [hr]
      · have : ¬ (idx - NDIRECT = 0) := by omega
        simp only [this, if_false] at hret
        have hfr : fr = 0 := by rw [hret]; split <;> rfl
        subst hfr
        simp [h4, h3]
    · simp only [h2, if_false]
      generalize hroot : blks.getD DINDIRECT 0 = root
      have hret := indshrink2_ret s root (idx - NDIRECT - NBLKBLK)
      generalize indshrink s root 2 (idx - NDIRECT - NBLKBLK) = res at hret
      obtain ⟨s', fr⟩ := res
      simp only at hret ⊢
      have h3 : ¬ idx < NDIRECT + NBLKBLK := by omega
      have h4 : ¬ idx = NDIRECT := by
        intro h; rw [h] at h2; exact h2 (by decide)
      by_cases h5 : idx = NDIRECT + NBLKBLK
      · have : idx - NDIRECT - NBLKBLK = 0 := by omega
        rw [this] at hret
        rw [if_neg h4, if_neg h3, if_pos h5]
        simp only [if_true] at hret
        by_cases hr : root = 0
        · simp [hr] at hret; subst hret; simp [hr]
        · simp [hr] at hret; subst hret; simp [hr]
      · have : ¬ (idx - NDIRECT - NBLKBLK = 0) := by omega
        simp only [this, if_false] at hret
        have hfr : fr = 0 := by rw [hret]; split <;> rfl
        subst hfr
        rw [if_neg h4, if_neg h3, if_neg h5]
        simp

theorem shrinkStep_len (s : S) (blks : List Nat) (idx : Nat) : (shrinkStep s blks idx).2.length = blks.length := by
  rw [shrinkStep_blks]
  repeat' split
  all_goals simp

theorem getD_set (l : List Nat) (i j v : Nat) (hi : i < l.length) :
    (l.set i v).getD j 0 = if j = i then v else l.getD j 0 := by
  simp only [List.getD_eq_getElem?_getD, List.getElem?_set]
  by_cases h : i = j
  · subst h; simp [hi]
  · simp [h, Ne.symm h]

theorem shrinkStep_getD (s : S) (blks : List Nat) (n : Nat) (hl : blks.length = NDIRECT + 2) :
    (∀ i, i < NDIRECT → (shrinkStep s blks n).2.getD i 0 = if i = n then 0 else blks.getD i 0) ∧
    ((shrinkStep s blks n).2.getD INDIRECT 0 = if n = NDIRECT then 0 else blks.getD INDIRECT 0) ∧
    ((shrinkStep s blks n).2.getD DINDIRECT 0 = if n = NDIRECT + NBLKBLK then 0 else blks.getD DINDIRECT 0) := by
  rw [shrinkStep_blks]
  simp only [NDIRECT, NBLKBLK, INDIRECT, DINDIRECT] at *
  by_cases h1 : n < 8
  · simp only [h1, if_true]
    refine ⟨fun i hi => ?_, ?_, ?_⟩
    · rw [getD_set _ _ _ _ (by omega)]
    · rw [getD_set _ _ _ _ (by omega)]
      have : ¬ (8 = n) := by omega
      have h' : ¬ (n = 8) := by omega
      simp [this, h']
    · rw [getD_set _ _ _ _ (by omega)]
      have : ¬ (9 = n) := by omega
      have h' : ¬ (n = 8 + 512) := by omega
      simp [this, h']
  · simp only [h1, if_false]
    by_cases h2 : n = 8
    · subst h2
      simp only [if_true]
      by_cases hr : blks.getD 8 0 = 0
      · simp only [hr, if_true]
        refine ⟨fun i hi => ?_, ?_, ?_⟩
        · have : ¬ (i = 8) := by omega
          simp [this]
        · trivial
        · simp
      · simp only [hr, if_false]
        refine ⟨fun i hi => ?_, ?_, ?_⟩
        · rw [getD_set _ _ _ _ (by omega)]
        · rw [getD_set _ _ _ _ (by omega)]; simp
        · rw [getD_set _ _ _ _ (by omega)]; simp
    · simp only [h2, if_false]
      by_cases h3 : n < 8 + 512
      · simp only [h3, if_true]
        refine ⟨fun i hi => ?_, ?_⟩
        · have : ¬ (i = n) := by omega
          simp [this]
        · have : ¬ (n = 8 + 512) := by omega
          simp [this]
      · simp only [h3, if_false]
        by_cases h4 : n = 8 + 512
        · subst h4
          simp only [if_true]
          by_cases hr : blks.getD 9 0 = 0
          · simp only [hr, if_true]
            refine ⟨fun i hi => ?_, ?_⟩
            · have : ¬ (i = 8 + 512) := by omega
              simp [this]
            · simp
          · simp only [hr, if_false]
            refine ⟨fun i hi => ?_, ?_, ?_⟩
            · rw [getD_set _ _ _ _ (by omega)]
              have : ¬ (i = 8 + 512) := by omega
              have : ¬ (i = 9) := by omega
              simp [*]
            · rw [getD_set _ _ _ _ (by omega)]; simp
            · rw [getD_set _ _ _ _ (by omega)]; simp
        · simp only [h4, if_false]
          refine ⟨fun i hi => ?_, ?_⟩
          · have : ¬ (i = n) := by omega
            simp [this]
          · simp

/-- The pointers of the inode after `Shrink` has run from `N` blocks down to `T`: pointer `p`
    (a direct pointer at its index, the indirect root at 8, the double-indirect root at 520) is
    cleared exactly if the run visits its index, `T ≤ index < N`; otherwise it is untouched. -/
theorem shrinkTo_blks (s : S) (blks : List Nat) (T N : Nat) (hl : blks.length = NDIRECT + 2) :
    ((shrinkTo s blks T N).2.length = NDIRECT + 2) ∧
    (∀ i, i < NDIRECT → (shrinkTo s blks T N).2.getD i 0 = if T ≤ i ∧ i < N then 0 else blks.getD i 0) ∧
    ((shrinkTo s blks T N).2.getD INDIRECT 0 = if T ≤ NDIRECT ∧ NDIRECT < N then 0 else blks.getD INDIRECT 0) ∧
    ((shrinkTo s blks T N).2.getD DINDIRECT 0 =
      if T ≤ NDIRECT + NBLKBLK ∧ NDIRECT + NBLKBLK < N then 0 else blks.getD DINDIRECT 0) := by
  induction N generalizing s blks with
  | zero => simp [shrinkTo, hl]
  | succ n ih =>
    unfold shrinkTo
    by_cases hT : T < n + 1
    · simp only [hT, if_true]
      have hlen := shrinkStep_len s blks n
      obtain ⟨i1, i2, i3, i4⟩ := ih (shrinkStep s blks n).1 (shrinkStep s blks n).2 (by rw [hlen, hl])
      obtain ⟨a2, a3, a4⟩ := shrinkStep_getD s blks n hl
      refine ⟨i1, fun i hi => ?_, ?_, ?_⟩
      · rw [i2 i hi, a2 i hi]
        by_cases hc : T ≤ i ∧ i < n
        · have : T ≤ i ∧ i < n + 1 := by omega
          simp [hc, this]
        · by_cases hin : i = n
          · have : T ≤ i ∧ i < n + 1 := by omega
            simp [hc, hin, this]
            intro h; omega
          · have : ¬ (T ≤ i ∧ i < n + 1) := by omega
            simp [hc, hin, this]
      · rw [i3, a3]
        by_cases hc : T ≤ NDIRECT ∧ NDIRECT < n
        · have : T ≤ NDIRECT ∧ NDIRECT < n + 1 := by omega
          simp [hc, this]
        · by_cases hin : n = NDIRECT
          · have : T ≤ NDIRECT ∧ NDIRECT < n + 1 := by omega
            simp [hc, hin, this]
          · have : ¬ (T ≤ NDIRECT ∧ NDIRECT < n + 1) := by omega
            simp [hc, hin, this]
      · rw [i4, a4]
        by_cases hc : T ≤ NDIRECT + NBLKBLK ∧ NDIRECT + NBLKBLK < n
        · have : T ≤ NDIRECT + NBLKBLK ∧ NDIRECT + NBLKBLK < n + 1 := by omega
          simp [hc, this]
        · by_cases hin : n = NDIRECT + NBLKBLK
          · have : T ≤ NDIRECT + NBLKBLK ∧ NDIRECT + NBLKBLK < n + 1 := by omega
            simp [hc, hin, this]
          · have : ¬ (T ≤ NDIRECT + NBLKBLK ∧ NDIRECT + NBLKBLK < n + 1) := by omega
            simp [hc, hin, this]
    · simp only [hT, if_false]
      refine ⟨hl, fun i hi => ?_, ?_, ?_⟩
      · have : ¬ (T ≤ i ∧ i < n + 1) := by omega
        simp [this]
      · have : ¬ (T ≤ NDIRECT ∧ NDIRECT < n + 1) := by omega
        simp [this]
      · have : ¬ (T ≤ NDIRECT + NBLKBLK ∧ NDIRECT + NBLKBLK < n + 1) := by omega
        simp [this]

/-- the read-only block map: the disk block serving file block `bn`, 0 for a hole -/
def lookup (st : Store) (blks : List Nat) (bn : Nat) : Nat :=
  if bn < NDIRECT then blks.getD bn 0
  else if bn - NDIRECT < NBLKBLK then
    (if blks.getD INDIRECT 0 = 0 then 0 else st (blks.getD INDIRECT 0) (bn - NDIRECT))
  else
    let o := bn - NDIRECT - NBLKBLK
    if blks.getD DINDIRECT 0 = 0 then 0
    else if st (blks.getD DINDIRECT 0) (o / NBLKBLK) = 0 then 0
    else st (st (blks.getD DINDIRECT 0) (o / NBLKBLK)) (o % NBLKBLK)

theorem indbmap0 (s : S) (root off : Nat) :
    indbmap s root 0 off =
      (if root = 0 then (s.alloc.2, s.alloc.1, s.alloc.1) else (s, root, root)) := by
  unfold indbmap
  by_cases hr : root = 0
  · simp only [hr, if_true]
    cases h : s.alloc with
    | mk b s' =>
      by_cases hb : b = 0
      · simp [hb]
      · simp [hb]
  · simp [hr]

theorem put_same (st : Store) (b i v : Nat) : (st.put b i v) b i = v := by simp [Store.put]

/-- `bmap` does what its name says for the direct and single-indirect ranges: when it returns a
    block for `bn`, the block map afterwards maps `bn` to that block. -/
theorem bmap_maps (s : S) (blks : List Nat) (bn : Nat) (hl : blks.length = NDIRECT + 2)
    (hbn : bn < NDIRECT + NBLKBLK) :
    let r := bmap s blks bn
    r.2.2.1 ≠ 0 → lookup r.1.st r.2.1 bn = r.2.2.1 := by
  intro r hne
  simp only [r] at hne ⊢
  unfold bmap at hne ⊢
  by_cases h1 : bn < NDIRECT
  · simp only [h1, if_true] at hne ⊢
    by_cases h0 : blks.getD bn 0 = 0
    · simp only [h0, if_true] at hne ⊢
      cases ha : s.alloc with
      | mk b s' =>
        simp only [ha] at hne ⊢
        simp only [lookup, h1, if_true]
        rw [getD_set _ _ _ _ (by simp only [NDIRECT] at *; omega)]
        simp
    · simp only [h0, if_false] at hne ⊢
      simp [lookup, h1]
  · have h2 : bn - NDIRECT < NBLKBLK := by omega
    simp only [h1, if_false, h2, if_true] at hne ⊢
    generalize hroot : blks.getD INDIRECT 0 = root at hne ⊢
    -- unfold the two levels
    unfold indbmap at hne ⊢
    by_cases hr : root = 0
    · simp only [hr, if_true] at hne ⊢
      cases ha : s.alloc with
      | mk a s1 =>
        simp only [ha] at hne ⊢
        by_cases ha0 : a = 0
        · simp [ha0] at hne
        · simp only [ha0, if_false, pow, Nat.div_one, Nat.mod_one, indbmap0] at hne ⊢
          by_cases hn : s1.st a (bn - NDIRECT) = 0
          · simp only [hn, if_true] at hne ⊢
            cases hb : s1.alloc with
            | mk b s2 =>
              simp only [hb] at hne ⊢
              have hb0 : b ≠ 0 := by simpa using hne
              have : a ≠ 0 := ha0
              simp only [ne_eq, hb0, not_false_eq_true, if_true, Ne.symm ha0, decide_true]
              simp only [lookup, h1, if_false, h2, if_true, ha0, not_false_eq_true, decide_true]
              rw [getD_set _ _ _ _ (by simp only [NDIRECT, INDIRECT] at *; omega)]
              simp [ha0, put_same]
          · simp only [hn, if_false] at hne ⊢
            simp only [ne_eq, not_true_eq_false, if_false, Ne.symm ha0, not_false_eq_true, decide_true, if_true]
            simp only [lookup, h1, if_false, h2, if_true, ha0, not_false_eq_true, decide_true]
            rw [getD_set _ _ _ _ (by simp only [NDIRECT, INDIRECT] at *; omega)]
            simp [ha0]
    · simp only [hr, if_false, pow, Nat.div_one, Nat.mod_one, indbmap0] at hne ⊢
      have hroot' : blks[INDIRECT]?.getD 0 = root := by simpa [List.getD_eq_getElem?_getD] using hroot
      by_cases hn : s.st root (bn - NDIRECT) = 0
      · simp only [hn, if_true] at hne ⊢
        cases hb : s.alloc with
        | mk b s2 =>
          simp only [hb] at hne ⊢
          have hb0 : b ≠ 0 := by simpa using hne
          simp only [ne_eq, hb0, not_false_eq_true, if_true, not_true_eq_false, decide_false, if_false]
          simp [lookup, h1, h2, hroot', hr, put_same]
      · simp only [hn, if_false] at hne ⊢
        simp [lookup, h1, h2, hroot', hr]


end GoNfsd.Model.BlockMap

/- M8e: the name cache is the directory — invariant of every history of lookups, insertions, removals,
   dropped caches and aborted transactions; the slot `AddNameDir` picks is free or the end. -/
import GoNfsd.Model.NameCache
import GoNfsd.Lemmas.Names
import GoNfsd.Lemmas.Refs

namespace GoNfsd.Model.NameCache
open GoNfsd.Model.Fs GoNfsd.Gen.Consts

/-- slot `i` holds the live entry `name ↦ ino` -/
def Live (slots : List Slot) (name : Bytes) (ino i : Nat) : Prop :=
  ∃ sl, slots[i]? = some sl ∧ sl.inum ≠ 0 ∧ sl.name = name ∧ sl.inum = ino

/-- names unique, by index -/
theorem nodup_idx (slots : List Slot) (h : (liveNames slots).Nodup) (i j : Nat) (a b : Slot)
    (ha : slots[i]? = some a) (hb : slots[j]? = some b) (la : a.inum ≠ 0) (lb : b.inum ≠ 0)
    (hn : a.name = b.name) : i = j := by
  induction slots generalizing i j with
  | nil => simp at ha
  | cons s rest ih =>
    rw [liveNames_cons] at h
    have mem : ∀ (k : Nat) (x : Slot), rest[k]? = some x → x.inum ≠ 0 → x.name ∈ liveNames rest := by
      intro k x hx lx
      unfold liveNames
      exact List.mem_map.2 ⟨x, List.mem_filter.2 ⟨List.mem_of_getElem? hx, by simpa using lx⟩, rfl⟩
    cases i with
    | zero =>
      cases j with
      | zero => rfl
      | succ j =>
        simp at ha hb; subst ha
        simp only [ne_eq, la, not_false_eq_true, if_true, List.nodup_cons] at h
        exact absurd (hn ▸ mem j b hb lb) h.1
    | succ i =>
      cases j with
      | zero =>
        simp at ha hb; subst hb
        simp only [ne_eq, lb, not_false_eq_true, if_true, List.nodup_cons] at h
        exact absurd (hn ▸ mem i a ha la) h.1
      | succ j =>
        simp at ha hb
        have h' : (liveNames rest).Nodup := by
          by_cases h0 : s.inum = 0
          · simpa [h0] using h
          · simp only [ne_eq, h0, not_false_eq_true, if_true, List.nodup_cons] at h; exact h.2
        rw [ih h' i j ha hb]

/-- `lookupSlots` finds exactly the live entry of that name (names unique) -/
theorem lookup_iff (slots : List Slot) (h : (liveNames slots).Nodup) (name : Bytes) (ino i : Nat) :
    lookupSlots slots name = some (ino, i) ↔ Live slots name ino i := by
  constructor
  · intro hl
    obtain ⟨sl, _, hget, h0, hn, hi⟩ := lookupGo_some_spec name slots 0 ino i hl
    exact ⟨sl, by simpa using hget, h0, hn, hi⟩
  · rintro ⟨sl, hget, h0, hn, hi⟩
    have := lookupGo_first name slots 0 i sl hget ⟨h0, hn⟩ (by
      intro j hj sj hsj hm
      have := nodup_idx slots h j i sj sl hsj hget hm.1 h0 (hm.2.trans hn.symm)
      omega)
    unfold lookupSlots
    rw [this, hi]; simp

theorem lookup_none_iff (slots : List Slot) (name : Bytes) :
    lookupSlots slots name = none ↔ ∀ ino i, ¬ Live slots name ino i := by
  unfold lookupSlots
  rw [lookupGo_none]
  constructor
  · rintro h ino i ⟨sl, hget, h0, hn, _⟩
    exact h sl (List.mem_of_getElem? hget) ⟨h0, hn⟩
  · intro h s hs hm
    obtain ⟨i, hi⟩ := List.getElem?_of_mem hs
    exact h s.inum i ⟨s, hi, hm.1, hm.2, rfl⟩

/-- what the cache must be: exactly the live entries -/
structure Coh (slots : List Slot) (c : DC) : Prop where
  sound : ∀ e ∈ c.ents, Live slots e.name e.inum e.idx
  complete : ∀ name ino i, Live slots name ino i → ({ name := name, inum := ino, idx := i } : Ent) ∈ c.ents
  names : c.ents.Pairwise (fun a b => a.name ≠ b.name)
  hint : c.lastoff ≤ slots.length

theorem live_unique (slots : List Slot) (h : (liveNames slots).Nodup) (name : Bytes) (a b i j : Nat)
    (h1 : Live slots name a i) (h2 : Live slots name b j) : a = b ∧ i = j := by
  obtain ⟨s1, g1, l1, n1, e1⟩ := h1
  obtain ⟨s2, g2, l2, n2, e2⟩ := h2
  have := nodup_idx slots h i j s1 s2 g1 g2 l1 l2 (n1.trans n2.symm)
  subst this
  rw [g1] at g2; cases g2
  exact ⟨e1.symm.trans e2, rfl⟩

/-- a coherent cache answers as the scan of the directory does -/
theorem coh_lookup (slots : List Slot) (c : DC) (hu : (liveNames slots).Nodup) (hc : Coh slots c) (name : Bytes) :
    c.lookup name = lookupSlots slots name := by
  unfold DC.lookup
  cases hf : c.ents.find? (fun e => e.name = name) with
  | some e =>
    have hmem := List.mem_of_find?_eq_some hf
    have hname : e.name = name := by simpa using List.find?_some hf
    have := hc.sound e hmem
    rw [hname] at this
    exact ((lookup_iff slots hu name e.inum e.idx).2 this).symm
  | none =>
    symm
    rw [lookup_none_iff]
    intro ino i hl
    have := hc.complete name ino i hl
    have := List.find?_eq_none.1 hf _ this
    simp at this

theorem live_lt (slots : List Slot) (name : Bytes) (ino i : Nat) (h : Live slots name ino i) : i < slots.length := by
  obtain ⟨sl, hget, _⟩ := h
  exact (List.getElem?_eq_some_iff.mp hget).1

/-! ### building the cache -/

theorem buildGo_lastoff (rest : List Slot) (k : Nat) (dc : DC) : (buildGo rest k dc).lastoff = dc.lastoff := by
  induction rest generalizing k dc with
  | nil => rfl
  | cons s rest ih =>
    simp only [buildGo]
    rw [ih]
    split <;> rfl

theorem buildGo_coh (slots : List Slot) (hu : (liveNames slots).Nodup) :
    ∀ (rest : List Slot) (k : Nat) (dc : DC), slots.drop k = rest →
      (∀ e ∈ dc.ents, Live slots e.name e.inum e.idx ∧ e.idx < k) →
      (∀ name ino i, Live slots name ino i → i < k → ({ name := name, inum := ino, idx := i } : Ent) ∈ dc.ents) →
      dc.ents.Pairwise (fun a b => a.name ≠ b.name) →
      (∀ e ∈ (buildGo rest k dc).ents, Live slots e.name e.inum e.idx) ∧
      (∀ name ino i, Live slots name ino i → ({ name := name, inum := ino, idx := i } : Ent) ∈ (buildGo rest k dc).ents) ∧
      (buildGo rest k dc).ents.Pairwise (fun a b => a.name ≠ b.name) := by
  intro rest
  induction rest with
  | nil =>
    intro k dc hd hs hcmp hp
    have hk : slots.length ≤ k := by
      have := congrArg List.length hd
      simp at this; omega
    refine ⟨fun e he => (hs e he).1, fun name ino i hl => hcmp name ino i hl ?_, hp⟩
    have := live_lt slots name ino i hl; omega
  | cons s rest ih =>
    intro k dc hd hs hcmp hp
    have hget : slots[k]? = some s := by
      have h0 : (slots.drop k)[0]? = some s := by rw [hd]; rfl
      simpa [List.getElem?_drop] using h0
    have hd' : slots.drop (k + 1) = rest := by
      have := congrArg List.tail hd
      simpa [List.tail_drop] using this
    simp only [buildGo]
    by_cases h0 : s.inum = 0
    · simp only [h0, if_true]
      apply ih (k + 1) dc hd'
      · intro e he; exact ⟨(hs e he).1, by have := (hs e he).2; omega⟩
      · intro name ino i hl hi
        by_cases hik : i = k
        · subst hik
          obtain ⟨sl, g, l, _⟩ := hl
          rw [hget] at g; cases g; exact absurd h0 l
        · exact hcmp name ino i hl (by omega)
      · exact hp
    · simp only [h0, if_false]
      apply ih (k + 1) _ hd'
      · intro e he
        simp only [DC.add, List.mem_cons, List.mem_filter] at he
        rcases he with he | he
        · subst he
          exact ⟨⟨s, hget, h0, rfl, rfl⟩, by simp⟩
        · exact ⟨(hs e he.1).1, by have := (hs e he.1).2; omega⟩
      · intro name ino i hl hi
        simp only [DC.add, List.mem_cons, List.mem_filter]
        by_cases hik : i = k
        · subst hik
          left
          obtain ⟨sl, g, _, n, e⟩ := hl
          rw [hget] at g; cases g; subst n; subst e; rfl
        · right
          refine ⟨hcmp name ino i hl (by omega), ?_⟩
          simp only [ne_eq, decide_eq_true_eq]
          intro hn
          have := (live_unique slots hu name ino s.inum i k hl ⟨s, hget, h0, hn.symm, rfl⟩).2
          exact hik this
      · simp only [DC.add, List.pairwise_cons]
        refine ⟨?_, hp.sublist List.filter_sublist⟩
        intro e he
        have := (List.mem_filter.1 he).2
        simp only [ne_eq, decide_eq_true_eq] at this
        exact fun h => this h.symm

theorem build_coh (slots : List Slot) (hu : (liveNames slots).Nodup) : Coh slots (build slots) := by
  obtain ⟨h1, h2, h3⟩ := buildGo_coh slots hu slots 0 {} (by simp) (by intro e he; simp at he)
    (by intro _ _ _ _ h; omega) (by simp)
  exact ⟨h1, h2, h3, by unfold build; rw [buildGo_lastoff]; simp⟩

/-! ### the slot `AddNameDir` picks -/

theorem firstFreeGo_spec (rest : List Slot) (k j : Nat) (h : firstFreeGo rest k = some j) :
    k ≤ j ∧ ∃ sl, rest[j - k]? = some sl ∧ sl.inum = 0 := by
  induction rest generalizing k with
  | nil => simp [firstFreeGo] at h
  | cons s rest ih =>
    simp only [firstFreeGo] at h
    split at h
    · cases h; exact ⟨Nat.le_refl _, s, by simp, by assumption⟩
    · obtain ⟨h1, sl, h2, h3⟩ := ih (k + 1) h
      refine ⟨by omega, sl, ?_, h3⟩
      have : j - k = (j - (k + 1)) + 1 := by omega
      rw [this]; simpa using h2

theorem firstFree_spec (slots : List Slot) (start j : Nat) (h : firstFree slots start = some j) :
    start ≤ j ∧ ∃ sl, slots[j]? = some sl ∧ sl.inum = 0 := by
  obtain ⟨h1, sl, h2, h3⟩ := firstFreeGo_spec _ _ _ h
  refine ⟨h1, sl, ?_, h3⟩
  rw [List.getElem?_drop] at h2
  have : start + (j - start) = j := by omega
  rwa [this] at h2

/-- the slot picked is free or the position just past the end: what M6 demands of a slot choice -/
theorem addSlot_ok (slots : List Slot) (lastoff : Nat) : slotOk slots (addSlot slots lastoff) = true := by
  unfold addSlot
  cases hf : firstFree slots lastoff with
  | none => simp [slotOk]
  | some j =>
    cases j with
    | zero => simp [slotOk]
    | succ j =>
      obtain ⟨_, sl, h2, h3⟩ := firstFree_spec slots lastoff (j + 1) hf
      simp [slotOk, h2, h3]

theorem addSlot_le (slots : List Slot) (lastoff : Nat) : addSlot slots lastoff ≤ slots.length := by
  unfold addSlot
  cases hf : firstFree slots lastoff with
  | none => simp
  | some j =>
    cases j with
    | zero => simp
    | succ j =>
      obtain ⟨_, sl, h2, _⟩ := firstFree_spec slots lastoff (j + 1) hf
      exact Nat.le_of_lt (List.getElem?_eq_some_iff.mp h2).1

theorem putSlot_length_ge (slots : List Slot) (i : Nat) (x : Slot) : slots.length ≤ (putSlot slots i x).length := by
  unfold putSlot; split <;> simp

/-! ### the invariant -/

/-- names unique on disk and, when a cache is there, it is the directory -/
structure DInv (d : Dir) : Prop where
  uniq : (liveNames d.slots).Nodup
  coh : ∀ c, d.dc = some c → Coh d.slots c

theorem cache_coh (d : Dir) (h : DInv d) : Coh d.slots d.cache := by
  unfold Dir.cache
  cases hd : d.dc with
  | some c => exact h.coh c hd
  | none => exact build_coh d.slots h.uniq

theorem lookupName_inv (d : Dir) (name : Bytes) (h : DInv d) : DInv (lookupName d name).1 :=
  ⟨h.uniq, by intro c hc; simp [lookupName] at hc; subst hc; exact cache_coh d h⟩

/-- `LookupName` through the cache answers what a scan of the directory answers -/
theorem lookupName_eq (d : Dir) (name : Bytes) (h : DInv d) : (lookupName d name).2 = lookupSlots d.slots name :=
  coh_lookup d.slots d.cache h.uniq (cache_coh d h) name

theorem lookupName_slots (d : Dir) (name : Bytes) : (lookupName d name).1.slots = d.slots := rfl

theorem live_putSlot (slots : List Slot) (i : Nat) (x : Slot) (hok : slotOk slots i = true) (hx : x.inum ≠ 0)
    (name : Bytes) (ino j : Nat) :
    Live (putSlot slots i x) name ino j ↔ (j = i ∧ x.name = name ∧ x.inum = ino) ∨ (j ≠ i ∧ Live slots name ino j) := by
  unfold Live
  simp only [putSlot_get slots i j x hok]
  by_cases hj : j = i
  · simp only [hj, if_true, Option.some.injEq, true_and, ne_eq, not_true_eq_false, false_and, or_false]
    constructor
    · rintro ⟨sl, rfl, _, h2, h3⟩; exact ⟨h2, h3⟩
    · rintro ⟨h2, h3⟩; exact ⟨x, rfl, hx, h2, h3⟩
  · simp [hj]

theorem addName_inv (d : Dir) (inum : Nat) (name : Bytes) (h : DInv d) (hi : inum ≠ 0)
    (habs : lookupSlots d.slots name = none) : DInv (addName d inum name).1 := by
  unfold addName
  split
  · exact h
  · have hc := cache_coh d h
    have hok := addSlot_ok d.slots d.cache.lastoff
    have hnot : name ∉ liveNames d.slots := lookupGo_none_notin name d.slots 0 habs
    have hnl := (lookup_none_iff d.slots name).1 habs
    refine ⟨nodup_putSlot d.slots _ _ hok hi hnot h.uniq, ?_⟩
    intro c hcc
    simp only [Option.some.injEq] at hcc
    subst hcc
    refine ⟨?_, ?_, ?_, ?_⟩
    · intro e he
      simp only [DC.add, List.mem_cons, List.mem_filter] at he
      rw [live_putSlot _ _ _ hok hi]
      rcases he with he | he
      · subst he; left; exact ⟨rfl, rfl, rfl⟩
      · right
        have hl := hc.sound e he.1
        refine ⟨?_, hl⟩
        intro hidx
        -- the slot picked was free or the end, so no live entry sits there
        obtain ⟨sl, g, l, _⟩ := hl
        have := hok
        unfold slotOk at this
        rw [hidx] at g
        simp only [Bool.or_eq_true, decide_eq_true_eq] at this
        rcases this with this | this
        · have := (List.getElem?_eq_some_iff.mp g).1; omega
        · rw [g] at this; simp at this; exact l this
    · intro n ino j hl
      rw [live_putSlot _ _ _ hok hi] at hl
      simp only [DC.add, List.mem_cons, List.mem_filter]
      rcases hl with ⟨h1, h2, h3⟩ | ⟨_, hl⟩
      · left; simp at h2 h3; subst h1; subst h2; subst h3; rfl
      · right
        refine ⟨hc.complete n ino j hl, ?_⟩
        simp only [ne_eq, decide_eq_true_eq]
        intro hn; subst hn
        exact hnl ino j hl
    · simp only [DC.add, List.pairwise_cons]
      refine ⟨?_, hc.names.sublist List.filter_sublist⟩
      intro e he
      have := (List.mem_filter.1 he).2
      simp only [ne_eq, decide_eq_true_eq] at this
      exact fun h => this h.symm
    · exact Nat.le_trans (addSlot_le _ _) (putSlot_length_ge _ _ _)

theorem live_set_free (slots : List Slot) (i : Nat) (name : Bytes) (ino j : Nat) :
    Live (slots.set i freeSlot) name ino j ↔ (j ≠ i ∧ Live slots name ino j) := by
  unfold Live
  constructor
  · rintro ⟨sl, g, l, r⟩
    obtain ⟨h1, h2⟩ := set_free_get slots i j sl g l
    exact ⟨h1, sl, h2, l, r⟩
  · rintro ⟨h1, sl, g, r⟩
    refine ⟨sl, ?_, r⟩
    rw [List.getElem?_set]
    have : ¬ i = j := fun h => h1 h.symm
    simp [this, g]

theorem remName_inv (d : Dir) (name : Bytes) (h : DInv d) : DInv (remName d name).1 := by
  unfold remName
  split
  · exact h
  · have hc := cache_coh d h
    simp only []
    cases hl : d.cache.lookup name with
    | none => exact ⟨h.uniq, by intro c hcc; simp at hcc; subst hcc; exact hc⟩
    | some r =>
      obtain ⟨ino, i⟩ := r
      simp only []
      have hlive : Live d.slots name ino i := by
        rw [coh_lookup d.slots d.cache h.uniq hc name] at hl
        exact (lookup_iff d.slots h.uniq name ino i).1 hl
      refine ⟨nodup_set_free d.slots i h.uniq, ?_⟩
      intro c hcc
      simp only [Option.some.injEq] at hcc
      subst hcc
      refine ⟨?_, ?_, ?_, ?_⟩
      · intro e he
        simp only [DC.del, List.mem_filter, ne_eq, decide_eq_true_eq] at he
        rw [live_set_free]
        have hle := hc.sound e he.1
        refine ⟨?_, hle⟩
        intro hidx
        obtain ⟨s1, g1, _, n1, _⟩ := hle
        obtain ⟨s2, g2, _, n2, _⟩ := hlive
        rw [hidx, g2] at g1; cases g1
        exact he.2 (n1.symm.trans n2)
      · intro n a j hlj
        rw [live_set_free] at hlj
        simp only [DC.del, List.mem_filter, ne_eq, decide_eq_true_eq]
        refine ⟨hc.complete n a j hlj.2, ?_⟩
        intro hn; subst hn
        exact hlj.1 (live_unique d.slots h.uniq _ a ino j i hlj.2 hlive).2
      · exact hc.names.sublist List.filter_sublist
      · simp only [List.length_set]
        exact Nat.le_of_lt (live_lt d.slots name ino i hlive)

/-- the removal clears a slot that is inside the directory and holds that name -/
theorem remName_clears_the_name (d : Dir) (name : Bytes) (i : Nat) (h : DInv d) (hr : (remName d name).2 = some i) :
    ∃ ino, Live d.slots name ino i := by
  unfold remName at hr
  split at hr
  · cases hr
  · have hc := cache_coh d h
    simp only [] at hr
    cases hl : d.cache.lookup name with
    | none => rw [hl] at hr; cases hr
    | some r =>
      obtain ⟨ino, j⟩ := r
      rw [hl] at hr
      simp only [Option.some.injEq] at hr
      subst hr
      rw [coh_lookup d.slots d.cache h.uniq hc name] at hl
      exact ⟨ino, (lookup_iff d.slots h.uniq name ino j).1 hl⟩

/-! ### every history -/

structure SInv (s : St) : Prop where
  cur : DInv s.cur
  saved : (liveNames s.saved).Nodup

theorem step_inv (s : St) (op : Op) (h : SInv s) : SInv (step s op).1 := by
  cases op with
  | look name => exact ⟨lookupName_inv s.cur name h.cur, h.saved⟩
  | add name inum =>
    simp only [step]
    have hl := lookupName_inv s.cur name h.cur
    have he := lookupName_eq s.cur name h.cur
    split
    · exact ⟨hl, h.saved⟩
    · rename_i hn
      split
      · exact ⟨hl, h.saved⟩
      · rename_i hi
        refine ⟨addName_inv _ inum name hl hi ?_, h.saved⟩
        rw [lookupName_slots, ← he, hn]
  | rem name => exact ⟨remName_inv s.cur name h.cur, h.saved⟩
  | drop => exact ⟨⟨h.cur.uniq, by intro c hc; cases hc⟩, h.saved⟩
  | begin_ => exact ⟨h.cur, h.cur.uniq⟩
  | abort => exact ⟨⟨h.saved, by intro c hc; cases hc⟩, h.saved⟩

theorem run_inv (s : St) (ops : List Op) (h : SInv s) : SInv (run s ops) := by
  induction ops generalizing s with
  | nil => exact h
  | cons o rest ih => exact ih _ (step_inv s o h)

theorem empty_inv : SInv {} := ⟨⟨by simp [liveNames], by intro c hc; cases hc⟩, by simp [liveNames]⟩

/-! ### refinement: the directory with its cache, hint and slot reuse is a plain map name ↦ inode number -/

/-- what a client can learn of a directory: which inode a name denotes -/
def abs (slots : List Slot) : Bytes → Option Nat := fun n => (lookupSlots slots n).map (·.1)

theorem abs_some_iff (slots : List Slot) (hu : (liveNames slots).Nodup) (n : Bytes) (a : Nat) :
    abs slots n = some a ↔ ∃ i, Live slots n a i := by
  unfold abs
  constructor
  · intro h
    cases hl : lookupSlots slots n with
    | none => rw [hl] at h; cases h
    | some r =>
      obtain ⟨x, i⟩ := r
      rw [hl] at h; simp at h; subst h
      exact ⟨i, (lookup_iff slots hu n x i).1 hl⟩
  · rintro ⟨i, hl⟩
    rw [(lookup_iff slots hu n a i).2 hl]; rfl

theorem live_not_at_ok (slots : List Slot) (i0 : Nat) (hok : slotOk slots i0 = true) (n : Bytes) (a i : Nat)
    (hl : Live slots n a i) : i ≠ i0 := by
  intro hidx
  obtain ⟨sl, g, l, _⟩ := hl
  unfold slotOk at hok
  rw [hidx] at g
  simp only [Bool.or_eq_true, decide_eq_true_eq] at hok
  rcases hok with hok | hok
  · have := (List.getElem?_eq_some_iff.mp g).1; omega
  · rw [g] at hok; simp at hok; exact l hok

theorem abs_putSlot (slots : List Slot) (i0 inum : Nat) (name : Bytes) (hu : (liveNames slots).Nodup)
    (hok : slotOk slots i0 = true) (hi : inum ≠ 0) (habs : lookupSlots slots name = none) :
    abs (putSlot slots i0 { inum := inum, name := name }) = fun n => if n = name then some inum else abs slots n := by
  have hu' := nodup_putSlot slots i0 { inum := inum, name := name } hok hi (lookupGo_none_notin name slots 0 habs) hu
  have hnl := (lookup_none_iff slots name).1 habs
  funext n
  apply Option.ext
  intro a
  rw [abs_some_iff _ hu']
  simp only [live_putSlot slots i0 { inum := inum, name := name } hok hi]
  by_cases hn : n = name
  · subst hn
    simp only [if_true, Option.some.injEq]
    constructor
    · rintro ⟨i, ⟨_, _, h3⟩ | ⟨_, hl⟩⟩
      · exact h3
      · exact absurd hl (hnl a i)
    · intro h; exact ⟨i0, Or.inl (by simpa using h)⟩
  · simp only [hn, if_false]
    rw [abs_some_iff _ hu]
    constructor
    · rintro ⟨i, ⟨_, h2, _⟩ | ⟨_, hl⟩⟩
      · exact absurd h2.symm hn
      · exact ⟨i, hl⟩
    · rintro ⟨i, hl⟩
      exact ⟨i, Or.inr ⟨live_not_at_ok slots i0 hok n a i hl, hl⟩⟩

theorem abs_set_free (slots : List Slot) (i ino : Nat) (name : Bytes) (hu : (liveNames slots).Nodup)
    (hl : Live slots name ino i) :
    abs (slots.set i freeSlot) = fun n => if n = name then none else abs slots n := by
  have hu' := nodup_set_free slots i hu
  funext n
  apply Option.ext
  intro a
  rw [abs_some_iff _ hu']
  simp only [live_set_free]
  by_cases hn : n = name
  · subst hn
    simp only [if_true]
    constructor
    · rintro ⟨j, h1, h2⟩
      exact absurd (live_unique slots hu _ a ino j i h2 hl).2 h1
    · intro h; cases h
  · simp only [hn, if_false]
    rw [abs_some_iff _ hu]
    constructor
    · rintro ⟨j, _, h2⟩; exact ⟨j, h2⟩
    · rintro ⟨j, h2⟩
      refine ⟨j, ?_, h2⟩
      intro hj
      obtain ⟨s1, g1, _, n1, _⟩ := h2
      obtain ⟨s2, g2, _, n2, _⟩ := hl
      rw [hj, g2] at g1; cases g1
      exact hn (n1.symm.trans n2)

/-- the specification: a map, and the map as it was when the transaction began -/
structure Spec where
  m : Bytes → Option Nat
  saved : Bytes → Option Nat

def Out.noIdx : Out → Out
  | .found ino _ => .found ino 0
  | .added _ => .added 0
  | .removed _ => .removed 0
  | o => o

def specStep (s : Spec) : Op → Spec × Out
  | .look name => (s, match s.m name with | some ino => .found ino 0 | none => .absent)
  | .add name inum =>
    match s.m name with
    | some _ => (s, .present)
    | none =>
      if inum = 0 ∨ name.length > MAXNAMELEN then (s, .refused)
      else ({ s with m := fun n => if n = name then some inum else s.m n }, .added 0)
  | .rem name =>
    if name.length > MAXNAMELEN then (s, .absent)
    else match s.m name with
      | none => (s, .absent)
      | some _ => ({ s with m := fun n => if n = name then none else s.m n }, .removed 0)
  | .drop => (s, .unit)
  | .begin_ => ({ s with saved := s.m }, .unit)
  | .abort => ({ s with m := s.saved }, .unit)

def absSt (s : St) : Spec := { m := abs s.cur.slots, saved := abs s.saved }

theorem Spec.ext' (a b : Spec) (h1 : a.m = b.m) (h2 : a.saved = b.saved) : a = b := by
  cases a; cases b; simp at h1 h2; simp [h1, h2]

/-- one step of the server's directory code is one step of the plain map; slot indices aside, the replies agree -/
theorem step_refines (s : St) (op : Op) (h : SInv s) :
    absSt (step s op).1 = (specStep (absSt s) op).1 ∧ (step s op).2.noIdx = (specStep (absSt s) op).2 := by
  cases op with
  | look name =>
    have he := lookupName_eq s.cur name h.cur
    simp only [step, specStep, absSt, lookupName_slots]
    refine ⟨by trivial, ?_⟩
    rw [he]
    unfold abs
    cases lookupSlots s.cur.slots name with
    | none => rfl
    | some r => obtain ⟨a, b⟩ := r; rfl
  | add name inum =>
    have he := lookupName_eq s.cur name h.cur
    have hl := lookupName_inv s.cur name h.cur
    simp only [step, specStep, absSt]
    rw [he]
    cases hlk : lookupSlots s.cur.slots name with
    | some r =>
      obtain ⟨a, b⟩ := r
      simp only [abs, hlk, Option.map_some, lookupName_slots]
      (constructor <;> trivial)
    | none =>
      simp only [abs, hlk, Option.map_none]
      by_cases hi : inum = 0
      · simp only [hi, if_true, true_or, lookupName_slots]; (constructor <;> trivial)
      · simp only [hi, if_false, false_or]
        unfold addName
        by_cases hlen : name.length > MAXNAMELEN
        · simp only [hlen, if_true, lookupName_slots]; (constructor <;> trivial)
        · simp only [hlen, if_false, lookupName_slots]
          refine ⟨?_, by trivial⟩
          apply Spec.ext'
          · simp only []
            have := abs_putSlot s.cur.slots (addSlot s.cur.slots (lookupName s.cur name).1.cache.lastoff) inum name
              h.cur.uniq (addSlot_ok _ _) hi hlk
            unfold abs at this
            exact this
          · rfl
  | rem name =>
    simp only [step, specStep, absSt]
    unfold remName
    by_cases hlen : name.length > MAXNAMELEN
    · simp only [hlen, if_true]; (constructor <;> trivial)
    · simp only [hlen, if_false]
      have hc := cache_coh s.cur h.cur
      have hcl := coh_lookup s.cur.slots s.cur.cache h.cur.uniq hc name
      cases hlk : s.cur.cache.lookup name with
      | none =>
        rw [hlk] at hcl
        simp only [abs, ← hcl, Option.map_none]
        (constructor <;> trivial)
      | some r =>
        obtain ⟨ino, i⟩ := r
        rw [hlk] at hcl
        simp only [abs, ← hcl, Option.map_some]
        refine ⟨?_, by trivial⟩
        apply Spec.ext'
        · simp only []
          have := abs_set_free s.cur.slots i ino name h.cur.uniq ((lookup_iff _ h.cur.uniq name ino i).1 hcl.symm)
          unfold abs at this
          exact this
        · rfl
  | drop => (constructor <;> trivial)
  | begin_ => (constructor <;> trivial)
  | abort => (constructor <;> trivial)

def specRun (s : Spec) : List Op → Spec × List Out
  | [] => (s, [])
  | o :: rest => let r := specStep s o; let q := specRun r.1 rest; (q.1, r.2 :: q.2)

def runOut (s : St) : List Op → St × List Out
  | [] => (s, [])
  | o :: rest => let r := step s o; let q := runOut r.1 rest; (q.1, r.2 :: q.2)

theorem run_refines (s : St) (ops : List Op) (h : SInv s) :
    absSt (runOut s ops).1 = (specRun (absSt s) ops).1 ∧
    (runOut s ops).2.map Out.noIdx = (specRun (absSt s) ops).2 := by
  induction ops generalizing s with
  | nil => (constructor <;> trivial)
  | cons o rest ih =>
    obtain ⟨h1, h2⟩ := step_refines s o h
    obtain ⟨i1, i2⟩ := ih (step s o).1 (step_inv s o h)
    simp only [runOut, specRun, List.map_cons]
    rw [← h1, ← h2]
    exact ⟨i1, by rw [i2]⟩

/-- the specification ignores `drop` -/
theorem specStep_drop (s : Spec) : specStep s .drop = (s, .unit) := rfl

end GoNfsd.Model.NameCache

import GoNfsd.Model.AllocTxn

namespace GoNfsd.Model.AllocTxn

structure Inv (s : St) : Prop where
  /-- the in-memory allocator holds exactly the numbers in use on disk and those handed to an open transaction -/
  mem_iff : ∀ n, s.mem n = true ↔ (s.disk n = true ∨ ∃ t, n ∈ (s.tx t).1)
  /-- a number handed to an open transaction is free on disk and handed to no other -/
  alloc_fresh : ∀ t n, n ∈ (s.tx t).1 → s.disk n = false ∧ ∀ u, n ∈ (s.tx u).1 → u = t
  /-- a number an open transaction frees is unavailable, and no other open transaction has it in a list -/
  free_owned : ∀ t n, n ∈ (s.tx t).2 → s.mem n = true ∧ ∀ u, u ≠ t → n ∉ (s.tx u).1 ∧ n ∉ (s.tx u).2

theorem setTx_same (tx : Nat → List Nat × List Nat) (t : Nat) (v : List Nat × List Nat) : setTx tx t v t = v := by
  simp [setTx]

theorem setTx_other (tx : Nat → List Nat × List Nat) (t u : Nat) (v : List Nat × List Nat) (h : u ≠ t) :
    setTx tx t v u = tx u := by
  simp [setTx, h]

theorem fresh_inv (disk : Nat → Bool) : Inv (fresh disk) := by
  refine ⟨?_, ?_, ?_⟩
  · intro n
    simp [fresh]
  · intro t n h; simp [fresh] at h
  · intro t n h; simp [fresh] at h

theorem step_inv (s : St) (op : AOp) (h : Inv s) (ha : Allowed s op) : Inv (step s op) := by
  obtain ⟨h1, h2, h3⟩ := h
  cases op with
  | alloc t n =>
    simp only [step]
    have hm : s.mem n = false := ha
    · have hnd : s.disk n = false := by
        cases hd : s.disk n
        · rfl
        · have := (h1 n).2 (Or.inl hd); rw [hm] at this; cases this
      have hnl : ∀ u, n ∉ (s.tx u).1 := by
        intro u hu
        have := (h1 n).2 (Or.inr ⟨u, hu⟩); rw [hm] at this; cases this
      have hnf : ∀ u, n ∉ (s.tx u).2 := by
        intro u hu
        have := (h3 u n hu).1; rw [hm] at this; cases this
      refine ⟨?_, ?_, ?_⟩
      · intro m
        try dsimp only
        by_cases hmn : m = n
        · subst hmn
          simp only [if_true, true_iff]
          exact Or.inr ⟨t, by rw [setTx_same]; exact List.mem_cons_self⟩
        · simp only [hmn, if_false]
          rw [h1 m]
          constructor
          · rintro (hd | ⟨u, hu⟩)
            · exact Or.inl hd
            · refine Or.inr ⟨u, ?_⟩
              by_cases hut : u = t
              · rw [hut, setTx_same]; rw [hut] at hu; exact List.mem_cons_of_mem _ hu
              · rw [setTx_other _ _ _ _ hut]; exact hu
          · rintro (hd | ⟨u, hu⟩)
            · exact Or.inl hd
            · refine Or.inr ⟨u, ?_⟩
              by_cases hut : u = t
              · rw [hut, setTx_same] at hu
                rw [hut]
                rcases List.mem_cons.1 hu with he | he
                · exact absurd he hmn
                · exact he
              · rw [setTx_other _ _ _ _ hut] at hu; exact hu
      · intro u m hu
        try dsimp only at hu ⊢
        by_cases hut : u = t
        · rw [hut, setTx_same] at hu
          rcases List.mem_cons.1 hu with he | he
          · subst he
            refine ⟨hnd, ?_⟩
            intro w hw
            by_cases hwt : w = t
            · rw [hwt, hut]
            · rw [setTx_other _ _ _ _ hwt] at hw; exact absurd hw (hnl w)
          · obtain ⟨a1, a2⟩ := h2 t m he
            refine ⟨a1, ?_⟩
            intro w hw
            by_cases hwt : w = t
            · rw [hwt, hut]
            · rw [setTx_other _ _ _ _ hwt] at hw; rw [hut]; exact a2 w hw
        · rw [setTx_other _ _ _ _ hut] at hu
          obtain ⟨a1, a2⟩ := h2 u m hu
          refine ⟨a1, ?_⟩
          intro w hw
          by_cases hwt : w = t
          · rw [hwt, setTx_same] at hw
            rcases List.mem_cons.1 hw with he | he
            · rw [he] at hu; exact absurd hu (hnl u)
            · rw [hwt]; exact a2 t he
          · rw [setTx_other _ _ _ _ hwt] at hw; exact a2 w hw
      · intro u m hu
        try dsimp only at hu ⊢
        have hu' : m ∈ (s.tx u).2 := by
          by_cases hut : u = t
          · rw [hut, setTx_same] at hu; rw [hut]; exact hu
          · rw [setTx_other _ _ _ _ hut] at hu; exact hu
        obtain ⟨a1, a2⟩ := h3 u m hu'
        have hmn : m ≠ n := fun he => hnf u (he ▸ hu')
        refine ⟨by simp only [hmn, if_false]; exact a1, ?_⟩
        intro w hw
        by_cases hwt : w = t
        · rw [hwt, setTx_same]
          rw [hwt] at hw
          refine ⟨?_, (a2 t hw).2⟩
          intro hc
          rcases List.mem_cons.1 hc with he | he
          · exact hmn he
          · exact (a2 t hw).1 he
        · rw [setTx_other _ _ _ _ hwt]; exact a2 w hw
  | free t n =>
    simp only [step]
    have hg : s.mem n = true ∧ (∀ u, u ≠ t → n ∉ (s.tx u).1 ∧ n ∉ (s.tx u).2) := ha
    · skip
      have hl1 : ∀ u, (setTx s.tx t ((s.tx t).1, n :: (s.tx t).2) u).1 = (s.tx u).1 := by
        intro u
        by_cases hut : u = t
        · rw [hut, setTx_same]
        · rw [setTx_other _ _ _ _ hut]
      refine ⟨?_, ?_, ?_⟩
      · intro m; simp only [hl1]; exact h1 m
      · intro u m hu; simp only [hl1] at hu ⊢; exact h2 u m hu
      · intro u m hu
        try dsimp only at hu ⊢
        by_cases hut : u = t
        · rw [hut, setTx_same] at hu
          simp only at hu
          rcases List.mem_cons.1 hu with he | he
          · subst he
            refine ⟨hg.1, ?_⟩
            intro w hw
            rw [hut] at hw
            rw [hl1, setTx_other _ _ _ _ hw]
            exact hg.2 w hw
          · obtain ⟨a1, a2⟩ := h3 t m he
            refine ⟨a1, ?_⟩
            intro w hw
            rw [hut] at hw
            rw [hl1, setTx_other _ _ _ _ hw]
            exact a2 w hw
        · rw [setTx_other _ _ _ _ hut] at hu
          obtain ⟨a1, a2⟩ := h3 u m hu
          refine ⟨a1, ?_⟩
          intro w hw
          rw [hl1]
          by_cases hwt : w = t
          · rw [hwt, setTx_same]
            simp only
            rw [hwt] at hw
            refine ⟨(a2 t hw).1, ?_⟩
            intro hc
            rcases List.mem_cons.1 hc with he | he
            · rw [he] at hu; exact (hg.2 u hut).2 hu
            · exact (a2 t hw).2 he
          · rw [setTx_other _ _ _ _ hwt]; exact a2 w hw
  | commit t =>
    simp only [step]
    have hl : ∀ u, u ≠ t → setTx s.tx t ([], []) u = s.tx u := fun u hu => setTx_other _ _ _ _ hu
    refine ⟨?_, ?_, ?_⟩
    · intro n
      simp only [Bool.and_eq_true, Bool.or_eq_true, Bool.not_eq_true', List.contains_eq_mem, decide_eq_true_eq, decide_eq_false_iff_not]
      constructor
      · rintro ⟨hm, hnf⟩
        rcases (h1 n).1 hm with hd | ⟨u, hu⟩
        · exact Or.inl ⟨Or.inl hd, hnf⟩
        · by_cases hut : u = t
          · rw [hut] at hu; exact Or.inl ⟨Or.inr hu, hnf⟩
          · exact Or.inr ⟨u, by rw [hl u hut]; exact hu⟩
      · rintro (⟨hd | ha, hnf⟩ | ⟨u, hu⟩)
        · exact ⟨(h1 n).2 (Or.inl hd), hnf⟩
        · exact ⟨(h1 n).2 (Or.inr ⟨t, ha⟩), hnf⟩
        · by_cases hut : u = t
          · rw [hut, setTx_same] at hu; cases hu
          · rw [hl u hut] at hu
            refine ⟨(h1 n).2 (Or.inr ⟨u, hu⟩), ?_⟩
            intro hf
            exact (h3 t n hf).2 u hut |>.1 hu
    · intro u n hu
      try dsimp only at hu ⊢
      by_cases hut : u = t
      · rw [hut, setTx_same] at hu; cases hu
      · rw [hl u hut] at hu
        obtain ⟨a1, a2⟩ := h2 u n hu
        refine ⟨?_, ?_⟩
        · simp only [Bool.and_eq_false_iff, Bool.or_eq_false_iff, Bool.not_eq_false']
          left
          refine ⟨a1, ?_⟩
          cases hc : (s.tx t).1.contains n
          · rfl
          · have := a2 t (by simpa using hc); exact absurd this.symm hut
        · intro w hw
          by_cases hwt : w = t
          · rw [hwt, setTx_same] at hw; cases hw
          · rw [hl w hwt] at hw; exact a2 w hw
    · intro u n hu
      try dsimp only at hu ⊢
      by_cases hut : u = t
      · rw [hut, setTx_same] at hu; cases hu
      · rw [hl u hut] at hu
        obtain ⟨a1, a2⟩ := h3 u n hu
        refine ⟨?_, ?_⟩
        · simp only [Bool.and_eq_true, Bool.not_eq_true', List.contains_eq_mem, decide_eq_false_iff_not]
          exact ⟨a1, fun hf => (h3 t n hf).2 u hut |>.2 hu⟩
        · intro w hw
          by_cases hwt : w = t
          · rw [hwt, setTx_same]; simp
          · rw [hl w hwt]; exact a2 w hw
  | abort t =>
    simp only [step]
    have hl : ∀ u, u ≠ t → setTx s.tx t ([], []) u = s.tx u := fun u hu => setTx_other _ _ _ _ hu
    refine ⟨?_, ?_, ?_⟩
    · intro n
      simp only [Bool.and_eq_true, Bool.not_eq_true', List.contains_eq_mem, decide_eq_false_iff_not]
      constructor
      · rintro ⟨hm, hna⟩
        rcases (h1 n).1 hm with hd | ⟨u, hu⟩
        · exact Or.inl hd
        · by_cases hut : u = t
          · rw [hut] at hu; exact absurd hu hna
          · exact Or.inr ⟨u, by rw [hl u hut]; exact hu⟩
      · rintro (hd | ⟨u, hu⟩)
        · refine ⟨(h1 n).2 (Or.inl hd), ?_⟩
          intro ha
          have := (h2 t n ha).1; rw [hd] at this; cases this
        · by_cases hut : u = t
          · rw [hut, setTx_same] at hu; cases hu
          · rw [hl u hut] at hu
            refine ⟨(h1 n).2 (Or.inr ⟨u, hu⟩), ?_⟩
            intro ha
            exact hut ((h2 t n ha).2 u hu)
    · intro u n hu
      try dsimp only at hu ⊢
      by_cases hut : u = t
      · rw [hut, setTx_same] at hu; cases hu
      · rw [hl u hut] at hu
        obtain ⟨a1, a2⟩ := h2 u n hu
        refine ⟨a1, ?_⟩
        intro w hw
        by_cases hwt : w = t
        · rw [hwt, setTx_same] at hw; cases hw
        · rw [hl w hwt] at hw; exact a2 w hw
    · intro u n hu
      try dsimp only at hu ⊢
      by_cases hut : u = t
      · rw [hut, setTx_same] at hu; cases hu
      · rw [hl u hut] at hu
        obtain ⟨a1, a2⟩ := h3 u n hu
        refine ⟨?_, ?_⟩
        · simp only [Bool.and_eq_true, Bool.not_eq_true', List.contains_eq_mem, decide_eq_false_iff_not]
          exact ⟨a1, fun ha => (a2 t (Ne.symm hut)).1 ha⟩
        · intro w hw
          by_cases hwt : w = t
          · rw [hwt, setTx_same]; simp
          · rw [hl w hwt]; exact a2 w hw

theorem run_inv (s : St) (ops : List AOp) (h : Inv s) (ha : AllowedAll s ops) : Inv (run s ops) := by
  induction ops generalizing s with
  | nil => exact h
  | cons op rest ih => exact ih _ (step_inv s op h ha.1) ha.2

end GoNfsd.Model.AllocTxn

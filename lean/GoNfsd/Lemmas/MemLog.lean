import GoNfsd.Model.MemLog
import GoNfsd.Lemmas.Wal

namespace GoNfsd.Model.MemLog
open GoNfsd.Model.Wal

variable {α : Type}

theorem applyUpds_snoc (m : Nat → α) (us : List (Upd α)) (u : Upd α) (x : Nat) :
    applyUpds m (us ++ [u]) x = if x = u.addr then u.blk else applyUpds m us x := by
  rw [applyUpds_append]
  simp [applyUpds]

/-- absorbing (replacing the last update for the address) has the same effect as appending,
    keeps the length, and when nothing is absorbed no update in the list has that address -/
theorem absorbFrom_some (a : Nat) (b : α) (l l' : List (Upd α)) (h : absorbFrom a b l = some l') :
    l'.length = l.length ∧ ∀ (m : Nat → α) x, applyUpds m l' x = applyUpds m (l ++ [⟨a, b⟩]) x := by
  induction l generalizing l' with
  | nil => simp [absorbFrom] at h
  | cons u us ih =>
    simp only [absorbFrom] at h
    split at h
    · rename_i us' hus
      cases h
      obtain ⟨hl, hv⟩ := ih us' hus
      refine ⟨by simp [hl], fun m x => ?_⟩
      simp only [List.cons_append, applyUpds]
      exact hv _ x
    · rename_i hnone
      split at h
      · rename_i hua
        cases h
        refine ⟨by simp, fun m x => ?_⟩
        have hno : ∀ v ∈ us, v.addr ≠ a := absorbFrom_none a b us hnone
        simp only [List.cons_append, applyUpds]
        rw [applyUpds_snoc]
        by_cases hx : x = a
        · subst hx
          rw [applyUpds_untouched _ us x hno]; simp
        · simp only [hx, if_false]
          have h1 : ∀ (m1 m2 : Nat → α), (∀ y, y ≠ a → m1 y = m2 y) → applyUpds m1 us x = applyUpds m2 us x := by
            intro m1 m2 hm
            exact applyUpds_congr_off us a x hx m1 m2 hm
          apply h1
          intro y hy
          simp [hy, hua]
      · cases h
where
  absorbFrom_none (a : Nat) (b : α) : ∀ (l : List (Upd α)), absorbFrom a b l = none → ∀ v ∈ l, v.addr ≠ a
    | [], _, v, hv => by simp at hv
    | u :: us, h, v, hv => by
      simp only [absorbFrom] at h
      split at h
      · cases h
      · rename_i hn
        split at h
        · cases h
        · rename_i hne
          simp at hv
          rcases hv with hv | hv
          · subst hv; exact hne
          · exact absorbFrom_none a b us hn v hv
  applyUpds_congr_off : ∀ (us : List (Upd α)) (a x : Nat), x ≠ a → ∀ (m1 m2 : Nat → α), (∀ y, y ≠ a → m1 y = m2 y) →
      applyUpds m1 us x = applyUpds m2 us x
    | [], _, x, hx, m1, m2, hm => hm x hx
    | u :: us, a, x, hx, m1, m2, hm => by
      simp only [applyUpds]
      apply applyUpds_congr_off us a x hx
      intro y hy
      by_cases hyu : y = u.addr
      · simp [hyu]
      · simp [hyu, hm y hy]

/-- well-formedness: `mutable` is a position of the log -/
def MemLog.ok (m : MemLog α) : Prop := m.mutable ≤ m.log.length

theorem write1_facts (m : MemLog α) (u : Upd α) (h : m.ok) :
    (write1 m u).ok ∧ (write1 m u).mutable = m.mutable ∧ m.log.length ≤ (write1 m u).log.length ∧
    (write1 m u).log.take m.mutable = m.log.take m.mutable ∧
    ∀ (base : Nat → α) x, applyUpds base (write1 m u).log x = applyUpds base (m.log ++ [u]) x := by
  unfold write1
  unfold MemLog.ok at h
  split
  · rename_i tail' hab
    obtain ⟨hl, hv⟩ := absorbFrom_some u.addr u.blk _ tail' hab
    have htl : (m.log.take m.mutable).length = m.mutable := by simp; omega
    refine ⟨?_, rfl, ?_, ?_, fun base x => ?_⟩
    · simp only [MemLog.ok, List.length_append, htl]; omega
    · simp only [List.length_append, htl, hl, List.length_drop]; omega
    · simp only
      rw [List.take_append_of_le_length (by omega), List.take_take, Nat.min_self]
    · simp only
      rw [applyUpds_append, hv, ← applyUpds_append, ← List.append_assoc, List.take_append_drop]
  · refine ⟨?_, rfl, by simp, ?_, fun base x => rfl⟩
    · simp only [MemLog.ok, List.length_append]; omega
    · simp only
      rw [List.take_append_of_le_length h]

/-- `MemAppend` of a whole transaction: the logical content of the log is as if the
    transaction's updates had been appended in order (absorption is invisible), and the
    positions below `mutable` — those the logger may be writing — are untouched. -/
theorem memAppend_facts (m : MemLog α) (txn : List (Upd α)) (h : m.ok) :
    (memAppend m txn).ok ∧ (memAppend m txn).mutable = m.mutable ∧ m.log.length ≤ (memAppend m txn).log.length ∧
    (memAppend m txn).log.take m.mutable = m.log.take m.mutable ∧
    ∀ (base : Nat → α) x, applyUpds base (memAppend m txn).log x = applyUpds base (m.log ++ txn) x := by
  induction txn generalizing m with
  | nil => exact ⟨h, rfl, Nat.le_refl _, rfl, fun base x => by simp [memAppend]⟩
  | cons u us ih =>
    obtain ⟨h1, h2, h3, h4, h5⟩ := write1_facts m u h
    obtain ⟨i1, i2, i3, i4, i5⟩ := ih (write1 m u) h1
    simp only [memAppend, List.foldl_cons] at *
    refine ⟨i1, by rw [i2, h2], by omega, by rw [← h2, i4, h2, h4], fun base x => ?_⟩
    rw [i5, applyUpds_append, applyUpds_append]
    have : (fun y => applyUpds base (write1 m u).log y) = (fun y => applyUpds base (m.log ++ [u]) y) := funext (h5 base)
    show applyUpds (fun y => applyUpds base (write1 m u).log y) us x = _
    rw [this]
    show applyUpds (applyUpds base (m.log ++ [u])) us x = _
    rw [← applyUpds_append, ← applyUpds_append, List.append_assoc]
    rfl

theorem stepEv_facts (m : MemLog α) (e : Ev α) (h : m.ok) :
    (stepEv m e).ok ∧ m.mutable ≤ (stepEv m e).mutable ∧ m.log.length ≤ (stepEv m e).log.length ∧
    (stepEv m e).log.take m.mutable = m.log.take m.mutable ∧
    ∀ (base : Nat → α) x, applyUpds base (stepEv m e).log x = applyUpds base (m.log ++ txnsOf [e]) x := by
  cases e with
  | txn us =>
    obtain ⟨h1, h2, h3, h4, h5⟩ := memAppend_facts m us h
    exact ⟨h1, by simp only [stepEv]; omega, h3, h4, fun base x => by simpa [txnsOf, stepEv] using h5 base x⟩
  | flush =>
    refine ⟨by simp [stepEv, flush, MemLog.ok], h, Nat.le_refl _, rfl, fun base x => by simp [stepEv, flush, txnsOf]⟩

theorem txnsOf_append (es fs : List (Ev α)) : txnsOf (es ++ fs) = txnsOf es ++ txnsOf fs := by
  induction es with
  | nil => rfl
  | cons e es ih => cases e <;> simp [txnsOf, ih]

/-- any sequence of transaction appends and flush requests -/
theorem runEv_facts (m : MemLog α) (es : List (Ev α)) (h : m.ok) :
    (runEv m es).ok ∧ m.mutable ≤ (runEv m es).mutable ∧ m.log.length ≤ (runEv m es).log.length ∧
    (runEv m es).log.take m.mutable = m.log.take m.mutable ∧
    ∀ (base : Nat → α) x, applyUpds base (runEv m es).log x = applyUpds base (m.log ++ txnsOf es) x := by
  induction es generalizing m with
  | nil => exact ⟨h, Nat.le_refl _, Nat.le_refl _, rfl, fun base x => by simp [runEv, txnsOf]⟩
  | cons e es ih =>
    obtain ⟨h1, h2, h3, h4, h5⟩ := stepEv_facts m e h
    obtain ⟨i1, i2, i3, i4, i5⟩ := ih (stepEv m e) h1
    simp only [runEv, List.foldl_cons] at *
    refine ⟨i1, by omega, by omega, ?_, fun base x => ?_⟩
    · have : ((List.foldl stepEv (stepEv m e) es).log.take (stepEv m e).mutable).take m.mutable =
          ((stepEv m e).log.take (stepEv m e).mutable).take m.mutable := by rw [i4]
      simp only [List.take_take, Nat.min_eq_left h2] at this
      rw [this, h4]
    · rw [i5, applyUpds_append, applyUpds_append]
      have : (fun y => applyUpds base (stepEv m e).log y) = (fun y => applyUpds base (m.log ++ txnsOf [e]) y) := funext (h5 base)
      show applyUpds (fun y => applyUpds base (stepEv m e).log y) (txnsOf es) x = _
      rw [this]
      show applyUpds (applyUpds base (m.log ++ txnsOf [e])) (txnsOf es) x = _
      rw [← applyUpds_append, ← applyUpds_append, List.append_assoc, ← txnsOf_append]
      rfl

end GoNfsd.Model.MemLog

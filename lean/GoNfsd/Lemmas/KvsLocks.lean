import GoNfsd.Model.Kvs

/-! `kvs.lockOrder` returns the keys of the put in strictly ascending order, each once, and nothing
    else: every `MultiPut` acquires its locks in ascending order (so the lock manager's "ordered
    acquisition ⇒ no deadlock", `Props/C06.ordered_no_deadlock`, applies to any set of concurrent
    puts and gets), never asks for a lock it holds, and locks exactly what it writes. -/
namespace GoNfsd.Model.Kvs

theorem mem_insertKey (k x : Nat) (l : List Nat) : x ∈ insertKey k l ↔ x = k ∨ x ∈ l := by
  induction l with
  | nil => simp [insertKey]
  | cons y r ih =>
    simp only [insertKey]
    by_cases h1 : y < k
    · simp only [if_pos h1, List.mem_cons, ih]
      constructor
      · rintro (h | h | h)
        · exact Or.inr (Or.inl h)
        · exact Or.inl h
        · exact Or.inr (Or.inr h)
      · rintro (h | h | h)
        · exact Or.inr (Or.inl h)
        · exact Or.inl h
        · exact Or.inr (Or.inr h)
    · rw [if_neg h1]
      by_cases h2 : y = k
      · rw [if_pos h2]
        simp only [List.mem_cons]
        constructor
        · intro h; exact Or.inr h
        · rintro (h | h)
          · exact Or.inl (h.trans h2.symm)
          · exact h
      · rw [if_neg h2]
        simp only [List.mem_cons]

theorem insertKey_sorted (k : Nat) (l : List Nat) (h : l.Pairwise (· < ·)) : (insertKey k l).Pairwise (· < ·) := by
  induction l with
  | nil => simp [insertKey]
  | cons y r ih =>
    have hr : r.Pairwise (· < ·) := (List.pairwise_cons.mp h).2
    have hy : ∀ z ∈ r, y < z := (List.pairwise_cons.mp h).1
    simp only [insertKey]
    by_cases h1 : y < k
    · rw [if_pos h1, List.pairwise_cons]
      refine ⟨?_, ih hr⟩
      intro z hz
      rcases (mem_insertKey k z r).mp hz with e | e
      · rw [e]; exact h1
      · exact hy z e
    · rw [if_neg h1]
      by_cases h2 : y = k
      · rw [if_pos h2]; exact h
      · rw [if_neg h2, List.pairwise_cons]
        refine ⟨?_, h⟩
        intro z hz
        rcases List.mem_cons.mp hz with e | e
        · rw [e]; omega
        · have := hy z e; omega

theorem lockOrder_aux (keys : List Nat) : ∀ (acc : List Nat), acc.Pairwise (· < ·) →
    (keys.foldl (fun acc k => insertKey k acc) acc).Pairwise (· < ·) ∧
    ∀ x, x ∈ keys.foldl (fun acc k => insertKey k acc) acc ↔ x ∈ keys ∨ x ∈ acc := by
  induction keys with
  | nil => intro acc h; exact ⟨h, fun x => by simp⟩
  | cons k r ih =>
    intro acc h
    obtain ⟨h1, h2⟩ := ih (insertKey k acc) (insertKey_sorted k acc h)
    refine ⟨h1, fun x => ?_⟩
    rw [List.foldl_cons, h2 x, mem_insertKey, List.mem_cons]
    constructor
    · rintro (h | h | h)
      · exact Or.inl (Or.inr h)
      · exact Or.inl (Or.inl h)
      · exact Or.inr h
    · rintro ((h | h) | h)
      · exact Or.inr (Or.inl h)
      · exact Or.inl h
      · exact Or.inr (Or.inr h)

/-- strictly ascending: in particular no key twice -/
theorem lockOrder_ascending (keys : List Nat) : (lockOrder keys).Pairwise (· < ·) :=
  (lockOrder_aux keys [] List.Pairwise.nil).1

/-- exactly the keys of the put -/
theorem mem_lockOrder (keys : List Nat) (x : Nat) : x ∈ lockOrder keys ↔ x ∈ keys := by
  have := (lockOrder_aux keys [] List.Pairwise.nil).2 x
  simpa [lockOrder] using this

end GoNfsd.Model.Kvs

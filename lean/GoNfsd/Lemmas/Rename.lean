/-
What a successful RENAME does to the two names: afterwards the new name resolves to the object
the old name denoted, and the old name is gone.
-/
import GoNfsd.Lemmas.Refs

namespace GoNfsd.Model.Fs
open GoNfsd.Gen.Consts

/-- the two ways a RENAME is acknowledged: nothing to do (both names denote the object already),
    or target unlinked, source slot cleared, target slot written -/
theorem doRename_shape (s : FS) (c : Choice) (ffh fname tfh tname : Bytes) (s' : FS)
    (h : doRename s c ffh fname tfh tname = (s', .done)) :
    ∃ fd td fino fidx, renameDirs s ffh tfh = some (fd, td) ∧
      lookupIn (s.get fd) fname = some (fino, fidx) ∧
      illegalName fname = false ∧ illegalName tname = false ∧
      ((fd = td ∧ (lookupIn (s.get td) tname).map (·.1) = some fino ∧ s' = s) ∨
       (¬ (fd = td ∧ (lookupIn (s.get td) tname).map (·.1) = some fino) ∧
        ∃ s1 d', unlinkTarget s td fino (lookupIn (s.get td) tname) = some s1 ∧
          addName ((s1.set fd (remNameAt (s1.get fd) fidx)).get td) c.slot fino tname = some d' ∧
          s' = (s1.set fd (remNameAt (s1.get fd) fidx)).set td d')) := by
  unfold doRename at h
  split at h
  · simp at h
  · rename_i hill
    simp only [not_or, Bool.not_eq_true] at hill
    split at h
    · simp at h
    · rename_i fd td hfd
      split at h
      · simp at h
      · rename_i fino fidx hlf
        split at h
        · simp at h
        · split at h
          · rename_i hself
            simp only [Prod.mk.injEq, and_true] at h
            exact ⟨fd, td, fino, fidx, hfd, hlf, hill.1, hill.2, Or.inl ⟨hself.1, hself.2, h.symm⟩⟩
          · rename_i hself
            split at h
            · simp at h
            · rename_i s1 hs1
              split at h
              · simp at h
              · simp at h
              · rename_i s3 r hnb hm
                simp only [Prod.mk.injEq] at h
                obtain ⟨h1, h2⟩ := h
                subst h1
                unfold moveName at hm
                simp only at hm
                split at hm
                · cases hm
                · split at hm
                  · simp only [Option.some.injEq, Prod.mk.injEq] at hm
                    exact absurd hm.2.symm (hnb _)
                  · rename_i d' ha
                    simp only [Option.some.injEq, Prod.mk.injEq] at hm
                    exact ⟨fd, td, fino, fidx, hfd, hlf, hill.1, hill.2,
                      Or.inr ⟨hself, s1, d', hs1, ha, hm.1.symm⟩⟩

theorem notin_liveNames_free (i : Inode) (name : Bytes) : name ∉ liveNames (freeInode i).slots := by
  simp [freeInode, liveNames]

theorem lookupIn_none_of_notin (d : Inode) (name : Bytes) (h : name ∉ liveNames d.slots) :
    lookupIn d name = none := by
  unfold lookupIn
  split
  · rfl
  · exact notin_lookup_none name d.slots 0 h

/-- clearing two slots in either order -/
theorem set_free_comm (slots : List Slot) (i j : Nat) :
    (slots.set i freeSlot).set j freeSlot = (slots.set j freeSlot).set i freeSlot := by
  by_cases h : i = j
  · subst h; rfl
  · exact List.set_comm _ _ h

/-- liveNames of `putSlot` with a live entry: the new name or an old one -/
theorem mem_liveNames_putSlot (slots : List Slot) (i : Nat) (x : Slot) (n : Bytes)
    (hok : slotOk slots i = true) (hx : x.inum ≠ 0) (h : n ∈ liveNames (putSlot slots i x)) :
    n = x.name ∨ n ∈ liveNames slots := by
  unfold putSlot at h
  by_cases he : i = slots.length
  · simp only [he, if_true] at h
    rw [liveNames_append_one slots x hx] at h
    simp only [List.mem_append, List.mem_singleton] at h
    rcases h with h | h
    · exact Or.inr h
    · exact Or.inl h
  · simp only [he, if_false] at h
    unfold slotOk at hok
    simp only [he, decide_false, Bool.false_or] at hok
    cases hg : slots[i]? with
    | none => simp [hg] at hok
    | some f =>
      simp only [hg, decide_eq_true_eq] at hok
      have := (liveNames_fill_perm slots i f x hg hok hx).subset h
      simpa using this

/-- After a RENAME that was acknowledged, in a state whose names are unique: LOOKUP of the new
    name finds the object the old name denoted, and — unless old and new name are the same name
    of the same directory — LOOKUP of the old name finds nothing. -/
theorem renamed (s : FS) (c : Choice) (ffh fname tfh tname : Bytes) (s' : FS) (hN : NU s)
    (h : doRename s c ffh fname tfh tname = (s', .done)) :
    ∃ fd td fino fidx, renameDirs s ffh tfh = some (fd, td) ∧
      lookupIn (s.get fd) fname = some (fino, fidx) ∧
      (lookupIn (s'.get td) tname).map (·.1) = some fino ∧
      (¬ (fd = td ∧ fname = tname) → ¬ (fd = td ∧ (lookupIn (s.get td) tname).map (·.1) = some fino) →
        lookupIn (s'.get fd) fname = none) := by
  obtain ⟨fd, td, fino, fidx, hfd, hlf, _, _, hcase⟩ := doRename_shape s c ffh fname tfh tname s' h
  refine ⟨fd, td, fino, fidx, hfd, hlf, ?_⟩
  rcases hcase with ⟨he, hl, hs⟩ | ⟨hself, s1, d', hs1, ha, hs⟩
  · subst hs
    exact ⟨hl, fun _ hn => absurd ⟨he, hl⟩ hn⟩
  · obtain ⟨hfdk, hlfs, hf0⟩ := lookupIn_some_spec _ _ _ _ hlf
    generalize hdto : (s1.set fd (remNameAt (s1.get fd) fidx)).get td = dto at ha
    obtain ⟨hdtok, hok, hslots, hdk'⟩ := addName_some_spec _ _ _ _ _ ha
    have hdto' : dto = if td = fd then remNameAt (s1.get fd) fidx else s1.get td := by
      rw [← hdto, get_set]
    have hs1k : (s1.get td).kind = NF3DIR := by
      rw [hdto'] at hdtok
      split at hdtok
      · rename_i he; rw [he]; exact hdtok
      · exact hdtok
    -- the target directory was a directory before the target was unlinked
    have htdk : (s.get td).kind = NF3DIR := by
      cases hlt : lookupIn (s.get td) tname with
      | none =>
        rw [hlt] at hs1
        simp only [unlinkTarget, Option.some.injEq] at hs1
        rw [hs1]; exact hs1k
      | some p => exact (lookupIn_some_spec _ _ _ _ hlt).1
    obtain ⟨hN1, hnot⟩ := unlinkTarget_spec s s1 td fino tname hN htdk hs1
    have hnotd : tname ∉ liveNames dto.slots := by
      rw [hdto']
      split
      · rename_i he
        rw [← he]
        simp only [remNameAt]
        exact notin_of_sublist (liveNames_set_free_sublist _ _) hnot
      · exact hnot
    have hget_td : s'.get td = d' := by rw [hs, get_set_same]
    refine ⟨?_, ?_⟩
    · -- the new name resolves
      rw [hget_td]
      unfold lookupIn
      rw [hdk', hdtok]
      simp only [ne_eq, not_true_eq_false, if_false]
      rw [hslots, lookup_putSlot_same _ _ _ _ (notin_lookup_none tname dto.slots 0 hnotd) hok hf0]
      rfl
    · -- the old name is gone
      intro hdiff _
      -- the old name is not among the names of the source directory once its slot is cleared
      have hgone : fname ∉ liveNames (remNameAt (s1.get fd) fidx).slots := by
        unfold unlinkTarget at hs1
        cases hlt : lookupIn (s.get td) tname with
        | none =>
          rw [hlt] at hs1
          simp only [Option.some.injEq] at hs1
          subst hs1
          simp only [remNameAt]
          exact name_gone_after_clear _ _ _ _ (hN fd) hlfs
        | some p =>
          obtain ⟨tino, tidx⟩ := p
          rw [hlt] at hs1
          simp only at hs1
          split at hs1
          · cases hs1
          · split at hs1
            · cases hs1
            · simp only [Option.some.injEq] at hs1
              subst hs1
              have hbase : fname ∉ liveNames ((s.get fd).slots.set fidx freeSlot) :=
                name_gone_after_clear _ _ _ _ (hN fd) hlfs
              simp only [remNameAt]
              rw [get_set2]
              by_cases h1 : fd = tino
              · simp only [h1, if_true]
                simp only [freeInode, List.set_nil, liveNames, List.filter_nil, List.map_nil,
                  List.not_mem_nil, not_false_eq_true]
              · simp only [h1, if_false]
                by_cases h2 : fd = td
                · simp only [h2, if_true, remNameAt]
                  rw [set_free_comm]
                  rw [h2] at hbase
                  exact notin_of_sublist (liveNames_set_free_sublist _ _) hbase
                · simp only [h2, if_false]; exact hbase
      rw [hs, get_set]
      split
      · rename_i he
        -- source and target directory are the same: the new entry has another name
        apply lookupIn_none_of_notin
        rw [hslots]
        intro hm
        rcases mem_liveNames_putSlot _ _ _ _ hok hf0 hm with hx | hx
        · exact hdiff ⟨he, hx⟩
        · rw [hdto'] at hx
          simp only [he.symm, if_true] at hx
          exact hgone hx
      · rw [get_set_same]
        exact lookupIn_none_of_notin _ _ hgone

end GoNfsd.Model.Fs

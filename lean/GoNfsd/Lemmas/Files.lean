import GoNfsd.Lemmas.FileData

/-! Several files on one disk (M7d, `G`): blocks go from file to file through the allocator, and
    no file ever shows a byte of another.  The zero-bytes clause of `FreshOK` is DERIVED here from
    the invariant "a block nobody owns holds zeros", which `FreeBlock`'s zeroing maintains. -/
namespace GoNfsd.Model.FileData
open GoNfsd.Model.Fs (Ext byteAt readBytes)

/-! ### more about one file -/

/-- nothing is mapped at or beyond the end of the file -/
def NoneBeyond (f : F) : Prop := ∀ i, roundUp f.size ≤ i → f.map i = 0

theorem step1_keep (f : F) (fresh : Nat → Nat) (pos : Nat) (x : UInt8) (j : Nat) (h : f.map j ≠ 0) :
    (f.step1 fresh pos x).map j = f.map j := by
  rw [step1_map]
  by_cases hj : j = pos / BS
  · subst hj; simp [h]
  · simp [hj]

/-- what the loop does to the block map: a mapped block stays, a hole is filled only where the
    loop passes, with the allocator's block -/
theorem writeFrom_map (fresh : Nat → Nat) (xs : List UInt8) :
    ∀ (f : F) (pos j : Nat),
      (f.writeFrom fresh pos xs).map j = f.map j ∨
      (f.map j = 0 ∧ (f.writeFrom fresh pos xs).map j = fresh j ∧ ∃ k, k < xs.length ∧ (pos + k) / BS = j) := by
  induction xs with
  | nil => intro f pos j; exact Or.inl rfl
  | cons x xs ih =>
    intro f pos j
    rw [writeFrom_eq]
    rcases ih (f.step1 fresh pos x) (pos + 1) j with h | ⟨h0, hfr, k, hk, hkj⟩
    · rw [h, step1_map]
      by_cases hc : f.map (pos / BS) = 0 ∧ j = pos / BS
      · rw [if_pos hc]
        refine Or.inr ⟨by rw [hc.2]; exact hc.1, by rw [hc.2], 0, by simp, by simp [hc.2]⟩
      · rw [if_neg hc]; exact Or.inl rfl
    · rw [step1_map] at h0
      by_cases hc : f.map (pos / BS) = 0 ∧ j = pos / BS
      · refine Or.inr ⟨by rw [hc.2]; exact hc.1, hfr, k + 1, by simp; omega, ?_⟩
        rw [← hkj]; congr 1; omega
      · rw [if_neg hc] at h0
        refine Or.inr ⟨h0, hfr, k + 1, by simp; omega, ?_⟩
        rw [← hkj]; congr 1; omega

theorem writeFrom_keep (fresh : Nat → Nat) (xs : List UInt8) (f : F) (pos j : Nat) (h : f.map j ≠ 0) :
    (f.writeFrom fresh pos xs).map j = f.map j := by
  rcases writeFrom_map fresh xs f pos j with h1 | ⟨h0, _, _⟩
  · exact h1
  · exact absurd h0 h

/-- the loop changes bytes only in blocks the file has afterwards -/
theorem writeFrom_data (fresh : Nat → Nat) (xs : List UInt8) :
    ∀ (f : F) (pos : Nat), FreshOK f fresh → Inj f → ∀ b o,
      (f.writeFrom fresh pos xs).data b o = f.data b o ∨
      (b ≠ 0 ∧ ∃ j, (f.writeFrom fresh pos xs).map j = b) := by
  induction xs with
  | nil => intro f pos _ _ b o; exact Or.inl rfl
  | cons x xs ih =>
    intro f pos hf hi b o
    rw [writeFrom_eq]
    rcases ih (f.step1 fresh pos x) (pos + 1) (step1_fresh f fresh pos x hi hf) (step1_inj f fresh pos x hi hf) b o
      with h | h
    · rw [h, step1_data]
      by_cases hc : b = (f.step1 fresh pos x).map (pos / BS) ∧ o = pos % BS
      · -- the block written to: it is (and stays) one of the file's
        have hne : (f.step1 fresh pos x).map (pos / BS) ≠ 0 := by
          rw [step1_map]
          by_cases h0 : f.map (pos / BS) = 0
          · simp only [h0, and_self, if_true]; exact (hf _ h0).1
          · simp only [h0, false_and, if_false]; exact h0
        refine Or.inr ⟨by rw [hc.1]; exact hne, pos / BS, ?_⟩
        rw [writeFrom_keep fresh xs _ (pos + 1) (pos / BS) hne, hc.1]
      · rw [if_neg hc]; exact Or.inl rfl
    · exact Or.inr h

theorem write_map_cases (f : F) (fresh : Nat → Nat) (off : Nat) (bytes : List UInt8) (j : Nat) :
    (f.write fresh off bytes).map j = f.map j ∨
    (f.map j = 0 ∧ (f.write fresh off bytes).map j = fresh j ∧ ∃ k, k < bytes.length ∧ (off + k) / BS = j) :=
  writeFrom_map fresh bytes f off j

theorem write_none_beyond (f : F) (fresh : Nat → Nat) (off : Nat) (bytes : List UInt8) (h : NoneBeyond f) :
    NoneBeyond (f.write fresh off bytes) := by
  intro i hi
  have hs : (f.write fresh off bytes).size = max f.size (off + bytes.length) := rfl
  rw [hs] at hi
  rcases write_map_cases f fresh off bytes i with h1 | ⟨_, _, k, hk, hkj⟩
  · rw [h1]; apply h; unfold roundUp BS at *; omega
  · exfalso; unfold roundUp BS at *; omega

/-! ### Resize with the zeroing of what it gives back -/

theorem mem_dropped (f : F) (n b : Nat) : b ∈ f.dropped n ↔ ∃ i, i < roundUp f.size ∧ roundUp n ≤ i ∧ f.map i = b := by
  unfold F.dropped
  simp only [List.mem_map, List.mem_filter, List.mem_range, decide_eq_true_eq]
  constructor
  · rintro ⟨i, ⟨h1, h2⟩, h3⟩; exact ⟨i, h1, h2, h3⟩
  · rintro ⟨i, h1, h2, h3⟩; exact ⟨i, ⟨h1, h2⟩, h3⟩

theorem resize_map (f : F) (n i : Nat) :
    (f.resize n).map i = if n < f.size ∧ roundUp n ≤ i then 0 else f.map i := by
  unfold F.resize F.zeroTail
  by_cases hn : n < f.size
  · simp only [hn, if_true, true_and]
    by_cases hr : roundUp n ≤ i
    · simp [hr]
    · simp only [hr, if_false]; split <;> rfl
  · simp [hn]

theorem resize_size (f : F) (n : Nat) : (f.resize n).size = n := by
  unfold F.resize; split <;> rfl

theorem resize_data (f : F) (n b o : Nat) :
    (f.resize n).data b o = f.data b o ∨ ((f.resize n).data b o = 0 ∧ n < f.size ∧ b = f.map (n / BS)) := by
  by_cases hn : n < f.size
  · by_cases ha : n % BS = 0
    · left
      unfold F.resize F.zeroTail
      simp [hn, ha]
    · by_cases hc : b = f.map (n / BS) ∧ n % BS ≤ o
      · right
        refine ⟨?_, hn, hc.1⟩
        unfold F.resize F.zeroTail
        simp only [hn, ha, if_true, if_false]
        show (if b = f.map (n / BS) ∧ n % BS ≤ o then (0 : UInt8) else f.data b o) = 0
        rw [if_pos hc]
      · left
        unfold F.resize F.zeroTail
        simp only [hn, ha, if_true, if_false]
        show (if b = f.map (n / BS) ∧ n % BS ≤ o then (0 : UInt8) else f.data b o) = f.data b o
        rw [if_neg hc]
  · left
    unfold F.resize
    simp [hn]

theorem resizeZ_map (f : F) (n i : Nat) : (f.resizeZ n).map i = (f.resize n).map i := rfl
theorem resizeZ_size (f : F) (n : Nat) : (f.resizeZ n).size = n := resize_size f n

/-- zeroing what is given back does not touch what is kept -/
theorem resizeZ_cell (f : F) (n : Nat) (hi : Inj f) (p : Nat) : (f.resizeZ n).cell p = (f.resize n).cell p := by
  unfold F.cell
  rw [resizeZ_map]
  by_cases hm : (f.resize n).map (p / BS) = 0
  · simp [hm]
  · simp only [hm, if_false]
    show (if (f.resize n).map (p / BS) ≠ 0 ∧ (f.resize n).map (p / BS) ∈ f.dropped n then 0 else _) = _
    rw [if_neg]
    rintro ⟨_, hd⟩
    rw [mem_dropped] at hd
    obtain ⟨i, _, hge, he⟩ := hd
    rw [resize_map] at hm he
    by_cases hc : n < f.size ∧ roundUp n ≤ p / BS
    · rw [if_pos hc] at hm; exact hm rfl
    · rw [if_neg hc] at hm he
      have : p / BS = i := hi _ _ hm he.symm
      by_cases hn : n < f.size
      · exact hc ⟨hn, by rw [this]; exact hge⟩
      · -- growing: nothing is dropped
        rename_i h1
        unfold roundUp BS at *; omega

theorem resizeZ_byte (f : F) (n : Nat) (h : Inv f) (p : Nat) :
    (f.resizeZ n).byte p = if n ≤ p then 0 else f.byte p := by
  rw [← resize_byte f n h p]
  unfold F.byte
  rw [resizeZ_size, resize_size, resizeZ_cell f n h.inj p]

theorem resizeZ_inv (f : F) (n : Nat) (h : Inv f) : Inv (f.resizeZ n) := by
  have hr := resize_inv f n h
  refine ⟨?_, ?_⟩
  · intro i j hne he; exact hr.inj i j hne he
  · intro p hp
    rw [resizeZ_cell f n h.inj p]
    exact hr.tail p (by rw [resizeZ_size] at hp; rw [resize_size]; exact hp)

/-! ### many files -/

structure GInv (g : G) : Prop where
  /-- no block has two owners: not within a file, not across files -/
  ginj : ∀ a i b j, g.maps a i ≠ 0 → g.maps a i = g.maps b j → a = b ∧ i = j
  tail : ∀ a, TailZero (g.file a)
  beyond : ∀ a, NoneBeyond (g.file a)
  /-- a block nobody owns holds zeros (formatting; `FreeBlock`) -/
  zout : ∀ blk, blk ≠ 0 → (∀ a i, g.maps a i ≠ blk) → ∀ o, g.data blk o = 0

/-- what the ALLOCATOR guarantees for a write to file `a`: real blocks, owned by nobody, no block
    twice.  Nothing about their contents. -/
def GFresh (g : G) (a : Nat) (fresh : Nat → Nat) : Prop :=
  ∀ i, g.maps a i = 0 → fresh i ≠ 0 ∧ (∀ b j, g.maps b j ≠ fresh i) ∧
    (∀ j, g.maps a j = 0 → fresh j = fresh i → j = i)

theorem file_inv (g : G) (h : GInv g) (a : Nat) : Inv (g.file a) :=
  ⟨fun i j hne he => (h.ginj a i a j hne he).2, h.tail a⟩

/-- the zero-bytes clause of `FreshOK` follows from the invariant -/
theorem freshOK_of_GFresh (g : G) (h : GInv g) (a : Nat) (fresh : Nat → Nat) (hf : GFresh g a fresh) :
    FreshOK (g.file a) fresh := by
  intro i hi
  obtain ⟨h0, hr, hu⟩ := hf i hi
  exact ⟨h0, fun j => hr a j, fun o => h.zout _ h0 (fun b j => hr b j) o, hu⟩

theorem setFile_file_same (g : G) (a : Nat) (f : F) : (g.setFile a f).file a = f := by
  unfold G.setFile G.file; simp

theorem setFile_maps_other (g : G) (a b : Nat) (f : F) (h : b ≠ a) : (g.setFile a f).maps b = g.maps b := by
  unfold G.setFile; simp [h]

theorem setFile_sizes_other (g : G) (a b : Nat) (f : F) (h : b ≠ a) : (g.setFile a f).sizes b = g.sizes b := by
  unfold G.setFile; simp [h]

/-- the general step: file `a` is replaced by `f'`, whose block map keeps or drops old blocks or
    takes blocks nobody owned, and whose data differ from the old only in blocks that `f'` owns or
    that become zero -/
theorem setFile_inv (g : G) (a : Nat) (f' : F) (h : GInv g)
    (hinv : Inv f') (hbeyond : NoneBeyond f')
    (hmap : ∀ i, f'.map i = 0 ∨ f'.map i = g.maps a i ∨ (∀ b j, g.maps b j ≠ f'.map i))
    (hdata : ∀ blk o, f'.data blk o = g.data blk o ∨ (blk ≠ 0 ∧ ∃ j, f'.map j = blk) ∨
      (f'.data blk o = 0 ∧ ∃ j, g.maps a j = blk))
    (hdrop : ∀ i, g.maps a i ≠ 0 → f'.map i = g.maps a i ∨ ∀ o, f'.data (g.maps a i) o = 0) :
    GInv (g.setFile a f') ∧
    ∀ b, b ≠ a → ∀ p, ((g.setFile a f').file b).cell p = (g.file b).cell p := by
  -- other files keep their cells
  have hother : ∀ b, b ≠ a → ∀ p, ((g.setFile a f').file b).cell p = (g.file b).cell p := by
    intro b hb p
    unfold F.cell G.file
    simp only [setFile_maps_other g a b f' hb]
    by_cases hm : g.maps b (p / BS) = 0
    · simp [hm]
    · simp only [hm, if_false]
      show f'.data (g.maps b (p / BS)) (p % BS) = g.data (g.maps b (p / BS)) (p % BS)
      rcases hdata (g.maps b (p / BS)) (p % BS) with h1 | ⟨_, j, hj⟩ | ⟨_, j, hj⟩
      · exact h1
      · exfalso
        rcases hmap j with h0 | h1 | h2
        · rw [h0] at hj; exact hm hj.symm
        · rw [h1] at hj
          exact hb (h.ginj b _ a j hm hj.symm).1
        · exact h2 b (p / BS) hj.symm
      · exfalso
        exact hb (h.ginj b _ a j hm hj.symm).1
  refine ⟨⟨?_, ?_, ?_, ?_⟩, hother⟩
  · -- one owner
    intro x i y j hne he
    by_cases hx : x = a <;> by_cases hy : y = a
    · subst hx; subst hy
      simp only [G.setFile, if_true] at hne he
      exact ⟨rfl, hinv.inj i j hne he⟩
    · subst hx
      rw [setFile_maps_other g x y f' hy] at he
      simp only [G.setFile, if_true] at hne he
      exfalso
      rcases hmap i with h0 | h1 | h2
      · exact hne h0
      · rw [h1] at he hne; exact hy (h.ginj x i y j hne he).1.symm
      · exact h2 y j he.symm
    · subst hy
      rw [setFile_maps_other g y x f' hx] at he hne
      simp only [G.setFile, if_true] at he
      exfalso
      rcases hmap j with h0 | h1 | h2
      · rw [h0] at he; exact hne he
      · rw [h1] at he; exact hx (h.ginj x i y j hne he).1
      · exact h2 x i he
    · rw [setFile_maps_other g a x f' hx] at he hne
      rw [setFile_maps_other g a y f' hy] at he
      exact h.ginj x i y j hne he
  · -- tails
    intro b
    by_cases hb : b = a
    · subst hb; rw [setFile_file_same]; exact hinv.tail
    · intro p hp
      rw [hother b hb p]
      apply h.tail b p
      have : ((g.setFile a f').file b).size = (g.file b).size := by
        unfold G.file; simp [setFile_sizes_other g a b f' hb]
      rw [this] at hp; exact hp
  · intro b
    by_cases hb : b = a
    · subst hb; rw [setFile_file_same]; exact hbeyond
    · intro i hi
      have e1 : ((g.setFile a f').file b).size = (g.file b).size := by
        unfold G.file; simp [setFile_sizes_other g a b f' hb]
      have e2 : ((g.setFile a f').file b).map i = (g.file b).map i := by
        unfold G.file; simp [setFile_maps_other g a b f' hb]
      rw [e2]; rw [e1] at hi; exact h.beyond b i hi
  · -- a block nobody owns holds zeros
    intro blk hb0 hno o
    show f'.data blk o = 0
    have hno_a : ∀ j, f'.map j ≠ blk := by
      intro j; have := hno a j; simpa [G.setFile] using this
    have hno_o : ∀ b, b ≠ a → ∀ j, g.maps b j ≠ blk := by
      intro b hb j; have := hno b j; rw [setFile_maps_other g a b f' hb] at this; exact this
    by_cases hold : ∃ j, g.maps a j = blk
    · obtain ⟨j, hj⟩ := hold
      rcases hdrop j (by rw [hj]; exact hb0) with h1 | h1
      · exact absurd (h1.trans hj) (hno_a j)
      · rw [hj] at h1; exact h1 o
    · have hnone : ∀ b j, g.maps b j ≠ blk := by
        intro b j
        by_cases hb : b = a
        · subst hb; exact fun e => hold ⟨j, e⟩
        · exact hno_o b hb j
      rcases hdata blk o with h1 | ⟨_, j, hj⟩ | ⟨h1, _⟩
      · rw [h1]; exact h.zout blk hb0 hnone o
      · exact absurd hj (hno_a j)
      · exact h1

theorem other_byte (g : G) (a b : Nat) (f' : F) (hb : b ≠ a)
    (hc : ∀ p, ((g.setFile a f').file b).cell p = (g.file b).cell p) (p : Nat) :
    ((g.setFile a f').file b).byte p = (g.file b).byte p := by
  unfold F.byte
  have : ((g.setFile a f').file b).size = (g.file b).size := by
    unfold G.file; simp [setFile_sizes_other g a b f' hb]
  rw [this, hc p]

/-- WRITE to one file of many: the invariant is kept, the file written is the single-file write,
    and NO OTHER FILE CHANGES A BYTE -/
theorem gwrite_ok (g : G) (a : Nat) (fresh : Nat → Nat) (off : Nat) (bytes : List UInt8)
    (h : GInv g) (hf : GFresh g a fresh) :
    GInv (g.write a fresh off bytes) ∧
    (g.write a fresh off bytes).file a = (g.file a).write fresh off bytes ∧
    ∀ b, b ≠ a → ∀ p, ((g.write a fresh off bytes).file b).byte p = (g.file b).byte p := by
  have hfo := freshOK_of_GFresh g h a fresh hf
  have hfi := file_inv g h a
  obtain ⟨hG, hoth⟩ := setFile_inv g a ((g.file a).write fresh off bytes) h
    (write_inv _ fresh off bytes hfi hfo)
    (write_none_beyond _ fresh off bytes (h.beyond a))
    (by
      intro i
      rcases write_map_cases (g.file a) fresh off bytes i with h1 | ⟨h0, hfr, _⟩
      · exact Or.inr (Or.inl h1)
      · exact Or.inr (Or.inr (by rw [hfr]; exact (hf i h0).2.1)))
    (by
      intro blk o
      rcases writeFrom_data fresh bytes (g.file a) off hfo hfi.inj blk o with h1 | h1
      · exact Or.inl h1
      · exact Or.inr (Or.inl h1))
    (by
      intro i hi
      exact Or.inl (writeFrom_keep fresh bytes (g.file a) off i hi))
  exact ⟨hG, setFile_file_same _ _ _, fun b hb p => other_byte g a b _ hb (hoth b hb) p⟩

/-- SETATTR size (or the removal of the content) of one file of many -/
theorem gresize_ok (g : G) (a n : Nat) (h : GInv g) :
    GInv (g.resize a n) ∧
    (g.resize a n).file a = (g.file a).resizeZ n ∧
    ∀ b, b ≠ a → ∀ p, ((g.resize a n).file b).byte p = (g.file b).byte p := by
  have hfi := file_inv g h a
  have hbe := h.beyond a
  obtain ⟨hG, hoth⟩ := setFile_inv g a ((g.file a).resizeZ n) h
    (resizeZ_inv _ n hfi)
    (by
      intro i hi
      rw [resizeZ_size] at hi
      rw [resizeZ_map, resize_map]
      by_cases hc : n < (g.file a).size ∧ roundUp n ≤ i
      · rw [if_pos hc]
      · rw [if_neg hc]
        apply hbe
        by_cases hn : n < (g.file a).size
        · exact absurd ⟨hn, hi⟩ hc
        · unfold roundUp BS at *; omega)
    (by
      intro i
      rw [resizeZ_map, resize_map]
      by_cases hc : n < (g.file a).size ∧ roundUp n ≤ i
      · rw [if_pos hc]; exact Or.inl rfl
      · rw [if_neg hc]; exact Or.inr (Or.inl rfl))
    (by
      intro blk o
      have e : ((g.file a).resizeZ n).data blk o =
          if blk ≠ 0 ∧ blk ∈ (g.file a).dropped n then (0 : UInt8) else ((g.file a).resize n).data blk o := rfl
      by_cases hd : blk ≠ 0 ∧ blk ∈ (g.file a).dropped n
      · rw [if_pos hd] at e
        obtain ⟨i, _, _, he⟩ := (mem_dropped _ _ _).1 hd.2
        exact Or.inr (Or.inr ⟨e, i, he⟩)
      · rw [if_neg hd] at e
        rcases resize_data (g.file a) n blk o with h1 | ⟨h1, _, h3⟩
        · exact Or.inl (e.trans h1)
        · exact Or.inr (Or.inr ⟨e.trans h1, n / BS, h3.symm⟩))
    (by
      intro i hi
      rw [resizeZ_map, resize_map]
      by_cases hc : n < (g.file a).size ∧ roundUp n ≤ i
      · right
        intro o
        show (if g.maps a i ≠ 0 ∧ g.maps a i ∈ (g.file a).dropped n then (0 : UInt8) else _) = 0
        rw [if_pos]
        refine ⟨hi, (mem_dropped _ _ _).2 ⟨i, ?_, hc.2, rfl⟩⟩
        apply Classical.byContradiction
        intro hge
        exact hi (hbe i (by omega))
      · rw [if_neg hc]; exact Or.inl rfl)
  exact ⟨hG, setFile_file_same _ _ _, fun b hb p => other_byte g a b _ hb (hoth b hb) p⟩

/-- dropping the content of a file (SETATTR size 0, the removal of the last link) gives back EVERY
    block the file had: the file maps nothing, and each of its former blocks belongs to nobody and
    holds zeros -/
theorem gresize_zero_frees_everything (g : G) (a : Nat) (h : GInv g) :
    (∀ i, (g.resize a 0).maps a i = 0) ∧
    ∀ i, g.maps a i ≠ 0 →
      (∀ b j, (g.resize a 0).maps b j ≠ g.maps a i) ∧ ∀ o, (g.resize a 0).data (g.maps a i) o = 0 := by
  obtain ⟨hG, hown, _⟩ := gresize_ok g a 0 h
  have hmap : ∀ i, (g.resize a 0).maps a i = 0 := by
    intro i
    have e : (g.resize a 0).maps a i = ((g.file a).resizeZ 0).map i := by
      show (g.setFile a _).maps a i = _
      unfold G.setFile; simp
    rw [e, resizeZ_map, resize_map]
    by_cases hc : 0 < (g.file a).size ∧ roundUp 0 ≤ i
    · rw [if_pos hc]
    · rw [if_neg hc]
      apply h.beyond a i
      by_cases hs : 0 < (g.file a).size
      · exact absurd ⟨hs, by unfold roundUp BS; omega⟩ hc
      · have : (g.file a).size = 0 := by omega
        rw [this]; unfold roundUp BS; omega
  refine ⟨hmap, ?_⟩
  intro i hi
  have hnone : ∀ b j, (g.resize a 0).maps b j ≠ g.maps a i := by
    intro b j
    by_cases hb : b = a
    · subst hb; rw [hmap j]; exact fun e => hi e.symm
    · have e2 : (g.resize a 0).maps b j = g.maps b j := by
        show (g.setFile a _).maps b j = _
        rw [setFile_maps_other g a b _ hb]
      rw [e2]
      intro he
      exact hb (h.ginj a i b j hi he.symm).1.symm
  exact ⟨hnone, hG.zout _ hi hnone⟩

/-! ### histories over many files -/

inductive GOp where
  | write (a : Nat) (fresh : Nat → Nat) (off : Nat) (data : Array UInt8)
  | resize (a n : Nat)

def G.apply (g : G) : GOp → G
  | .write a fresh off data => g.write a fresh off data.toList
  | .resize a n => g.resize a n

/-- the content logs and sizes of the reference model, file by file -/
abbrev Logs := Nat → List Ext × Nat

def logsApply (L : Logs) : GOp → Logs
  | .write a _ off data => fun x => if x = a then logApply (L x) (.write (fun _ => 0) off data) else L x
  | .resize a n => fun x => if x = a then logApply (L x) (.resize n) else L x

def GFreshAll : G → List GOp → Prop
  | _, [] => True
  | g, op :: rest =>
    (match op with | .write a fresh _ _ => GFresh g a fresh | .resize _ _ => True) ∧ GFreshAll (g.apply op) rest

def GRel (g : G) (L : Logs) : Prop := ∀ a, Rel (g.file a) (L a).1 (L a).2

theorem rel_of_byte_eq (f f' : F) (c : List Ext) (size : Nat) (hr : Rel f c size)
    (hs : f'.size = f.size) (hb : ∀ p, f'.byte p = f.byte p) : Rel f' c size :=
  ⟨hs.trans hr.1, fun p => (hb p).trans (hr.2 p)⟩

theorem ghistory_refines (ops : List GOp) :
    ∀ (g : G) (L : Logs), GInv g → GRel g L → GFreshAll g ops →
      GInv (ops.foldl G.apply g) ∧ GRel (ops.foldl G.apply g) (ops.foldl logsApply L) := by
  induction ops with
  | nil => intro g L hi hr _; exact ⟨hi, hr⟩
  | cons op rest ih =>
    intro g L hi hr hf
    simp only [List.foldl_cons]
    cases op with
    | write a fresh off data =>
      obtain ⟨hG, hown, hoth⟩ := gwrite_ok g a fresh off data.toList hi hf.1
      refine ih _ _ hG ?_ hf.2
      intro x
      by_cases hx : x = a
      · subst hx
        simp only [G.apply, logsApply, if_true]
        rw [hown]
        exact write_refines (g.file x) fresh (L x).1 (L x).2 off data (file_inv g hi x)
          (freshOK_of_GFresh g hi x fresh hf.1) (hr x)
      · simp only [G.apply, logsApply, hx, if_false]
        refine rel_of_byte_eq _ _ _ _ (hr x) ?_ (hoth x hx)
        show (g.setFile a _).sizes x = g.sizes x
        exact setFile_sizes_other g a x _ hx
    | resize a n =>
      obtain ⟨hG, hown, hoth⟩ := gresize_ok g a n hi
      refine ih _ _ hG ?_ hf.2
      intro x
      by_cases hx : x = a
      · subst hx
        simp only [G.apply, logsApply, if_true]
        rw [hown]
        have hfi := file_inv g hi x
        have hrx := hr x
        have hz := rel_zero_beyond _ _ _ hrx
        have base := resize_refines (g.file x) (L x).1 (L x).2 n hfi hrx hz
        -- resizeZ shows the same bytes as resize
        refine ⟨resizeZ_size _ _, fun p => ?_⟩
        rw [resizeZ_byte _ n hfi p, ← resize_byte _ n hfi p]
        exact base.2 p
      · simp only [G.apply, logsApply, hx, if_false]
        refine rel_of_byte_eq _ _ _ _ (hr x) ?_ (hoth x hx)
        show (g.setFile a _).sizes x = g.sizes x
        exact setFile_sizes_other g a x _ hx

/-- the empty disk: no file has anything, every block holds zeros -/
def G.empty : G := { maps := fun _ _ => 0, sizes := fun _ => 0, data := fun _ _ => 0 }

theorem gempty_inv : GInv G.empty :=
  ⟨fun _ _ _ _ h _ => absurd rfl h, fun _ p _ => by simp [F.cell, G.file, G.empty],
   fun _ i _ => rfl, fun _ _ _ _ => rfl⟩

theorem gempty_rel : GRel G.empty (fun _ => ([], 0)) :=
  fun _ => ⟨rfl, fun p => by simp [F.byte, G.file, G.empty, byteAt]⟩

end GoNfsd.Model.FileData

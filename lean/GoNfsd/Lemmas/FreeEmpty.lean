/- A free inode of the reference model M6 holds nothing: no content, no slots, size 0 — an invariant of every operation. -/
import GoNfsd.Lemmas.Refs

namespace GoNfsd.Model.Fs
open GoNfsd.Gen.Consts

def FreeEmpty (x : Inode) : Prop := x.kind = 0 → x.size = 0 ∧ x.content = [] ∧ x.slots = []

def AllFreeEmpty (s : FS) : Prop := ∀ i, FreeEmpty (s.get i)

theorem freeInode_empty (d : Inode) : FreeEmpty (freeInode d) := by
  intro _; simp [freeInode]

theorem freshInode_live (kind gen inum parent : Nat) (t : Array UInt8) (hk : kind ≠ 0) :
    (freshInode kind gen inum parent t).kind ≠ 0 := by
  unfold freshInode
  split
  · simpa using hk
  · split <;> simpa using hk

theorem addName_live (d d' : Inode) (slot inum : Nat) (name : Bytes) (h : addName d slot inum name = some d') :
    d'.kind = NF3DIR := by
  unfold addName at h
  split at h
  · cases h
  · rename_i hg
    split at h
    · cases h
    · simp only [Option.some.injEq] at h; subst h
      simp only
      by_cases hk : d.kind = NF3DIR
      · exact hk
      · exact absurd (Or.inl hk) hg

theorem doCreate_freeempty (s : FS) (c : Choice) (dfh name : Bytes) (kind : Nat) (t : Array UInt8) (i : Nat)
    (hk : kind ≠ 0) (h : AllFreeEmpty s) : FreeEmpty ((doCreate s c dfh name kind t).1.get i) := by
  have hi := h i
  unfold doCreate
  unfold FreeEmpty at *
  grind (splits := 40) [get_set, → addName_live, freshInode_live, AllFreeEmpty, FreeEmpty, NF3DIR]

theorem doRemove_freeempty (s : FS) (dfh name : Bytes) (isdir : Bool) (i : Nat)
    (h : AllFreeEmpty s) : FreeEmpty ((doRemove s dfh name isdir).1.get i) := by
  have hi := h i
  unfold doRemove
  grind (splits := 40) [get_set, remNameAt, freeInode_empty, AllFreeEmpty, FreeEmpty]

theorem unlinkTarget_freeempty (s s1 : FS) (td fino : Nat) (toL : Option (Nat × Nat)) (i : Nat)
    (hu : unlinkTarget s td fino toL = some s1) (h : AllFreeEmpty s) : FreeEmpty (s1.get i) := by
  have hi := h i
  unfold unlinkTarget at hu
  grind (splits := 40) [get_set, remNameAt, freeInode_empty, AllFreeEmpty, FreeEmpty]

theorem moveName_freeempty (s1 s3 : FS) (c : Choice) (fd fidx td fino : Nat) (tname : Bytes) (r : Reply) (i : Nat)
    (hm : moveName s1 c fd fidx td fino tname = some (s3, r)) (h : AllFreeEmpty s1) : FreeEmpty (s3.get i) := by
  have hi := h i
  unfold moveName at hm
  grind (splits := 40) [get_set, remNameAt, → addName_live, AllFreeEmpty, FreeEmpty, NF3DIR]

theorem doRename_freeempty (s : FS) (c : Choice) (ffh fname tfh tname : Bytes) (i : Nat)
    (h : AllFreeEmpty s) : FreeEmpty ((doRename s c ffh fname tfh tname).1.get i) := by
  unfold doRename
  split
  · exact h i
  · split
    · exact h i
    · split
      · exact h i
      · split
        · exact h i
        · split
          · exact h i
          · split
            · exact h i
            · rename_i s1 hs1
              split
              · exact h i
              · exact h i
              · rename_i s3 r hne hm
                have h1 : AllFreeEmpty s1 := fun j => unlinkTarget_freeempty _ _ _ _ _ j hs1 h
                exact moveName_freeempty _ _ _ _ _ _ _ _ _ i hm h1

theorem step_freeempty (s : FS) (op : Op) (c : Choice) (i : Nat) (h : AllFreeEmpty s) :
    FreeEmpty ((step s op c).1.get i) := by
  have hi := h i
  cases op <;> simp only [step]
  case create dfh name mode =>
    split
    · exact hi
    · exact doCreate_freeempty _ _ _ _ _ _ _ (by decide) h
  case mkdir => exact doCreate_freeempty _ _ _ _ _ _ _ (by decide) h
  case symlink => exact doCreate_freeempty _ _ _ _ _ _ _ (by decide) h
  case remove => exact doRemove_freeempty _ _ _ _ _ h
  case rmdir => exact doRemove_freeempty _ _ _ _ _ h
  case rename => exact doRename_freeempty _ _ _ _ _ _ _ h
  all_goals (unfold FreeEmpty at *; grind (splits := 40) [get_set, resize, AllFreeEmpty, FreeEmpty, NF3REG])

theorem run_freeempty (s : FS) (ops : List (Op × Choice)) (h : AllFreeEmpty s) : AllFreeEmpty (run s ops).1 := by
  induction ops generalizing s with
  | nil => exact h
  | cons x rest ih =>
    obtain ⟨op, c⟩ := x
    simp only [run]
    exact ih _ (fun i => step_freeempty s op c i h)

theorem mkfs_freeempty (u : Bool) (sz : Nat) : AllFreeEmpty (mkfs u sz) := by
  intro i
  simp only [mkfs, FS.get, FreeEmpty]
  split
  · intro h; simp [NF3DIR] at h
  · intro _; exact ⟨rfl, rfl, rfl⟩

end GoNfsd.Model.Fs

/- File-handle encoding lemmas. -/
import GoNfsd.Model.Fs

namespace GoNfsd.Model.Fs

@[simp] theorem le64_length (n : Nat) : (le64 n).length = 8 := by simp [le64]

theorem leNat_le64 (n : Nat) (h : n < 2 ^ 64) : leNat (le64 n) = n := by
  simp only [le64, List.range, List.range.loop, List.map, leNat, List.foldr, UInt8.toNat_ofNat']
  simp only [Nat.reducePow, Nat.pow_zero, Nat.pow_one, Nat.div_one]
  simp only [Nat.reducePow] at h
  omega

theorem parseFh_mkFh (i g : Nat) (hi : i < 2 ^ 64) (hg : g < 2 ^ 64) : parseFh (mkFh i g) = (i, g) := by
  have h8 : List.take 8 (le64 g) = le64 g := List.take_of_length_le (by simp)
  simp [parseFh, mkFh, leNat_le64 _ hi, leNat_le64 _ hg, h8]

end GoNfsd.Model.Fs

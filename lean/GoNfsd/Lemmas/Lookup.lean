/- Lemmas about name lookup in slot lists. -/
import GoNfsd.Lemmas.FsStep

namespace GoNfsd.Model.Fs
open GoNfsd.Gen.Consts

def matches_ (name : Bytes) (s : Slot) : Prop := s.inum ≠ 0 ∧ s.name = name

instance (name : Bytes) (s : Slot) : Decidable (matches_ name s) := by unfold matches_; infer_instance

theorem lookupGo_none (name : Bytes) : ∀ (slots : List Slot) (k : Nat),
    lookupGo name slots k = none ↔ ∀ s ∈ slots, ¬ matches_ name s := by
  intro slots
  induction slots with
  | nil => intro k; simp [lookupGo]
  | cons s rest ih =>
    intro k
    unfold lookupGo
    by_cases h : s.inum ≠ 0 ∧ s.name = name
    · simp [h, matches_]
    · simp only [h, if_false, List.mem_cons, forall_eq_or_imp]
      rw [ih (k + 1)]
      simp [matches_, h]

/-- the first match at position `i` is what lookup returns -/
theorem lookupGo_first (name : Bytes) : ∀ (slots : List Slot) (k i : Nat) (sl : Slot),
    slots[i]? = some sl → matches_ name sl →
    (∀ j < i, ∀ sj, slots[j]? = some sj → ¬ matches_ name sj) →
    lookupGo name slots k = some (sl.inum, k + i) := by
  intro slots
  induction slots with
  | nil => intro k i sl h; simp at h
  | cons s rest ih =>
    intro k i sl h hm hb
    unfold lookupGo
    cases i with
    | zero =>
      simp at h; subst h
      unfold matches_ at hm
      simp [hm]
    | succ i =>
      have h0 : ¬ matches_ name s := hb 0 (by omega) s (by simp)
      unfold matches_ at h0
      simp only [h0, if_false]
      simp at h
      have := ih (k + 1) i sl h hm (fun j hj sj hsj => hb (j + 1) (by omega) sj (by simpa using hsj))
      rw [this]; congr 2; omega

/-- adding a name that is not there makes lookup find it, at the slot used -/
theorem lookup_putSlot_same (slots : List Slot) (i inum : Nat) (name : Bytes)
    (hn : lookupSlots slots name = none) (hs : slotOk slots i = true) (hi : inum ≠ 0) :
    lookupSlots (putSlot slots i { inum := inum, name := name }) name = some (inum, i) := by
  unfold lookupSlots at hn ⊢
  have hnone := (lookupGo_none name slots 0).mp hn
  have hm : matches_ name { inum := inum, name := name } := ⟨hi, rfl⟩
  have key : ∀ L : List Slot, L[i]? = some { inum := inum, name := name } →
      (∀ j < i, ∀ sj, L[j]? = some sj → ¬ matches_ name sj) →
      lookupGo name L 0 = some (inum, i) := by
    intro L h1 h2
    have := lookupGo_first name L 0 i _ h1 hm h2
    simpa using this
  unfold slotOk at hs
  simp at hs
  unfold putSlot
  split
  · rename_i he
    apply key
    · simp [he]
    · intro j hj sj hsj
      rw [List.getElem?_append_left (by omega)] at hsj
      exact hnone sj (List.mem_of_getElem? hsj)
  · rename_i he
    have hlt : i < slots.length := by
      rcases hs with hs | hs
      · exact absurd hs he
      · cases h : slots[i]? with
        | none => simp [h] at hs
        | some v => exact (List.getElem?_eq_some_iff.mp h).1
    apply key
    · simp [List.getElem?_set, hlt]
    · intro j hj sj hsj
      rw [List.getElem?_set] at hsj
      have : ¬ i = j := by omega
      simp [this] at hsj
      exact hnone sj (List.mem_of_getElem? hsj)

end GoNfsd.Model.Fs

import GoNfsd.Model.Cache

namespace GoNfsd.Model.Cache

/-- the invariant of the cache together with the history `H` of (id, slot) pairs handed out -/
structure Inv (c : C) (H : List (Nat × Nat)) : Prop where
  sub : ∀ e ∈ c.entries, e ∈ H
  below : ∀ e ∈ H, e.2 < c.next
  func : ∀ e ∈ H, ∀ e' ∈ H, e.2 = e'.2 → e.1 = e'.1

theorem find_mem (es : List (Nat × Nat)) (id t : Nat) (h : find es id = some t) : (id, t) ∈ es := by
  unfold find at h
  cases hf : es.find? (fun e => e.1 == id) with
  | none => rw [hf] at h; cases h
  | some e =>
    rw [hf] at h
    simp only [Option.map_some, Option.some.injEq] at h
    have hm := List.mem_of_find?_eq_some hf
    have hp := List.find?_some hf
    simp only [beq_iff_eq] at hp
    have : e = (id, t) := by
      cases e with
      | mk a b => simp only at hp h; rw [hp, h]
    rw [← this]; exact hm

theorem lookup_hit (c : C) (id t0 : Nat) (hf : find c.entries id = some t0) :
    lookupSlot c id = ({ c with entries := (c.entries.filter fun e => e.1 != id) ++ [(id, t0)] }, some t0) := by
  unfold lookupSlot; rw [hf]

theorem lookup_miss_room (c : C) (id : Nat) (hf : find c.entries id = none) (h : ¬ c.entries.length ≥ c.sz) :
    lookupSlot c id = ({ c with entries := c.entries ++ [(id, c.next)], next := c.next + 1 }, some c.next) := by
  unfold lookupSlot; rw [hf]; simp only [h, if_false]

theorem lookup_miss_evict (c : C) (id : Nat) (x : Nat × Nat) (rest : List (Nat × Nat))
    (hf : find c.entries id = none) (h : c.entries.length ≥ c.sz) (hes : c.entries = x :: rest) :
    lookupSlot c id = ({ c with entries := rest ++ [(id, c.next)], next := c.next + 1 }, some c.next) := by
  unfold lookupSlot; rw [hf]; simp only [h, if_true]; rw [hes]

theorem lookup_miss_panic (c : C) (id : Nat) (hf : find c.entries id = none) (h : c.entries.length ≥ c.sz)
    (hes : c.entries = []) : lookupSlot c id = (c, none) := by
  unfold lookupSlot; rw [hf]; simp only [h, if_true]; rw [hes]

/-- one lookup: the slot returned is recorded, and the invariant is kept -/
theorem lookup_inv (c : C) (H : List (Nat × Nat)) (id : Nat) (h : Inv c H) (t : Nat)
    (ht : (lookupSlot c id).2 = some t) : Inv (lookupSlot c id).1 ((id, t) :: H) := by
  -- a fresh slot, whichever way room is made
  have hfresh : ∀ (es : List (Nat × Nat)), (∀ e ∈ es, e ∈ c.entries) →
      Inv { c with entries := es ++ [(id, c.next)], next := c.next + 1 } ((id, c.next) :: H) := by
    intro es hes
    refine ⟨?_, ?_, ?_⟩
    · intro e he
      simp only [List.mem_append, List.mem_singleton] at he
      rcases he with he | he
      · exact List.mem_cons_of_mem _ (h.sub e (hes e he))
      · rw [he]; exact List.mem_cons_self
    · intro e he
      rcases List.mem_cons.1 he with he | he
      · rw [he]; exact Nat.lt_succ_self _
      · exact Nat.lt_succ_of_lt (h.below e he)
    · intro e he e' he' heq
      rcases List.mem_cons.1 he with h1 | h1 <;> rcases List.mem_cons.1 he' with h2 | h2
      · rw [h1, h2]
      · rw [h1] at heq; have := h.below e' h2; simp only at heq; omega
      · rw [h2] at heq; have := h.below e h1; simp only at heq; omega
      · exact h.func e h1 e' h2 heq
  cases hf : find c.entries id with
  | some t0 =>
    rw [lookup_hit c id t0 hf] at ht ⊢
    simp only [Option.some.injEq] at ht
    subst ht
    have hmem := h.sub _ (find_mem _ _ _ hf)
    refine ⟨?_, ?_, ?_⟩
    · intro e he
      simp only [List.mem_append, List.mem_filter, List.mem_singleton] at he
      rcases he with he | he
      · exact List.mem_cons_of_mem _ (h.sub e he.1)
      · rw [he]; exact List.mem_cons_self
    · intro e he
      rcases List.mem_cons.1 he with he | he
      · rw [he]; exact h.below _ hmem
      · exact h.below e he
    · intro e he e' he' heq
      have m1 : e ∈ H := by
        rcases List.mem_cons.1 he with h1 | h1
        · rw [h1]; exact hmem
        · exact h1
      have m2 : e' ∈ H := by
        rcases List.mem_cons.1 he' with h1 | h1
        · rw [h1]; exact hmem
        · exact h1
      exact h.func e m1 e' m2 heq
  | none =>
    by_cases hfull : c.entries.length ≥ c.sz
    · cases hes : c.entries with
      | nil => rw [lookup_miss_panic c id hf hfull hes] at ht; cases ht
      | cons x rest =>
        rw [lookup_miss_evict c id x rest hf hfull hes] at ht ⊢
        simp only [Option.some.injEq] at ht
        subst ht
        exact hfresh rest (fun e he => by rw [hes]; exact List.mem_cons_of_mem _ he)
    · rw [lookup_miss_room c id hf hfull] at ht ⊢
      simp only [Option.some.injEq] at ht
      subst ht
      exact hfresh c.entries (fun e he => he)

/-- the pairs (id asked for, slot returned) of a run -/
def pairs : List Nat → List (Option Nat) → List (Nat × Nat)
  | id :: ids, some t :: outs => (id, t) :: pairs ids outs
  | _ :: ids, none :: outs => pairs ids outs
  | _, _ => []

theorem run_inv (ids : List Nat) : ∀ (c : C) (H : List (Nat × Nat)), Inv c H →
    ∃ H', Inv (run c ids).1 H' ∧ (∀ e ∈ H, e ∈ H') ∧ ∀ e ∈ pairs ids (run c ids).2, e ∈ H' := by
  induction ids with
  | nil => intro c H h; exact ⟨H, h, fun e he => he, fun e he => by simp [pairs, run] at he⟩
  | cons id rest ih =>
    intro c H h
    simp only [run]
    cases ho : (lookupSlot c id).2 with
    | none =>
      -- the capacity-0 panic: nothing is returned, the cache is as it was
      have hsame : (lookupSlot c id).1 = c := by
        cases hf : find c.entries id with
        | some t0 => rw [lookup_hit c id t0 hf] at ho; cases ho
        | none =>
          by_cases hfull : c.entries.length ≥ c.sz
          · cases hes : c.entries with
            | nil => rw [lookup_miss_panic c id hf hfull hes]
            | cons x r => rw [lookup_miss_evict c id x r hf hfull hes] at ho; cases ho
          · rw [lookup_miss_room c id hf hfull] at ho; cases ho
      rw [hsame]
      obtain ⟨H', i1, i2, i3⟩ := ih c H h
      exact ⟨H', i1, i2, by simpa [pairs] using i3⟩
    | some t =>
      have hinv := lookup_inv c H id h t ho
      obtain ⟨H', i1, i2, i3⟩ := ih (lookupSlot c id).1 ((id, t) :: H) hinv
      refine ⟨H', i1, fun e he => i2 e (List.mem_cons_of_mem _ he), ?_⟩
      intro e he
      simp only [pairs] at he
      rcases List.mem_cons.1 he with h1 | h1
      · rw [h1]; exact i2 _ List.mem_cons_self
      · exact i3 e h1

theorem mk_inv (sz : Nat) : Inv (mk sz) [] := by
  refine ⟨?_, ?_, ?_⟩
  · intro e he; simp [mk] at he
  · intro e he; cases he
  · intro e he; cases he

/-- A SLOT NEVER CHANGES THE ID IT STANDS FOR: in any sequence of lookups, two lookups that return
    the same slot asked for the same id. -/
theorem slot_stands_for_one_id (sz : Nat) (ids : List Nat) (i i' t : Nat)
    (h1 : (i, t) ∈ pairs ids (run (mk sz) ids).2) (h2 : (i', t) ∈ pairs ids (run (mk sz) ids).2) : i = i' := by
  obtain ⟨H', hinv, _, hp⟩ := run_inv ids (mk sz) [] (mk_inv sz)
  exact hinv.func (i, t) (hp _ h1) (i', t) (hp _ h2) rfl

end GoNfsd.Model.Cache

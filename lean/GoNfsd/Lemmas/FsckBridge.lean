/- The bridge from the pointer-tree model (M7 / M7m: a store of index blocks, one root list per
   file, invariant `MWF`) to the IMAGES the structure checker reads (`Model/Fsck`): the blocks the
   checker attributes to an inode (`Fsck.owned`, computed from the image's index blocks) are exactly
   the non-null pointers of the model's tree, position by position; hence the checker's "one owner
   per block" (`chkOneOwner`) holds on every image of a state that satisfies `MWF`. -/
import GoNfsd.Lemmas.MultiTree
import GoNfsd.Model.Fsck

namespace GoNfsd.Model.BlockMap
open GoNfsd.Gen.Consts GoNfsd.Model.Fsck

/-- the non-null entries (index, pointer) of an index block, as the harness exports them -/
def indEntries (st : Store) (b : Nat) : List (Nat × Nat) :=
  (List.range NBLKBLK).filterMap fun i => if st b i = 0 then none else some (i, st b i)

/-- every position of a pointer tree, in the order the checker walks it -/
def posList : List Pos :=
  (List.range NDIRECT).map Pos.dir ++ (Pos.iroot :: (List.range NBLKBLK).map Pos.ileaf) ++
    (Pos.droot :: (List.range NBLKBLK).flatMap fun j => Pos.dmid j :: (List.range NBLKBLK).map (Pos.dleaf j))

/-- the non-null members of a list of pointers -/
def nz : List Nat → List Nat
  | [] => []
  | x :: r => if x = 0 then nz r else x :: nz r

theorem nz_append (a b : List Nat) : nz (a ++ b) = nz a ++ nz b := by
  induction a with
  | nil => rfl
  | cons x r ih =>
    by_cases h : x = 0
    · simp only [List.cons_append, nz, if_pos h, ih]
    · simp only [List.cons_append, nz, if_neg h, ih]

theorem mem_nz {l : List Nat} {x : Nat} : x ∈ nz l ↔ x ∈ l ∧ x ≠ 0 := by
  induction l with
  | nil => simp [nz]
  | cons y r ih =>
    by_cases h : y = 0
    · simp only [nz, if_pos h, ih, List.mem_cons]
      constructor
      · intro ⟨h1, h2⟩; exact ⟨Or.inr h1, h2⟩
      · intro ⟨h1, h2⟩
        rcases h1 with h1 | h1
        · exact absurd (h1.trans h) h2
        · exact ⟨h1, h2⟩
    · simp only [nz, if_neg h, List.mem_cons, ih]
      constructor
      · intro h1
        rcases h1 with h1 | h1
        · exact ⟨Or.inl h1, by rw [h1]; exact h⟩
        · exact ⟨Or.inr h1.1, h1.2⟩
      · intro ⟨h1, h2⟩
        rcases h1 with h1 | h1
        · exact Or.inl h1
        · exact Or.inr ⟨h1, h2⟩

theorem ownDirectFrom_blk (l : List Nat) : ∀ i, (ownDirectFrom l i).map (·.blk) = nz l := by
  induction l with
  | nil => intro i; rfl
  | cons p ps ih =>
    intro i
    by_cases hp : p = 0
    · simp only [ownDirectFrom, nz, ne_eq, hp, not_true_eq_false, if_false, if_true]
      exact ih (i + 1)
    · simp only [ownDirectFrom, nz, ne_eq, hp, not_false_eq_true, if_true, if_false, List.map_cons]
      rw [ih (i + 1)]

theorem filterMap_snd (st : Store) (b : Nat) (r : List Nat) :
    (r.filterMap fun i => if st b i = 0 then none else some (i, st b i)).map (·.2) = nz (r.map (st b)) := by
  induction r with
  | nil => rfl
  | cons i r ih =>
    by_cases h : st b i = 0
    · simp only [List.filterMap_cons, if_pos h, List.map_cons, nz, ih]
    · simp only [List.filterMap_cons, if_neg h, List.map_cons, nz, ih]

theorem indEntries_snd (st : Store) (b : Nat) : (indEntries st b).map (·.2) = nz ((List.range NBLKBLK).map (st b)) :=
  filterMap_snd st b _

theorem nz_zeros (l : List Nat) (h : ∀ x ∈ l, x = 0) : nz l = [] := by
  induction l with
  | nil => rfl
  | cons x r ih =>
    simp only [nz, if_pos (h x (List.mem_cons_self ..))]
    exact ih fun y hy => h y (List.mem_cons_of_mem _ hy)

theorem take_eq_map_range (l : List Nat) (n : Nat) (h : n ≤ l.length) :
    l.take n = (List.range n).map fun i => l.getD i 0 := by
  apply List.ext_getElem
  · simp; omega
  · intro i h1 h2
    simp only [List.getElem_take, List.getElem_map, List.getElem_range]
    have : i < l.length := by simp at h1; omega
    simp [List.getD, this]

/-- the image's index blocks are the model's, for the index blocks of this file -/
def IndOK (img : Image) (st : Store) (blks : List Nat) : Prop :=
  (blks.getD INDIRECT 0 ≠ 0 → indOf img (blks.getD INDIRECT 0) = indEntries st (blks.getD INDIRECT 0)) ∧
  (blks.getD DINDIRECT 0 ≠ 0 → indOf img (blks.getD DINDIRECT 0) = indEntries st (blks.getD DINDIRECT 0) ∧
    ∀ j, j < NBLKBLK → st (blks.getD DINDIRECT 0) j ≠ 0 →
      indOf img (st (blks.getD DINDIRECT 0) j) = indEntries st (st (blks.getD DINDIRECT 0) j))

theorem nz_cons_ne {x : Nat} (r : List Nat) (h : x ≠ 0) : nz (x :: r) = x :: nz r := by
  simp only [nz, if_neg h]

theorem nz_cons_zero {x : Nat} (r : List Nat) (h : x = 0) : nz (x :: r) = nz r := by
  simp only [nz, if_pos h]

theorem ownInd_blk (img : Image) (st : Store) (r base : Nat) (R : List Nat)
    (h : r ≠ 0 → (indOf img r).map (·.2) = nz (R.map (st r))) :
    (ownInd img r base).map (·.blk) = nz (r :: R.map fun i => if r = 0 then 0 else st r i) := by
  by_cases hr : r = 0
  · simp only [ownInd, if_pos hr, List.map_nil]
    symm
    apply nz_zeros
    intro x hx
    simp only [List.mem_cons, List.mem_map] at hx
    rcases hx with hx | ⟨_, _, hx⟩
    · rw [hx, hr]
    · exact hx.symm
  · have e1 : (ownInd img r base).map (·.blk) = r :: (indOf img r).map (·.2) := by
      simp only [ownInd, if_neg hr, List.map_cons, List.map_map]
      rfl
    have e2 : (R.map fun i => if r = 0 then 0 else st r i) = R.map (st r) := by
      apply List.map_congr_left; intro i _; rw [if_neg hr]
    rw [e1, h hr, e2, nz_cons_ne _ hr]

theorem owned_blk (img : Image) (st : Store) (ino : DInode) (hl : ino.blks.length = NDIRECT + 2)
    (h : IndOK img st ino.blks) :
    (owned img ino).map (·.blk) = nz (posList.map (ptr st ino.blks)) := by
  unfold owned posList
  generalize hR : List.range NBLKBLK = R
  have hent : ∀ b, (indEntries st b).map (·.2) = nz (R.map (st b)) := by
    intro b; rw [← hR]; exact indEntries_snd st b
  simp only [List.map_append, nz_append]
  have eA : (ownDirectFrom (ino.blks.take NDIRECT) 0).map (·.blk) =
      nz (((List.range NDIRECT).map Pos.dir).map (ptr st ino.blks)) := by
    rw [ownDirectFrom_blk, take_eq_map_range _ _ (by rw [hl]; omega), List.map_map]
    rfl
  have eB : (ownInd img (ino.blks.getD INDIRECT 0) NDIRECT).map (·.blk) =
      nz ((Pos.iroot :: R.map Pos.ileaf).map (ptr st ino.blks)) := by
    rw [ownInd_blk img st _ _ R (fun hne => by rw [h.1 hne]; exact hent _)]
    simp only [List.map_cons, List.map_map]
    rfl
  have eC : (ownDind img (ino.blks.getD DINDIRECT 0) (NDIRECT + NBLKBLK)).map (·.blk) =
      nz ((Pos.droot :: R.flatMap fun j => Pos.dmid j :: R.map (Pos.dleaf j)).map (ptr st ino.blks)) := by
    generalize hd : ino.blks.getD DINDIRECT 0 = d
    have h2 := h.2
    rw [hd] at h2
    have pD : ptr st ino.blks Pos.droot = d := by simp only [ptr, ptrR, hd]
    have pM : ∀ j, ptr st ino.blks (Pos.dmid j) = if d = 0 then 0 else st d j := by
      intro j; simp only [ptr, ptrR, hd]
    have pL : ∀ j i, ptr st ino.blks (Pos.dleaf j i) = if d = 0 then 0 else if st d j = 0 then 0 else st (st d j) i := by
      intro j i; simp only [ptr, ptrR, hd]
    by_cases hd0 : d = 0
    · simp only [ownDind, if_pos hd0, List.map_nil]
      symm
      apply nz_zeros
      intro x hx
      simp only [List.map_cons, List.mem_cons, List.mem_map, List.mem_flatMap] at hx
      rcases hx with hx | ⟨q, ⟨j, _, hq⟩, hx⟩
      · rw [hx, pD]; exact hd0
      · rw [← hx]
        rcases hq with hq | ⟨i, _, hq⟩
        · rw [hq, pM, if_pos hd0]
        · rw [← hq, pL, if_pos hd0]
    · obtain ⟨hroot, hmid⟩ := h2 hd0
      have e1 : (ownDind img d (NDIRECT + NBLKBLK)).map (·.blk) =
          d :: ((indOf img d).flatMap fun jq => ownInd img jq.2 (NDIRECT + NBLKBLK + jq.1 * NBLKBLK)).map (·.blk) := by
        simp only [ownDind, if_neg hd0, List.map_cons]
      rw [e1, List.map_cons, pD, nz_cons_ne _ hd0, hroot]
      apply congrArg
      unfold indEntries
      rw [hR]
      have key : ∀ (r : List Nat), (∀ j ∈ r, j < NBLKBLK) →
          ((r.filterMap fun i => if st d i = 0 then none else some (i, st d i)).flatMap
              fun jq => ownInd img jq.2 (NDIRECT + NBLKBLK + jq.1 * NBLKBLK)).map (·.blk) =
            nz ((r.flatMap fun j => Pos.dmid j :: R.map (Pos.dleaf j)).map (ptr st ino.blks)) := by
        intro r hr
        induction r with
        | nil => rfl
        | cons j r ih =>
          have ih := ih (fun x hx => hr x (List.mem_cons_of_mem _ hx))
          have hjlt := hr j (List.mem_cons_self ..)
          rw [List.flatMap_cons, List.map_append, nz_append]
          by_cases hj : st d j = 0
          · rw [List.filterMap_cons]
            simp only [if_pos hj]
            rw [ih]
            have : nz ((Pos.dmid j :: R.map (Pos.dleaf j)).map (ptr st ino.blks)) = [] := by
              apply nz_zeros
              intro x hx
              simp only [List.map_cons, List.mem_cons, List.mem_map] at hx
              rcases hx with hx | ⟨q, ⟨i, _, hq⟩, hx⟩
              · rw [hx, pM, if_neg hd0]; exact hj
              · rw [← hx, ← hq, pL, if_neg hd0, if_pos hj]
            rw [this, List.nil_append]
          · rw [List.filterMap_cons]
            simp only [if_neg hj]
            rw [List.flatMap_cons, List.map_append, ih]
            apply congrArg (· ++ _)
            rw [ownInd_blk img st _ _ R (fun _ => by rw [hmid j hjlt hj]; exact hent _)]
            rw [List.map_cons, List.map_map, pM, if_neg hd0]
            apply congrArg
            apply congrArg
            apply List.map_congr_left
            intro i _
            simp only [Function.comp, pL, if_neg hd0, if_neg hj]
      exact key R (by intro j hj; rw [← hR] at hj; exact List.mem_range.mp hj)
  rw [eA, eB, eC]

/-! ### no duplicates -/

theorem nz_sublist (l : List Nat) : (nz l).Sublist l := by
  induction l with
  | nil => exact List.Sublist.slnil
  | cons x r ih =>
    by_cases h : x = 0
    · rw [nz_cons_zero _ h]; exact List.Sublist.cons _ ih
    · rw [nz_cons_ne _ h]; exact List.Sublist.cons_cons _ ih

theorem nz_map_nodup {α : Type} (f : α → Nat) (l : List α) (hn : l.Nodup)
    (hinj : ∀ x ∈ l, ∀ y ∈ l, f x ≠ 0 → f x = f y → x = y) : (nz (l.map f)).Nodup := by
  induction l with
  | nil => exact List.nodup_nil
  | cons a r ih =>
    have hr : r.Nodup := (List.nodup_cons.mp hn).2
    have ha : a ∉ r := (List.nodup_cons.mp hn).1
    have ih' := ih hr (fun x hx y hy => hinj x (List.mem_cons_of_mem _ hx) y (List.mem_cons_of_mem _ hy))
    by_cases h : f a = 0
    · rw [List.map_cons, nz_cons_zero _ h]; exact ih'
    · rw [List.map_cons, nz_cons_ne _ h, List.nodup_cons]
      refine ⟨?_, ih'⟩
      intro hm
      obtain ⟨hm1, _⟩ := mem_nz.mp hm
      obtain ⟨y, hy, hfy⟩ := List.mem_map.mp hm1
      have := hinj a (List.mem_cons_self ..) y (List.mem_cons_of_mem _ hy) h hfy.symm
      exact ha (this ▸ hy)

theorem posList_valid : ∀ p ∈ posList, p.valid := by
  intro p hp
  unfold posList at hp
  simp only [List.mem_append, List.mem_map, List.mem_range, List.mem_cons, List.mem_flatMap] at hp
  rcases hp with (⟨i, hi, rfl⟩ | (rfl | ⟨i, hi, rfl⟩)) | (rfl | ⟨j, hj, (rfl | ⟨i, hi, rfl⟩)⟩)
  · exact hi
  · trivial
  · exact hi
  · trivial
  · exact hj
  · exact ⟨hj, hi⟩

theorem nodup_map_inj {α β : Type} (f : α → β) (l : List α) (hn : l.Nodup) (hf : ∀ a b, f a = f b → a = b) :
    (l.map f).Nodup := by
  unfold List.Nodup
  rw [List.pairwise_map]
  exact List.Pairwise.imp (fun {a b} hab h => hab (hf a b h)) hn

theorem posList_nodup : posList.Nodup := by
  unfold posList
  have hD : (List.range NDIRECT).Nodup := List.nodup_range
  have hR : (List.range NBLKBLK).Nodup := List.nodup_range
  generalize List.range NBLKBLK = R at *
  generalize List.range NDIRECT = D at *
  have hA : (D.map Pos.dir).Nodup := nodup_map_inj _ _ hD (fun a b h => by injection h)
  have hB : (R.map Pos.ileaf).Nodup := nodup_map_inj _ _ hR (fun a b h => by injection h)
  have hC : (R.flatMap fun j => Pos.dmid j :: R.map (Pos.dleaf j)).Nodup := by
    unfold List.Nodup
    rw [List.pairwise_flatMap]
    constructor
    · intro j _
      show (Pos.dmid j :: R.map (Pos.dleaf j)).Nodup
      rw [List.nodup_cons]
      refine ⟨by simp, nodup_map_inj _ _ hR (fun a b h => by injection h)⟩
    · refine List.Pairwise.imp ?_ hR
      intro j1 j2 hne x hx y hy hxy
      simp only [List.mem_cons, List.mem_map] at hx hy
      rcases hx with rfl | ⟨i1, _, rfl⟩ <;> rcases hy with rfl | ⟨i2, _, rfl⟩
      · injection hxy with h; exact hne h
      · cases hxy
      · cases hxy
      · injection hxy with h _; exact hne h
  rw [List.nodup_append, List.nodup_append]
  refine ⟨⟨hA, ?_, ?_⟩, ?_, ?_⟩
  · rw [List.nodup_cons]; exact ⟨by simp, hB⟩
  · intro a ha b hb
    simp only [List.mem_map, List.mem_cons] at ha hb
    obtain ⟨i, _, rfl⟩ := ha
    rcases hb with rfl | ⟨k, _, rfl⟩ <;> intro h <;> cases h
  · rw [List.nodup_cons]; exact ⟨by simp, hC⟩
  · intro a ha b hb
    simp only [List.mem_append, List.mem_map, List.mem_cons, List.mem_flatMap] at ha hb
    rcases ha with ⟨i, _, rfl⟩ | rfl | ⟨i, _, rfl⟩ <;>
      rcases hb with rfl | ⟨j, _, (rfl | ⟨k, _, rfl⟩)⟩ <;> intro h <;> cases h

/-- ONE OWNER PER BLOCK ON THE IMAGE: an image whose inodes carry the root lists of a model state
    satisfying `MWF` (any number of files) and whose index blocks are the model's passes the
    checker's `chkOneOwner` -/
theorem allOwned_nodup (s : S) (roots : Nat → List Nat) (img : Image) (h : MWF s roots)
    (hino : (img.inodes.map (·.inum)).Nodup)
    (hblks : ∀ ino ∈ img.inodes, ino.blks = roots ino.inum)
    (hind : ∀ ino ∈ img.inodes, IndOK img s.st ino.blks) :
    (allOwned img).Nodup := by
  unfold allOwned List.Nodup
  rw [List.pairwise_flatMap]
  have hown : ∀ ino ∈ img.inodes, (owned img ino).map (·.blk) = nz (posList.map (ptr s.st (roots ino.inum))) := by
    intro ino hi
    have := owned_blk img s.st ino (by rw [hblks ino hi]; exact h.len _) (hind ino hi)
    rw [this, hblks ino hi]
  have hmem : ∀ a x, x ∈ nz (posList.map (ptr s.st (roots a))) →
      ∃ p, p.valid ∧ ptr s.st (roots a) p = x ∧ x ≠ 0 := by
    intro a x hx
    obtain ⟨h1, h2⟩ := mem_nz.mp hx
    obtain ⟨p, hp, hpx⟩ := List.mem_map.mp h1
    exact ⟨p, posList_valid p hp, hpx, h2⟩
  constructor
  · intro ino hi
    rw [hown ino hi]
    apply nz_map_nodup _ _ posList_nodup
    intro x hx y hy hne he
    exact (h.inj _ _ x y (posList_valid x hx) (posList_valid y hy) hne he).2
  · have hp : img.inodes.Pairwise fun a b => a.inum ≠ b.inum := by
      have := hino
      unfold List.Nodup at this
      rwa [List.pairwise_map] at this
    have hp2 : img.inodes.Pairwise fun a b => a ∈ img.inodes ∧ b ∈ img.inodes ∧ a.inum ≠ b.inum := by
      rw [List.pairwise_iff_forall_sublist] at hp ⊢
      intro a b hab
      exact ⟨(hab.subset (List.mem_cons_self ..)), hab.subset (List.mem_cons_of_mem _ (List.mem_cons_self ..)), hp hab⟩
    refine List.Pairwise.imp ?_ hp2
    intro i1 i2 ⟨hi1, hi2, hne⟩ x hx y hy hxy
    rw [hown i1 hi1] at hx
    rw [hown i2 hi2] at hy
    obtain ⟨p, hpv, hpx, hx0⟩ := hmem _ _ hx
    obtain ⟨q, hqv, hqy, _⟩ := hmem _ _ hy
    exact hne (h.inj _ _ p q hpv hqv (by rw [hpx]; exact hx0) (by rw [hpx, hqy]; exact hxy)).1

theorem chkOneOwner_of_MWF (s : S) (roots : Nat → List Nat) (img : Image) (h : MWF s roots)
    (hino : (img.inodes.map (·.inum)).Nodup)
    (hblks : ∀ ino ∈ img.inodes, ino.blks = roots ino.inum)
    (hind : ∀ ino ∈ img.inodes, IndOK img s.st ino.blks) :
    chkOneOwner img = true := by
  unfold chkOneOwner
  exact decide_eq_true (allOwned_nodup s roots img h hino hblks hind)

/-! ### the image of a model state -/

/-- the blocks a file uses as index blocks (0: none) -/
def indexBlocks (st : Store) (blks : List Nat) : List Nat :=
  blks.getD INDIRECT 0 :: blks.getD DINDIRECT 0 :: (List.range NBLKBLK).map (st (blks.getD DINDIRECT 0))

/-- the image of the files `(inode number, root list)` over store `st`: the inodes with their root
    lists and, for every index block, its non-null entries — what the harness exports -/
def imageOf (st : Store) (files : List (Nat × List Nat)) : Image :=
  { (default : Image) with
    inodes := files.map fun f => { inum := f.1, kind := 1, nlink := 1, gen := 0, size := 0, shrink := 0, blks := f.2 }
    ind := (files.flatMap fun f => indexBlocks st f.2).map fun b => (b, indEntries st b) }

theorem indOf_listed (img : Image) (st : Store) (l : List Nat) (hl : img.ind = l.map fun b => (b, indEntries st b))
    (b : Nat) (hb : b ∈ l) : indOf img b = indEntries st b := by
  unfold indOf
  rw [hl]
  clear hl
  induction l with
  | nil => cases hb
  | cons x r ih =>
    rw [List.map_cons, List.find?_cons]
    by_cases hx : x = b
    · simp only [hx, beq_self_eq_true]
    · have : ((x, indEntries st x).1 == b) = false := by simpa using hx
      rw [this]
      rcases List.mem_cons.mp hb with h1 | h1
      · exact absurd h1.symm hx
      · exact ih h1

theorem imageOf_IndOK (st : Store) (files : List (Nat × List Nat)) (f : Nat × List Nat) (hf : f ∈ files) :
    IndOK (imageOf st files) st f.2 := by
  have hl : (imageOf st files).ind = (files.flatMap fun f => indexBlocks st f.2).map fun b => (b, indEntries st b) := rfl
  have hsub : ∀ b ∈ indexBlocks st f.2, b ∈ files.flatMap fun f => indexBlocks st f.2 :=
    fun b hb => List.mem_flatMap.mpr ⟨f, hf, hb⟩
  refine ⟨fun _ => indOf_listed _ st _ hl _ (hsub _ (List.mem_cons_self ..)), fun _ => ⟨?_, ?_⟩⟩
  · exact indOf_listed _ st _ hl _ (hsub _ (List.mem_cons_of_mem _ (List.mem_cons_self ..)))
  · intro j hj _
    apply indOf_listed _ st _ hl _ (hsub _ ?_)
    apply List.mem_cons_of_mem; apply List.mem_cons_of_mem
    exact List.mem_map.mpr ⟨j, List.mem_range.mpr hj, rfl⟩

/-- the image of ANY model state that satisfies `MWF`, for any finite set of files, passes the
    checker's one-owner test -/
theorem imageOf_one_owner (s : S) (roots : Nat → List Nat) (h : MWF s roots) (files : List Nat) (hn : files.Nodup) :
    chkOneOwner (imageOf s.st (files.map fun a => (a, roots a))) = true := by
  apply chkOneOwner_of_MWF s roots _ h
  · have : (imageOf s.st (files.map fun a => (a, roots a))).inodes.map (fun x : DInode => x.inum) = files := by
      show ((files.map fun a => (a, roots a)).map fun f : Nat × List Nat =>
        ({ inum := f.1, kind := 1, nlink := 1, gen := 0, size := 0, shrink := 0, blks := f.2 } : DInode)).map (fun x : DInode => x.inum) = files
      rw [List.map_map, List.map_map]
      exact List.map_id' files
    rw [this]; exact hn
  · intro ino hi
    obtain ⟨f, hf, rfl⟩ := List.mem_map.mp hi
    obtain ⟨a, _, rfl⟩ := List.mem_map.mp hf
    rfl
  · intro ino hi
    obtain ⟨f, hf, rfl⟩ := List.mem_map.mp hi
    exact imageOf_IndOK s.st _ f hf

end GoNfsd.Model.BlockMap

/-! ### with the file-block indices: what the checker's size clause looks at -/
namespace GoNfsd.Model.BlockMap
open GoNfsd.Gen.Consts GoNfsd.Model.Fsck

/-- the (index, pointer) pairs with a non-null pointer -/
def nzp : List (Nat × Nat) → List (Nat × Nat)
  | [] => []
  | x :: r => if x.2 = 0 then nzp r else x :: nzp r

theorem nzp_append (a b : List (Nat × Nat)) : nzp (a ++ b) = nzp a ++ nzp b := by
  induction a with
  | nil => rfl
  | cons x r ih =>
    by_cases h : x.2 = 0
    · simp only [List.cons_append, nzp, if_pos h, ih]
    · simp only [List.cons_append, nzp, if_neg h, ih]

theorem nzp_zeros (l : List (Nat × Nat)) (h : ∀ x ∈ l, x.2 = 0) : nzp l = [] := by
  induction l with
  | nil => rfl
  | cons x r ih =>
    simp only [nzp, if_pos (h x (List.mem_cons_self ..))]
    exact ih fun y hy => h y (List.mem_cons_of_mem _ hy)

theorem mem_nzp {l : List (Nat × Nat)} {x : Nat × Nat} (h : x ∈ nzp l) : x ∈ l ∧ x.2 ≠ 0 := by
  induction l with
  | nil => cases h
  | cons y r ih =>
    by_cases hy : y.2 = 0
    · rw [nzp, if_pos hy] at h
      exact ⟨List.mem_cons_of_mem _ (ih h).1, (ih h).2⟩
    · rw [nzp, if_neg hy] at h
      rcases List.mem_cons.mp h with e | e
      · exact ⟨by rw [e]; exact List.mem_cons_self .., by rw [e]; exact hy⟩
      · exact ⟨List.mem_cons_of_mem _ (ih e).1, (ih e).2⟩

def pairOf (o : Own) : Nat × Nat := (o.minIdx, o.blk)

theorem ownDirectFrom_pairs (l : List Nat) : ∀ i, (ownDirectFrom l i).map pairOf =
    nzp ((List.range l.length).map fun k => (i + k, l.getD k 0)) := by
  induction l with
  | nil => intro i; rfl
  | cons p ps ih =>
    intro i
    have hshift : (List.range (ps.length + 1)).map (fun k => (i + k, (p :: ps).getD k 0)) =
        (i, p) :: (List.range ps.length).map (fun k => (i + 1 + k, ps.getD k 0)) := by
      rw [List.range_succ_eq_map, List.map_cons, List.map_map]
      congr 1
      apply List.map_congr_left
      intro k _
      simp only [Function.comp, List.getD_cons_succ]
      congr 1; omega
    simp only [List.length_cons]
    rw [hshift]
    by_cases hp : p = 0
    · simp only [ownDirectFrom, ne_eq, hp, not_true_eq_false, if_false, nzp, if_true]
      exact ih (i + 1)
    · simp only [ownDirectFrom, ne_eq, hp, not_false_eq_true, if_true, List.map_cons, nzp, if_false]
      rw [ih (i + 1)]
      rfl

end GoNfsd.Model.BlockMap

namespace GoNfsd.Model.BlockMap
open GoNfsd.Gen.Consts GoNfsd.Model.Fsck

theorem filterMap_pairs (st : Store) (b base : Nat) (r : List Nat) :
    (r.filterMap fun i => if st b i = 0 then none else some (i, st b i)).map (fun jp => (base + jp.1, jp.2)) =
      nzp (r.map fun i => (base + i, st b i)) := by
  induction r with
  | nil => rfl
  | cons i r ih =>
    by_cases h : st b i = 0
    · simp only [List.filterMap_cons, if_pos h, List.map_cons, nzp, ih, if_true]
    · simp only [List.filterMap_cons, if_neg h, List.map_cons, nzp, ih, if_false]

theorem nzp_cons_ne {x : Nat × Nat} (r : List (Nat × Nat)) (h : x.2 ≠ 0) : nzp (x :: r) = x :: nzp r := by
  simp only [nzp, if_neg h]

theorem ownInd_pairs (img : Image) (st : Store) (r base : Nat) (R : List Nat)
    (h : r ≠ 0 → (indOf img r).map (fun jp => (base + jp.1, jp.2)) = nzp (R.map fun i => (base + i, st r i))) :
    (ownInd img r base).map pairOf = nzp ((base, r) :: R.map fun i => (base + i, if r = 0 then 0 else st r i)) := by
  by_cases hr : r = 0
  · simp only [ownInd, if_pos hr, List.map_nil]
    symm
    apply nzp_zeros
    intro x hx
    simp only [List.mem_cons, List.mem_map] at hx
    rcases hx with hx | ⟨_, _, hx⟩
    · rw [hx]; exact hr
    · rw [← hx]
  · have e1 : (ownInd img r base).map pairOf = (base, r) :: (indOf img r).map (fun jp => (base + jp.1, jp.2)) := by
      simp only [ownInd, if_neg hr, List.map_cons, List.map_map]
      rfl
    have e2 : (R.map fun i => (base + i, if r = 0 then 0 else st r i)) = R.map fun i => (base + i, st r i) := by
      apply List.map_congr_left; intro i _; rw [if_neg hr]
    rw [e1, h hr, e2, nzp_cons_ne _ (by exact hr)]

end GoNfsd.Model.BlockMap

namespace GoNfsd.Model.BlockMap
open GoNfsd.Gen.Consts GoNfsd.Model.Fsck

/-- THE CHECKER'S VIEW OF AN INODE IS THE POINTER TREE, with the file-block index of every position -/
theorem owned_pairs (img : Image) (st : Store) (ino : DInode) (hl : ino.blks.length = NDIRECT + 2)
    (h : IndOK img st ino.blks) :
    (owned img ino).map pairOf = nzp (posList.map fun p => (firstBn p, ptr st ino.blks p)) := by
  unfold owned posList
  generalize hR : List.range NBLKBLK = R
  have hRlt : ∀ j ∈ R, j < NBLKBLK := by intro j hj; rw [← hR] at hj; exact List.mem_range.mp hj
  have hent : ∀ b base, (indEntries st b).map (fun jp => (base + jp.1, jp.2)) = nzp (R.map fun i => (base + i, st b i)) := by
    intro b base; rw [← hR]; exact filterMap_pairs st b base _
  simp only [List.map_append, nzp_append]
  have eA : (ownDirectFrom (ino.blks.take NDIRECT) 0).map pairOf =
      nzp (((List.range NDIRECT).map Pos.dir).map fun p => (firstBn p, ptr st ino.blks p)) := by
    rw [ownDirectFrom_pairs, List.map_map]
    have hlen : (ino.blks.take NDIRECT).length = NDIRECT := by rw [List.length_take, hl]; omega
    rw [hlen]
    apply congrArg
    apply List.map_congr_left
    intro k hk
    have hk' : k < NDIRECT := List.mem_range.mp hk
    have hk2 : k < ino.blks.length := by rw [hl]; omega
    have hget : (ino.blks.take NDIRECT).getD k 0 = ino.blks.getD k 0 := by
      simp [List.getD, List.getElem?_take, hk']
    simp only [Function.comp, firstBn, ptr, ptrR, Nat.zero_add]
    rw [hget]
  have eB : (ownInd img (ino.blks.getD INDIRECT 0) NDIRECT).map pairOf =
      nzp ((Pos.iroot :: R.map Pos.ileaf).map fun p => (firstBn p, ptr st ino.blks p)) := by
    rw [ownInd_pairs img st _ _ R (fun hne => by rw [h.1 hne]; exact hent _ _)]
    simp only [List.map_cons, List.map_map]
    rfl
  have eC : (ownDind img (ino.blks.getD DINDIRECT 0) (NDIRECT + NBLKBLK)).map pairOf =
      nzp ((Pos.droot :: R.flatMap fun j => Pos.dmid j :: R.map (Pos.dleaf j)).map fun p => (firstBn p, ptr st ino.blks p)) := by
    generalize hd : ino.blks.getD DINDIRECT 0 = d
    have h2 := h.2
    rw [hd] at h2
    have pD : ptr st ino.blks Pos.droot = d := by simp only [ptr, ptrR, hd]
    have pM : ∀ j, ptr st ino.blks (Pos.dmid j) = if d = 0 then 0 else st d j := by
      intro j; simp only [ptr, ptrR, hd]
    have pL : ∀ j i, ptr st ino.blks (Pos.dleaf j i) = if d = 0 then 0 else if st d j = 0 then 0 else st (st d j) i := by
      intro j i; simp only [ptr, ptrR, hd]
    by_cases hd0 : d = 0
    · simp only [ownDind, if_pos hd0, List.map_nil]
      symm
      apply nzp_zeros
      intro x hx
      simp only [List.map_cons, List.mem_cons, List.mem_map, List.mem_flatMap] at hx
      rcases hx with hx | ⟨q, ⟨j, _, hq⟩, hx⟩
      · rw [hx]; show ptr st ino.blks Pos.droot = 0; rw [pD]; exact hd0
      · rw [← hx]
        show ptr st ino.blks q = 0
        rcases hq with hq | ⟨i, _, hq⟩
        · rw [hq, pM, if_pos hd0]
        · rw [← hq, pL, if_pos hd0]
    · obtain ⟨hroot, hmid⟩ := h2 hd0
      have e1 : (ownDind img d (NDIRECT + NBLKBLK)).map pairOf =
          (NDIRECT + NBLKBLK, d) :: ((indOf img d).flatMap fun jq => ownInd img jq.2 (NDIRECT + NBLKBLK + jq.1 * NBLKBLK)).map pairOf := by
        simp only [ownDind, if_neg hd0, List.map_cons]
        rfl
      have e2 : (firstBn Pos.droot, ptr st ino.blks Pos.droot) = (NDIRECT + NBLKBLK, d) := by rw [pD]; rfl
      rw [e1, List.map_cons, e2, nzp_cons_ne _ (by exact hd0), hroot]
      apply congrArg
      unfold indEntries
      rw [hR]
      have key : ∀ (r : List Nat), (∀ j ∈ r, j < NBLKBLK) →
          ((r.filterMap fun i => if st d i = 0 then none else some (i, st d i)).flatMap
              fun jq => ownInd img jq.2 (NDIRECT + NBLKBLK + jq.1 * NBLKBLK)).map pairOf =
            nzp ((r.flatMap fun j => Pos.dmid j :: R.map (Pos.dleaf j)).map fun p => (firstBn p, ptr st ino.blks p)) := by
        intro r hr
        induction r with
        | nil => rfl
        | cons j r ih =>
          have ih := ih (fun x hx => hr x (List.mem_cons_of_mem _ hx))
          have hjlt := hr j (List.mem_cons_self ..)
          rw [List.flatMap_cons, List.map_append, nzp_append]
          by_cases hj : st d j = 0
          · rw [List.filterMap_cons]
            simp only [if_pos hj]
            rw [ih]
            have : nzp ((Pos.dmid j :: R.map (Pos.dleaf j)).map fun p => (firstBn p, ptr st ino.blks p)) = [] := by
              apply nzp_zeros
              intro x hx
              simp only [List.map_cons, List.mem_cons, List.mem_map] at hx
              rcases hx with hx | ⟨q, ⟨i, _, hq⟩, hx⟩
              · rw [hx]; show ptr st ino.blks (Pos.dmid j) = 0; rw [pM, if_neg hd0]; exact hj
              · rw [← hx, ← hq]; show ptr st ino.blks (Pos.dleaf j i) = 0; rw [pL, if_neg hd0, if_pos hj]
            rw [this, List.nil_append]
          · rw [List.filterMap_cons]
            simp only [if_neg hj]
            rw [List.flatMap_cons, List.map_append, ih]
            apply congrArg (· ++ _)
            rw [ownInd_pairs img st _ _ R (fun _ => by rw [hmid j hjlt hj]; exact hent _ _)]
            rw [List.map_cons, List.map_map]
            have ebase : NDIRECT + NBLKBLK + j * NBLKBLK = firstBn (Pos.dmid j) := by
              simp only [firstBn]; rw [Nat.mul_comm]
            have em : (firstBn (Pos.dmid j), ptr st ino.blks (Pos.dmid j)) = (NDIRECT + NBLKBLK + j * NBLKBLK, st d j) := by
              rw [pM, if_neg hd0, ebase]
            rw [em]
            apply congrArg
            apply congrArg
            apply List.map_congr_left
            intro i _
            simp only [Function.comp, pL, if_neg hd0, if_neg hj, firstBn]
            rw [Nat.mul_comm j NBLKBLK]
      exact key R hRlt
  rw [eA, eB, eC]

/-- ... hence the checker's size clause for the blocks of a file — no block at or beyond
    `max(⌈size/4096⌉, ShrinkSize)` — is the model's `EmptyFrom` (the bookkeeping invariant `InoOK`) -/
theorem owned_below_bound (img : Image) (st : Store) (ino : DInode) (hl : ino.blks.length = NDIRECT + 2)
    (h : IndOK img st ino.blks) (he : EmptyFrom st ino.blks (Fsck.bound ino)) :
    (owned img ino).all (fun o => decide (o.minIdx < Fsck.bound ino)) = true := by
  rw [List.all_eq_true]
  intro o ho
  have hm : pairOf o ∈ (owned img ino).map pairOf := List.mem_map.mpr ⟨o, ho, rfl⟩
  rw [owned_pairs img st ino hl h] at hm
  obtain ⟨h1, h2⟩ := mem_nzp hm
  obtain ⟨p, hp, hpe⟩ := List.mem_map.mp h1
  have hidx : firstBn p = o.minIdx := by have := congrArg Prod.fst hpe; exact this
  have hblk : ptr st ino.blks p = o.blk := by have := congrArg Prod.snd hpe; exact this
  apply decide_eq_true
  apply Classical.byContradiction
  intro hge
  have := he p (posList_valid p hp) (by rw [hidx]; omega)
  rw [hblk] at this
  exact h2 this

end GoNfsd.Model.BlockMap

import GoNfsd.Lemmas.MultiTree
import GoNfsd.Lemmas.ShrinkTouch

/-! M7 for many files, the other half: truncating one file (the run of `Shrink`) keeps "no block
    has two owners" across files, moves no pointer of another file, and what it frees belongs to
    nobody and is all zeros — so the allocator may hand it to any file (`mrecycle`). -/
namespace GoNfsd.Model.BlockMap
open GoNfsd.Gen.Consts

theorem mshrink_ok (s : S) (roots : Nat → List Nat) (a T N : Nat) (h : MWF s roots)
    (hN : N ≤ MAXBLKS) (hemp : EmptyFrom s.st (roots a) N) :
    MWF (shrinkTo s (roots a) T N).1 (setRoots roots a (shrinkTo s (roots a) T N).2) ∧
    (∀ b, b ≠ a → ∀ q, q.valid → ptr (shrinkTo s (roots a) T N).1.st (roots b) q = ptr s.st (roots b) q) ∧
    (∀ x, x ∈ (shrinkTo s (roots a) T N).1.freed → x ∉ s.freed →
      x ≠ 0 ∧ (∀ f p, p.valid → ptr (shrinkTo s (roots a) T N).1.st (setRoots roots a (shrinkTo s (roots a) T N).2 f) p ≠ x) ∧
      ∀ i, (shrinkTo s (roots a) T N).1.st x i = 0) := by
  have hinjB : InjB s.st (roots a) := (h.file a).injR
  obtain ⟨o1, o2, o3, o4, o5⟩ := shrinkTo_ok T N s (roots a) (h.len a) hinjB hN hemp
  -- no other file's tree reads a cell that changed
  have hframe : ∀ b, b ≠ a → ∀ q, q.valid → ptr (shrinkTo s (roots a) T N).1.st (roots b) q = ptr s.st (roots b) q := by
    intro b hb
    apply ptr_congr
    intro P hPv _ hPne x
    apply Classical.byContradiction
    intro hc
    obtain ⟨hy0, P', hP'v, hPy⟩ := shrinkTo_touch T N s (roots a) (h.len a) hinjB hN hemp _ x hc
    exact hb (h.inj a b P' P hP'v hPv (by rw [hPy]; exact hy0) hPy).1.symm
  -- the pointers of file a afterwards
  have hptra : ∀ p, p.valid → ptr (shrinkTo s (roots a) T N).1.st (shrinkTo s (roots a) T N).2 p ≠ 0 →
      ptr (shrinkTo s (roots a) T N).1.st (shrinkTo s (roots a) T N).2 p = ptr s.st (roots a) p ∧ ¬ T ≤ firstBn p := by
    intro p hp hne
    rw [o3 p hp] at hne ⊢
    by_cases ht : T ≤ firstBn p
    · rw [if_pos ht] at hne; exact absurd rfl hne
    · rw [if_neg ht]; exact ⟨rfl, ht⟩
  refine ⟨⟨?_, ?_, ?_, ?_⟩, hframe, ?_⟩
  · intro x
    unfold setRoots
    by_cases hx : x = a
    · simp only [hx, if_true]; exact o1
    · simp only [hx, if_false]; exact h.len x
  · intro x y p q hp hq hne he
    unfold setRoots at hne he
    by_cases hx : x = a <;> by_cases hy : y = a
    · subst hx; subst hy
      simp only [if_true] at hne he
      exact ⟨rfl, o2 p q hp hq (by rw [← ptr_eq_ptrR]; exact hne) (by rw [← ptr_eq_ptrR, ← ptr_eq_ptrR]; exact he)⟩
    · subst hx
      simp only [if_true, hy, if_false] at hne he
      rw [hframe y hy q hq] at he
      obtain ⟨e1, _⟩ := hptra p hp hne
      rw [e1] at he hne
      exact absurd (h.inj x y p q hp hq hne he).1 (Ne.symm hy)
    · subst hy
      simp only [if_true, hx, if_false] at hne he
      rw [hframe x hx p hp] at hne he
      have hne' : ptr (shrinkTo s (roots y) T N).1.st (shrinkTo s (roots y) T N).2 q ≠ 0 := by rw [← he]; exact hne
      obtain ⟨e1, _⟩ := hptra q hq hne'
      rw [e1] at he
      exact absurd (h.inj x y p q hp hq hne he).1 hx
    · simp only [hx, hy, if_false] at hne he
      rw [hframe x hx p hp] at hne he
      rw [hframe y hy q hq] at he
      exact h.inj x y p q hp hq hne he
  · intro x hx hx0
    rw [o5] at hx
    obtain ⟨f1, f2⟩ := h.fresh x hx hx0
    refine ⟨?_, ?_⟩
    · intro f p hp
      unfold setRoots
      by_cases hf : f = a
      · simp only [hf, if_true]
        intro e
        have hne : ptr (shrinkTo s (roots a) T N).1.st (shrinkTo s (roots a) T N).2 p ≠ 0 := by rw [e]; exact hx0
        obtain ⟨e1, _⟩ := hptra p hp hne
        rw [e1] at e
        exact f1 a p hp e
      · simp only [hf, if_false]
        rw [hframe f hf p hp]
        exact f1 f p hp
    · intro i
      rcases shrinkTo_cells T N s (roots a) x i with e | e
      · rw [e]; exact f2 i
      · exact e
  · rw [o5]; exact h.distinct
  · intro x hx hnew
    obtain ⟨hx0, q, hq, hTq, hpq⟩ : x ≠ 0 ∧ ∃ q, q.valid ∧ T ≤ firstBn q ∧ ptr s.st (roots a) q = x := by
      rcases (o4 x).1 hx with h1 | h1
      · exact absurd h1 hnew
      · exact h1
    refine ⟨hx0, ?_, ?_⟩
    · intro f p hp
      unfold setRoots
      by_cases hf : f = a
      · simp only [hf, if_true]
        intro e
        have hne : ptr (shrinkTo s (roots a) T N).1.st (shrinkTo s (roots a) T N).2 p ≠ 0 := by rw [e]; exact hx0
        obtain ⟨e1, hnt⟩ := hptra p hp hne
        rw [e1, ← hpq] at e
        have := (h.inj a a p q hp hq (by rw [e, hpq]; exact hx0) e).2
        rw [this] at hnt
        exact hnt hTq
      · simp only [hf, if_false]
        rw [hframe f hf p hp]
        intro e
        rw [← hpq] at e
        exact hf (h.inj f a p q hp hq (by rw [e, hpq]; exact hx0) e).1
    · rcases shrinkTo_freed_zero T N s (roots a) x hx with h1 | h1
      · exact absurd h1 hnew
      · exact h1

/-- what was freed may be handed out again, to any file -/
theorem mrecycle (s : S) (roots : Nat → List Nat) (L : List Nat) (h : MWF s roots)
    (hL : ∀ x ∈ L, x ≠ 0 → (∀ f p, p.valid → ptr s.st (roots f) p ≠ x) ∧ ∀ i, s.st x i = 0)
    (hd : DistinctNZ (s.allocs ++ L)) :
    MWF { s with allocs := s.allocs ++ L } roots := by
  refine ⟨h.len, h.inj, ?_, hd⟩
  intro x hx hx0
  simp only [List.mem_append] at hx
  rcases hx with hx | hx
  · exact h.fresh x hx hx0
  · exact hL x hx hx0

/-! ### histories: mappings, truncations and the reuse of freed blocks, on any files -/

inductive MOp where
  | map (a bn : Nat)             -- `bmap` of block `bn` of file `a`
  | shrink (a T N : Nat)         -- the run of `Shrink` on file `a` from `N` down to `T`
  | recycle (L : List Nat)       -- the allocator hands out again what `L` lists

def mapply (sr : S × (Nat → List Nat)) : MOp → S × (Nat → List Nat)
  | .map a bn => mstep sr (a, bn)
  | .shrink a T N => ((shrinkTo sr.1 (sr.2 a) T N).1, setRoots sr.2 a (shrinkTo sr.1 (sr.2 a) T N).2)
  | .recycle L => ({ sr.1 with allocs := sr.1.allocs ++ L }, sr.2)

/-- what each step needs: an addressable block; a truncation that starts at (or above) the file's
    bookkeeping bound (`InoOK` keeps that bound for every file: `Lemmas/InoOps`); a recycled block
    that no file owns, that is all zeros and that is not in the allocator already -/
def MValid : S × (Nat → List Nat) → List MOp → Prop
  | _, [] => True
  | sr, op :: rest =>
    (match op with
      | .map _ bn => bn < NDIRECT + NBLKBLK + NBLKBLK * NBLKBLK
      | .shrink a _ N => N ≤ MAXBLKS ∧ EmptyFrom sr.1.st (sr.2 a) N
      | .recycle L =>
        (∀ x ∈ L, x ≠ 0 → (∀ f p, p.valid → ptr sr.1.st (sr.2 f) p ≠ x) ∧ ∀ i, sr.1.st x i = 0) ∧
        DistinctNZ (sr.1.allocs ++ L)) ∧
    MValid (mapply sr op) rest

/-- NO BLOCK HAS TWO OWNERS, whatever the history: any number of files, any interleaving of block
    mappings, truncations and reuse of freed blocks -/
theorem mhistory_wf (ops : List MOp) : ∀ (sr : S × (Nat → List Nat)), MWF sr.1 sr.2 → MValid sr ops →
    MWF (ops.foldl mapply sr).1 (ops.foldl mapply sr).2 := by
  induction ops with
  | nil => intro sr h _; exact h
  | cons op rest ih =>
    intro sr h hv
    simp only [List.foldl_cons]
    obtain ⟨hop, hrest⟩ := hv
    refine ih _ ?_ hrest
    cases op with
    | map a bn => exact (mbmap_ok sr.1 sr.2 a bn h hop).1
    | shrink a T N => exact (mshrink_ok sr.1 sr.2 a T N h hop.1 hop.2).1
    | recycle L => exact mrecycle sr.1 sr.2 L h hop.1 hop.2

end GoNfsd.Model.BlockMap

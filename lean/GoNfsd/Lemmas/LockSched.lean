import GoNfsd.Model.LockSched

/-! Lemmas about M10c: the invariant is kept, the measure falls at every step, and some
    transaction can always take the step it is waiting for. -/
namespace GoNfsd.Model.LockSched

theorem sum_map_set {α : Type} (f : α → Nat) (l : List α) (i : Nat) (t x : α) (h : l[i]? = some t) :
    ((l.set i x).map f).sum + f t = (l.map f).sum + f x := by
  induction l generalizing i with
  | nil => simp at h
  | cons a rest ih =>
    cases i with
    | zero =>
      simp at h; subst h
      simp only [List.set, List.map, List.sum_cons]; omega
    | succ j =>
      simp at h
      have := ih j h
      simp only [List.set, List.map, List.sum_cons]; omega

theorem mem_set {α : Type} (l : List α) (i : Nat) (x y : α) (h : y ∈ l.set i x) : y = x ∨ y ∈ l := by
  induction l generalizing i with
  | nil => simp at h
  | cons a rest ih =>
    cases i with
    | zero => simp [List.set] at h; rcases h with h | h; exact Or.inl h; exact Or.inr (List.mem_cons_of_mem _ h)
    | succ j =>
      simp [List.set] at h
      rcases h with h | h
      · exact Or.inr (by simp [h])
      · rcases ih j h with h | h
        · exact Or.inl h
        · exact Or.inr (List.mem_cons_of_mem _ h)

/-- what a step does, case by case -/
inductive StepShape (L : Nat) (s : Sys) (i : Nat) (t : Tx) : Act → Sys → Prop where
  | acquire (n : Nat) (rest : List Nat) (ht : t.todo = n :: rest) (hfree : heldByAny s.txs n = false) :
      StepShape L s i t .acquire { s with txs := s.txs.set i { t with held := n :: t.held, todo := rest } }
  | finish :
      StepShape L s i t .finish { txs := s.txs.set i { t with held := [], todo := [], fin := true }, commits := s.commits + 1 }
  | charged (plan : List Nat) (hp : plan.Pairwise (· < ·)) (hl : plan.length ≤ L) (hs : t.seen < s.commits) :
      StepShape L s i t (.restart plan) { s with txs := s.txs.set i { t with held := [], todo := plan, seen := s.commits } }
  | budget (plan : List Nat) (hp : plan.Pairwise (· < ·)) (hl : plan.length ≤ L) (hs : ¬ t.seen < s.commits) (hf : 0 < t.free) :
      StepShape L s i t (.restart plan) { s with txs := s.txs.set i { t with held := [], todo := plan, free := t.free - 1 } }

theorem step_shape (L : Nat) (s s' : Sys) (i : Nat) (a : Act) (h : step L s i a = some s') :
    ∃ t, s.txs[i]? = some t ∧ t.fin = false ∧ StepShape L s i t a s' := by
  unfold step at h
  cases ht : s.txs[i]? with
  | none => simp [ht] at h
  | some t =>
    simp only [ht] at h
    by_cases hfin : t.fin = true
    · rw [if_pos hfin] at h; simp at h
    · rw [if_neg hfin] at h
      have hfin' : t.fin = false := by simpa using hfin
      refine ⟨t, rfl, hfin', ?_⟩
      cases a with
      | acquire =>
        simp only at h
        cases htd : t.todo with
        | nil => rw [htd] at h; simp at h
        | cons n rest =>
          rw [htd] at h
          simp only at h
          by_cases hh : heldByAny s.txs n = true
          · rw [if_pos hh] at h; simp at h
          · rw [if_neg hh] at h
            injection h with h
            subst h
            exact .acquire n rest htd (by simpa using hh)
      | finish =>
        simp only at h
        injection h with h
        subst h
        exact .finish
      | restart plan =>
        simp only at h
        by_cases hp : plan.Pairwise (· < ·) ∧ plan.length ≤ L
        · rw [if_pos hp] at h
          by_cases hs : t.seen < s.commits
          · rw [if_pos hs] at h
            injection h with h; subst h
            exact .charged plan hp.1 hp.2 hs
          · rw [if_neg hs] at h
            by_cases hf : 0 < t.free
            · rw [if_pos hf] at h
              injection h with h; subst h
              exact .budget plan hp.1 hp.2 hs hf
            · rw [if_neg hf] at h; simp at h
        · rw [if_neg hp] at h; simp at h

/-! ### the invariant -/

theorem TxOK_mono (L c c' : Nat) (t : Tx) (h : TxOK L c t) (hc : c ≤ c') : TxOK L c' t :=
  ⟨h.1, h.2.1, h.2.2.1, Nat.le_trans h.2.2.2.1 hc, h.2.2.2.2⟩

theorem step_inv (L : Nat) (s s' : Sys) (i : Nat) (a : Act) (hi : Inv L s) (h : step L s i a = some s') :
    Inv L s' := by
  obtain ⟨t, hti, hfin, sh⟩ := step_shape L s s' i a h
  have htm : t ∈ s.txs := List.mem_of_getElem? hti
  have ht := hi t htm
  cases sh with
  | acquire n rest htd hfree =>
    intro y hy
    rcases mem_set _ _ _ _ hy with hy | hy
    · subst hy
      have hpw : (n :: rest).Pairwise (· < ·) := htd ▸ ht.1
      rw [List.pairwise_cons] at hpw
      refine ⟨hpw.2, ?_, ?_, ht.2.2.2.1, ?_⟩
      · intro h hh w hw
        simp at hh
        rcases hh with hh | hh
        · subst hh; exact hpw.1 w hw
        · exact ht.2.1 h hh w (by rw [htd]; exact List.mem_cons_of_mem _ hw)
      · intro hf; simp [hfin] at hf
      · have := ht.2.2.2.2; rw [htd] at this; simp at this ⊢; omega
    · exact hi y hy
  | finish =>
    intro y hy
    rcases mem_set _ _ _ _ hy with hy | hy
    · subst hy
      exact ⟨by simp, by simp, by simp, Nat.le_succ_of_le ht.2.2.2.1, by simp⟩
    · exact TxOK_mono L _ _ y (hi y hy) (Nat.le_succ _)
  | charged plan hp hl hs =>
    intro y hy
    rcases mem_set _ _ _ _ hy with hy | hy
    · subst hy
      exact ⟨hp, by simp, by simp [hfin], Nat.le_refl _, hl⟩
    · exact hi y hy
  | budget plan hp hl hs hf =>
    intro y hy
    rcases mem_set _ _ _ _ hy with hy | hy
    · subst hy
      exact ⟨hp, by simp, by simp [hfin], ht.2.2.2.1, hl⟩
    · exact hi y hy

theorem run_inv (L : Nat) (sched : List (Nat × Act)) (s s' : Sys) (hi : Inv L s)
    (h : run L s sched = some s') : Inv L s' := by
  induction sched generalizing s with
  | nil => simp [run] at h; subst h; exact hi
  | cons p rest ih =>
    obtain ⟨i, a⟩ := p
    simp only [run] at h
    cases hs : step L s i a with
    | none => simp [hs] at h
    | some s1 =>
      simp [hs] at h
      exact ih s1 (step_inv L s s1 i a hi hs) h

/-! ### the measure -/

theorem live_of (t : Tx) (h : t.fin = false) : live t = 1 := by simp [live, h]

theorem step_cap (L : Nat) (s s' : Sys) (i : Nat) (a : Act) (h : step L s i a = some s') : cap s' = cap s := by
  obtain ⟨t, hti, hfin, sh⟩ := step_shape L s s' i a h
  have e1 := live_of t hfin
  cases sh with
  | acquire n rest htd hfree =>
    have := sum_map_set live s.txs i t { t with held := n :: t.held, todo := rest } hti
    rw [e1, live_of _ (by exact hfin)] at this
    simp only [cap, notfin]
    omega
  | finish =>
    have := sum_map_set live s.txs i t { t with held := [], todo := [], fin := true } hti
    have e2 : live { t with held := [], todo := [], fin := true } = 0 := by simp [live]
    rw [e1, e2] at this
    simp only [cap, notfin]
    omega
  | charged plan hp hl hs =>
    have := sum_map_set live s.txs i t { t with held := [], todo := plan, seen := s.commits } hti
    rw [e1, live_of _ (by exact hfin)] at this
    simp only [cap, notfin]
    omega
  | budget plan hp hl hs hf =>
    have := sum_map_set live s.txs i t { t with held := [], todo := plan, free := t.free - 1 } hti
    rw [e1, live_of _ (by exact hfin)] at this
    simp only [cap, notfin]
    omega

theorem weight_live (L c : Nat) (t : Tx) (h : t.fin = false) :
    weight L c t = (c - t.seen + t.free) * (L + 1) + t.todo.length + 1 := by simp [weight, h]

theorem step_mu (L : Nat) (s s' : Sys) (i : Nat) (a : Act) (h : step L s i a = some s') :
    mu L s' < mu L s := by
  have hc := step_cap L s s' i a h
  obtain ⟨t, hti, hfin, sh⟩ := step_shape L s s' i a h
  unfold mu
  rw [hc]
  have hcap : s.commits ≤ cap s := by simp [cap]
  generalize cap s = c at hcap ⊢
  have w1 := weight_live L c t hfin
  cases sh with
  | acquire n rest htd hfree =>
    have := sum_map_set (weight L c) s.txs i t { t with held := n :: t.held, todo := rest } hti
    have w2 : weight L c { t with held := n :: t.held, todo := rest } = (c - t.seen + t.free) * (L + 1) + rest.length + 1 :=
      weight_live L c { t with held := n :: t.held, todo := rest } hfin
    rw [w1, w2, htd] at this
    simp only [List.length_cons] at this
    show (List.map (weight L c) (s.txs.set i _)).sum < _
    omega
  | finish =>
    have := sum_map_set (weight L c) s.txs i t { t with held := [], todo := [], fin := true } hti
    have w2 : weight L c { t with held := [], todo := [], fin := true } = 0 := by simp [weight]
    rw [w1, w2] at this
    show (List.map (weight L c) (s.txs.set i _)).sum < _
    omega
  | charged plan hp hl hs =>
    have := sum_map_set (weight L c) s.txs i t { t with held := [], todo := plan, seen := s.commits } hti
    have w2 : weight L c { t with held := [], todo := plan, seen := s.commits } = (c - s.commits + t.free) * (L + 1) + plan.length + 1 :=
      weight_live L c { t with held := [], todo := plan, seen := s.commits } hfin
    rw [w1, w2] at this
    -- c - seen = (c - commits) + (commits - seen), the second part is at least one
    obtain ⟨d, hd⟩ : ∃ d, c - t.seen + t.free = (c - s.commits + t.free) + (d + 1) := ⟨s.commits - t.seen - 1, by omega⟩
    rw [hd, Nat.add_mul, Nat.succ_mul] at this
    show (List.map (weight L c) (s.txs.set i _)).sum < _
    generalize (c - s.commits + t.free) * (L + 1) = A at this
    generalize d * (L + 1) = B at this
    omega
  | budget plan hp hl hs hf =>
    have := sum_map_set (weight L c) s.txs i t { t with held := [], todo := plan, free := t.free - 1 } hti
    have w2 : weight L c { t with held := [], todo := plan, free := t.free - 1 } = (c - t.seen + (t.free - 1)) * (L + 1) + plan.length + 1 :=
      weight_live L c { t with held := [], todo := plan, free := t.free - 1 } hfin
    rw [w1, w2] at this
    obtain ⟨f, hf'⟩ : ∃ f, t.free = f + 1 := ⟨t.free - 1, by omega⟩
    have e2 : c - t.seen + t.free = (c - t.seen + (t.free - 1)) + 1 := by omega
    rw [e2, Nat.succ_mul] at this
    show (List.map (weight L c) (s.txs.set i _)).sum < _
    generalize (c - t.seen + (t.free - 1)) * (L + 1) = A at this
    omega

theorem run_mu (L : Nat) (sched : List (Nat × Act)) (s s' : Sys) (h : run L s sched = some s') :
    sched.length + mu L s' ≤ mu L s := by
  induction sched generalizing s with
  | nil => simp [run] at h; subst h; simp
  | cons p rest ih =>
    obtain ⟨i, a⟩ := p
    simp only [run] at h
    cases hs : step L s i a with
    | none => simp [hs] at h
    | some s1 =>
      simp [hs] at h
      have := ih s1 h
      have := step_mu L s s1 i a hs
      simp; omega

/-! ### progress -/

/-- the request a live transaction is blocked on (0 if it has none) -/
def nextReq (t : Tx) : Nat := t.todo.headD 0

theorem exists_max {α : Type} (l : List α) (f : α → Nat) (h : l ≠ []) :
    ∃ x ∈ l, ∀ y ∈ l, f y ≤ f x := by
  induction l with
  | nil => exact absurd rfl h
  | cons a rest ih =>
    by_cases hr : rest = []
    · subst hr; exact ⟨a, by simp, by intro y hy; simp at hy; subst hy; exact Nat.le_refl _⟩
    · obtain ⟨x, hx, hmax⟩ := ih hr
      by_cases hc : f x ≤ f a
      · refine ⟨a, by simp, ?_⟩
        intro y hy
        simp at hy
        rcases hy with hy | hy
        · subst hy; exact Nat.le_refl _
        · exact Nat.le_trans (hmax y hy) hc
      · refine ⟨x, List.mem_cons_of_mem _ hx, ?_⟩
        intro y hy
        simp at hy
        rcases hy with hy | hy
        · subst hy; omega
        · exact hmax y hy

theorem progress (L : Nat) (s : Sys) (hi : Inv L s) (hl : ∃ t ∈ s.txs, t.fin = false) :
    ∃ i t, s.txs[i]? = some t ∧ t.fin = false ∧ (step L s i (wanted t)).isSome = true := by
  by_cases hex : ∃ t ∈ s.txs, t.fin = false ∧ t.todo = []
  · -- somebody has all its locks: it can finish
    obtain ⟨t, htm, htf, htd⟩ := hex
    obtain ⟨i, hti⟩ := List.mem_iff_getElem?.mp htm
    exact ⟨i, t, hti, htf, by simp [wanted, htd, step, hti, htf]⟩
  · -- everybody alive asks for a lock: the one asking for the highest gets it
    obtain ⟨t0, ht0, hf0⟩ := hl
    have hne : s.txs.filter (fun t => !t.fin) ≠ [] := by
      intro he
      have : t0 ∈ s.txs.filter (fun t => !t.fin) := by simp [List.mem_filter, ht0, hf0]
      rw [he] at this; simp at this
    obtain ⟨t, htA, hmax⟩ := exists_max _ nextReq hne
    simp [List.mem_filter] at htA
    obtain ⟨htm, htf⟩ := htA
    obtain ⟨i, hti⟩ := List.mem_iff_getElem?.mp htm
    refine ⟨i, t, hti, htf, ?_⟩
    cases htd : t.todo with
    | nil => exact absurd ⟨t, htm, htf, htd⟩ hex
    | cons n rest =>
      have hw : wanted t = .acquire := by simp [wanted, htd]
      rw [hw]
      cases hh : heldByAny s.txs n with
      | false => simp [step, hti, htf, htd, hh]
      | true =>
        exfalso
        simp [heldByAny] at hh
        obtain ⟨u, hum, hnu⟩ := hh
        have hu := hi u hum
        have huf : u.fin = false := by
          cases h : u.fin with
          | false => rfl
          | true => have := (hu.2.2.1 h).1; rw [this] at hnu; simp at hnu
        have huA : u ∈ s.txs.filter (fun t => !t.fin) := by simp [List.mem_filter, hum, huf]
        have hle := hmax u huA
        have hnt : nextReq t = n := by simp [nextReq, htd]
        cases hud : u.todo with
        | nil => exact absurd ⟨u, hum, huf, hud⟩ hex
        | cons w' r' =>
          have h1 : n < w' := hu.2.1 n hnu w' (by rw [hud]; simp)
          have h2 : nextReq u = w' := by simp [nextReq, hud]
          omega

/-! ### an explicit bound on the measure -/

theorem sum_le_of_all {α : Type} (f : α → Nat) (l : List α) (B : Nat) (h : ∀ x ∈ l, f x ≤ B) :
    (l.map f).sum ≤ l.length * B := by
  induction l with
  | nil => simp
  | cons a rest ih =>
    have h1 := h a (by simp)
    have h2 := ih (fun x hx => h x (List.mem_cons_of_mem _ hx))
    simp only [List.map, List.sum_cons, List.length_cons, Nat.succ_mul]
    omega

theorem mu_le (L F : Nat) (s : Sys) (h : ∀ t ∈ s.txs, t.free ≤ F ∧ t.todo.length ≤ L) :
    mu L s ≤ s.txs.length * ((cap s + F) * (L + 1) + L + 1) := by
  apply sum_le_of_all
  intro t ht
  obtain ⟨h1, h2⟩ := h t ht
  unfold weight
  split
  · exact Nat.zero_le _
  · have : (cap s - t.seen + t.free) * (L + 1) ≤ (cap s + F) * (L + 1) :=
      Nat.mul_le_mul_right _ (by omega)
    omega

instance (L c : Nat) (t : Tx) : Decidable (TxOK L c t) := by unfold TxOK; infer_instance
instance (L : Nat) (s : Sys) : Decidable (Inv L s) := by unfold Inv; infer_instance

end GoNfsd.Model.LockSched

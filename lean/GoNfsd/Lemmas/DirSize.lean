/- The size of a directory of M6 is its number of slots times the slot size, and a live directory never loses slots. -/
import GoNfsd.Lemmas.Refs

namespace GoNfsd.Model.Fs
open GoNfsd.Gen.Consts

def DirSizeOK (x : Inode) : Prop := x.kind = NF3DIR → x.size = x.slots.length * DIRENTSZ

def AllDirSizeOK (s : FS) : Prop := ∀ i, DirSizeOK (s.get i)

theorem putSlot_length (slots : List Slot) (i : Nat) (x : Slot) : slots.length ≤ (putSlot slots i x).length := by
  unfold putSlot; split <;> simp

theorem freshInode_dirsize (kind gen inum parent : Nat) (t : Array UInt8) :
    (freshInode kind gen inum parent t).kind = NF3DIR →
      (freshInode kind gen inum parent t).size = (freshInode kind gen inum parent t).slots.length * DIRENTSZ := by
  unfold freshInode
  split
  · intro _; simp
  · split
    · rename_i h1 h2; intro h; simp only at h; exact absurd h h1
    · rename_i h1 h2; intro h; simp only at h; exact absurd h h1

theorem addName_dirsize (d d' : Inode) (slot inum : Nat) (name : Bytes) (h : addName d slot inum name = some d') :
    d'.size = d'.slots.length * DIRENTSZ ∧ d'.kind = d.kind := by
  unfold addName at h
  split at h
  · cases h
  · split at h
    · cases h
    · simp only [Option.some.injEq] at h; subst h; exact ⟨rfl, rfl⟩

theorem doCreate_dirsize (s : FS) (c : Choice) (dfh name : Bytes) (kind : Nat) (t : Array UInt8) (i : Nat)
    (h : AllDirSizeOK s) : DirSizeOK ((doCreate s c dfh name kind t).1.get i) := by
  have hi := h i
  unfold doCreate
  unfold AllDirSizeOK DirSizeOK at *
  grind (splits := 40) [get_set, addName_dirsize, freshInode_dirsize]

theorem doRemove_dirsize (s : FS) (dfh name : Bytes) (isdir : Bool) (i : Nat)
    (h : AllDirSizeOK s) : DirSizeOK ((doRemove s dfh name isdir).1.get i) := by
  have hi := h i
  unfold doRemove
  unfold AllDirSizeOK DirSizeOK at *
  grind (splits := 40) [get_set, remNameAt, freeInode, NF3DIR, List.length_set]

theorem unlinkTarget_dirsize (s s1 : FS) (td fino : Nat) (toL : Option (Nat × Nat)) (i : Nat)
    (hu : unlinkTarget s td fino toL = some s1) (h : AllDirSizeOK s) : DirSizeOK (s1.get i) := by
  have hi := h i
  unfold unlinkTarget at hu
  unfold AllDirSizeOK DirSizeOK at *
  grind (splits := 40) [get_set, remNameAt, freeInode, NF3DIR, List.length_set]

theorem moveName_dirsize (s1 s3 : FS) (c : Choice) (fd fidx td fino : Nat) (tname : Bytes) (r : Reply) (i : Nat)
    (hm : moveName s1 c fd fidx td fino tname = some (s3, r)) (h : AllDirSizeOK s1) : DirSizeOK (s3.get i) := by
  have hi := h i
  unfold moveName at hm
  unfold AllDirSizeOK DirSizeOK at *
  grind (splits := 40) [get_set, remNameAt, addName_dirsize, List.length_set]

theorem doRename_dirsize (s : FS) (c : Choice) (ffh fname tfh tname : Bytes) (i : Nat)
    (h : AllDirSizeOK s) : DirSizeOK ((doRename s c ffh fname tfh tname).1.get i) := by
  unfold doRename
  split
  · exact h i
  · split
    · exact h i
    · split
      · exact h i
      · split
        · exact h i
        · split
          · exact h i
          · split
            · exact h i
            · rename_i s1 hs1
              split
              · exact h i
              · exact h i
              · rename_i s3 r hne hm
                have h1 : AllDirSizeOK s1 := fun j => unlinkTarget_dirsize _ _ _ _ _ j hs1 h
                exact moveName_dirsize _ _ _ _ _ _ _ _ _ i hm h1

theorem step_dirsize (s : FS) (op : Op) (c : Choice) (i : Nat) (h : AllDirSizeOK s) :
    DirSizeOK ((step s op c).1.get i) := by
  have hi := h i
  cases op <;> simp only [step]
  case create dfh name mode =>
    split
    · exact hi
    · exact doCreate_dirsize _ _ _ _ _ _ _ h
  case mkdir => exact doCreate_dirsize _ _ _ _ _ _ _ h
  case symlink => exact doCreate_dirsize _ _ _ _ _ _ _ h
  case remove => exact doRemove_dirsize _ _ _ _ _ h
  case rmdir => exact doRemove_dirsize _ _ _ _ _ h
  case rename => exact doRename_dirsize _ _ _ _ _ _ _ h
  all_goals (unfold AllDirSizeOK DirSizeOK at *; grind (splits := 40) [get_set, resize, NF3REG, NF3DIR])

theorem run_dirsize (s : FS) (ops : List (Op × Choice)) (h : AllDirSizeOK s) : AllDirSizeOK (run s ops).1 := by
  induction ops generalizing s with
  | nil => exact h
  | cons x rest ih =>
    obtain ⟨op, c⟩ := x
    simp only [run]
    exact ih _ (fun i => step_dirsize s op c i h)

theorem mkfs_dirsize (u : Bool) (sz : Nat) : AllDirSizeOK (mkfs u sz) := by
  intro i
  simp only [mkfs, FS.get, DirSizeOK]
  split
  · intro _; simp
  · intro h; simp [NF3DIR] at h

/-! ### a live directory never loses slots -/

def Grows (a b : Inode) : Prop := b.kind = 0 ∨ a.slots.length ≤ b.slots.length

theorem addName_grows (d d' : Inode) (slot inum : Nat) (name : Bytes) (h : addName d slot inum name = some d') :
    d.slots.length ≤ d'.slots.length := by
  unfold addName at h
  split at h
  · cases h
  · split at h
    · cases h
    · simp only [Option.some.injEq] at h; subst h; exact putSlot_length _ _ _

theorem doCreate_grows (s : FS) (c : Choice) (dfh name : Bytes) (kind : Nat) (t : Array UInt8) (i : Nat)
    (hl : (s.get i).kind ≠ 0) : Grows (s.get i) ((doCreate s c dfh name kind t).1.get i) := by
  unfold doCreate Grows
  grind (splits := 40) [get_set, → addName_grows]

theorem doRemove_grows (s : FS) (dfh name : Bytes) (isdir : Bool) (i : Nat) :
    Grows (s.get i) ((doRemove s dfh name isdir).1.get i) := by
  unfold doRemove Grows
  grind (splits := 40) [get_set, remNameAt, freeInode, List.length_set]

theorem unlinkTarget_grows (s s1 : FS) (td fino : Nat) (toL : Option (Nat × Nat)) (i : Nat)
    (hu : unlinkTarget s td fino toL = some s1) : Grows (s.get i) (s1.get i) := by
  unfold unlinkTarget at hu
  unfold Grows
  grind (splits := 40) [get_set, remNameAt, freeInode, List.length_set]

theorem moveName_grows (s1 s3 : FS) (c : Choice) (fd fidx td fino : Nat) (tname : Bytes) (r : Reply) (i : Nat)
    (hm : moveName s1 c fd fidx td fino tname = some (s3, r)) : (s1.get i).slots.length ≤ (s3.get i).slots.length := by
  unfold moveName at hm
  grind (splits := 40) [get_set, remNameAt, → addName_grows, List.length_set]

theorem doRename_grows (s : FS) (c : Choice) (ffh fname tfh tname : Bytes) (i : Nat) :
    Grows (s.get i) ((doRename s c ffh fname tfh tname).1.get i) := by
  unfold doRename
  split
  · exact Or.inr (Nat.le_refl _)
  · split
    · exact Or.inr (Nat.le_refl _)
    · split
      · exact Or.inr (Nat.le_refl _)
      · split
        · exact Or.inr (Nat.le_refl _)
        · split
          · exact Or.inr (Nat.le_refl _)
          · split
            · exact Or.inr (Nat.le_refl _)
            · rename_i s1 hs1
              split
              · exact Or.inr (Nat.le_refl _)
              · exact Or.inr (Nat.le_refl _)
              · rename_i s3 r hne hm
                have hk := (moveName_gen _ _ _ _ _ _ _ _ _ i hm).1
                have h2 := moveName_grows _ _ _ _ _ _ _ _ _ i hm
                rcases unlinkTarget_grows _ _ _ _ _ i hs1 with h1 | h1
                · exact Or.inl (by rw [hk]; exact h1)
                · exact Or.inr (Nat.le_trans h1 h2)

/-- A LIVE DIRECTORY NEVER LOSES SLOTS in one step (it may be freed as a whole) -/
theorem step_grows (s : FS) (op : Op) (c : Choice) (i : Nat) (hl : (s.get i).kind ≠ 0) :
    Grows (s.get i) ((step s op c).1.get i) := by
  cases op <;> simp only [step]
  case create dfh name mode =>
    split
    · exact Or.inr (Nat.le_refl _)
    · exact doCreate_grows _ _ _ _ _ _ _ hl
  case mkdir => exact doCreate_grows _ _ _ _ _ _ _ hl
  case symlink => exact doCreate_grows _ _ _ _ _ _ _ hl
  case remove => exact doRemove_grows _ _ _ _ _
  case rmdir => exact doRemove_grows _ _ _ _ _
  case rename => exact doRename_grows _ _ _ _ _ _ _
  all_goals (unfold Grows; grind (splits := 40) [get_set, resize])

end GoNfsd.Model.Fs

/- M8e ↔ M6: `mkDcache` is `ApplyEnts` (M6's `readdirPage`) with the callback `Dcache.Add`; with a budget that the
   directory's estimate stays below, it builds exactly the cache of `NameCache.build`; with the budget of seeded change
   C10k (the directory's size in bytes) it does not. -/
import GoNfsd.Lemmas.NameCache

namespace GoNfsd.Model.NameCache
open GoNfsd.Model.Fs GoNfsd.Gen.Consts

/-- `mkDcache` as the code has it: `ApplyEnts(dip, op, 0, count, func(name, inum, off) { Dcache.Add(name, inum, off) })`;
    `ApplyEnts` hands the callback the slot's offset, M6's listing carries the cookie (the offset of the next slot) -/
def buildFromPage (slots : List Slot) (count : Nat) : DC :=
  (readdirPage slots 0 count).2.foldl (fun dc e => dc.add e.1.name e.1.inum (e.2 / DIRENTSZ - 1)) {}

/-- what `ApplyEnts` adds to its estimate for the live entries of a list of slots -/
def cost : List Slot → Nat
  | [] => 0
  | s :: rest => (if s.inum = 0 then 0 else 16 + s.name.length + 8 + 8) + cost rest

theorem pageGo_builds (count : Nat) : ∀ (rest : List Slot) (idx a : Nat) (dc : DC), a + cost rest < count →
    (pageGo 0 count (count + 1) (fun l => 16 + l + 8 + 8) (fun _ => 0) rest idx a 0).2.foldl
      (fun dc e => dc.add e.1.name e.1.inum (e.2 / DIRENTSZ - 1)) dc = buildGo rest idx dc := by
  intro rest
  induction rest with
  | nil => intro idx a dc _; rfl
  | cons s rest ih =>
    intro idx a dc h
    simp only [cost] at h
    unfold pageGo
    simp only [Nat.not_lt_zero, false_or, buildGo]
    by_cases h0 : s.inum = 0
    · simp only [h0, if_true] at h ⊢
      exact ih (idx + 1) a dc (by omega)
    · simp only [h0, if_false] at h ⊢
      have h1 : ¬ (a + (16 + s.name.length + 8 + 8) ≥ count ∨ 0 + 0 ≥ count + 1) := by omega
      simp only [h1, if_false, List.foldl_cons]
      have hidx : (idx + 1) * DIRENTSZ / DIRENTSZ - 1 = idx := by
        simp [DIRENTSZ]
      rw [hidx]
      exact ih (idx + 1) (a + (16 + s.name.length + 8 + 8)) _ (by omega)

/-- WITH A BUDGET THE DIRECTORY'S ESTIMATE STAYS BELOW — the code passes 2^64−1 — `mkDcache` builds the cache that model
    M8e builds: every live slot, with its inode number and its slot index. -/
theorem mkDcache_with_enough_budget_is_build (slots : List Slot) (count : Nat) (h : 64 + cost slots < count) :
    buildFromPage slots count = build slots := by
  unfold buildFromPage readdirPage page build
  exact pageGo_builds count slots 0 64 {} h

end GoNfsd.Model.NameCache

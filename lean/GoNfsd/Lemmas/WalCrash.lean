/- The crash theorem of the write-ahead log model. -/
import GoNfsd.Lemmas.Wal

namespace GoNfsd.Model.Wal
open GoNfsd.Gen.Consts

variable {α : Type}

/-- what recovery reads from a crash state of a reachable protocol state is exactly the
    updates with positions in [start, end) -/
theorem recovered_eq_seg (s : St) (U : Nat → Upd α) (c : Crash) (hinv : Inv s) (hv : c.valid s U)
    (hst : s.sD ≤ c.start) (he1 : c.endv ≤ s.slotDur) (he2 : c.endv ≤ s.sD + L) :
    recovered s U c = seg U c.start c.endv := by
  obtain ⟨h1, h2, h3, h4, h5, h6, hS, hE⟩ := hinv
  obtain ⟨_, _, hslot, _⟩ := hv
  unfold recovered seg
  apply List.map_congr_left
  intro p hp
  rw [List.mem_range'_1] at hp
  have hp2 : p < c.endv := by omega
  -- the address table of the chosen header
  have ha : crashAddr U c (p % L) = (U p).addr := by
    unfold crashAddr
    rw [lastPos_window c.endv p hp2 (by omega)]
  -- the slot: no pending slot write lands on it, and the durable content is position p's
  have hs : crashSlot s U c (p % L) = (U p).blk := by
    unfold crashSlot
    cases hq : c.slotPick (p % L) with
    | some q =>
      obtain ⟨q1, q2, q3⟩ := hslot _ q hq
      exact absurd q3 (no_slot_clash p q (by omega) (by omega))
    | none =>
      simp only []
      rw [lastPos_window s.slotDur p (by omega) (by omega)]
  rw [ha, hs]

/-- MAIN LEMMA: in every crash state of every reachable protocol state, the logical disk that
    recovery reconstructs is the specification after the first `e` updates, where `e` is the end
    value of whichever header-1 write survived. -/
theorem crash_logical (s : St) (base : Nat → α) (U : Nat → Upd α) (c : Crash)
    (hr : Reach U s) (hv : c.valid s U) (a : Nat) :
    logical s base U c a = spec base U c.endv a := by
  have hinv := reach_inv U s hr
  have hinv' := hinv
  obtain ⟨h1, h2, h3, h4, h5, h6, hS, hE⟩ := hinv
  have hv' := hv
  obtain ⟨hcs, hce, hslot, hhome⟩ := hv
  -- where start and end lie
  have hst : s.sD ≤ c.start ∧ c.start ≤ s.homeDur := by
    rcases hcs with h | h
    · rw [h]; exact ⟨Nat.le_refl _, h1⟩
    · exact hS _ h
  have hen : s.eD ≤ c.endv ∧ c.endv ≤ s.slotDur ∧ c.endv ≤ s.sD + L := by
    rcases hce with h | h
    · rw [h]; exact ⟨Nat.le_refl _, h4, by omega⟩
    · exact hE _ h
  have hse : c.start ≤ c.endv := by omega
  unfold logical
  rw [recovered_eq_seg s U c hinv' hv' hst.1 hen.2.1 hen.2.2]
  rw [spec_split base U c.start c.endv hse a]
  by_cases htouch : ∃ u ∈ seg U c.start c.endv, u.addr = a
  · exact applyUpds_touched _ _ _ a htouch
  · have hnone : ∀ u ∈ seg U c.start c.endv, u.addr ≠ a := fun u hu he => htouch ⟨u, hu, he⟩
    rw [applyUpds_untouched _ _ a hnone, applyUpds_untouched _ _ a hnone]
    -- the home block of `a`
    unfold crashHome
    cases hq : c.homePick a with
    | some q =>
      obtain ⟨q1, q2, q3⟩ := hhome a q hq
      exact absurd q3 (hnone (U q) ((mem_seg U _ _ _).mpr ⟨q, by omega, by omega, rfl⟩))
    | none =>
      simp only []
      rw [spec_split base U c.start s.homeDur hst.2 a]
      apply applyUpds_untouched
      intro u hu
      obtain ⟨p, p1, p2, rfl⟩ := (mem_seg U _ _ _).mp hu
      exact hnone (U p) ((mem_seg U _ _ _).mpr ⟨p, p1, by omega, rfl⟩)

end GoNfsd.Model.Wal

/-
M7 as a tree: the pointers of a file form an injective map from POSITIONS (direct slot, indirect
root, indirect leaf, double-indirect root / middle / leaf) to disk blocks, `bmap` extends it with
blocks fresh from the allocator, and every other position keeps its pointer (frame).
-/
import GoNfsd.Lemmas.BlockMap

namespace GoNfsd.Model.BlockMap
open GoNfsd.Gen.Consts

inductive Pos where
  | dir (i : Nat) | iroot | ileaf (i : Nat) | droot | dmid (j : Nat) | dleaf (j i : Nat)
  deriving DecidableEq, Repr

def Pos.valid : Pos → Prop
  | .dir i => i < NDIRECT
  | .iroot => True
  | .ileaf i => i < NBLKBLK
  | .droot => True
  | .dmid j => j < NBLKBLK
  | .dleaf j i => j < NBLKBLK ∧ i < NBLKBLK

/-- the pointer stored at a position (0: none, also when the index block above is missing), given
    the direct pointers and the two roots -/
def ptrR (st : Store) (dirf : Nat → Nat) (r8 r9 : Nat) : Pos → Nat
  | .dir i => dirf i
  | .iroot => r8
  | .ileaf i => if r8 = 0 then 0 else st r8 i
  | .droot => r9
  | .dmid j => if r9 = 0 then 0 else st r9 j
  | .dleaf j i => if r9 = 0 then 0 else if st r9 j = 0 then 0 else st (st r9 j) i

def ptr (st : Store) (blks : List Nat) : Pos → Nat :=
  ptrR st (fun i => blks.getD i 0) (blks.getD INDIRECT 0) (blks.getD DINDIRECT 0)

/-- the position whose pointer serves file block `bn` -/
def posOf (bn : Nat) : Pos :=
  if bn < NDIRECT then .dir bn
  else if bn - NDIRECT < NBLKBLK then .ileaf (bn - NDIRECT)
  else .dleaf ((bn - NDIRECT - NBLKBLK) / NBLKBLK) ((bn - NDIRECT - NBLKBLK) % NBLKBLK)

/-- the first file block a position's subtree serves -/
def firstBn : Pos → Nat
  | .dir i => i
  | .iroot => NDIRECT
  | .ileaf i => NDIRECT + i
  | .droot => NDIRECT + NBLKBLK
  | .dmid j => NDIRECT + NBLKBLK + NBLKBLK * j
  | .dleaf j i => NDIRECT + NBLKBLK + NBLKBLK * j + i

theorem lookup_eq_ptr (st : Store) (blks : List Nat) (bn : Nat) :
    lookup st blks bn = ptr st blks (posOf bn) := by
  unfold lookup posOf ptr
  by_cases h1 : bn < NDIRECT
  · simp only [h1, if_true, ptrR]
  · by_cases h2 : bn - NDIRECT < NBLKBLK
    · simp only [h1, h2, if_true, if_false, ptrR]
    · simp only [h1, h2, if_false, ptrR]

/-- allocator entries are pairwise distinct (0 = "out of space" may repeat) -/
def DistinctNZ (l : List Nat) : Prop := l.Pairwise fun a b => a = 0 ∨ b = 0 ∨ a ≠ b

structure WFB (s : S) (blks : List Nat) : Prop where
  len : blks.length = NDIRECT + 2
  /-- no block is pointed to from two positions -/
  inj : ∀ p q, p.valid → q.valid → ptr s.st blks p ≠ 0 → ptr s.st blks p = ptr s.st blks q → p = q
  /-- what the allocator will hand out is in use nowhere and is all zeros -/
  fresh : ∀ a ∈ s.allocs, a ≠ 0 → (∀ p, p.valid → ptr s.st blks p ≠ a) ∧ ∀ i, s.st a i = 0
  distinct : DistinctNZ s.allocs

/-- GENERIC STEP: if the pointer map changes at exactly one (empty) position, which receives the
    block at the head of the allocator stream, and the contents of the blocks still to be handed
    out stay zero, well-formedness is preserved. -/
theorem WFB_extend (s s' : S) (blks blks' : List Nat) (p0 : Pos) (a : Nat) (rest : List Nat)
    (h : WFB s blks) (hal : s.allocs = a :: rest) (hal' : s'.allocs = rest) (ha : a ≠ 0)
    (hp0 : p0.valid) (hlen : blks'.length = NDIRECT + 2)
    (hptr : ∀ q, q.valid → ptr s'.st blks' q = if q = p0 then a else ptr s.st blks q)
    (hzero : ∀ b ∈ rest, b ≠ 0 → ∀ i, s'.st b i = 0) :
    WFB s' blks' := by
  have hafresh := h.fresh a (by rw [hal]; simp) ha
  have hdist : DistinctNZ (a :: rest) := hal ▸ h.distinct
  refine ⟨hlen, ?_, ?_, ?_⟩
  · intro p q hp hq hne heq
    rw [hptr p hp] at hne heq
    rw [hptr q hq] at heq
    by_cases h1 : p = p0
    · by_cases h2 : q = p0
      · rw [h1, h2]
      · simp only [h1, if_true, h2, if_false] at heq
        exact absurd heq.symm (hafresh.1 q hq)
    · by_cases h2 : q = p0
      · simp only [h1, if_false, h2, if_true] at heq
        exact absurd heq (hafresh.1 p hp)
      · simp only [h1, h2, if_false] at hne heq
        exact h.inj p q hp hq hne heq
  · intro b hb hb0
    rw [hal'] at hb
    have hbf := h.fresh b (by rw [hal]; exact List.mem_cons_of_mem _ hb) hb0
    refine ⟨fun p hp => ?_, hzero b hb hb0⟩
    rw [hptr p hp]
    by_cases h1 : p = p0
    · simp only [h1, if_true]
      have := (List.pairwise_cons.1 hdist).1 b hb
      rcases this with h0 | h0 | h0
      · exact absurd h0 ha
      · exact absurd h0 hb0
      · exact h0
    · simp only [h1, if_false]; exact hbf.1 p hp
  · rw [hal']; exact (List.pairwise_cons.1 hdist).2

/-- consuming an allocator entry without using it (0, or a failure further down) -/
theorem WFB_skip (s s' : S) (blks : List Nat) (a : Nat) (rest : List Nat)
    (h : WFB s blks) (hal : s.allocs = a :: rest) (hal' : s'.allocs = rest) (hst : s'.st = s.st) :
    WFB s' blks := by
  have hdist : DistinctNZ (a :: rest) := hal ▸ h.distinct
  refine ⟨h.len, ?_, ?_, ?_⟩
  · rw [hst]; exact h.inj
  · intro b hb hb0
    rw [hal'] at hb
    rw [hst]
    exact h.fresh b (by rw [hal]; exact List.mem_cons_of_mem _ hb) hb0
  · rw [hal']; exact (List.pairwise_cons.1 hdist).2


/-! ### what a `put` into an index block does to the pointer map -/

def InjR (st : Store) (dirf : Nat → Nat) (r8 r9 : Nat) : Prop :=
  ∀ p q, p.valid → q.valid → ptrR st dirf r8 r9 p ≠ 0 → ptrR st dirf r8 r9 p = ptrR st dirf r8 r9 q → p = q

theorem ptrR_put_iroot (st : Store) (dirf : Nat → Nat) (r8 r9 : Nat) (h : InjR st dirf r8 r9)
    (i b : Nat) (hr : r8 ≠ 0) :
    ∀ q, q.valid → ptrR (st.put r8 i b) dirf r8 r9 q = if q = .ileaf i then b else ptrR st dirf r8 r9 q := by
  intro q hq
  have h98 : r9 ≠ 0 → r9 ≠ r8 := by
    intro h9 he
    have := h .droot .iroot trivial trivial (by simpa [ptrR] using h9) (by simp [ptrR, he])
    cases this
  have hm8 : ∀ j, j < NBLKBLK → r9 ≠ 0 → st r9 j ≠ 0 → st r9 j ≠ r8 := by
    intro j hj h9 hm he
    have := h (.dmid j) .iroot hj trivial (by simpa [ptrR, h9] using hm) (by simp [ptrR, h9, he])
    cases this
  cases q with
  | dir k => simp [ptrR]
  | iroot => simp [ptrR]
  | droot => simp [ptrR]
  | ileaf x =>
    simp only [ptrR, hr, if_false, Store.put, Pos.ileaf.injEq, true_and]
  | dmid j =>
    simp only [ptrR, Store.put]
    by_cases hd : r9 = 0
    · simp [hd]
    · simp [hd, h98 hd]
  | dleaf j x =>
    simp only [ptrR, Store.put]
    by_cases hd : r9 = 0
    · simp [hd]
    · simp only [hd, if_false, h98 hd, false_and]
      by_cases hm : st r9 j = 0
      · simp [hm]
      · simp [hm, hm8 j hq.1 hd hm]

theorem ptrR_put_droot (st : Store) (dirf : Nat → Nat) (r8 r9 : Nat) (h : InjR st dirf r8 r9)
    (j b : Nat) (hr : r9 ≠ 0) (hcell : st r9 j = 0) (hb : b ≠ r9) (hbz : ∀ x, st b x = 0) :
    ∀ q, q.valid → ptrR (st.put r9 j b) dirf r8 r9 q = if q = .dmid j then b else ptrR st dirf r8 r9 q := by
  intro q hq
  have h89 : r8 ≠ 0 → r8 ≠ r9 := by
    intro h8 he
    have := h .iroot .droot trivial trivial (by simpa [ptrR] using h8) (by simp [ptrR, he])
    cases this
  have hm9 : ∀ y, y < NBLKBLK → st r9 y ≠ 0 → st r9 y ≠ r9 := by
    intro y hy hm he
    have := h (.dmid y) .droot hy trivial (by simpa [ptrR, hr] using hm) (by simp [ptrR, hr, he])
    cases this
  cases q with
  | dir k => simp [ptrR]
  | iroot => simp [ptrR]
  | droot => simp [ptrR]
  | ileaf x =>
    simp only [ptrR, Store.put]
    by_cases hd : r8 = 0
    · simp [hd]
    · simp [hd, h89 hd]
  | dmid y =>
    simp only [ptrR, hr, if_false, Store.put, Pos.dmid.injEq, true_and]
  | dleaf y x =>
    simp only [ptrR, hr, if_false, Store.put, true_and]
    by_cases hy : y = j
    · subst hy
      simp only [if_true]
      by_cases hb0 : b = 0
      · simp [hb0, hcell]
      · simp [hb0, hb, hbz, hcell]
    · simp only [hy, if_false]
      by_cases hm : st r9 y = 0
      · simp [hm]
      · simp [hm, hm9 y hq.1 hm]

theorem ptrR_put_dmid (st : Store) (dirf : Nat → Nat) (r8 r9 : Nat) (h : InjR st dirf r8 r9)
    (j0 i b : Nat) (hj0 : j0 < NBLKBLK) (hd : r9 ≠ 0) (hr : st r9 j0 ≠ 0) :
    ∀ q, q.valid → ptrR (st.put (st r9 j0) i b) dirf r8 r9 q =
      if q = .dleaf j0 i then b else ptrR st dirf r8 r9 q := by
  intro q hq
  have hmid0 : ptrR st dirf r8 r9 (.dmid j0) ≠ 0 := by simpa [ptrR, hd] using hr
  have hdr : r9 ≠ st r9 j0 := by
    intro he
    have := h (.dmid j0) .droot hj0 trivial hmid0 (by simp [ptrR, hd, ← he])
    cases this
  have h8r : r8 ≠ 0 → r8 ≠ st r9 j0 := by
    intro h8 he
    have := h (.dmid j0) .iroot hj0 trivial hmid0 (by simp [ptrR, hd, ← he])
    cases this
  have hmm : ∀ y, y < NBLKBLK → y ≠ j0 → st r9 y ≠ 0 → st r9 y ≠ st r9 j0 := by
    intro y hy hne hm he
    have := h (.dmid y) (.dmid j0) hy hj0 (by simpa [ptrR, hd] using hm) (by simp [ptrR, hd, he])
    cases this
    exact hne rfl
  cases q with
  | dir k => simp [ptrR]
  | iroot => simp [ptrR]
  | droot => simp [ptrR]
  | ileaf x =>
    simp only [ptrR, Store.put]
    by_cases h8 : r8 = 0
    · simp [h8]
    · simp [h8, h8r h8]
  | dmid y =>
    simp [ptrR, hd, Store.put, hdr]
  | dleaf y x =>
    simp only [ptrR, hd, if_false, Store.put, hdr, false_and, Pos.dleaf.injEq]
    by_cases hm : st r9 y = 0
    · have hyj : y ≠ j0 := by intro he; rw [he] at hm; exact hr hm
      simp [hm, hyj]
    · simp only [hm, if_false]
      by_cases hy : y = j0
      · subst hy
        simp only [true_and]
      · simp [hmm y hq.1 hy hm, hy]


/-! ### what setting one of the inode's own pointers does to the pointer map -/

theorem ptr_set_dir (st : Store) (blks : List Nat) (k a : Nat) (hl : blks.length = NDIRECT + 2)
    (hk : k < NDIRECT) :
    ∀ q, q.valid → ptr st (blks.set k a) q = if q = .dir k then a else ptr st blks q := by
  intro q hq
  have hkl : k < blks.length := by rw [hl]; omega
  have h8 : (blks.set k a).getD INDIRECT 0 = blks.getD INDIRECT 0 := by
    rw [getD_set _ _ _ _ hkl]
    have : ¬ INDIRECT = k := by simp only [NDIRECT, INDIRECT] at *; omega
    simp only [this, if_false]
  have h9 : (blks.set k a).getD DINDIRECT 0 = blks.getD DINDIRECT 0 := by
    rw [getD_set _ _ _ _ hkl]
    have : ¬ DINDIRECT = k := by simp only [NDIRECT, DINDIRECT] at *; omega
    simp only [this, if_false]
  unfold ptr
  rw [h8, h9]
  cases q with
  | dir i =>
    simp only [ptrR, Pos.dir.injEq]
    rw [getD_set _ _ _ _ hkl]
  | iroot => simp [ptrR]
  | droot => simp [ptrR]
  | ileaf x => simp [ptrR]
  | dmid j => simp [ptrR]
  | dleaf j x => simp [ptrR]

theorem ptr_set_iroot (st : Store) (blks : List Nat) (a : Nat) (hl : blks.length = NDIRECT + 2)
    (h0 : blks.getD INDIRECT 0 = 0) (hz : ∀ x, st a x = 0) :
    ∀ q, q.valid → ptr st (blks.set INDIRECT a) q = if q = .iroot then a else ptr st blks q := by
  intro q hq
  have hkl : INDIRECT < blks.length := by rw [hl]; decide
  have h8 : (blks.set INDIRECT a).getD INDIRECT 0 = a := by
    rw [getD_set _ _ _ _ hkl]; simp
  have h9 : (blks.set INDIRECT a).getD DINDIRECT 0 = blks.getD DINDIRECT 0 := by
    rw [getD_set _ _ _ _ hkl]; simp [INDIRECT, DINDIRECT]
  unfold ptr
  rw [h8, h9, h0]
  cases q with
  | dir i =>
    simp only [ptrR]
    rw [getD_set _ _ _ _ hkl]
    have : i ≠ INDIRECT := by simp only [Pos.valid, NDIRECT, INDIRECT] at *; omega
    simp [this]
  | iroot => simp [ptrR]
  | droot => simp [ptrR]
  | ileaf x => simp [ptrR, hz]
  | dmid j => simp [ptrR]
  | dleaf j x => simp [ptrR]

theorem ptr_set_droot (st : Store) (blks : List Nat) (a : Nat) (hl : blks.length = NDIRECT + 2)
    (h0 : blks.getD DINDIRECT 0 = 0) (hz : ∀ x, st a x = 0) :
    ∀ q, q.valid → ptr st (blks.set DINDIRECT a) q = if q = .droot then a else ptr st blks q := by
  intro q hq
  have hkl : DINDIRECT < blks.length := by rw [hl]; decide
  have h9 : (blks.set DINDIRECT a).getD DINDIRECT 0 = a := by
    rw [getD_set _ _ _ _ hkl]; simp
  have h8 : (blks.set DINDIRECT a).getD INDIRECT 0 = blks.getD INDIRECT 0 := by
    rw [getD_set _ _ _ _ hkl]; simp [INDIRECT, DINDIRECT]
  unfold ptr
  rw [h8, h9, h0]
  cases q with
  | dir i =>
    simp only [ptrR]
    rw [getD_set _ _ _ _ hkl]
    have : i ≠ DINDIRECT := by simp only [Pos.valid, NDIRECT, DINDIRECT] at *; omega
    simp [this]
  | iroot => simp [ptrR]
  | droot => simp [ptrR]
  | ileaf x => simp [ptrR]
  | dmid j => simp [ptrR, hz]
  | dleaf j x => simp [ptrR, hz]

/-- rewriting one of the inode's pointers with the value it has changes nothing -/
theorem set_same (blks : List Nat) (k : Nat) (hk : k < blks.length) : blks.set k (blks.getD k 0) = blks := by
  apply List.ext_getElem
  · simp
  · intro i h1 h2
    rw [List.getElem_set]
    split
    · rename_i he; subst he
      rw [List.getD_eq_getElem?_getD, List.getElem?_eq_getElem hk]; rfl
    · rfl


/-! ### `indbmap` in flat form -/

/-- make cell `i` of index block `r` point to a block: the one it has, or a new one -/
def leafStep (s : S) (r i : Nat) : S × Nat :=
  if s.st r i ≠ 0 then (s, s.st r i)
  else if s.alloc.1 = 0 then (s.alloc.2, 0)
  else ({ s.alloc.2 with st := s.alloc.2.st.put r i s.alloc.1 }, s.alloc.1)

theorem indbmap_one (s : S) (r off : Nat) (hr : r ≠ 0) :
    indbmap s r 1 off = ((leafStep s r off).1, (leafStep s r off).2, r) := by
  unfold indbmap
  simp only [hr, if_false, pow, Nat.div_one, Nat.mod_one, indbmap0, leafStep]
  by_cases hn : s.st r off = 0
  · simp only [hn, if_true, ne_eq, not_true_eq_false, if_false]
    by_cases hb : s.alloc.1 = 0
    · simp [hb]
    · simp [hb]
  · simp [hn]

theorem indbmap_zero_root (s : S) (l off : Nat) :
    indbmap s 0 (l + 1) off =
      if s.alloc.1 = 0 then (s.alloc.2, 0, 0) else indbmap s.alloc.2 s.alloc.1 (l + 1) off := by
  by_cases hb : s.alloc.1 = 0
  · rw [if_pos hb]
    unfold indbmap
    cases ha : s.alloc with
    | mk b s1 =>
      rw [ha] at hb
      simp only at hb
      simp [hb]
  · rw [if_neg hb]
    conv => lhs; unfold indbmap
    conv => rhs; unfold indbmap
    cases ha : s.alloc with
    | mk b s1 =>
      rw [ha] at hb
      simp only at hb
      simp [hb]

theorem indbmap_two (s : S) (d off : Nat) (hd : d ≠ 0) :
    indbmap s d 2 off =
      if s.st d (off / NBLKBLK) ≠ 0 then
        ((leafStep s (s.st d (off / NBLKBLK)) (off % NBLKBLK)).1,
         (leafStep s (s.st d (off / NBLKBLK)) (off % NBLKBLK)).2, d)
      else if s.alloc.1 = 0 then (s.alloc.2, 0, d)
      else
        ({ (leafStep s.alloc.2 s.alloc.1 (off % NBLKBLK)).1 with
            st := (leafStep s.alloc.2 s.alloc.1 (off % NBLKBLK)).1.st.put d (off / NBLKBLK) s.alloc.1 },
         (leafStep s.alloc.2 s.alloc.1 (off % NBLKBLK)).2, d) := by
  conv => lhs; unfold indbmap
  simp only [hd, if_false, pow]
  by_cases hn : s.st d (off / NBLKBLK) = 0
  · simp only [hn, ne_eq, not_true_eq_false, if_false]
    rw [indbmap_zero_root]
    by_cases hb : s.alloc.1 = 0
    · simp [hb]
    · simp only [hb, if_false]
      rw [indbmap_one _ _ _ hb]
      simp [hb]
  · simp only [hn, ne_eq, not_false_eq_true, if_true]
    rw [indbmap_one _ _ _ hn]
    simp


/-! ### the steps keep the tree well-formed -/

theorem alloc_cases (s : S) :
    (s.allocs = [] ∧ s.alloc = (0, s)) ∨
    (∃ a rest, s.allocs = a :: rest ∧ s.alloc = (a, { s with allocs := rest })) := by
  unfold S.alloc
  cases h : s.allocs with
  | nil => exact Or.inl ⟨rfl, rfl⟩
  | cons a rest => exact Or.inr ⟨a, rest, rfl, rfl⟩

/-- what a step leaves behind: a well-formed tree in which only `target` (and nothing if the
    step failed) has another pointer than before -/
def Pos.isData : Pos → Prop
  | .dir _ => True
  | .ileaf _ => True
  | .dleaf _ _ => True
  | _ => False

structure StepOK (s s' : S) (blks blks' : List Nat) (target : Pos) (blk : Nat) : Prop where
  wf : WFB s' blks'
  hit : blk ≠ 0 → ptr s'.st blks' target = blk
  /-- no other file block is served by another disk block than before (holes stay holes) -/
  frame : ∀ q, q.valid → q.isData → q ≠ target → ptr s'.st blks' q = ptr s.st blks q
  /-- a failed step changes no file block's mapping at all -/
  miss : blk = 0 → ∀ q, q.valid → q.isData → ptr s'.st blks' q = ptr s.st blks q
  /-- nothing changes at positions (data or index) whose range starts beyond the target -/
  above : ∀ q, q.valid → firstBn target < firstBn q → ptr s'.st blks' q = ptr s.st blks q
  /-- a pointer that is set is never changed: mapping only fills empty positions -/
  keep : ∀ q, q.valid → ptr s.st blks q ≠ 0 → ptr s'.st blks' q = ptr s.st blks q
  /-- whatever is new comes from the allocator -/
  fromAllocs : ∀ q, q.valid → ptr s'.st blks' q = ptr s.st blks q ∨ ptr s'.st blks' q ∈ s.allocs

/-- `leafStep` on an index block `r` that the tree owns (at position `P`), whose cell `i` is
    position `C` -/
theorem leafStep_ok (s : S) (blks : List Nat) (h : WFB s blks) (r i : Nat) (P C : Pos)
    (hP : P.valid) (hPr : ptr s.st blks P = r) (hr : r ≠ 0) (hC : C.valid)
    (hCv : ptr s.st blks C = s.st r i)
    (hput : ∀ b, ∀ q, q.valid → ptr (s.st.put r i b) blks q = if q = C then b else ptr s.st blks q) :
    StepOK s (leafStep s r i).1 blks blks C (leafStep s r i).2 := by
  unfold leafStep
  by_cases hn : s.st r i = 0
  · simp only [hn, ne_eq, not_true_eq_false, if_false]
    rcases alloc_cases s with ⟨_, ha⟩ | ⟨a, rest, hal, ha⟩
    · rw [ha]
      simp only [if_true]
      exact ⟨h, fun hx => absurd rfl hx, fun _ _ _ _ => rfl, fun _ _ _ _ => rfl, fun _ _ _ => rfl, fun _ _ _ => rfl, fun _ _ => Or.inl rfl⟩
    · rw [ha]
      simp only
      by_cases ha0 : a = 0
      · simp only [ha0, if_true]
        exact ⟨WFB_skip s _ blks a rest h hal rfl rfl, fun hx => absurd rfl hx, fun _ _ _ _ => rfl, fun _ _ _ _ => rfl, fun _ _ _ => rfl, fun _ _ _ => rfl, fun _ _ => Or.inl rfl⟩
      · simp only [ha0, if_false]
        have hptr : ∀ q, q.valid → ptr (s.st.put r i a) blks q = if q = C then a else ptr s.st blks q := hput a
        have hafr := h.fresh
        refine ⟨WFB_extend s _ blks blks C a rest h hal rfl ha0 hC h.len hptr ?_, ?_, ?_, fun hx => absurd hx ha0, ?_, ?_, ?_⟩
        · intro b hb hb0 x
          have hbf := h.fresh b (by rw [hal]; exact List.mem_cons_of_mem _ hb) hb0
          have hbr : b ≠ r := fun he => hbf.1 P hP (hPr.trans he.symm)
          simp only [Store.put, hbr, false_and, if_false]
          exact hbf.2 x
        · intro _; rw [hptr C hC]; simp
        · intro q hq _ hne; rw [hptr q hq]; simp [hne]
        · intro q hq hlt
          rw [hptr q hq]
          have : q ≠ C := by intro he; rw [he] at hlt; exact Nat.lt_irrefl _ hlt
          simp [this]
        · intro q hq hne
          rw [hptr q hq]
          have : q ≠ C := by intro he; rw [he, hCv] at hne; exact hne hn
          simp [this]
        · intro q hq
          rw [hptr q hq]
          by_cases hx : q = C
          · rw [if_pos hx]; exact Or.inr (by rw [hal]; exact List.mem_cons_self)
          · rw [if_neg hx]; exact Or.inl rfl
  · simp only [hn, ne_eq, not_false_eq_true, if_true]
    exact ⟨h, fun _ => hCv, fun _ _ _ _ => rfl, fun hx => absurd hx hn, fun _ _ _ => rfl, fun _ _ _ => rfl, fun _ _ => Or.inl rfl⟩


theorem ptr_eq_ptrR (st : Store) (blks : List Nat) (q : Pos) :
    ptr st blks q = ptrR st (fun i => blks.getD i 0) (blks.getD INDIRECT 0) (blks.getD DINDIRECT 0) q := rfl

theorem WFB.injR {s : S} {blks : List Nat} (h : WFB s blks) :
    InjR s.st (fun i => blks.getD i 0) (blks.getD INDIRECT 0) (blks.getD DINDIRECT 0) := h.inj

theorem put_comm (st : Store) (a i b d j c : Nat) (h : a ≠ d) :
    (st.put d j c).put a i b = (st.put a i b).put d j c := by
  funext x y
  simp only [Store.put]
  by_cases h1 : x = a ∧ y = i
  · obtain ⟨rfl, rfl⟩ := h1
    simp [h]
  · simp [h1]

/-- `leafStep` on a fresh index block commutes with linking that block into its parent -/
theorem leafStep_put_comm (s : S) (a i d j : Nat) (h : a ≠ d) :
    leafStep { s with st := s.st.put d j a } a i =
      ({ (leafStep s a i).1 with st := (leafStep s a i).1.st.put d j a }, (leafStep s a i).2) := by
  unfold leafStep
  have hcell : (s.st.put d j a) a i = s.st a i := by simp [Store.put, h]
  simp only [hcell]
  by_cases hn : s.st a i = 0
  · simp only [hn, ne_eq, not_true_eq_false, if_false]
    unfold S.alloc
    cases hal : s.allocs with
    | nil => simp [hal]
    | cons b rest =>
      simp only
      by_cases hb : b = 0
      · simp [hb]
      · simp only [hb, if_false]
        rw [put_comm _ _ _ _ _ _ _ h]
  · simp [hn]

/-- the double-indirect step below a root that is there -/
theorem dstep_ok (s : S) (blks : List Nat) (h : WFB s blks) (off : Nat)
    (hd : blks.getD DINDIRECT 0 ≠ 0) (hoff : off < NBLKBLK * NBLKBLK) :
    StepOK s (indbmap s (blks.getD DINDIRECT 0) 2 off).1 blks blks
      (.dleaf (off / NBLKBLK) (off % NBLKBLK)) (indbmap s (blks.getD DINDIRECT 0) 2 off).2.1 ∧
    (indbmap s (blks.getD DINDIRECT 0) 2 off).2.2 = blks.getD DINDIRECT 0 := by
  have hj : off / NBLKBLK < NBLKBLK := by
    simp only [NBLKBLK] at *; omega
  have hi : off % NBLKBLK < NBLKBLK := by
    simp only [NBLKBLK] at *; omega
  rw [indbmap_two _ _ _ hd]
  generalize hjj : off / NBLKBLK = j at *
  generalize hii : off % NBLKBLK = i at *
  generalize hdd : blks.getD DINDIRECT 0 = d at hd ⊢
  have hdroot : ptr s.st blks .droot = d := by rw [ptr_eq_ptrR]; simp only [ptrR]; exact hdd
  by_cases hm : s.st d j = 0
  · simp only [hm, ne_eq, not_true_eq_false, if_false]
    rcases alloc_cases s with ⟨_, ha⟩ | ⟨a, rest, hal, ha⟩
    · rw [ha]
      simp only [if_true]
      exact ⟨⟨h, fun hx => absurd rfl hx, fun _ _ _ _ => rfl, fun _ _ _ _ => rfl, fun _ _ _ => rfl, fun _ _ _ => rfl, fun _ _ => Or.inl rfl⟩, trivial⟩
    · rw [ha]
      simp only
      by_cases ha0 : a = 0
      · simp only [ha0, if_true]
        exact ⟨⟨WFB_skip s _ blks a rest h hal rfl rfl, fun hx => absurd rfl hx, fun _ _ _ _ => rfl, fun _ _ _ _ => rfl, fun _ _ _ => rfl, fun _ _ _ => rfl, fun _ _ => Or.inl rfl⟩, trivial⟩
      · simp only [ha0, if_false]
        refine ⟨?_, trivial⟩
        -- link the new middle block first, then fill its cell
        have haf := h.fresh a (by rw [hal]; simp) ha0
        have had : a ≠ d := fun he => haf.1 .droot trivial (hdroot.trans he.symm)
        have hptr1 : ∀ q, q.valid → ptr (s.st.put d j a) blks q = if q = .dmid j then a else ptr s.st blks q := by
          intro q hq
          rw [ptr_eq_ptrR, ptr_eq_ptrR, hdd]
          exact ptrR_put_droot s.st _ _ d (hdd ▸ h.injR) j a hd hm had haf.2 q hq
        have hW1 : WFB { s with allocs := rest, st := s.st.put d j a } blks := by
          refine WFB_extend s _ blks blks (.dmid j) a rest h hal rfl ha0 hj h.len hptr1 ?_
          intro b hb hb0 x
          have hbf := h.fresh b (by rw [hal]; exact List.mem_cons_of_mem _ hb) hb0
          have hbd : b ≠ d := fun he => hbf.1 .droot trivial (hdroot.trans he.symm)
          simp only [Store.put, hbd, false_and, if_false]
          exact hbf.2 x
        have hcomm := leafStep_put_comm { s with allocs := rest } a i d j had
        -- the code's result is the conceptual one
        have hres : ({ (leafStep { s with allocs := rest } a i).1 with
              st := (leafStep { s with allocs := rest } a i).1.st.put d j a },
            (leafStep { s with allocs := rest } a i).2) =
            leafStep { s with allocs := rest, st := s.st.put d j a } a i := hcomm.symm
        have hmid1 : (s.st.put d j a) d j = a := by simp [Store.put]
        have hstep := leafStep_ok { s with allocs := rest, st := s.st.put d j a } blks hW1 a i (.dmid j) (.dleaf j i)
          hj (by show ptr (s.st.put d j a) blks (.dmid j) = a; rw [hptr1 (.dmid j) hj]; simp) ha0 ⟨hj, hi⟩
          (by
            show ptr (s.st.put d j a) blks (.dleaf j i) = (s.st.put d j a) a i
            rw [ptr_eq_ptrR]
            simp only [ptrR, hdd, hd, if_false, hmid1, ha0])
          (by
            intro b q hq
            show ptr ((s.st.put d j a).put a i b) blks q = if q = .dleaf j i then b else ptr (s.st.put d j a) blks q
            rw [ptr_eq_ptrR, ptr_eq_ptrR, hdd]
            have := ptrR_put_dmid (s.st.put d j a) (fun i => blks.getD i 0) (blks.getD INDIRECT 0) d
              (by have := hW1.injR; rw [hdd] at this; exact this) j i b hj hd (by rw [hmid1]; exact ha0) q hq
            rw [hmid1] at this
            exact this)
        have e1 : ({ s with allocs := rest } : S).st = s.st := rfl
        rw [← hres] at hstep
        simp only at hstep ⊢
        refine ⟨hstep.wf, hstep.hit, ?_, ?_, ?_, ?_, ?_⟩
        · intro q hq hdat hne
          rw [hstep.frame q hq hdat hne, hptr1 q hq]
          have : q ≠ .dmid j := by intro he; rw [he] at hdat; exact hdat
          simp [this]
        · intro hb q hq hdat
          rw [hstep.miss hb q hq hdat, hptr1 q hq]
          have : q ≠ .dmid j := by intro he; rw [he] at hdat; exact hdat
          simp [this]
        · intro q hq hlt
          rw [hstep.above q hq hlt, hptr1 q hq]
          have : q ≠ .dmid j := by
            intro he; rw [he] at hlt; simp only [firstBn] at hlt; omega
          simp [this]
        · intro q hq hne
          have hq1 : q ≠ .dmid j := by
            intro he; rw [he, ptr_eq_ptrR] at hne; simp only [ptrR, hdd, hd, if_false] at hne; exact hne hm
          have h1 : ptr (s.st.put d j a) blks q = ptr s.st blks q := by rw [hptr1 q hq]; simp [hq1]
          rw [hstep.keep q hq (by show ptr (s.st.put d j a) blks q ≠ 0; rw [h1]; exact hne)]
          exact h1
        · intro q hq
          rcases hstep.fromAllocs q hq with h1 | h1
          · rw [h1, hptr1 q hq]
            by_cases hx : q = .dmid j
            · rw [if_pos hx]; exact Or.inr (by rw [hal]; exact List.mem_cons_self)
            · rw [if_neg hx]; exact Or.inl rfl
          · exact Or.inr (by rw [hal]; exact List.mem_cons_of_mem _ h1)
  · simp only [hm, ne_eq, not_false_eq_true, if_true]
    refine ⟨?_, trivial⟩
    exact leafStep_ok s blks h (s.st d j) i (.dmid j) (.dleaf j i) hj
      (by rw [ptr_eq_ptrR]; simp only [ptrR, hdd, hd, if_false]) hm ⟨hj, hi⟩
      (by rw [ptr_eq_ptrR]; simp only [ptrR, hdd, hd, if_false, hm])
      (by
        intro b q hq
        rw [ptr_eq_ptrR, ptr_eq_ptrR, hdd]
        exact ptrR_put_dmid s.st _ _ d (hdd ▸ h.injR) j i b hj hd hm q hq)


theorem StepOK.refl' (s : S) (blks : List Nat) (h : WFB s blks) (t : Pos) : StepOK s s blks blks t 0 :=
  ⟨h, fun hx => absurd rfl hx, fun _ _ _ _ => rfl, fun _ _ _ _ => rfl, fun _ _ _ => rfl, fun _ _ _ => rfl, fun _ _ => Or.inl rfl⟩

/-- `bmap` on a well-formed tree: the tree stays well-formed (no block gets a second owner, what
    the allocator still holds stays unused and zero), a block returned for `bn` is the block the
    map then has for `bn`, no other file block changes its disk block, and a failed call changes
    no file block's disk block. -/
theorem bmap_ok (s : S) (blks : List Nat) (bn : Nat) (h : WFB s blks)
    (hbn : bn < NDIRECT + NBLKBLK + NBLKBLK * NBLKBLK) :
    StepOK s (bmap s blks bn).1 blks (bmap s blks bn).2.1 (posOf bn) (bmap s blks bn).2.2.1 := by
  unfold bmap posOf
  by_cases h1 : bn < NDIRECT
  · -- direct
    simp only [h1, if_true]
    have hkl : bn < blks.length := by rw [h.len]; omega
    by_cases h0 : blks.getD bn 0 = 0
    · simp only [h0, if_true]
      have hsame : blks.set bn 0 = blks := by
        have := set_same blks bn hkl
        rw [h0] at this; exact this
      rcases alloc_cases s with ⟨_, ha⟩ | ⟨a, rest, hal, ha⟩
      · rw [ha]
        simp only [hsame]
        exact StepOK.refl' s blks h _
      · rw [ha]
        simp only
        by_cases ha0 : a = 0
        · subst ha0
          simp only [hsame]
          exact ⟨WFB_skip s _ blks 0 rest h hal rfl rfl, fun hx => absurd rfl hx, fun _ _ _ _ => rfl, fun _ _ _ _ => rfl, fun _ _ _ => rfl, fun _ _ _ => rfl, fun _ _ => Or.inl rfl⟩
        · have hptr := ptr_set_dir s.st blks bn a h.len h1
          refine ⟨WFB_extend s _ blks _ (.dir bn) a rest h hal rfl ha0 h1 (by simp [h.len]) hptr ?_, ?_, ?_, fun hx => absurd hx ha0, ?_, ?_, ?_⟩
          · intro b hb hb0 x
            exact (h.fresh b (by rw [hal]; exact List.mem_cons_of_mem _ hb) hb0).2 x
          · intro _; rw [hptr (.dir bn) h1]; simp
          · intro q hq _ hne; rw [hptr q hq]; simp [hne]
          · intro q hq hlt
            rw [hptr q hq]
            have : q ≠ .dir bn := by intro he; rw [he] at hlt; exact Nat.lt_irrefl _ hlt
            simp [this]
          · intro q hq hne
            rw [hptr q hq]
            have : q ≠ .dir bn := by
              intro he; rw [he] at hne; exact hne (by rw [ptr_eq_ptrR]; exact h0)
            simp [this]
          · intro q hq
            rw [hptr q hq]
            by_cases hx : q = .dir bn
            · rw [if_pos hx]; exact Or.inr (by rw [hal]; exact List.mem_cons_self)
            · rw [if_neg hx]; exact Or.inl rfl
    · simp only [h0, if_false]
      exact ⟨h, fun _ => by rw [ptr_eq_ptrR]; rfl, fun _ _ _ _ => rfl, fun hx => absurd hx h0, fun _ _ _ => rfl, fun _ _ _ => rfl, fun _ _ => Or.inl rfl⟩
  · simp only [h1, if_false]
    by_cases h2 : bn - NDIRECT < NBLKBLK
    · -- single indirect
      simp only [h2, if_true]
      generalize hoff : bn - NDIRECT = off at *
      by_cases hr : blks.getD INDIRECT 0 = 0
      · rw [hr, indbmap_zero_root]
        rcases alloc_cases s with ⟨_, ha⟩ | ⟨a, rest, hal, ha⟩
        · rw [ha]
          simp only [if_true, ne_eq, not_true_eq_false, decide_false, if_false]
          exact StepOK.refl' s blks h _
        · rw [ha]
          simp only
          by_cases ha0 : a = 0
          · simp only [ha0, if_true, ne_eq, not_true_eq_false, decide_false, if_false]
            exact ⟨WFB_skip s _ blks a rest h hal rfl rfl, fun hx => absurd rfl hx, fun _ _ _ _ => rfl, fun _ _ _ _ => rfl, fun _ _ _ => rfl, fun _ _ _ => rfl, fun _ _ => Or.inl rfl⟩
          · simp only [ha0, if_false]
            rw [indbmap_one _ _ _ ha0]
            simp only [ne_eq, ha0, not_false_eq_true, decide_true, if_true]
            -- link the new root, then fill its cell
            have haf := h.fresh a (by rw [hal]; simp) ha0
            have hptr1 := ptr_set_iroot s.st blks a h.len hr haf.2
            have hlen1 : (blks.set INDIRECT a).length = NDIRECT + 2 := by simp [h.len]
            have hW1 : WFB { s with allocs := rest } (blks.set INDIRECT a) := by
              refine WFB_extend s _ blks _ .iroot a rest h hal rfl ha0 trivial hlen1 hptr1 ?_
              intro b hb hb0 x
              exact (h.fresh b (by rw [hal]; exact List.mem_cons_of_mem _ hb) hb0).2 x
            have h8 : (blks.set INDIRECT a).getD INDIRECT 0 = a := by
              rw [getD_set _ _ _ _ (by rw [h.len]; decide)]; simp
            have hstep := leafStep_ok { s with allocs := rest } (blks.set INDIRECT a) hW1 a off .iroot (.ileaf off)
              trivial (by show ptr s.st _ .iroot = a; rw [hptr1 .iroot trivial]; simp) ha0 h2
              (by
                show ptr s.st (blks.set INDIRECT a) (.ileaf off) = s.st a off
                rw [ptr_eq_ptrR]; simp only [ptrR, h8, ha0, if_false])
              (by
                intro b q hq
                show ptr (s.st.put a off b) (blks.set INDIRECT a) q = if q = .ileaf off then b else ptr s.st (blks.set INDIRECT a) q
                rw [ptr_eq_ptrR, ptr_eq_ptrR, h8]
                exact ptrR_put_iroot s.st _ a _ (by have := hW1.injR; rw [h8] at this; exact this) off b ha0 q hq)
            refine ⟨hstep.wf, hstep.hit, ?_, ?_, ?_, ?_, ?_⟩
            · intro q hq hdat hne
              rw [hstep.frame q hq hdat hne]
              show ptr s.st (blks.set INDIRECT a) q = _
              rw [hptr1 q hq]
              have : q ≠ .iroot := by intro he; rw [he] at hdat; exact hdat
              simp [this]
            · intro hb q hq hdat
              rw [hstep.miss hb q hq hdat]
              show ptr s.st (blks.set INDIRECT a) q = _
              rw [hptr1 q hq]
              have : q ≠ .iroot := by intro he; rw [he] at hdat; exact hdat
              simp [this]
            · intro q hq hlt
              rw [hstep.above q hq hlt]
              show ptr s.st (blks.set INDIRECT a) q = _
              rw [hptr1 q hq]
              have : q ≠ .iroot := by
                intro he; rw [he] at hlt; simp only [firstBn] at hlt; omega
              simp [this]
            · intro q hq hne
              have hq1 : q ≠ .iroot := by
                intro he; rw [he] at hne; exact hne (by rw [ptr_eq_ptrR]; exact hr)
              have h1 : ptr s.st (blks.set INDIRECT a) q = ptr s.st blks q := by rw [hptr1 q hq]; simp [hq1]
              rw [hstep.keep q hq (by show ptr s.st (blks.set INDIRECT a) q ≠ 0; rw [h1]; exact hne)]
              exact h1
            · intro q hq
              rcases hstep.fromAllocs q hq with h1 | h1
              · rw [h1]
                show ptr s.st (blks.set INDIRECT a) q = _ ∨ ptr s.st (blks.set INDIRECT a) q ∈ _
                rw [hptr1 q hq]
                by_cases hx : q = .iroot
                · rw [if_pos hx]; exact Or.inr (by rw [hal]; exact List.mem_cons_self)
                · rw [if_neg hx]; exact Or.inl rfl
              · exact Or.inr (by rw [hal]; exact List.mem_cons_of_mem _ h1)
      · rw [indbmap_one _ _ _ hr]
        simp only [ne_eq, not_true_eq_false, decide_false, if_false]
        exact leafStep_ok s blks h (blks.getD INDIRECT 0) off .iroot (.ileaf off) trivial
          (by rw [ptr_eq_ptrR]; rfl) hr h2
          (by rw [ptr_eq_ptrR]; simp only [ptrR, hr, if_false])
          (by
            intro b q hq
            rw [ptr_eq_ptrR, ptr_eq_ptrR]
            exact ptrR_put_iroot s.st _ _ _ h.injR off b hr q hq)
    · -- double indirect
      simp only [h2, if_false]
      generalize hoff : bn - NDIRECT - NBLKBLK = off at *
      have hofflt : off < NBLKBLK * NBLKBLK := by
        simp only [NDIRECT, NBLKBLK] at *; omega
      by_cases hr : blks.getD DINDIRECT 0 = 0
      · rw [hr, indbmap_zero_root]
        have hsame0 : blks.set DINDIRECT 0 = blks := by
          have := set_same blks DINDIRECT (by rw [h.len]; decide)
          rw [hr] at this; exact this
        rcases alloc_cases s with ⟨_, ha⟩ | ⟨a, rest, hal, ha⟩
        · rw [ha]
          simp only [if_true, hsame0, ite_self]
          exact StepOK.refl' s blks h _
        · rw [ha]
          simp only
          by_cases ha0 : a = 0
          · simp only [ha0, if_true, hsame0, ite_self]
            exact ⟨WFB_skip s _ blks a rest h hal rfl rfl, fun hx => absurd rfl hx, fun _ _ _ _ => rfl, fun _ _ _ _ => rfl, fun _ _ _ => rfl, fun _ _ _ => rfl, fun _ _ => Or.inl rfl⟩
          · simp only [ha0, if_false]
            have haf := h.fresh a (by rw [hal]; simp) ha0
            have hptr1 := ptr_set_droot s.st blks a h.len hr haf.2
            have hlen1 : (blks.set DINDIRECT a).length = NDIRECT + 2 := by simp [h.len]
            have hW1 : WFB { s with allocs := rest } (blks.set DINDIRECT a) := by
              refine WFB_extend s _ blks _ .droot a rest h hal rfl ha0 trivial hlen1 hptr1 ?_
              intro b hb hb0 x
              exact (h.fresh b (by rw [hal]; exact List.mem_cons_of_mem _ hb) hb0).2 x
            have h9 : (blks.set DINDIRECT a).getD DINDIRECT 0 = a := by
              rw [getD_set _ _ _ _ (by rw [h.len]; decide)]; simp
            have hds := dstep_ok { s with allocs := rest } (blks.set DINDIRECT a) hW1 off (by rw [h9]; exact ha0) hofflt
            rw [h9] at hds
            obtain ⟨hstep, hroot⟩ := hds
            -- the new root differs from the indirect root, so the code stores it
            have hflag : a ≠ blks.getD INDIRECT 0 := by
              by_cases h8 : blks.getD INDIRECT 0 = 0
              · rw [h8]; exact ha0
              · exact fun he => haf.1 .iroot trivial (by rw [ptr_eq_ptrR]; simp only [ptrR]; exact he.symm)
            rw [hroot]
            simp only [ne_eq, hflag, not_false_eq_true, decide_true, if_true]
            refine ⟨hstep.wf, hstep.hit, ?_, ?_, ?_, ?_, ?_⟩
            · intro q hq hdat hne
              rw [hstep.frame q hq hdat hne]
              show ptr s.st (blks.set DINDIRECT a) q = _
              rw [hptr1 q hq]
              have : q ≠ .droot := by intro he; rw [he] at hdat; exact hdat
              simp [this]
            · intro hb q hq hdat
              rw [hstep.miss hb q hq hdat]
              show ptr s.st (blks.set DINDIRECT a) q = _
              rw [hptr1 q hq]
              have : q ≠ .droot := by intro he; rw [he] at hdat; exact hdat
              simp [this]
            · intro q hq hlt
              rw [hstep.above q hq hlt]
              show ptr s.st (blks.set DINDIRECT a) q = _
              rw [hptr1 q hq]
              have : q ≠ .droot := by
                intro he; rw [he] at hlt; simp only [firstBn] at hlt; omega
              simp [this]
            · intro q hq hne
              have hq1 : q ≠ .droot := by
                intro he; rw [he] at hne; exact hne (by rw [ptr_eq_ptrR]; exact hr)
              have h1 : ptr s.st (blks.set DINDIRECT a) q = ptr s.st blks q := by rw [hptr1 q hq]; simp [hq1]
              rw [hstep.keep q hq (by show ptr s.st (blks.set DINDIRECT a) q ≠ 0; rw [h1]; exact hne)]
              exact h1
            · intro q hq
              rcases hstep.fromAllocs q hq with h1 | h1
              · rw [h1]
                show ptr s.st (blks.set DINDIRECT a) q = _ ∨ ptr s.st (blks.set DINDIRECT a) q ∈ _
                rw [hptr1 q hq]
                by_cases hx : q = .droot
                · rw [if_pos hx]; exact Or.inr (by rw [hal]; exact List.mem_cons_self)
                · rw [if_neg hx]; exact Or.inl rfl
              · exact Or.inr (by rw [hal]; exact List.mem_cons_of_mem _ h1)
      · obtain ⟨hstep, hroot⟩ := dstep_ok s blks h off hr hofflt
        rw [hroot]
        have hsame : blks.set DINDIRECT (blks.getD DINDIRECT 0) = blks := set_same blks DINDIRECT (by rw [h.len]; decide)
        simp only [hsame, ite_self]
        exact hstep


/-! ### every sequence of mappings from the empty file -/

def emptyStore : Store := fun _ _ => 0

theorem WFB_empty (allocs : List Nat) (hd : DistinctNZ allocs) :
    WFB { st := emptyStore, allocs := allocs } (List.replicate (NDIRECT + 2) 0) := by
  have hz : ∀ q, ptr emptyStore (List.replicate (NDIRECT + 2) 0) q = 0 := by
    intro q
    rw [ptr_eq_ptrR]
    have hg : ∀ k : Nat, (List.replicate (NDIRECT + 2) (0 : Nat))[k]?.getD 0 = 0 := by
      intro k
      rw [List.getElem?_replicate]
      split <;> rfl
    cases q <;> simp [ptrR, hg, emptyStore]
  refine ⟨by simp, ?_, ?_, hd⟩
  · intro p q _ _ hne
    exact absurd (hz p) hne
  · intro a _ ha0
    exact ⟨fun p _ => by rw [hz p]; exact Ne.symm ha0, fun _ => rfl⟩

/-- `bmap` for one file block after the other -/
def bmapAll (s : S) (blks : List Nat) : List Nat → S × List Nat
  | [] => (s, blks)
  | bn :: rest => bmapAll (bmap s blks bn).1 (bmap s blks bn).2.1 rest

theorem bmapAll_wf (s : S) (blks : List Nat) (bns : List Nat) (h : WFB s blks)
    (hb : ∀ bn ∈ bns, bn < NDIRECT + NBLKBLK + NBLKBLK * NBLKBLK) :
    WFB (bmapAll s blks bns).1 (bmapAll s blks bns).2 := by
  induction bns generalizing s blks with
  | nil => exact h
  | cons bn rest ih =>
    simp only [bmapAll]
    exact ih _ _ (bmap_ok s blks bn h (hb bn (by simp))).wf (fun b hm => hb b (List.mem_cons_of_mem _ hm))


/-! ### file blocks and their positions -/

theorem posOf_valid (bn : Nat) (hbn : bn < NDIRECT + NBLKBLK + NBLKBLK * NBLKBLK) :
    (posOf bn).valid ∧ (posOf bn).isData := by
  unfold posOf
  by_cases h1 : bn < NDIRECT
  · simp only [h1, if_true]; exact ⟨h1, trivial⟩
  · by_cases h2 : bn - NDIRECT < NBLKBLK
    · simp only [h1, h2, if_true, if_false]; exact ⟨h2, trivial⟩
    · simp only [h1, h2, if_false]
      refine ⟨⟨?_, ?_⟩, trivial⟩
      · simp only [NDIRECT, NBLKBLK] at *; omega
      · simp only [NBLKBLK]; omega

/-- the file block a data position serves -/
def bnOf : Pos → Nat
  | .dir i => i
  | .ileaf i => NDIRECT + i
  | .dleaf j i => NDIRECT + NBLKBLK + (NBLKBLK * j + i)
  | _ => 0

theorem bnOf_posOf (bn : Nat) : bnOf (posOf bn) = bn := by
  unfold posOf
  by_cases h1 : bn < NDIRECT
  · simp only [h1, if_true, bnOf]
  · by_cases h2 : bn - NDIRECT < NBLKBLK
    · simp only [h1, h2, if_true, if_false, bnOf]; omega
    · simp only [h1, h2, if_false, bnOf]
      have := Nat.div_add_mod (bn - NDIRECT - NBLKBLK) NBLKBLK
      omega

theorem posOf_inj (a b : Nat) (h : posOf a = posOf b) : a = b := by
  rw [← bnOf_posOf a, ← bnOf_posOf b, h]


end GoNfsd.Model.BlockMap

/-
Which index blocks a WRITE writes to (model M7): `bmap` changes the contents of index blocks
only on the path to its target, and a WRITE of up to 513 consecutive file blocks touches at
most four index blocks — the indirect root, the double-indirect root and two middle blocks.
-/
import GoNfsd.Lemmas.InoOps

namespace GoNfsd.Model.BlockMap
open GoNfsd.Gen.Consts

theorem leafStep_touch (s : S) (r i y x : Nat) (h : (leafStep s r i).1.st y x ≠ s.st y x) : y = r := by
  unfold leafStep at h
  by_cases hn : s.st r i = 0
  · simp only [hn, ne_eq, not_true_eq_false, if_false] at h
    have hal : s.alloc.2.st = s.st := by unfold S.alloc; split <;> rfl
    by_cases hb : s.alloc.1 = 0
    · rw [if_pos hb] at h; exact absurd (congrFun (congrFun hal y) x) h
    · rw [if_neg hb] at h
      by_cases hc : y = r ∧ x = i
      · exact hc.1
      · exfalso; apply h
        show (s.alloc.2.st.put r i s.alloc.1) y x = s.st y x
        rw [hal]
        simp only [Store.put, hc, if_false]
  · rw [if_pos (by simpa using hn)] at h; exact absurd rfl h

theorem alloc_st (s : S) : s.alloc.2.st = s.st := by unfold S.alloc; split <;> rfl

/-- the index positions on the way to a data position -/
def anc : Pos → List Pos
  | .ileaf _ => [.iroot]
  | .dleaf j _ => [.droot, .dmid j]
  | _ => []

/-- `bmap` changes the contents of a block only if, afterwards, that block is the index block at
    a position on the way to the target (and it is a block, not the null pointer) -/
theorem bmap_touch (s : S) (blks : List Nat) (bn : Nat) (h : WFB s blks)
    (hbn : bn < NDIRECT + NBLKBLK + NBLKBLK * NBLKBLK) (y x : Nat)
    (hc : (bmap s blks bn).1.st y x ≠ s.st y x) :
    y ≠ 0 ∧ ∃ P ∈ anc (posOf bn), ptr (bmap s blks bn).1.st (bmap s blks bn).2.1 P = y := by
  unfold bmap posOf at *
  by_cases h1 : bn < NDIRECT
  · -- direct: no block content changes
    simp only [h1, if_true] at hc
    exfalso
    by_cases h0 : blks.getD bn 0 = 0
    · simp only [h0, if_true] at hc
      cases ha : s.alloc with
      | mk b s' =>
        have := alloc_st s; rw [ha] at this
        rw [ha] at hc; simp only at hc this
        rw [this] at hc; exact hc rfl
    · simp only [h0, if_false] at hc; exact hc rfl
  · simp only [h1, if_false] at hc ⊢
    by_cases h2 : bn - NDIRECT < NBLKBLK
    · simp only [h2, if_true] at hc ⊢
      generalize hoff : bn - NDIRECT = off at *
      simp only [anc, List.mem_singleton, exists_eq_left]
      by_cases hr : blks.getD INDIRECT 0 = 0
      · rw [hr, indbmap_zero_root] at hc ⊢
        by_cases ha0 : s.alloc.1 = 0
        · simp only [ha0, if_true] at hc; rw [alloc_st] at hc; exact absurd rfl hc
        · simp only [ha0, if_false] at hc ⊢
          rw [indbmap_one _ _ _ ha0] at hc ⊢
          simp only at hc
          have hy := leafStep_touch s.alloc.2 s.alloc.1 off y x (by rw [alloc_st]; exact hc)
          refine ⟨by rw [hy]; exact ha0, ?_⟩
          simp only [ne_eq, ha0, not_false_eq_true, decide_true, if_true]
          rw [ptr_eq_ptrR]
          simp only [ptrR]
          rw [getD_set _ _ _ _ (by rw [h.len]; decide)]
          simp [hy]
      · rw [indbmap_one _ _ _ hr] at hc ⊢
        simp only at hc
        have hy := leafStep_touch s (blks.getD INDIRECT 0) off y x hc
        refine ⟨by rw [hy]; exact hr, ?_⟩
        simp only [ne_eq, not_true_eq_false, decide_false, if_false]
        rw [ptr_eq_ptrR]
        simp only [ptrR]
        exact hy.symm
    · simp only [h2, if_false] at hc ⊢
      generalize hoff : bn - NDIRECT - NBLKBLK = off at *
      simp only [anc, List.mem_cons, List.mem_singleton, List.not_mem_nil, or_false]
      have hdcase : ∀ (s0 : S) (blks0 : List Nat) (d : Nat), WFB s0 blks0 → blks0.getD DINDIRECT 0 = d → d ≠ 0 →
          (indbmap s0 d 2 off).1.st y x ≠ s0.st y x →
          y ≠ 0 ∧ (y = d ∨ y = (indbmap s0 d 2 off).1.st d (off / NBLKBLK)) := by
        intro s0 blks0 d hw hd hd0 hch
        rw [indbmap_two _ _ _ hd0] at hch ⊢
        have hmd : s0.st d (off / NBLKBLK) ≠ 0 → s0.st d (off / NBLKBLK) ≠ d := by
          intro hm he
          have hj : off / NBLKBLK < NBLKBLK := by
            simp only [NDIRECT, NBLKBLK] at *; omega
          have := hw.inj (.dmid (off / NBLKBLK)) .droot hj trivial
            (by rw [ptr_eq_ptrR]; simp only [ptrR, hd, hd0, if_false]; exact hm)
            (by rw [ptr_eq_ptrR, ptr_eq_ptrR]; simp only [ptrR, hd, hd0, if_false]; exact he)
          cases this
        by_cases hm : s0.st d (off / NBLKBLK) = 0
        · simp only [hm, ne_eq, not_true_eq_false, if_false] at hch ⊢
          by_cases ha0 : s0.alloc.1 = 0
          · simp only [ha0, if_true] at hch; rw [alloc_st] at hch; exact absurd rfl hch
          · simp only [ha0, if_false] at hch ⊢
            simp only [Store.put] at hch ⊢
            by_cases hyd : y = d
            · exact ⟨by rw [hyd]; exact hd0, Or.inl hyd⟩
            · simp only [hyd, false_and, if_false] at hch
              have hy := leafStep_touch s0.alloc.2 s0.alloc.1 (off % NBLKBLK) y x (by rw [alloc_st]; exact hch)
              refine ⟨by rw [hy]; exact ha0, Or.inr ?_⟩
              simp [hy]
        · simp only [hm, ne_eq, not_false_eq_true, if_true] at hch ⊢
          have hy := leafStep_touch s0 (s0.st d (off / NBLKBLK)) (off % NBLKBLK) y x hch
          refine ⟨by rw [hy]; exact hm, Or.inr ?_⟩
          -- the cell of d is untouched: only the middle block changed, and it is not d
          rw [hy]
          by_cases hsame : (leafStep s0 (s0.st d (off / NBLKBLK)) (off % NBLKBLK)).1.st d (off / NBLKBLK) = s0.st d (off / NBLKBLK)
          · exact hsame.symm
          · exact absurd (leafStep_touch _ _ _ _ _ hsame) (Ne.symm (hmd hm))
      by_cases hr : blks.getD DINDIRECT 0 = 0
      · rw [hr, indbmap_zero_root] at hc ⊢
        by_cases ha0 : s.alloc.1 = 0
        · simp only [ha0, if_true] at hc; rw [alloc_st] at hc; exact absurd rfl hc
        · simp only [ha0, if_false] at hc ⊢
          -- the conceptual state with the new root linked
          rcases alloc_cases s with ⟨_, ha⟩ | ⟨a, rest, hal, ha⟩
          · rw [ha] at ha0; exact absurd rfl ha0
          · rw [ha] at hc ha0 ⊢
            simp only at hc ha0 ⊢
            have haf := h.fresh a (by rw [hal]; simp) ha0
            have hptr1 := ptr_set_droot s.st blks a h.len hr haf.2
            have hW1 : WFB { s with allocs := rest } (blks.set DINDIRECT a) := by
              refine WFB_extend s _ blks _ .droot a rest h hal rfl ha0 trivial (by simp [h.len]) hptr1 ?_
              intro b hb hb0 x
              exact (h.fresh b (by rw [hal]; exact List.mem_cons_of_mem _ hb) hb0).2 x
            have h9 : (blks.set DINDIRECT a).getD DINDIRECT 0 = a := by
              rw [getD_set _ _ _ _ (by rw [h.len]; decide)]; simp
            obtain ⟨hy0, hyc⟩ := hdcase { s with allocs := rest } (blks.set DINDIRECT a) a hW1 h9 ha0 hc
            refine ⟨hy0, ?_⟩
            have hroot : (indbmap { s with allocs := rest } a 2 off).2.2 = a := by
              rw [indbmap_two _ _ _ ha0]; split <;> (try split) <;> rfl
            have hflag : a ≠ blks.getD INDIRECT 0 := by
              by_cases h8 : blks.getD INDIRECT 0 = 0
              · rw [h8]; exact ha0
              · exact fun he => haf.1 .iroot trivial (by rw [ptr_eq_ptrR]; simp only [ptrR]; exact he.symm)
            rw [hroot]
            simp only [ne_eq, hflag, not_false_eq_true, decide_true, if_true]
            rcases hyc with hyc | hyc
            · exact ⟨.droot, Or.inl rfl, by rw [ptr_eq_ptrR]; simp only [ptrR, h9]; exact hyc.symm⟩
            · exact ⟨.dmid (off / NBLKBLK), Or.inr rfl, by rw [ptr_eq_ptrR]; simp only [ptrR, h9, ha0, if_false]; exact hyc.symm⟩
      · obtain ⟨hy0, hyc⟩ := hdcase s blks (blks.getD DINDIRECT 0) h rfl hr hc
        refine ⟨hy0, ?_⟩
        have hroot : (indbmap s (blks.getD DINDIRECT 0) 2 off).2.2 = blks.getD DINDIRECT 0 := by
          rw [indbmap_two _ _ _ hr]; split <;> (try split) <;> rfl
        rw [hroot]
        have hsame : blks.set DINDIRECT (blks.getD DINDIRECT 0) = blks := set_same blks DINDIRECT (by rw [h.len]; decide)
        simp only [hsame, ite_self]
        rcases hyc with hyc | hyc
        · exact ⟨.droot, Or.inl rfl, by rw [ptr_eq_ptrR]; simp only [ptrR]; exact hyc.symm⟩
        · exact ⟨.dmid (off / NBLKBLK), Or.inr rfl, by rw [ptr_eq_ptrR]; simp only [ptrR, hr, if_false]; exact hyc.symm⟩


/-- pointers that are set stay as they are through a whole WRITE -/
theorem writeBlocks_keep (bn n : Nat) : ∀ (s : S) (ino : Ino) (cnt : Nat), WFB s ino.blks →
    bn + cnt + n ≤ MAXBLKS → ∀ q, q.valid → ptr s.st ino.blks q ≠ 0 →
    ptr (writeBlocks s ino bn n cnt).1.st (writeBlocks s ino bn n cnt).2.1.blks q = ptr s.st ino.blks q := by
  induction n with
  | zero => intro s ino cnt _ _ q _ _; rfl
  | succ n ih =>
    intro s ino cnt hw hle q hq hne
    have hbn : bn + cnt < NDIRECT + NBLKBLK + NBLKBLK * NBLKBLK := by rw [MAXBLKS_eq] at hle; omega
    have hok := bmap_ok s ino.blks (bn + cnt) hw hbn
    unfold writeBlocks
    generalize hres : bmap s ino.blks (bn + cnt) = res at hok
    obtain ⟨s', blks', blkno, fl⟩ := res
    simp only at hok ⊢
    by_cases hb : blkno = 0
    · simp only [hb, if_true]; exact hok.keep q hq hne
    · simp only [hb, if_false]
      have h1 := hok.keep q hq hne
      rw [ih s' { ino with blks := blks' } (cnt + 1) hok.wf (by omega) q hq (by show ptr s'.st blks' q ≠ 0; rw [h1]; exact hne)]
      exact h1

/-- every block whose contents a WRITE of the file blocks [bn+cnt, bn+cnt+n) changes is, at the
    end, the index block on the way to one of those file blocks -/
theorem writeBlocks_touch (bn n : Nat) : ∀ (s : S) (ino : Ino) (cnt : Nat), WFB s ino.blks →
    bn + cnt + n ≤ MAXBLKS → ∀ y x, (writeBlocks s ino bn n cnt).1.st y x ≠ s.st y x →
    y ≠ 0 ∧ ∃ b, bn + cnt ≤ b ∧ b < bn + cnt + n ∧ ∃ P ∈ anc (posOf b), P.valid ∧
      ptr (writeBlocks s ino bn n cnt).1.st (writeBlocks s ino bn n cnt).2.1.blks P = y := by
  induction n with
  | zero => intro s ino cnt _ _ y x h; exact absurd rfl h
  | succ n ih =>
    intro s ino cnt hw hle y x hch
    have hbn : bn + cnt < NDIRECT + NBLKBLK + NBLKBLK * NBLKBLK := by rw [MAXBLKS_eq] at hle; omega
    have hok := bmap_ok s ino.blks (bn + cnt) hw hbn
    have htouch := bmap_touch s ino.blks (bn + cnt) hw hbn y x
    have hancv : ∀ P ∈ anc (posOf (bn + cnt)), P.valid := by
      intro P hP
      have hv := (posOf_valid (bn + cnt) hbn).1
      generalize posOf (bn + cnt) = pp at hP hv
      cases pp <;> simp only [anc, List.mem_cons, List.mem_singleton, List.not_mem_nil, or_false] at hP
      · rw [hP]; trivial
      · rcases hP with hP | hP
        · rw [hP]; trivial
        · rw [hP]; exact hv.1
    unfold writeBlocks at hch ⊢
    generalize hres : bmap s ino.blks (bn + cnt) = res at hok htouch hch
    obtain ⟨s', blks', blkno, fl⟩ := res
    simp only at hok htouch hch ⊢
    by_cases hb : blkno = 0
    · simp only [hb, if_true] at hch ⊢
      obtain ⟨hy0, P, hP, hpy⟩ := htouch hch
      exact ⟨hy0, bn + cnt, Nat.le_refl _, by omega, P, hP, hancv P hP, hpy⟩
    · simp only [hb, if_false] at hch ⊢
      by_cases hlater : (writeBlocks s' { ino with blks := blks' } bn n (cnt + 1)).1.st y x = s'.st y x
      · -- changed by this block's mapping, and kept by the rest
        rw [hlater] at hch
        obtain ⟨hy0, P, hP, hpy⟩ := htouch hch
        refine ⟨hy0, bn + cnt, Nat.le_refl _, by omega, P, hP, hancv P hP, ?_⟩
        rw [writeBlocks_keep bn n s' { ino with blks := blks' } (cnt + 1) hok.wf (by omega) P (hancv P hP)
          (by show ptr s'.st blks' P ≠ 0; rw [hpy]; exact hy0)]
        exact hpy
      · obtain ⟨hy0, b, hb1, hb2, P, hP, hPv, hpy⟩ := ih s' { ino with blks := blks' } (cnt + 1) hok.wf (by omega) y x hlater
        exact ⟨hy0, b, by omega, by omega, P, hP, hPv, hpy⟩

/-- A WRITE OF UP TO 513 CONSECUTIVE FILE BLOCKS WRITES TO AT MOST FOUR INDEX BLOCKS: every block
    whose contents it changes is, at the end, the indirect root, the double-indirect root, or one
    of two neighbouring middle blocks. -/
theorem write_touches_four_index_blocks (s : S) (ino : Ino) (bn n : Nat) (h : WFB s ino.blks)
    (hn : n ≤ NBLKBLK + 1) (hle : bn + n ≤ MAXBLKS) (y x : Nat)
    (hch : (writeBlocks s ino bn n 0).1.st y x ≠ s.st y x) :
    ∃ P ∈ [Pos.iroot, Pos.droot, Pos.dmid ((bn - NDIRECT - NBLKBLK) / NBLKBLK),
           Pos.dmid ((bn - NDIRECT - NBLKBLK) / NBLKBLK + 1)],
      ptr (writeBlocks s ino bn n 0).1.st (writeBlocks s ino bn n 0).2.1.blks P = y := by
  obtain ⟨_, b, hb1, hb2, P, hP, _, hpy⟩ := writeBlocks_touch bn n s ino 0 h (by omega) y x hch
  refine ⟨P, ?_, hpy⟩
  unfold posOf at hP
  by_cases h1 : b < NDIRECT
  · simp only [h1, if_true, anc] at hP; cases hP
  · simp only [h1, if_false] at hP
    by_cases h2 : b - NDIRECT < NBLKBLK
    · simp only [h2, if_true, anc, List.mem_singleton] at hP
      rw [hP]; simp
    · simp only [h2, if_false, anc, List.mem_cons, List.mem_singleton, List.not_mem_nil, or_false] at hP
      rcases hP with hP | hP
      · rw [hP]; simp
      · rw [hP]
        simp only [List.mem_cons, Pos.dmid.injEq, List.mem_singleton, List.not_mem_nil, or_false,
          reduceCtorEq, false_or]
        simp only [NDIRECT, NBLKBLK] at *
        omega


/-! ### how much a mapping can take from the allocator -/

theorem alloc_len (s : S) : s.alloc.2.allocs.length ≤ s.allocs.length ∧ s.allocs.length ≤ s.alloc.2.allocs.length + 1 := by
  unfold S.alloc
  cases h : s.allocs with
  | nil => simp [h]
  | cons a r => simp [h]

theorem indbmap_allocs (l : Nat) : ∀ (s : S) (root off : Nat),
    (indbmap s root l off).1.allocs.length ≤ s.allocs.length ∧
    s.allocs.length ≤ (indbmap s root l off).1.allocs.length + (l + 1) := by
  induction l with
  | zero =>
    intro s root off
    rw [indbmap0]
    split
    · exact alloc_len s
    · exact ⟨Nat.le_refl _, Nat.le_add_right _ _⟩
  | succ l ih =>
    intro s root off
    unfold indbmap
    by_cases hr : root = 0
    · simp only [hr, if_true]
      have ha := alloc_len s
      generalize hres : s.alloc = res at ha
      obtain ⟨a, s1⟩ := res
      simp only at ha ⊢
      by_cases ha0 : a = 0
      · simp only [ha0, if_true]; omega
      · simp only [ha0, if_false]
        have := ih s1 (s1.st a (off / pow l)) (off % pow l)
        generalize hr2 : indbmap s1 (s1.st a (off / pow l)) l (off % pow l) = r2 at this
        obtain ⟨s2, b, nn⟩ := r2
        simp only at this ⊢
        split <;> (try simp only) <;> omega
    · simp only [hr, if_false]
      have := ih s (s.st root (off / pow l)) (off % pow l)
      generalize hr2 : indbmap s (s.st root (off / pow l)) l (off % pow l) = r2 at this
      obtain ⟨s2, b, nn⟩ := r2
      simp only at this ⊢
      split <;> (try simp only) <;> omega

/-- ONE MAPPING TAKES AT MOST THREE BLOCKS FROM THE ALLOCATOR (a data block and at most two index
    blocks), and never gives any back -/
theorem bmap_allocs_at_most_three (s : S) (blks : List Nat) (bn : Nat) :
    (bmap s blks bn).1.allocs.length ≤ s.allocs.length ∧
    s.allocs.length ≤ (bmap s blks bn).1.allocs.length + 3 := by
  unfold bmap
  by_cases h1 : bn < NDIRECT
  · simp only [h1, if_true]
    split
    · have := alloc_len s
      generalize s.alloc = res at this
      obtain ⟨b, s'⟩ := res
      simp only at this ⊢
      omega
    · exact ⟨Nat.le_refl _, Nat.le_add_right _ _⟩
  · simp only [h1, if_false]
    by_cases h2 : bn - NDIRECT < NBLKBLK
    · simp only [h2, if_true]
      have := indbmap_allocs 1 s (blks.getD INDIRECT 0) (bn - NDIRECT)
      generalize indbmap s (blks.getD INDIRECT 0) 1 (bn - NDIRECT) = res at this
      obtain ⟨s', b, r⟩ := res
      simp only at this ⊢
      omega
    · simp only [h2, if_false]
      have := indbmap_allocs 2 s (blks.getD DINDIRECT 0) (bn - NDIRECT - NBLKBLK)
      generalize indbmap s (blks.getD DINDIRECT 0) 2 (bn - NDIRECT - NBLKBLK) = res at this
      obtain ⟨s', b, r⟩ := res
      simp only at this ⊢
      omega

/-- a WRITE of `n` file blocks takes at most `3 n` blocks from the allocator -/
theorem writeBlocks_allocs (bn n : Nat) : ∀ (s : S) (ino : Ino) (cnt : Nat),
    (writeBlocks s ino bn n cnt).1.allocs.length ≤ s.allocs.length ∧
    s.allocs.length ≤ (writeBlocks s ino bn n cnt).1.allocs.length + 3 * n := by
  induction n with
  | zero => intro s ino cnt; simp [writeBlocks]
  | succ n ih =>
    intro s ino cnt
    have hb := bmap_allocs_at_most_three s ino.blks (bn + cnt)
    unfold writeBlocks
    generalize bmap s ino.blks (bn + cnt) = res at hb
    obtain ⟨s', blks', blkno, fl⟩ := res
    simp only at hb ⊢
    by_cases hz : blkno = 0
    · simp only [hz, if_true]; omega
    · simp only [hz, if_false]
      have := ih s' { ino with blks := blks' } (cnt + 1)
      omega

end GoNfsd.Model.BlockMap

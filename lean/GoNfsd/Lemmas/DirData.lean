import GoNfsd.Lemmas.FileData
import GoNfsd.Lemmas.Codec

/-! M7e: a directory is a file of 128-byte slots.  The slot list of the reference model M6 is the
    decoding (`dir.decodeDirEnt`, model M3) of the bytes of the block-level file M7d, and the one
    write `AddNameDir` / `RemNameDir` issue is `putSlot` on that list. -/
namespace GoNfsd.Model.FileData
open GoNfsd.Model.Fs (Slot putSlot freeSlot)
open GoNfsd.Model.Codec (encodeDirEnt decodeDirEnt)
open GoNfsd.Gen.Consts

def DS : Nat := 128

theorem DS_is_the_slot_size : DS = DIRENTSZ := rfl

/-- `decodeDirEnt` of the 128 bytes of slot `k` (a slot that does not decode — the Go code
    panics — is shown as free) -/
def slotAt (f : F) (k : Nat) : Slot :=
  match decodeDirEnt (f.read (k * DS) DS) with
  | some (i, n) => { inum := i, name := n }
  | none => freeSlot

/-- the directory M6 sees -/
def slotsOf (f : F) : List Slot := (List.range (f.size / DS)).map (slotAt f)

theorem read_congr (f g : F) (off n : Nat) (h : ∀ p, off ≤ p → p < off + n → f.byte p = g.byte p) :
    f.read off n = g.read off n := by
  unfold F.read
  apply List.map_congr_left
  intro k hk
  simp at hk
  exact h (off + k) (by omega) (by omega)

theorem read_written (f : F) (fresh : Nat → Nat) (off : Nat) (bytes : List UInt8) (h : Inv f)
    (hf : FreshOK f fresh) : (f.write fresh off bytes).read off bytes.length = bytes := by
  unfold F.read
  apply List.ext_getElem
  · simp
  · intro k h1 h2
    simp at h1
    simp only [List.getElem_map, List.getElem_range]
    rw [write_byte f fresh off bytes h hf (off + k), if_pos ⟨by omega, by omega⟩]
    have : off + k - off = k := by omega
    rw [this]
    simp [List.getD, h1]

theorem slotsOf_length (f : F) : (slotsOf f).length = f.size / DS := by simp [slotsOf]

theorem slotsOf_get (f : F) (k : Nat) (h : k < (slotsOf f).length) : (slotsOf f)[k] = slotAt f k := by
  simp [slotsOf]

/-- the two facts about a slot write: the written slot decodes to the entry, every other slot
    decodes as before -/
theorem slot_write_slots (f : F) (fresh : Nat → Nat) (slot inum : Nat) (name : List UInt8)
    (h : Inv f) (hf : FreshOK f fresh) (hi : inum < 2 ^ 64) (hn : name.length ≤ MAXNAMELEN) :
    slotAt (f.write fresh (slot * DS) (encodeDirEnt inum name)) slot = { inum := inum, name := name } ∧
    (∀ k, k ≠ slot → slotAt (f.write fresh (slot * DS) (encodeDirEnt inum name)) k = slotAt f k) ∧
    (f.write fresh (slot * DS) (encodeDirEnt inum name)).size = max f.size (slot * DS + DS) := by
  obtain ⟨hdec, hlen⟩ := GoNfsd.Model.Codec.decode_encode_dirent inum name hi hn
  have hlen' : (encodeDirEnt inum name).length = DS := hlen
  refine ⟨?_, ?_, ?_⟩
  · unfold slotAt
    have : (f.write fresh (slot * DS) (encodeDirEnt inum name)).read (slot * DS) DS = encodeDirEnt inum name := by
      have := read_written f fresh (slot * DS) (encodeDirEnt inum name) h hf
      rw [hlen'] at this; exact this
    rw [this, hdec]
  · intro k hk
    unfold slotAt
    have : (f.write fresh (slot * DS) (encodeDirEnt inum name)).read (k * DS) DS = f.read (k * DS) DS := by
      apply read_congr
      intro p hp1 hp2
      rw [write_byte f fresh (slot * DS) (encodeDirEnt inum name) h hf p, hlen']
      rw [if_neg]
      intro hc
      apply hk
      unfold DS at *
      omega
    rw [this]
  · show max f.size (slot * DS + (encodeDirEnt inum name).length) = _
    rw [hlen']

/-- THE SLOT WRITE: writing the encoding of an entry at slot `slot` of a directory whose size is
    a whole number of slots is `putSlot` on the decoded slot list — the entry appears at that slot
    (appended when `slot` is the end), every other slot decodes as before, and the size stays a
    whole number of slots. -/
theorem slot_write_is_putSlot (f : F) (fresh : Nat → Nat) (slot inum : Nat) (name : List UInt8)
    (h : Inv f) (hf : FreshOK f fresh) (L : Nat) (hsz : f.size = L * DS) (hslot : slot ≤ L)
    (hi : inum < 2 ^ 64) (hn : name.length ≤ MAXNAMELEN) :
    slotsOf (f.write fresh (slot * DS) (encodeDirEnt inum name)) =
      putSlot (slotsOf f) slot { inum := inum, name := name } ∧
    (f.write fresh (slot * DS) (encodeDirEnt inum name)).size =
      (putSlot (slotsOf f) slot { inum := inum, name := name }).length * DS := by
  obtain ⟨hnew, hold, hgs⟩ := slot_write_slots f fresh slot inum name h hf hi hn
  generalize f.write fresh (slot * DS) (encodeDirEnt inum name) = g at *
  have hLf : (slotsOf f).length = L := by rw [slotsOf_length, hsz]; unfold DS; omega
  have hgetf := slotsOf_get f
  have hLg := slotsOf_length g
  have hgetg := slotsOf_get g
  rw [hsz] at hgs
  generalize slotsOf f = S at *
  generalize slotsOf g = G at *
  generalize ({ inum := inum, name := name } : Slot) = e at *
  by_cases he : slot = L
  · subst he
    have hput : putSlot S slot e = S ++ [e] := by unfold putSlot; exact if_pos hLf.symm
    rw [hput]
    have hGl : G.length = slot + 1 := by rw [hLg, hgs]; unfold DS; omega
    refine ⟨?_, ?_⟩
    · apply List.ext_getElem
      · simp [hGl, hLf]
      · intro k h1 h2
        rw [hgetg k h1]
        by_cases hk : k < S.length
        · rw [List.getElem_append_left hk, hgetf k hk]
          exact hold k (by omega)
        · have hk' : k = slot := by omega
          subst hk'
          rw [List.getElem_append_right (by omega)]
          simp [hnew]
    · rw [hgs]; simp [hLf]; unfold DS; omega
  · have hput : putSlot S slot e = S.set slot e := by unfold putSlot; exact if_neg (by rw [hLf]; exact he)
    rw [hput]
    have hGl : G.length = L := by rw [hLg, hgs]; unfold DS; omega
    refine ⟨?_, ?_⟩
    · apply List.ext_getElem
      · simp [hGl, hLf]
      · intro k h1 h2
        rw [hgetg k h1, List.getElem_set]
        by_cases hks : slot = k
        · subst hks; simp [hnew]
        · simp only [hks, if_false]
          rw [hgetf k (by simpa using h2)]
          exact hold k (fun e => hks e.symm)
    · rw [hgs]; simp [hLf]; unfold DS; omega

/-- `RemNameDir`: the free entry written over slot `idx` -/
theorem slot_clear_is_set (f : F) (fresh : Nat → Nat) (idx : Nat) (h : Inv f) (hf : FreshOK f fresh)
    (L : Nat) (hsz : f.size = L * DS) (hidx : idx < L) :
    slotsOf (f.write fresh (idx * DS) (encodeDirEnt 0 [])) = (slotsOf f).set idx freeSlot := by
  have := (slot_write_is_putSlot f fresh idx 0 [] h hf L hsz (by omega) (by decide) (by simp)).1
  rw [this]
  unfold putSlot
  have hL : (slotsOf f).length = L := by simp [slotsOf, hsz, DS]
  rw [if_neg (by rw [hL]; omega)]
  rfl

/-! ### whole histories of a directory -/

inductive DirOp where
  | put (fresh : Nat → Nat) (slot inum : Nat) (name : List UInt8)   -- AddNameDir (also InitDir's two entries)
  | clear (fresh : Nat → Nat) (idx : Nat)                          -- RemNameDir

def F.dirApply (f : F) : DirOp → F
  | .put fresh slot inum name => f.write fresh (slot * DS) (encodeDirEnt inum name)
  | .clear fresh idx => f.write fresh (idx * DS) (encodeDirEnt 0 [])

/-- what the reference model does to the slot list (`addName`, `remNameAt`) -/
def slotApply (S : List Slot) : DirOp → List Slot
  | .put _ slot inum name => putSlot S slot { inum := inum, name := name }
  | .clear _ idx => S.set idx freeSlot

/-- what the callers guarantee: a slot inside the directory or right at its end, an inode number
    and a name that fit, blocks from the allocator that are fresh at the time -/
def DirAllowed : F → List DirOp → Prop
  | _, [] => True
  | f, op :: rest =>
    (match op with
      | .put fresh slot inum name => FreshOK f fresh ∧ slot ≤ f.size / DS ∧ inum < 2 ^ 64 ∧ name.length ≤ MAXNAMELEN
      | .clear fresh idx => FreshOK f fresh ∧ idx < f.size / DS) ∧
    DirAllowed (f.dirApply op) rest

theorem dir_history_refines (ops : List DirOp) :
    ∀ (f : F), Inv f → (∃ L, f.size = L * DS) → DirAllowed f ops →
      Inv (ops.foldl F.dirApply f) ∧
      slotsOf (ops.foldl F.dirApply f) = ops.foldl slotApply (slotsOf f) ∧
      (ops.foldl F.dirApply f).size = (ops.foldl slotApply (slotsOf f)).length * DS := by
  induction ops with
  | nil =>
    intro f hi ⟨L, hL⟩ _
    refine ⟨hi, rfl, ?_⟩
    simp only [List.foldl_nil]
    rw [slotsOf_length, hL]; unfold DS; omega
  | cons op rest ih =>
    intro f hi ⟨L, hL⟩ ha
    simp only [List.foldl_cons]
    have hLd : f.size / DS = L := by rw [hL]; unfold DS; omega
    cases op with
    | put fresh slot inum name =>
      obtain ⟨⟨hf, hs, hin, hn⟩, hrest⟩ := ha
      rw [hLd] at hs
      obtain ⟨h1, h2⟩ := slot_write_is_putSlot f fresh slot inum name hi hf L hL hs hin hn
      have := ih (f.dirApply (.put fresh slot inum name)) (write_inv f fresh _ _ hi hf) ⟨_, h2⟩ hrest
      simp only [F.dirApply, slotApply] at this ⊢
      rw [h1] at this
      exact this
    | clear fresh idx =>
      obtain ⟨⟨hf, hs⟩, hrest⟩ := ha
      rw [hLd] at hs
      have h1 := slot_clear_is_set f fresh idx hi hf L hL hs
      have h2 := (slot_write_is_putSlot f fresh idx 0 [] hi hf L hL (by omega) (by decide) (by simp)).2
      have := ih (f.dirApply (.clear fresh idx)) (write_inv f fresh _ _ hi hf) ⟨_, h2⟩ hrest
      simp only [F.dirApply, slotApply] at this ⊢
      rw [h1] at this
      exact this

end GoNfsd.Model.FileData

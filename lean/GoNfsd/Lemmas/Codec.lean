import GoNfsd.Model.Codec

namespace GoNfsd.Model.Codec
open GoNfsd.Gen.Consts

@[simp] theorem le_length (k n : Nat) : (le k n).length = k := by
  induction k generalizing n with
  | zero => rfl
  | succ k ih => simp [le, ih]

theorem leNat_le (k n : Nat) (h : n < 256 ^ k) : leNat (le k n) = n := by
  induction k generalizing n with
  | zero => simp [le, leNat] at *; omega
  | succ k ih =>
    simp only [le, leNat]
    have h2 : n / 256 < 256 ^ k := by
      rw [Nat.div_lt_iff_lt_mul (by decide)]; rw [Nat.pow_succ] at h; exact h
    rw [ih _ h2]
    have : (UInt8.ofNat (n % 256)).toNat = n % 256 := by
      simp [UInt8.toNat_ofNat']
    rw [this]
    omega

theorem leNat_lt (bs : Bytes) : leNat bs < 256 ^ bs.length := by
  induction bs with
  | nil => simp [leNat]
  | cons b bs ih =>
    simp only [leNat, List.length_cons, Nat.pow_succ]
    have := b.toNat_lt
    omega

/-- encoding what was decoded gives the bytes back -/
theorem le_leNat (bs : Bytes) : le bs.length (leNat bs) = bs := by
  induction bs with
  | nil => rfl
  | cons b bs ih =>
    simp only [List.length_cons, le, leNat]
    have hb := b.toNat_lt
    have h1 : (b.toNat + 256 * leNat bs) % 256 = b.toNat := by omega
    have h2 : (b.toNat + 256 * leNat bs) / 256 = leNat bs := by omega
    rw [h1, h2, ih]
    simp

theorem take_append_len {α : Type} (a b : List α) (n : Nat) (h : a.length = n) : (a ++ b).take n = a := by
  subst h; simp

theorem drop_append_len {α : Type} (a b : List α) (n : Nat) (h : a.length = n) : (a ++ b).drop n = b := by
  subst h; simp

theorem decodeInts_flatMap (ns : List Nat) (rest : Bytes) (h : ∀ b ∈ ns, b < 2 ^ 64) :
    decodeInts 8 ns.length (ns.flatMap (le 8) ++ rest) = ns := by
  induction ns with
  | nil => rfl
  | cons n ns ih =>
    have hn : n < 256 ^ 8 := by have := h n (by simp); simpa using this
    simp only [List.flatMap_cons, List.length_cons, decodeInts, List.append_assoc]
    rw [take_append_len _ _ 8 (le_length 8 n), drop_append_len _ _ 8 (le_length 8 n), leNat_le 8 n hn,
      ih (fun b hb => h b (List.mem_cons_of_mem _ hb))]

theorem getLe_le (k n : Nat) (rest : Bytes) (h : n < 256 ^ k) : getLe k (le k n ++ rest) = (n, rest) := by
  simp [getLe, take_append_len _ _ k (le_length k n), drop_append_len _ _ k (le_length k n), leNat_le k n h]

/-- A directory entry with a name that fits decodes to itself and occupies exactly one slot. -/
theorem decode_encode_dirent (inum : Nat) (name : Bytes) (hi : inum < 2 ^ 64) (hn : name.length ≤ MAXNAMELEN) :
    decodeDirEnt (encodeDirEnt inum name) = some (inum, name) ∧
    (encodeDirEnt inum name).length = DIRENTSZ := by
  have p64 : (2:Nat) ^ 64 = 256 ^ 8 := by decide
  have hl : name.length < 256 ^ 8 := by simp [MAXNAMELEN] at hn; omega
  rw [p64] at hi
  have hlen : (encodeDirEnt inum name).length = DIRENTSZ := by
    simp [encodeDirEnt, DIRENTSZ, MAXNAMELEN] at *; omega
  refine ⟨?_, hlen⟩
  unfold decodeDirEnt
  have e1 : (encodeDirEnt inum name).take 8 = le 8 inum := by
    simp [encodeDirEnt, take_append_len _ _ 8 (le_length 8 inum)]
  have e2 : ((encodeDirEnt inum name).drop 8).take 8 = le 8 name.length := by
    unfold encodeDirEnt
    rw [List.append_assoc, List.append_assoc, drop_append_len _ _ 8 (le_length 8 inum),
      take_append_len _ _ 8 (le_length 8 _)]
  have e3 : ((encodeDirEnt inum name).drop 16).take name.length = name := by
    unfold encodeDirEnt
    have : (le 8 inum ++ le 8 name.length).length = 16 := by simp
    rw [List.append_assoc (le 8 inum ++ le 8 name.length), drop_append_len _ _ 16 this, take_append_len _ _ _ rfl]
  simp only [e1, e2, leNat_le 8 _ hi, leNat_le 8 _ hl, e3, hlen]
  have : 16 + name.length ≤ DIRENTSZ := by simp [DIRENTSZ, MAXNAMELEN] at *; omega
  simp [this]

end GoNfsd.Model.Codec

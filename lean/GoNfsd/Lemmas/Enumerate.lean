/- The client's enumeration loop over pages, and why it returns every live slot exactly once. -/
import GoNfsd.Lemmas.Page

namespace GoNfsd.Model.Fs
open GoNfsd.Gen.Consts

def lastCookie (es : List (Slot × Nat)) (dflt : Nat) : Nat :=
  match es.getLast? with
  | some e => e.2
  | none => dflt

/-- The client loop: ask for a page starting at `ck`; unless it says eof, continue with the
    cookie of the last entry received.  At most `fuel` calls.  Returns the entries received and
    whether end-of-directory was reached. -/
def enumerate (pg : Nat → Bool × List (Slot × Nat)) : Nat → Nat → List (Slot × Nat) × Bool
  | 0, _ => ([], false)
  | f + 1, ck =>
    if (pg ck).1 then ((pg ck).2, true)
    else ((pg ck).2 ++ (enumerate pg f (lastCookie (pg ck).2 ck)).1,
          (enumerate pg f (lastCookie (pg ck).2 ck)).2)

/-- raising the start offset to a slot boundary keeps exactly the entries whose cookie is above it -/
theorem liveFromGo_filter (start m : Nat) (h : start ≤ m * DIRENTSZ) :
    ∀ (rest : List Slot) (idx : Nat),
      liveFromGo (m * DIRENTSZ) rest idx
        = (liveFromGo start rest idx).filter (fun e => m * DIRENTSZ < e.2) := by
  intro rest
  induction rest with
  | nil => intro idx; simp [liveFromGo]
  | cons sl rest ih =>
    intro idx
    unfold liveFromGo
    have hmul : idx * DIRENTSZ < m * DIRENTSZ ↔ idx < m := by
      simp [DIRENTSZ]
    have hmul2 : m * DIRENTSZ < (idx + 1) * DIRENTSZ ↔ m < idx + 1 := by
      simp [DIRENTSZ]
    by_cases h0 : sl.inum = 0
    · simp [h0, ih]
    · by_cases h1 : idx * DIRENTSZ < start
      · have : idx * DIRENTSZ < m * DIRENTSZ := by omega
        simp [h0, h1, this, ih]
      · by_cases h2 : idx * DIRENTSZ < m * DIRENTSZ
        · have hlt : ¬ m * DIRENTSZ < (idx + 1) * DIRENTSZ := by
            rw [hmul2]; have := hmul.mp h2; omega
          simp [h0, h1, h2, ih, hlt]
        · have hlt : m * DIRENTSZ < (idx + 1) * DIRENTSZ := by
            rw [hmul2]; have : ¬ idx < m := fun hh => h2 (hmul.mpr hh); omega
          simp [h0, h1, h2, ih, hlt]

theorem take_ne_nil {α : Type} (L : List α) (k : Nat) (h1 : 1 ≤ k) (hk : k ≤ L.length) : L.take k ≠ [] := by
  intro h
  rcases List.take_eq_nil_iff.mp h with h | h
  · omega
  · subst h; simp at hk; omega

/-- in a list with strictly increasing cookies, the entries above the cookie of the k-th are the
    entries after the k-th -/
theorem filter_gt_eq_drop : ∀ (L : List (Slot × Nat)) (k : Nat),
    L.Pairwise (fun x y => x.2 < y.2) → 1 ≤ k → k ≤ L.length →
      L.filter (fun e => lastCookie (L.take k) 0 < e.2) = L.drop k := by
  intro L
  induction L with
  | nil => intro k _ _ hk; simp at hk; omega
  | cons x L ih =>
    intro k hp h1 hk
    have hp' := List.pairwise_cons.mp hp
    cases k with
    | zero => omega
    | succ k =>
      cases k with
      | zero =>
        -- last cookie is x.2: x itself is dropped, everything after is kept
        simp only [List.take_succ_cons, List.take_zero, lastCookie, List.getLast?_singleton,
          List.drop_succ_cons, List.drop_zero]
        rw [List.filter_cons]
        simp only [Nat.lt_irrefl, decide_false, Bool.false_eq_true, if_false]
        apply List.filter_eq_self.mpr
        intro e he; simp [hp'.1 e he]
      | succ k =>
        have hk' : k + 1 ≤ L.length := by
          have : (x :: L).length = L.length + 1 := rfl
          omega
        have hne : L.take (k + 1) ≠ [] := take_ne_nil L (k + 1) (by omega) hk'
        have hlc : lastCookie ((x :: L).take (k + 1 + 1)) 0 = lastCookie (L.take (k + 1)) 0 := by
          simp only [List.take_succ_cons, lastCookie]
          rw [List.getLast?_cons_of_ne_nil hne]
        rw [hlc, List.filter_cons]
        have hx : ¬ lastCookie (L.take (k + 1)) 0 < x.2 := by
          unfold lastCookie
          cases hl : (L.take (k + 1)).getLast? with
          | none => exact absurd (List.getLast?_eq_none_iff.mp hl) hne
          | some e =>
            have hm : e ∈ L := List.mem_of_mem_take (List.mem_of_getLast? hl)
            have := hp'.1 e hm
            simp; omega
        simp only [hx, decide_false, Bool.false_eq_true, if_false, List.drop_succ_cons]
        exact ih (k + 1) hp'.2 (by omega) hk'

theorem lastCookie_mult (start : Nat) (slots : List Slot) (k : Nat) (h1 : 1 ≤ k)
    (hk : k ≤ (liveFrom slots start).length) :
    ∃ m, lastCookie ((liveFrom slots start).take k) 0 = m * DIRENTSZ ∧ start ≤ m * DIRENTSZ := by
  have hne : (liveFrom slots start).take k ≠ [] := take_ne_nil _ k h1 hk
  unfold lastCookie
  cases hl : ((liveFrom slots start).take k).getLast? with
  | none => exact absurd (List.getLast?_eq_none_iff.mp hl) hne
  | some e =>
    have hm : e ∈ liveFrom slots start := List.mem_of_mem_take (List.mem_of_getLast? hl)
    obtain ⟨j, _, _, h3, h4⟩ := liveFromGo_mem start slots 0 e hm
    refine ⟨0 + j + 1, h3, ?_⟩
    have : (0 + j) * DIRENTSZ ≤ (0 + j + 1) * DIRENTSZ := Nat.mul_le_mul_right _ (by omega)
    omega

/-- Static directory: whatever the per-call limits, the loop ends with eof and has then
    received exactly the live slots at or beyond its starting cookie, each once, in order. -/
theorem enumerate_exact (slots : List Slot) (lim1 lim2 : Nat) (inc1 inc2 : Nat → Nat) (n1 n2 : Nat) :
    ∀ (fuel ck : Nat), (liveFrom slots ck).length < fuel →
      enumerate (fun c => page slots c lim1 lim2 inc1 inc2 n1 n2) fuel ck = (liveFrom slots ck, true) := by
  intro fuel
  induction fuel with
  | zero => intro ck h; omega
  | succ f ih =>
    intro ck hf
    unfold enumerate
    obtain ⟨k, hk1, hk2, hk3⟩ := pageGo_prefix ck lim1 lim2 inc1 inc2 slots 0 n1 n2
    change (page slots ck lim1 lim2 inc1 inc2 n1 n2).2 = (liveFrom slots ck).take k at hk1
    change (page slots ck lim1 lim2 inc1 inc2 n1 n2).1 = true →
      (page slots ck lim1 lim2 inc1 inc2 n1 n2).2 = liveFrom slots ck at hk2
    change (page slots ck lim1 lim2 inc1 inc2 n1 n2).1 = false →
      1 ≤ k ∧ k ≤ (liveFrom slots ck).length at hk3
    by_cases he : (page slots ck lim1 lim2 inc1 inc2 n1 n2).1 = true
    · simp only [he, if_true]
      rw [hk2 he]
    · have he' : (page slots ck lim1 lim2 inc1 inc2 n1 n2).1 = false := by
        cases h : (page slots ck lim1 lim2 inc1 inc2 n1 n2).1 <;> simp_all
      simp only [he', Bool.false_eq_true, if_false]
      obtain ⟨hk3a, hk3b⟩ := hk3 he'
      rw [hk1]
      have hne : (liveFrom slots ck).take k ≠ [] := take_ne_nil _ k hk3a hk3b
      have hlc0 : lastCookie ((liveFrom slots ck).take k) ck = lastCookie ((liveFrom slots ck).take k) 0 := by
        unfold lastCookie
        cases hl : ((liveFrom slots ck).take k).getLast? with
        | none => exact absurd (List.getLast?_eq_none_iff.mp hl) hne
        | some e => rfl
      obtain ⟨m, hm1, hm2⟩ := lastCookie_mult ck slots k hk3a hk3b
      have hdrop : liveFrom slots (lastCookie ((liveFrom slots ck).take k) ck) = (liveFrom slots ck).drop k := by
        rw [hlc0, hm1]
        show liveFromGo (m * DIRENTSZ) slots 0 = _
        rw [liveFromGo_filter ck m hm2 slots 0, ← hm1]
        exact filter_gt_eq_drop _ k (liveFromGo_sorted ck slots 0).1 hk3a hk3b
      have hlen : (liveFrom slots (lastCookie ((liveFrom slots ck).take k) ck)).length < f := by
        rw [hdrop, List.length_drop]; omega
      rw [ih _ hlen, hdrop]
      simp

end GoNfsd.Model.Fs

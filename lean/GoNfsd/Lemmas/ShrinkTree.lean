/-
Truncation on the tree view of M7: one round of `Shrink` at index `idx` clears exactly the
positions whose subtree starts at file block `idx`, frees exactly the blocks they pointed to, and
keeps the pointer map injective; run from the top down to `T` it leaves exactly the positions
below `T`, and run down to 0 it frees every block the file owned.
-/
import GoNfsd.Lemmas.BlockTree

namespace GoNfsd.Model.BlockMap
open GoNfsd.Gen.Consts

/-- nothing is mapped from file block `n` on -/
def EmptyFromR (st : Store) (dirf : Nat → Nat) (r8 r9 : Nat) (n : Nat) : Prop :=
  ∀ q, q.valid → n ≤ firstBn q → ptrR st dirf r8 r9 q = 0

/-- clearing positions keeps the pointer map injective -/
theorem InjR_clear (st st' : Store) (dirf dirf' : Nat → Nat) (r8 r9 r8' r9' : Nat) (C : Pos → Prop)
    [DecidablePred C] (h : InjR st dirf r8 r9)
    (hptr : ∀ q, q.valid → ptrR st' dirf' r8' r9' q = if C q then 0 else ptrR st dirf r8 r9 q) :
    InjR st' dirf' r8' r9' := by
  intro p q hp hq hne heq
  rw [hptr p hp] at hne heq
  rw [hptr q hq] at heq
  by_cases hcp : C p
  · simp [hcp] at hne
  · simp only [hcp, if_false] at hne heq
    by_cases hcq : C q
    · simp only [hcq, if_true] at heq; exact absurd heq hne
    · simp only [hcq, if_false] at heq
      exact h p q hp hq hne heq

/-- zeroing a block that is no index block of the tree changes no pointer -/
theorem ptrR_zero_other (st : Store) (dirf : Nat → Nat) (r8 r9 b : Nat)
    (h8 : r8 ≠ 0 → b ≠ r8) (h9 : r9 ≠ 0 → b ≠ r9)
    (hm : ∀ j, j < NBLKBLK → r9 ≠ 0 → st r9 j ≠ 0 → b ≠ st r9 j) :
    ∀ q, q.valid → ptrR (st.zero b) dirf r8 r9 q = ptrR st dirf r8 r9 q := by
  intro q hq
  cases q with
  | dir k => simp [ptrR]
  | iroot => simp [ptrR]
  | droot => simp [ptrR]
  | ileaf x =>
    simp only [ptrR, Store.zero]
    by_cases hd : r8 = 0
    · simp [hd]
    · simp [hd, Ne.symm (h8 hd)]
  | dmid j =>
    simp only [ptrR, Store.zero]
    by_cases hd : r9 = 0
    · simp [hd]
    · simp [hd, Ne.symm (h9 hd)]
  | dleaf j x =>
    simp only [ptrR, Store.zero]
    by_cases hd : r9 = 0
    · simp [hd]
    · simp only [hd, if_false, Ne.symm (h9 hd)]
      by_cases hmm : st r9 j = 0
      · simp [hmm]
      · simp [hmm, Ne.symm (hm j hq.1 hd hmm)]

/-- zeroing a block whose cells are zero already changes nothing -/
theorem zero_noop (st : Store) (b : Nat) (h : ∀ x, st b x = 0) : st.zero b = st := by
  funext y x
  simp only [Store.zero]
  split
  · rename_i he; rw [he, h x]
  · rfl

/-- clearing the cell of a middle block whose own cells are all zero -/
theorem ptrR_clear_dmid (st : Store) (dirf : Nat → Nat) (r8 r9 : Nat) (h : InjR st dirf r8 r9)
    (j : Nat) (hr : r9 ≠ 0) (hkids : st r9 j = 0 ∨ ∀ x, x < NBLKBLK → st (st r9 j) x = 0) :
    ∀ q, q.valid → ptrR (st.put r9 j 0) dirf r8 r9 q = if q = .dmid j then 0 else ptrR st dirf r8 r9 q := by
  intro q hq
  have h89 : r8 ≠ 0 → r8 ≠ r9 := by
    intro h8 he
    have := h .iroot .droot trivial trivial (by simpa [ptrR] using h8) (by simp [ptrR, he])
    cases this
  have hm9 : ∀ y, y < NBLKBLK → st r9 y ≠ 0 → st r9 y ≠ r9 := by
    intro y hy hm he
    have := h (.dmid y) .droot hy trivial (by simpa [ptrR, hr] using hm) (by simp [ptrR, hr, he])
    cases this
  cases q with
  | dir k => simp [ptrR]
  | iroot => simp [ptrR]
  | droot => simp [ptrR]
  | ileaf x =>
    simp only [ptrR, Store.put]
    by_cases hd : r8 = 0
    · simp [hd]
    · simp [hd, h89 hd]
  | dmid y =>
    simp only [ptrR, hr, if_false, Store.put, Pos.dmid.injEq, true_and]
  | dleaf y x =>
    simp only [ptrR, hr, if_false, Store.put, true_and]
    by_cases hy : y = j
    · subst hy
      simp only [if_true]
      rcases hkids with h0 | hk
      · simp [h0]
      · by_cases hm : st r9 y = 0
        · simp [hm]
        · simp [hm, hk x hq.2]
    · simp only [hy, if_false]
      by_cases hm : st r9 y = 0
      · simp [hm]
      · simp [hm, hm9 y hq.1 hm]


/-! ### `indshrink` in flat form -/

theorem indshrink_zero (s : S) (root bn : Nat) :
    indshrink s root 0 bn = if root = 0 then (s, 0) else (s, root) := by
  unfold indshrink
  by_cases h : root = 0 <;> simp [h]

theorem indshrink_one (s : S) (r off : Nat) (hr : r ≠ 0) :
    indshrink s r 1 off =
      (if s.st r off ≠ 0 then ({ s with st := s.st.put r off 0 } : S).free (s.st r off) else s,
       if off = 0 then r else 0) := by
  unfold indshrink
  simp only [hr, if_false, pow, Nat.div_one, Nat.mod_one, indshrink_zero]
  by_cases hn : s.st r off = 0
  · simp [hn]
  · simp [hn]

theorem indshrink_two (s : S) (d bn : Nat) (hd : d ≠ 0) :
    indshrink s d 2 bn =
      (if s.st d (bn / NBLKBLK) ≠ 0 then
          (if (indshrink s (s.st d (bn / NBLKBLK)) 1 (bn % NBLKBLK)).2 ≠ 0 then
            ({ (indshrink s (s.st d (bn / NBLKBLK)) 1 (bn % NBLKBLK)).1 with
                st := (indshrink s (s.st d (bn / NBLKBLK)) 1 (bn % NBLKBLK)).1.st.put d (bn / NBLKBLK) 0 } : S).free
              (indshrink s (s.st d (bn / NBLKBLK)) 1 (bn % NBLKBLK)).2
           else (indshrink s (s.st d (bn / NBLKBLK)) 1 (bn % NBLKBLK)).1)
        else s,
       if bn / NBLKBLK = 0 ∧ bn % NBLKBLK = 0 then d else 0) := by
  conv => lhs; unfold indshrink
  simp only [hd, if_false, pow]

theorem free_st (s : S) (b : Nat) : (s.free b).st = if b = 0 then s.st else s.st.zero b := by
  unfold S.free; split <;> rfl

theorem free_freed (s : S) (b : Nat) : (s.free b).freed = if b = 0 then s.freed else b :: s.freed := by
  unfold S.free; split <;> rfl

theorem free_allocs (s : S) (b : Nat) : (s.free b).allocs = s.allocs := by
  unfold S.free; split <;> rfl


/-! ### one round of `Shrink` -/

def InjB (st : Store) (blks : List Nat) : Prop :=
  InjR st (fun i => blks.getD i 0) (blks.getD INDIRECT 0) (blks.getD DINDIRECT 0)

def EmptyFrom (st : Store) (blks : List Nat) (n : Nat) : Prop :=
  ∀ q, q.valid → n ≤ firstBn q → ptr st blks q = 0

structure ShrinkOK (s s' : S) (blks blks' : List Nat) (idx : Nat) : Prop where
  len : blks'.length = NDIRECT + 2
  /-- exactly the positions whose subtree starts at `idx` are cleared -/
  ptrs : ∀ q, q.valid → ptr s'.st blks' q = if firstBn q = idx then 0 else ptr s.st blks q
  /-- exactly the blocks they pointed to are freed -/
  freed : ∀ b, b ∈ s'.freed ↔ b ∈ s.freed ∨ (b ≠ 0 ∧ ∃ q, q.valid ∧ firstBn q = idx ∧ ptr s.st blks q = b)
  allocs : s'.allocs = s.allocs

/-- a data block is no index block -/
theorem data_not_index (st : Store) (blks : List Nat) (h : InjB st blks) (p : Pos) (hp : p.valid)
    (hd : p.isData) (hb : ptr st blks p ≠ 0) :
    (blks.getD INDIRECT 0 ≠ 0 → ptr st blks p ≠ blks.getD INDIRECT 0) ∧
    (blks.getD DINDIRECT 0 ≠ 0 → ptr st blks p ≠ blks.getD DINDIRECT 0) ∧
    (∀ j, j < NBLKBLK → blks.getD DINDIRECT 0 ≠ 0 → st (blks.getD DINDIRECT 0) j ≠ 0 →
      ptr st blks p ≠ st (blks.getD DINDIRECT 0) j) := by
  refine ⟨?_, ?_, ?_⟩
  · intro h8 he
    have := h p .iroot hp trivial hb (by show ptr st blks p = ptr st blks .iroot; rw [he]; rfl)
    rw [this] at hd; exact hd
  · intro h9 he
    have := h p .droot hp trivial hb (by show ptr st blks p = ptr st blks .droot; rw [he]; rfl)
    rw [this] at hd; exact hd
  · intro j hj h9 hm he
    have := h p (.dmid j) hp hj hb (by show ptr st blks p = ptr st blks (.dmid j); rw [he, ptr_eq_ptrR]; simp only [ptrR, h9, if_false])
    rw [this] at hd; exact hd

theorem shrinkStep_dir (s : S) (blks : List Nat) (idx : Nat) (hl : blks.length = NDIRECT + 2)
    (hinj : InjB s.st blks) (hidx : idx < NDIRECT) :
    ShrinkOK s (shrinkStep s blks idx).1 blks (shrinkStep s blks idx).2 idx := by
  unfold shrinkStep
  simp only [hidx, if_true]
  have hfb : ∀ q, q.valid → (firstBn q = idx ↔ q = .dir idx) := by
    intro q hq
    cases q <;> simp only [firstBn, Pos.valid, NDIRECT, NBLKBLK] at * <;> first | (constructor <;> intro h <;> first | omega | cases h | (rw [h]) | (injection h with h; omega)) | skip
    all_goals (constructor <;> intro h <;> first | (rw [h]) | (injection h))
  have hdp : ptr s.st blks (.dir idx) = blks.getD idx 0 := rfl
  have hzero : ∀ q, q.valid → ptr (s.free (blks.getD idx 0)).st blks q = ptr s.st blks q := by
    intro q hq
    rw [free_st]
    by_cases hb : blks.getD idx 0 = 0
    · rw [if_pos hb]
    · rw [if_neg hb]
      obtain ⟨a1, a2, a3⟩ := data_not_index s.st blks hinj (.dir idx) hidx trivial (by rw [hdp]; exact hb)
      rw [hdp] at a1 a2 a3
      rw [ptr_eq_ptrR, ptr_eq_ptrR]
      exact ptrR_zero_other s.st _ _ _ _ a1 a2 a3 q hq
  refine ⟨by simp [hl], ?_, ?_, free_allocs _ _⟩
  · intro q hq
    rw [ptr_set_dir _ blks idx 0 hl hidx q hq, hzero q hq]
    by_cases hc : q = .dir idx
    · simp [hc, firstBn]
    · have : ¬ firstBn q = idx := fun h => hc ((hfb q hq).1 h)
      simp [hc, this]
  · intro b
    rw [free_freed]
    by_cases hb0 : blks.getD idx 0 = 0
    · simp only [hb0, if_true]
      constructor
      · exact Or.inl
      · rintro (h | ⟨hne, q, hq, hf, hp⟩)
        · exact h
        · rw [(hfb q hq).1 hf, hdp, hb0] at hp; exact absurd hp.symm hne
    · simp only [hb0, if_false, List.mem_cons]
      constructor
      · rintro (h | h)
        · exact Or.inr ⟨by rw [h]; exact hb0, .dir idx, hidx, rfl, by rw [hdp, h]⟩
        · exact Or.inl h
      · rintro (h | ⟨_, q, hq, hf, hp⟩)
        · exact Or.inr h
        · rw [(hfb q hq).1 hf, hdp] at hp; exact Or.inl hp.symm


theorem ptr_clear_iroot (st : Store) (blks : List Nat) (hl : blks.length = NDIRECT + 2)
    (hz : blks.getD INDIRECT 0 = 0 ∨ ∀ x, x < NBLKBLK → st (blks.getD INDIRECT 0) x = 0) :
    ∀ q, q.valid → ptr st (blks.set INDIRECT 0) q = if q = .iroot then 0 else ptr st blks q := by
  intro q hq
  have hkl : INDIRECT < blks.length := by rw [hl]; decide
  have h8 : (blks.set INDIRECT 0).getD INDIRECT 0 = 0 := by
    rw [getD_set _ _ _ _ hkl]; simp
  have h9 : (blks.set INDIRECT 0).getD DINDIRECT 0 = blks.getD DINDIRECT 0 := by
    rw [getD_set _ _ _ _ hkl]; simp [INDIRECT, DINDIRECT]
  unfold ptr
  rw [h8, h9]
  generalize blks.getD INDIRECT 0 = r at hz
  cases q with
  | dir i =>
    simp only [ptrR]
    rw [getD_set _ _ _ _ hkl]
    have : i ≠ INDIRECT := by simp only [Pos.valid, NDIRECT, INDIRECT] at *; omega
    simp [this]
  | iroot => simp [ptrR]
  | droot => simp [ptrR]
  | ileaf x =>
    rcases hz with h0 | hz
    · simp [ptrR, h0]
    · simp [ptrR, hz x hq]
  | dmid j => simp [ptrR]
  | dleaf j x => simp [ptrR]

theorem ptr_clear_droot (st : Store) (blks : List Nat) (hl : blks.length = NDIRECT + 2)
    (hz : blks.getD DINDIRECT 0 = 0 ∨ ∀ x, x < NBLKBLK → st (blks.getD DINDIRECT 0) x = 0) :
    ∀ q, q.valid → ptr st (blks.set DINDIRECT 0) q = if q = .droot then 0 else ptr st blks q := by
  intro q hq
  have hkl : DINDIRECT < blks.length := by rw [hl]; decide
  have h9 : (blks.set DINDIRECT 0).getD DINDIRECT 0 = 0 := by
    rw [getD_set _ _ _ _ hkl]; simp
  have h8 : (blks.set DINDIRECT 0).getD INDIRECT 0 = blks.getD INDIRECT 0 := by
    rw [getD_set _ _ _ _ hkl]; simp [INDIRECT, DINDIRECT]
  unfold ptr
  rw [h8, h9]
  generalize blks.getD DINDIRECT 0 = r at hz
  cases q with
  | dir i =>
    simp only [ptrR]
    rw [getD_set _ _ _ _ hkl]
    have : i ≠ DINDIRECT := by simp only [Pos.valid, NDIRECT, DINDIRECT] at *; omega
    simp [this]
  | iroot => simp [ptrR]
  | droot => simp [ptrR]
  | ileaf x => simp [ptrR]
  | dmid j =>
    rcases hz with h0 | hz
    · simp [ptrR, h0]
    · simp [ptrR, hz j hq]
  | dleaf j x =>
    rcases hz with h0 | hz
    · simp [ptrR, h0]
    · simp [ptrR, hz j hq.1]


/-- clear cell `off` of index block `r` and free the block it pointed to -/
def leafClear (s : S) (r off : Nat) : S :=
  if s.st r off ≠ 0 then ({ s with st := s.st.put r off 0 } : S).free (s.st r off) else s

theorem leafClear_st (s : S) (r off : Nat) :
    (leafClear s r off).st = if s.st r off = 0 then s.st else (s.st.put r off 0).zero (s.st r off) := by
  unfold leafClear
  by_cases h : s.st r off = 0
  · simp [h]
  · simp only [ne_eq, h, not_false_eq_true, if_true, if_false, free_st]

theorem leafClear_freed (s : S) (r off : Nat) :
    (leafClear s r off).freed = if s.st r off = 0 then s.freed else s.st r off :: s.freed := by
  unfold leafClear
  by_cases h : s.st r off = 0
  · simp [h]
  · simp only [ne_eq, h, not_false_eq_true, if_true, if_false, free_freed]

theorem leafClear_allocs (s : S) (r off : Nat) : (leafClear s r off).allocs = s.allocs := by
  unfold leafClear
  split
  · rw [free_allocs]
  · rfl

/-- `leafClear` on an index block the tree owns, whose cell `off` is the data position `C` -/
theorem leafClear_ptr (s : S) (blks : List Nat) (h : InjB s.st blks) (r off : Nat) (C : Pos)
    (hC : C.valid) (hCd : C.isData) (hCv : ptr s.st blks C = s.st r off)
    (hput : ∀ q, q.valid → ptr (s.st.put r off 0) blks q = if q = C then 0 else ptr s.st blks q)
    (hrr : ∀ j, j < NBLKBLK → blks.getD DINDIRECT 0 ≠ 0 →
      (s.st.put r off 0) (blks.getD DINDIRECT 0) j = s.st (blks.getD DINDIRECT 0) j ∨
      (s.st.put r off 0) (blks.getD DINDIRECT 0) j = 0) :
    ∀ q, q.valid → ptr (leafClear s r off).st blks q = if q = C then 0 else ptr s.st blks q := by
  intro q hq
  rw [leafClear_st]
  by_cases hn : s.st r off = 0
  · rw [if_pos hn]
    by_cases hc : q = C
    · rw [hc, hCv, hn]; simp
    · simp [hc]
  · rw [if_neg hn]
    have hb : ptr s.st blks C ≠ 0 := by rw [hCv]; exact hn
    obtain ⟨a1, a2, a3⟩ := data_not_index s.st blks h C hC hCd hb
    rw [hCv] at a1 a2 a3
    rw [← hput q hq, ptr_eq_ptrR, ptr_eq_ptrR]
    refine ptrR_zero_other _ _ _ _ _ a1 a2 ?_ q hq
    intro j hj h9 hm
    rcases hrr j hj h9 with he | he
    · rw [he] at hm ⊢; exact a3 j hj h9 hm
    · exact absurd he hm


theorem firstBn_ind (q : Pos) (hq : q.valid) (off : Nat) (hoff : off < NBLKBLK) :
    firstBn q = NDIRECT + off ↔ (q = .ileaf off ∨ (off = 0 ∧ q = .iroot)) := by
  cases q with
  | dir k =>
    simp only [firstBn, Pos.valid, NDIRECT] at *
    constructor
    · intro h; omega
    · rintro (h | ⟨_, h⟩) <;> cases h
  | iroot =>
    simp only [firstBn]
    constructor
    · intro h; exact Or.inr ⟨by omega, trivial⟩
    · rintro (h | ⟨h, _⟩)
      · cases h
      · omega
  | ileaf x =>
    simp only [firstBn]
    constructor
    · intro h; exact Or.inl (by rw [show x = off by omega])
    · rintro (h | ⟨_, h⟩)
      · injection h with h; omega
      · cases h
  | droot =>
    simp only [firstBn, NBLKBLK] at *
    constructor
    · intro h; omega
    · rintro (h | ⟨_, h⟩) <;> cases h
  | dmid j =>
    simp only [firstBn, NBLKBLK] at *
    constructor
    · intro h; omega
    · rintro (h | ⟨_, h⟩) <;> cases h
  | dleaf j x =>
    simp only [firstBn, NBLKBLK] at *
    constructor
    · intro h; omega
    · rintro (h | ⟨_, h⟩) <;> cases h

theorem leafClear_other (s : S) (r off y x : Nat) (h1 : y ≠ r) (h2 : y ≠ s.st r off) :
    (leafClear s r off).st y x = s.st y x := by
  rw [leafClear_st]
  split
  · rfl
  · simp [Store.zero, Store.put, h1, h2]

theorem leafClear_self (s : S) (r off x : Nat) (h : s.st r off ≠ r) :
    (leafClear s r off).st r x = if x = off then 0 else s.st r x := by
  rw [leafClear_st]
  by_cases hn : s.st r off = 0
  · rw [if_pos hn]
    by_cases hx : x = off
    · rw [hx, hn]; simp
    · simp [hx]
  · rw [if_neg hn]
    simp only [Store.zero, Store.put, Ne.symm h, if_false, true_and]

theorem shrinkStep_ind (s : S) (blks : List Nat) (off : Nat) (hl : blks.length = NDIRECT + 2)
    (hinj : InjB s.st blks) (hoff : off < NBLKBLK)
    (hemp : EmptyFrom s.st blks (NDIRECT + off + 1)) :
    ShrinkOK s (shrinkStep s blks (NDIRECT + off)).1 blks (shrinkStep s blks (NDIRECT + off)).2 (NDIRECT + off) := by
  unfold shrinkStep
  have h1 : ¬ NDIRECT + off < NDIRECT := by omega
  have h2 : NDIRECT + off - NDIRECT = off := by omega
  simp only [h1, if_false, h2, hoff, if_true]
  by_cases hr : blks.getD INDIRECT 0 = 0
  · -- no indirect block: nothing to do
    have hz : ∀ q, q.valid → firstBn q = NDIRECT + off → ptr s.st blks q = 0 := by
      intro q hq hf
      rcases (firstBn_ind q hq off hoff).1 hf with h | ⟨_, h⟩
      · rw [h, ptr_eq_ptrR]; simp only [ptrR, hr, if_true]
      · rw [h, ptr_eq_ptrR]; simp only [ptrR, hr]
    have : indshrink s (blks.getD INDIRECT 0) 1 off = (s, 0) := by
      rw [hr]; unfold indshrink; simp
    rw [this]
    simp only [ne_eq, not_true_eq_false, if_false]
    refine ⟨hl, ?_, ?_, rfl⟩
    · intro q hq
      by_cases hf : firstBn q = NDIRECT + off
      · simp [hf, hz q hq hf]
      · simp [hf]
    · intro b
      constructor
      · exact Or.inl
      · rintro (h | ⟨hne, q, hq, hf, hp⟩)
        · exact h
        · rw [hz q hq hf] at hp; exact absurd hp.symm hne
  · rw [indshrink_one _ _ _ hr]
    generalize hrr : blks.getD INDIRECT 0 = r at hr
    have hleafv : ptr s.st blks (.ileaf off) = s.st r off := by
      rw [ptr_eq_ptrR]; simp only [ptrR, hrr, hr, if_false]
    have hirootv : ptr s.st blks .iroot = r := hrr
    have hir0 : ptr s.st blks .iroot ≠ 0 := by rw [hirootv]; exact hr
    have h98 : blks.getD DINDIRECT 0 ≠ 0 → blks.getD DINDIRECT 0 ≠ r := by
      intro h9 he
      have := hinj .droot .iroot trivial trivial (show ptr s.st blks .droot ≠ 0 from h9)
        (show ptr s.st blks .droot = ptr s.st blks .iroot from he.trans hrr.symm)
      cases this
    have hmid : ∀ j, j < NBLKBLK → blks.getD DINDIRECT 0 ≠ 0 → s.st (blks.getD DINDIRECT 0) j ≠ 0 →
        s.st (blks.getD DINDIRECT 0) j ≠ r := by
      intro j hj h9 hm he
      have := hinj (.dmid j) .iroot hj trivial
        (show ptr s.st blks (.dmid j) ≠ 0 by rw [ptr_eq_ptrR]; simpa only [ptrR, h9, if_false] using hm)
        (show ptr s.st blks (.dmid j) = ptr s.st blks .iroot by
          rw [hirootv, ptr_eq_ptrR]; simp only [ptrR, h9, if_false]; exact he)
      cases this
    have hleafr : s.st r off ≠ r := by
      intro he
      have hne : ptr s.st blks (.ileaf off) ≠ 0 := by rw [hleafv, he]; exact hr
      have := hinj (.ileaf off) .iroot hoff trivial hne (by
        show ptr s.st blks (.ileaf off) = ptr s.st blks .iroot
        rw [hleafv, he, hirootv])
      cases this
    have hput : ∀ q, q.valid → ptr (s.st.put r off 0) blks q = if q = .ileaf off then 0 else ptr s.st blks q := by
      intro q hq
      rw [ptr_eq_ptrR, ptr_eq_ptrR, hrr]
      exact ptrR_put_iroot s.st _ r _ (by have := hinj; unfold InjB at this; rw [hrr] at this; exact this) off 0 hr q hq
    have hlc := leafClear_ptr s blks hinj r off (.ileaf off) hoff trivial hleafv hput (by
      intro j hj h9
      left
      unfold Store.put
      rw [if_neg]
      intro hc
      exact h98 h9 hc.1)
    have hfold : (if s.st r off ≠ 0 then ({ s with st := s.st.put r off 0 } : S).free (s.st r off) else s) = leafClear s r off := rfl
    rw [hfold]
    by_cases ho : off = 0
    · -- the indirect block itself goes too
      subst ho
      simp only [if_true, ne_eq, hr, not_false_eq_true]
      have hcells : ∀ x, x < NBLKBLK → (leafClear s r 0).st r x = 0 := by
        intro x hx
        rw [leafClear_self s r 0 x hleafr]
        by_cases hx0 : x = 0
        · simp [hx0]
        · simp only [hx0, if_false]
          have := hemp (.ileaf x) hx (by simp only [firstBn]; omega)
          rw [ptr_eq_ptrR] at this
          simpa only [ptrR, hrr, hr, if_false] using this
      have hlen' : (blks.set INDIRECT 0).length = NDIRECT + 2 := by simp [hl]
      have h8' : (blks.set INDIRECT 0).getD INDIRECT 0 = 0 := by
        rw [getD_set _ _ _ _ (by rw [hl]; decide)]; simp
      have h9' : (blks.set INDIRECT 0).getD DINDIRECT 0 = blks.getD DINDIRECT 0 := by
        rw [getD_set _ _ _ _ (by rw [hl]; decide)]; simp [INDIRECT, DINDIRECT]
      have hA : ∀ q, q.valid → ptr ((leafClear s r 0).free r).st (blks.set INDIRECT 0) q =
          ptr (leafClear s r 0).st (blks.set INDIRECT 0) q := by
        intro q hq
        rw [free_st, if_neg hr, ptr_eq_ptrR, ptr_eq_ptrR, h8', h9']
        refine ptrR_zero_other _ _ _ _ r (fun h => absurd rfl h) (fun h9 => Ne.symm (h98 h9)) ?_ q hq
        intro j hj h9 hm
        by_cases hm0 : s.st (blks.getD DINDIRECT 0) j = 0
        · -- the cell is empty in the old store, hence in the new one
          rw [leafClear_other s r 0 _ j (h98 h9) (by
            intro he
            -- the data block would be the double-indirect root
            have hne : ptr s.st blks (.ileaf 0) ≠ 0 := by rw [hleafv, ← he]; exact h9
            have := hinj (.ileaf 0) .droot hoff trivial hne (by
              show ptr s.st blks (.ileaf 0) = ptr s.st blks .droot
              rw [hleafv, ← he]; rfl)
            cases this)] at hm
          exact absurd hm0 hm
        · rw [leafClear_other s r 0 _ j (h98 h9) (by
            intro he
            have hne : ptr s.st blks (.ileaf 0) ≠ 0 := by rw [hleafv, ← he]; exact h9
            have := hinj (.ileaf 0) .droot hoff trivial hne (by
              show ptr s.st blks (.ileaf 0) = ptr s.st blks .droot
              rw [hleafv, ← he]; rfl)
            cases this)]
          exact Ne.symm (hmid j hj h9 hm0)
      have hB := ptr_clear_iroot (leafClear s r 0).st blks hl (Or.inr (by rw [hrr]; exact hcells))
      refine ⟨hlen', ?_, ?_, by rw [free_allocs, leafClear_allocs]⟩
      · intro q hq
        rw [hA q hq, hB q hq, hlc q hq]
        by_cases hf : firstBn q = NDIRECT + 0
        · rcases (firstBn_ind q hq 0 hoff).1 hf with h | ⟨_, h⟩
          · simp [h, firstBn]
          · simp [h, firstBn]
        · have n1 : q ≠ .iroot := fun h => hf ((firstBn_ind q hq 0 hoff).2 (Or.inr ⟨rfl, h⟩))
          have n2 : q ≠ .ileaf 0 := fun h => hf ((firstBn_ind q hq 0 hoff).2 (Or.inl h))
          rw [if_neg n1, if_neg n2, if_neg hf]
      · intro b
        rw [free_freed, if_neg hr, leafClear_freed]
        constructor
        · intro hm
          rw [List.mem_cons] at hm
          rcases hm with h | hm
          · exact Or.inr ⟨by rw [h]; exact hr, .iroot, trivial, rfl, by rw [hirootv, h]⟩
          · by_cases hn : s.st r 0 = 0
            · rw [if_pos hn] at hm; exact Or.inl hm
            · rw [if_neg hn, List.mem_cons] at hm
              rcases hm with h | hm
              · exact Or.inr ⟨by rw [h]; exact hn, .ileaf 0, hoff, rfl, by rw [hleafv, h]⟩
              · exact Or.inl hm
        · rintro (h | ⟨hne, q, hq, hf, hp⟩)
          · rw [List.mem_cons]; right
            split
            · exact h
            · exact List.mem_cons_of_mem _ h
          · rcases (firstBn_ind q hq 0 hoff).1 hf with hq' | ⟨_, hq'⟩
            · rw [hq', hleafv] at hp
              rw [List.mem_cons]; right
              have hn : ¬ s.st r 0 = 0 := by rw [hp]; exact hne
              rw [if_neg hn, hp]; exact List.mem_cons_self
            · rw [hq', hirootv] at hp
              rw [hp]; exact List.mem_cons_self
    · simp only [ho, if_false, ne_eq, not_true_eq_false]
      refine ⟨hl, ?_, ?_, leafClear_allocs _ _ _⟩
      · intro q hq
        rw [hlc q hq]
        by_cases hf : firstBn q = NDIRECT + off
        · rcases (firstBn_ind q hq off hoff).1 hf with h | ⟨h, _⟩
          · simp [h, firstBn]
          · exact absurd h ho
        · have n2 : q ≠ .ileaf off := fun h => hf ((firstBn_ind q hq off hoff).2 (Or.inl h))
          simp [hf, n2]
      · intro b
        rw [leafClear_freed]
        constructor
        · intro hm
          by_cases hn : s.st r off = 0
          · rw [if_pos hn] at hm; exact Or.inl hm
          · rw [if_neg hn, List.mem_cons] at hm
            rcases hm with h | hm
            · exact Or.inr ⟨by rw [h]; exact hn, .ileaf off, hoff, rfl, by rw [hleafv, h]⟩
            · exact Or.inl hm
        · rintro (h | ⟨hne, q, hq, hf, hp⟩)
          · split
            · exact h
            · exact List.mem_cons_of_mem _ h
          · rcases (firstBn_ind q hq off hoff).1 hf with hq' | ⟨h0, _⟩
            · rw [hq', hleafv] at hp
              have hn : ¬ s.st r off = 0 := by rw [hp]; exact hne
              rw [if_neg hn, hp]; exact List.mem_cons_self
            · exact absurd h0 ho


theorem firstBn_dind (q : Pos) (hq : q.valid) (o : Nat) (ho : o < NBLKBLK * NBLKBLK) :
    firstBn q = NDIRECT + NBLKBLK + o ↔
      (q = .dleaf (o / NBLKBLK) (o % NBLKBLK) ∨ (o % NBLKBLK = 0 ∧ q = .dmid (o / NBLKBLK)) ∨ (o = 0 ∧ q = .droot)) := by
  have hdm := Nat.div_add_mod o NBLKBLK
  cases q with
  | dir k =>
    simp only [firstBn, Pos.valid, NDIRECT, NBLKBLK] at *
    constructor
    · intro h; omega
    · rintro (h | ⟨_, h⟩ | ⟨_, h⟩) <;> cases h
  | iroot =>
    simp only [firstBn, NBLKBLK] at *
    constructor
    · intro h; omega
    · rintro (h | ⟨_, h⟩ | ⟨_, h⟩) <;> cases h
  | ileaf x =>
    simp only [firstBn, Pos.valid, NBLKBLK] at *
    constructor
    · intro h; omega
    · rintro (h | ⟨_, h⟩ | ⟨_, h⟩) <;> cases h
  | droot =>
    simp only [firstBn]
    constructor
    · intro h; exact Or.inr (Or.inr ⟨by omega, trivial⟩)
    · rintro (h | ⟨_, h⟩ | ⟨h, _⟩)
      · cases h
      · cases h
      · omega
  | dmid y =>
    simp only [firstBn, Pos.valid, NBLKBLK] at *
    constructor
    · intro h
      have h1 : o = 512 * y := by omega
      refine Or.inr (Or.inl ⟨by omega, ?_⟩)
      rw [show y = o / 512 by omega]
    · rintro (h | ⟨h0, h⟩ | ⟨_, h⟩)
      · cases h
      · injection h with h; omega
      · cases h
  | dleaf y x =>
    simp only [firstBn, Pos.valid, NBLKBLK] at *
    constructor
    · intro h
      have h1 : o = 512 * y + x := by omega
      refine Or.inl ?_
      rw [show y = o / 512 by omega, show x = o % 512 by omega]
    · rintro (h | ⟨_, h⟩ | ⟨_, h⟩)
      · injection h with h1 h2; omega
      · cases h
      · cases h


theorem shrinkStep_dind (s : S) (blks : List Nat) (o : Nat) (hl : blks.length = NDIRECT + 2)
    (hinj : InjB s.st blks) (ho : o < NBLKBLK * NBLKBLK)
    (hemp : EmptyFrom s.st blks (NDIRECT + NBLKBLK + o + 1)) :
    ShrinkOK s (shrinkStep s blks (NDIRECT + NBLKBLK + o)).1 blks (shrinkStep s blks (NDIRECT + NBLKBLK + o)).2
      (NDIRECT + NBLKBLK + o) := by
  have hj : o / NBLKBLK < NBLKBLK := by simp only [NBLKBLK] at *; omega
  have hi : o % NBLKBLK < NBLKBLK := by simp only [NBLKBLK] at *; omega
  have hdm := Nat.div_add_mod o NBLKBLK
  unfold shrinkStep
  have h1 : ¬ NDIRECT + NBLKBLK + o < NDIRECT := by omega
  have h2 : ¬ NDIRECT + NBLKBLK + o - NDIRECT < NBLKBLK := by omega
  have h3 : NDIRECT + NBLKBLK + o - NDIRECT - NBLKBLK = o := by omega
  simp only [h1, if_false, h2, h3]
  generalize hjj : o / NBLKBLK = j at *
  generalize hii : o % NBLKBLK = i at *
  have ho0 : o = 0 ↔ (j = 0 ∧ i = 0) := by
    simp only [NBLKBLK] at *; omega
  by_cases hr : blks.getD DINDIRECT 0 = 0
  · -- no double-indirect block
    have hz : ∀ q, q.valid → firstBn q = NDIRECT + NBLKBLK + o → ptr s.st blks q = 0 := by
      intro q hq hf
      rcases (firstBn_dind q hq o ho).1 hf with h | ⟨_, h⟩ | ⟨_, h⟩
      · rw [h, ptr_eq_ptrR]; simp only [ptrR, hr, if_true]
      · rw [h, ptr_eq_ptrR]; simp only [ptrR, hr, if_true]
      · rw [h, ptr_eq_ptrR]; simp only [ptrR, hr]
    have : indshrink s (blks.getD DINDIRECT 0) 2 o = (s, 0) := by
      rw [hr]; unfold indshrink; simp
    rw [this]
    simp only [ne_eq, not_true_eq_false, if_false]
    refine ⟨hl, ?_, ?_, rfl⟩
    · intro q hq
      by_cases hf : firstBn q = NDIRECT + NBLKBLK + o
      · simp [hf, hz q hq hf]
      · simp [hf]
    · intro b
      constructor
      · exact Or.inl
      · rintro (h | ⟨hne, q, hq, hf, hp⟩)
        · exact h
        · rw [hz q hq hf] at hp; exact absurd hp.symm hne
  · rw [indshrink_two _ _ _ hr, hjj, hii]
    generalize hdd : blks.getD DINDIRECT 0 = d at hr
    have hdrootv : ptr s.st blks .droot = d := hdd
    have hmidv : ∀ y, ptr s.st blks (.dmid y) = s.st d y := by
      intro y; rw [ptr_eq_ptrR]; simp only [ptrR, hdd, hr, if_false]
    have h8d : blks.getD INDIRECT 0 ≠ 0 → blks.getD INDIRECT 0 ≠ d := by
      intro h8 he
      have := hinj .iroot .droot trivial trivial (show ptr s.st blks .iroot ≠ 0 from h8)
        (show ptr s.st blks .iroot = ptr s.st blks .droot from he.trans hdd.symm)
      cases this
    have hmd : ∀ y, y < NBLKBLK → s.st d y ≠ 0 → s.st d y ≠ d := by
      intro y hy hm he
      have := hinj (.dmid y) .droot hy trivial (show ptr s.st blks (.dmid y) ≠ 0 by rw [hmidv]; exact hm) (by
        show ptr s.st blks (.dmid y) = ptr s.st blks .droot
        rw [hmidv, hdrootv, he])
      cases this
    -- the positions cleared in this round
    have hfb := fun q hq => firstBn_dind q hq o ho
    rw [hjj, hii] at hfb
    by_cases hm : s.st d j = 0
    · -- no middle block: at most the root goes
      simp only [hm, ne_eq, not_true_eq_false, if_false]
      have hleaf0 : ptr s.st blks (.dleaf j i) = 0 := by
        rw [ptr_eq_ptrR]; simp only [ptrR, hdd, hr, if_false, hm, if_true]
      by_cases hroot : j = 0 ∧ i = 0
      · obtain ⟨hj0, hi0⟩ := hroot
        subst hj0; subst hi0
        simp only [and_self, if_true, hr, not_false_eq_true]
        have hcells : ∀ x, x < NBLKBLK → s.st d x = 0 := by
          intro x hx
          by_cases hx0 : x = 0
          · rw [hx0]; exact hm
          · have := hemp (.dmid x) hx (by simp only [firstBn, NBLKBLK] at *; omega)
            rw [hmidv] at this; exact this
        have h8' : (blks.set DINDIRECT 0).getD INDIRECT 0 = blks.getD INDIRECT 0 := by
          rw [getD_set _ _ _ _ (by rw [hl]; decide)]; simp [INDIRECT, DINDIRECT]
        have h9' : (blks.set DINDIRECT 0).getD DINDIRECT 0 = 0 := by
          rw [getD_set _ _ _ _ (by rw [hl]; decide)]; simp
        have hA : ∀ q, q.valid → ptr (s.free d).st (blks.set DINDIRECT 0) q = ptr s.st (blks.set DINDIRECT 0) q := by
          intro q hq
          rw [free_st, if_neg hr, ptr_eq_ptrR, ptr_eq_ptrR, h8', h9']
          exact ptrR_zero_other _ _ _ _ d (fun h8 => Ne.symm (h8d h8)) (fun h => absurd rfl h)
            (fun _ _ h => absurd rfl h) q hq
        have hB := ptr_clear_droot s.st blks hl (Or.inr (by rw [hdd]; exact hcells))
        refine ⟨by simp [hl], ?_, ?_, free_allocs _ _⟩
        · intro q hq
          rw [hA q hq, hB q hq]
          by_cases hf : firstBn q = NDIRECT + NBLKBLK + o
          · rw [if_pos hf]
            rcases (hfb q hq).1 hf with h | ⟨_, h⟩ | ⟨_, h⟩
            · rw [h, hleaf0]; simp
            · rw [h, hmidv, hm]; simp
            · rw [h]; simp
          · have n1 : q ≠ .droot := fun h => hf ((hfb q hq).2 (Or.inr (Or.inr ⟨ho0.2 ⟨rfl, rfl⟩, h⟩)))
            rw [if_neg n1, if_neg hf]
        · intro b
          rw [free_freed, if_neg hr]
          constructor
          · intro hmem
            rw [List.mem_cons] at hmem
            rcases hmem with h | h
            · exact Or.inr ⟨by rw [h]; exact hr, .droot, trivial, by simp only [firstBn]; omega, by rw [hdrootv, h]⟩
            · exact Or.inl h
          · rintro (h | ⟨hne, q, hq, hf, hp⟩)
            · exact List.mem_cons_of_mem _ h
            · rcases (hfb q hq).1 hf with hq' | ⟨_, hq'⟩ | ⟨_, hq'⟩
              · rw [hq', hleaf0] at hp; exact absurd hp.symm hne
              · rw [hq', hmidv, hm] at hp; exact absurd hp.symm hne
              · rw [hq', hdrootv] at hp; rw [hp]; exact List.mem_cons_self
      · simp only [hroot, if_false, ne_eq, not_true_eq_false]
        refine ⟨hl, ?_, ?_, rfl⟩
        · intro q hq
          by_cases hf : firstBn q = NDIRECT + NBLKBLK + o
          · rw [if_pos hf]
            rcases (hfb q hq).1 hf with h | ⟨_, h⟩ | ⟨h0, _⟩
            · rw [h, hleaf0]
            · rw [h, hmidv, hm]
            · exact absurd (ho0.1 h0) hroot
          · rw [if_neg hf]
        · intro b
          constructor
          · exact Or.inl
          · rintro (h | ⟨hne, q, hq, hf, hp⟩)
            · exact h
            · rcases (hfb q hq).1 hf with hq' | ⟨_, hq'⟩ | ⟨h0, _⟩
              · rw [hq', hleaf0] at hp; exact absurd hp.symm hne
              · rw [hq', hmidv, hm] at hp; exact absurd hp.symm hne
              · exact absurd (ho0.1 h0) hroot
    · -- there is a middle block
      generalize hmm : s.st d j = mid at hm
      have hmidj : ptr s.st blks (.dmid j) = mid := by rw [hmidv, hmm]
      have hmidj0 : ptr s.st blks (.dmid j) ≠ 0 := by rw [hmidj]; exact hm
      have hmidd : mid ≠ d := by rw [← hmm]; exact hmd j hj (by rw [hmm]; exact hm)
      have hmid8 : blks.getD INDIRECT 0 ≠ 0 → blks.getD INDIRECT 0 ≠ mid := by
        intro h8 he
        have := hinj .iroot (.dmid j) trivial hj (show ptr s.st blks .iroot ≠ 0 from h8)
          (show ptr s.st blks .iroot = ptr s.st blks (.dmid j) by rw [hmidj]; exact he)
        cases this
      have hmids : ∀ y, y < NBLKBLK → y ≠ j → s.st d y ≠ 0 → s.st d y ≠ mid := by
        intro y hy hne hmy he
        have := hinj (.dmid y) (.dmid j) hy hj (show ptr s.st blks (.dmid y) ≠ 0 by rw [hmidv]; exact hmy)
          (show ptr s.st blks (.dmid y) = ptr s.st blks (.dmid j) by rw [hmidv, hmidj, he])
        cases this
        exact hne rfl
      have hleafv : ptr s.st blks (.dleaf j i) = s.st mid i := by
        rw [ptr_eq_ptrR]; simp only [ptrR, hdd, hr, if_false, hmm, hm]
      have hleafm : s.st mid i ≠ mid := by
        intro he
        have hne : ptr s.st blks (.dleaf j i) ≠ 0 := by rw [hleafv, he]; exact hm
        have := hinj (.dleaf j i) (.dmid j) ⟨hj, hi⟩ hj hne (by
          show ptr s.st blks (.dleaf j i) = ptr s.st blks (.dmid j)
          rw [hleafv, he, hmidj])
        cases this
      have hleafd : s.st mid i ≠ d := by
        intro he
        have hne : ptr s.st blks (.dleaf j i) ≠ 0 := by rw [hleafv, he]; exact hr
        have := hinj (.dleaf j i) .droot ⟨hj, hi⟩ trivial hne (by
          show ptr s.st blks (.dleaf j i) = ptr s.st blks .droot
          rw [hleafv, he, hdrootv])
        cases this
      have hput : ∀ q, q.valid → ptr (s.st.put mid i 0) blks q = if q = .dleaf j i then 0 else ptr s.st blks q := by
        intro q hq
        rw [ptr_eq_ptrR, ptr_eq_ptrR, hdd]
        have := ptrR_put_dmid s.st (fun i => blks.getD i 0) (blks.getD INDIRECT 0) d
          (by have := hinj; unfold InjB at this; rw [hdd] at this; exact this) j i 0 hj hr (by rw [hmm]; exact hm) q hq
        rw [hmm] at this
        exact this
      have hlc := leafClear_ptr s blks hinj mid i (.dleaf j i) ⟨hj, hi⟩ trivial hleafv hput (by
        intro y hy h9
        left
        unfold Store.put
        rw [if_neg]
        intro hc
        exact hmidd (hdd.symm.trans hc.1).symm)
      rw [indshrink_one _ _ _ hm]
      have hfold : (if s.st mid i ≠ 0 then ({ s with st := s.st.put mid i 0 } : S).free (s.st mid i) else s) = leafClear s mid i := rfl
      simp only [ne_eq, hm, not_false_eq_true, if_true, hfold]
      by_cases hi0 : i = 0
      · -- the last cell of the middle block: the middle block goes too
        subst hi0
        simp only [if_true, hm, not_false_eq_true, and_true]
        -- the stores involved
        have hs1d : ∀ y, (leafClear s mid 0).st d y = s.st d y := fun y =>
          leafClear_other s mid 0 d y (Ne.symm hmidd) (Ne.symm hleafd)
        have hs1mid : ∀ x, x < NBLKBLK → (leafClear s mid 0).st mid x = 0 := by
          intro x hx
          rw [leafClear_self s mid 0 x hleafm]
          by_cases hx0 : x = 0
          · simp [hx0]
          · simp only [hx0, if_false]
            have := hemp (.dleaf j x) ⟨hj, hx⟩ (by simp only [firstBn, NBLKBLK] at *; omega)
            rw [ptr_eq_ptrR] at this
            simpa only [ptrR, hdd, hr, if_false, hmm, hm] using this
        have hinj1 : InjB (leafClear s mid 0).st blks :=
          InjR_clear s.st _ _ _ _ _ _ _ (fun q => q = .dleaf j 0) hinj hlc
        have hP2 : ∀ q, q.valid → ptr ((leafClear s mid 0).st.put d j 0) blks q =
            if q = .dmid j then 0 else ptr (leafClear s mid 0).st blks q := by
          intro q hq
          rw [ptr_eq_ptrR, ptr_eq_ptrR, hdd]
          refine ptrR_clear_dmid _ _ _ d (by have := hinj1; unfold InjB at this; rw [hdd] at this; exact this) j hr ?_ q hq
          right
          intro x hx
          rw [hs1d j, hmm]; exact hs1mid x hx
        have hP3 : ∀ q, q.valid → ptr (((leafClear s mid 0).st.put d j 0).zero mid) blks q =
            ptr ((leafClear s mid 0).st.put d j 0) blks q := by
          intro q hq
          rw [ptr_eq_ptrR, ptr_eq_ptrR]
          refine ptrR_zero_other _ _ _ _ mid (fun h8 => Ne.symm (hmid8 h8)) (fun _ => by rw [hdd]; exact hmidd) ?_ q hq
          intro y hy h9 hmy
          rw [hdd] at hmy ⊢
          unfold Store.put at hmy ⊢
          by_cases hyj : y = j
          · simp [hyj] at hmy
          · simp only [hyj, and_false, if_false] at hmy ⊢
            rw [hs1d y] at hmy ⊢
            exact Ne.symm (hmids y hy hyj hmy)
        have hst2 : (({ leafClear s mid 0 with st := (leafClear s mid 0).st.put d j 0 } : S).free mid).st =
            ((leafClear s mid 0).st.put d j 0).zero mid := by rw [free_st, if_neg hm]
        have hfr2 : (({ leafClear s mid 0 with st := (leafClear s mid 0).st.put d j 0 } : S).free mid).freed =
            mid :: (leafClear s mid 0).freed := by rw [free_freed, if_neg hm]
        have hP : ∀ q, q.valid → ptr (({ leafClear s mid 0 with st := (leafClear s mid 0).st.put d j 0 } : S).free mid).st blks q =
            if q = .dmid j then 0 else if q = .dleaf j 0 then 0 else ptr s.st blks q := by
          intro q hq
          rw [hst2, hP3 q hq, hP2 q hq, hlc q hq]
        have hfreedmem : ∀ b, b ∈ mid :: (leafClear s mid 0).freed ↔
            b ∈ s.freed ∨ b = mid ∨ (b ≠ 0 ∧ b = s.st mid 0) := by
          intro b
          rw [leafClear_freed, List.mem_cons]
          by_cases hn : s.st mid 0 = 0
          · rw [if_pos hn]
            constructor
            · rintro (h | h)
              · exact Or.inr (Or.inl h)
              · exact Or.inl h
            · rintro (h | h | ⟨hne, h⟩)
              · exact Or.inr h
              · exact Or.inl h
              · rw [hn] at h; exact absurd h hne
          · rw [if_neg hn, List.mem_cons]
            constructor
            · rintro (h | h | h)
              · exact Or.inr (Or.inl h)
              · exact Or.inr (Or.inr ⟨by rw [h]; exact hn, h⟩)
              · exact Or.inl h
            · rintro (h | h | ⟨_, h⟩)
              · exact Or.inr (Or.inr h)
              · exact Or.inl h
              · exact Or.inr (Or.inl h)
        by_cases hj0 : j = 0
        · -- and the root
          subst hj0
          simp only [if_true, hr, not_false_eq_true]
          have h8' : (blks.set DINDIRECT 0).getD INDIRECT 0 = blks.getD INDIRECT 0 := by
            rw [getD_set _ _ _ _ (by rw [hl]; decide)]; simp [INDIRECT, DINDIRECT]
          have h9' : (blks.set DINDIRECT 0).getD DINDIRECT 0 = 0 := by
            rw [getD_set _ _ _ _ (by rw [hl]; decide)]; simp
          have hcells : ∀ x, x < NBLKBLK → (((leafClear s mid 0).st.put d 0 0).zero mid) d x = 0 := by
            intro x hx
            simp only [Store.zero, Ne.symm hmidd, if_false, Store.put, true_and]
            by_cases hx0 : x = 0
            · simp [hx0]
            · simp only [hx0, if_false]
              rw [hs1d x]
              have := hemp (.dmid x) hx (by simp only [firstBn, NBLKBLK] at *; omega)
              rw [hmidv] at this; exact this
          have hB := ptr_clear_droot (((leafClear s mid 0).st.put d 0 0).zero mid) blks hl (Or.inr (by rw [hdd]; exact hcells))
          have hA : ∀ q, q.valid →
              ptr ((({ leafClear s mid 0 with st := (leafClear s mid 0).st.put d 0 0 } : S).free mid).free d).st (blks.set DINDIRECT 0) q =
              ptr (((leafClear s mid 0).st.put d 0 0).zero mid) (blks.set DINDIRECT 0) q := by
            intro q hq
            rw [free_st, if_neg hr, hst2, ptr_eq_ptrR, ptr_eq_ptrR, h8', h9']
            exact ptrR_zero_other _ _ _ _ d (fun h8 => Ne.symm (h8d h8)) (fun h => absurd rfl h)
              (fun _ _ h => absurd rfl h) q hq
          refine ⟨by simp [hl], ?_, ?_, by rw [free_allocs, free_allocs]; exact leafClear_allocs _ _ _⟩
          · intro q hq
            rw [hA q hq, hB q hq, ← hst2, hP q hq]
            by_cases hf : firstBn q = NDIRECT + NBLKBLK + o
            · rw [if_pos hf]
              rcases (hfb q hq).1 hf with h | ⟨_, h⟩ | ⟨_, h⟩
              · rw [h]; simp
              · rw [h]; simp
              · rw [h]; simp
            · have n1 : q ≠ .droot := fun h => hf ((hfb q hq).2 (Or.inr (Or.inr ⟨ho0.2 ⟨rfl, rfl⟩, h⟩)))
              have n2 : q ≠ .dmid 0 := fun h => hf ((hfb q hq).2 (Or.inr (Or.inl ⟨rfl, h⟩)))
              have n3 : q ≠ .dleaf 0 0 := fun h => hf ((hfb q hq).2 (Or.inl h))
              rw [if_neg n1, if_neg n2, if_neg n3, if_neg hf]
          · intro b
            rw [free_freed, if_neg hr, List.mem_cons, hfr2, hfreedmem b]
            constructor
            · rintro (h | h | h | ⟨hne, h⟩)
              · exact Or.inr ⟨by rw [h]; exact hr, .droot, trivial, by simp only [firstBn]; omega, by rw [hdrootv, h]⟩
              · exact Or.inl h
              · exact Or.inr ⟨by rw [h]; exact hm, .dmid 0, hj, by simp only [firstBn]; omega, by rw [hmidj, h]⟩
              · exact Or.inr ⟨hne, .dleaf 0 0, ⟨hj, hi⟩, by simp only [firstBn]; omega, by rw [hleafv, h]⟩
            · rintro (h | ⟨hne, q, hq, hf, hp⟩)
              · exact Or.inr (Or.inl h)
              · rcases (hfb q hq).1 hf with hq' | ⟨_, hq'⟩ | ⟨_, hq'⟩
                · rw [hq', hleafv] at hp; exact Or.inr (Or.inr (Or.inr ⟨hne, hp.symm⟩))
                · rw [hq', hmidj] at hp; exact Or.inr (Or.inr (Or.inl hp.symm))
                · rw [hq', hdrootv] at hp; exact Or.inl hp.symm
        · have hnroot : ¬ (j = 0 ∧ True) := fun h => hj0 h.1
          simp only [hj0, false_and, if_false, ne_eq, not_true_eq_false]
          refine ⟨hl, ?_, ?_, by rw [free_allocs]; exact leafClear_allocs _ _ _⟩
          · intro q hq
            rw [hP q hq]
            by_cases hf : firstBn q = NDIRECT + NBLKBLK + o
            · rw [if_pos hf]
              rcases (hfb q hq).1 hf with h | ⟨_, h⟩ | ⟨h0, _⟩
              · rw [h]; simp
              · rw [h]; simp
              · exact absurd (ho0.1 h0).1 hj0
            · have n2 : q ≠ .dmid j := fun h => hf ((hfb q hq).2 (Or.inr (Or.inl ⟨rfl, h⟩)))
              have n3 : q ≠ .dleaf j 0 := fun h => hf ((hfb q hq).2 (Or.inl h))
              rw [if_neg n2, if_neg n3, if_neg hf]
          · intro b
            rw [hfr2, hfreedmem b]
            constructor
            · rintro (h | h | ⟨hne, h⟩)
              · exact Or.inl h
              · exact Or.inr ⟨by rw [h]; exact hm, .dmid j, hj, by simp only [firstBn]; omega, by rw [hmidj, h]⟩
              · exact Or.inr ⟨hne, .dleaf j 0, ⟨hj, hi⟩, by simp only [firstBn]; omega, by rw [hleafv, h]⟩
            · rintro (h | ⟨hne, q, hq, hf, hp⟩)
              · exact Or.inl h
              · rcases (hfb q hq).1 hf with hq' | ⟨_, hq'⟩ | ⟨h0, _⟩
                · rw [hq', hleafv] at hp; exact Or.inr (Or.inr ⟨hne, hp.symm⟩)
                · rw [hq', hmidj] at hp; exact Or.inr (Or.inl hp.symm)
                · exact absurd (ho0.1 h0).1 hj0
      · -- an inner cell: only the data block goes
        simp only [hi0, if_false, ne_eq, not_true_eq_false, and_false]
        refine ⟨hl, ?_, ?_, leafClear_allocs _ _ _⟩
        · intro q hq
          rw [hlc q hq]
          by_cases hf : firstBn q = NDIRECT + NBLKBLK + o
          · rw [if_pos hf]
            rcases (hfb q hq).1 hf with h | ⟨h0, _⟩ | ⟨h0, _⟩
            · rw [h]; simp
            · exact absurd h0 hi0
            · exact absurd (ho0.1 h0).2 hi0
          · have n3 : q ≠ .dleaf j i := fun h => hf ((hfb q hq).2 (Or.inl h))
            rw [if_neg n3, if_neg hf]
        · intro b
          rw [leafClear_freed]
          constructor
          · intro hmem
            by_cases hn : s.st mid i = 0
            · rw [if_pos hn] at hmem; exact Or.inl hmem
            · rw [if_neg hn, List.mem_cons] at hmem
              rcases hmem with h | hmem
              · exact Or.inr ⟨by rw [h]; exact hn, .dleaf j i, ⟨hj, hi⟩, by simp only [firstBn]; omega, by rw [hleafv, h]⟩
              · exact Or.inl hmem
          · rintro (h | ⟨hne, q, hq, hf, hp⟩)
            · split
              · exact h
              · exact List.mem_cons_of_mem _ h
            · rcases (hfb q hq).1 hf with hq' | ⟨h0, _⟩ | ⟨h0, _⟩
              · rw [hq', hleafv] at hp
                have hn : ¬ s.st mid i = 0 := by rw [hp]; exact hne
                rw [if_neg hn, hp]; exact List.mem_cons_self
              · exact absurd h0 hi0
              · exact absurd (ho0.1 h0).2 hi0


/-! ### every round, and the whole run -/

/-- the number of file blocks the block map can address (irreducible: a run of `Shrink` from here
    must never be evaluated by unification) -/
@[irreducible] def MAXBLKS : Nat := NDIRECT + NBLKBLK + NBLKBLK * NBLKBLK

theorem MAXBLKS_eq : MAXBLKS = NDIRECT + NBLKBLK + NBLKBLK * NBLKBLK := by unfold MAXBLKS; rfl

theorem shrinkStep_ok (s : S) (blks : List Nat) (idx : Nat) (hl : blks.length = NDIRECT + 2)
    (hinj : InjB s.st blks) (hidx : idx < MAXBLKS) (hemp : EmptyFrom s.st blks (idx + 1)) :
    ShrinkOK s (shrinkStep s blks idx).1 blks (shrinkStep s blks idx).2 idx := by
  rw [MAXBLKS_eq] at hidx
  by_cases h1 : idx < NDIRECT
  · exact shrinkStep_dir s blks idx hl hinj h1
  · by_cases h2 : idx < NDIRECT + NBLKBLK
    · have he : idx = NDIRECT + (idx - NDIRECT) := by omega
      rw [he] at hemp ⊢
      exact shrinkStep_ind s blks (idx - NDIRECT) hl hinj (by omega) hemp
    · have he : idx = NDIRECT + NBLKBLK + (idx - NDIRECT - NBLKBLK) := by omega
      rw [he] at hemp ⊢
      exact shrinkStep_dind s blks (idx - NDIRECT - NBLKBLK) hl hinj (by omega) hemp

theorem ShrinkOK.inj {s s' : S} {blks blks' : List Nat} {idx : Nat} (h : ShrinkOK s s' blks blks' idx)
    (hinj : InjB s.st blks) : InjB s'.st blks' :=
  InjR_clear s.st _ _ _ _ _ _ _ (fun q => firstBn q = idx) hinj h.ptrs

theorem ShrinkOK.empty {s s' : S} {blks blks' : List Nat} {idx : Nat} (h : ShrinkOK s s' blks blks' idx)
    (hemp : EmptyFrom s.st blks (idx + 1)) : EmptyFrom s'.st blks' idx := by
  intro q hq hle
  rw [h.ptrs q hq]
  by_cases hf : firstBn q = idx
  · simp [hf]
  · simp only [hf, if_false]
    exact hemp q hq (by omega)

/-- THE RUN OF `Shrink` from `N` blocks down to `T`: exactly the positions whose subtree starts at
    or beyond `T` are cleared, exactly the blocks they pointed to are freed, everything below `T`
    keeps its block, and no block is left with two owners. -/
theorem shrinkTo_ok (T N : Nat) : ∀ (s : S) (blks : List Nat), blks.length = NDIRECT + 2 →
    InjB s.st blks → N ≤ MAXBLKS → EmptyFrom s.st blks N →
    (shrinkTo s blks T N).2.length = NDIRECT + 2 ∧
    InjB (shrinkTo s blks T N).1.st (shrinkTo s blks T N).2 ∧
    (∀ q, q.valid → ptr (shrinkTo s blks T N).1.st (shrinkTo s blks T N).2 q =
      if T ≤ firstBn q then 0 else ptr s.st blks q) ∧
    (∀ b, b ∈ (shrinkTo s blks T N).1.freed ↔
      b ∈ s.freed ∨ (b ≠ 0 ∧ ∃ q, q.valid ∧ T ≤ firstBn q ∧ ptr s.st blks q = b)) ∧
    (shrinkTo s blks T N).1.allocs = s.allocs := by
  induction N with
  | zero =>
    intro s blks hl hinj _ hemp
    simp only [shrinkTo]
    refine ⟨hl, hinj, ?_, ?_, trivial⟩
    · intro q hq
      by_cases ht : T ≤ firstBn q
      · simp [ht, hemp q hq (by omega)]
      · simp [ht]
    · intro b
      constructor
      · exact Or.inl
      · rintro (h | ⟨hne, q, hq, _, hp⟩)
        · exact h
        · rw [hemp q hq (by omega)] at hp; exact absurd hp.symm hne
  | succ n ih =>
    intro s blks hl hinj hN hemp
    unfold shrinkTo
    by_cases hT : T < n + 1
    · simp only [hT, if_true]
      have hstep := shrinkStep_ok s blks n hl hinj (by omega) hemp
      obtain ⟨i1, i2, i3, i4, i5⟩ := ih (shrinkStep s blks n).1 (shrinkStep s blks n).2 hstep.len
        (hstep.inj hinj) (by omega) (hstep.empty hemp)
      refine ⟨i1, i2, ?_, ?_, i5.trans hstep.allocs⟩
      · intro q hq
        rw [i3 q hq, hstep.ptrs q hq]
        by_cases ht : T ≤ firstBn q
        · simp [ht]
        · have : ¬ firstBn q = n := by omega
          simp [ht, this]
      · intro b
        rw [i4 b, hstep.freed b]
        constructor
        · rintro ((h | ⟨hne, q, hq, hf, hp⟩) | ⟨hne, q, hq, ht, hp⟩)
          · exact Or.inl h
          · exact Or.inr ⟨hne, q, hq, by omega, hp⟩
          · rw [hstep.ptrs q hq] at hp
            by_cases hf : firstBn q = n
            · simp only [hf, if_true] at hp; exact absurd hp.symm hne
            · simp only [hf, if_false] at hp; exact Or.inr ⟨hne, q, hq, ht, hp⟩
        · rintro (h | ⟨hne, q, hq, ht, hp⟩)
          · exact Or.inl (Or.inl h)
          · by_cases hf : firstBn q = n
            · exact Or.inl (Or.inr ⟨hne, q, hq, hf, hp⟩)
            · refine Or.inr ⟨hne, q, hq, ht, ?_⟩
              rw [hstep.ptrs q hq]; simp [hf, hp]
    · simp only [hT, if_false]
      refine ⟨hl, hinj, ?_, ?_, trivial⟩
      · intro q hq
        by_cases ht : T ≤ firstBn q
        · simp [ht, hemp q hq (by omega)]
        · simp [ht]
      · intro b
        constructor
        · exact Or.inl
        · rintro (h | ⟨hne, q, hq, ht, hp⟩)
          · exact h
          · rw [hemp q hq (by omega)] at hp; exact absurd hp.symm hne

end GoNfsd.Model.BlockMap

import GoNfsd.Gen.Super
import GoNfsd.Lemmas.Codec

/-! M7i: the inode table as disk bytes.  `WriteInode` overwrites the 128 bytes at
    `super.Inum2Addr(inum)` (regenerated from super/super.go); `GetInodeLocked` decodes the 128
    bytes found there.  The slots of different inodes do not overlap, none straddles a block, and
    the table lies between the inode bitmap and the data region: writing one inode changes no
    other inode and no data block. -/
namespace GoNfsd.Model.InodeTable
open GoNfsd.Gen.Super GoNfsd.Gen.Consts GoNfsd.Model.Codec

/-- disk block ↦ byte offset ↦ byte -/
abbrev Disk := Nat → Nat → UInt8

/-- block and BYTE offset of an inode's slot (`Inum2Addr` gives the offset in bits) -/
def slot (fs : FsSuper) (inum : Nat) : Nat × Nat := ((fs.Inum2Addr inum).1, (fs.Inum2Addr inum).2 / 8)

/-- `WriteInode`: the encoded inode goes over the slot -/
def writeInode (d : Disk) (fs : FsSuper) (inum : Nat) (bytes : List UInt8) : Disk :=
  fun b o =>
    if b = (slot fs inum).1 ∧ (slot fs inum).2 ≤ o ∧ o < (slot fs inum).2 + bytes.length
    then bytes.getD (o - (slot fs inum).2) 0 else d b o

/-- the bytes `GetInodeLocked` hands to `inode.Decode` -/
def readSlot (d : Disk) (fs : FsSuper) (inum : Nat) : List UInt8 :=
  (List.range INODESZ).map fun k => d (slot fs inum).1 ((slot fs inum).2 + k)

theorem slot_eq (fs : FsSuper) (inum : Nat) :
    slot fs inum = (fs.InodeStart + inum / 32, (inum % 32) * 128) := by
  unfold slot FsSuper.Inum2Addr INODEBLK INODESZ
  simp only []
  congr 1
  omega

/-- a slot lies inside one block -/
theorem slot_in_block (fs : FsSuper) (inum : Nat) : (slot fs inum).2 + INODESZ ≤ BlockSize := by
  rw [slot_eq]; unfold INODESZ BlockSize; simp only []; omega

/-- two inodes: different blocks, or byte ranges that do not meet -/
theorem slots_disjoint (fs : FsSuper) (i j : Nat) (h : i ≠ j) :
    (slot fs i).1 ≠ (slot fs j).1 ∨
    (slot fs i).2 + INODESZ ≤ (slot fs j).2 ∨ (slot fs j).2 + INODESZ ≤ (slot fs i).2 := by
  rw [slot_eq, slot_eq]; unfold INODESZ; simp only []
  omega

/-- the table is where the layout says: from `InodeStart`, below `DataStart`, for every inode
    number the file system has -/
theorem slot_in_table (fs : FsSuper) (inum : Nat) (h : inum < fs.NInode) :
    fs.InodeStart ≤ (slot fs inum).1 ∧ (slot fs inum).1 < fs.DataStart := by
  rw [slot_eq]
  unfold FsSuper.NInode INODEBLK at h
  unfold FsSuper.DataStart
  simp only []
  omega

theorem read_own (d : Disk) (fs : FsSuper) (inum : Nat) (bytes : List UInt8) (hl : bytes.length = INODESZ) :
    readSlot (writeInode d fs inum bytes) fs inum = bytes := by
  unfold readSlot
  apply List.ext_getElem
  · simp [hl]
  · intro k h1 h2
    simp at h1
    simp only [List.getElem_map, List.getElem_range, writeInode]
    rw [if_pos ⟨trivial, by omega, by omega⟩]
    have : (slot fs inum).2 + k - (slot fs inum).2 = k := by omega
    rw [this]
    simp [List.getD, h2]

theorem read_other (d : Disk) (fs : FsSuper) (i j : Nat) (bytes : List UInt8) (hl : bytes.length = INODESZ)
    (h : i ≠ j) : readSlot (writeInode d fs i bytes) fs j = readSlot d fs j := by
  unfold readSlot
  apply List.map_congr_left
  intro k hk
  simp at hk
  simp only [writeInode]
  rw [if_neg]
  rintro ⟨hb, h1, h2⟩
  rcases slots_disjoint fs i j h with hd | hd | hd
  · exact hd hb.symm
  · omega
  · omega

/-- a data block (or any block outside the table) is not touched -/
theorem write_leaves_other_blocks (d : Disk) (fs : FsSuper) (inum : Nat) (bytes : List UInt8)
    (h : inum < fs.NInode) (b : Nat) (hb : b < fs.InodeStart ∨ fs.DataStart ≤ b) (o : Nat) :
    writeInode d fs inum bytes b o = d b o := by
  unfold writeInode
  rw [if_neg]
  rintro ⟨he, _, _⟩
  have := slot_in_table fs inum h
  omega

/-- with the codec (M3): the inode written is the inode read back, every other inode reads as before -/
theorem inode_table_write_read (d : Disk) (fs : FsSuper) (i : Nat) (x : DInode) (hx : x.wf)
    (roundtrip : decodeInode (encodeInode x) = x) (size : (encodeInode x).length = INODESZ) :
    decodeInode (readSlot (writeInode d fs i (encodeInode x)) fs i) = x ∧
    ∀ j, j ≠ i → readSlot (writeInode d fs i (encodeInode x)) fs j = readSlot d fs j := by
  refine ⟨by rw [read_own d fs i _ size, roundtrip], fun j hj => read_other d fs i j _ size (Ne.symm hj)⟩

end GoNfsd.Model.InodeTable

import GoNfsd.Lemmas.Names
open GoNfsd.Model.Fs GoNfsd.Gen.Consts

namespace GoNfsd.Model.Fs

/-- directory `d` has, in slot `idx ≥ 2`, a name for inode `ino` -/
def Ref (s : FS) (d idx ino : Nat) : Prop :=
  ∃ sl, (s.get d).slots[idx]? = some sl ∧ sl.inum = ino ∧ ino ≠ 0 ∧ 2 ≤ idx

/-- the first two slots of a directory are its live "." and ".." -/
def HasDots (i : Inode) : Prop :=
  ∃ a b, i.slots[0]? = some ⟨a, [46]⟩ ∧ a ≠ 0 ∧ i.slots[1]? = some ⟨b, [46, 46]⟩ ∧ b ≠ 0

/-- well-formedness of the name space (everything of C04's namespace clause except "..": a
    directory moved by RENAME keeps its old ".." — the known finding) -/
structure WFN (s : FS) : Prop where
  nu : NU s
  dots : ∀ d, (s.get d).kind = NF3DIR → HasDots (s.get d)
  noslots : ∀ d, (s.get d).kind ≠ NF3DIR → (s.get d).slots = []
  /-- every name denotes an object in use -/
  nd : ∀ d idx ino, Ref s d idx ino → (s.get ino).kind ≠ 0
  /-- no object has two names -/
  ur : ∀ d1 i1 d2 i2 ino, Ref s d1 i1 ino → Ref s d2 i2 ino → d1 = d2 ∧ i1 = i2
  /-- inode number 0 is never in use -/
  zero_free : (s.get 0).kind = 0

theorem two_slots_lt (a b sl : Slot) (idx : Nat) (h : [a, b][idx]? = some sl) : idx < 2 := by
  match idx, h with
  | 0, _ => omega
  | 1, _ => omega
  | n + 2, h => simp at h

theorem WFN_mkfs (u : Bool) (sz : Nat) : WFN (mkfs u sz) := by
  refine ⟨mkfs_NU u sz, ?_, ?_, ?_, ?_, ?_⟩
  · intro d hk
    simp only [mkfs, FS.get] at hk ⊢
    split at hk
    · rename_i h; subst h
      simp only [if_true]
      exact ⟨ROOTINUM, ROOTINUM, rfl, by decide, rfl, by decide⟩
    · simp [NF3DIR] at hk
  · intro d hk
    simp only [mkfs, FS.get] at hk ⊢
    split
    · rename_i h; simp [h] at hk
    · rfl
  · intro d idx ino ⟨sl, hget, _, _, hidx⟩
    simp only [mkfs, FS.get] at hget
    split at hget
    · have := two_slots_lt _ _ _ _ hget
      omega
    · simp at hget
  · intro d1 i1 d2 i2 ino ⟨sl, hget, _, _, hidx⟩ _
    simp only [mkfs, FS.get] at hget
    split at hget
    · have := two_slots_lt _ _ _ _ hget
      omega
    · simp at hget
  · simp [mkfs, FS.get, ROOTINUM]

theorem putSlot_get (slots : List Slot) (i j : Nat) (x : Slot) (hok : slotOk slots i = true) :
    (putSlot slots i x)[j]? = if j = i then some x else slots[j]? := by
  unfold putSlot
  by_cases he : i = slots.length
  · simp only [he, if_true]
    by_cases hj : j = slots.length
    · simp [hj]
    · simp only [hj, if_false]
      by_cases hlt : j < slots.length
      · rw [List.getElem?_append_left hlt]
      · rw [List.getElem?_eq_none (by simp; omega), List.getElem?_eq_none (by omega)]
  · simp only [he, if_false]
    unfold slotOk at hok
    simp only [he, decide_false, Bool.false_or] at hok
    have hlt : i < slots.length := by
      cases hg : slots[i]? with
      | none => simp [hg] at hok
      | some f => exact (List.getElem?_eq_some_iff.1 hg).1
    by_cases hj : j = i
    · subst hj; simp [hlt]
    · simp [hj, List.getElem?_set, Ne.symm hj]

theorem slotOk_ge_two (i : Inode) (slot : Nat) (hd : HasDots i) (hok : slotOk i.slots slot = true) : 2 ≤ slot := by
  obtain ⟨a, b, h0, ha, h1, hb⟩ := hd
  unfold slotOk at hok
  have hlen : 2 ≤ i.slots.length := by
    have := (List.getElem?_eq_some_iff.1 h1).1; omega
  simp only [Bool.or_eq_true, decide_eq_true_eq] at hok
  rcases hok with hok | hok
  · omega
  · match slot, hok with
    | 0, hok => simp [h0] at hok; exact absurd hok ha
    | 1, hok => simp [h1] at hok; exact absurd hok hb
    | n + 2, _ => omega

theorem freshInode_slots (kind gen inum parent : Nat) (t : Array UInt8) :
    (freshInode kind gen inum parent t).slots =
      if kind = NF3DIR then [⟨inum, [46]⟩, ⟨parent, [46, 46]⟩] else [] := by
  unfold freshInode
  by_cases h : kind = NF3DIR
  · simp [h]
  · simp only [h, if_false]
    split <;> rfl

theorem addName_some_spec (d d' : Inode) (slot inum : Nat) (name : Bytes) (h : addName d slot inum name = some d') :
    d.kind = NF3DIR ∧ slotOk d.slots slot = true ∧ d'.slots = putSlot d.slots slot ⟨inum, name⟩ ∧ d'.kind = d.kind := by
  unfold addName at h
  split at h
  · cases h
  · rename_i h1
    split at h
    · cases h
    · rename_i h2
      simp only [Option.some.injEq] at h
      subst h
      simp only [not_or, ne_eq] at h1
      refine ⟨Classical.byContradiction h1.1, by simpa using h2, rfl, rfl⟩

theorem get_set2 (s : FS) (a b j : Nat) (x y : Inode) :
    ((s.set a x).set b y).get j = if j = b then y else if j = a then x else s.get j := by
  rw [get_set]
  split
  · rfl
  · rw [get_set]

theorem hasDots_putSlot (d : Inode) (slots' : List Slot) (slot : Nat) (x : Slot) (hd : HasDots d)
    (hok : slotOk d.slots slot = true) (hs : slots' = putSlot d.slots slot x) :
    ∀ d' : Inode, d'.slots = slots' → HasDots d' := by
  intro d' hd'
  have h2 := slotOk_ge_two d slot hd hok
  obtain ⟨a, b, h0, ha, h1, hb⟩ := hd
  refine ⟨a, b, ?_, ha, ?_, hb⟩
  · rw [hd', hs, putSlot_get _ _ _ _ hok, if_neg (by omega)]; exact h0
  · rw [hd', hs, putSlot_get _ _ _ _ hok, if_neg (by omega)]; exact h1

/-- CREATE / MKDIR / SYMLINK keep the name space well-formed -/
theorem doCreate_WFN (s : FS) (c : Choice) (dfh name : Bytes) (kind : Nat) (t : Array UInt8)
    (hkind : kind ≠ 0) (h : WFN s) : WFN (doCreate s c dfh name kind t).1 := by
  rcases doCreate_reply s c dfh name kind t with hf | ⟨fh, a, hr⟩
  · rw [doCreate_fail s c dfh name kind t hf]; exact h
  · have hfull : doCreate s c dfh name kind t = ((doCreate s c dfh name kind t).1, .handle fh a) := by rw [← hr]
    obtain ⟨dino, d', hres, hl, hne, hfree, _, hci2, ha, hs', _, _⟩ := doCreate_ok_shape s c dfh name kind t _ fh a hfull
    obtain ⟨hdk, hok, hslots, hdk'⟩ := addName_some_spec _ _ _ _ _ ha
    have hNU := doCreate_NU s c dfh name kind t h.nu
    rw [hs'] at hNU ⊢
    generalize hfr : freshInode kind ((s.get c.inum).gen + 1) c.inum dino t = fresh at *
    have hfk : fresh.kind = kind := by rw [← hfr]; exact freshInode_kind _ _ _ _ _
    have hfs : fresh.slots = if kind = NF3DIR then [⟨c.inum, [46]⟩, ⟨dino, [46, 46]⟩] else [] := by
      rw [← hfr]; exact freshInode_slots _ _ _ _ _
    have hdots := h.dots dino hdk
    have hslot2 := slotOk_ge_two (s.get dino) c.slot hdots hok
    have hdino0 : dino ≠ 0 := by
      intro h0; rw [h0] at hdk; rw [h.zero_free] at hdk; simp [NF3DIR] at hdk
    -- a reference in the new state is the new name or an old reference
    have refs : ∀ d idx ino, Ref ((s.set c.inum fresh).set dino d') d idx ino →
        (d = dino ∧ idx = c.slot ∧ ino = c.inum) ∨ (Ref s d idx ino ∧ ¬ (d = dino ∧ idx = c.slot)) := by
      intro d idx ino ⟨sl, hget, hino, hn0, hidx⟩
      rw [get_set2] at hget
      by_cases hd : d = dino
      · subst hd
        simp only [if_true] at hget
        rw [hslots, putSlot_get _ _ _ _ hok] at hget
        by_cases hi : idx = c.slot
        · simp only [hi, if_true, Option.some.injEq] at hget
          subst hget
          exact Or.inl ⟨rfl, hi, hino.symm⟩
        · simp only [hi, if_false] at hget
          exact Or.inr ⟨⟨sl, hget, hino, hn0, hidx⟩, fun hc => hi hc.2⟩
      · simp only [hd, if_false] at hget
        by_cases hc : d = c.inum
        · subst hc
          simp only [if_true] at hget
          rw [hfs] at hget
          split at hget
          · have := two_slots_lt _ _ _ _ hget; omega
          · simp at hget
        · simp only [hc, if_false] at hget
          exact Or.inr ⟨⟨sl, hget, hino, hn0, hidx⟩, fun hcc => hd hcc.1⟩
    refine ⟨hNU, ?_, ?_, ?_, ?_, ?_⟩
    · -- dots
      intro d hk
      rw [get_set2] at hk ⊢
      by_cases hd : d = dino
      · simp only [hd, if_true] at hk ⊢
        exact hasDots_putSlot (s.get dino) _ c.slot _ hdots hok hslots d' rfl
      · simp only [hd, if_false] at hk ⊢
        by_cases hc : d = c.inum
        · simp only [hc, if_true] at hk ⊢
          rw [hfk] at hk
          refine ⟨c.inum, dino, ?_, by omega, ?_, hdino0⟩
          · rw [hfs]; simp [hk]
          · rw [hfs]; simp [hk]
        · simp only [hc, if_false] at hk ⊢
          exact h.dots d hk
    · -- non-directories carry no slots
      intro d hk
      rw [get_set2] at hk ⊢
      by_cases hd : d = dino
      · simp only [hd, if_true] at hk; rw [hdk', hdk] at hk; exact absurd rfl hk
      · simp only [hd, if_false] at hk ⊢
        by_cases hc : d = c.inum
        · simp only [hc, if_true] at hk ⊢
          rw [hfk] at hk
          rw [hfs]; simp [hk]
        · simp only [hc, if_false] at hk ⊢
          exact h.noslots d hk
    · -- every name denotes an object in use
      intro d idx ino hr
      rw [get_set2]
      rcases refs d idx ino hr with ⟨_, _, hi⟩ | ⟨hold, _⟩
      · subst hi
        simp only [Ne.symm hne, if_false, if_true]
        rw [hfk]; exact hkind
      · have hk := h.nd d idx ino hold
        have hic : ino ≠ c.inum := fun he => hk (he ▸ hfree)
        by_cases hid : ino = dino
        · simp only [hid, if_true]; rw [hdk', hdk]; simp [NF3DIR]
        · simp only [hid, hic, if_false]; exact hk
    · -- no object has two names
      intro d1 i1 d2 i2 ino hr1 hr2
      rcases refs d1 i1 ino hr1 with ⟨hd1, hi1, hino1⟩ | ⟨ho1, _⟩ <;>
      rcases refs d2 i2 ino hr2 with ⟨hd2, hi2, hino2⟩ | ⟨ho2, _⟩
      · exact ⟨hd1.trans hd2.symm, hi1.trans hi2.symm⟩
      · exact absurd (hino1 ▸ hfree) (h.nd d2 i2 ino ho2)
      · exact absurd (hino2 ▸ hfree) (h.nd d1 i1 ino ho1)
      · exact h.ur d1 i1 d2 i2 ino ho1 ho2
    · -- inode 0
      rw [get_set2]
      simp only [Ne.symm hdino0, if_false]
      have : (0 : Nat) ≠ c.inum := by omega
      simp only [this, if_false]
      exact h.zero_free

theorem lookup_idx_ge_two (d : Inode) (name : Bytes) (ino idx : Nat) (hd : HasDots d)
    (hl : lookupSlots d.slots name = some (ino, idx)) (hill : illegalName name = false) : 2 ≤ idx := by
  obtain ⟨sl, _, hget, _, hname, _⟩ := lookupGo_some_spec name d.slots 0 ino idx hl
  simp only [Nat.sub_zero] at hget
  obtain ⟨a, b, h0, _, h1, _⟩ := hd
  simp only [illegalName, Bool.or_eq_false_iff, decide_eq_false_iff_not] at hill
  match idx, hget with
  | 0, hget => rw [h0] at hget; cases hget; exact absurd hname.symm hill.1
  | 1, hget => rw [h1] at hget; cases hget; exact absurd hname.symm hill.2
  | n + 2, _ => exact Nat.le_add_left 2 n

theorem lookup_is_ref (s : FS) (d : Nat) (name : Bytes) (ino idx : Nat) (hd : HasDots (s.get d))
    (hl : lookupSlots (s.get d).slots name = some (ino, idx)) (hill : illegalName name = false) :
    Ref s d idx ino := by
  obtain ⟨sl, _, hget, hl0, _, hi⟩ := lookupGo_some_spec name (s.get d).slots 0 ino idx hl
  simp only [Nat.sub_zero] at hget
  exact ⟨sl, hget, hi, by rw [← hi]; exact hl0, lookup_idx_ge_two _ _ _ _ hd hl hill⟩

theorem set_free_get (slots : List Slot) (idx j : Nat) (sl : Slot) (h : (slots.set idx freeSlot)[j]? = some sl)
    (hl : sl.inum ≠ 0) : j ≠ idx ∧ slots[j]? = some sl := by
  rw [List.getElem?_set] at h
  by_cases hj : idx = j
  · subst hj
    simp only [if_true] at h
    split at h
    · simp only [Option.some.injEq] at h; subst h; simp [freeSlot] at hl
    · cases h
  · simp only [hj, if_false] at h
    exact ⟨fun he => hj he.symm, h⟩

theorem hasDots_set_free (d : Inode) (idx : Nat) (hd : HasDots d) (h2 : 2 ≤ idx) : HasDots (remNameAt d idx) := by
  obtain ⟨a, b, h0, ha, h1, hb⟩ := hd
  refine ⟨a, b, ?_, ha, ?_, hb⟩
  · simp only [remNameAt, List.getElem?_set]
    have : ¬ idx = 0 := by omega
    simp [this, h0]
  · simp only [remNameAt, List.getElem?_set]
    have : ¬ idx = 1 := by omega
    simp [this, h1]

/-- the state after unlinking the name in slot `idx` of directory `dino` and freeing the object
    `cino` it denoted (REMOVE, RMDIR, and the target of a RENAME) -/
def unlinked (s : FS) (dino idx cino : Nat) : FS :=
  let s1 := s.set dino (remNameAt (s.get dino) idx)
  s1.set cino (freeInode (s1.get cino))

theorem unlinked_WFN (s : FS) (dino idx cino : Nat) (h : WFN s) (hdk : (s.get dino).kind = NF3DIR)
    (href : Ref s dino idx cino) : WFN (unlinked s dino idx cino) := by
  obtain ⟨sl0, hget0, hino0, hc0, hidx⟩ := href
  have href : Ref s dino idx cino := ⟨sl0, hget0, hino0, hc0, hidx⟩
  have hdino0 : dino ≠ 0 := by
    intro h0; rw [h0] at hdk; rw [h.zero_free] at hdk; simp [NF3DIR] at hdk
  have hget : ∀ j, (unlinked s dino idx cino).get j =
      if j = cino then freeInode (if cino = dino then remNameAt (s.get dino) idx else s.get cino)
      else if j = dino then remNameAt (s.get dino) idx else s.get j := by
    intro j
    simp only [unlinked]
    rw [get_set2, get_set]
  -- every reference of the new state is an old one, other than the unlinked one, and not from `cino`
  have refs : ∀ d j ino, Ref (unlinked s dino idx cino) d j ino →
      Ref s d j ino ∧ ¬ (d = dino ∧ j = idx) ∧ d ≠ cino := by
    intro d j ino ⟨sl, hg, hi, hn0, hj⟩
    rw [hget] at hg
    by_cases hc : d = cino
    · simp only [hc, if_true, freeInode] at hg; simp at hg
    · simp only [hc, if_false] at hg
      by_cases hd : d = dino
      · simp only [hd, if_true, remNameAt] at hg
        obtain ⟨hne, hold⟩ := set_free_get _ _ _ _ hg (by rw [hi]; exact hn0)
        exact ⟨⟨sl, by rw [hd]; exact hold, hi, hn0, hj⟩, fun hcc => hne hcc.2, hc⟩
      · simp only [hd, if_false] at hg
        exact ⟨⟨sl, hg, hi, hn0, hj⟩, fun hcc => hd hcc.1, hc⟩
  have hNU : NU (unlinked s dino idx cino) := by
    simp only [unlinked]
    exact NU_set _ _ _ (NU_set _ _ _ h.nu (remNameAt_nodup _ _ (h.nu _))) (freeInode_nodup _)
  refine ⟨hNU, ?_, ?_, ?_, ?_, ?_⟩
  · intro d hk
    rw [hget] at hk ⊢
    by_cases hc : d = cino
    · simp only [hc, if_true, freeInode] at hk; simp [NF3DIR] at hk
    · simp only [hc, if_false] at hk ⊢
      by_cases hd : d = dino
      · simp only [hd, if_true] at hk ⊢
        exact hasDots_set_free _ _ (h.dots dino hdk) hidx
      · simp only [hd, if_false] at hk ⊢
        exact h.dots d hk
  · intro d hk
    rw [hget] at hk ⊢
    by_cases hc : d = cino
    · simp only [hc, if_true, freeInode]
    · simp only [hc, if_false] at hk ⊢
      by_cases hd : d = dino
      · simp only [hd, if_true, remNameAt] at hk; exact absurd hdk hk
      · simp only [hd, if_false] at hk ⊢
        exact h.noslots d hk
  · intro d j ino hr
    obtain ⟨hold, hnot, _⟩ := refs d j ino hr
    have hk := h.nd d j ino hold
    rw [hget]
    by_cases hic : ino = cino
    · -- a second name for the freed object would contradict uniqueness
      subst hic
      exact absurd (h.ur d j dino idx ino hold href) hnot
    · simp only [hic, if_false]
      by_cases hid : ino = dino
      · simp only [hid, if_true, remNameAt]; rw [hdk]; simp [NF3DIR]
      · simp only [hid, if_false]; exact hk
  · intro d1 i1 d2 i2 ino hr1 hr2
    exact h.ur d1 i1 d2 i2 ino (refs _ _ _ hr1).1 (refs _ _ _ hr2).1
  · rw [hget]
    simp only [Ne.symm hc0, Ne.symm hdino0, if_false]
    exact h.zero_free

theorem doRemove_WFN (s : FS) (dfh name : Bytes) (isdir : Bool) (h : WFN s) : WFN (doRemove s dfh name isdir).1 := by
  unfold doRemove
  split
  · exact h
  · rename_i hill
    split
    · exact h
    · rename_i dino _
      dsimp only
      split
      · exact h
      · rename_i cino idx hl
        obtain ⟨hk, hls, _⟩ := lookupIn_some_spec _ _ _ _ hl
        have href := lookup_is_ref s dino name cino idx (h.dots dino hk) hls (by simpa using hill)
        repeat' split
        all_goals first
          | exact h
          | exact unlinked_WFN s dino idx cino h hk href


theorem unlinked_ref_keep (s : FS) (dino idx cino d j ino : Nat) (hr : Ref s d j ino)
    (hnot : ¬ (d = dino ∧ j = idx)) (hd : d ≠ cino) : Ref (unlinked s dino idx cino) d j ino := by
  obtain ⟨sl, hg, hi, hn0, hj⟩ := hr
  refine ⟨sl, ?_, hi, hn0, hj⟩
  simp only [unlinked]
  rw [get_set2]
  simp only [hd, if_false]
  by_cases hdd : d = dino
  · subst hdd
    simp only [if_true, remNameAt]
    have : ¬ idx = j := fun he => hnot ⟨rfl, he.symm⟩
    rw [List.getElem?_set]
    simp only [this, if_false]
    exact hg
  · simp only [hdd, if_false]; exact hg

theorem dirEmpty_slot (slots : List Slot) (j : Nat) (sl : Slot) (he : dirEmpty slots = true)
    (hg : slots[j]? = some sl) (hj : 2 ≤ j) : sl.inum = 0 := by
  unfold dirEmpty at he
  rw [List.all_eq_true] at he
  have hm : sl ∈ slots.drop 2 := by
    rw [List.mem_iff_getElem?]
    refine ⟨j - 2, ?_⟩
    rw [List.getElem?_drop]
    have : 2 + (j - 2) = j := by omega
    rw [this]; exact hg
  simpa using he sl hm

/-- the state after moving the name in slot `fidx` of `fd` to directory `td` (which becomes `d'`) -/
theorem moved_WFN (s1 : FS) (slot fd fidx td fino : Nat) (tname : Bytes) (d' : Inode) (h : WFN s1)
    (hfdk : (s1.get fd).kind = NF3DIR) (href : Ref s1 fd fidx fino)
    (ha : addName ((s1.set fd (remNameAt (s1.get fd) fidx)).get td) slot fino tname = some d')
    (hNU : NU ((s1.set fd (remNameAt (s1.get fd) fidx)).set td d')) :
    WFN ((s1.set fd (remNameAt (s1.get fd) fidx)).set td d') := by
  obtain ⟨sl0, hget0, hino0, hf0, hfidx⟩ := href
  have href : Ref s1 fd fidx fino := ⟨sl0, hget0, hino0, hf0, hfidx⟩
  generalize hdto : (s1.set fd (remNameAt (s1.get fd) fidx)).get td = dto at ha
  obtain ⟨hdtok, hok, hslots, hdk'⟩ := addName_some_spec _ _ _ _ _ ha
  have hdto' : dto = if td = fd then remNameAt (s1.get fd) fidx else s1.get td := by
    rw [← hdto, get_set]
  have hdtokind : dto.kind = (s1.get td).kind := by
    rw [hdto']; split
    · rename_i he; rw [he]; rfl
    · rfl
  have htdk : (s1.get td).kind = NF3DIR := by rw [← hdtokind]; exact hdtok
  have hdtodots : HasDots dto := by
    rw [hdto']; split
    · exact hasDots_set_free _ _ (h.dots fd hfdk) hfidx
    · exact h.dots td htdk
  have hslot2 := slotOk_ge_two dto slot hdtodots hok
  have hkind : ∀ i, (((s1.set fd (remNameAt (s1.get fd) fidx)).set td d').get i).kind = (s1.get i).kind := by
    intro i
    rw [get_set2]
    by_cases hi : i = td
    · simp only [hi, if_true]; rw [hdk', hdtokind]
    · simp only [hi, if_false]
      by_cases hi2 : i = fd
      · simp only [hi2, if_true]; rfl
      · simp only [hi2, if_false]
  have refs : ∀ d j ino, Ref ((s1.set fd (remNameAt (s1.get fd) fidx)).set td d') d j ino →
      (d = td ∧ j = slot ∧ ino = fino) ∨ (Ref s1 d j ino ∧ ¬ (d = fd ∧ j = fidx) ∧ ¬ (d = td ∧ j = slot)) := by
    intro d j ino ⟨sl, hg, hi, hn0, hj⟩
    rw [get_set2] at hg
    by_cases hd : d = td
    · subst hd
      simp only [if_true] at hg
      rw [hslots, putSlot_get _ _ _ _ hok] at hg
      by_cases hjs : j = slot
      · simp only [hjs, if_true, Option.some.injEq] at hg
        subst hg
        exact Or.inl ⟨rfl, hjs, hi.symm⟩
      · simp only [hjs, if_false] at hg
        rw [hdto'] at hg
        by_cases hdf : d = fd
        · simp only [hdf, if_true, remNameAt] at hg
          obtain ⟨hne, hold⟩ := set_free_get _ _ _ _ hg (by rw [hi]; exact hn0)
          exact Or.inr ⟨⟨sl, by rw [hdf]; exact hold, hi, hn0, hj⟩, fun hc => hne hc.2, fun hc => hjs hc.2⟩
        · simp only [hdf, if_false] at hg
          exact Or.inr ⟨⟨sl, hg, hi, hn0, hj⟩, fun hc => hdf hc.1, fun hc => hjs hc.2⟩
    · simp only [hd, if_false] at hg
      by_cases hdf : d = fd
      · simp only [hdf, if_true, remNameAt] at hg
        obtain ⟨hne, hold⟩ := set_free_get _ _ _ _ hg (by rw [hi]; exact hn0)
        exact Or.inr ⟨⟨sl, by rw [hdf]; exact hold, hi, hn0, hj⟩, fun hc => hne hc.2, fun hc => hd hc.1⟩
      · simp only [hdf, if_false] at hg
        exact Or.inr ⟨⟨sl, hg, hi, hn0, hj⟩, fun hc => hdf hc.1, fun hc => hd hc.1⟩
  refine ⟨hNU, ?_, ?_, ?_, ?_, ?_⟩
  · intro d hk
    rw [hkind] at hk
    rw [get_set2]
    by_cases hd : d = td
    · simp only [hd, if_true]
      exact hasDots_putSlot dto _ slot _ hdtodots hok hslots d' rfl
    · simp only [hd, if_false]
      by_cases hdf : d = fd
      · simp only [hdf, if_true]
        exact hasDots_set_free _ _ (h.dots fd hfdk) hfidx
      · simp only [hdf, if_false]
        exact h.dots d hk
  · intro d hk
    rw [hkind] at hk
    rw [get_set2]
    by_cases hd : d = td
    · rw [hd] at hk; exact absurd htdk hk
    · simp only [hd, if_false]
      by_cases hdf : d = fd
      · rw [hdf] at hk; exact absurd hfdk hk
      · simp only [hdf, if_false]
        exact h.noslots d hk
  · intro d j ino hr
    rw [hkind]
    rcases refs d j ino hr with ⟨_, _, hi⟩ | ⟨hold, _, _⟩
    · rw [hi]; exact h.nd fd fidx fino href
    · exact h.nd d j ino hold
  · intro d1 i1 d2 i2 ino hr1 hr2
    rcases refs d1 i1 ino hr1 with ⟨hd1, hi1, hino1⟩ | ⟨ho1, hn1, _⟩ <;>
    rcases refs d2 i2 ino hr2 with ⟨hd2, hi2, hino2⟩ | ⟨ho2, hn2, _⟩
    · exact ⟨hd1.trans hd2.symm, hi1.trans hi2.symm⟩
    · exact absurd (h.ur d2 i2 fd fidx ino ho2 (hino1 ▸ href)) hn2
    · exact absurd (h.ur d1 i1 fd fidx ino ho1 (hino2 ▸ href)) hn1
    · exact h.ur d1 i1 d2 i2 ino ho1 ho2
  · rw [hkind]; exact h.zero_free

/-- RENAME keeps the name space well-formed -/
theorem doRename_WFN (s : FS) (c : Choice) (ffh fname tfh tname : Bytes) (h : WFN s) :
    WFN (doRename s c ffh fname tfh tname).1 := by
  unfold doRename
  split
  · exact h
  · rename_i hill
    simp only [not_or, Bool.not_eq_true] at hill
    split
    · exact h
    · rename_i fd td hfd
      split
      · exact h
      · rename_i fino fidx hlf
        split
        · exact h
        · rename_i hftd
          split
          · exact h
          · rename_i hself
            split
            · exact h
            · rename_i s1 hs1
              obtain ⟨hfdk, hlfs, hf0⟩ := lookupIn_some_spec _ _ _ _ hlf
              have href0 := lookup_is_ref s fd fname fino fidx (h.dots fd hfdk) hlfs hill.1
              split
              · exact h
              · exact h
              · rename_i s3 r hnb hm
                -- facts about the state after the target was unlinked
                have h1 : WFN s1 ∧ Ref s1 fd fidx fino ∧ (s1.get fd).kind = NF3DIR := by
                  cases hlt : lookupIn (s.get td) tname with
                  | none =>
                    rw [hlt] at hs1
                    simp only [unlinkTarget, Option.some.injEq] at hs1
                    subst hs1
                    exact ⟨h, href0, hfdk⟩
                  | some p =>
                    obtain ⟨tino, tidx⟩ := p
                    rw [hlt] at hs1
                    obtain ⟨htdk, hlts, ht0⟩ := lookupIn_some_spec _ _ _ _ hlt
                    have hreft := lookup_is_ref s td tname tino tidx (h.dots td htdk) hlts hill.2
                    unfold unlinkTarget at hs1
                    simp only at hs1
                    split at hs1
                    · cases hs1
                    · rename_i hc1
                      split at hs1
                      · cases hs1
                      · rename_i hc2
                        simp only [Option.some.injEq] at hs1
                        have hs1' : s1 = unlinked s td tidx tino := hs1.symm
                        have htf : tino ≠ fino := by
                          intro he
                          subst he
                          obtain ⟨e1, _⟩ := h.ur fd fidx td tidx tino href0 hreft
                          exact hself ⟨e1, by rw [hlt]; rfl⟩
                        have hfdt : fd ≠ tino := by
                          intro he
                          subst he
                          apply hc2
                          refine ⟨hfdk, ?_⟩
                          intro hemp
                          obtain ⟨sl, hg, hi, hn0, hj⟩ := href0
                          have := dirEmpty_slot _ _ _ hemp hg hj
                          rw [hi] at this; exact hn0 this
                        have hnot : ¬ (fd = td ∧ fidx = tidx) := by
                          intro ⟨e1, e2⟩
                          obtain ⟨sl, hg, hi, _, _⟩ := href0
                          obtain ⟨sl', hg', hi', _, _⟩ := hreft
                          rw [e1, e2, hg'] at hg
                          simp only [Option.some.injEq] at hg
                          rw [hg] at hi'; exact htf (hi'.symm.trans hi)
                        rw [hs1']
                        refine ⟨unlinked_WFN s td tidx tino h htdk hreft,
                          unlinked_ref_keep s td tidx tino fd fidx fino href0 hnot hfdt, ?_⟩
                        simp only [unlinked]
                        rw [get_set2]
                        simp only [hfdt, if_false]
                        split
                        · rename_i he; rw [← he]; exact hfdk
                        · exact hfdk
                obtain ⟨hW1, hR1, hK1⟩ := h1
                have hNUfinal : NU s3 := by
                  have := doRename_NU s c ffh fname tfh tname h.nu
                  unfold doRename at this
                  have hill' : ¬ (illegalName fname = true ∨ illegalName tname = true) := by
                    simp [hill.1, hill.2]
                  rw [if_neg hill'] at this
                  simp only [hfd, hlf] at this
                  rw [if_neg hftd, if_neg hself] at this
                  simp only [hs1, hm] at this
                  exact this
                unfold moveName at hm
                simp only at hm
                split at hm
                · cases hm
                · split at hm
                  · simp only [Option.some.injEq, Prod.mk.injEq] at hm
                    exact absurd hm.2.symm (hnb _)
                  · rename_i d' ha
                    simp only [Option.some.injEq, Prod.mk.injEq] at hm
                    rw [← hm.1] at hNUfinal ⊢
                    exact moved_WFN s1 c.slot fd fidx td fino tname d' hW1 hK1 hR1 ha hNUfinal


/-- replacing an inode by one with the same kind and the same directory slots (SETATTR, WRITE) -/
theorem WFN_set_same (s : FS) (i : Nat) (x : Inode) (h : WFN s) (hs : x.slots = (s.get i).slots)
    (hk : x.kind = (s.get i).kind) : WFN (s.set i x) := by
  have hslots : ∀ j, ((s.set i x).get j).slots = (s.get j).slots := by
    intro j; rw [get_set]; split
    · rename_i he; rw [he, hs]
    · rfl
  have hkind : ∀ j, ((s.set i x).get j).kind = (s.get j).kind := by
    intro j; rw [get_set]; split
    · rename_i he; rw [he, hk]
    · rfl
  have hdots : ∀ j, HasDots ((s.set i x).get j) ↔ HasDots (s.get j) := by
    intro j; simp only [HasDots, hslots]
  have href : ∀ d j ino, Ref (s.set i x) d j ino ↔ Ref s d j ino := by
    intro d j ino; simp only [Ref, hslots]
  refine ⟨NU_set _ _ _ h.nu (by rw [hs]; exact h.nu i), ?_, ?_, ?_, ?_, ?_⟩
  · intro d hd; rw [hkind] at hd; exact (hdots d).2 (h.dots d hd)
  · intro d hd; rw [hkind] at hd; rw [hslots]; exact h.noslots d hd
  · intro d j ino hr; rw [hkind]; exact h.nd d j ino ((href _ _ _).1 hr)
  · intro d1 i1 d2 i2 ino hr1 hr2; exact h.ur _ _ _ _ _ ((href _ _ _).1 hr1) ((href _ _ _).1 hr2)
  · rw [hkind]; exact h.zero_free

theorem resize_kind (i : Inode) (sz : Nat) : (resize i sz).kind = i.kind := by
  unfold resize; split <;> rfl

/-- THE NAME SPACE STAYS WELL-FORMED AFTER EVERY OPERATION -/
theorem step_WFN (s : FS) (op : Op) (c : Choice) (h : WFN s) : WFN (step s op c).1 := by
  cases op with
  | create dfh name mode =>
    simp only [step]; split; exact h; exact doCreate_WFN _ _ _ _ _ _ (by decide) h
  | mkdir dfh name => exact doCreate_WFN _ _ _ _ _ _ (by decide) h
  | symlink dfh name target => exact doCreate_WFN _ _ _ _ _ _ (by decide) h
  | remove dfh name => exact doRemove_WFN _ _ _ _ h
  | rmdir dfh name => exact doRemove_WFN _ _ _ _ h
  | rename ffh fname tfh tname => exact doRename_WFN _ _ _ _ _ _ h
  | setattr fh size atime mtime =>
    cases size <;> cases atime <;> cases mtime <;> simp only [step] <;> (repeat' split) <;>
      first
        | exact h
        | (apply WFN_set_same _ _ _ h <;> simp only [resize_slots, resize_kind])
  | write fh off count stable data =>
    simp only [step]
    repeat' split
    all_goals first
      | exact h
      | exact WFN_set_same _ _ _ h rfl rfl
  | _ =>
    simp only [step]
    repeat' split
    all_goals exact h

/-- the name space is well-formed in EVERY reachable state -/
theorem run_WFN (s : FS) (ops : List (Op × Choice)) (h : WFN s) : WFN (run s ops).1 := by
  induction ops generalizing s with
  | nil => exact h
  | cons x rest ih =>
    obtain ⟨op, c⟩ := x
    simp only [run]
    exact ih _ (step_WFN s op c h)

end GoNfsd.Model.Fs

/- The XDR decoder never produces more than it consumes: what remains is a suffix no longer
   than the input (so a request of n bytes cannot make the decoder build more than n bytes of
   strings/opaques, nor loop). -/
import GoNfsd.Lemmas.Xdr

namespace GoNfsd.Model.Xdr

theorem takeN_len {n : Nat} {bs a r : List UInt8} (h : takeN n bs = some (a, r)) :
    r.length + n = bs.length ∧ a.length = n := by
  unfold takeN at h
  split at h
  · simp at h
  · simp at h
    obtain ⟨rfl, rfl⟩ := h
    simp; omega

theorem decBytes_len {max : Option Nat} {bs : List UInt8} {v : Val} {r : List UInt8}
    (h : decBytes max bs = some (v, r)) : r.length ≤ bs.length := by
  unfold decBytes at h
  cases h1 : takeN 4 bs with
  | none => simp [h1] at h
  | some p =>
    obtain ⟨w, r1⟩ := p
    simp only [h1] at h
    split at h
    · cases h2 : takeN (beNat w) r1 with
      | none => simp [h2] at h
      | some p2 =>
        obtain ⟨d, r2⟩ := p2
        simp only [h2] at h
        cases h3 : takeN (padLen (beNat w)) r2 with
        | none => simp [h3] at h
        | some p3 =>
          obtain ⟨_, r3⟩ := p3
          simp [h3] at h
          obtain ⟨_, rfl⟩ := h
          have := (takeN_len h1).1; have := (takeN_len h2).1; have := (takeN_len h3).1
          omega
    · simp at h

theorem decNums_len : ∀ (k : Nat) (bs : List UInt8) (ns : List Nat) (r : List UInt8),
    decNums k bs = some (ns, r) → r.length ≤ bs.length := by
  intro k
  induction k with
  | zero => intro bs ns r h; simp [decNums] at h; obtain ⟨_, rfl⟩ := h; exact Nat.le_refl _
  | succ k ih =>
    intro bs ns r h
    simp only [decNums] at h
    cases h1 : takeN 4 bs with
    | none => simp [h1] at h
    | some p =>
      obtain ⟨w, r1⟩ := p
      simp only [h1] at h
      cases h2 : decNums k r1 with
      | none => simp [h2] at h
      | some p2 =>
        obtain ⟨ns', r2⟩ := p2
        simp [h2] at h
        obtain ⟨_, rfl⟩ := h
        have := ih r1 ns' r2 h2
        have := (takeN_len h1).1
        omega

theorem decChain_len (decElem : List UInt8 → Option (Val × List UInt8))
    (hel : ∀ b v r, decElem b = some (v, r) → r.length ≤ b.length) :
    ∀ (fuel : Nat) (bs : List UInt8) (vs : List Val) (r : List UInt8),
      decChainWith decElem fuel bs = some (vs, r) → r.length ≤ bs.length := by
  intro fuel
  induction fuel with
  | zero => intro bs vs r h; simp [decChainWith] at h
  | succ f ih =>
    intro bs vs r h
    simp only [decChainWith] at h
    cases h1 : takeN 4 bs with
    | none => simp [h1] at h
    | some p =>
      obtain ⟨w, r1⟩ := p
      simp only [h1] at h
      have hl1 := (takeN_len h1).1
      split at h
      · simp at h; obtain ⟨_, rfl⟩ := h; omega
      · cases h2 : decElem r1 with
        | none => simp [h2] at h
        | some p2 =>
          obtain ⟨v, r2⟩ := p2
          simp only [h2] at h
          cases h3 : decChainWith decElem f r2 with
          | none => simp [h3] at h
          | some p3 =>
            obtain ⟨vs', r3⟩ := p3
            simp [h3] at h
            obtain ⟨_, rfl⟩ := h
            have := hel r1 v r2 h2
            have := ih r2 vs' r3 h3
            omega

mutual
theorem dec_len : ∀ (t : Ty) (bs : List UInt8) (v : Val) (r : List UInt8),
    dec t bs = some (v, r) → r.length ≤ bs.length
  | .u32, bs, v, r, h => by
    simp only [dec] at h
    cases h1 : takeN 4 bs with
    | none => simp [h1] at h
    | some p => simp [h1] at h; obtain ⟨_, rfl⟩ := h; have := (takeN_len h1).1; omega
  | .u64, bs, v, r, h => by
    simp only [dec] at h
    cases h1 : takeN 8 bs with
    | none => simp [h1] at h
    | some p => simp [h1] at h; obtain ⟨_, rfl⟩ := h; have := (takeN_len h1).1; omega
  | .bool, bs, v, r, h => by
    simp only [dec] at h
    cases h1 : takeN 4 bs with
    | none => simp [h1] at h
    | some p => simp [h1] at h; obtain ⟨_, rfl⟩ := h; have := (takeN_len h1).1; omega
  | .str max, bs, v, r, h => by simp only [dec] at h; exact decBytes_len h
  | .opaqueVar max, bs, v, r, h => by simp only [dec] at h; exact decBytes_len h
  | .opaqueFix n, bs, v, r, h => by
    simp only [dec] at h
    cases h1 : takeN n bs with
    | none => simp [h1] at h
    | some p =>
      obtain ⟨d, r1⟩ := p
      simp only [h1] at h
      cases h2 : takeN (padLen n) r1 with
      | none => simp [h2] at h
      | some p2 =>
        simp [h2] at h; obtain ⟨_, rfl⟩ := h
        have := (takeN_len h1).1; have := (takeN_len h2).1; omega
  | .arrU32 max, bs, v, r, h => by
    simp only [dec] at h
    cases h1 : takeN 4 bs with
    | none => simp [h1] at h
    | some p =>
      obtain ⟨w, r1⟩ := p
      simp only [h1] at h
      split at h
      · cases h2 : decNums (beNat w) r1 with
        | none => simp [h2] at h
        | some p2 =>
          obtain ⟨ns, r2⟩ := p2
          simp [h2] at h; obtain ⟨_, rfl⟩ := h
          have := decNums_len _ _ _ _ h2; have := (takeN_len h1).1; omega
      · simp at h
  | .struct fs, bs, v, r, h => by
    simp only [dec] at h
    cases h1 : decFields fs bs with
    | none => simp [h1] at h
    | some p =>
      obtain ⟨vs, r1⟩ := p
      simp [h1] at h; obtain ⟨_, rfl⟩ := h
      exact decFields_len fs bs vs r1 h1
  | .unionU32 keys arms hasDflt dflt, bs, v, r, h => by
    simp only [dec] at h
    cases h1 : takeN 4 bs with
    | none => simp [h1] at h
    | some p =>
      obtain ⟨w, r1⟩ := p
      simp only [h1] at h
      have hl1 := (takeN_len h1).1
      cases h2 : decArm keys arms (beNat w) r1 with
      | some res =>
        simp only [h2] at h
        cases res with
        | none => simp at h
        | some p2 =>
          obtain ⟨v2, r2⟩ := p2
          simp at h; obtain ⟨_, rfl⟩ := h
          have := decArm_len keys arms (beNat w) r1 v2 r2 h2
          omega
      | none =>
        simp only [h2] at h
        split at h
        · cases h3 : dec dflt r1 with
          | none => simp [h3] at h
          | some p3 =>
            obtain ⟨v3, r3⟩ := p3
            simp [h3] at h; obtain ⟨_, rfl⟩ := h
            have := dec_len dflt r1 v3 r3 h3
            omega
        · simp at h; obtain ⟨_, rfl⟩ := h; omega
  | .unionBool t f, bs, v, r, h => by
    simp only [dec] at h
    cases h1 : takeN 4 bs with
    | none => simp [h1] at h
    | some p =>
      obtain ⟨w, r1⟩ := p
      simp only [h1] at h
      have hl1 := (takeN_len h1).1
      split at h
      · cases h3 : dec t r1 with
        | none => simp [h3] at h
        | some p3 =>
          obtain ⟨v3, r3⟩ := p3
          simp [h3] at h; obtain ⟨_, rfl⟩ := h
          have := dec_len t r1 v3 r3 h3; omega
      · cases h3 : dec f r1 with
        | none => simp [h3] at h
        | some p3 =>
          obtain ⟨v3, r3⟩ := p3
          simp [h3] at h; obtain ⟨_, rfl⟩ := h
          have := dec_len f r1 v3 r3 h3; omega
  | .chain elem, bs, v, r, h => by
    simp only [dec] at h
    cases h1 : decChainWith (fun b => (decFields elem b).map fun p => (Val.struct p.1, p.2)) bs.length bs with
    | none => simp [h1] at h
    | some p =>
      obtain ⟨vs, r1⟩ := p
      simp [h1] at h; obtain ⟨_, rfl⟩ := h
      refine decChain_len _ ?_ _ _ _ _ h1
      intro b v' r' hb
      cases h2 : decFields elem b with
      | none => simp [h2] at hb
      | some p2 =>
        obtain ⟨vs2, r2⟩ := p2
        simp [h2] at hb; obtain ⟨_, rfl⟩ := hb
        exact decFields_len elem b vs2 r2 h2

theorem decFields_len : ∀ (ts : List Ty) (bs : List UInt8) (vs : List Val) (r : List UInt8),
    decFields ts bs = some (vs, r) → r.length ≤ bs.length
  | [], bs, vs, r, h => by simp [decFields] at h; obtain ⟨_, rfl⟩ := h; exact Nat.le_refl _
  | t :: ts, bs, vs, r, h => by
    simp only [decFields] at h
    cases h1 : dec t bs with
    | none => simp [h1] at h
    | some p =>
      obtain ⟨v, r1⟩ := p
      simp only [h1] at h
      cases h2 : decFields ts r1 with
      | none => simp [h2] at h
      | some p2 =>
        obtain ⟨vs2, r2⟩ := p2
        simp [h2] at h; obtain ⟨_, rfl⟩ := h
        have := dec_len t bs v r1 h1
        have := decFields_len ts r1 vs2 r2 h2
        omega

theorem decArm_len : ∀ (ks : List Nat) (ts : List Ty) (d : Nat) (bs : List UInt8) (v : Val) (r : List UInt8),
    decArm ks ts d bs = some (some (v, r)) → r.length ≤ bs.length
  | [], ts, d, bs, v, r, h => by simp [decArm] at h
  | k :: ks, [], d, bs, v, r, h => by simp [decArm] at h
  | k :: ks, t :: ts, d, bs, v, r, h => by
    simp only [decArm] at h
    split at h
    · simp at h; exact dec_len t bs v r h
    · exact decArm_len ks ts d bs v r h
end

end GoNfsd.Model.Xdr

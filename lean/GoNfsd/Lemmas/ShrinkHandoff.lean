import GoNfsd.Model.ShrinkHandoff

namespace GoNfsd.Model.ShrinkHandoff

/-- every pending inode has a thread that is still going to look at it -/
def Inv (s : St) : Prop := ∀ i ∈ s.pending, ∃ t ∈ s.threads, t.inum = i ∧ t.looping = true

theorem mem_set_of_ne {ts : List Thread} {k : Nat} {t u : Thread} (h : t ∈ ts) (hk : ts[k]? ≠ some t) : t ∈ ts.set k u := by
  obtain ⟨j, hj⟩ := List.getElem?_of_mem h
  have hjk : k ≠ j := by intro e; subst e; exact hk hj
  apply List.mem_of_getElem? (i := j)
  rw [List.getElem?_set]
  simp [hjk, hj]

theorem mem_eraseIdx_of_ne {ts : List Thread} {k : Nat} {t : Thread} (h : t ∈ ts) (hk : ts[k]? ≠ some t) : t ∈ ts.eraseIdx k := by
  obtain ⟨j, hj⟩ := List.getElem?_of_mem h
  have hjk : k ≠ j := by intro e; subst e; exact hk hj
  by_cases hlt : j < k
  · apply List.mem_of_getElem? (i := j)
    rw [List.getElem?_eraseIdx]; simp [hlt, hj]
  · apply List.mem_of_getElem? (i := j - 1)
    rw [List.getElem?_eraseIdx]
    have h1 : ¬ j - 1 < k := by omega
    have h2 : j - 1 + 1 = j := by omega
    simp [h1, h2, hj]

theorem step_inv (s : St) (e : Ev) (h : Inv s) : Inv (step always s e) := by
  cases e with
  | request i =>
    intro j hj
    simp only [step, always, if_true] at hj ⊢
    by_cases hji : j = i
    · subst hji
      exact ⟨{ inum := j, looping := true }, by simp, rfl, rfl⟩
    · have : j ∈ s.pending := by
        split at hj
        · exact hj
        · simp only [List.mem_cons] at hj
          rcases hj with hj | hj
          · exact absurd hj hji
          · exact hj
      obtain ⟨t, ht, h1, h2⟩ := h j this
      exact ⟨t, by simp [ht], h1, h2⟩
  | round k more =>
    simp only [step]
    cases hk : s.threads[k]? with
    | none => exact h
    | some t =>
      simp only []
      by_cases hl : t.looping = true
      · simp only [hl, if_true]
        split
        · exact h
        · intro j hj
          simp only [List.mem_filter, bne_iff_ne, ne_eq] at hj
          obtain ⟨u, hu, h1, h2⟩ := h j hj.1
          refine ⟨u, mem_set_of_ne hu ?_, h1, h2⟩
          rw [hk]; intro e; cases e; exact hj.2 h1.symm
      · simp only [hl]; exact h
  | help i =>
    intro j hj
    simp only [step, List.mem_filter] at hj
    exact h j hj.1
  | exit k =>
    simp only [step]
    cases hk : s.threads[k]? with
    | none => exact h
    | some t =>
      simp only []
      by_cases hl : t.looping = true
      · simp only [hl, if_true]; exact h
      · simp only [hl]
        intro j hj
        obtain ⟨u, hu, h1, h2⟩ := h j hj
        refine ⟨u, mem_eraseIdx_of_ne hu ?_, h1, h2⟩
        rw [hk]; intro e; cases e; exact hl h2

theorem run_inv (s : St) (evs : List Ev) (h : Inv s) : Inv (run always s evs) := by
  induction evs generalizing s with
  | nil => exact h
  | cons e rest ih => exact ih _ (step_inv s e h)

theorem init_inv : Inv {} := by intro i hi; cases hi

end GoNfsd.Model.ShrinkHandoff

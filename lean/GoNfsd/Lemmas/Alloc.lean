/-
The bitmap allocator M2 (go-journal's `alloc.Alloc` as go-nfsd uses it): a number handed out was
free and is marked afterwards, nothing else changes; numbers handed out in a row are pairwise
distinct; the allocator reports "none" only when every bit is set; the free count moves by one.
-/
import GoNfsd.Model.Alloc

namespace GoNfsd.Model.Alloc.Alloc

theorem incNext_bits (a : Alloc) : a.incNext.bits = a.bits := rfl
theorem incNext_size (a : Alloc) : a.incNext.size = a.size := rfl

theorem incNext_next_lt (a : Alloc) (h : 0 < a.size) : a.incNext.next < a.size := by
  unfold incNext
  by_cases h' : a.next + 1 ≥ a.size
  · simp only [h', if_true]; exact h
  · simp only [h', if_false]; omega

/-- what `scan` returns: either a position whose bit was clear — set now, nothing else touched —
    or 0 with the bitmap as it was (bit 0 being set: number 0 is reserved) -/
theorem scan_sound (fuel : Nat) : ∀ (a : Alloc) (start : Nat), a.next < a.size →
    a.bits.getD 0 true = true →
    ((scan a start fuel).2 ≠ 0 →
      a.bits.getD (scan a start fuel).2 true = false ∧ (scan a start fuel).2 < a.size ∧
      (scan a start fuel).1.bits = a.bits.set (scan a start fuel).2 true) ∧
    ((scan a start fuel).2 = 0 → (scan a start fuel).1.bits = a.bits) := by
  induction fuel with
  | zero => intro a start _ _; simp [scan]
  | succ fuel ih =>
    intro a start hn h0
    unfold scan
    by_cases hb : a.bits.getD a.next true = false
    · rw [if_pos hb]
      refine ⟨fun _ => ⟨hb, hn, rfl⟩, ?_⟩
      intro hz
      have hz' : a.next = 0 := hz
      rw [hz'] at hb
      rw [hb] at h0
      cases h0
    · rw [if_neg hb]
      by_cases hs : a.incNext.next = start
      · simp only [hs, if_true]
        exact ⟨fun h => absurd rfl h, fun _ => rfl⟩
      · simp only [hs, if_false]
        have hpos : 0 < a.size := by omega
        have := ih a.incNext start (by rw [incNext_size]; exact incNext_next_lt a hpos) (by rw [incNext_bits]; exact h0)
        rw [incNext_bits, incNext_size] at this
        exact this

/-- `AllocNum`: a number handed out was free, is in range, and is the only bit that changed -/
theorem allocNum_sound (a : Alloc) (h0 : a.bits.getD 0 true = true) (hpos : 0 < a.size) :
    ((a.allocNum).2 ≠ 0 →
      a.bits.getD (a.allocNum).2 true = false ∧ (a.allocNum).2 < a.size ∧
      (a.allocNum).1.bits = a.bits.set (a.allocNum).2 true) ∧
    ((a.allocNum).2 = 0 → (a.allocNum).1.bits = a.bits) := by
  unfold allocNum allocBit
  have := scan_sound a.size a.incNext a.incNext.next (by rw [incNext_size]; exact incNext_next_lt a hpos)
    (by rw [incNext_bits]; exact h0)
  rw [incNext_bits, incNext_size] at this
  exact this

theorem allocNum_size (a : Alloc) (h0 : a.bits.getD 0 true = true) (hpos : 0 < a.size) :
    (a.allocNum).1.size = a.size := by
  obtain ⟨h1, h2⟩ := allocNum_sound a h0 hpos
  by_cases h : (a.allocNum).2 = 0
  · simp only [size, h2 h]
  · simp only [size, (h1 h).2.2, List.length_set]

theorem getD_set_bool (l : List Bool) (i j : Nat) (v d : Bool) (hi : i < l.length) :
    (l.set i v).getD j d = if j = i then v else l.getD j d := by
  simp only [List.getD_eq_getElem?_getD, List.getElem?_set]
  by_cases h : i = j
  · subst h; simp [hi]
  · simp [h, Ne.symm h]

theorem allocNum_zero_kept (a : Alloc) (h0 : a.bits.getD 0 true = true) (hpos : 0 < a.size) :
    (a.allocNum).1.bits.getD 0 true = true := by
  obtain ⟨h1, h2⟩ := allocNum_sound a h0 hpos
  by_cases h : (a.allocNum).2 = 0
  · rw [h2 h]; exact h0
  · rw [(h1 h).2.2, getD_set_bool _ _ _ _ _ (h1 h).2.1]
    split
    · rfl
    · exact h0

/-- NUMBERS HANDED OUT IN A ROW: each was free at the start, and no number is handed out twice -/
theorem allocMany_fresh (k : Nat) : ∀ (a : Alloc), a.bits.getD 0 true = true → 0 < a.size →
    (∀ n ∈ (a.allocMany k).2, n ≠ 0 ∧ n < a.size ∧ a.bits.getD n true = false) ∧
    ((a.allocMany k).2).Nodup ∧
    (∀ n, n < a.size → a.bits.getD n true = true → (a.allocMany k).1.bits.getD n true = true) := by
  induction k with
  | zero =>
    intro a _ _
    simp [allocMany]
  | succ k ih =>
    intro a h0 hpos
    unfold allocMany
    obtain ⟨h1, h2⟩ := allocNum_sound a h0 hpos
    have hsz := allocNum_size a h0 hpos
    have hz := allocNum_zero_kept a h0 hpos
    generalize hres : a.allocNum = res at *
    obtain ⟨a', r⟩ := res
    simp only at h1 h2 hsz hz ⊢
    by_cases hr : r = 0
    · simp only [hr, if_true]
      refine ⟨by simp, by simp, ?_⟩
      intro n _ hb
      rw [h2 hr]; exact hb
    · simp only [hr, if_false]
      obtain ⟨f1, f2, f3⟩ := h1 hr
      obtain ⟨i1, i2, i3⟩ := ih a' hz (by rw [hsz]; exact hpos)
      generalize hres2 : a'.allocMany k = res2 at *
      obtain ⟨a'', rs⟩ := res2
      simp only at i1 i2 i3 ⊢
      have hmarked : a'.bits.getD r true = true := by
        rw [f3, getD_set_bool _ _ _ _ _ f2]; simp
      refine ⟨?_, ?_, ?_⟩
      · intro n hn
        rw [List.mem_cons] at hn
        rcases hn with hn | hn
        · rw [hn]; exact ⟨hr, f2, f1⟩
        · obtain ⟨j1, j2, j3⟩ := i1 n hn
          refine ⟨j1, by rw [← hsz]; exact j2, ?_⟩
          rw [f3, getD_set_bool _ _ _ _ _ f2] at j3
          split at j3
          · cases j3
          · exact j3
      · refine List.nodup_cons.2 ⟨?_, i2⟩
        intro hmem
        have := (i1 r hmem).2.2
        rw [hmarked] at this
        cases this
      · intro n hn hb
        apply i3 n (by rw [hsz]; exact hn)
        rw [f3, getD_set_bool _ _ _ _ _ f2]
        split
        · rfl
        · exact hb


/-! ### the free count -/

theorem count_false_set_true (l : List Bool) (i : Nat) (hi : i < l.length) (h : l.getD i true = false) :
    (l.set i true).count false + 1 = l.count false := by
  induction l generalizing i with
  | nil => simp at hi
  | cons b rest ih =>
    cases i with
    | zero =>
      simp only [List.getD_eq_getElem?_getD, List.getElem?_cons_zero, Option.getD_some] at h
      subst h
      simp
    | succ n =>
      simp only [List.getD_eq_getElem?_getD, List.getElem?_cons_succ] at h
      have := ih n (by simpa using hi) (by simpa [List.getD_eq_getElem?_getD] using h)
      simp only [List.set_cons_succ, List.count_cons]
      omega

theorem count_false_set_false (l : List Bool) (i : Nat) (hi : i < l.length) (h : l.getD i true = true) :
    (l.set i false).count false = l.count false + 1 := by
  induction l generalizing i with
  | nil => simp at hi
  | cons b rest ih =>
    cases i with
    | zero =>
      simp only [List.getD_eq_getElem?_getD, List.getElem?_cons_zero, Option.getD_some] at h
      subst h
      simp
    | succ n =>
      simp only [List.getD_eq_getElem?_getD, List.getElem?_cons_succ] at h
      have := ih n (by simpa using hi) (by simpa [List.getD_eq_getElem?_getD] using h)
      simp only [List.set_cons_succ, List.count_cons]
      omega

/-- an allocation takes exactly one number from the free count; a failed one takes none -/
theorem allocNum_numFree (a : Alloc) (h0 : a.bits.getD 0 true = true) (hpos : 0 < a.size) :
    (a.allocNum).1.numFree + (if (a.allocNum).2 = 0 then 0 else 1) = a.numFree := by
  obtain ⟨h1, h2⟩ := allocNum_sound a h0 hpos
  by_cases h : (a.allocNum).2 = 0
  · simp only [h, if_true, numFree, h2 h, Nat.add_zero]
  · simp only [h, if_false, numFree, (h1 h).2.2]
    exact count_false_set_true _ _ (h1 h).2.1 (h1 h).1

/-- freeing a number that is in use gives exactly one back -/
theorem freeNum_numFree (a a' : Alloc) (n : Nat) (h : a.freeNum n = some a') (hb : a.bits.getD n true = true) :
    a'.numFree = a.numFree + 1 := by
  unfold freeNum at h
  split at h
  · cases h
  · rename_i hc
    simp only [Option.some.injEq] at h
    subst h
    simp only [numFree, freeBit]
    exact count_false_set_false _ _ (by simp only [size] at hc; omega) hb

/-- … and the number can be handed out again, nothing else having changed -/
theorem freeNum_bits (a a' : Alloc) (n : Nat) (h : a.freeNum n = some a') :
    n ≠ 0 ∧ n < a.size ∧ a'.bits = a.bits.set n false ∧ a'.next = a.next := by
  unfold freeNum at h
  split at h
  · cases h
  · rename_i hc
    simp only [Option.some.injEq] at h
    subst h
    exact ⟨by omega, by omega, rfl, rfl⟩

/-! ### "none" means full -/

/-- `scan` started `v` positions after `start` with enough fuel for the remaining positions, all
    visited positions being set: if it reports 0, every position is set. -/
theorem scan_complete (fuel : Nat) : ∀ (a : Alloc) (start v : Nat), start < a.size → v < a.size →
    a.next = (start + v) % a.size → a.size ≤ fuel + v →
    (∀ k, k < v → a.bits.getD ((start + k) % a.size) true = true) →
    a.bits.getD 0 true = true →
    (scan a start fuel).2 = 0 → ∀ k, k < a.size → a.bits.getD ((start + k) % a.size) true = true := by
  induction fuel with
  | zero => intro a start v _ hv _ hf _ _ _; omega
  | succ fuel ih =>
    intro a start v hs hv hn hf hvis h0 hz k hk
    unfold scan at hz
    by_cases hb : a.bits.getD a.next true = false
    · rw [if_pos hb] at hz
      have hz' : a.next = 0 := hz
      rw [hz'] at hb; rw [hb] at h0; cases h0
    · rw [if_neg hb] at hz
      have hbt : a.bits.getD a.next true = true := by
        cases hx : a.bits.getD a.next true
        · exact absurd hx hb
        · rfl
      have hvis' : ∀ k, k < v + 1 → a.bits.getD ((start + k) % a.size) true = true := by
        intro k hk
        by_cases hkv : k = v
        · rw [hkv, ← hn]; exact hbt
        · exact hvis k (by omega)
      have hinc : a.incNext.next = (start + (v + 1)) % a.size := by
        have hlt : a.next < a.size := by rw [hn]; exact Nat.mod_lt _ (by omega)
        have hmod : (start + (v + 1)) % a.size = (a.next + 1) % a.size := by
          rw [hn, Nat.mod_add_mod, Nat.add_assoc]
        rw [hmod]
        unfold incNext
        by_cases hw : a.next + 1 ≥ a.size
        · simp only [hw, if_true]
          have : a.next + 1 = a.size := by omega
          rw [this, Nat.mod_self]
        · simp only [hw, if_false]
          rw [Nat.mod_eq_of_lt (by omega)]
      by_cases hst : a.incNext.next = start
      · -- back at the start: every position has been visited
        rw [hinc] at hst
        have hv1 : v + 1 = a.size := by
          -- (start + v + 1) % size = start with v + 1 ≤ size forces v + 1 = size
          rcases Nat.lt_or_ge (start + (v + 1)) a.size with hlt | hge
          · rw [Nat.mod_eq_of_lt hlt] at hst; omega
          · have : (start + (v + 1)) % a.size = start + (v + 1) - a.size := by
              rw [Nat.mod_eq_sub_mod hge, Nat.mod_eq_of_lt (by omega)]
            rw [this] at hst; omega
        exact hvis' k (by omega)
      · rw [if_neg hst] at hz
        have hv1 : v + 1 < a.size := by
          rcases Nat.lt_or_ge (v + 1) a.size with hlt | hge
          · exact hlt
          · have hveq : v + 1 = a.size := by omega
            rw [hinc, hveq, Nat.add_mod_right, Nat.mod_eq_of_lt hs] at hst
            exact absurd rfl hst
        have := ih a.incNext start (v + 1) (by rw [incNext_size]; exact hs) (by rw [incNext_size]; exact hv1)
          (by rw [incNext_size]; exact hinc) (by rw [incNext_size]; omega)
          (by rw [incNext_bits, incNext_size]; exact hvis') (by rw [incNext_bits]; exact h0) hz k (by rw [incNext_size]; exact hk)
        rw [incNext_bits, incNext_size] at this
        exact this

/-- `AllocNum` REPORTS "NONE" ONLY WHEN NOTHING IS FREE -/
theorem allocNum_none_means_full (a : Alloc) (h0 : a.bits.getD 0 true = true) (hpos : 0 < a.size)
    (hn : a.next < a.size) (hz : (a.allocNum).2 = 0) : a.numFree = 0 := by
  unfold allocNum allocBit at hz
  have hs := incNext_next_lt a hpos
  have hall := scan_complete a.size a.incNext a.incNext.next 0 (by rw [incNext_size]; exact hs)
    (by rw [incNext_size]; exact hpos)
    (by rw [incNext_size, Nat.add_zero, Nat.mod_eq_of_lt hs]) (by rw [incNext_size]; omega)
    (fun k hk => absurd hk (Nat.not_lt_zero _)) (by rw [incNext_bits]; exact h0) hz
  rw [incNext_bits, incNext_size] at hall
  -- every position is of the form (start + k) % size
  have hevery : ∀ p, p < a.size → a.bits.getD p true = true := by
    intro p hp
    have := hall ((p + a.size - a.incNext.next) % a.size) (Nat.mod_lt _ hpos)
    have hidx : (a.incNext.next + (p + a.size - a.incNext.next) % a.size) % a.size = p := by
      rcases Nat.lt_or_ge p a.incNext.next with hlt | hge
      · have e1 : (p + a.size - a.incNext.next) % a.size = p + a.size - a.incNext.next :=
          Nat.mod_eq_of_lt (by omega)
        rw [e1]
        have : a.incNext.next + (p + a.size - a.incNext.next) = p + a.size := by omega
        rw [this, Nat.add_mod_right, Nat.mod_eq_of_lt hp]
      · have e1 : (p + a.size - a.incNext.next) % a.size = p - a.incNext.next := by
          have : p + a.size - a.incNext.next = (p - a.incNext.next) + a.size := by omega
          rw [this, Nat.add_mod_right, Nat.mod_eq_of_lt (by omega)]
        rw [e1]
        have : a.incNext.next + (p - a.incNext.next) = p := by omega
        rw [this, Nat.mod_eq_of_lt hp]
    rw [hidx] at this
    exact this
  simp only [numFree]
  rw [List.count_eq_zero]
  intro hmem
  obtain ⟨i, hi, hget⟩ := List.getElem_of_mem hmem
  have := hevery i hi
  rw [List.getD_eq_getElem?_getD, List.getElem?_eq_getElem hi] at this
  simp only [Option.getD_some] at this
  rw [hget] at this
  cases this


/-! ### every free number can be had -/

theorem scan_next_lt (fuel : Nat) : ∀ (a : Alloc) (start : Nat), a.next < a.size → start < a.size →
    (scan a start fuel).1.next < a.size := by
  induction fuel with
  | zero => intro a start hn _; exact hn
  | succ fuel ih =>
    intro a start hn hs
    unfold scan
    by_cases hb : a.bits.getD a.next true = false
    · rw [if_pos hb]; exact hn
    · rw [if_neg hb]
      have hpos : 0 < a.size := by omega
      by_cases hst : a.incNext.next = start
      · simp only [hst, if_true]; exact hs
      · simp only [hst, if_false]
        have := ih a.incNext start (by rw [incNext_size]; exact incNext_next_lt a hpos) (by rw [incNext_size]; exact hs)
        rw [incNext_size] at this
        exact this

theorem allocNum_next_lt (a : Alloc) (hpos : 0 < a.size) : (a.allocNum).1.next < a.size := by
  unfold allocNum allocBit
  have hs := incNext_next_lt a hpos
  have := scan_next_lt a.size a.incNext a.incNext.next (by rw [incNext_size]; exact hs) (by rw [incNext_size]; exact hs)
  rw [incNext_size] at this
  exact this

/-- asking often enough hands out EVERY free number: the count of numbers obtained is the free count -/
theorem allocMany_exhausts (k : Nat) : ∀ (a : Alloc), a.bits.getD 0 true = true → 0 < a.size →
    a.next < a.size → a.numFree ≤ k → ((a.allocMany k).2).length = a.numFree := by
  induction k with
  | zero =>
    intro a _ _ _ hk
    simp only [allocMany, List.length_nil]; omega
  | succ k ih =>
    intro a h0 hpos hn hk
    unfold allocMany
    have hnf := allocNum_numFree a h0 hpos
    have hsz := allocNum_size a h0 hpos
    have hz := allocNum_zero_kept a h0 hpos
    have hnl := allocNum_next_lt a hpos
    have hfull := allocNum_none_means_full a h0 hpos hn
    generalize hres : a.allocNum = res at *
    obtain ⟨a', r⟩ := res
    simp only at hnf hsz hz hnl hfull ⊢
    by_cases hr : r = 0
    · simp only [hr, if_true, List.length_nil]
      exact (hfull hr).symm
    · simp only [hr, if_false] at hnf ⊢
      have := ih a' hz (by rw [hsz]; exact hpos) (by rw [hsz]; exact hnl) (by omega)
      generalize hres2 : a'.allocMany k = res2 at *
      obtain ⟨a'', rs⟩ := res2
      simp only [List.length_cons] at this ⊢
      omega

end GoNfsd.Model.Alloc.Alloc

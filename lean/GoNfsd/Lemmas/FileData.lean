import GoNfsd.Model.FileData

/-! M7d refines the content log of M6: invariants of the block-level file, the effect of one step of
    the copy loop, of a whole `Write`, of `Resize`, and the simulation with `Model/Fs.byteAt`. -/
namespace GoNfsd.Model.FileData
open GoNfsd.Model.Fs (Ext byteAt readBytes)

/-- no disk block serves two file blocks -/
def Inj (f : F) : Prop := ∀ i j, f.map i ≠ 0 → f.map i = f.map j → i = j

/-- what the allocator hands out for a hole is a real block, nobody's, all zeros, and not handed
    out twice (M2 `allocator_stream_is_fresh_and_distinct`, M7 `freed_blocks_are_all_zeros`) -/
def FreshOK (f : F) (fresh : Nat → Nat) : Prop :=
  ∀ i, f.map i = 0 → fresh i ≠ 0 ∧ (∀ j, f.map j ≠ fresh i) ∧ (∀ o, f.data (fresh i) o = 0) ∧
    (∀ j, f.map j = 0 → fresh j = fresh i → j = i)

/-- beyond the size the file's blocks hold zeros (or nothing is mapped there) -/
def TailZero (f : F) : Prop := ∀ pos, f.size ≤ pos → f.cell pos = 0

theorem pos_eq (p q : Nat) : p = q ↔ p / BS = q / BS ∧ p % BS = q % BS := by
  unfold BS; omega

/-! ### one step of the copy loop -/

def F.step1 (f : F) (fresh : Nat → Nat) (pos : Nat) (x : UInt8) : F :=
  (f.ensure (pos / BS) (fresh (pos / BS))).poke pos x

theorem step1_map (f : F) (fresh : Nat → Nat) (pos : Nat) (x : UInt8) (j : Nat) :
    (f.step1 fresh pos x).map j =
      if f.map (pos / BS) = 0 ∧ j = pos / BS then fresh (pos / BS) else f.map j := by
  unfold F.step1 F.poke F.ensure
  by_cases h : f.map (pos / BS) = 0
  · by_cases hj : j = pos / BS <;> simp [h, hj]
  · simp [h]

theorem step1_data (f : F) (fresh : Nat → Nat) (pos : Nat) (x : UInt8) (b o : Nat) :
    (f.step1 fresh pos x).data b o =
      if b = (f.step1 fresh pos x).map (pos / BS) ∧ o = pos % BS then x else f.data b o := by
  unfold F.step1 F.poke F.ensure
  by_cases h : f.map (pos / BS) = 0 <;> simp [h]

theorem step1_size (f : F) (fresh : Nat → Nat) (pos : Nat) (x : UInt8) :
    (f.step1 fresh pos x).size = f.size := by
  unfold F.step1 F.poke F.ensure
  by_cases h : f.map (pos / BS) = 0 <;> simp [h]

theorem step1_cell (f : F) (fresh : Nat → Nat) (pos : Nat) (x : UInt8) (hi : Inj f)
    (hf : FreshOK f fresh) (p : Nat) :
    (f.step1 fresh pos x).cell p = if p = pos then x else f.cell p := by
  unfold F.cell
  rw [step1_data, step1_map, step1_map]
  by_cases h0 : f.map (pos / BS) = 0
  · obtain ⟨hb0, hbr, hbz, _⟩ := hf (pos / BS) h0
    by_cases hj : p / BS = pos / BS
    · -- the block just mapped: it was all zeros
      simp only [h0, hj, and_self, if_true, true_and]
      rw [if_neg hb0]
      by_cases ho : p % BS = pos % BS
      · have : p = pos := (pos_eq p pos).2 ⟨hj, ho⟩
        simp [ho, this]
      · have : p ≠ pos := fun e => ho (by rw [e])
        simp [ho, this, hbz]
    · have hne : p ≠ pos := fun e => hj (by rw [e])
      simp only [h0, hj, and_false, if_false, true_and, and_true, if_true, hne]
      by_cases hm : f.map (p / BS) = 0
      · simp [hm]
      · simp only [hm, if_false]
        rw [if_neg]
        intro hc
        exact hbr (p / BS) hc.1
  · simp only [h0, false_and, if_false]
    by_cases hm : f.map (p / BS) = 0
    · have hne : p ≠ pos := fun e => h0 (by rw [← e]; exact hm)
      simp [hm, hne]
    · simp only [hm, if_false]
      by_cases hp : p = pos
      · subst hp; simp
      · rw [if_neg hp, if_neg]
        intro hc
        have hj : p / BS = pos / BS := hi _ _ hm hc.1
        exact hp ((pos_eq p pos).2 ⟨hj, hc.2⟩)

theorem step1_inj (f : F) (fresh : Nat → Nat) (pos : Nat) (x : UInt8) (hi : Inj f)
    (hf : FreshOK f fresh) : Inj (f.step1 fresh pos x) := by
  intro i j hne he
  rw [step1_map] at hne he
  rw [step1_map] at he
  by_cases h0 : f.map (pos / BS) = 0
  · obtain ⟨hb0, hbr, _, _⟩ := hf (pos / BS) h0
    by_cases hi' : i = pos / BS <;> by_cases hj' : j = pos / BS
    · rw [hi', hj']
    · simp [h0, hi', hj'] at he; exact absurd he.symm (hbr j)
    · simp [h0, hi', hj'] at he; exact absurd he (hbr i)
    · simp [h0, hi', hj'] at he hne; exact hi i j hne he
  · simp [h0] at he hne; exact hi i j hne he

theorem step1_fresh (f : F) (fresh : Nat → Nat) (pos : Nat) (x : UInt8) (hi : Inj f)
    (hf : FreshOK f fresh) : FreshOK (f.step1 fresh pos x) fresh := by
  intro i hz
  rw [step1_map] at hz
  by_cases h0 : f.map (pos / BS) = 0
  · obtain ⟨hb0, hbr, hbz, hbu⟩ := hf (pos / BS) h0
    have hin : i ≠ pos / BS := by
      intro e; simp [h0, e] at hz; exact hb0 hz
    have hz' : f.map i = 0 := by simpa [h0, hin] using hz
    obtain ⟨a0, ar, az, au⟩ := hf i hz'
    refine ⟨a0, ?_, ?_, ?_⟩
    · intro j
      rw [step1_map]
      by_cases hj : j = pos / BS
      · simp only [h0, hj, and_self, if_true]
        intro e
        exact hin (au (pos / BS) h0 e).symm
      · simp only [hj, and_false, if_false]; exact ar j
    · intro o
      rw [step1_data, step1_map]
      simp only [h0, and_self, if_true, true_and]
      rw [if_neg]
      · exact az o
      · intro hc
        exact hin ((au (pos / BS) h0 hc.1.symm).symm)
    · intro j hj e
      rw [step1_map] at hj
      by_cases hjp : j = pos / BS
      · simp [h0, hjp] at hj; exact absurd hj hb0
      · have : f.map j = 0 := by simpa [h0, hjp] using hj
        exact au j this e
  · have hz' : f.map i = 0 := by simpa [h0] using hz
    obtain ⟨a0, ar, az, au⟩ := hf i hz'
    refine ⟨a0, ?_, ?_, ?_⟩
    · intro j; rw [step1_map]; simp only [h0, false_and, if_false]; exact ar j
    · intro o
      rw [step1_data, step1_map]
      simp only [h0, false_and, if_false]
      rw [if_neg]
      · exact az o
      · intro hc; exact ar (pos / BS) hc.1.symm
    · intro j hj e
      rw [step1_map] at hj
      have : f.map j = 0 := by simpa [h0] using hj
      exact au j this e

/-- `Inode.Read` maps the holes it meets (`bmap` allocates); what it maps is all zeros, so no byte
    of the file changes -/
theorem ensure_cell (f : F) (fresh : Nat → Nat) (i : Nat) (hf : FreshOK f fresh) (p : Nat) :
    (f.ensure i (fresh i)).cell p = f.cell p := by
  unfold F.ensure
  by_cases h0 : f.map i = 0
  · obtain ⟨hb0, _, hbz, _⟩ := hf i h0
    simp only [h0, if_true]
    unfold F.cell
    by_cases hj : p / BS = i
    · simp only [hj, if_true, hb0, if_false, h0, hbz]
    · simp only [hj, if_false]
  · simp only [h0, if_false]

theorem ensure_inj (f : F) (fresh : Nat → Nat) (i : Nat) (hi : Inj f) (hf : FreshOK f fresh) :
    Inj (f.ensure i (fresh i)) := by
  unfold F.ensure
  by_cases h0 : f.map i = 0
  · obtain ⟨hb0, hbr, _, _⟩ := hf i h0
    simp only [h0, if_true]
    intro a b hne he
    simp only [] at hne he
    by_cases ha : a = i <;> by_cases hb : b = i
    · rw [ha, hb]
    · simp [ha, hb] at he; exact absurd he.symm (hbr b)
    · simp [ha, hb] at he; exact absurd he (hbr a)
    · simp [ha, hb] at he hne; exact hi a b hne he
  · simp only [h0, if_false]; exact hi

/-! ### the whole loop -/

theorem writeFrom_eq (f : F) (fresh : Nat → Nat) (pos : Nat) (x : UInt8) (xs : List UInt8) :
    f.writeFrom fresh pos (x :: xs) = (f.step1 fresh pos x).writeFrom fresh (pos + 1) xs := rfl

theorem writeFrom_ok (fresh : Nat → Nat) (xs : List UInt8) :
    ∀ (f : F) (pos : Nat), Inj f → FreshOK f fresh →
      Inj (f.writeFrom fresh pos xs) ∧ FreshOK (f.writeFrom fresh pos xs) fresh ∧
      (f.writeFrom fresh pos xs).size = f.size ∧
      ∀ p, (f.writeFrom fresh pos xs).cell p =
        if pos ≤ p ∧ p < pos + xs.length then xs.getD (p - pos) 0 else f.cell p := by
  induction xs with
  | nil =>
    intro f pos hi hf
    refine ⟨hi, hf, rfl, fun p => ?_⟩
    rw [if_neg (by simp)]
    rfl
  | cons x xs ih =>
    intro f pos hi hf
    rw [writeFrom_eq]
    obtain ⟨h1, h2, h3, h4⟩ := ih (f.step1 fresh pos x) (pos + 1) (step1_inj f fresh pos x hi hf)
      (step1_fresh f fresh pos x hi hf)
    refine ⟨h1, h2, by rw [h3, step1_size], ?_⟩
    intro p
    rw [h4 p, step1_cell f fresh pos x hi hf p]
    by_cases hp : p = pos
    · subst hp
      rw [if_neg (by omega), if_pos rfl, if_pos ⟨Nat.le_refl _, by simp⟩]
      simp
    · by_cases hr : pos + 1 ≤ p ∧ p < pos + 1 + xs.length
      · have hr' : pos ≤ p ∧ p < pos + (x :: xs).length := by simp; omega
        rw [if_pos hr, if_pos hr']
        have : p - pos = (p - (pos + 1)) + 1 := by omega
        rw [this]; simp
      · have hr' : ¬ (pos ≤ p ∧ p < pos + (x :: xs).length) := by simp at hr ⊢; omega
        rw [if_neg hr, if_neg hr', if_neg hp]

/-! ### Write, Resize and the invariants -/

structure Inv (f : F) : Prop where
  inj : Inj f
  tail : TailZero f

theorem write_cell (f : F) (fresh : Nat → Nat) (off : Nat) (bytes : List UInt8) (hi : Inj f)
    (hf : FreshOK f fresh) (p : Nat) :
    (f.write fresh off bytes).cell p =
      if off ≤ p ∧ p < off + bytes.length then bytes.getD (p - off) 0 else f.cell p := by
  have := (writeFrom_ok fresh bytes f off hi hf).2.2.2 p
  show (f.writeFrom fresh off bytes).cell p = _
  exact this

theorem write_inv (f : F) (fresh : Nat → Nat) (off : Nat) (bytes : List UInt8) (h : Inv f)
    (hf : FreshOK f fresh) : Inv (f.write fresh off bytes) := by
  obtain ⟨h1, _, _, _⟩ := writeFrom_ok fresh bytes f off h.inj hf
  refine ⟨h1, ?_⟩
  intro p hp
  rw [write_cell f fresh off bytes h.inj hf p]
  have hs : (f.write fresh off bytes).size = max f.size (off + bytes.length) := rfl
  rw [hs] at hp
  rw [if_neg (by omega)]
  exact h.tail p (by omega)

/-- a WRITE shows exactly its bytes; everything else reads as before (in particular a gap between
    the old end of file and the write reads as zeros) -/
theorem write_byte (f : F) (fresh : Nat → Nat) (off : Nat) (bytes : List UInt8) (h : Inv f)
    (hf : FreshOK f fresh) (p : Nat) :
    (f.write fresh off bytes).byte p =
      if off ≤ p ∧ p < off + bytes.length then bytes.getD (p - off) 0 else f.byte p := by
  have hs : (f.write fresh off bytes).size = max f.size (off + bytes.length) := rfl
  unfold F.byte
  rw [hs, write_cell f fresh off bytes h.inj hf p]
  by_cases hr : off ≤ p ∧ p < off + bytes.length
  · rw [if_pos hr, if_pos hr, if_pos (by omega)]
  · rw [if_neg hr, if_neg hr]
    by_cases hp : p < f.size
    · rw [if_pos hp, if_pos (by omega)]
    · rw [if_neg hp]
      have := h.tail p (by omega)
      split <;> simp [this]

theorem resize_shrink_cell (f : F) (n : Nat) (hi : Inj f) (hn : n < f.size) (p : Nat) :
    (f.resize n).cell p = if n ≤ p then 0 else f.cell p := by
  unfold F.resize
  rw [if_pos hn]
  unfold F.cell F.zeroTail
  by_cases hp : n ≤ p
  · rw [if_pos hp]
    by_cases hr : roundUp n ≤ p / BS
    · simp [hr]
    · have hA : p / BS = n / BS ∧ n % BS ≠ 0 ∧ n % BS ≤ p % BS := by
        unfold roundUp BS at hr; unfold BS; omega
      simp only [hr, if_false]
      rw [if_neg hA.2.1]
      simp only []
      by_cases hm : f.map (p / BS) = 0
      · simp [hm]
      · simp only [hm, if_false]
        rw [if_pos ⟨by rw [hA.1], hA.2.2⟩]
  · rw [if_neg hp]
    have hB : ¬ roundUp n ≤ p / BS ∧ (p / BS = n / BS → p % BS < n % BS) := by
      unfold roundUp BS; omega
    simp only [hB.1, if_false]
    by_cases ha : n % BS = 0
    · simp [ha]
    · rw [if_neg ha]
      simp only []
      by_cases hm : f.map (p / BS) = 0
      · simp [hm]
      · simp only [hm, if_false]
        rw [if_neg]
        intro hc
        have hj : p / BS = n / BS := hi _ _ hm hc.1
        have := hB.2 hj
        omega

theorem resize_inv (f : F) (n : Nat) (h : Inv f) : Inv (f.resize n) := by
  by_cases hn : n < f.size
  · refine ⟨?_, ?_⟩
    · intro i j hne he
      unfold F.resize at hne he
      rw [if_pos hn] at hne he
      simp only [F.zeroTail] at hne he
      by_cases hi' : roundUp n ≤ i
      · simp [hi'] at hne
      · by_cases hj' : roundUp n ≤ j
        · have e1 : (if n % BS = 0 then f else
              { f with data := fun b o => if b = f.map (n / BS) ∧ n % BS ≤ o then 0 else f.data b o }).map i = f.map i := by
            split <;> rfl
          simp only [hi', hj', if_false, if_true] at he hne
          rw [e1] at he hne
          exact absurd he hne
        · have e1 : ∀ k, (if n % BS = 0 then f else
              { f with data := fun b o => if b = f.map (n / BS) ∧ n % BS ≤ o then 0 else f.data b o }).map k = f.map k := by
            intro k; split <;> rfl
          simp only [hi', hj', if_false] at he hne
          rw [e1] at he hne
          rw [e1] at he
          exact h.inj i j hne he
    · intro p hp
      rw [resize_shrink_cell f n h.inj hn p]
      have : (f.resize n).size = n := by unfold F.resize; rw [if_pos hn]
      rw [this] at hp
      rw [if_pos hp]
  · have e : f.resize n = { f with size := n } := by unfold F.resize; rw [if_neg hn]
    rw [e]
    refine ⟨h.inj, ?_⟩
    intro p hp
    exact h.tail p (by simp at hp; omega)

/-- a truncation cuts the file off; growing it exposes zeros and nothing else changes -/
theorem resize_byte (f : F) (n : Nat) (h : Inv f) (p : Nat) :
    (f.resize n).byte p = if n ≤ p then 0 else f.byte p := by
  by_cases hn : n < f.size
  · have hs : (f.resize n).size = n := by unfold F.resize; rw [if_pos hn]
    unfold F.byte
    rw [hs, resize_shrink_cell f n h.inj hn p]
    by_cases hp : n ≤ p
    · rw [if_pos hp, if_pos hp]; simp
    · rw [if_neg hp, if_neg hp, if_pos (by omega), if_pos (by omega)]
  · have e : f.resize n = { f with size := n } := by unfold F.resize; rw [if_neg hn]
    rw [e]
    unfold F.byte
    simp only []
    by_cases hp : n ≤ p
    · rw [if_pos hp, if_neg (by omega)]
    · rw [if_neg hp, if_pos (by omega)]
      have hc : (F.cell { f with size := n } p) = f.cell p := rfl
      rw [hc]
      by_cases hq : p < f.size
      · rw [if_pos hq]
      · rw [if_neg hq]; exact h.tail p (by omega)

/-! ### the simulation with the content log of the reference model -/

/-- the block-level file shows what the log says -/
def Rel (f : F) (c : List Ext) (size : Nat) : Prop :=
  f.size = size ∧ ∀ p, f.byte p = byteAt c p

theorem arr_getD (a : Array UInt8) (k : Nat) : a.toList.getD k 0 = a.getD k 0 := by
  simp [Array.getD, List.getD]
  by_cases h : k < a.size <;> simp [h]

/-- WRITE: `content := .write off data :: content`, `size := max size (off + count)` -/
theorem write_refines (f : F) (fresh : Nat → Nat) (c : List Ext) (size off : Nat) (data : Array UInt8)
    (h : Inv f) (hf : FreshOK f fresh) (hr : Rel f c size) :
    Rel (f.write fresh off data.toList) (.write off data :: c) (max size (off + data.size)) := by
  refine ⟨by simp [F.write, hr.1], ?_⟩
  intro p
  rw [write_byte f fresh off data.toList h hf p]
  simp only [byteAt, Array.length_toList]
  by_cases hp : off ≤ p ∧ p < off + data.size
  · rw [if_pos hp, if_pos hp, arr_getD]
  · rw [if_neg hp, if_neg hp]; exact hr.2 p

/-- SETATTR size: `resize` of the reference model -/
theorem resize_refines (f : F) (c : List Ext) (size n : Nat) (h : Inv f) (hr : Rel f c size)
    (hz : ∀ p, size ≤ p → byteAt c p = 0) :
    Rel (f.resize n) (if n < size then .trunc n :: c else c) n := by
  refine ⟨by unfold F.resize; split <;> rfl, ?_⟩
  intro p
  rw [resize_byte f n h p]
  by_cases hn : n < size
  · rw [if_pos hn]
    simp only [byteAt]
    by_cases hp : n ≤ p
    · rw [if_pos hp, if_pos hp]
    · rw [if_neg hp, if_neg hp]; exact hr.2 p
  · rw [if_neg hn]
    by_cases hp : n ≤ p
    · rw [if_pos hp]; exact (hz p (by omega)).symm
    · rw [if_neg hp]; exact hr.2 p

/-- READ returns the bytes of the log -/
theorem read_refines (f : F) (c : List Ext) (size off n : Nat) (hr : Rel f c size) :
    f.read off n = readBytes c off n := by
  unfold F.read readBytes
  apply List.map_congr_left
  intro k _
  exact hr.2 (off + k)

/-- the log's own invariant used above: nothing is recorded beyond the size -/
theorem rel_zero_beyond (f : F) (c : List Ext) (size : Nat) (hr : Rel f c size) :
    ∀ p, size ≤ p → byteAt c p = 0 := by
  intro p hp
  rw [← hr.2 p]
  unfold F.byte
  rw [if_neg (by rw [hr.1]; omega)]

/-! ### whole histories -/

inductive DOp where
  | write (fresh : Nat → Nat) (off : Nat) (data : Array UInt8)
  | resize (n : Nat)

def F.apply (f : F) : DOp → F
  | .write fresh off data => f.write fresh off data.toList
  | .resize n => f.resize n

/-- what the reference model M6 does to content and size (`Model/Fs.step`, WRITE and SETATTR) -/
def logApply (cs : List Ext × Nat) : DOp → List Ext × Nat
  | .write _ off data => (.write off data :: cs.1, max cs.2 (off + data.size))
  | .resize n => (if n < cs.2 then .trunc n :: cs.1 else cs.1, n)

/-- along the history, what the allocator hands out is fresh at the time -/
def FreshAll : F → List DOp → Prop
  | _, [] => True
  | f, op :: rest =>
    (match op with | .write fresh _ _ => FreshOK f fresh | .resize _ => True) ∧ FreshAll (f.apply op) rest

theorem history_refines (ops : List DOp) :
    ∀ (f : F) (cs : List Ext × Nat), Inv f → Rel f cs.1 cs.2 → FreshAll f ops →
      Inv (ops.foldl F.apply f) ∧ Rel (ops.foldl F.apply f) (ops.foldl logApply cs).1 (ops.foldl logApply cs).2 := by
  induction ops with
  | nil => intro f cs hi hr _; exact ⟨hi, hr⟩
  | cons op rest ih =>
    intro f cs hi hr hf
    simp only [List.foldl_cons]
    cases op with
    | write fresh off data =>
      exact ih _ _ (write_inv f fresh off data.toList hi hf.1)
        (write_refines f fresh cs.1 cs.2 off data hi hf.1 hr) hf.2
    | resize n =>
      exact ih _ _ (resize_inv f n hi)
        (resize_refines f cs.1 cs.2 n hi hr (rel_zero_beyond f cs.1 cs.2 hr)) hf.2

/-- an empty file -/
def F.empty : F := { map := fun _ => 0, data := fun _ _ => 0, size := 0 }

theorem empty_inv : Inv F.empty := ⟨fun i j h _ => absurd rfl h, fun p _ => by simp [F.cell, F.empty]⟩

theorem empty_rel : Rel F.empty [] 0 := ⟨rfl, fun p => by simp [F.byte, F.empty, byteAt]⟩

end GoNfsd.Model.FileData

/- Helper lemmas for the XDR codec model (round trip). -/
import GoNfsd.Model.Xdr

namespace GoNfsd.Model.Xdr

@[simp] theorem be_length (k n : Nat) : (be k n).length = k := by
  induction k generalizing n with
  | zero => simp [be]
  | succ k ih => simp [be, ih]

theorem beNat_append_aux (acc : Nat) (bs : List UInt8) :
    bs.foldl (fun acc b => acc * 256 + b.toNat) acc
      = acc * 256 ^ bs.length + bs.foldl (fun acc b => acc * 256 + b.toNat) 0 := by
  induction bs generalizing acc with
  | nil => simp
  | cons b bs ih =>
    simp only [List.foldl_cons, List.length_cons]
    rw [ih (acc * 256 + b.toNat), ih (0 * 256 + b.toNat)]
    simp [Nat.pow_succ, Nat.add_mul, Nat.mul_assoc, Nat.mul_comm 256]
    omega

theorem beNat_cons (b : UInt8) (bs : List UInt8) :
    beNat (b :: bs) = b.toNat * 256 ^ bs.length + beNat bs := by
  unfold beNat
  simp only [List.foldl_cons]
  rw [beNat_append_aux]
  simp

theorem beNat_be (k n : Nat) (h : n < 256 ^ k) : beNat (be k n) = n := by
  induction k generalizing n with
  | zero => simp [be, beNat] at *; omega
  | succ k ih =>
    simp only [be, beNat_cons, be_length]
    have hpos : 0 < 256 ^ k := Nat.pow_pos (by decide)
    have h1 : n % 256 ^ k < 256 ^ k := Nat.mod_lt _ hpos
    rw [ih _ h1]
    have h2 : n / 256 ^ k < 256 := by
      rw [Nat.div_lt_iff_lt_mul hpos]
      rw [Nat.pow_succ] at h
      rw [Nat.mul_comm]; exact h
    have h3 : (UInt8.ofNat (n / 256 ^ k % 256)).toNat = n / 256 ^ k := by
      simp [UInt8.toNat_ofNat', Nat.mod_eq_of_lt h2]
    rw [h3]
    exact Nat.div_add_mod' n (256 ^ k)

theorem takeN_append (a rest : List UInt8) : takeN a.length (a ++ rest) = some (a, rest) := by
  simp [takeN]

theorem takeN_append' (a rest : List UInt8) (n : Nat) (h : a.length = n) :
    takeN n (a ++ rest) = some (a, rest) := by
  subst h; exact takeN_append a rest

@[simp] theorem zeros_length (n : Nat) : (zeros n).length = n := by simp [zeros]

end GoNfsd.Model.Xdr

namespace GoNfsd.Model.Xdr

theorem take_word (k n : Nat) (rest : List UInt8) :
    takeN k (be k n ++ rest) = some (be k n, rest) := takeN_append' _ _ _ (be_length k n)

theorem lenOk_lt {max : Option Nat} {n : Nat} (h : lenOk max n = true) : n < 256 ^ 4 := by
  simp [lenOk] at h; omega

theorem decBytes_enc (max : Option Nat) (bs rest : List UInt8) (h : lenOk max bs.length = true) :
    decBytes max (be 4 bs.length ++ bs ++ zeros (padLen bs.length) ++ rest) = some (.bytes bs, rest) := by
  unfold decBytes
  have h4 := lenOk_lt h
  simp only [List.append_assoc, take_word, beNat_be 4 _ h4, h, if_true]
  rw [takeN_append bs]
  simp only []
  rw [takeN_append' (zeros (padLen bs.length)) rest _ (zeros_length _)]
  simp

theorem decNums_enc (ns : List Nat) (bs rest : List UInt8) (h : encNums ns = some bs) :
    decNums ns.length (bs ++ rest) = some (ns, rest) := by
  induction ns generalizing bs with
  | nil => simp [encNums] at h; subst h; simp [decNums]
  | cons n ns ih =>
    simp only [encNums] at h
    split at h
    · rename_i hn
      cases h' : encNums ns with
      | none => simp [h'] at h
      | some b =>
        simp [h'] at h; subst h
        simp only [decNums, List.length_cons, List.append_assoc, take_word, ih b h']
        rw [beNat_be 4 n (by simpa using hn)]
    · simp at h

/-- the chain loop: enough fuel decodes what the chain encoder wrote -/
theorem decChain_enc (encElem : Val → Option (List UInt8))
    (decElem : List UInt8 → Option (Val × List UInt8))
    (vs : List Val)
    (hel : ∀ v ∈ vs, ∀ b r, encElem v = some b → decElem (b ++ r) = some (v, r)) :
    ∀ (bs rest : List UInt8) (fuel : Nat), encChainWith encElem vs = some bs → vs.length < fuel →
      decChainWith decElem fuel (bs ++ rest) = some (vs, rest) := by
  induction vs with
  | nil =>
    intro bs rest fuel h hf
    simp [encChainWith] at h; subst h
    cases fuel with
    | zero => omega
    | succ f => simp [decChainWith, take_word, beNat_be 4 0 (by decide)]
  | cons v vs ih =>
    intro bs rest fuel h hf
    cases fuel with
    | zero => omega
    | succ f =>
      simp only [encChainWith] at h
      cases ha : encElem v with
      | none => simp [ha] at h
      | some a =>
        cases hb : encChainWith encElem vs with
        | none => simp [ha, hb] at h
        | some b =>
          simp [ha, hb] at h; subst h
          have hv := hel v (List.mem_cons_self) a (b ++ rest) ha
          have hrest := ih (fun w hw => hel w (List.mem_cons_of_mem _ hw)) b rest f hb (by simp at hf; omega)
          simp only [decChainWith, List.append_assoc, take_word, beNat_be 4 1 (by decide)]
          simp [hv, hrest]

theorem encChain_length (encElem : Val → Option (List UInt8)) (vs : List Val) (bs : List UInt8)
    (h : encChainWith encElem vs = some bs) : vs.length < bs.length := by
  induction vs generalizing bs with
  | nil => simp [encChainWith] at h; subst h; simp
  | cons v vs ih =>
    simp only [encChainWith] at h
    cases ha : encElem v with
    | none => simp [ha] at h
    | some a =>
      cases hb : encChainWith encElem vs with
      | none => simp [ha, hb] at h
      | some b =>
        simp [ha, hb] at h; subst h
        have := ih b hb
        simp; omega

end GoNfsd.Model.Xdr

import GoNfsd.Model.SlotLock

/-! M8d: under the discipline "look the slot up only while holding the inode's lock", no
    transaction ever obtains a slot that holds another transaction's uncommitted changes. -/
namespace GoNfsd.Model.SlotLock

@[simp] theorem upd_same {β : Type} (f : Nat → β) (k : Nat) (v : β) : upd f k v k = v := by simp [upd]
theorem upd_other {β : Type} (f : Nat → β) (k x : Nat) (v : β) (h : x ≠ k) : upd f k v x = f x := by simp [upd, h]

structure Inv (s : St) : Prop where
  lt_cache : ∀ i k, s.cache i = some k → k < s.next
  lt_ptr : ∀ t i k, s.ptr t i = some k → k < s.next
  lt_taint : ∀ k t, s.tainted k = some t → k < s.next
  cinj : ∀ i j k, s.cache i = some k → s.cache j = some k → i = j
  /-- a CURRENT slot that holds uncommitted changes is in the hands of the lock holder who made them -/
  taint_cur : ∀ k t i, s.tainted k = some t → s.cache i = some k → s.lock i = some t ∧ s.ptr t i = some k
  ptr_lock : ∀ t i k, s.ptr t i = some k → s.lock i = some t
  /-- a kept pointer is the current slot of its inode, or an orphan (evicted: nobody can get it again) -/
  ptr_cur : ∀ t i k, s.ptr t i = some k → s.cache i = some k ∨ ∀ j, s.cache j ≠ some k

theorem empty_inv : Inv empty := by
  refine ⟨?_, ?_, ?_, ?_, ?_, ?_, ?_⟩ <;> intros <;> simp [empty] at *

theorem ptr_upd (s : St) (t i : Nat) (v : Option Nat) (t' j : Nat) :
    upd s.ptr t (upd (s.ptr t) i v) t' j = if t' = t ∧ j = i then v else s.ptr t' j := by
  by_cases ht : t' = t
  · subst ht
    by_cases hj : j = i
    · subst hj; simp [upd]
    · simp [upd, hj]
  · simp [upd, ht]

theorem step_inv (s s' : St) (op : Op) (h : Inv s) (hs : step s op = some s')
    (hd : ∀ t i, op = .lookup t i → s.lock i = some t) : Inv s' := by
  cases op with
  | acquire t i =>
    simp only [step] at hs
    cases hl : s.lock i with
    | some x => simp [hl] at hs
    | none =>
      simp [hl] at hs; subst hs
      refine ⟨h.lt_cache, h.lt_ptr, h.lt_taint, h.cinj, ?_, ?_, h.ptr_cur⟩
      · intro k t' j ht hc
        obtain ⟨h1, h2⟩ := h.taint_cur k t' j ht hc
        have hj : j ≠ i := fun e => by rw [e, hl] at h1; cases h1
        exact ⟨by simp only []; rw [upd_other _ _ _ _ hj]; exact h1, h2⟩
      · intro t' j k hp
        have h1 := h.ptr_lock t' j k hp
        have hj : j ≠ i := fun e => by rw [e, hl] at h1; cases h1
        simp only []; rw [upd_other _ _ _ _ hj]; exact h1
  | lookup t i =>
    have hlk := hd t i rfl
    simp only [step] at hs
    cases hc : s.cache i with
    | some k =>
      simp [hc] at hs; subst hs
      refine ⟨h.lt_cache, ?_, h.lt_taint, h.cinj, ?_, ?_, ?_⟩
      · intro t' j k' hp
        simp only [] at hp; rw [ptr_upd] at hp
        by_cases hx : t' = t ∧ j = i
        · rw [if_pos hx] at hp; cases hp; exact h.lt_cache i k hc
        · rw [if_neg hx] at hp; exact h.lt_ptr t' j k' hp
      · intro k' t' j ht hcj
        obtain ⟨h1, h2⟩ := h.taint_cur k' t' j ht hcj
        refine ⟨h1, ?_⟩
        simp only []; rw [ptr_upd]
        by_cases hx : t' = t ∧ j = i
        · rw [if_pos hx]
          obtain ⟨_, rfl⟩ := hx
          rw [hc] at hcj; exact hcj
        · rw [if_neg hx]; exact h2
      · intro t' j k' hp
        simp only [] at hp; rw [ptr_upd] at hp
        by_cases hx : t' = t ∧ j = i
        · obtain ⟨rfl, rfl⟩ := hx; exact hlk
        · rw [if_neg hx] at hp; exact h.ptr_lock t' j k' hp
      · intro t' j k' hp
        simp only [] at hp; rw [ptr_upd] at hp
        by_cases hx : t' = t ∧ j = i
        · rw [if_pos hx] at hp; cases hp
          obtain ⟨_, rfl⟩ := hx
          exact Or.inl hc
        · rw [if_neg hx] at hp; exact h.ptr_cur t' j k' hp
    | none =>
      simp [hc] at hs; subst hs
      have hfresh : ∀ j, s.cache j ≠ some s.next := fun j e => Nat.lt_irrefl _ (h.lt_cache j _ e)
      refine ⟨?_, ?_, ?_, ?_, ?_, ?_, ?_⟩
      · intro j k hcj
        simp only [] at hcj ⊢
        by_cases hj : j = i
        · subst hj; simp at hcj; omega
        · rw [upd_other _ _ _ _ hj] at hcj; have := h.lt_cache j k hcj; omega
      · intro t' j k' hp
        simp only [] at hp ⊢; rw [ptr_upd] at hp
        by_cases hx : t' = t ∧ j = i
        · rw [if_pos hx] at hp; cases hp; omega
        · rw [if_neg hx] at hp; have := h.lt_ptr t' j k' hp; omega
      · intro k t' ht; have := h.lt_taint k t' ht; simp only []; omega
      · intro a b k ha hb
        simp only [] at ha hb
        by_cases hai : a = i <;> by_cases hbi : b = i
        · rw [hai, hbi]
        · subst hai; simp at ha; rw [upd_other _ _ _ _ hbi] at hb; subst ha; exact absurd hb (hfresh b)
        · subst hbi; simp at hb; rw [upd_other _ _ _ _ hai] at ha; subst hb; exact absurd ha (hfresh a)
        · rw [upd_other _ _ _ _ hai] at ha; rw [upd_other _ _ _ _ hbi] at hb; exact h.cinj a b k ha hb
      · intro k' t' j ht hcj
        simp only [] at hcj
        have hj : j ≠ i := by
          intro e; subst e; simp at hcj
          have := h.lt_taint k' t' ht; omega
        rw [upd_other _ _ _ _ hj] at hcj
        obtain ⟨h1, h2⟩ := h.taint_cur k' t' j ht hcj
        refine ⟨h1, ?_⟩
        simp only []; rw [ptr_upd, if_neg (fun hx => hj hx.2)]; exact h2
      · intro t' j k' hp
        simp only [] at hp; rw [ptr_upd] at hp
        by_cases hx : t' = t ∧ j = i
        · obtain ⟨rfl, rfl⟩ := hx; exact hlk
        · rw [if_neg hx] at hp; exact h.ptr_lock t' j k' hp
      · intro t' j k' hp
        simp only [] at hp ⊢; rw [ptr_upd] at hp
        by_cases hx : t' = t ∧ j = i
        · rw [if_pos hx] at hp; cases hp
          obtain ⟨_, rfl⟩ := hx
          left; simp
        · rw [if_neg hx] at hp
          have hk' := h.lt_ptr t' j k' hp
          rcases h.ptr_cur t' j k' hp with h1 | h1
          · have hj : j ≠ i := fun e => by rw [e, hc] at h1; cases h1
            left; rw [upd_other _ _ _ _ hj]; exact h1
          · right; intro j'
            by_cases hj' : j' = i
            · subst hj'; simp; omega
            · rw [upd_other _ _ _ _ hj']; exact h1 j'
  | evict i =>
    simp only [step] at hs
    simp at hs; subst hs
    refine ⟨?_, h.lt_ptr, h.lt_taint, ?_, ?_, h.ptr_lock, ?_⟩
    · intro j k hcj
      simp only [] at hcj
      by_cases hj : j = i
      · subst hj; simp at hcj
      · rw [upd_other _ _ _ _ hj] at hcj; exact h.lt_cache j k hcj
    · intro a b k ha hb
      simp only [] at ha hb
      by_cases hai : a = i
      · subst hai; simp at ha
      · by_cases hbi : b = i
        · subst hbi; simp at hb
        · rw [upd_other _ _ _ _ hai] at ha; rw [upd_other _ _ _ _ hbi] at hb; exact h.cinj a b k ha hb
    · intro k t' j ht hcj
      simp only [] at hcj
      by_cases hj : j = i
      · subst hj; simp at hcj
      · rw [upd_other _ _ _ _ hj] at hcj; exact h.taint_cur k t' j ht hcj
    · intro t' j k hp
      simp only []
      rcases h.ptr_cur t' j k hp with h1 | h1
      · by_cases hj : j = i
        · right; intro j'
          by_cases hj' : j' = i
          · subst hj'; simp
          · rw [upd_other _ _ _ _ hj']
            intro e
            exact hj' ((h.cinj j' j k e h1).trans hj)
        · left; rw [upd_other _ _ _ _ hj]; exact h1
      · right; intro j'
        by_cases hj' : j' = i
        · subst hj'; simp
        · rw [upd_other _ _ _ _ hj']; exact h1 j'
  | modify t i =>
    simp only [step] at hs
    by_cases hl : s.lock i = some t
    · rw [if_pos hl] at hs
      cases hp : s.ptr t i with
      | none => simp [hp] at hs
      | some k =>
        simp [hp] at hs; subst hs
        refine ⟨h.lt_cache, h.lt_ptr, ?_, h.cinj, ?_, h.ptr_lock, h.ptr_cur⟩
        · intro k' t' ht
          simp only [] at ht
          by_cases hk : k' = k
          · subst hk; exact h.lt_ptr t i k' hp
          · rw [upd_other _ _ _ _ hk] at ht; exact h.lt_taint k' t' ht
        · intro k' t' j ht hcj
          simp only [] at ht
          by_cases hk : k' = k
          · subst hk
            simp at ht; subst ht
            rcases h.ptr_cur t i k' hp with h1 | h1
            · have : j = i := h.cinj j i k' hcj h1
              subst this; exact ⟨hl, hp⟩
            · exact absurd hcj (h1 j)
          · rw [upd_other _ _ _ _ hk] at ht; exact h.taint_cur k' t' j ht hcj
    · rw [if_neg hl] at hs; cases hs
  | commit t i =>
    simp only [step] at hs
    by_cases hl : s.lock i = some t
    · rw [if_pos hl] at hs
      simp at hs; subst hs
      refine ⟨h.lt_cache, ?_, ?_, h.cinj, ?_, ?_, ?_⟩
      · intro t' j k hp
        simp only [] at hp; rw [ptr_upd] at hp
        by_cases hx : t' = t ∧ j = i
        · rw [if_pos hx] at hp; cases hp
        · rw [if_neg hx] at hp; exact h.lt_ptr t' j k hp
      · intro k t' ht
        simp only [] at ht
        by_cases hk : s.tainted k = some t
        · rw [if_pos hk] at ht; cases ht
        · rw [if_neg hk] at ht; exact h.lt_taint k t' ht
      · intro k t' j ht hcj
        simp only [] at ht
        by_cases hk : s.tainted k = some t
        · rw [if_pos hk] at ht; cases ht
        · rw [if_neg hk] at ht
          obtain ⟨h1, h2⟩ := h.taint_cur k t' j ht hcj
          have htt : t' ≠ t := fun e => hk (e ▸ ht)
          have hj : j ≠ i := fun e => by rw [e, hl] at h1; cases h1; exact htt rfl
          refine ⟨by simp only []; rw [upd_other _ _ _ _ hj]; exact h1, ?_⟩
          simp only []; rw [ptr_upd, if_neg (fun hx => htt hx.1)]; exact h2
      · intro t' j k hp
        simp only [] at hp; rw [ptr_upd] at hp
        by_cases hx : t' = t ∧ j = i
        · rw [if_pos hx] at hp; cases hp
        · rw [if_neg hx] at hp
          have h1 := h.ptr_lock t' j k hp
          have hj : j ≠ i := by
            intro e; subst e; rw [hl] at h1; cases h1; exact hx ⟨rfl, rfl⟩
          simp only []; rw [upd_other _ _ _ _ hj]; exact h1
      · intro t' j k hp
        simp only [] at hp; rw [ptr_upd] at hp
        by_cases hx : t' = t ∧ j = i
        · rw [if_pos hx] at hp; cases hp
        · rw [if_neg hx] at hp; exact h.ptr_cur t' j k hp
    · rw [if_neg hl] at hs; cases hs
  | abort t i =>
    simp only [step] at hs
    by_cases hl : s.lock i = some t
    · rw [if_pos hl] at hs
      cases hc : s.cache i with
      | some k =>
        simp [hc] at hs; subst hs
        refine ⟨h.lt_cache, ?_, ?_, h.cinj, ?_, ?_, ?_⟩
        · intro t' j k' hp
          simp only [] at hp; rw [ptr_upd] at hp
          by_cases hx : t' = t ∧ j = i
          · rw [if_pos hx] at hp; cases hp
          · rw [if_neg hx] at hp; exact h.lt_ptr t' j k' hp
        · intro k' t' ht
          simp only [] at ht
          by_cases hk : k' = k
          · subst hk; simp at ht
          · rw [upd_other _ _ _ _ hk] at ht; exact h.lt_taint k' t' ht
        · intro k' t' j ht hcj
          simp only [] at ht
          by_cases hk : k' = k
          · subst hk; simp at ht
          · rw [upd_other _ _ _ _ hk] at ht
            obtain ⟨h1, h2⟩ := h.taint_cur k' t' j ht hcj
            have hj : j ≠ i := fun e => by rw [e, hc] at hcj; cases hcj; exact hk rfl
            refine ⟨by simp only []; rw [upd_other _ _ _ _ hj]; exact h1, ?_⟩
            simp only []; rw [ptr_upd, if_neg (fun hx => hj hx.2)]; exact h2
        · intro t' j k' hp
          simp only [] at hp; rw [ptr_upd] at hp
          by_cases hx : t' = t ∧ j = i
          · rw [if_pos hx] at hp; cases hp
          · rw [if_neg hx] at hp
            have h1 := h.ptr_lock t' j k' hp
            have hj : j ≠ i := by
              intro e; subst e; rw [hl] at h1; cases h1; exact hx ⟨rfl, rfl⟩
            simp only []; rw [upd_other _ _ _ _ hj]; exact h1
        · intro t' j k' hp
          simp only [] at hp; rw [ptr_upd] at hp
          by_cases hx : t' = t ∧ j = i
          · rw [if_pos hx] at hp; cases hp
          · rw [if_neg hx] at hp; exact h.ptr_cur t' j k' hp
      | none =>
        simp [hc] at hs; subst hs
        have hfresh : ∀ j, s.cache j ≠ some s.next := fun j e => Nat.lt_irrefl _ (h.lt_cache j _ e)
        refine ⟨?_, ?_, ?_, ?_, ?_, ?_, ?_⟩
        · intro j k hcj
          simp only [] at hcj ⊢
          by_cases hj : j = i
          · subst hj; simp at hcj; omega
          · rw [upd_other _ _ _ _ hj] at hcj; have := h.lt_cache j k hcj; omega
        · intro t' j k' hp
          simp only [] at hp ⊢; rw [ptr_upd] at hp
          by_cases hx : t' = t ∧ j = i
          · rw [if_pos hx] at hp; cases hp
          · rw [if_neg hx] at hp; have := h.lt_ptr t' j k' hp; omega
        · intro k t' ht; have := h.lt_taint k t' ht; simp only []; omega
        · intro a b k ha hb
          simp only [] at ha hb
          by_cases hai : a = i <;> by_cases hbi : b = i
          · rw [hai, hbi]
          · subst hai; simp at ha; rw [upd_other _ _ _ _ hbi] at hb; subst ha; exact absurd hb (hfresh b)
          · subst hbi; simp at hb; rw [upd_other _ _ _ _ hai] at ha; subst hb; exact absurd ha (hfresh a)
          · rw [upd_other _ _ _ _ hai] at ha; rw [upd_other _ _ _ _ hbi] at hb; exact h.cinj a b k ha hb
        · intro k' t' j ht hcj
          simp only [] at hcj
          have hj : j ≠ i := by
            intro e; subst e; simp at hcj
            have := h.lt_taint k' t' ht; omega
          rw [upd_other _ _ _ _ hj] at hcj
          obtain ⟨h1, h2⟩ := h.taint_cur k' t' j ht hcj
          refine ⟨by simp only []; rw [upd_other _ _ _ _ hj]; exact h1, ?_⟩
          simp only []; rw [ptr_upd, if_neg (fun hx => hj hx.2)]; exact h2
        · intro t' j k' hp
          simp only [] at hp; rw [ptr_upd] at hp
          by_cases hx : t' = t ∧ j = i
          · rw [if_pos hx] at hp; cases hp
          · rw [if_neg hx] at hp
            have h1 := h.ptr_lock t' j k' hp
            have hj : j ≠ i := by
              intro e; subst e; rw [hl] at h1; cases h1; exact hx ⟨rfl, rfl⟩
            simp only []; rw [upd_other _ _ _ _ hj]; exact h1
        · intro t' j k' hp
          simp only [] at hp ⊢; rw [ptr_upd] at hp
          by_cases hx : t' = t ∧ j = i
          · rw [if_pos hx] at hp; cases hp
          · rw [if_neg hx] at hp
            have hk' := h.lt_ptr t' j k' hp
            rcases h.ptr_cur t' j k' hp with h1 | h1
            · have hj : j ≠ i := fun e => by rw [e, hc] at h1; cases h1
              left; rw [upd_other _ _ _ _ hj]; exact h1
            · right; intro j'
              by_cases hj' : j' = i
              · subst hj'; simp; omega
              · rw [upd_other _ _ _ _ hj']; exact h1 j'
    · rw [if_neg hl] at hs; cases hs

theorem run_inv (ops : List Op) : ∀ (s s' : St), Inv s → Disciplined s ops → run s ops = some s' → Inv s' := by
  induction ops with
  | nil => intro s s' h _ hr; simp [run] at hr; subst hr; exact h
  | cons op rest ih =>
    intro s s' h hd hr
    simp only [run] at hr
    cases hs : step s op with
    | none => simp [hs] at hr
    | some s1 =>
      simp [hs] at hr
      obtain ⟨hd1, hd2⟩ := hd
      rw [hs] at hd2
      refine ih s1 s' (step_inv s s1 op h hs ?_) hd2 hr
      intro t i e
      subst e
      exact hd1

/-- THE POINT OF THE DISCIPLINE: a slot looked up by the holder of the lock never holds the
    uncommitted changes of ANOTHER transaction — it is untouched (to be loaded from the disk) or
    holds the holder's own changes. -/
theorem lookup_never_returns_foreign_taint (s s' : St) (t i : Nat) (h : Inv s) (hl : s.lock i = some t)
    (hs : step s (.lookup t i) = some s') :
    ∃ k, s'.ptr t i = some k ∧ (s'.tainted k = none ∨ s'.tainted k = some t) := by
  simp only [step] at hs
  cases hc : s.cache i with
  | some k =>
    simp [hc] at hs; subst hs
    refine ⟨k, by simp only []; rw [ptr_upd]; simp, ?_⟩
    simp only []
    cases ht : s.tainted k with
    | none => exact Or.inl rfl
    | some t' =>
      right
      have := (h.taint_cur k t' i ht hc).1
      rw [hl] at this; cases this; rfl
  | none =>
    simp [hc] at hs; subst hs
    refine ⟨s.next, by simp only []; rw [ptr_upd]; simp, Or.inl ?_⟩
    simp only []
    cases ht : s.tainted s.next with
    | none => rfl
    | some t' => exact absurd (h.lt_taint _ _ ht) (Nat.lt_irrefl _)

end GoNfsd.Model.SlotLock

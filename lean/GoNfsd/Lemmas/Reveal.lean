import GoNfsd.Model.Reveal

/-! M14: under the release-after-flush discipline, in every reachable state the keys written by
    pending transactions are still locked by their writers; so a read under the lock by anybody
    else returns exactly what recovery would find. -/
namespace GoNfsd.Model.Reveal

theorem writeOf_none (ws : List (Nat × Nat)) (k : Nat) (h : ∀ kv ∈ ws, kv.1 ≠ k) : writeOf ws k = none := by
  induction ws with
  | nil => rfl
  | cons kv r ih =>
    have h1 := ih (fun x hx => h x (List.mem_cons_of_mem _ hx))
    have h2 := h kv (List.mem_cons_self ..)
    simp only [writeOf, h1, if_neg h2]

theorem valOf_none (l : List Commit) (k : Nat) (h : ∀ c ∈ l, ∀ kv ∈ c.2.2, kv.1 ≠ k) : valOf l k = none := by
  induction l with
  | nil => rfl
  | cons c r ih =>
    have h1 := ih (fun x hx => h x (List.mem_cons_of_mem _ hx))
    have h2 := writeOf_none c.2.2 k (h c (List.mem_cons_self ..))
    simp only [valOf, h1, h2]

theorem valOf_append (a b : List Commit) (k : Nat) :
    valOf (a ++ b) k = match valOf b k with | some v => some v | none => valOf a k := by
  induction a with
  | nil =>
    simp only [List.nil_append, valOf]
    cases valOf b k <;> rfl
  | cons c r ih =>
    simp only [List.cons_append, valOf, ih]
    cases valOf b k with
    | some v => rfl
    | none => rfl

theorem valOf_append_untouched (a b : List Commit) (k : Nat) (h : ∀ c ∈ b, ∀ kv ∈ c.2.2, kv.1 ≠ k) :
    valOf (a ++ b) k = valOf a k := by
  rw [valOf_append, valOf_none b k h]

/-- the invariant: every key a pending transaction wrote — unstable WRITEs aside — is locked by
    that transaction -/
def Inv (s : St) : Prop := ∀ c ∈ s.pend, c.2.1 = false → ∀ kv ∈ c.2.2, s.lock kv.1 = some c.1

theorem empty_inv : Inv empty := by intro c hc; cases hc

theorem step_inv (s s' : St) (op : Op) (h : Inv s)
    (hd : match op with | .release t _ => ∀ c ∈ s.pend, c.1 = t → c.2.1 = true | _ => True)
    (hs : step s op = some s') : Inv s' := by
  cases op with
  | acquire t k =>
    simp only [step] at hs
    cases hl : s.lock k with
    | some x => rw [hl] at hs; cases hs
    | none =>
      rw [hl] at hs
      cases hs
      intro c hc hu kv hkv
      have := h c hc hu kv hkv
      show upd s.lock k (some t) kv.1 = some c.1
      unfold upd
      by_cases e : kv.1 = k
      · rw [e, hl] at this; cases this
      · rw [if_neg e]; exact this
  | commit t ws wait unst =>
    simp only [step] at hs
    by_cases hall : ws.all (fun kv => s.lock kv.1 == some t) = true
    · rw [if_pos hall] at hs
      cases wait with
      | true =>
        simp only [if_true] at hs
        cases hs
        intro c hc; cases hc
      | false =>
        simp only [Bool.false_eq_true, if_false] at hs
        cases hs
        intro c hc hu kv hkv
        simp only [List.mem_append, List.mem_singleton] at hc
        rcases hc with hc | hc
        · exact h c hc hu kv hkv
        · subst hc
          have := List.all_eq_true.mp hall kv hkv
          simpa using this
    · rw [if_neg hall] at hs; cases hs
  | flush =>
    simp only [step] at hs
    cases hs
    intro c hc; cases hc
  | bg n =>
    simp only [step] at hs
    cases hs
    intro c hc hu kv hkv
    exact h c (List.mem_of_mem_drop hc) hu kv hkv
  | release t k =>
    simp only [step] at hs
    by_cases hl : s.lock k = some t
    · rw [if_pos hl] at hs
      cases hs
      intro c hc hu kv hkv
      have h1 := h c hc hu kv hkv
      show upd s.lock k none kv.1 = some c.1
      unfold upd
      by_cases e : kv.1 = k
      · rw [e, hl] at h1
        have := hd c hc (Option.some.inj h1).symm
        rw [hu] at this; cases this
      · rw [if_neg e]; exact h1
    · rw [if_neg hl] at hs; cases hs

theorem run_inv (ops : List Op) : ∀ (s s' : St), Inv s → Disciplined s ops → run s ops = some s' → Inv s' := by
  induction ops with
  | nil => intro s s' h _ hr; cases hr; exact h
  | cons op rest ih =>
    intro s s' h hd hr
    simp only [run] at hr
    cases hs : step s op with
    | none => rw [hs] at hr; cases hr
    | some s1 =>
      rw [hs] at hr
      obtain ⟨hd1, hd2⟩ := hd
      rw [hs] at hd2
      exact ih s1 s' (step_inv s s1 op h hd1 hs) hd2 hr

/-- whatever is pending on a key whose lock somebody else holds is an unstable WRITE -/
theorem pending_on_locked_key_is_unstable (s : St) (t k : Nat) (h : Inv s) (hl : s.lock k = some t)
    (c : Commit) (hc : c ∈ s.pend) (hne : c.1 ≠ t) (kv : Nat × Nat) (hkv : kv ∈ c.2.2) (e : kv.1 = k) :
    c.2.1 = true := by
  cases hu : c.2.1 with
  | true => rfl
  | false =>
    have := h c hc hu kv hkv
    rw [e, hl] at this
    exact absurd (Option.some.inj this).symm hne

/-- a read under the lock, by a transaction nothing of which is pending, is what recovery finds —
    unless an unstable WRITE to that key is pending -/
theorem read_is_recovered (s : St) (t k : Nat) (h : Inv s) (hl : s.lock k = some t)
    (hp : ∀ c ∈ s.pend, c.1 ≠ t)
    (hu : ∀ c ∈ s.pend, c.2.1 = true → ∀ kv ∈ c.2.2, kv.1 ≠ k) : s.read k = s.recovered k := by
  unfold St.read St.recovered
  apply valOf_append_untouched
  intro c hc kv hkv e
  have := pending_on_locked_key_is_unstable s t k h hl c hc (hp c hc) kv hkv e
  exact hu c hc this kv hkv e

/-- ... whatever part of the pending log a crash happens to keep (the journal may have written any
    prefix of it: `Props/C01.recovered_is_prefix_state`) -/
theorem read_is_recovered_any_prefix (s : St) (t k n : Nat) (h : Inv s) (hl : s.lock k = some t)
    (hp : ∀ c ∈ s.pend, c.1 ≠ t)
    (hu : ∀ c ∈ s.pend, c.2.1 = true → ∀ kv ∈ c.2.2, kv.1 ≠ k) :
    s.read k = valOf (s.dur ++ s.pend.take n) k := by
  rw [read_is_recovered s t k h hl hp hu]
  unfold St.recovered
  symm
  apply valOf_append_untouched
  intro c hc kv hkv e
  have hc' : c ∈ s.pend := List.mem_of_mem_take hc
  have := pending_on_locked_key_is_unstable s t k h hl c hc' (hp c hc') kv hkv e
  exact hu c hc' this kv hkv e

/-- the durable log only grows, by appending -/
theorem step_dur_prefix (s s' : St) (op : Op) (hs : step s op = some s') : ∃ ext, s'.dur = s.dur ++ ext := by
  cases op with
  | acquire t k =>
    simp only [step] at hs
    cases hl : s.lock k with
    | some x => rw [hl] at hs; cases hs
    | none => rw [hl] at hs; cases hs; exact ⟨[], by simp⟩
  | commit t ws wait unst =>
    simp only [step] at hs
    by_cases hall : ws.all (fun kv => s.lock kv.1 == some t) = true
    · rw [if_pos hall] at hs
      cases wait with
      | true => simp only [if_true] at hs; cases hs; exact ⟨s.pend ++ [(t, unst, ws)], by simp⟩
      | false => simp only [Bool.false_eq_true, if_false] at hs; cases hs; exact ⟨[], by simp⟩
    · rw [if_neg hall] at hs; cases hs
  | flush => simp only [step] at hs; cases hs; exact ⟨s.pend, rfl⟩
  | bg n => simp only [step] at hs; cases hs; exact ⟨s.pend.take n, rfl⟩
  | release t k =>
    simp only [step] at hs
    by_cases hl : s.lock k = some t
    · rw [if_pos hl] at hs; cases hs; exact ⟨[], by simp⟩
    · rw [if_neg hl] at hs; cases hs

theorem run_dur_prefix (ops : List Op) : ∀ (s s' : St), run s ops = some s' → ∃ ext, s'.dur = s.dur ++ ext := by
  induction ops with
  | nil => intro s s' hr; cases hr; exact ⟨[], by simp⟩
  | cons op rest ih =>
    intro s s' hr
    simp only [run] at hr
    cases hs : step s op with
    | none => rw [hs] at hr; cases hr
    | some s1 =>
      rw [hs] at hr
      obtain ⟨e1, h1⟩ := step_dur_prefix s s1 op hs
      obtain ⟨e2, h2⟩ := ih s1 s' hr
      exact ⟨e1 ++ e2, by rw [h2, h1, List.append_assoc]⟩

end GoNfsd.Model.Reveal

import GoNfsd.Lemmas.FileDataBridge
import GoNfsd.Lemmas.Files
import GoNfsd.Lemmas.MultiTree
import GoNfsd.Lemmas.MultiShrink

/-! The block maps of the many-file byte model `G` (M7d) ARE the pointer trees of the many-file
    tree model (M7m): `G`'s "one owner across files" is `MWF`'s, and one `bmap` on the trees is one
    `ensure` on the maps of that file and nothing on the others. -/
namespace GoNfsd.Model.FileData
open GoNfsd.Model.BlockMap GoNfsd.Gen.Consts

/-- the block maps of all files, read off the pointer trees -/
def gmaps (s : S) (roots : Nat → List Nat) : Nat → Nat → Nat := fun a i => mapOf s (roots a) i

/-- `GInv.ginj` is a consequence of `MWF` -/
theorem ginj_of_MWF (s : S) (roots : Nat → List Nat) (h : MWF s roots) (a i b j : Nat)
    (hne : gmaps s roots a i ≠ 0) (he : gmaps s roots a i = gmaps s roots b j) : a = b ∧ i = j := by
  unfold gmaps mapOf at hne he
  by_cases hi : i < MAXB
  · by_cases hj : j < MAXB
    · simp only [hi, hj, if_true] at hne he
      obtain ⟨e1, e2⟩ := h.inj a b (posOf i) (posOf j) (posOf_valid i hi).1 (posOf_valid j hj).1 hne he
      exact ⟨e1, posOf_inj i j e2⟩
    · simp only [hi, hj, if_true, if_false] at hne he
      exact absurd he hne
  · simp [hi] at hne

/-- one `bmap` on the tree of file `a`: in `G`'s words, `ensure` on file `a`, nothing on the others -/
theorem mbmap_is_gensure (s : S) (roots : Nat → List Nat) (a bn : Nat) (h : MWF s roots) (hbn : bn < MAXB)
    (b j : Nat) :
    gmaps (bmap s (roots a) bn).1 (setRoots roots a (bmap s (roots a) bn).2.1) b j =
      if b = a ∧ gmaps s roots a bn = 0 ∧ j = bn then (bmap s (roots a) bn).2.2.1 else gmaps s roots b j := by
  unfold gmaps setRoots
  by_cases hb : b = a
  · subst hb
    simp only [if_true, true_and]
    exact bmap_is_ensure s (roots b) bn j (h.file b) hbn
  · simp only [hb, if_false, false_and]
    unfold mapOf
    by_cases hj : j < MAXB
    · simp only [hj, if_true]
      exact (mbmap_ok s roots a bn h hbn).2 b hb (posOf j) (posOf_valid j hj).1
    · simp only [hj, if_false]

theorem firstBn_posOf' (bn : Nat) : firstBn (posOf bn) = bn := by
  unfold posOf
  by_cases h1 : bn < NDIRECT
  · simp only [h1, if_true, firstBn]
  · by_cases h2 : bn - NDIRECT < NBLKBLK
    · simp only [h1, h2, if_true, if_false, firstBn]; omega
    · simp only [h1, h2, if_false, firstBn]
      have := Nat.div_add_mod (bn - NDIRECT - NBLKBLK) NBLKBLK
      omega

/-- the run of `Shrink` down to `T` blocks, in M7d's words: the file blocks from `T` on are unmapped,
    the others keep their disk block — the `map` part of `F.resize` with `T = roundUp n` -/
theorem shrinkTo_is_unmap (s : S) (blks : List Nat) (T N j : Nat) (h : WFB s blks)
    (hN : N ≤ MAXBLKS) (hemp : EmptyFrom s.st blks N) :
    mapOf (shrinkTo s blks T N).1 (shrinkTo s blks T N).2 j = if T ≤ j then 0 else mapOf s blks j := by
  obtain ⟨_, _, o3, _, _⟩ := shrinkTo_ok T N s blks h.len h.injR hN hemp
  unfold mapOf
  by_cases hj : j < MAXB
  · simp only [hj, if_true]
    rw [o3 (posOf j) (posOf_valid j hj).1, firstBn_posOf']
  · simp only [hj, if_false]
    split <;> rfl

/-- ... and for many files: the other files' maps do not move -/
theorem mshrink_is_gunmap (s : S) (roots : Nat → List Nat) (a T N : Nat) (h : MWF s roots)
    (hN : N ≤ MAXBLKS) (hemp : EmptyFrom s.st (roots a) N) (b j : Nat) :
    gmaps (shrinkTo s (roots a) T N).1 (setRoots roots a (shrinkTo s (roots a) T N).2) b j =
      if b = a ∧ T ≤ j then 0 else gmaps s roots b j := by
  unfold gmaps setRoots
  by_cases hb : b = a
  · subst hb
    simp only [if_true, true_and]
    exact shrinkTo_is_unmap s (roots b) T N j (h.file b) hN hemp
  · simp only [hb, if_false, false_and]
    unfold mapOf
    by_cases hj : j < MAXB
    · simp only [hj, if_true]
      exact (mshrink_ok s roots a T N h hN hemp).2.1 b hb (posOf j) (posOf_valid j hj).1
    · simp only [hj, if_false]

end GoNfsd.Model.FileData

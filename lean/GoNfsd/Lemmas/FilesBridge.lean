import GoNfsd.Lemmas.FileDataBridge
import GoNfsd.Lemmas.Files
import GoNfsd.Lemmas.MultiTree

/-! The block maps of the many-file byte model `G` (M7d) ARE the pointer trees of the many-file
    tree model (M7m): `G`'s "one owner across files" is `MWF`'s, and one `bmap` on the trees is one
    `ensure` on the maps of that file and nothing on the others. -/
namespace GoNfsd.Model.FileData
open GoNfsd.Model.BlockMap GoNfsd.Gen.Consts

/-- the block maps of all files, read off the pointer trees -/
def gmaps (s : S) (roots : Nat → List Nat) : Nat → Nat → Nat := fun a i => mapOf s (roots a) i

/-- `GInv.ginj` is a consequence of `MWF` -/
theorem ginj_of_MWF (s : S) (roots : Nat → List Nat) (h : MWF s roots) (a i b j : Nat)
    (hne : gmaps s roots a i ≠ 0) (he : gmaps s roots a i = gmaps s roots b j) : a = b ∧ i = j := by
  unfold gmaps mapOf at hne he
  by_cases hi : i < MAXB
  · by_cases hj : j < MAXB
    · simp only [hi, hj, if_true] at hne he
      obtain ⟨e1, e2⟩ := h.inj a b (posOf i) (posOf j) (posOf_valid i hi).1 (posOf_valid j hj).1 hne he
      exact ⟨e1, posOf_inj i j e2⟩
    · simp only [hi, hj, if_true, if_false] at hne he
      exact absurd he hne
  · simp [hi] at hne

/-- one `bmap` on the tree of file `a`: in `G`'s words, `ensure` on file `a`, nothing on the others -/
theorem mbmap_is_gensure (s : S) (roots : Nat → List Nat) (a bn : Nat) (h : MWF s roots) (hbn : bn < MAXB)
    (b j : Nat) :
    gmaps (bmap s (roots a) bn).1 (setRoots roots a (bmap s (roots a) bn).2.1) b j =
      if b = a ∧ gmaps s roots a bn = 0 ∧ j = bn then (bmap s (roots a) bn).2.2.1 else gmaps s roots b j := by
  unfold gmaps setRoots
  by_cases hb : b = a
  · subst hb
    simp only [if_true, true_and]
    exact bmap_is_ensure s (roots b) bn j (h.file b) hbn
  · simp only [hb, if_false, false_and]
    unfold mapOf
    by_cases hj : j < MAXB
    · simp only [hj, if_true]
      exact (mbmap_ok s roots a bn h hbn).2 b hb (posOf j) (posOf_valid j hj).1
    · simp only [hj, if_false]

end GoNfsd.Model.FileData

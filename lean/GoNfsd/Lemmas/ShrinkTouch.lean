import GoNfsd.Lemmas.ShrinkTree
import GoNfsd.Lemmas.InoOps

/-! Which cells a truncation changes: only cells of blocks THE FILE OWNED when the run began (the
    index blocks it clears cells in, the blocks it frees and zeroes).  Needed for many files on one
    store (`Lemmas/MultiShrink`). -/
namespace GoNfsd.Model.BlockMap
open GoNfsd.Gen.Consts

theorem free_touch (s : S) (b y x : Nat) (h : (s.free b).st y x ≠ s.st y x) : y = b ∧ b ≠ 0 := by
  rw [free_st] at h
  by_cases hb : b = 0
  · rw [if_pos hb] at h; exact absurd rfl h
  · rw [if_neg hb] at h
    refine ⟨?_, hb⟩
    apply Classical.byContradiction
    intro hy
    exact h (by simp [Store.zero, hy])

theorem leafClear_touch (s : S) (r off y x : Nat) (h : (leafClear s r off).st y x ≠ s.st y x) :
    s.st r off ≠ 0 ∧ (y = r ∨ y = s.st r off) := by
  by_cases hn : s.st r off = 0
  · exfalso; apply h; rw [leafClear_st, if_pos hn]
  · refine ⟨hn, ?_⟩
    apply Classical.byContradiction
    intro hc
    exact h (leafClear_other s r off y x (fun e => hc (Or.inl e)) (fun e => hc (Or.inr e)))

/-- the state after `indshrink` at level 1 on an existing index block -/
theorem indshrink_one_st (s : S) (r off : Nat) (hr : r ≠ 0) :
    (indshrink s r 1 off).1 = leafClear s r off ∧ (indshrink s r 1 off).2 = if off = 0 then r else 0 := by
  rw [indshrink_one s r off hr]; exact ⟨rfl, rfl⟩

/-- the state after `indshrink` at level 2 on an existing root `d` -/
theorem indshrink_two_st (s : S) (d o : Nat) (hd : d ≠ 0) :
    (indshrink s d 2 o).1 =
      (if s.st d (o / NBLKBLK) = 0 then s
       else if o % NBLKBLK = 0 then
         ({ leafClear s (s.st d (o / NBLKBLK)) (o % NBLKBLK) with
            st := (leafClear s (s.st d (o / NBLKBLK)) (o % NBLKBLK)).st.put d (o / NBLKBLK) 0 } : S).free (s.st d (o / NBLKBLK))
       else leafClear s (s.st d (o / NBLKBLK)) (o % NBLKBLK)) := by
  rw [indshrink_two s d o hd]
  by_cases hm : s.st d (o / NBLKBLK) = 0
  · simp only [hm, ne_eq, not_true_eq_false, if_false, if_true]
  · obtain ⟨e1, e2⟩ := indshrink_one_st s _ (o % NBLKBLK) hm
    simp only [ne_eq, hm, not_false_eq_true, if_true, if_false, e1, e2]
    by_cases hi : o % NBLKBLK = 0
    · simp only [hi, if_true, hm, not_false_eq_true]
    · simp only [hi, if_false, not_true_eq_false]

/-- what `indshrink` at level 2 changes lies in the root, the middle block or the leaf -/
theorem indshrink_two_touch (s : S) (d o y x : Nat) (hd : d ≠ 0)
    (h : (indshrink s d 2 o).1.st y x ≠ s.st y x) :
    s.st d (o / NBLKBLK) ≠ 0 ∧
    (y = d ∨ y = s.st d (o / NBLKBLK) ∨
      (y = s.st (s.st d (o / NBLKBLK)) (o % NBLKBLK) ∧ s.st (s.st d (o / NBLKBLK)) (o % NBLKBLK) ≠ 0)) := by
  rw [indshrink_two_st s d o hd] at h
  by_cases hm : s.st d (o / NBLKBLK) = 0
  · rw [if_pos hm] at h; exact absurd rfl h
  · refine ⟨hm, ?_⟩
    rw [if_neg hm] at h
    have hleaf : ∀ y' x', (leafClear s (s.st d (o / NBLKBLK)) (o % NBLKBLK)).st y' x' ≠ s.st y' x' →
        y' = s.st d (o / NBLKBLK) ∨
          (y' = s.st (s.st d (o / NBLKBLK)) (o % NBLKBLK) ∧ s.st (s.st d (o / NBLKBLK)) (o % NBLKBLK) ≠ 0) := by
      intro y' x' hc
      obtain ⟨hn, hy⟩ := leafClear_touch _ _ _ _ _ hc
      rcases hy with hy | hy
      · exact Or.inl hy
      · exact Or.inr ⟨hy, hn⟩
    by_cases hi : o % NBLKBLK = 0
    · rw [if_pos hi] at h
      by_cases hy1 : y = s.st d (o / NBLKBLK)
      · exact Or.inr (Or.inl hy1)
      · rw [free_st, if_neg hm] at h
        simp only [Store.zero, hy1, if_false] at h
        by_cases hy2 : y = d
        · exact Or.inl hy2
        · right
          apply hleaf y x
          intro e
          apply h
          simp only [Store.put, hy2, false_and, if_false]
          exact e
    · rw [if_neg hi] at h
      exact Or.inr (hleaf y x h)

/-- one round of `Shrink`: every changed cell lies in a block the file owns BEFORE the round -/
theorem shrinkStep_touch (s : S) (blks : List Nat) (idx y x : Nat)
    (hidx : idx < NDIRECT + NBLKBLK + NBLKBLK * NBLKBLK)
    (h : (shrinkStep s blks idx).1.st y x ≠ s.st y x) :
    y ≠ 0 ∧ ∃ P, P.valid ∧ ptr s.st blks P = y := by
  unfold shrinkStep at h
  by_cases h1 : idx < NDIRECT
  · simp only [h1, if_true] at h
    obtain ⟨e, hb⟩ := free_touch _ _ _ _ h
    exact ⟨by rw [e]; exact hb, .dir idx, h1, by rw [e]; rfl⟩
  · simp only [h1, if_false] at h
    by_cases h2 : idx - NDIRECT < NBLKBLK
    · simp only [h2, if_true] at h
      -- single indirect
      by_cases hr : blks.getD INDIRECT 0 = 0
      · exfalso; apply h
        have e0 : indshrink s 0 1 (idx - NDIRECT) = (s, 0) := by unfold indshrink; simp
        rw [hr, e0]; simp
      · obtain ⟨e1, e2⟩ := indshrink_one_st s _ (idx - NDIRECT) hr
        have hroot : blks.getD INDIRECT 0 ≠ 0 ∧ ∃ P, P.valid ∧ ptr s.st blks P = blks.getD INDIRECT 0 :=
          ⟨hr, .iroot, trivial, rfl⟩
        have hleaf : ∀ y' x', (leafClear s (blks.getD INDIRECT 0) (idx - NDIRECT)).st y' x' ≠ s.st y' x' →
            y' ≠ 0 ∧ ∃ P, P.valid ∧ ptr s.st blks P = y' := by
          intro y' x' hc
          obtain ⟨hn, hy⟩ := leafClear_touch _ _ _ _ _ hc
          rcases hy with hy | hy
          · rw [hy]; exact hroot
          · refine ⟨by rw [hy]; exact hn, .ileaf (idx - NDIRECT), h2, ?_⟩
            rw [hy, ptr_eq_ptrR]; simp only [ptrR, hr, if_false]
        by_cases hf : (indshrink s (blks.getD INDIRECT 0) 1 (idx - NDIRECT)).2 ≠ 0
        · rw [if_pos hf] at h
          have h' : ((indshrink s (blks.getD INDIRECT 0) 1 (idx - NDIRECT)).1.free (blks.getD INDIRECT 0)).st y x ≠ s.st y x := h
          rw [e1] at h'
          by_cases hc : ((leafClear s (blks.getD INDIRECT 0) (idx - NDIRECT)).free (blks.getD INDIRECT 0)).st y x =
              (leafClear s (blks.getD INDIRECT 0) (idx - NDIRECT)).st y x
          · rw [hc] at h'; exact hleaf y x h'
          · obtain ⟨e, _⟩ := free_touch _ _ _ _ hc
            rw [e]; exact hroot
        · rw [if_neg hf] at h
          have h' : (indshrink s (blks.getD INDIRECT 0) 1 (idx - NDIRECT)).1.st y x ≠ s.st y x := h
          rw [e1] at h'
          exact hleaf y x h'
    · simp only [h2, if_false] at h
      -- double indirect
      generalize ho : idx - NDIRECT - NBLKBLK = o at h
      have hol : o < NBLKBLK * NBLKBLK := by omega
      have hj : o / NBLKBLK < NBLKBLK := by
        unfold NBLKBLK at *; omega
      have hi : o % NBLKBLK < NBLKBLK := Nat.mod_lt _ (by unfold NBLKBLK; omega)
      by_cases hr : blks.getD DINDIRECT 0 = 0
      · exfalso; apply h
        have e0 : indshrink s 0 2 o = (s, 0) := by unfold indshrink; simp
        rw [hr, e0]; simp
      · have hroot : blks.getD DINDIRECT 0 ≠ 0 ∧ ∃ P, P.valid ∧ ptr s.st blks P = blks.getD DINDIRECT 0 :=
          ⟨hr, .droot, trivial, rfl⟩
        have hin : ∀ y' x', (indshrink s (blks.getD DINDIRECT 0) 2 o).1.st y' x' ≠ s.st y' x' →
            y' ≠ 0 ∧ ∃ P, P.valid ∧ ptr s.st blks P = y' := by
          intro y' x' hc
          obtain ⟨hm, hy⟩ := indshrink_two_touch s _ o y' x' hr hc
          rcases hy with hy | hy | ⟨hy, hne⟩
          · rw [hy]; exact hroot
          · refine ⟨by rw [hy]; exact hm, .dmid (o / NBLKBLK), hj, ?_⟩
            rw [hy, ptr_eq_ptrR]; simp only [ptrR, hr, if_false]
          · refine ⟨by rw [hy]; exact hne, .dleaf (o / NBLKBLK) (o % NBLKBLK), ⟨hj, hi⟩, ?_⟩
            rw [hy, ptr_eq_ptrR]; simp only [ptrR, hr, hm, if_false]
        by_cases hf : (indshrink s (blks.getD DINDIRECT 0) 2 o).2 ≠ 0
        · rw [if_pos hf] at h
          have h' : ((indshrink s (blks.getD DINDIRECT 0) 2 o).1.free (blks.getD DINDIRECT 0)).st y x ≠ s.st y x := h
          by_cases hc : ((indshrink s (blks.getD DINDIRECT 0) 2 o).1.free (blks.getD DINDIRECT 0)).st y x =
              (indshrink s (blks.getD DINDIRECT 0) 2 o).1.st y x
          · rw [hc] at h'; exact hin y x h'
          · obtain ⟨e, _⟩ := free_touch _ _ _ _ hc
            rw [e]; exact hroot
        · rw [if_neg hf] at h
          exact hin y x h

/-- THE WHOLE RUN: every cell a truncation changes lies in a block the file owned when it began -/
theorem shrinkTo_touch (T N : Nat) : ∀ (s : S) (blks : List Nat), blks.length = NDIRECT + 2 →
    InjB s.st blks → N ≤ MAXBLKS → EmptyFrom s.st blks N → ∀ y x,
    (shrinkTo s blks T N).1.st y x ≠ s.st y x → y ≠ 0 ∧ ∃ P, P.valid ∧ ptr s.st blks P = y := by
  induction N with
  | zero => intro s blks _ _ _ _ y x h; simp only [shrinkTo] at h; exact absurd rfl h
  | succ n ih =>
    intro s blks hl hinj hN hemp y x h
    unfold shrinkTo at h
    by_cases hT : T < n + 1
    · simp only [hT, if_true] at h
      have hn : n < MAXBLKS := by omega
      have hstep := shrinkStep_ok s blks n hl hinj hn hemp
      by_cases hc : (shrinkStep s blks n).1.st y x = s.st y x
      · have h' : (shrinkTo (shrinkStep s blks n).1 (shrinkStep s blks n).2 T n).1.st y x ≠
            (shrinkStep s blks n).1.st y x := by rw [hc]; exact h
        obtain ⟨hy0, P, hP, hPy⟩ := ih _ _ hstep.len (hstep.inj hinj) (by omega) (hstep.empty hemp) y x h'
        refine ⟨hy0, P, hP, ?_⟩
        rw [hstep.ptrs P hP] at hPy
        by_cases hf : firstBn P = n
        · rw [if_pos hf] at hPy; exact absurd hPy.symm hy0
        · rw [if_neg hf] at hPy; exact hPy
      · rw [MAXBLKS_eq] at hn
        exact shrinkStep_touch s blks n y x hn hc
    · simp only [hT, if_false] at h; exact absurd rfl h

end GoNfsd.Model.BlockMap

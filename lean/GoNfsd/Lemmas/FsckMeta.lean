/- The closed form `metaBlock` used by the structure checker (Model/Fsck.lean) is what the format
   model (Model/Mkfs.lean, tied to the real `makeFs` by the mkfs correspondence of C15) marks. -/
import GoNfsd.Model.Mkfs
import GoNfsd.Model.Fsck
import GoNfsd.Props.C15

namespace GoNfsd.Lemmas.FsckMeta
open GoNfsd.Gen.Consts GoNfsd.Gen.Super GoNfsd.Model.Mkfs

theorem foldl_set_getD (l : List Nat) (blk : Blk) (i : Nat) :
    (l.foldl (fun b bn => b.setIfInBounds bn true) blk).getD i false =
      (blk.getD i false || (decide (i ∈ l) && decide (i < blk.size))) := by
  induction l generalizing blk with
  | nil => simp
  | cons x xs ih =>
    simp only [List.foldl_cons]
    rw [ih]
    simp only [Array.size_setIfInBounds, List.mem_cons]
    by_cases hx : i = x
    · subst hx
      by_cases hs : i < blk.size
      · simp [Array.getD, hs, Array.getElem_setIfInBounds]
      · simp [Array.getD, hs]
    · by_cases hs : i < blk.size
      · have : (blk.setIfInBounds x true).getD i false = blk.getD i false := by
          simp [Array.getD, hs, Array.getElem_setIfInBounds, Ne.symm hx]
        rw [this]; simp [hx]
      · simp [Array.getD, hs]

theorem setBits_getD (blk : Blk) (lo hi i : Nat) :
    (setBits blk lo hi).getD i false = (blk.getD i false || (decide (lo ≤ i) && decide (i < hi) && decide (i < blk.size))) := by
  unfold setBits
  rw [foldl_set_getD]
  congr 1
  by_cases h : lo ≤ i ∧ i < hi
  · have : i ∈ List.range' lo (hi - lo) := by rw [List.mem_range'_1]; omega
    simp [this, h.1, h.2]
  · have : i ∉ List.range' lo (hi - lo) := by rw [List.mem_range'_1]; omega
    simp only [this, decide_false, Bool.false_and]
    by_cases h1 : lo ≤ i <;> by_cases h2 : i < hi <;> simp [h1, h2] <;> omega

theorem zeroBlk_getD (i : Nat) : zeroBlk.getD i false = false := by
  simp [zeroBlk, Array.getD]

theorem zeroBlk_size : zeroBlk.size = NBITBLOCK := by simp [zeroBlk]

theorem setBits_size (blk : Blk) (lo hi : Nat) : (setBits blk lo hi).size = blk.size := by
  unfold setBits
  generalize List.range' lo (hi - lo) = l
  induction l generalizing blk with
  | nil => rfl
  | cons x xs ih => simp only [List.foldl_cons]; rw [ih]; simp

open GoNfsd.Model.Fsck in
/-- The closed form used by the structure checker is exactly what the format model marks. -/
theorem freshBlockBit_eq_metaBlock (sz b : Nat) (hacc : GoNfsd.Props.C15.accepts sz)
    (hb : b < padEnd sz) : freshBlockBit sz b = metaBlock sz b := by
  obtain ⟨hnm, hn⟩ := (GoNfsd.Props.C15.accepts_iff sz).1 hacc
  unfold freshBlockBit freshDisk markAllocWrites applyWrites
  simp only [List.foldl_cons, List.foldl_nil, makeFsMarkFrom, makeFsMarkTo, FsSuper.MaxBnum,
    show (MkFsSuper sz).Maxaddr = sz from rfl,
    show (MkFsSuper sz).BitmapInodeStart = (MkFsSuper sz).BitmapBlockStart + (sz / NBITBLOCK + 1) from rfl]
  unfold metaBlock
  simp only [decide_eq_true hb, Bool.and_true]
  unfold padEnd at hb
  generalize hD : (MkFsSuper sz).DataStart = ds at *
  generalize (MkFsSuper sz).BitmapBlockStart = bbs at *
  have hsize : zeroBlk.size = 32768 := by simp [zeroBlk, NBITBLOCK]
  simp only [NBITBLOCK] at *
  simp only [show ¬ (bbs + b / 32768 = bbs + (sz / 32768 + 1)) by omega, if_false]
  by_cases hq1 : b / 32768 = sz / 32768
  · simp only [show bbs + b / 32768 = sz / 32768 + bbs by omega, if_true]
    by_cases hz : sz / 32768 = 0
    · simp only [show ¬ (sz / 32768 + bbs > bbs) by omega, if_false]
      rw [setBits_getD, setBits_getD, zeroBlk_getD, setBits_size, hsize]
      simp only [Bool.false_or]
      rw [Bool.eq_iff_iff]; simp only [Bool.or_eq_true, Bool.and_eq_true, decide_eq_true_eq, Bool.false_eq_true, false_or, false_and, and_false, or_false]; omega
    · simp only [show (sz / 32768 + bbs > bbs) by omega, if_true]
      rw [setBits_getD, zeroBlk_getD, hsize]
      simp only [Bool.false_or]
      rw [Bool.eq_iff_iff]; simp only [Bool.or_eq_true, Bool.and_eq_true, decide_eq_true_eq, Bool.false_eq_true, false_or, false_and, and_false, or_false]; omega
  · simp only [show ¬ (bbs + b / 32768 = sz / 32768 + bbs) by omega, if_false]
    have hbsz : b < sz := by omega
    by_cases hb0 : b / 32768 = 0
    · simp only [show bbs + b / 32768 = bbs by omega, if_true]
      rw [setBits_getD, zeroBlk_getD, hsize]
      simp only [Bool.false_or]
      rw [Bool.eq_iff_iff]; simp only [Bool.or_eq_true, Bool.and_eq_true, decide_eq_true_eq, Bool.false_eq_true, false_or, false_and, and_false, or_false]; omega
    · simp only [show ¬ (bbs + b / 32768 = bbs) by omega, if_false]
      rw [zeroBlk_getD]
      rw [Bool.eq_iff_iff]; simp only [Bool.or_eq_true, Bool.and_eq_true, decide_eq_true_eq, Bool.false_eq_true, false_or, false_and, and_false, or_false, false_iff]; omega

end GoNfsd.Lemmas.FsckMeta

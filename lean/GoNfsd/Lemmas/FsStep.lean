/- Per-step facts about the reference file system model: a failing operation returns the
   state unchanged; what a step may do to an inode's kind and generation. -/
import GoNfsd.Lemmas.Fs

namespace GoNfsd.Model.Fs
open GoNfsd.Gen.Consts

theorem freshInode_gen_kind (kind gen inum parent : Nat) (t : Array UInt8) :
    (freshInode kind gen inum parent t).gen = gen ∧ (freshInode kind gen inum parent t).kind = kind := by
  unfold freshInode
  split
  · simp
  · split <;> simp

theorem freshInode_gen (kind gen inum parent : Nat) (t : Array UInt8) :
    (freshInode kind gen inum parent t).gen = gen := (freshInode_gen_kind _ _ _ _ _).1

theorem freshInode_kind (kind gen inum parent : Nat) (t : Array UInt8) :
    (freshInode kind gen inum parent t).kind = kind := (freshInode_gen_kind _ _ _ _ _).2

theorem doCreate_fail (s : FS) (c : Choice) (dfh name : Bytes) (kind : Nat) (t : Array UInt8) :
    (doCreate s c dfh name kind t).2.isOk = false → (doCreate s c dfh name kind t).1 = s := by
  unfold doCreate
  grind [Reply.isOk]

theorem doRemove_fail (s : FS) (dfh name : Bytes) (isdir : Bool) :
    (doRemove s dfh name isdir).2.isOk = false → (doRemove s dfh name isdir).1 = s := by
  unfold doRemove
  grind [Reply.isOk]

theorem moveName_ok (s1 : FS) (c : Choice) (fd fidx td fino : Nat) (tname : Bytes) (s3 : FS) (r : Reply)
    (h : moveName s1 c fd fidx td fino tname = some (s3, r)) :
    r = .done ∨ ∃ w, r = .badChoice w := by
  unfold moveName at h
  grind

theorem doRename_fail (s : FS) (c : Choice) (ffh fname tfh tname : Bytes) :
    (doRename s c ffh fname tfh tname).2.isOk = false → (doRename s c ffh fname tfh tname).1 = s := by
  unfold doRename
  split
  · simp
  · split
    · simp
    · split
      · simp
      · split
        · simp
        · split
          · simp [Reply.isOk]
          · split
            · simp
            · rename_i s1 hs1
              split
              · simp
              · simp
              · rename_i s3 r hne hm
                rcases moveName_ok _ _ _ _ _ _ _ _ _ hm with h | ⟨w, h⟩
                · subst h; simp [Reply.isOk]
                · subst h; exact absurd rfl (hne w)

theorem step_fail (s : FS) (op : Op) (c : Choice) :
    (step s op c).2.isOk = false → (step s op c).1 = s := by
  cases op <;> simp only [step]
  case create dfh name mode =>
    split
    · simp
    · exact doCreate_fail _ _ _ _ _ _
  case mkdir => exact doCreate_fail _ _ _ _ _ _
  case symlink => exact doCreate_fail _ _ _ _ _ _
  case remove => exact doRemove_fail _ _ _ _
  case rmdir => exact doRemove_fail _ _ _ _
  case rename => exact doRename_fail _ _ _ _ _ _
  all_goals grind (splits := 30) [Reply.isOk]

/-- what one step may do to an inode's (kind, generation): keep both (other fields may change),
    allocate (free → live, generation + 1) or free (live → free, generation + 1) -/
def GenStep (a b : Inode) : Prop :=
  (b.kind = a.kind ∧ b.gen = a.gen) ∨
  (a.kind = 0 ∧ b.kind ≠ 0 ∧ b.gen = a.gen + 1) ∨
  (a.kind ≠ 0 ∧ b.kind = 0 ∧ b.gen = a.gen + 1)

theorem GenStep.refl (a : Inode) : GenStep a a := Or.inl ⟨rfl, rfl⟩

theorem doCreate_gen (s : FS) (c : Choice) (dfh name : Bytes) (kind : Nat) (t : Array UInt8) (i : Nat)
    (hk : kind ≠ 0) :
    GenStep (s.get i) ((doCreate s c dfh name kind t).1.get i) := by
  unfold doCreate GenStep
  grind (splits := 30) [get_set, addName, freshInode_gen, freshInode_kind]

theorem doRemove_gen (s : FS) (dfh name : Bytes) (isdir : Bool) (i : Nat) :
    GenStep (s.get i) ((doRemove s dfh name isdir).1.get i) := by
  unfold doRemove GenStep
  grind (splits := 30) [get_set, remNameAt, freeInode]

theorem unlinkTarget_gen (s s1 : FS) (td fino : Nat) (toL : Option (Nat × Nat)) (i : Nat)
    (h : unlinkTarget s td fino toL = some s1) : GenStep (s.get i) (s1.get i) := by
  unfold unlinkTarget at h
  unfold GenStep
  grind (splits := 30) [get_set, remNameAt, freeInode]

theorem moveName_gen (s1 s3 : FS) (c : Choice) (fd fidx td fino : Nat) (tname : Bytes) (r : Reply) (i : Nat)
    (h : moveName s1 c fd fidx td fino tname = some (s3, r)) :
    (s3.get i).kind = (s1.get i).kind ∧ (s3.get i).gen = (s1.get i).gen := by
  unfold moveName at h
  grind (splits := 30) [get_set, remNameAt, addName]

theorem doRename_gen (s : FS) (c : Choice) (ffh fname tfh tname : Bytes) (i : Nat) :
    GenStep (s.get i) ((doRename s c ffh fname tfh tname).1.get i) := by
  unfold doRename
  split
  · exact GenStep.refl _
  · split
    · exact GenStep.refl _
    · split
      · exact GenStep.refl _
      · split
        · exact GenStep.refl _
        · split
          · exact GenStep.refl _
          · split
            · exact GenStep.refl _
            · rename_i s1 hs1
              split
              · exact GenStep.refl _
              · exact GenStep.refl _
              · rename_i s3 r hne hm
                have h1 := unlinkTarget_gen _ _ _ _ _ i hs1
                have h2 := moveName_gen _ _ _ _ _ _ _ _ _ i hm
                unfold GenStep at *
                dsimp only at *
                omega

theorem step_gen (s : FS) (op : Op) (c : Choice) (i : Nat) :
    GenStep (s.get i) ((step s op c).1.get i) := by
  cases op <;> simp only [step]
  case create dfh name mode =>
    split
    · exact GenStep.refl _
    · exact doCreate_gen _ _ _ _ _ _ _ (by decide)
  case mkdir => exact doCreate_gen _ _ _ _ _ _ _ (by decide)
  case symlink => exact doCreate_gen _ _ _ _ _ _ _ (by decide)
  case remove => exact doRemove_gen _ _ _ _ _
  case rmdir => exact doRemove_gen _ _ _ _ _
  case rename => exact doRename_gen _ _ _ _ _ _ _
  all_goals (unfold GenStep; grind (splits := 30) [get_set, resize])

theorem doRename_ninode (s : FS) (c : Choice) (ffh fname tfh tname : Bytes) :
    (doRename s c ffh fname tfh tname).1.ninode = s.ninode := by
  unfold doRename
  repeat' split
  all_goals try rfl
  rename_i s1 hs1 _ s3 r _ hm
  have h1 : s1.ninode = s.ninode := by
    unfold unlinkTarget at hs1
    grind [set_ninode]
  have h2 : s3.ninode = s1.ninode := by
    unfold moveName at hm
    grind [set_ninode]
  simp [h1, h2]

theorem step_ninode (s : FS) (op : Op) (c : Choice) : (step s op c).1.ninode = s.ninode := by
  cases op <;> simp only [step]
  case rename => exact doRename_ninode _ _ _ _ _ _
  all_goals (try simp only [doCreate, doRemove])
  all_goals grind (splits := 40) [set_ninode]

end GoNfsd.Model.Fs

namespace GoNfsd.Model.Fs
open GoNfsd.Gen.Consts

/-- the shape of a successful create: the new inode is written at the chosen (free, distinct)
    number, the directory gets the name, nothing else changes -/
theorem doCreate_ok_shape (s : FS) (c : Choice) (dfh name : Bytes) (kind : Nat) (t : Array UInt8)
    (s' : FS) (fh : Bytes) (a : Attr) (h : doCreate s c dfh name kind t = (s', .handle fh a)) :
    ∃ dino d', resolve s dfh = some dino ∧ lookupIn (s.get dino) name = none ∧
      dino ≠ c.inum ∧ (s.get c.inum).kind = 0 ∧
      c.inum < s.ninode ∧ 2 ≤ c.inum ∧
      addName (s.get dino) c.slot c.inum name = some d' ∧
      s' = (s.set c.inum (freshInode kind ((s.get c.inum).gen + 1) c.inum dino t)).set dino d' ∧
      fh = mkFh c.inum ((s.get c.inum).gen + 1) ∧
      a = attrOf c.inum (freshInode kind ((s.get c.inum).gen + 1) c.inum dino t) := by
  unfold doCreate at h
  split at h
  · simp at h
  · rename_i dino hdino
    simp only [] at h
    split at h
    · simp at h
    · rename_i hlook
      split at h
      · simp at h
      · split at h
        · simp at h
        · split at h
          · simp at h
          · rename_i hfree
            split at h
            · simp at h
            · rename_i d' hadd
              simp only [Prod.mk.injEq, Reply.handle.injEq] at h
              obtain ⟨hs', hfh, ha⟩ := h
              simp at hfree
              have hdk : (s.get dino).kind ≠ 0 := by
                unfold resolve at hdino; grind
              have hne : dino ≠ c.inum := by
                intro he; rw [he] at hdk; exact hdk hfree.2.2
              rw [(freshInode_gen_kind _ _ _ _ _).1] at hfh
              exact ⟨dino, d', hdino, hlook, hne, hfree.2.2, by omega, by omega, hadd, hs'.symm, hfh.symm, ha.symm⟩

/-- resolution of handles only looks at inode count, kinds and generations -/
theorem resolve_congr (s s' : FS) (fh : Bytes) (hn : s'.ninode = s.ninode)
    (h : ∀ j, (s'.get j).kind = (s.get j).kind ∧ (s'.get j).gen = (s.get j).gen) :
    resolve s' fh = resolve s fh := by
  unfold resolve
  simp only [hn, (h _).1, (h _).2]

theorem resolve_set (s : FS) (fh : Bytes) (i : Nat) (x : Inode)
    (hk : x.kind = (s.get i).kind) (hg : x.gen = (s.get i).gen) :
    resolve (s.set i x) fh = resolve s fh := by
  apply resolve_congr
  · rfl
  · intro j
    rw [get_set]
    split
    · rename_i h; subst h; exact ⟨hk, hg⟩
    · exact ⟨rfl, rfl⟩

end GoNfsd.Model.Fs

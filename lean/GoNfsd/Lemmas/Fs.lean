/- Helper lemmas about the reference file system model (M6). -/
import GoNfsd.Model.Fs

namespace GoNfsd.Model.Fs
open GoNfsd.Gen.Consts

@[simp] theorem get_set_same (s : FS) (i : Nat) (x : Inode) : (s.set i x).get i = x := by
  simp [FS.get, FS.set]

theorem get_set (s : FS) (i j : Nat) (x : Inode) :
    (s.set i x).get j = if j = i then x else s.get j := by
  simp [FS.get, FS.set]

@[simp] theorem set_ninode (s : FS) (i : Nat) (x : Inode) : (s.set i x).ninode = s.ninode := rfl
@[simp] theorem set_unstable (s : FS) (i : Nat) (x : Inode) : (s.set i x).unstable = s.unstable := rfl
@[simp] theorem set_wtmax (s : FS) (i : Nat) (x : Inode) : (s.set i x).wtmax = s.wtmax := rfl

theorem readBytes_write (rest : List Ext) (off : Nat) (d : Array UInt8) :
    readBytes (.write off d :: rest) off d.size = d.toList := by
  apply List.ext_getElem
  · simp [readBytes]
  · intro k h1 h2
    simp [readBytes] at h1 ⊢
    simp [byteAt, h1]

theorem resolve_set_same (s : FS) (fh : Bytes) (i : Nat) (x : Inode) (h : resolve s fh = some i)
    (hk : x.kind = (s.get i).kind) (hg : x.gen = (s.get i).gen) : resolve (s.set i x) fh = some i := by
  unfold resolve at *
  simp only [FS.get, FS.set] at *
  grind

end GoNfsd.Model.Fs

/- Helper lemmas about the reference file system model (M6). -/
import GoNfsd.Model.Fs

namespace GoNfsd.Model.Fs
open GoNfsd.Gen.Consts

@[simp] theorem get_set_same (s : FS) (i : Nat) (x : Inode) : (s.set i x).get i = x := by
  simp [FS.get, FS.set]

theorem get_set (s : FS) (i j : Nat) (x : Inode) :
    (s.set i x).get j = if j = i then x else s.get j := by
  simp [FS.get, FS.set]

@[simp] theorem set_ninode (s : FS) (i : Nat) (x : Inode) : (s.set i x).ninode = s.ninode := rfl
@[simp] theorem set_unstable (s : FS) (i : Nat) (x : Inode) : (s.set i x).unstable = s.unstable := rfl
@[simp] theorem set_wtmax (s : FS) (i : Nat) (x : Inode) : (s.set i x).wtmax = s.wtmax := rfl

end GoNfsd.Model.Fs

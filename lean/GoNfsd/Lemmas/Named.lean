/-
"Every object in use other than the root has a name" (with `WFN`: exactly one name), as an
invariant of every operation of the reference file system M6.
-/
import GoNfsd.Lemmas.Refs

namespace GoNfsd.Model.Fs
open GoNfsd.Gen.Consts

/-- no directory entry of object `i` is a name (it is not a directory, or an empty one) -/
def NoRefsFrom (s : FS) (i : Nat) : Prop := ∀ j ino, ¬ Ref s i j ino

structure WFO (s : FS) : Prop where
  wfn : WFN s
  root_dir : (s.get ROOTINUM).kind = NF3DIR
  /-- the root has no name (it cannot be removed, renamed or overwritten) -/
  root_unnamed : ∀ d idx, ¬ Ref s d idx ROOTINUM
  /-- every object in use other than the root has a name: nothing is orphaned -/
  named : ∀ ino, (s.get ino).kind ≠ 0 → ino ≠ ROOTINUM → ∃ d idx, Ref s d idx ino

theorem WFO_mkfs (u : Bool) (sz : Nat) : WFO (mkfs u sz) := by
  refine ⟨WFN_mkfs u sz, ?_, ?_, ?_⟩
  · simp [mkfs, FS.get]
  · intro d idx hr
    exact absurd ((WFN_mkfs u sz).nd d idx ROOTINUM hr) (by
      obtain ⟨sl, hget, _, _, hidx⟩ := hr
      simp only [mkfs, FS.get] at hget
      split at hget
      · have := two_slots_lt _ _ _ _ hget; omega
      · simp at hget)
  · intro ino hk hne
    simp only [mkfs, FS.get] at hk
    split at hk
    · rename_i he; exact absurd he hne
    · simp at hk

theorem slotOk_not_live (slots : List Slot) (slot j : Nat) (sl : Slot) (hok : slotOk slots slot = true)
    (hg : slots[j]? = some sl) (hl : sl.inum ≠ 0) : j ≠ slot := by
  intro he
  subst he
  unfold slotOk at hok
  simp only [Bool.or_eq_true, decide_eq_true_eq] at hok
  rcases hok with hok | hok
  · have := (List.getElem?_eq_some_iff.1 hg).1; omega
  · rw [hg] at hok; simp at hok; exact hl hok

theorem noRefs_of_not_dir (s : FS) (i : Nat) (h : WFN s) (hk : (s.get i).kind ≠ NF3DIR) : NoRefsFrom s i := by
  intro j ino ⟨sl, hg, _, _, _⟩
  rw [h.noslots i hk] at hg
  simp at hg

theorem noRefs_of_empty (s : FS) (i : Nat) (he : dirEmpty (s.get i).slots = true) : NoRefsFrom s i := by
  intro j ino ⟨sl, hg, hi, hn0, hj⟩
  have := dirEmpty_slot _ _ _ he hg hj
  rw [hi] at this; exact hn0 this

/-- unlinking a name and freeing its object (which has no entries of its own) orphans nothing -/
theorem unlinked_WFO (s : FS) (dino idx cino : Nat) (h : WFO s) (hdk : (s.get dino).kind = NF3DIR)
    (href : Ref s dino idx cino) (hno : NoRefsFrom s cino) : WFO (unlinked s dino idx cino) := by
  have hW := unlinked_WFN s dino idx cino h.wfn hdk href
  have hcr : cino ≠ ROOTINUM := fun he => h.root_unnamed dino idx (he ▸ href)
  have hget : ∀ j, (unlinked s dino idx cino).get j =
      if j = cino then freeInode (if cino = dino then remNameAt (s.get dino) idx else s.get cino)
      else if j = dino then remNameAt (s.get dino) idx else s.get j := by
    intro j
    simp only [unlinked]
    rw [get_set2, get_set]
  have hkind : ∀ j, j ≠ cino → ((unlinked s dino idx cino).get j).kind = (s.get j).kind := by
    intro j hj
    rw [hget]
    simp only [hj, if_false]
    split
    · rename_i he; rw [he]; rfl
    · rfl
  -- a reference of the new state is an old one
  have refs_old : ∀ d j ino, Ref (unlinked s dino idx cino) d j ino → Ref s d j ino := by
    intro d j ino ⟨sl, hg, hi, hn0, hj⟩
    rw [hget] at hg
    by_cases hc : d = cino
    · simp only [hc, if_true, freeInode] at hg; simp at hg
    · simp only [hc, if_false] at hg
      by_cases hd : d = dino
      · simp only [hd, if_true, remNameAt] at hg
        obtain ⟨_, hold⟩ := set_free_get _ _ _ _ hg (by rw [hi]; exact hn0)
        exact ⟨sl, by rw [hd]; exact hold, hi, hn0, hj⟩
      · simp only [hd, if_false] at hg
        exact ⟨sl, hg, hi, hn0, hj⟩
  refine ⟨hW, ?_, ?_, ?_⟩
  · rw [hkind _ (Ne.symm hcr)]; exact h.root_dir
  · intro d j hr; exact h.root_unnamed d j (refs_old _ _ _ hr)
  · intro ino hk hne
    by_cases hic : ino = cino
    · rw [hic, hget] at hk; simp [freeInode] at hk
    · rw [hkind _ hic] at hk
      obtain ⟨d, j, hr⟩ := h.named ino hk hne
      refine ⟨d, j, unlinked_ref_keep s dino idx cino d j ino hr ?_ ?_⟩
      · intro ⟨e1, e2⟩
        obtain ⟨sl, hg, hi, _, _⟩ := hr
        obtain ⟨sl', hg', hi', _, _⟩ := href
        rw [e1, e2, hg'] at hg
        simp only [Option.some.injEq] at hg
        rw [hg] at hi'; exact hic (hi.symm.trans hi')
      · intro he; exact hno j ino (he ▸ hr)

theorem doRemove_WFO (s : FS) (dfh name : Bytes) (isdir : Bool) (h : WFO s) : WFO (doRemove s dfh name isdir).1 := by
  unfold doRemove
  split
  · exact h
  · rename_i hill
    split
    · exact h
    · rename_i dino _
      dsimp only
      split
      · exact h
      · rename_i cino idx hl
        obtain ⟨hk, hls, _⟩ := lookupIn_some_spec _ _ _ _ hl
        have href := lookup_is_ref s dino name cino idx (h.wfn.dots dino hk) hls (by simpa using hill)
        split
        · exact h
        · split
          · exact h
          · rename_i hc2
            split
            · exact h
            · rename_i hc3
              split
              · exact h
              · rename_i hc4
                have hno : NoRefsFrom s cino := by
                  by_cases hd : (s.get cino).kind = NF3DIR
                  · apply noRefs_of_empty
                    cases isdir with
                    | true =>
                      apply Classical.byContradiction
                      intro hne
                      exact hc3 ⟨rfl, hne⟩
                    | false => exact absurd ⟨by simp, hd⟩ hc4
                  · exact noRefs_of_not_dir s cino h.wfn hd
                exact unlinked_WFO s dino idx cino h hk href hno

/-- CREATE / MKDIR / SYMLINK: the new object has its name, nothing else loses one -/
theorem doCreate_WFO (s : FS) (c : Choice) (dfh name : Bytes) (kind : Nat) (t : Array UInt8)
    (hkind : kind ≠ 0) (h : WFO s) : WFO (doCreate s c dfh name kind t).1 := by
  have hW := doCreate_WFN s c dfh name kind t hkind h.wfn
  rcases doCreate_reply s c dfh name kind t with hf | ⟨fh, a, hr⟩
  · rw [doCreate_fail s c dfh name kind t hf]; exact h
  · have hfull : doCreate s c dfh name kind t = ((doCreate s c dfh name kind t).1, .handle fh a) := by rw [← hr]
    obtain ⟨dino, d', hres, hl, hne, hfree, _, hci2, ha, hs', _, _⟩ := doCreate_ok_shape s c dfh name kind t _ fh a hfull
    obtain ⟨hdk, hok, hslots, hdk'⟩ := addName_some_spec _ _ _ _ _ ha
    rw [hs'] at hW ⊢
    generalize hfr : freshInode kind ((s.get c.inum).gen + 1) c.inum dino t = fresh at *
    have hfk : fresh.kind = kind := by rw [← hfr]; exact freshInode_kind _ _ _ _ _
    have hcr : c.inum ≠ ROOTINUM := by
      intro he; rw [he] at hfree; rw [h.root_dir] at hfree; simp [NF3DIR] at hfree
    have hslot2 := slotOk_ge_two (s.get dino) c.slot (h.wfn.dots dino hdk) hok
    have hkind' : ∀ j, j ≠ c.inum → (((s.set c.inum fresh).set dino d').get j).kind = (s.get j).kind := by
      intro j hj
      rw [get_set2]
      by_cases hd : j = dino
      · simp only [hd, if_true]; rw [hdk']
      · simp only [hd, hj, if_false]
    have keep : ∀ d j ino, Ref s d j ino → Ref ((s.set c.inum fresh).set dino d') d j ino := by
      intro d j ino ⟨sl, hg, hi, hn0, hj⟩
      refine ⟨sl, ?_, hi, hn0, hj⟩
      rw [get_set2]
      by_cases hd : d = dino
      · subst hd
        simp only [if_true]
        rw [hslots, putSlot_get _ _ _ _ hok]
        have := slotOk_not_live _ _ _ _ hok hg (by rw [hi]; exact hn0)
        simp only [this, if_false]; exact hg
      · simp only [hd, if_false]
        by_cases hc : d = c.inum
        · subst hc
          rw [h.wfn.noslots _ (by rw [hfree]; simp [NF3DIR])] at hg
          simp at hg
        · simp only [hc, if_false]; exact hg
    have hnew : Ref ((s.set c.inum fresh).set dino d') dino c.slot c.inum := by
      refine ⟨⟨c.inum, name⟩, ?_, rfl, by omega, hslot2⟩
      rw [get_set2]
      simp only [if_true]
      rw [hslots, putSlot_get _ _ _ _ hok]
      simp
    have refs_root : ∀ d j, ¬ Ref ((s.set c.inum fresh).set dino d') d j ROOTINUM := by
      intro d j ⟨sl, hg, hi, hn0, hj⟩
      rw [get_set2] at hg
      by_cases hd : d = dino
      · subst hd
        simp only [if_true] at hg
        rw [hslots, putSlot_get _ _ _ _ hok] at hg
        by_cases hjs : j = c.slot
        · simp only [hjs, if_true, Option.some.injEq] at hg
          subst hg
          exact hcr hi
        · simp only [hjs, if_false] at hg
          exact h.root_unnamed d j ⟨sl, hg, hi, hn0, hj⟩
      · simp only [hd, if_false] at hg
        by_cases hc : d = c.inum
        · subst hc
          simp only [if_true] at hg
          rw [← hfr, freshInode_slots] at hg
          split at hg
          · have := two_slots_lt _ _ _ _ hg; omega
          · simp at hg
        · simp only [hc, if_false] at hg
          exact h.root_unnamed d j ⟨sl, hg, hi, hn0, hj⟩
    refine ⟨hW, ?_, refs_root, ?_⟩
    · rw [hkind' _ (Ne.symm hcr)]; exact h.root_dir
    · intro ino hk hner
      by_cases hic : ino = c.inum
      · rw [hic]; exact ⟨dino, c.slot, hnew⟩
      · rw [hkind' _ hic] at hk
        obtain ⟨d, j, hr⟩ := h.named ino hk hner
        exact ⟨d, j, keep d j ino hr⟩

/-- moving a name: the moved object has its new name, nothing else loses one -/
theorem moved_WFO (s1 : FS) (slot fd fidx td fino : Nat) (tname : Bytes) (d' : Inode) (h : WFO s1)
    (hfdk : (s1.get fd).kind = NF3DIR) (href : Ref s1 fd fidx fino)
    (ha : addName ((s1.set fd (remNameAt (s1.get fd) fidx)).get td) slot fino tname = some d')
    (hNU : NU ((s1.set fd (remNameAt (s1.get fd) fidx)).set td d')) :
    WFO ((s1.set fd (remNameAt (s1.get fd) fidx)).set td d') := by
  have hW := moved_WFN s1 slot fd fidx td fino tname d' h.wfn hfdk href ha hNU
  obtain ⟨sl0, hget0, hino0, hf0, hfidx⟩ := href
  have href : Ref s1 fd fidx fino := ⟨sl0, hget0, hino0, hf0, hfidx⟩
  generalize hdto : (s1.set fd (remNameAt (s1.get fd) fidx)).get td = dto at ha
  obtain ⟨hdtok, hok, hslots, hdk'⟩ := addName_some_spec _ _ _ _ _ ha
  have hdto' : dto = if td = fd then remNameAt (s1.get fd) fidx else s1.get td := by
    rw [← hdto, get_set]
  have hdtokind : dto.kind = (s1.get td).kind := by
    rw [hdto']; split
    · rename_i he; rw [he]; rfl
    · rfl
  have htdk : (s1.get td).kind = NF3DIR := by rw [← hdtokind]; exact hdtok
  have hdtodots : HasDots dto := by
    rw [hdto']; split
    · exact hasDots_set_free _ _ (h.wfn.dots fd hfdk) hfidx
    · exact h.wfn.dots td htdk
  have hslot2 := slotOk_ge_two dto slot hdtodots hok
  have hkind : ∀ i, (((s1.set fd (remNameAt (s1.get fd) fidx)).set td d').get i).kind = (s1.get i).kind := by
    intro i
    rw [get_set2]
    by_cases hi : i = td
    · simp only [hi, if_true]; rw [hdk', hdtokind]
    · simp only [hi, if_false]
      by_cases hi2 : i = fd
      · simp only [hi2, if_true]; rfl
      · simp only [hi2, if_false]
  have hfr : fino ≠ ROOTINUM := fun he => h.root_unnamed fd fidx (he ▸ href)
  -- the slots of the target directory just before the insertion
  have dto_get : ∀ j sl, (s1.get td).slots[j]? = some sl → sl.inum ≠ 0 → ¬ (td = fd ∧ j = fidx) →
      dto.slots[j]? = some sl := by
    intro j sl hg hl hnot
    rw [hdto']
    split
    · rename_i he
      simp only [remNameAt]
      rw [List.getElem?_set]
      have : ¬ fidx = j := fun e => hnot ⟨he, e.symm⟩
      simp only [this, if_false]
      rw [← he]; exact hg
    · exact hg
  have keep : ∀ d j ino, Ref s1 d j ino → ¬ (d = fd ∧ j = fidx) →
      Ref ((s1.set fd (remNameAt (s1.get fd) fidx)).set td d') d j ino := by
    intro d j ino ⟨sl, hg, hi, hn0, hj⟩ hnot
    refine ⟨sl, ?_, hi, hn0, hj⟩
    rw [get_set2]
    by_cases hd : d = td
    · subst hd
      simp only [if_true]
      have hdg := dto_get j sl hg (by rw [hi]; exact hn0) hnot
      rw [hslots, putSlot_get _ _ _ _ hok]
      have := slotOk_not_live _ _ _ _ hok hdg (by rw [hi]; exact hn0)
      simp only [this, if_false]; exact hdg
    · simp only [hd, if_false]
      by_cases hdf : d = fd
      · subst hdf
        simp only [if_true, remNameAt]
        rw [List.getElem?_set]
        have : ¬ fidx = j := fun e => hnot ⟨rfl, e.symm⟩
        simp only [this, if_false]; exact hg
      · simp only [hdf, if_false]; exact hg
  have hnew : Ref ((s1.set fd (remNameAt (s1.get fd) fidx)).set td d') td slot fino := by
    refine ⟨⟨fino, tname⟩, ?_, rfl, hf0, hslot2⟩
    rw [get_set2]
    simp only [if_true]
    rw [hslots, putSlot_get _ _ _ _ hok]
    simp
  have refs_old : ∀ d j ino, Ref ((s1.set fd (remNameAt (s1.get fd) fidx)).set td d') d j ino →
      ino = fino ∨ Ref s1 d j ino := by
    intro d j ino ⟨sl, hg, hi, hn0, hj⟩
    rw [get_set2] at hg
    by_cases hd : d = td
    · subst hd
      simp only [if_true] at hg
      rw [hslots, putSlot_get _ _ _ _ hok] at hg
      by_cases hjs : j = slot
      · simp only [hjs, if_true, Option.some.injEq] at hg
        subst hg
        exact Or.inl hi.symm
      · simp only [hjs, if_false] at hg
        rw [hdto'] at hg
        by_cases hdf : d = fd
        · simp only [hdf, if_true, remNameAt] at hg
          obtain ⟨_, hold⟩ := set_free_get _ _ _ _ hg (by rw [hi]; exact hn0)
          exact Or.inr ⟨sl, by rw [hdf]; exact hold, hi, hn0, hj⟩
        · simp only [hdf, if_false] at hg
          exact Or.inr ⟨sl, hg, hi, hn0, hj⟩
    · simp only [hd, if_false] at hg
      by_cases hdf : d = fd
      · simp only [hdf, if_true, remNameAt] at hg
        obtain ⟨_, hold⟩ := set_free_get _ _ _ _ hg (by rw [hi]; exact hn0)
        exact Or.inr ⟨sl, by rw [hdf]; exact hold, hi, hn0, hj⟩
      · simp only [hdf, if_false] at hg
        exact Or.inr ⟨sl, hg, hi, hn0, hj⟩
  refine ⟨hW, ?_, ?_, ?_⟩
  · rw [hkind]; exact h.root_dir
  · intro d j hr
    rcases refs_old d j ROOTINUM hr with he | hold
    · exact hfr he.symm
    · exact h.root_unnamed d j hold
  · intro ino hk hner
    rw [hkind] at hk
    obtain ⟨d, j, hr⟩ := h.named ino hk hner
    by_cases hmv : d = fd ∧ j = fidx
    · -- the moved name itself
      have : ino = fino := by
        obtain ⟨sl, hg, hi, _, _⟩ := hr
        rw [hmv.1, hmv.2, hget0] at hg
        simp only [Option.some.injEq] at hg
        rw [← hi, ← hg]; exact hino0
      rw [this]; exact ⟨td, slot, hnew⟩
    · exact ⟨d, j, keep d j ino hr hmv⟩


/-- RENAME orphans nothing and names nothing twice -/
theorem doRename_WFO (s : FS) (c : Choice) (ffh fname tfh tname : Bytes) (h : WFO s) :
    WFO (doRename s c ffh fname tfh tname).1 := by
  unfold doRename
  split
  · exact h
  · rename_i hill
    simp only [not_or, Bool.not_eq_true] at hill
    split
    · exact h
    · rename_i fd td hfd
      split
      · exact h
      · rename_i fino fidx hlf
        split
        · exact h
        · rename_i hftd
          split
          · exact h
          · rename_i hself
            split
            · exact h
            · rename_i s1 hs1
              obtain ⟨hfdk, hlfs, hf0⟩ := lookupIn_some_spec _ _ _ _ hlf
              have href0 := lookup_is_ref s fd fname fino fidx (h.wfn.dots fd hfdk) hlfs hill.1
              split
              · exact h
              · exact h
              · rename_i s3 r hnb hm
                have h1 : WFO s1 ∧ Ref s1 fd fidx fino ∧ (s1.get fd).kind = NF3DIR := by
                  cases hlt : lookupIn (s.get td) tname with
                  | none =>
                    rw [hlt] at hs1
                    simp only [unlinkTarget, Option.some.injEq] at hs1
                    subst hs1
                    exact ⟨h, href0, hfdk⟩
                  | some p =>
                    obtain ⟨tino, tidx⟩ := p
                    rw [hlt] at hs1
                    obtain ⟨htdk, hlts, ht0⟩ := lookupIn_some_spec _ _ _ _ hlt
                    have hreft := lookup_is_ref s td tname tino tidx (h.wfn.dots td htdk) hlts hill.2
                    unfold unlinkTarget at hs1
                    simp only at hs1
                    split at hs1
                    · cases hs1
                    · rename_i hc1
                      split at hs1
                      · cases hs1
                      · rename_i hc2
                        simp only [Option.some.injEq] at hs1
                        have hs1' : s1 = unlinked s td tidx tino := hs1.symm
                        have htf : tino ≠ fino := by
                          intro he
                          subst he
                          obtain ⟨e1, _⟩ := h.wfn.ur fd fidx td tidx tino href0 hreft
                          exact hself ⟨e1, by rw [hlt]; rfl⟩
                        have hno : NoRefsFrom s tino := by
                          by_cases hd : (s.get tino).kind = NF3DIR
                          · apply noRefs_of_empty
                            apply Classical.byContradiction
                            intro hne
                            exact hc2 ⟨hd, hne⟩
                          · exact noRefs_of_not_dir s tino h.wfn hd
                        have hfdt : fd ≠ tino := by
                          intro he
                          subst he
                          exact hno fidx fino href0
                        have hnot : ¬ (fd = td ∧ fidx = tidx) := by
                          intro ⟨e1, e2⟩
                          obtain ⟨sl, hg, hi, _, _⟩ := href0
                          obtain ⟨sl', hg', hi', _, _⟩ := hreft
                          rw [e1, e2, hg'] at hg
                          simp only [Option.some.injEq] at hg
                          rw [hg] at hi'; exact htf (hi'.symm.trans hi)
                        rw [hs1']
                        refine ⟨unlinked_WFO s td tidx tino h htdk hreft hno,
                          unlinked_ref_keep s td tidx tino fd fidx fino href0 hnot hfdt, ?_⟩
                        simp only [unlinked]
                        rw [get_set2]
                        simp only [hfdt, if_false]
                        split
                        · rename_i he; rw [← he]; exact hfdk
                        · exact hfdk
                obtain ⟨hW1, hR1, hK1⟩ := h1
                have hNUfinal : NU s3 := by
                  have := doRename_NU s c ffh fname tfh tname h.wfn.nu
                  unfold doRename at this
                  have hill' : ¬ (illegalName fname = true ∨ illegalName tname = true) := by
                    simp [hill.1, hill.2]
                  rw [if_neg hill'] at this
                  simp only [hfd, hlf] at this
                  rw [if_neg hftd, if_neg hself] at this
                  simp only [hs1, hm] at this
                  exact this
                unfold moveName at hm
                simp only at hm
                split at hm
                · cases hm
                · split at hm
                  · simp only [Option.some.injEq, Prod.mk.injEq] at hm
                    exact absurd hm.2.symm (hnb _)
                  · rename_i d' ha
                    simp only [Option.some.injEq, Prod.mk.injEq] at hm
                    rw [← hm.1] at hNUfinal ⊢
                    exact moved_WFO s1 c.slot fd fidx td fino tname d' hW1 hK1 hR1 ha hNUfinal

theorem WFO_set_same (s : FS) (i : Nat) (x : Inode) (h : WFO s) (hs : x.slots = (s.get i).slots)
    (hk : x.kind = (s.get i).kind) : WFO (s.set i x) := by
  have hslots : ∀ j, ((s.set i x).get j).slots = (s.get j).slots := by
    intro j; rw [get_set]; split
    · rename_i he; rw [he, hs]
    · rfl
  have hkind : ∀ j, ((s.set i x).get j).kind = (s.get j).kind := by
    intro j; rw [get_set]; split
    · rename_i he; rw [he, hk]
    · rfl
  have href : ∀ d j ino, Ref (s.set i x) d j ino ↔ Ref s d j ino := by
    intro d j ino; simp only [Ref, hslots]
  refine ⟨WFN_set_same s i x h.wfn hs hk, ?_, ?_, ?_⟩
  · rw [hkind]; exact h.root_dir
  · intro d j hr; exact h.root_unnamed d j ((href _ _ _).1 hr)
  · intro ino hk' hne
    rw [hkind] at hk'
    obtain ⟨d, j, hr⟩ := h.named ino hk' hne
    exact ⟨d, j, (href _ _ _).2 hr⟩

/-- EVERY OPERATION keeps "exactly one name for every object in use other than the root" -/
theorem step_WFO (s : FS) (op : Op) (c : Choice) (h : WFO s) : WFO (step s op c).1 := by
  cases op with
  | create dfh name mode =>
    simp only [step]; split; exact h; exact doCreate_WFO _ _ _ _ _ _ (by decide) h
  | mkdir dfh name => exact doCreate_WFO _ _ _ _ _ _ (by decide) h
  | symlink dfh name target => exact doCreate_WFO _ _ _ _ _ _ (by decide) h
  | remove dfh name => exact doRemove_WFO _ _ _ _ h
  | rmdir dfh name => exact doRemove_WFO _ _ _ _ h
  | rename ffh fname tfh tname => exact doRename_WFO _ _ _ _ _ _ h
  | setattr fh size atime mtime =>
    cases size <;> cases atime <;> cases mtime <;> simp only [step] <;> (repeat' split) <;>
      first
        | exact h
        | (apply WFO_set_same _ _ _ h <;> simp only [resize_slots, resize_kind])
  | write fh off count stable data =>
    simp only [step]
    repeat' split
    all_goals first
      | exact h
      | exact WFO_set_same _ _ _ h rfl rfl
  | _ =>
    simp only [step]
    repeat' split
    all_goals exact h

theorem run_WFO (s : FS) (ops : List (Op × Choice)) (h : WFO s) : WFO (run s ops).1 := by
  induction ops generalizing s with
  | nil => exact h
  | cons x rest ih =>
    obtain ⟨op, c⟩ := x
    simp only [run]
    exact ih _ (step_WFO s op c h)

end GoNfsd.Model.Fs

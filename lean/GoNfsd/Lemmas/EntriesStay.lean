/- Entries never move: in the reference model M6 a live directory slot is, after one step, the same slot, a free slot, or gone
   with its directory — except that RENAME may put the new name into a slot it has just freed.  (The hypothesis of the
   dynamic enumeration theorem of C13: cookies are slot offsets.) -/
import GoNfsd.Lemmas.Refs

namespace GoNfsd.Model.Fs
open GoNfsd.Gen.Consts

/-- what may become of a live slot `a` at index `k` in one step: it stays, it is freed, or the whole directory is freed -/
def Stays (a : Slot) (d' : Inode) (k : Nat) : Prop :=
  d'.slots[k]? = some a ∨ d'.slots[k]? = some freeSlot ∨ d'.kind = 0

theorem putSlot_keeps_live (slots : List Slot) (i k : Nat) (x a : Slot) (hok : slotOk slots i = true)
    (h : slots[k]? = some a) (ha : a.inum ≠ 0) : (putSlot slots i x)[k]? = some a := by
  rw [putSlot_get slots i k x hok]
  have : k ≠ i := by
    intro e; subst e
    unfold slotOk at hok
    simp only [Bool.or_eq_true, decide_eq_true_eq] at hok
    rcases hok with hok | hok
    · have := (List.getElem?_eq_some_iff.mp h).1; omega
    · rw [h] at hok; simp at hok; exact ha hok
  simp [this, h]

theorem set_free_keeps_or_frees (slots : List Slot) (idx k : Nat) (a : Slot) (h : slots[k]? = some a) :
    (slots.set idx freeSlot)[k]? = some a ∨ (slots.set idx freeSlot)[k]? = some freeSlot := by
  rw [List.getElem?_set]
  by_cases hk : idx = k
  · subst hk
    have := (List.getElem?_eq_some_iff.mp h).1
    simp [this]
  · simp [hk, h]

theorem doCreate_stays (s : FS) (c : Choice) (dfh name : Bytes) (kind : Nat) (t : Array UInt8) (i k : Nat) (a : Slot)
    (h : (s.get i).slots[k]? = some a) (ha : a.inum ≠ 0) (hl : (s.get i).kind ≠ 0) :
    Stays a ((doCreate s c dfh name kind t).1.get i) k := by
  unfold doCreate Stays
  grind (splits := 40) [get_set, addName, putSlot_keeps_live, freshInode]

theorem doRemove_stays (s : FS) (dfh name : Bytes) (isdir : Bool) (i k : Nat) (a : Slot)
    (h : (s.get i).slots[k]? = some a) :
    Stays a ((doRemove s dfh name isdir).1.get i) k := by
  unfold doRemove Stays
  grind (splits := 40) [get_set, remNameAt, freeInode, set_free_keeps_or_frees]

/-- every step that is not a RENAME -/
theorem step_stays (s : FS) (op : Op) (c : Choice) (i k : Nat) (a : Slot)
    (hop : ∀ ffh fname tfh tname, op ≠ .rename ffh fname tfh tname)
    (h : (s.get i).slots[k]? = some a) (ha : a.inum ≠ 0) (hl : (s.get i).kind ≠ 0) :
    Stays a ((step s op c).1.get i) k := by
  cases op <;> simp only [step]
  case create dfh name mode =>
    split
    · exact Or.inl h
    · exact doCreate_stays _ _ _ _ _ _ _ _ _ h ha hl
  case mkdir => exact doCreate_stays _ _ _ _ _ _ _ _ _ h ha hl
  case symlink => exact doCreate_stays _ _ _ _ _ _ _ _ _ h ha hl
  case remove => exact doRemove_stays _ _ _ _ _ _ _ h
  case rmdir => exact doRemove_stays _ _ _ _ _ _ _ h
  case rename ffh fname tfh tname => exact absurd rfl (hop ffh fname tfh tname)
  all_goals (unfold Stays; grind (splits := 40) [get_set, resize])

/-- one `remNameAt` / `freeInode` / `set`: a live slot stays or is freed or its directory is freed -/
theorem unlinkTarget_stays (s s1 : FS) (td fino : Nat) (toL : Option (Nat × Nat)) (i k : Nat) (a : Slot)
    (hu : unlinkTarget s td fino toL = some s1) (h : (s.get i).slots[k]? = some a) :
    Stays a (s1.get i) k := by
  unfold unlinkTarget at hu
  unfold Stays
  grind (splits := 40) [get_set, remNameAt, freeInode, set_free_keeps_or_frees]

/-- `moveName`: whatever slot `k` of directory `i` holds, afterwards it holds the same, or it is free, or it holds the new name -/
theorem moveName_stays (s1 s3 : FS) (c : Choice) (fd fidx td fino : Nat) (tname : Bytes) (r : Reply) (i k : Nat) (x : Slot)
    (hm : moveName s1 c fd fidx td fino tname = some (s3, r))
    (h : (s1.get i).slots[k]? = some x) :
    (s3.get i).slots[k]? = some x ∨ (s3.get i).slots[k]? = some freeSlot ∨
      ∃ b, (s3.get i).slots[k]? = some b ∧ b.name = tname := by
  unfold moveName at hm
  by_cases hx : x.inum = 0
  · grind (splits := 40) [get_set, remNameAt, addName, set_free_keeps_or_frees, putSlot_get]
  · grind (splits := 40) [get_set, remNameAt, addName, set_free_keeps_or_frees, putSlot_keeps_live, putSlot_get]

/-- RENAME: a live slot stays, is freed, goes with its directory — or, freed by this very RENAME, is refilled with the new name -/
theorem doRename_stays (s : FS) (c : Choice) (ffh fname tfh tname : Bytes) (i k : Nat) (a : Slot)
    (h : (s.get i).slots[k]? = some a) :
    Stays a ((doRename s c ffh fname tfh tname).1.get i) k ∨
      ∃ b, ((doRename s c ffh fname tfh tname).1.get i).slots[k]? = some b ∧ b.name = tname := by
  unfold doRename
  split
  · exact Or.inl (Or.inl h)
  · split
    · exact Or.inl (Or.inl h)
    · split
      · exact Or.inl (Or.inl h)
      · split
        · exact Or.inl (Or.inl h)
        · split
          · exact Or.inl (Or.inl h)
          · split
            · exact Or.inl (Or.inl h)
            · rename_i s1 hs1
              split
              · exact Or.inl (Or.inl h)
              · exact Or.inl (Or.inl h)
              · rename_i s3 r hne hm
                have hk := (moveName_gen _ _ _ _ _ _ _ _ _ i hm).1
                rcases unlinkTarget_stays _ _ _ _ _ i k a hs1 h with h1 | h1 | h1
                · rcases moveName_stays _ _ _ _ _ _ _ _ _ i k a hm h1 with h2 | h2 | h2
                  · exact Or.inl (Or.inl h2)
                  · exact Or.inl (Or.inr (Or.inl h2))
                  · exact Or.inr h2
                · rcases moveName_stays _ _ _ _ _ _ _ _ _ i k freeSlot hm h1 with h2 | h2 | h2
                  · exact Or.inl (Or.inr (Or.inl h2))
                  · exact Or.inl (Or.inr (Or.inl h2))
                  · exact Or.inr h2
                · exact Or.inl (Or.inr (Or.inr (by rw [hk]; exact h1)))

/-- ENTRIES NEVER MOVE: one step of the reference file system, whatever the operation — a live slot of a live directory
    afterwards holds the same entry, or is free, or is gone with its directory, or (RENAME only) holds the name the RENAME
    introduced, the entry itself having been removed by that RENAME. -/
theorem step_entries_stay (s : FS) (op : Op) (c : Choice) (i k : Nat) (a : Slot)
    (h : (s.get i).slots[k]? = some a) (ha : a.inum ≠ 0) (hl : (s.get i).kind ≠ 0) :
    Stays a ((step s op c).1.get i) k ∨
      ∃ ffh fname tfh tname b, op = .rename ffh fname tfh tname ∧ ((step s op c).1.get i).slots[k]? = some b ∧ b.name = tname := by
  cases op with
  | rename ffh fname tfh tname =>
    simp only [step]
    rcases doRename_stays s c ffh fname tfh tname i k a h with h1 | ⟨b, h1, h2⟩
    · exact Or.inl h1
    · exact Or.inr ⟨ffh, fname, tfh, tname, b, rfl, h1, h2⟩
  | _ => exact Or.inl (step_stays s _ c i k a (by intro _ _ _ _ e; cases e) h ha hl)

end GoNfsd.Model.Fs

import GoNfsd.Lemmas.FileData
import GoNfsd.Lemmas.BlockTree

/-! M7d sits on M7: the map from file blocks to disk blocks that M7d works with IS the pointer
    tree of M7 read at the data positions, and one `bmap` of M7 is one `ensure` of M7d. -/
namespace GoNfsd.Model.FileData
open GoNfsd.Model.BlockMap GoNfsd.Gen.Consts

/-- file blocks the pointer tree can address -/
def MAXB : Nat := NDIRECT + NBLKBLK + NBLKBLK * NBLKBLK

/-- the block map of an M7 state, as M7d sees it -/
def mapOf (s : S) (blks : List Nat) (bn : Nat) : Nat :=
  if bn < MAXB then ptr s.st blks (posOf bn) else 0

theorem mapOf_inj (s : S) (blks : List Nat) (h : WFB s blks) (i j : Nat)
    (hne : mapOf s blks i ≠ 0) (he : mapOf s blks i = mapOf s blks j) : i = j := by
  unfold mapOf at hne he
  by_cases hi : i < MAXB
  · by_cases hj : j < MAXB
    · simp only [hi, hj, if_true] at hne he
      exact posOf_inj i j (h.inj _ _ (posOf_valid i hi).1 (posOf_valid j hj).1 hne he)
    · simp only [hi, hj, if_true, if_false] at hne he
      exact absurd he hne
  · simp [hi] at hne

/-- ONE `bmap` IS ONE `ensure`: the file block asked for gets the block `bmap` returns if it was
    a hole, and no other file block's mapping moves -/
theorem bmap_is_ensure (s : S) (blks : List Nat) (bn j : Nat) (h : WFB s blks) (hbn : bn < MAXB) :
    mapOf (bmap s blks bn).1 (bmap s blks bn).2.1 j =
      if mapOf s blks bn = 0 ∧ j = bn then (bmap s blks bn).2.2.1 else mapOf s blks j := by
  have ok := bmap_ok s blks bn h hbn
  unfold mapOf
  by_cases hj : j < MAXB
  · simp only [hj, hbn, if_true]
    by_cases hjb : j = bn
    · subst hjb
      by_cases hole : ptr s.st blks (posOf j) = 0
      · simp only [hole, and_self, if_true]
        by_cases hb : (bmap s blks j).2.2.1 = 0
        · rw [hb]
          have := ok.miss hb (posOf j) (posOf_valid j hj).1 (posOf_valid j hj).2
          rw [this, hole]
        · exact ok.hit hb
      · simp only [hole, false_and, if_false]
        exact ok.keep (posOf j) (posOf_valid j hj).1 hole
    · simp only [hjb, and_false, if_false]
      exact ok.frame (posOf j) (posOf_valid j hj).1 (posOf_valid j hj).2
        (fun e => hjb (posOf_inj j bn e))
  · simp only [hj, if_false]
    have : ¬ (j = bn) := fun e => hj (e ▸ hbn)
    simp [this]

/-- ... in M7d's own words -/
theorem bmap_refines_ensure (s : S) (blks : List Nat) (bn : Nat) (data : Nat → Nat → UInt8) (size : Nat)
    (h : WFB s blks) (hbn : bn < MAXB) :
    (F.mk (mapOf (bmap s blks bn).1 (bmap s blks bn).2.1) data size).map =
      ((F.mk (mapOf s blks) data size).ensure bn (bmap s blks bn).2.2.1).map := by
  funext j
  show mapOf (bmap s blks bn).1 (bmap s blks bn).2.1 j = _
  rw [bmap_is_ensure s blks bn j h hbn]
  unfold F.ensure
  by_cases hole : mapOf s blks bn = 0
  · by_cases hj : j = bn <;> simp [hole, hj]
  · simp [hole]

/-- the invariant M7d needs from the pointer tree is M7's -/
theorem inj_of_WFB (s : S) (blks : List Nat) (data : Nat → Nat → UInt8) (size : Nat) (h : WFB s blks) :
    Inj (F.mk (mapOf s blks) data size) := fun i j hne he => mapOf_inj s blks h i j hne he

end GoNfsd.Model.FileData

/-
C17 — SimpleNFS implements its specification, atomically and durably.

Theorems about the transliteration M11 of simple/ops.go + inode.go (tied to the code by the
`simple` correspondence with boundary-dense inode numbers, offsets up to 2^64-1 and counts).
The specification: a fixed set of files, each a byte string (`content`) of at most 4096 bytes.
Linearizability and crash atomicity rest on the per-inode lock held around one journal
transaction committed with wait; the journal's contract is validated on recorded disk traces
by the crash harness — listed as pending for C17 until the simple crash run exists.
-/
import GoNfsd.Model.Simple
import GoNfsd.Gen.Skeleton
import GoNfsd.Lemmas.Reveal

namespace GoNfsd.Props.C17
open GoNfsd.Model.Simple GoNfsd.Gen.Consts

/-- WRITE is accepted exactly when the count matches the data, the write ends within 4096 bytes
    (offsets and counts are natural numbers: nothing wraps) and leaves no hole. -/
theorem write_accepts_iff (f : SFile) (off count : Nat) (data : Bytes) :
    (fileWrite f off count data).isSome ↔ (count = data.length ∧ off + count ≤ BlockSize ∧ off ≤ f.size) := by
  unfold fileWrite
  simp only [BlockSize]
  grind

/-- the specification of a write: overwrite inside, extend at the end -/
def specWrite (c : Bytes) (off : Nat) (data : Bytes) : Bytes :=
  c.take off ++ data ++ c.drop (off + data.length)

theorem write_shape (f f' : SFile) (off count : Nat) (data : Bytes)
    (h : fileWrite f off count data = some f') :
    count = data.length ∧ off + count ≤ BlockSize ∧ off ≤ f.size ∧
    f' = { size := if off + count > f.size then off + count else f.size,
           blk := f.blk.take off ++ data ++ f.blk.drop (off + count) } := by
  unfold fileWrite at h
  simp only [BlockSize] at *
  grind

/-- list fact behind the refinement of WRITE -/
theorem content_write (blk data : Bytes) (sz off : Nat) (hl : blk.length = 4096) (hsz : sz ≤ 4096)
    (hoff : off ≤ sz) (hend : off + data.length ≤ 4096) :
    (blk.take off ++ data ++ blk.drop (off + data.length)).take (max sz (off + data.length))
      = (blk.take sz).take off ++ data ++ (blk.take sz).drop (off + data.length) := by
  have e1 : (blk.take sz).take off = blk.take off := by rw [List.take_take]; congr 1; omega
  rw [e1, List.drop_take]
  have hlen : (blk.take off ++ data).length = off + data.length := by simp [hl]; omega
  rw [List.take_append (l₁ := blk.take off ++ data), hlen]
  by_cases hext : off + data.length > sz
  · have : max sz (off + data.length) = off + data.length := by omega
    rw [this, List.take_of_length_le (by omega)]
    simp
    omega
  · have : max sz (off + data.length) = sz := by omega
    rw [this, List.take_of_length_le (by omega)]

/-- An accepted WRITE keeps the file well-formed and changes its content exactly as the
    specification says: bytes before the offset kept, data placed, bytes after kept; the size is
    the larger of the old size and the end of the write. -/
theorem write_refines (f f' : SFile) (off count : Nat) (data : Bytes) (hwf : FileWF f)
    (h : fileWrite f off count data = some f') :
    FileWF f' ∧ f'.size = max f.size (off + count) ∧ content f' = specWrite (content f) off data := by
  obtain ⟨hc, hb, ho, hf⟩ := write_shape f f' off count data h
  obtain ⟨hl, hsz⟩ := hwf
  simp only [BlockSize] at hb hl hsz
  subst hf hc
  have hsize : (if off + data.length > f.size then off + data.length else f.size) = max f.size (off + data.length) := by
    split <;> omega
  refine ⟨⟨?_, ?_⟩, hsize, ?_⟩
  · simp [hl, BlockSize]; omega
  · simp only [BlockSize]; rw [hsize]; omega
  · simp only [content, specWrite]
    rw [hsize]
    exact content_write f.blk data f.size off hl hsz ho hb

/-- READ returns exactly the bytes of the content in the requested range, clipped at the end of
    the file, and flags end-of-file exactly when the range reaches it. -/
theorem read_refines (f : SFile) (off count : Nat) (hwf : FileWF f) :
    (fileRead f off count).1 = ((content f).drop off).take count ∧
    ((fileRead f off count).2 = true ↔ off + count ≥ f.size ∨ off ≥ f.size) := by
  obtain ⟨hl, hsz⟩ := hwf
  simp only [BlockSize] at hl hsz
  unfold fileRead content
  by_cases h : off ≥ f.size
  · simp only [h, if_true]
    refine ⟨?_, by simp [h]⟩
    have : (f.blk.take f.size).drop off = [] := by apply List.drop_eq_nil_of_le; simp; omega
    simp [this]
  · simp only [h, if_false]
    constructor
    · rw [List.drop_take, List.take_take]
      congr 1
      split <;> omega
    · have hlt : off < f.size := by omega
      by_cases hc : count > f.size - off
      · simp only [hc, if_true, decide_eq_true_eq]
        constructor
        · intro _; left; omega
        · intro _; omega
      · simp only [hc, if_false, decide_eq_true_eq]
        constructor
        · intro hh; left; exact hh
        · intro hh; rcases hh with hh | hh
          · exact hh
          · exact hh.elim


theorem content_length (f : SFile) (hwf : FileWF f) : (content f).length = f.size := by
  obtain ⟨hl, hsz⟩ := hwf
  simp [content, hl]; omega

/-- SETATTR: sizes beyond 4096 are refused; a smaller size keeps a prefix; a larger one appends
    zeros — so no byte from before an earlier shrink is ever exposed. -/
theorem resize_refines (f : SFile) (n : Nat) (hwf : FileWF f) :
    (n > BlockSize → fileResize f n = none) ∧
    (n ≤ BlockSize → ∃ f', fileResize f n = some f' ∧ FileWF f' ∧ f'.size = n ∧
      content f' = (content f).take n ++ List.replicate (n - f.size) 0) := by
  have hcl := content_length f hwf
  obtain ⟨hl, hsz⟩ := hwf
  constructor
  · intro hn; simp [fileResize, hn]
  · intro hn
    have hn' : ¬ n > BlockSize := by omega
    unfold fileResize
    simp only [hn', if_false]
    by_cases hg : f.size < n
    · simp only [hg, if_true]
      have hacc : (fileWrite f f.size (n - f.size) (List.replicate (n - f.size) 0)).isSome := by
        unfold fileWrite
        simp only [BlockSize] at *
        have e : f.size + (n - f.size) = n := by omega
        have e2 : (List.replicate (n - f.size) (0:UInt8)).length = n - f.size := by simp
        simp only [e, e2, ne_eq, not_true_eq_false, if_false]
        have h1 : ¬ n ≥ 2 ^ 64 := by omega
        have h2 : ¬ n > 4096 := by omega
        have h3 : ¬ f.size > f.size := by omega
        simp [h1, h2, h3]
      obtain ⟨f', hf'⟩ := Option.isSome_iff_exists.mp hacc
      obtain ⟨hw1, hw2, hw3⟩ := write_refines f f' f.size (n - f.size) _ ⟨hl, hsz⟩ hf'
      refine ⟨f', hf', hw1, by rw [hw2]; omega, ?_⟩
      rw [hw3]
      simp only [specWrite]
      have h1 : (content f).take f.size = content f := List.take_of_length_le (by omega)
      have h2 : (content f).drop (f.size + (List.replicate (n - f.size) (0:UInt8)).length) = [] :=
        List.drop_eq_nil_of_le (by simp; omega)
      have h3 : (content f).take n = content f := List.take_of_length_le (by omega)
      rw [h1, h2, h3]; simp
    · simp only [hg, if_false]
      refine ⟨_, rfl, ⟨hl, hn⟩, rfl, ?_⟩
      have : n - f.size = 0 := by omega
      simp only [content, this, List.replicate_zero, List.append_nil, List.take_take]
      congr 1; omega


/-- Every request for an inode number outside 2..nInode-1 (0, the root for data requests,
    anything larger, handles shorter than 8 bytes) is refused and changes nothing. -/
theorem invalid_inum_refused (s : SState) (fh : Bytes) (hv : validInum (fh2ino fh) = false)
    (off count : Nat) (data : Bytes) (sz : Option Nat) :
    step s (.read fh off count) = (s, .status .inval) ∧ step s (.write fh off count data) = (s, .status .inval) ∧
    step s (.setattr fh sz) = (s, .status .inval) ∧ step s (.commit fh) = (s, .status .inval) := by
  simp [step, hv]

/-- A request changes at most the file its handle names. -/
theorem other_files_untouched (s : SState) (op : SOp) (j : Nat)
    (h : match op with
      | .setattr fh _ => j ≠ fh2ino fh
      | .write fh _ _ _ => j ≠ fh2ino fh
      | _ => True) : (step s op).1.files j = s.files j := by
  cases op with
  | setattr fh size =>
    simp only [step]
    split
    · rfl
    · cases size with
      | none => rfl
      | some n =>
        simp only []
        split
        · simp only [SState.set]; simp only [] at h; simp [h]
        · rfl
  | write fh off count data =>
    simp only [step]
    split
    · rfl
    · split
      · simp only [SState.set]; simp only [] at h; simp [h]
      · rfl
  | getattr fh =>
    simp only [step]
    split
    · rfl
    · split <;> rfl
  | read fh off count => simp only [step]; split <;> rfl
  | lookup name =>
    simp only [step]
    generalize (if name = [97] then 2 else if name = [98] then 3 else 0) = k
    split <;> rfl

  | commit fh => simp only [step]; split <;> rfl
  | unsupported => rfl

/-- Well-formedness (the data block has 4096 bytes, the size is at most 4096) is an invariant of
    every request sequence, so the refinement lemmas apply in every reachable state. -/
theorem step_wf (s : SState) (op : SOp) (h : ∀ i, FileWF (s.files i)) : ∀ i, FileWF ((step s op).1.files i) := by
  intro i
  cases op with
  | setattr fh size =>
    simp only [step]
    split
    · exact h i
    · cases size with
      | none => exact h i
      | some n =>
        simp only []
        cases hr : fileResize (s.files (fh2ino fh)) n with
        | none => exact h i
        | some f' =>
          simp only [SState.set]
          split
          · by_cases hn : n ≤ BlockSize
            · obtain ⟨f'', hf'', hw, _, _⟩ := (resize_refines (s.files (fh2ino fh)) n (h _)).2 hn
              rw [hr] at hf''; cases hf''; exact hw
            · have := (resize_refines (s.files (fh2ino fh)) n (h _)).1 (by omega)
              rw [hr] at this; cases this
          · exact h i
  | write fh off count data =>
    simp only [step]
    split
    · exact h i
    · cases hw : fileWrite (s.files (fh2ino fh)) off count data with
      | none => exact h i
      | some f' =>
        simp only [SState.set]
        split
        · exact (write_refines _ f' off count data (h _) hw).1
        · exact h i
  | getattr fh =>
    simp only [step]
    split
    · exact h i
    · split <;> exact h i
  | read fh off count => simp only [step]; split <;> exact h i
  | lookup name =>
    simp only [step]
    generalize (if name = [97] then 2 else if name = [98] then 3 else 0) = k
    split <;> exact h i
  | commit fh => simp only [step]; split <;> exact h i
  | unsupported => exact h i

theorem init_wf : ∀ i, FileWF (init.files i) := by
  intro i
  refine ⟨?_, ?_⟩
  · show (List.replicate BlockSize (0:UInt8)).length = BlockSize
    simp
  · show (0:Nat) ≤ BlockSize
    omega

/-- Each mutating request is ONE journal transaction on the objects of one file: its 128-byte
    inode slot in block LOGSIZE and its data block LOGSIZE+1+i; the objects of different files
    are disjoint, and all inode slots fit in the inode block. -/
theorem objects_disjoint (i j : Nat) (hi : i < nInode) (hj : j < nInode) (hij : i ≠ j) :
    LOGSIZE + 1 + i ≠ LOGSIZE + 1 + j ∧ LOGSIZE + 1 + i ≠ LOGSIZE ∧
    (i * INODESZ + INODESZ ≤ j * INODESZ ∨ j * INODESZ + INODESZ ≤ i * INODESZ) ∧
    i * INODESZ + INODESZ ≤ BlockSize := by
  simp only [nInode, INODEBLK, INODESZ, BlockSize] at *
  omega

/-- Non-vacuity: a WRITE of three bytes to file 3 of the initial state succeeds. -/
example : (step init (.write [3, 0, 0, 0, 0, 0, 0, 0] 0 3 [1, 2, 3])).2 = .write 3 := by decide

/-! ### acknowledged replies reveal only what is durable -/

/-- Every handler of simple/ops.go that touches an inode holds that inode's lock from before its
    body until after the body's commit, and every commit waits for the disk (table regenerated from
    simple/ops.go on every run).  This is the discipline of model M14 (`Model/Reveal`). -/
theorem simple_holds_the_lock_across_the_waiting_commit :
    ∀ f ∈ GoNfsd.Gen.Skeleton.simpleLockUses, GoNfsd.Model.Skeleton.simpleCheck f = true := by decide

/-- the rule bites: a body called without the lock (the seeded change C17k: GETATTR), a commit that
    does not wait, and a lock given back before the body are refused; the table is not empty -/
example : GoNfsd.Model.Skeleton.simpleCheck ("NFSPROC3_GETATTR", false, [(2, "NFSPROC3_GETATTR_internal")]) = false := by decide
example : GoNfsd.Model.Skeleton.simpleCheck ("NFSPROC3_WRITE_internal", true, [(3, "false")]) = false := by decide
example : GoNfsd.Model.Skeleton.simpleCheck ("NFSPROC3_WRITE", false, [(0, ""), (1, ""), (2, "NFSPROC3_WRITE_internal")]) = false := by decide
example : ("NFSPROC3_GETATTR", false, [(0, ""), (2, "NFSPROC3_GETATTR_internal"), (1, "")]) ∈ GoNfsd.Gen.Skeleton.simpleLockUses := by decide

/-- why: under that discipline, in every state reachable by any interleaving of any requests (with
    the journal's logger running in the background), what a request reads under the lock is what
    the server has after a crash at that moment — a GETATTR or READ reply never reports a WRITE or
    SETATTR that a crash can still undo (simple has no unstable writes). -/
theorem simple_replies_reveal_only_durable_state (ops : List GoNfsd.Model.Reveal.Op) (s : GoNfsd.Model.Reveal.St) (t k : Nat)
    (hd : GoNfsd.Model.Reveal.Disciplined GoNfsd.Model.Reveal.empty ops)
    (hr : GoNfsd.Model.Reveal.run GoNfsd.Model.Reveal.empty ops = some s)
    (hl : s.lock k = some t) (hp : ∀ c ∈ s.pend, c.1 ≠ t) (hu : ∀ c ∈ s.pend, c.2.1 = false) :
    s.read k = s.recovered k :=
  GoNfsd.Model.Reveal.read_is_recovered s t k
    (GoNfsd.Model.Reveal.run_inv ops _ s GoNfsd.Model.Reveal.empty_inv hd hr) hl hp
    (fun c hc h1 => by rw [hu c hc] at h1; cases h1)

end GoNfsd.Props.C17

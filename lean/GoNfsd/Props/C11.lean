/-
C11 — no request can crash or wedge the server.

What a theorem can carry here (labelled PARTIAL in MANIFEST and evidence): the reference model
answers every request (it has no partial operation, and the `seq` correspondence — with
hostile arguments: handles of any length and content, names of any length, offsets, counts,
sizes and cookies up to 2^64-1, counts disagreeing with the data — shows the server replies
exactly where the model replies); the wrap-around guards are exact; every block index the
data path computes under the guards is inside its block; the XDR decoder is total and never
produces more than it consumes.  Memory exhaustion and blocking inside the Go runtime or the
RPC library are outside any model; the `fuzz` run searches for them.
-/
import GoNfsd.Model.Guards
import GoNfsd.Lemmas.XdrBound
import GoNfsd.Lemmas.FsStep
import GoNfsd.Lemmas.Dirty

namespace GoNfsd.Props.C11
open GoNfsd.Model.Guards GoNfsd.Gen.Consts

theorem M64_toNat : M64.toNat = MaxFileSize := by decide

/-- The WRITE size guard, computed with wrap-around 64-bit arithmetic, refuses EXACTLY the
    requests that end beyond the maximum file size — for every offset and count in 0..2^64-1
    (the unrepaired guard `offset+count > max` wrapped for offsets near 2^64). -/
theorem write_guard_exact (off count : UInt64) :
    writeRefusedU64 off count = decide (off.toNat + count.toNat > MaxFileSize) := by
  unfold writeRefusedU64
  by_cases hc : count > M64
  · have : count.toNat > MaxFileSize := by
      rw [← M64_toNat]; exact UInt64.lt_iff_toNat_lt.mp hc
    simp [hc]; omega
  · have hle : count ≤ M64 := UInt64.not_lt.mp hc
    have hle' : count.toNat ≤ MaxFileSize := by
      rw [← M64_toNat]; exact UInt64.le_iff_toNat_le.mp hle
    have hsub : (M64 - count).toNat = MaxFileSize - count.toNat := by
      rw [UInt64.toNat_sub_of_le _ _ hle, M64_toNat]
    have hiff : (off > M64 - count) ↔ (off.toNat + count.toNat > MaxFileSize) := by
      show (M64 - count < off) ↔ _
      rw [UInt64.lt_iff_toNat_lt, hsub]
      constructor <;> intro h <;> omega
    simp only [hc, decide_false, Bool.false_or]
    exact decide_eq_decide.mpr hiff

/-- Under the READ precondition (offset below the size, size within the maximum, 32-bit count)
    no sum wraps and the byte count returned never reaches beyond the end of the file. -/
theorem read_count_in_file (off count size : UInt64) (h1 : off < size) (h2 : size.toNat ≤ MaxFileSize)
    (h3 : count.toNat < 2 ^ 32) :
    off.toNat + (readCountU64 off count size).toNat ≤ size.toNat := by
  have hlt : off.toNat < size.toNat := UInt64.lt_iff_toNat_lt.mp h1
  have hM : MaxFileSize < 2 ^ 40 := by decide
  have hadd : (off + count).toNat = off.toNat + count.toNat := by
    rw [UInt64.toNat_add]; apply Nat.mod_eq_of_lt
    have : (2:Nat) ^ 40 + 2 ^ 32 < 2 ^ 64 := by decide
    omega
  unfold readCountU64
  split
  · rw [UInt64.toNat_sub_of_le _ _ (UInt64.le_of_lt h1)]; omega
  · rename_i hge
    have : ¬ size.toNat ≤ (off + count).toNat := fun hh => hge (UInt64.le_iff_toNat_le.mpr hh)
    omega

/-- Every block index, and every pointer offset inside an index block, that `bmap` computes for
    a logical block of a file within the maximum file size lies inside its array / its
    4096-byte block — for reads, writes (last block of `offset+count ≤ max`) and shrinks. -/
theorem index_in_range (bn : Nat) (h : bn * BlockSize < MaxFileSize) : (bmapPath bn).inRange := by
  unfold bmapPath
  simp only [NDIRECT, NBLKBLK, BlockSize, MaxFileSize] at *
  by_cases h1 : bn < 8
  · simp only [h1, if_true, BlkPath.inRange, NDIRECT]
  · by_cases h2 : bn - 8 < 512
    · simp only [h1, h2, if_true, if_false, BlkPath.inRange, BlockSize]; omega
    · simp only [h1, h2, if_false, BlkPath.inRange, BlockSize]; omega

/-- The XDR decoder terminates on every byte string (it is a total function) and what it
    leaves is never longer than what it was given: decoding cannot loop or amplify. -/
theorem decode_total (t : GoNfsd.Model.Xdr.Ty) (bs : List UInt8) :
    (GoNfsd.Model.Xdr.dec t bs = none) ∨
    (∃ v r, GoNfsd.Model.Xdr.dec t bs = some (v, r) ∧ r.length ≤ bs.length) := by
  cases h : GoNfsd.Model.Xdr.dec t bs with
  | none => exact Or.inl rfl
  | some p => exact Or.inr ⟨p.1, p.2, rfl, GoNfsd.Model.Xdr.dec_len t bs p.1 p.2 h⟩

/-- Every request gets a reply and a successor state from the reference model, whatever its
    arguments (no operation of the model is partial: there is no `head!`, `get!` or default). -/
theorem step_replies (s : GoNfsd.Model.Fs.FS) (op : GoNfsd.Model.Fs.Op) (c : GoNfsd.Model.Fs.Choice) :
    ∃ s' r, GoNfsd.Model.Fs.step s op c = (s', r) := ⟨_, _, rfl⟩

/-- A handle of ANY byte length resolves to at most one inode number below the inode count. -/
theorem resolve_in_table (s : GoNfsd.Model.Fs.FS) (fh : GoNfsd.Model.Fs.Bytes) (i : Nat)
    (h : GoNfsd.Model.Fs.resolve s fh = some i) : i < s.ninode ∧ (s.get i).kind ≠ 0 := by
  unfold GoNfsd.Model.Fs.resolve at h
  grind

/-- Non-vacuity: the inputs of the repaired crash. -/
example : writeRefusedU64 (UInt64.ofNat (2 ^ 64 - 10)) 20 = true := by decide
example : (bmapPath 262151).inRange := index_in_range 262151 (by decide)

/-! ### the work of a request is bounded by its arguments (block-map model M7) -/

open GoNfsd.Model.BlockMap in
/-- STEP WORK IS BOUNDED.  Every function of the block-map model is total (structural recursion:
    Lean accepts no other), so no argument makes mapping or truncation loop; and the resources
    they take are bounded by the arguments: one mapping takes at most three blocks from the
    allocator, a WRITE of `n` file blocks at most `3 n`, and neither ever takes a block back out
    of thin air (the allocator stream only shrinks). -/
theorem step_work_bounded (s : S) (ino : Ino) (bn n : Nat) :
    ((bmap s ino.blks bn).1.allocs.length ≤ s.allocs.length ∧
      s.allocs.length ≤ (bmap s ino.blks bn).1.allocs.length + 3) ∧
    ((writeBlocks s ino bn n 0).1.allocs.length ≤ s.allocs.length ∧
      s.allocs.length ≤ (writeBlocks s ino bn n 0).1.allocs.length + 3 * n) :=
  ⟨bmap_allocs_at_most_three s ino.blks bn, writeBlocks_allocs bn n s ino 0⟩

open GoNfsd.Model.BlockMap in
/-- … and a truncation only ever ZEROES cells and takes nothing from the allocator, whatever the
    sizes involved (up to 2^64 in the arguments of SETATTR: the run of `Shrink` is bounded by the
    file's own block count, which the bookkeeping invariant bounds by the block map's reach). -/
theorem truncation_takes_nothing (s : S) (blks : List Nat) (T N : Nat) (hl : blks.length = NDIRECT + 2)
    (hinj : InjB s.st blks) (hN : N ≤ MAXBLKS) (hemp : EmptyFrom s.st blks N) :
    (shrinkTo s blks T N).1.allocs = s.allocs :=
  (shrinkTo_ok T N s blks hl hinj hN hemp).2.2.2.2

end GoNfsd.Props.C11

/-
C18 — KVS multi-put is atomic, durable and read-your-writes.

Theorems about the model M12 (tied to kvs/kvs.go by the `kvs` correspondence).  Atomicity and
durability across crashes rest on the journal: a MultiPut is ONE transaction committed with
wait (theorem `multiput_one_transaction` states what that transaction is); that a committed
transaction survives every crash and an uncommitted one is invisible is the journal's
contract, validated on recorded disk traces by the crash harness (C01) — listed as pending for
C18 until the kvs crash run exists.
-/
import GoNfsd.Lemmas.KvsLocks
import GoNfsd.Props.C06
import GoNfsd.Lemmas.Reveal
import GoNfsd.Model.Kvs
import GoNfsd.Lemmas.ObjLog
import GoNfsd.Gen.Skeleton

namespace GoNfsd.Props.C18
open GoNfsd.Model.Kvs GoNfsd.Gen.Consts

variable {α : Type}

theorem applyPairs_lastFor (store : Nat → α) (ps : List (Nat × α)) (key : Nat) :
    applyPairs store ps key = (lastFor key ps).getD (store key) := by
  induction ps generalizing store with
  | nil => rfl
  | cons p rest ih =>
    obtain ⟨k, v⟩ := p
    simp only [applyPairs, lastFor]
    rw [ih]
    cases h : lastFor key rest with
    | some w => simp
    | none =>
      by_cases hk : k = key
      · subst hk; simp
      · have : ¬ key = k := fun h => hk h.symm
        simp [hk, this]

/-- All or nothing: a MultiPut either installs every one of its pairs (the last occurrence of a
    key winning inside one put) and touches no other key, or — refused by the journal, or
    panicking on an out-of-range key — changes nothing at all. -/
theorem multiput_atomic (k : KVS α) (ps : List (Nat × α)) :
    ((multiPut k ps).2 = .ok none ∧ ∀ key, (multiPut k ps).1.store key = (lastFor key ps).getD (k.store key)) ∨
    (((multiPut k ps).2 = .refused ∨ (multiPut k ps).2 = .panic) ∧ (multiPut k ps).1 = k) := by
  unfold multiPut
  split
  · split
    · exact Or.inr ⟨Or.inl rfl, rfl⟩
    · exact Or.inl ⟨rfl, fun key => applyPairs_lastFor _ _ _⟩
  · exact Or.inr ⟨Or.inr rfl, rfl⟩

/-- The transaction a successful MultiPut commits consists of whole-block overwrites of exactly
    its keys — at most the journal's capacity, all inside the key range, none inside the journal
    region — so it is one atomic journal transaction. -/
theorem multiput_one_transaction (k : KVS α) (ps : List (Nat × α)) (h : (multiPut k ps).2 = .ok none) :
    distinctKeys ps ≤ WAL_LOGSZ ∧ ∀ p ∈ ps, LOGSIZE ≤ p.1 ∧ p.1 < k.sz := by
  unfold multiPut at h
  split at h
  · rename_i hall
    split at h
    · simp at h
    · rename_i hd
      refine ⟨by omega, ?_⟩
      intro p hp
      have := List.all_eq_true.mp hall p hp
      simpa [inRange] using this
  · simp at h

/-- Read your writes, over whole histories: after any sequence of MultiPuts (successful, refused
    or mixed), Get of an in-range key returns the value of the latest successful put containing
    that key, else the initial content. -/
def runPuts (k : KVS α) : List (List (Nat × α)) → KVS α
  | [] => k
  | ps :: rest => runPuts (multiPut k ps).1 rest

def effective (k : KVS α) : List (List (Nat × α)) → List (Nat × α)
  | [] => []
  | ps :: rest => (match (multiPut k ps).2 with | .ok _ => ps | _ => []) ++ effective (multiPut k ps).1 rest

theorem lastFor_append (key : Nat) (a b : List (Nat × α)) :
    lastFor key (a ++ b) = (lastFor key b).orElse (fun _ => lastFor key a) := by
  induction a with
  | nil => simp only [List.nil_append, lastFor]; cases lastFor key b <;> simp
  | cons p rest ih =>
    obtain ⟨k, v⟩ := p
    simp only [List.cons_append, lastFor, ih]
    cases hb : lastFor key b with
    | some w => simp
    | none => simp

theorem sz_const (k : KVS α) (ps : List (Nat × α)) : (multiPut k ps).1.sz = k.sz := by
  unfold multiPut
  split
  · split <;> rfl
  · rfl

theorem get_latest (k : KVS α) (hist : List (List (Nat × α))) (key : Nat) :
    (runPuts k hist).store key = (lastFor key (effective k hist)).getD (k.store key) := by
  induction hist generalizing k with
  | nil => rfl
  | cons ps rest ih =>
    simp only [runPuts, effective]
    rw [ih, lastFor_append]
    rcases multiput_atomic k ps with ⟨hok, hst⟩ | ⟨hbad, hsame⟩
    · simp only [hok]
      rw [hst key]
      cases lastFor key (effective (multiPut k ps).1 rest) <;> simp
    · rw [hsame]
      rcases hbad with hb | hb <;> simp only [hb] <;>
        (cases lastFor key (effective k rest) <;> simp [lastFor])

/-- The key-range guards: both procedures accept exactly the keys in [LOGSIZE, sz) and panic
    (as documented) on every other key; they agree on every key. -/
theorem range_guard (k : KVS α) (key : Nat) (v : α) :
    (GoNfsd.Model.Kvs.get k key = .panic ↔ ¬ (LOGSIZE ≤ key ∧ key < k.sz)) ∧
    ((multiPut k [(key, v)]).2 = .panic ↔ ¬ (LOGSIZE ≤ key ∧ key < k.sz)) := by
  unfold GoNfsd.Model.Kvs.get multiPut inRange
  constructor
  · by_cases h : LOGSIZE ≤ key ∧ key < k.sz <;> simp [h]
  · by_cases h : LOGSIZE ≤ key ∧ key < k.sz
    · simp [h, distinctKeys, WAL_LOGSZ]
      split <;> simp
    · simp [h]

/-- Non-vacuity. -/
example : (runPuts ({ sz := 10000, store := fun _ => (0:Nat) } : KVS Nat)
    [[(600, 1), (601, 2)], [(600, 3), (9, 9)], [(601, 5)]]).store 600 = 1 := by decide

/-! ### durability (model M9c of `obj.Log`): a put is acknowledged by a stable commit of its own -/

/-- `MultiPut` ends with `CommitWait(true)`, which flushes up to the position of ITS OWN transaction:
    whatever other callers committed, whatever the journal refused (a put of more pairs than the log
    holds) and whatever position `obj.Log` remembers, an acknowledged put — and everything appended
    before it — is durable, and stays so. -/
theorem acknowledged_put_is_durable_whatever_was_refused (es es' : List GoNfsd.Model.ObjLog.Ev) :
    let t := GoNfsd.Model.ObjLog.step (GoNfsd.Model.ObjLog.run {} es) (.commit true true)
    t.durable = t.next ∧ t.next ≤ (GoNfsd.Model.ObjLog.run t es').durable := by
  have hi : GoNfsd.Model.ObjLog.Inv (GoNfsd.Model.ObjLog.run {} es) :=
    GoNfsd.Model.ObjLog.run_inv es {} ⟨Nat.le_refl _, Nat.le_refl _⟩
  have h1 := GoNfsd.Model.ObjLog.stable_commit_all_durable _ hi
  exact ⟨h1, by rw [← h1]; exact GoNfsd.Model.ObjLog.run_durable_mono es' _⟩

/-- ... and no function of /repo (the KVS included) calls the shared `Flush()`, which would depend
    on the remembered position (the seeded change C18h makes `MultiPut` do so). Regenerated. -/
theorem kvs_does_not_rely_on_the_remembered_position : GoNfsd.Gen.Skeleton.flushCallers = [] := by decide

/-! ### a get returns only what a crash cannot take back -/

/-- `MultiPut` and `Get` take the locks of their keys before they touch the journal and give them
    back after `CommitWait(true)` has returned (table regenerated from kvs/kvs.go on every run):
    the discipline of model M14, and the ownership the journal requires of concurrent transactions. -/
theorem kvs_holds_the_locks_across_the_waiting_commit :
    ∀ f ∈ GoNfsd.Gen.Skeleton.kvsLockUses, GoNfsd.Model.Skeleton.simpleCheck f = true := by decide

/-- the rule bites on what the code was before the repair (no locks at all: a `Get` beside a
    `MultiPut` returned the new value before it was on disk), and the table is not empty -/
example : GoNfsd.Model.Skeleton.simpleCheck ("Get", false, [(3, "true")]) = false := by decide
example : ("Get", false, [(0, ""), (3, "true"), (1, "")]) ∈ GoNfsd.Gen.Skeleton.kvsLockUses := by decide

/-- why: under that discipline, in every state reachable by any interleaving of puts and gets (the
    journal's logger running in the background), the value a `Get` reads under the key's lock is the
    value the recovered store has after a crash at that moment: no `Get` ever returns the value of a
    put that a crash can still undo (the store has no unstable writes). -/
theorem kvs_gets_return_only_durable_values (ops : List GoNfsd.Model.Reveal.Op) (s : GoNfsd.Model.Reveal.St) (t k : Nat)
    (hd : GoNfsd.Model.Reveal.Disciplined GoNfsd.Model.Reveal.empty ops)
    (hr : GoNfsd.Model.Reveal.run GoNfsd.Model.Reveal.empty ops = some s)
    (hl : s.lock k = some t) (hp : ∀ c ∈ s.pend, c.1 ≠ t) (hu : ∀ c ∈ s.pend, c.2.1 = false) :
    s.read k = s.recovered k :=
  GoNfsd.Model.Reveal.read_is_recovered s t k
    (GoNfsd.Model.Reveal.run_inv ops _ s GoNfsd.Model.Reveal.empty_inv hd hr) hl hp
    (fun c hc h1 => by rw [hu c hc] at h1; cases h1)

/-- without the locks (the defect): the put is appended, the get reads generation 7, the crash
    recovers nothing — the reader needs no lock, so nothing makes it wait for the flush -/
example : ∃ s, GoNfsd.Model.Reveal.run GoNfsd.Model.Reveal.empty
      [.acquire 1 5, .commit 1 [(5, 7)] false false, .release 1 5] = some s ∧
    s.read 5 = some 7 ∧ s.recovered 5 = none := ⟨_, rfl, rfl, rfl⟩

/-! ### the locks of a put are taken in ascending order -/

/-- `kvs.lockOrder` (model tied to the Go function by the `klockorder` correspondence): the keys of
    the put in strictly ascending order — so no key twice — and nothing else. -/
theorem multiput_locks_exactly_its_keys_in_ascending_order (keys : List Nat) :
    (lockOrder keys).Pairwise (· < ·) ∧ ∀ x, x ∈ lockOrder keys ↔ x ∈ keys :=
  ⟨lockOrder_ascending keys, mem_lockOrder keys⟩

/-- a caller somewhere in its acquisition loop: it holds the first `i` locks of its order and asks
    for the next one (a `Get` is a put of one key at `i = 0`) -/
def caller (keys : List Nat) (i : Nat) : GoNfsd.Model.Locks.Txn :=
  { held := (lockOrder keys).take i, waiting := ((lockOrder keys)[i]?).map fun w => (w, false) }

/-- NO SET OF CONCURRENT PUTS AND GETS IS DEADLOCKED, whatever their key sets (overlapping,
    repeated keys, any order in the request) and wherever each of them stands in its loop: the
    lock manager's theorem applies because every request is above what its caller holds. -/
theorem concurrent_puts_and_gets_never_deadlock (cs : List (List Nat × Nat)) (D : List GoNfsd.Model.Locks.Txn) :
    ¬ GoNfsd.Model.Locks.Deadlocked (cs.map fun c => caller c.1 c.2) D := by
  apply GoNfsd.Props.C06.ordered_no_deadlock
  · intro t ht w hw h hh
    obtain ⟨c, _, rfl⟩ := List.mem_map.mp ht
    simp only [caller, Option.map_eq_some_iff] at hw
    obtain ⟨w', hw', e⟩ := hw
    have ew : w' = w := by injection e
    subst ew
    have hs := lockOrder_ascending c.1
    rw [← List.take_append_drop c.2 (lockOrder c.1), List.pairwise_append] at hs
    apply hs.2.2 h hh w'
    have : (lockOrder c.1)[c.2]? = some w' := hw'
    rw [List.getElem?_eq_some_iff] at this
    obtain ⟨hlt, hget⟩ := this
    rw [← hget]
    exact List.mem_drop_iff_getElem.mpr ⟨0, by simpa using hlt, by simp⟩
  · intro t ht w hw
    obtain ⟨c, _, rfl⟩ := List.mem_map.mp ht
    simp only [caller, Option.map_eq_some_iff] at hw
    obtain ⟨_, _, e⟩ := hw
    injection e with _ e2
    cases e2

/-- the premises are met by real situations: two puts with overlapping key sets given in
    opposite orders, each holding its first lock and asking for the second, and a get -/
example : lockOrder [700, 650, 700, 660] = [650, 660, 700] ∧ lockOrder [660, 650] = [650, 660] ∧
    (caller [700, 650, 700, 660] 1).held = [650] ∧ (caller [700, 650, 700, 660] 1).waiting = some (660, false) ∧
    (caller [660] 0).waiting = some (660, false) := by decide

end GoNfsd.Props.C18

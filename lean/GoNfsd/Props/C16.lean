/-
C16 — wire format and dispatch conform to RFC 1813.

Property theorems only.  `Gen.Xdr.types` and `Gen.Dispatch.procs` are REGENERATED from
/repo/nfstypes/nfs_xdr.go, nfs_types.go and cmd/*/main.go on every run; `Spec.Rfc1813` is the
committed transcription of the RFC's XDR definitions; `Model.Xdr` is the generic codec model
of go-rpcgen's xdr primitives (tied to the real `Xdr` methods by the `xdr` correspondence).
-/
import GoNfsd.Lemmas.XdrRoundtrip
import GoNfsd.Lemmas.XdrPrefix
import GoNfsd.Lemmas.XdrReenc
import GoNfsd.Lemmas.XdrCanon
import GoNfsd.Gen.Xdr
import GoNfsd.Gen.Dispatch
import GoNfsd.Spec.Rfc1813

namespace GoNfsd.Props.C16
open GoNfsd.Model.Xdr

/-- Decoding what was encoded gives back the same value and leaves the rest of the message
    untouched — for EVERY type descriptor (hence every generated one), every value the encoder
    accepts and every continuation of the byte stream. -/
theorem roundtrip (t : Ty) (v : Val) (bs rest : List UInt8) (h : enc t v = some bs) :
    dec t (bs ++ rest) = some (v, rest) := dec_enc t v bs rest h

/-- The same for a whole message (no continuation). -/
theorem roundtrip_message (t : Ty) (v : Val) (bs : List UInt8) (h : enc t v = some bs) :
    decode t bs = some v := by
  have := dec_enc t v bs [] h
  simp [decode] at this ⊢
  simp [this]

/-- In particular for every argument and result type of the regenerated table. -/
theorem roundtrip_generated :
    ∀ p ∈ GoNfsd.Gen.Xdr.types, ∀ v bs rest, enc p.2 v = some bs → dec p.2 (bs ++ rest) = some (v, rest) :=
  fun p _ v bs rest h => dec_enc p.2 v bs rest h

/-- The descriptors extracted from the generated Go code are exactly the RFC's: every type,
    field order, union arm, discriminant value, default arm and length bound. -/
theorem generated_eq_rfc : GoNfsd.Gen.Xdr.types = GoNfsd.Spec.Rfc1813.types := by rfl

/-- ... and the fields are (de)serialised in the RFC's order, field by field (this is what
    distinguishes two adjacent fields of the same wire type). -/
theorem generated_fields_eq_rfc : GoNfsd.Gen.Xdr.fields = GoNfsd.Spec.Rfc1813.fields := by decide

/-- Every constant of the generated types file — all status codes (nfsstat3, mountstat3), file
    types, the stable_how / createmode3 / time_how values, sizes, program, version and procedure
    numbers, access and property bits — has the value RFC 1813 gives it. -/
theorem constants_eq_rfc : GoNfsd.Gen.Xdr.consts = GoNfsd.Spec.Rfc1813.consts := by decide

/-- Every procedure number of both programs reaches the handler of that procedure, decodes the
    RFC's argument type and encodes the RFC's result type. -/
theorem dispatch_eq_rfc : GoNfsd.Gen.Dispatch.procs = GoNfsd.Spec.Rfc1813.procs := by decide

/-- Both servers register the MOUNT and the NFS table. -/
theorem registers_both :
    "NFS_PROGRAM_NFS_V3_regs" ∈ GoNfsd.Gen.Dispatch.goNfsdRegisters ∧
    "MOUNT_PROGRAM_MOUNT_V3_regs" ∈ GoNfsd.Gen.Dispatch.goNfsdRegisters ∧
    "NFS_PROGRAM_NFS_V3_regs" ∈ GoNfsd.Gen.Dispatch.simpleNfsdRegisters ∧
    "MOUNT_PROGRAM_MOUNT_V3_regs" ∈ GoNfsd.Gen.Dispatch.simpleNfsdRegisters := by decide

/-- A length word above the declared bound is refused (strings and variable opaques). -/
theorem oversize_rejected (m : Nat) (w rest : List UInt8) (hw : w.length = 4) (h : m < beNat w) :
    dec (.str (some m)) (w ++ rest) = none ∧ dec (.opaqueVar (some m)) (w ++ rest) = none := by
  have ht : takeN 4 (w ++ rest) = some (w, rest) := takeN_append' w rest 4 hw
  have hl : lenOk (some m) (beNat w) = false := by
    simp [lenOk]; omega
  simp [dec, decBytes, ht, hl]

/-- A message that ends inside a word is refused. -/
theorem short_word_rejected (bs : List UInt8) (h : bs.length < 4) :
    dec .u32 bs = none ∧ dec .bool bs = none ∧ dec (.str none) bs = none ∧
    dec (.opaqueVar none) bs = none ∧ (∀ e, dec (.chain e) bs = none) := by
  have ht : takeN 4 bs = none := by simp [takeN, h]
  refine ⟨by simp [dec, ht], by simp [dec, ht], by simp [dec, decBytes, ht],
    by simp [dec, decBytes, ht], ?_⟩
  intro e
  simp only [dec]
  cases hl : bs.length with
  | zero => simp [decChainWith]
  | succ n => simp [decChainWith, ht]

/-- A string or opaque whose announced length exceeds the bytes present is refused. -/
theorem truncated_body_rejected (max : Option Nat) (w body : List UInt8) (hw : w.length = 4)
    (h : body.length < beNat w) :
    dec (.str max) (w ++ body) = none ∧ dec (.opaqueVar max) (w ++ body) = none := by
  have ht : takeN 4 (w ++ body) = some (w, body) := takeN_append' w body 4 hw
  have hb : takeN (beNat w) body = none := by simp [takeN, h]
  constructor <;> (simp only [dec, decBytes, ht]; split <;> simp [hb])

/-- The decoder reads from the front and never looks past what it consumes: a successful decode
    is the same decode on every extension of the input. -/
theorem decode_ignores_what_follows (t : Ty) (bs : List UInt8) (v : Val) (r ext : List UInt8)
    (h : dec t bs = some (v, r)) : dec t (bs ++ ext) = some (v, r ++ ext) := dec_ext t bs v r ext h

/-- A message cut short ANYWHERE is refused: no proper prefix of an encoding decodes — inside a
    word, a string, its padding, a union arm or an entry list, for every type descriptor (the
    three theorems above are instances at the leaves). -/
theorem truncated_rejected (t : Ty) (v : Val) (bs p q : List UInt8) (h : enc t v = some bs)
    (hp : bs = p ++ q) (hq : q ≠ []) : dec t p = none := no_proper_prefix_decodes t v bs p q h hp hq

/-- Whatever the decoder accepts, the encoder accepts back (decoded values respect every bound
    of their type), the re-encoding is exactly as long as what was consumed, and it decodes to
    the same value: the freedom the decoder leaves a sender (a boolean as any non-zero word,
    padding bytes of any value, findings of this property) never changes size or meaning. -/
theorem decoded_values_reencode (t : Ty) (bs : List UInt8) (v : Val) (r : List UInt8)
    (h : dec t bs = some (v, r)) :
    ∃ c, enc t v = some c ∧ c.length + r.length = bs.length ∧ dec t (c ++ r) = some (v, r) := by
  obtain ⟨c, hc, hl⟩ := dec_reenc t bs v r h
  exact ⟨c, hc, hl, dec_enc t v c r hc⟩

/-- ... and on what the encoder itself wrote, decode-then-encode is the identity on bytes. -/
theorem encode_decode_encode (t : Ty) (v : Val) (bs : List UInt8) (h : enc t v = some bs) :
    ((dec t bs).bind fun p => enc t p.1) = some bs := by
  have := dec_enc t v bs [] h
  simp at this
  simp [this, h]

/-- ON CANONICAL INPUT THE RE-ENCODING IS THE INPUT, byte for byte: if every boolean and every
    presence flag the decoder reads is 0 or 1 and every padding byte is zero (`canon`, a syntactic
    test that follows the decoder through the input), then encoding the decoded value gives back
    exactly the bytes that were consumed.  So the decoder's leniency is those two freedoms and
    nothing else: two accepted inputs that decode to the same value differ only in the spelling of
    booleans and in padding. -/
theorem canonical_input_reencodes_to_itself (t : Ty) (bs : List UInt8) (v : Val) (r : List UInt8)
    (h : dec t bs = some (v, r)) (hc : canon t bs = true) :
    ∃ c, enc t v = some c ∧ bs = c ++ r := dec_canon t bs v r h hc

/-- what the encoder writes is canonical input (the premise above is met by every encoder output) -/
example : canon (.struct [.bool, .str (some 8), .chain [.u32]])
    [0, 0, 0, 1, 0, 0, 0, 1, 65, 0, 0, 0, 0, 0, 0, 1, 0, 0, 0, 9, 0, 0, 0, 0] = true := by decide
example : ((dec (.struct [.bool, .str (some 8), .chain [.u32]])
      [0, 0, 0, 1, 0, 0, 0, 1, 65, 0, 0, 0, 0, 0, 0, 1, 0, 0, 0, 9, 0, 0, 0, 0]).bind
      fun p => enc (.struct [.bool, .str (some 8), .chain [.u32]]) p.1) =
    some [0, 0, 0, 1, 0, 0, 0, 1, 65, 0, 0, 0, 0, 0, 0, 1, 0, 0, 0, 9, 0, 0, 0, 0] := by decide
/-- and the test does refuse the two freedoms: a boolean written as 7, a padding byte 9, a presence flag 2 -/
example : canon (.struct [.bool, .str (some 8)]) [0, 0, 0, 7, 0, 0, 0, 1, 65, 0, 0, 0] = false := by decide
example : canon (.struct [.bool, .str (some 8)]) [0, 0, 0, 1, 0, 0, 0, 1, 65, 0, 9, 0] = false := by decide
example : canon (.chain [.u32]) [0, 0, 0, 2, 0, 0, 0, 9, 0, 0, 0, 0] = false := by decide

/-- a boolean written as 7 and padding bytes 9 9 9 are accepted; re-encoding normalises them and
    keeps the length -/
example : ((dec (.struct [.bool, .str (some 8)]) [0, 0, 0, 7, 0, 0, 0, 1, 65, 9, 9, 9]).bind
      fun p => enc (.struct [.bool, .str (some 8)]) p.1) =
    some [0, 0, 0, 1, 0, 0, 0, 1, 65, 0, 0, 0] := by decide
example : dec (.struct [.bool, .str (some 8)]) [0, 0, 0, 7, 0, 0, 0, 1, 65, 9, 9] = none := by decide

/-! Non-vacuity: a concrete GETATTR3args value (16-byte handle) encodes, so the hypothesis of
    `roundtrip` is satisfiable, and its encoding is the RFC layout. -/
example : enc (.struct [.struct [.opaqueVar (some 64)]])
      (.struct [.struct [.bytes [1, 0, 0, 0, 0, 0, 0, 0, 1, 0, 0, 0, 0, 0, 0, 0]]])
    = some [0, 0, 0, 16, 1, 0, 0, 0, 0, 0, 0, 0, 1, 0, 0, 0, 0, 0, 0, 0] := by decide

example : (GoNfsd.Gen.Xdr.types.lookup "getattr3args") = some (.struct [.struct [.opaqueVar (some 64)]]) := by
  rfl

end GoNfsd.Props.C16

/-
C06 — no deadlock or livelock: every RPC terminates.

Theorem about the waits-for model of the lock manager (M10): under the acquisition discipline
of the NFS transactions no set of transactions can block each other for ever.  The discipline
is CHECKED on every transaction of every run (the `locks` driver validates the recorded
acquisition sequences: strictly ascending except for the transaction's own fresh allocation,
nothing locked twice), so an ordering bug is reported from a single sequential execution
without waiting for a hang; a watchdog on every request is the search for hangs.
-/
import GoNfsd.Model.Locks

namespace GoNfsd.Props.C06
open GoNfsd.Model.Locks

/-- in a non-empty list there is an element maximising a measure -/
theorem exists_max {α : Type} (l : List α) (f : α → Nat) (h : l ≠ []) :
    ∃ x ∈ l, ∀ y ∈ l, f y ≤ f x := by
  induction l with
  | nil => exact absurd rfl h
  | cons a rest ih =>
    by_cases hr : rest = []
    · subst hr; exact ⟨a, by simp, by intro y hy; simp at hy; subst hy; exact Nat.le_refl _⟩
    · obtain ⟨x, hx, hmax⟩ := ih hr
      by_cases hc : f x ≤ f a
      · refine ⟨a, by simp, ?_⟩
        intro y hy
        simp at hy
        rcases hy with hy | hy
        · subst hy; exact Nat.le_refl _
        · exact Nat.le_trans (hmax y hy) hc
      · refine ⟨x, List.mem_cons_of_mem _ hx, ?_⟩
        intro y hy
        simp at hy
        rcases hy with hy | hy
        · subst hy; omega
        · exact hmax y hy

/-- No deadlock: if every ordinary lock request is above everything its transaction holds, and
    the only requests that are not (a transaction locking the inode number it has just
    allocated) are for numbers whose other holders never wait, then no set of transactions is
    deadlocked — whatever the number of transactions, the locks they hold and the interleaving
    that led there. -/
theorem ordered_no_deadlock (ts D : List Txn) (ha : Ascending ts) (hf : FreshHoldersDoNotWait ts) :
    ¬ Deadlocked ts D := by
  rintro ⟨hne, hsub, hd⟩
  -- the lock each member waits for
  let wOf : Txn → Nat := fun t => match t.waiting with | some (w, _) => w | none => 0
  obtain ⟨t, htD, hmax⟩ := exists_max D wOf hne
  obtain ⟨w, f, hw, u, huD, hwu⟩ := hd t htD
  -- u holds w and (being in D) waits as well
  obtain ⟨w', f', hw', _⟩ := hd u huD
  -- t's request cannot be a fresh one: its holder u would not be waiting
  have hf_t : f = false := by
    cases f with
    | false => rfl
    | true =>
      have := hf t (hsub t htD) w hw u (hsub u huD) hwu
      rw [hw'] at this; cases this
  -- nor can u's
  have hf_u : f' = false := by
    cases f' with
    | false => rfl
    | true =>
      obtain ⟨w2, f2, hw2, u2, hu2D, hwu2⟩ := hd u huD
      rw [hw'] at hw2; cases hw2
      obtain ⟨w3, f3, hw3, _⟩ := hd u2 hu2D
      have := hf u (hsub u huD) w' hw' u2 (hsub u2 hu2D) hwu2
      rw [hw3] at this; cases this
  subst hf_u
  -- u's request is above everything u holds, in particular above w
  have hlt : w < w' := ha u (hsub u huD) w' hw' w hwu
  have h1 : wOf t = w := by simp [wOf, hw]
  have h2 : wOf u = w' := by simp [wOf, hw']
  have := hmax u huD
  omega

/-- ... and consequently, while some transaction is unfinished, one can step: a transaction
    that waits for nothing, or one whose requested lock nobody holds. -/
theorem some_transaction_can_step (ts : List Txn) (hne : ts ≠ []) (ha : Ascending ts)
    (hf : FreshHoldersDoNotWait ts) :
    ∃ t ∈ ts, t.waiting = none ∨ ∃ w f, t.waiting = some (w, f) ∧ ∀ u ∈ ts, w ∉ u.held := by
  apply Classical.byContradiction
  intro hcon
  apply ordered_no_deadlock ts ts ha hf
  refine ⟨hne, fun t h => h, ?_⟩
  intro t ht
  cases hw : t.waiting with
  | none => exact absurd ⟨t, ht, Or.inl hw⟩ hcon
  | some p =>
    obtain ⟨w, f⟩ := p
    refine ⟨w, f, rfl, ?_⟩
    apply Classical.byContradiction
    intro hno
    apply hcon
    refine ⟨t, ht, Or.inr ⟨w, f, hw, ?_⟩⟩
    intro u hu hwu
    exact hno ⟨u, hu, hwu⟩

/-- The executable validator run on recorded traces accepts only acquisition sequences that obey
    the discipline: each acquisition (other than a fresh allocation) exceeds every lock held. -/
theorem ascendingFrom_sound (fresh : List Nat) (n : Nat) (rest : List Ev) (held : List Nat)
    (h : ascendingFrom fresh (.acq n :: rest) held = true) :
    (n ∈ fresh ∨ ∀ k ∈ held, k < n) ∧ n ∉ held ∧ ascendingFrom fresh rest (n :: held) = true := by
  simp only [ascendingFrom, Bool.and_eq_true, Bool.or_eq_true, List.contains_eq_mem, decide_eq_true_eq,
    List.all_eq_true, Bool.not_eq_true', decide_eq_false_iff_not] at h
  exact ⟨h.1.1, h.1.2, h.2⟩

/-- Non-vacuity: the lock plan of a RENAME over an existing target in another directory
    (four inodes, ascending) is accepted; the unrepaired order (as `sort.Slice` on the wrong
    slice produced it) is not. -/
example : ascendingFrom [] [.acq 3, .acq 7, .acq 9, .acq 12, .commit, .rel 3, .rel 7, .rel 9, .rel 12] [] = true := by decide
example : ascendingFrom [] [.acq 7, .acq 3, .acq 12, .acq 9] [] = false := by decide

end GoNfsd.Props.C06

/-
C06 — no deadlock or livelock: every RPC terminates.

Theorem about the waits-for model of the lock manager (M10): under the acquisition discipline
of the NFS transactions no set of transactions can block each other for ever.  The discipline
is CHECKED on every transaction of every run (the `locks` driver validates the recorded
acquisition sequences: strictly ascending except for the transaction's own fresh allocation,
nothing locked twice), so an ordering bug is reported from a single sequential execution
without waiting for a hang; a watchdog on every request is the search for hangs.
-/
import GoNfsd.Model.Locks
import GoNfsd.Lemmas.LockSched

namespace GoNfsd.Props.C06
open GoNfsd.Model.Locks

/-- in a non-empty list there is an element maximising a measure -/
theorem exists_max {α : Type} (l : List α) (f : α → Nat) (h : l ≠ []) :
    ∃ x ∈ l, ∀ y ∈ l, f y ≤ f x := by
  induction l with
  | nil => exact absurd rfl h
  | cons a rest ih =>
    by_cases hr : rest = []
    · subst hr; exact ⟨a, by simp, by intro y hy; simp at hy; subst hy; exact Nat.le_refl _⟩
    · obtain ⟨x, hx, hmax⟩ := ih hr
      by_cases hc : f x ≤ f a
      · refine ⟨a, by simp, ?_⟩
        intro y hy
        simp at hy
        rcases hy with hy | hy
        · subst hy; exact Nat.le_refl _
        · exact Nat.le_trans (hmax y hy) hc
      · refine ⟨x, List.mem_cons_of_mem _ hx, ?_⟩
        intro y hy
        simp at hy
        rcases hy with hy | hy
        · subst hy; omega
        · exact hmax y hy

/-- No deadlock: if every ordinary lock request is above everything its transaction holds, and
    the only requests that are not (a transaction locking the inode number it has just
    allocated) are for numbers whose other holders never wait, then no set of transactions is
    deadlocked — whatever the number of transactions, the locks they hold and the interleaving
    that led there. -/
theorem ordered_no_deadlock (ts D : List Txn) (ha : Ascending ts) (hf : FreshHoldersDoNotWait ts) :
    ¬ Deadlocked ts D := by
  rintro ⟨hne, hsub, hd⟩
  -- the lock each member waits for
  let wOf : Txn → Nat := fun t => match t.waiting with | some (w, _) => w | none => 0
  obtain ⟨t, htD, hmax⟩ := exists_max D wOf hne
  obtain ⟨w, f, hw, u, huD, hwu⟩ := hd t htD
  -- u holds w and (being in D) waits as well
  obtain ⟨w', f', hw', _⟩ := hd u huD
  -- t's request cannot be a fresh one: its holder u would not be waiting
  have hf_t : f = false := by
    cases f with
    | false => rfl
    | true =>
      have := hf t (hsub t htD) w hw u (hsub u huD) hwu
      rw [hw'] at this; cases this
  -- nor can u's
  have hf_u : f' = false := by
    cases f' with
    | false => rfl
    | true =>
      obtain ⟨w2, f2, hw2, u2, hu2D, hwu2⟩ := hd u huD
      rw [hw'] at hw2; cases hw2
      obtain ⟨w3, f3, hw3, _⟩ := hd u2 hu2D
      have := hf u (hsub u huD) w' hw' u2 (hsub u2 hu2D) hwu2
      rw [hw3] at this; cases this
  subst hf_u
  -- u's request is above everything u holds, in particular above w
  have hlt : w < w' := ha u (hsub u huD) w' hw' w hwu
  have h1 : wOf t = w := by simp [wOf, hw]
  have h2 : wOf u = w' := by simp [wOf, hw']
  have := hmax u huD
  omega

/-- ... and consequently, while some transaction is unfinished, one can step: a transaction
    that waits for nothing, or one whose requested lock nobody holds. -/
theorem some_transaction_can_step (ts : List Txn) (hne : ts ≠ []) (ha : Ascending ts)
    (hf : FreshHoldersDoNotWait ts) :
    ∃ t ∈ ts, t.waiting = none ∨ ∃ w f, t.waiting = some (w, f) ∧ ∀ u ∈ ts, w ∉ u.held := by
  apply Classical.byContradiction
  intro hcon
  apply ordered_no_deadlock ts ts ha hf
  refine ⟨hne, fun t h => h, ?_⟩
  intro t ht
  cases hw : t.waiting with
  | none => exact absurd ⟨t, ht, Or.inl hw⟩ hcon
  | some p =>
    obtain ⟨w, f⟩ := p
    refine ⟨w, f, rfl, ?_⟩
    apply Classical.byContradiction
    intro hno
    apply hcon
    refine ⟨t, ht, Or.inr ⟨w, f, hw, ?_⟩⟩
    intro u hu hwu
    exact hno ⟨u, hu, hwu⟩

/-- The executable validator run on recorded traces accepts only acquisition sequences that obey
    the discipline: each acquisition (other than a fresh allocation) exceeds every lock held. -/
theorem ascendingFrom_sound (fresh : List Nat) (n : Nat) (rest : List Ev) (held : List Nat)
    (h : ascendingFrom fresh (.acq n :: rest) held = true) :
    (n ∈ fresh ∨ ∀ k ∈ held, k < n) ∧ n ∉ held ∧ ascendingFrom fresh rest (n :: held) = true := by
  simp only [ascendingFrom, Bool.and_eq_true, Bool.or_eq_true, List.contains_eq_mem, decide_eq_true_eq,
    List.all_eq_true, Bool.not_eq_true', decide_eq_false_iff_not] at h
  exact ⟨h.1.1, h.1.2, h.2⟩

/-- Non-vacuity: the lock plan of a RENAME over an existing target in another directory
    (four inodes, ascending) is accepted; the unrepaired order (as `sort.Slice` on the wrong
    slice produced it) is not. -/
example : ascendingFrom [] [.acq 3, .acq 7, .acq 9, .acq 12, .commit, .rel 3, .rel 7, .rel 9, .rel 12] [] = true := by decide
example : ascendingFrom [] [.acq 7, .acq 3, .acq 12, .acq 9] [] = false := by decide

/-! ### the lock manager as a transition system, with abort-and-retry (M10c)

The statements above are about one state.  These are about runs: transactions that acquire an
ascending plan lock by lock, give up whenever they like, and restart with a new plan — within a
fixed budget of their own (RENAME over an existing target: one) or charged to a transaction that
finished since they last started (`getShrink`, `getAlloc`, a failed `validateRename`). -/
section sched
open GoNfsd.Model.LockSched

/-- No request retries indefinitely, none runs for ever: EVERY schedule — whatever the
    interleaving, however often and with whatever plans transactions restart — has at most
    `mu L s` steps; the measure is explicit (`retry_bounded_explicit`). -/
theorem retry_bounded (L : Nat) (s s' : Sys) (sched : List (Nat × Act)) (h : run L s sched = some s') :
    sched.length + mu L s' ≤ mu L s := run_mu L sched s s' h

/-- `N` requests, each with at most `F` restarts on its own account and plans of at most `L` locks,
    are over after at most `N · ((N + F)(L + 1) + L + 1)` steps — in particular no transaction
    restarts more often than that. -/
theorem retry_bounded_explicit (L F : Nat) (s s' : Sys) (sched : List (Nat × Act))
    (hs : ∀ t ∈ s.txs, t.free ≤ F ∧ t.todo.length ≤ L) (h : run L s sched = some s') :
    sched.length ≤ s.txs.length * ((cap s + F) * (L + 1) + L + 1) :=
  Nat.le_trans (by have := run_mu L sched s s' h; omega) (mu_le L F s hs)

/-- The discipline is kept by every step (ascending plans, a finished transaction holds nothing). -/
theorem discipline_is_kept (L : Nat) (s s' : Sys) (sched : List (Nat × Act)) (hi : Inv L s)
    (h : run L s sched = some s') : Inv L s' := run_inv L sched s s' hi h

/-- No run can stop early: in every state reached, while some transaction is unfinished, one of
    them can take the very step it is waiting for (its next lock is free, or it has them all and
    commits).  Together with `retry_bounded`: every maximal run ends, after boundedly many steps,
    with every request answered. -/
theorem no_run_stops_early (L : Nat) (s s' : Sys) (sched : List (Nat × Act)) (hi : Inv L s)
    (h : run L s sched = some s')
    (hstuck : ∀ i t, s'.txs[i]? = some t → t.fin = false → step L s' i (wanted t) = none) :
    ∀ t ∈ s'.txs, t.fin = true := by
  intro t ht
  cases hf : t.fin with
  | true => rfl
  | false =>
    obtain ⟨i, u, hu, huf, hstep⟩ := progress L s' (run_inv L sched s s' hi h) ⟨t, ht, hf⟩
    rw [hstuck i u hu huf] at hstep
    simp at hstep

/-- Non-vacuity: two RENAMEs over the same four inodes (plans 3 7 9 12) and a LOOKUP of a child
    numbered below its directory (plan 3 9, after one restart of its own) satisfy the discipline,
    interleave, block each other, and all finish. -/
def s0 : Sys :=
  { txs := [⟨[], [3, 7, 9, 12], false, 0, 1⟩, ⟨[], [3, 7, 9, 12], false, 0, 1⟩, ⟨[], [9], false, 0, 1⟩], commits := 0 }

example : Inv 4 s0 := by decide
example : (step 4 s0 1 .acquire).isSome = true ∧
    ((step 4 s0 0 .acquire).bind fun s => step 4 s 1 .acquire) = none := by decide   -- the second one blocks
example : ((run 4 s0 [(2, .acquire), (2, .restart [3, 9]), (0, .acquire), (0, .acquire), (0, .acquire), (0, .acquire),
      (0, .finish), (2, .acquire), (1, .restart [3, 7]), (2, .acquire), (2, .finish), (1, .acquire), (1, .acquire),
      (1, .finish)]).map fun s => s.txs.all (·.fin)) = some true := by decide
/-- ... and a restart that is neither within the budget nor charged to anybody is refused. -/
example : ((step 4 s0 2 (.restart [3, 9])).bind fun s => step 4 s 2 (.restart [3, 9])) = none := by decide

end sched

end GoNfsd.Props.C06

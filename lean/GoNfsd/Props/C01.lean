/-
C01 — crash atomicity and durability of every NFS operation.

The proof part is about the write-ahead log (model M9, `Model/Wal.lean`): whatever the
interleaving of logger and installer steps, whatever point the disk is cut off at and whatever
subset of the un-barriered writes is lost — and however often the server crashes again while
recovering — the logical disk that recovery reconstructs is the disk after a PREFIX of the
sequence of logged updates, and that prefix contains every update whose header was made
durable (every acknowledged synchronous commit).  Because an NFS operation is one journal
transaction (one contiguous run of updates appended atomically), a prefix of updates at a group
boundary is a prefix of operations.
Ties: `walcheck` maps the disk trace RECORDED from a real run onto the model's steps and checks
every guard (so the theorem's hypothesis is observed to hold of what go-journal did); the crash
harness builds crash images from the same trace, lets the REAL server recover, and compares the
recovered tree with the reference states after each prefix of operations.
-/
import GoNfsd.Lemmas.ObjLog
import GoNfsd.Gen.Skeleton
import GoNfsd.Lemmas.WalCrash
import GoNfsd.Lemmas.MemLog

namespace GoNfsd.Props.C01
open GoNfsd.Model.Wal

variable {α : Type}

/-- Crash safety of the log: for EVERY reachable protocol state (any interleaving of slot,
    header-1, home and header-2 writes and barriers taken under the threads' guards, any number
    of earlier crashes and restarts) and EVERY crash state of it (per disk cell: the durable
    content or any one of the writes still in the volatile buffer), the logical disk served
    after recovery equals the specification after the first `e` updates, where `e` is the end of
    a group commit (header-1 write) that is durable or was issued, and is at least the end of the
    last durable one. -/
theorem wal_crash_safe (base : Nat → α) (U : Nat → Upd α) (s : St) (c : Crash)
    (hr : Reach U s) (hv : c.valid s U) :
    ∃ e, s.eD ≤ e ∧ (e = s.eD ∨ e ∈ s.pE) ∧ logical s base U c = spec base U e :=
  ⟨c.endv, (crash_bounds s U c (reach_inv U s hr) hv).2.2.1, hv.2.1, funext (crash_logical s base U c hr hv)⟩

/-- The durable end never moves backwards: neither by protocol steps nor by a crash and restart. -/
theorem durable_end_monotone_step (s : St) (x : Step) (h : Inv s) : s.eD ≤ (step s x).eD := by
  cases x <;> simp only [step] <;> try exact Nat.le_refl _
  exact (eIssued_bounds s h).1

theorem durable_end_monotone_crash (U : Nat → Upd α) (s : St) (c : Crash) (h : Inv s) (hv : c.valid s U) :
    s.eD ≤ (restart c).eD := (crash_bounds s U c h hv).2.2.1

/-- Durability: once a group commit is durable (a synchronous commit has been acknowledged —
    `Flush` returned because `diskEnd` covers it), every later crash state of every later
    protocol state — after more steps, crashes and restarts — still contains it: the recovered
    logical disk is the specification after at least that many updates. -/
theorem acknowledged_survives (base : Nat → α) (U : Nat → Upd α) (s s' : St) (c : Crash) (n : Nat)
    (hack : n ≤ s.eD) (hlater : s.eD ≤ s'.eD) (hr : Reach U s') (hv : c.valid s' U) :
    ∃ e, n ≤ e ∧ logical s' base U c = spec base U e := by
  obtain ⟨e, h1, _, h4⟩ := wal_crash_safe base U s' c hr hv
  exact ⟨e, by omega, h4⟩

/-- Repeated crashes during recovery: the state a server restarts in after a crash is again a
    protocol state to which `wal_crash_safe` applies, and the updates it may lose are never
    those that were durable before the first crash. -/
theorem wal_recover_idempotent (base : Nat → α) (U : Nat → Upd α) (s : St) (c c' : Crash)
    (hr : Reach U s) (hv : c.valid s U) (hv' : c'.valid (restart c) U) :
    ∃ e, s.eD ≤ e ∧ logical (restart c) base U c' = spec base U e := by
  have hr' : Reach U (restart c) := Reach.crash s c hr hv
  obtain ⟨e, h1, _, h4⟩ := wal_crash_safe base U (restart c) c' hr' hv'
  have := durable_end_monotone_crash U s c (reach_inv U s hr) hv
  exact ⟨e, by omega, h4⟩

/-- No operation is visible in part: the recovered logical disk is a prefix state of the
    update sequence, so for every address it holds the value of the last update before `e` that
    writes it, or the base value — never a mixture within one position. -/
theorem recovered_is_prefix_state (base : Nat → α) (U : Nat → Upd α) (e a : Nat) :
    (∃ p, p < e ∧ (U p).addr = a ∧ (∀ q, p < q → q < e → (U q).addr ≠ a) ∧ spec base U e a = (U p).blk) ∨
    ((∀ q, q < e → (U q).addr ≠ a) ∧ spec base U e a = base a) := by
  induction e with
  | zero => right; exact ⟨fun q h => absurd h (Nat.not_lt_zero _), rfl⟩
  | succ e ih =>
    have hsplit : spec base U (e + 1) a = applyUpds (spec base U e) (seg U e (e + 1)) a :=
      spec_split base U e (e + 1) (Nat.le_succ _) a
    have hseg : seg U e (e + 1) = [U e] := by simp [seg]
    rw [hseg] at hsplit
    simp only [applyUpds] at hsplit
    by_cases ha : (U e).addr = a
    · left
      refine ⟨e, Nat.lt_succ_self _, ha, fun q h1 h2 => by omega, ?_⟩
      rw [hsplit]; simp [ha]
    · have hne : ¬ a = (U e).addr := fun h => ha h.symm
      rw [show spec base U (e + 1) a = spec base U e a by rw [hsplit]; simp [hne]]
      rcases ih with ⟨p, p1, p2, p3, p4⟩ | ⟨n1, n2⟩
      · left
        refine ⟨p, by omega, p2, ?_, p4⟩
        intro q h1 h2
        by_cases hq : q = e
        · subst hq; exact ha
        · exact p3 q h1 (by omega)
      · right
        refine ⟨?_, n2⟩
        intro q hq
        by_cases hqe : q = e
        · subst hqe; exact ha
        · exact n1 q (by omega)

/-- Non-vacuity: a run with one group of two updates, header written, log not yet installed; a
    crash that keeps everything is a valid crash state of a reachable protocol state. -/
example : Reach (fun _ => (⟨600, 0⟩ : Upd Nat))
    (step (step (step (step (step init .slot) .slot) .barrier) (.hdr1 2)) .barrier) := by
  refine Reach.step _ _ (Reach.step _ _ (Reach.step _ _ (Reach.step _ _ (Reach.step _ _ Reach.init ?_) ?_) ?_) ?_) ?_
  all_goals simp [GoNfsd.Model.Wal.guard, step, init, St.eIssued, L, GoNfsd.Gen.Consts.WAL_LOGSZ]

/-! ### the in-memory log: a group commit is a prefix of WHOLE transactions -/

open GoNfsd.Model.MemLog in
/-- Group commits end at transaction boundaries, and absorption never reaches below one.
    Take any history of the in-memory log: events `es1`, a flush request, then any events
    `es2` (more transactions, absorbed into each other or not, more flushes).  Let `e` be the
    value of `mutable` right after the flush — the end value the logger writes into header 1.
    Then (a) the positions below `e` are never changed by anything that follows, and (b) they
    hold exactly the transactions appended before the flush, all of each, in order. -/
theorem group_is_txn_prefix (m0 : MemLog α) (es1 es2 : List (Ev α)) (h0 : m0.ok) :
    let m1 := runEv m0 (es1 ++ [Ev.flush])
    let m2 := runEv m1 es2
    m2.log.take m1.mutable = m1.log.take m1.mutable ∧
    ∀ (base : Nat → α) x, applyUpds base (m2.log.take m1.mutable) x = applyUpds base (m0.log ++ txnsOf es1) x := by
  intro m1 m2
  have hm1 : m1 = flush (runEv m0 es1) := by
    simp [m1, runEv, List.foldl_append, stepEv]
  obtain ⟨a1, _, _, _, a5⟩ := runEv_facts m0 es1 h0
  have hok1 : m1.ok := by rw [hm1]; simp [flush, MemLog.ok]
  obtain ⟨_, _, _, b4, _⟩ := runEv_facts m1 es2 hok1
  refine ⟨b4, fun base x => ?_⟩
  show applyUpds base ((runEv m1 es2).log.take m1.mutable) x = _
  rw [b4, hm1]
  simp only [flush, List.take_length]
  exact a5 base x

open GoNfsd.Model.MemLog in
/-- The update sequence the on-disk log sees is the in-memory log: for a flush point `e` inside
    the log, the WAL specification after `e` updates is the state after the transactions
    appended before that flush. -/
theorem spec_at_flush_point (base : Nat → α) (l : List (Upd α)) (d : Upd α) (e : Nat) (he : e ≤ l.length) (x : Nat) :
    spec base (fun p => l.getD p d) e x = applyUpds base (l.take e) x := by
  have : seg (fun p => l.getD p d) 0 e = l.take e := by
    unfold seg
    apply List.ext_getElem
    · simp; omega
    · intro i h1 h2
      simp at h1 h2 ⊢
      rw [List.getElem?_eq_getElem (by omega)]
      rfl
  unfold spec
  rw [this]

open GoNfsd.Model.MemLog in
/-- NO OPERATION IS VISIBLE IN PART.  Let the update sequence of the on-disk log be the
    in-memory log of a history `es1, flush, es2`, and let a crash state recover the header-1
    value `e` written for that flush.  Then the recovered logical disk is exactly the disk after
    ALL transactions of `es1` and NONE of `es2` — each NFS operation being one transaction. -/
theorem crash_recovers_whole_transactions (base : Nat → α) (m0 : MemLog α) (es1 es2 : List (Ev α)) (h0 : m0.ok)
    (d : Upd α) (s : St) (c : Crash)
    (hr : Reach (fun p => (runEv (runEv m0 (es1 ++ [Ev.flush])) es2).log.getD p d) s)
    (hv : c.valid s (fun p => (runEv (runEv m0 (es1 ++ [Ev.flush])) es2).log.getD p d))
    (hend : c.endv = (runEv m0 (es1 ++ [Ev.flush])).mutable) (x : Nat) :
    logical s base (fun p => (runEv (runEv m0 (es1 ++ [Ev.flush])) es2).log.getD p d) c x =
      applyUpds base (m0.log ++ txnsOf es1) x := by
  rw [crash_logical s base _ c hr hv x, hend]
  obtain ⟨g1, g2⟩ := group_is_txn_prefix m0 es1 es2 h0
  have hm1 : runEv m0 (es1 ++ [Ev.flush]) = flush (runEv m0 es1) := by
    simp [runEv, List.foldl_append, stepEv]
  have hok1 : (runEv m0 (es1 ++ [Ev.flush])).ok := by rw [hm1]; simp [flush, MemLog.ok]
  obtain ⟨_, _, b3, _, _⟩ := runEv_facts (runEv m0 (es1 ++ [Ev.flush])) es2 hok1
  rw [spec_at_flush_point base _ d _ (by unfold MemLog.ok at hok1; omega) x]
  exact g2 base x

/-! ### what a stable acknowledgement may rely on (model M9c of `obj.Log`, the layer that remembers a log position)

Found on the unchanged tree (fix 0fea8f5): COMMIT called `Txn.Flush()`, which flushes up to the
position `obj.Log` remembers from the last `doCommit` — also from one the log REFUSED, and then the
position is 0. -/
section objlog
open GoNfsd.Model.ObjLog

/-- The dependency as it is: a `Flush()` right after a refused transaction makes nothing durable —
    whatever had been acknowledged as unstable before it stays in memory.  (The concrete history:
    one unstable commit, one refused commit, `Flush()`: one transaction appended, none durable.) -/
theorem flush_forgets_after_a_refusal (s : OL) (w : Bool) :
    (step (step s (.commit false w)) .flush).durable = s.durable ∧
    (run {} [.commit true false, .commit false false, .flush]).durable <
      (run {} [.commit true false, .commit false false, .flush]).next :=
  ⟨flush_after_refusal_noop s w, by decide⟩

/-- What every stable operation does, and `CommitFh` too since 0fea8f5: `CommitWait(true)` of a
    non-empty transaction, which flushes up to ITS OWN position.  In every state the log can be in — whatever was committed,
    refused, flushed or written by the logger before — everything appended so far is durable
    afterwards, and stays so. -/
theorem stable_commit_is_durable_whatever_was_remembered (es es' : List Ev) :
    let t := step (run {} es) (.commit true true)
    t.durable = t.next ∧ t.next ≤ (run t es').durable := by
  have hi : Inv (run {} es) := run_inv es {} ⟨Nat.le_refl _, Nat.le_refl _⟩
  have h1 := stable_commit_all_durable (run {} es) hi
  exact ⟨h1, by rw [← h1]; exact run_durable_mono es' _⟩

/-- ... and no function of /repo's transaction layer calls `Flush()` any more (the list is
    regenerated from fstxn/*.go on every run; a caller reappearing — the seeded change C01i puts
    one into every stable commit — is named by the check). -/
theorem nobody_relies_on_the_remembered_position : GoNfsd.Gen.Skeleton.flushCallers = [] := by decide

end objlog

/-! ### what recovery rebuilds the allocators from is what the transactions committed -/

/-- After a crash the allocators are rebuilt from the bitmaps of the logical disk (6a36d18), so a
    committed allocation must be IN the bitmap: bitmap updates reach the journal as single bits,
    each owned by the transaction that holds the number.  A wider object (a bitmap byte: eight
    numbers, up to eight transactions) is merged by the journal with the stale bits of whoever
    commits next to it; the allocators in memory hide the lost bit until the restart, after which
    a block holding acknowledged data is handed out again.  Table regenerated from the source on
    every run (`Props/C10.journal_objects_have_the_granularity_of_their_locks` has all objects). -/
theorem committed_allocations_reach_the_bitmap_as_single_bits :
    ∀ e ∈ GoNfsd.Gen.Skeleton.journalObjects, e.1 = "alloctxn.WriteBits" → e.2.1 = "OverWrite" ∧ e.2.2 = "1" := by decide

example : ("alloctxn.WriteBits", "OverWrite", "1") ∈ GoNfsd.Gen.Skeleton.journalObjects := by decide

end GoNfsd.Props.C01

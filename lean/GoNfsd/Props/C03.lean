/-
C03 — concurrent RPCs are linearizable.

The proof part: strict two-phase locking over an exclusive lock manager orders conflicting
transactions by their commit points — stated over the timestamps of a trace (acquisition,
commit and release positions), whose hypotheses the `locks` driver CHECKS on the recorded
event trace of every concurrent run.  The deciding tie: every concurrent history produced by
the harness is replayed on the sequential reference model (C02) in the observed commit order —
the witness order the theorem provides, so no search over orders — and every recorded reply
(post-operation attributes and listings included) must match; each operation's linearization
point lies between its invocation and its return by construction.
PARTIAL with respect to schedules: the theorem covers every interleaving of the abstract
system; the implementation is observed on the schedules the harness provokes.
-/
import GoNfsd.Model.OpCache
import GoNfsd.Model.Locks
import GoNfsd.Lemmas.Serial
import GoNfsd.Gen.Skeleton
import GoNfsd.Lemmas.SlotLock
import GoNfsd.Lemmas.Reveal

namespace GoNfsd.Props.C03
open GoNfsd.Model.Locks

/-- Two transactions that both lock object `o`: `acqᵢ`/`relᵢ` are the trace positions at which
    transaction i acquires / releases `o`'s lock, `cᵢ` its commit point.  Exclusive locking makes
    the two holding intervals disjoint; two-phase locking puts each commit point inside its
    transaction's holding interval.  Then the transaction that commits first holds — hence
    accesses — `o` entirely before the other one: the conflict order is the commit order. -/
theorem twophase_conflict_order (acq1 rel1 c1 acq2 rel2 c2 : Nat)
    (hexcl : rel1 < acq2 ∨ rel2 < acq1)
    (h1 : acq1 < c1 ∧ c1 < rel1) (h2 : acq2 < c2 ∧ c2 < rel2) (hc : c1 < c2) :
    rel1 < acq2 := by omega

/-- Every access of the earlier-committing transaction to `o` precedes every access of the
    later one (accesses happen only while the lock is held). -/
theorem accesses_ordered (acq1 rel1 c1 acq2 rel2 c2 a1 a2 : Nat)
    (hexcl : rel1 < acq2 ∨ rel2 < acq1)
    (h1 : acq1 < c1 ∧ c1 < rel1) (h2 : acq2 < c2 ∧ c2 < rel2) (hc : c1 < c2)
    (ha1 : acq1 ≤ a1 ∧ a1 ≤ rel1) (ha2 : acq2 ≤ a2 ∧ a2 ≤ rel2) : a1 < a2 := by omega

/-- The commit order also respects real time: a transaction that returned before another was
    invoked committed first (commit points lie between invocation and return). -/
theorem commit_order_respects_real_time (inv1 c1 ret1 inv2 c2 ret2 : Nat)
    (h1 : inv1 < c1 ∧ c1 < ret1) (h2 : inv2 < c2 ∧ c2 < ret2) (hrt : ret1 < inv2) : c1 < c2 := by omega

/-- The trace validator accepts only two-phase transactions: while it has not seen the commit or
    abort point it refuses any release that is not of a lock dropped at once (stale handle). -/
theorem twoPhase_no_early_release (early : List Nat) (n : Nat) (rest : List Ev) (held : List Nat)
    (h : twoPhase early (.rel n :: rest) false held = true) : n ∈ early ∧ n ∈ held := by
  simp only [twoPhase, Bool.and_eq_true, Bool.or_eq_true, List.contains_eq_mem, decide_eq_true_eq,
    Bool.false_eq_true, false_or] at h
  exact ⟨h.1.2, h.1.1⟩

theorem twoPhase_no_late_acquire (early : List Nat) (n : Nat) (rest : List Ev) (held : List Nat) :
    twoPhase early (.acq n :: rest) true held = false := by
  simp [twoPhase]

/- PENDING (growth item): `commit_order_replay` — for register-style transactions executing
   under this discipline, the interleaved execution and the serial execution in commit order
   give every transaction the same reads and the same final store.  Not yet stated formally;
   the replay of every observed history in commit order on the reference model is the check
   that stands in its place (validation, not proof). -/

/-- Non-vacuity: a committed two-lock transaction trace is accepted, one that releases before
    its commit point is not. -/
example : twoPhase [] [.acq 3, .acq 7, .commit, .rel 3, .rel 7] false [] = true := by decide
example : twoPhase [] [.acq 3, .rel 3, .acq 7, .commit, .rel 7] false [] = false := by decide

/-! ### check and act in one transaction -/

open GoNfsd.Model.Locks in
/-- Soundness of the name-event validator: if `insertsChecked` accepts the events of a
    transaction, every insertion of a (directory, name) key is preceded IN THAT TRANSACTION by a
    lookup of the same key (or the key was among those already looked up).  Together with two-phase
    locking — the directory stays locked from the lookup to the commit — "the name did not exist"
    still holds when the name is inserted; a lookup made in an earlier, aborted transaction of the
    same request (lock released in between) does not count. -/
theorem insertsChecked_sound (evs : List NameEv) (looked : List Nat) (h : insertsChecked evs looked = true) :
    ∀ (pre post : List NameEv) (k : Nat), evs = pre ++ NameEv.insert k :: post →
      k ∈ looked ∨ NameEv.lookup k ∈ pre := by
  induction evs generalizing looked with
  | nil => intro pre post k he; simp at he
  | cons e rest ih =>
    intro pre post k he
    cases pre with
    | nil =>
      simp only [List.nil_append, List.cons.injEq] at he
      obtain ⟨he1, _⟩ := he
      subst he1
      simp only [insertsChecked, Bool.and_eq_true, List.contains_iff_mem] at h
      exact Or.inl (by simpa using h.1)
    | cons p pre' =>
      simp only [List.cons_append, List.cons.injEq] at he
      obtain ⟨he1, he2⟩ := he
      subst he1
      cases e with
      | lookup j =>
        simp only [insertsChecked] at h
        rcases ih (j :: looked) h pre' post k he2 with hm | hm
        · simp only [List.mem_cons] at hm
          rcases hm with hm | hm
          · subst hm; exact Or.inr (by simp)
          · exact Or.inl hm
        · exact Or.inr (by simp [hm])
      | insert j =>
        simp only [insertsChecked, Bool.and_eq_true] at h
        rcases ih looked h.2 pre' post k he2 with hm | hm
        · exact Or.inl hm
        · exact Or.inr (by simp [hm])

/-! ### why the replay in commit order works: strict two-phase locking serialises -/

section serial
open GoNfsd.Model.Serial

/-- COMMIT-ORDER REPLAY.  Any interleaving of any number of transactions that lock objects, read
    and update them in place under the lock and release everything at commit — each lock granted
    only when free, each access made only under the lock — ends, once everything is committed,
    with every object in exactly the state it has after running the transactions ONE AFTER THE
    OTHER in the order of their commits (each with its complete list of actions), and every
    transaction has read exactly the values it reads in that serial execution.  Hence replaying a
    concurrent history of the server in commit order on the sequential reference model must
    reproduce every reply — which is what the C03 check does with the recorded histories. -/
theorem commit_order_replay (v : Nat → Val) (es : List GoNfsd.Model.Serial.Ev) (ha : AllowedAll (init v) es)
    (hq : Quiescent (GoNfsd.Model.Serial.run (init v) es)) :
    (∀ o, (GoNfsd.Model.Serial.run (init v) es).A o = (serialExec v (commitLog (init v) es)).1 o) ∧
    (∀ t, (GoNfsd.Model.Serial.run (init v) es).reads.filter (fun r => r.1 == t) =
          (serialExec v (commitLog (init v) es)).2.filter (fun r => r.1 == t)) := by
  have hinv := run_inv (init v) es (init_inv v) ha
  obtain ⟨hc, hs⟩ := run_serial_view es (init v)
  refine ⟨?_, ?_⟩
  · intro o
    rw [hinv.free_eq o (hq.1 o), hc]; rfl
  · intro t
    have := hinv.reads_eq t
    rw [hq.2 t] at this
    simp only [runSerial, List.append_nil] at this
    rw [this, hs]
    simp [init]

/-- Non-vacuity: two transactions interleaved on two objects (each increments one and copies it
    onto the other is not expressible without reads — here: +1 on object 0, doubling of object 1,
    interleaved) are allowed and end quiescent. -/
example :
    let es : List GoNfsd.Model.Serial.Ev := [.acq 1 0, .acq 2 1, .act 1 ⟨0, (· + 1)⟩, .act 2 ⟨1, (· * 2)⟩, .commit 2, .acq 1 1, .act 1 ⟨1, (· + 10)⟩, .commit 1]
    AllowedAll (init fun _ => 5) es ∧ Quiescent (GoNfsd.Model.Serial.run (init fun _ => 5) es) ∧
    (GoNfsd.Model.Serial.run (init fun _ => 5) es).A 1 = 20 := by
  intro es
  refine ⟨⟨?_, ?_, ?_, ?_, trivial, ?_, ?_, trivial, trivial⟩, ⟨?_, ?_⟩, ?_⟩
  all_goals simp [es, Allowed, GoNfsd.Model.Serial.run, step, init, runSerial]
  · intro o; by_cases h0 : o = 0 <;> by_cases h1 : o = 1 <;> simp [h0, h1]
  · intro t; by_cases h1 : t = 1 <;> by_cases h2 : t = 2 <;> simp [h1, h2]

end serial

/-! ### what a lock protects is fetched under the lock (regenerated from package fstxn) -/

/-- In every function of `fstxn` the inode's cache slot is looked up only while the inode's lock
    is held (`LockInode`: `Acquire` first, `LookupSlot` second; `forgetInodes`: called by `Abort`
    before the locks are given back), so the object a transaction reads and mutates under the lock
    is THE object every other transaction on that inode uses — whatever the cache evicts while a
    request waits.  `Gen.Skeleton.slotUses` is regenerated from fstxn/fstxn.go and fstxn/commit.go
    on every run. -/
theorem slots_are_fetched_under_the_lock :
    ∀ f ∈ GoNfsd.Gen.Skeleton.slotUses, GoNfsd.Model.Skeleton.slotCheck f = true := by decide

/-- the rule bites: the order of the seeded change C03i (slot first, lock second) is refused, and
    the table is not empty -/
example : GoNfsd.Model.Skeleton.slotCheck ("LockInode", [(0, "LookupSlot"), (0, "Acquire")]) = false := by decide
example : GoNfsd.Model.Skeleton.slotCheck ("Abort", [(1, "releaseInodes"), (1, "forgetInodes")]) = false := by decide
example : ("LockInode", [(0, "Acquire"), (0, "LookupSlot")]) ∈ GoNfsd.Gen.Skeleton.slotUses := by decide

/-! ### why: inode locks and cache slots together (model M8d) -/
section slotlock
open GoNfsd.Model.SlotLock

/-- Under the discipline that `slots_are_fetched_under_the_lock` checks on the code — a slot is looked
    up only by the holder of the inode's lock — in every state reachable by any interleaving of lock
    grants, lookups, evictions (of ANY entry at ANY time), in-place modifications, commits and aborts,
    the slot a lookup returns holds no uncommitted changes of another transaction: a transaction
    never observes what an aborted (or not yet committed) transaction did to the cached inode. -/
theorem no_transaction_sees_anothers_uncommitted_inode (ops : List Op) (s s' : St) (t i : Nat)
    (hd : Disciplined empty ops) (hr : run empty ops = some s) (hl : s.lock i = some t)
    (hs : step s (.lookup t i) = some s') :
    ∃ k, s'.ptr t i = some k ∧ (s'.tainted k = none ∨ s'.tainted k = some t) :=
  lookup_never_returns_foreign_taint s s' t i (run_inv ops empty s empty_inv hd hr) hl hs

/-- Without the discipline it fails, in six steps (the seeded change C03i: the waiter fetched the
    slot BEFORE it was granted the lock): transaction 1 holds inode 5 and its slot; transaction 2,
    waiting, fetches the same slot; 1 modifies the inode in place; the entry is evicted; 1 aborts
    (which clears the slot the cache has NOW, a fresh one) and releases; 2 is granted the lock and
    works on its pointer — the orphaned slot with the aborted changes of 1. -/
theorem slot_fetched_before_the_lock_sees_aborted_changes :
    ((run empty [.acquire 1 5, .lookup 1 5, .lookup 2 5, .modify 1 5, .evict 5, .abort 1 5, .acquire 2 5]).map
      fun s => (s.lock 5, s.ptr 2 5, s.tainted 0)) = some (some 2, some 0, some 1) := by decide

end slotlock

/-! ### what another transaction reads can no longer be lost (model M14) -/
section reveal
open GoNfsd.Model.Reveal

/-- WHAT A REPLY REVEALS IS DURABLE.  The journal's log has a part on disk and a part in memory;
    commits append (with or without waiting for the disk), the logger writes in the background,
    anybody may flush.  Under the discipline of `fstxn.commitWait` — a transaction gives a lock
    back only when nothing of it is pending, unstable WRITEs aside — in every state reachable by any interleaving of any
    transactions, a transaction that holds the lock of `k` (and has nothing pending itself) reads
    for `k` — unless an unstable WRITE to `k` is pending — exactly the value the server would have after a crash at this very moment. -/
theorem what_another_transaction_reads_is_durable (ops : List Op) (s : St) (t k : Nat)
    (hd : Disciplined empty ops) (hr : run empty ops = some s)
    (hl : s.lock k = some t) (hp : ∀ c ∈ s.pend, c.1 ≠ t)
    (hu : ∀ c ∈ s.pend, c.2.1 = true → ∀ kv ∈ c.2.2, kv.1 ≠ k) :
    s.read k = s.recovered k :=
  read_is_recovered s t k (run_inv ops empty s empty_inv hd hr) hl hp hu

/-- ... and equally the value after a crash that keeps ANY part of the pending log (the journal may
    have written any prefix of it by then) -/
theorem what_another_transaction_reads_survives_every_crash_outcome (ops : List Op) (s : St) (t k n : Nat)
    (hd : Disciplined empty ops) (hr : run empty ops = some s)
    (hl : s.lock k = some t) (hp : ∀ c ∈ s.pend, c.1 ≠ t)
    (hu : ∀ c ∈ s.pend, c.2.1 = true → ∀ kv ∈ c.2.2, kv.1 ≠ k) :
    s.read k = valOf (s.dur ++ s.pend.take n) k :=
  read_is_recovered_any_prefix s t k n (run_inv ops empty s empty_inv hd hr) hl hp hu

/-- the only thing that can be pending on a key whose lock another transaction holds is an
    unstable WRITE (whose loss the protocol allows and reports: C07) -/
theorem only_unstable_writes_are_revealed_early (ops : List Op) (s : St) (t k : Nat)
    (hd : Disciplined empty ops) (hr : run empty ops = some s) (hl : s.lock k = some t)
    (c : Commit) (hc : c ∈ s.pend) (hne : c.1 ≠ t) (kv : Nat × Nat) (hkv : kv ∈ c.2.2) (e : kv.1 = k) :
    c.2.1 = true :=
  pending_on_locked_key_is_unstable s t k (run_inv ops empty s empty_inv hd hr) hl c hc hne kv hkv e

/-- ... and it stays durable: whatever happens afterwards, the log recovery finds at any later
    crash extends the one that read was served from (nothing durable is ever taken back). -/
theorem what_was_durable_stays_durable (ops : List Op) (s s' : St) (hr : run s ops = some s') :
    ∃ ext, s'.dur = s.dur ++ ext := run_dur_prefix ops s s' hr

/-- The discipline on the code (tables regenerated from fstxn/commit.go and from every caller on
    every run): the journal's `CommitWait` is called by `commitWait` alone, with the caller's `wait`,
    and the locks are released after it; every committing function of package fstxn waits, except
    `CommitUnstable`, which only the WRITE handler calls.  (The run-time counterpart is token `u` of
    the lock traces.) -/
theorem locks_are_given_back_after_the_waiting_commit :
    (∀ f ∈ GoNfsd.Gen.Skeleton.commitPaths, GoNfsd.Model.Skeleton.commitPathCheck f = true) ∧
    (∀ c ∈ GoNfsd.Gen.Skeleton.unstableCommitters, c ∈ GoNfsd.Model.Skeleton.unstableCommittersAllowed) := by decide

/-- the rule bites: the seeded change C08k (`Commit` goes through `commitWait(false)` and flushes
    afterwards) and a release before the commit are refused; the table is not empty -/
example : GoNfsd.Model.Skeleton.commitPathCheck ("Commit", [(2, "false"), (2, "false"), (4, "")]) = false := by decide
example : GoNfsd.Model.Skeleton.commitPathCheck ("commitWait", [(1, "postCommit"), (0, "wait")]) = false := by decide
example : ("commitWait", [(0, "wait"), (1, "Abort"), (1, "postCommit")]) ∈ GoNfsd.Gen.Skeleton.commitPaths := by decide

/-- Without the discipline it fails in four steps (the seeded changes C08k and C17k: the locks
    are given back, or not taken, while the commit is still in memory): transaction 1 writes key 5
    without waiting and releases; transaction 2 reads 7; a crash now recovers nothing. -/
example : ∃ s, run empty [.acquire 1 5, .commit 1 [(5, 7)] false false, .release 1 5, .acquire 2 5] = some s ∧
    s.lock 5 = some 2 ∧ s.read 5 = some 7 ∧ s.recovered 5 = none := ⟨_, rfl, rfl, rfl, rfl⟩

/-- the code's order — commit, wait for the disk, release — is disciplined, and the premises of
    the theorem are met by the reader that comes next -/
example : Disciplined empty [.acquire 1 5, .commit 1 [(5, 7)] true false, .release 1 5, .acquire 2 5] ∧
    ∃ s, run empty [.acquire 1 5, .commit 1 [(5, 7)] true false, .release 1 5, .acquire 2 5] = some s ∧
      s.lock 5 = some 2 ∧ s.pend = [] ∧ s.read 5 = some 7 ∧ s.recovered 5 = some 7 := by
  refine ⟨?_, _, rfl, rfl, rfl, rfl, rfl⟩
  simp [Disciplined, step, empty, upd]

/-- a commit that does not wait, followed by the release, is NOT disciplined — unless it is an
    unstable WRITE (its data may be read and then lost: the NFS contract of C07 allows exactly
    that, through the write verifier) -/
example : ¬ Disciplined empty [.acquire 1 5, .commit 1 [(5, 7)] false false, .release 1 5] := by
  simp [Disciplined, step, empty, upd]
example : Disciplined empty [.acquire 1 5, .commit 1 [(5, 7)] false true, .release 1 5] := by
  simp [Disciplined, step, empty, upd]

end reveal

/-! ### the journal operation's private copies (model M16) -/

section opcache
open GoNfsd.Model.OpCache

/-- WHAT A TRANSACTION READS UNDER A LOCK IS WHAT IS COMMITTED, although the journal operation answers from its private
    copies: for every history of one operation's lock acquisitions, releases and reads of an object and of other
    transactions' commits to it, if the operation is TWO-PHASE (no lock is taken after one was given back) and reads the
    object only while it holds the lock, every read returns the committed value of that moment.  Both hypotheses are what
    the lock-trace validators check on every recorded transaction (`not-two-phase`, reads under the lock: the slot rule). -/
theorem reads_under_a_two_phase_lock_are_current (evs : List GoNfsd.Model.OpCache.Ev)
    (h2 : twoPhase false evs = true) (hw : wellLocked false evs = true) :
    ∀ p ∈ go {} evs, p.1 = p.2 :=
  reads_current evs {} false init_inv h2 hw

/-- without two-phase locking it is false: the operation reads, gives the lock back, another transaction commits 7,
    the operation takes the lock again and reads — its own stale copy (seeded changes C10o, C04o, C13j, C03k) -/
theorem a_relocking_transaction_reads_its_stale_copy :
    GoNfsd.Model.OpCache.go {} [.acquire, .read, .release, .otherCommit 7, .acquire, .read] = [(0, 0), (0, 7)] := by decide

/-- and without reading under the lock: a read before the lock is taken pins a copy that the locked part of the
    transaction then uses (seeded change C17m: `simple` WRITE reads the inode before `Acquire`) -/
theorem a_read_before_the_lock_pins_a_stale_copy :
    GoNfsd.Model.OpCache.go {} [.read, .otherCommit 7, .acquire, .read] = [(0, 7)] := by decide

example : twoPhase false [.acquire, .read, .release, .otherCommit 7, .acquire, .read] = false := by decide
example : wellLocked false [.read, .otherCommit 7, .acquire, .read] = false := by decide
/-- non-vacuity: a two-phase, well-locked history with commits of others before and after -/
example : twoPhase false [.otherCommit 3, .acquire, .read, .otherCommit 4, .read, .release, .otherCommit 5] = true ∧
    wellLocked false [.otherCommit 3, .acquire, .read, .otherCommit 4, .read, .release, .otherCommit 5] = true ∧
    GoNfsd.Model.OpCache.go {} [.otherCommit 3, .acquire, .read, .otherCommit 4, .read, .release, .otherCommit 5] = [(3, 3), (3, 3)] := by decide

end opcache

end GoNfsd.Props.C03

/-
C05 — freed space is fully reclaimed, in memory and on disk.

Proof part, on top of the checker soundness of C04: for an image taken at a quiescent point
(no RPC in flight, background freeing finished) that the checker accepts,
  * nothing is half-freed: a free inode owns no block;
  * the set of blocks marked in use is EXACTLY the metadata plus the blocks owned by objects
    reachable from the root, and the set of inodes marked in use is exactly the reserved number
    plus the objects reachable from the root (`marked_eq_reachable`, `imarked_eq_reachable`);
  * the running server's allocators hold exactly the bits of the on-disk bitmaps;
  * hence deleting everything leaves only the metadata and the root's own blocks marked.
For a crash image the first clause is dropped (a half-freed object still owns the blocks it has
not released) but `WF.marked_iff` still says no block is lost: every marked data block has an
owner whose pointer will be followed when the number is reused.
That these hold after EVERY build-then-delete history is decided by running the checker on the
images of sampled histories (PARTIAL).
-/
import GoNfsd.Lemmas.Files
import GoNfsd.Props.C04
import GoNfsd.Lemmas.BlockMap
import GoNfsd.Lemmas.ShrinkTree
import GoNfsd.Lemmas.InoOps
import GoNfsd.Lemmas.Alloc
import GoNfsd.Lemmas.ShrinkHandoff
import GoNfsd.Lemmas.FreeEmpty
import GoNfsd.Gen.Skeleton
import GoNfsd.Model.Skeleton

namespace GoNfsd.Props.C05
open GoNfsd.Model.Fsck GoNfsd.Gen.Consts GoNfsd.Gen.Super GoNfsd.Props.C04

structure Reclaimed (img : Image) : Prop where
  nothing_half_freed : ∀ ino ∈ img.inodes, ino.kind = 0 → owned img ino = []

/-- the in-memory allocators hold exactly the bits of the on-disk bitmaps -/
structure AllocCoherent (img : Image) : Prop where
  alloc_blocks : ∀ a, img.abruns = some a → ∀ b, inRuns a b = marked img b
  alloc_inodes : ∀ a, img.airuns = some a → ∀ i, inRuns a i = imarked img i

theorem quiescent_sound (img : Image) (h : fsckOk img = true) (hq : img.quiescent = true) : Reclaimed img := by
  simp only [fsckOk, Bool.and_eq_true] at h
  have hQ := h.1.2
  simp only [chkQuiescent, hq, Bool.not_true, Bool.false_or, List.all_eq_true, Bool.or_eq_true,
    bne_iff_ne, ne_eq, List.isEmpty_iff] at hQ
  refine ⟨fun ino hm hk => ?_⟩
  rcases hQ ino hm with h | h
  · exact absurd hk h
  · exact h

/-- Allocator coherence holds of EVERY accepted image taken from a running server — at quiescent
    points and right after recovery from a crash image alike. -/
theorem alloc_sound (img : Image) (h : fsckOk img = true) : AllocCoherent img := by
  simp only [fsckOk, Bool.and_eq_true] at h
  have hA := h.2
  simp only [chkAlloc, Bool.and_eq_true] at hA
  obtain ⟨h2, h3⟩ := hA
  refine ⟨fun a ha b => ?_, fun a ha i => ?_⟩
  · rw [ha] at h2
    simp only [beq_iff_eq] at h2
    rw [h2]; rfl
  · rw [ha] at h3
    simp only [beq_iff_eq] at h3
    rw [h3]; rfl

theorem mem_allOwned (img : Image) (b : Nat) :
    b ∈ allOwned img ↔ ∃ ino ∈ img.inodes, ∃ o ∈ owned img ino, o.blk = b := by
  simp [allOwned, List.mem_flatMap, List.mem_map]

/-- Marked = reachable (blocks): at a quiescent point a block is marked in use exactly if it is
    metadata or is owned by an object that is in use and reachable from the root. -/
theorem marked_eq_reachable (img : Image) (h : fsckOk img = true) (hq : img.quiescent = true) (b : Nat) :
    marked img b = true ↔ (metaBlock img.sz b = true ∨
      ∃ ino ∈ img.inodes, ino.kind ≠ 0 ∧ Reachable img ino.inum ∧ ∃ o ∈ owned img ino, o.blk = b) := by
  have wf := fsck_sound img h
  have rc := quiescent_sound img h hq
  rw [wf.marked_iff b, mem_allOwned]
  constructor
  · rintro (hm | ⟨ino, hi, o, ho, hb⟩)
    · exact Or.inl hm
    · right
      have hk : ino.kind ≠ 0 := by
        intro hk
        rw [rc.nothing_half_freed ino hi hk] at ho
        cases ho
      exact ⟨ino, hi, hk, wf.tree ino hi hk, o, ho, hb⟩
  · rintro (hm | ⟨ino, hi, _, _, o, ho, hb⟩)
    · exact Or.inl hm
    · exact Or.inr ⟨ino, hi, o, ho, hb⟩

/-- Marked = reachable (inodes). -/
theorem imarked_eq_reachable (img : Image) (h : fsckOk img = true) (i : Nat) :
    imarked img i = true ↔ (i = 0 ∨ ∃ ino ∈ img.inodes, ino.inum = i ∧ ino.kind ≠ 0 ∧ Reachable img i) := by
  have wf := fsck_sound img h
  rw [wf.imarked_iff i]
  constructor
  · rintro (h0 | ⟨ino, hi, he, hk⟩)
    · exact Or.inl h0
    · exact Or.inr ⟨ino, hi, he, hk, he ▸ wf.tree ino hi hk⟩
  · rintro (h0 | ⟨ino, hi, he, hk, _⟩)
    · exact Or.inl h0
    · exact Or.inr ⟨ino, hi, he, hk⟩

/-- Deleting everything returns the space: if the root is the only object in use, the blocks
    marked in use are the metadata and the root directory's own blocks — nothing else. -/
theorem delete_all_restores (img : Image) (h : fsckOk img = true) (hq : img.quiescent = true)
    (honly : ∀ ino ∈ img.inodes, ino.kind ≠ 0 → ino.inum = ROOTINUM) (b : Nat) :
    marked img b = true ↔ (metaBlock img.sz b = true ∨
      ∃ ino ∈ img.inodes, ino.inum = ROOTINUM ∧ ∃ o ∈ owned img ino, o.blk = b) := by
  rw [marked_eq_reachable img h hq b]
  constructor
  · rintro (hm | ⟨ino, hi, hk, _, o, ho, hb⟩)
    · exact Or.inl hm
    · exact Or.inr ⟨ino, hi, honly ino hi hk, o, ho, hb⟩
  · rintro (hm | ⟨ino, hi, hr, o, ho, hb⟩)
    · exact Or.inl hm
    · right
      have wf := fsck_sound img h
      have rc := quiescent_sound img h hq
      have hk : ino.kind ≠ 0 := by
        intro hk
        rw [rc.nothing_half_freed ino hi hk] at ho
        cases ho
      exact ⟨ino, hi, hk, wf.tree ino hi hk, o, ho, hb⟩

/-- No space is lost by a crash in the middle of freeing: in ANY accepted image (quiescent or
    not) a marked block of the data region has an owner, so it is released when that owner
    finishes shrinking (when its number is next reused or touched). -/
theorem no_block_lost (img : Image) (h : fsckOk img = true) (b : Nat)
    (hb : marked img b = true) (hd : metaBlock img.sz b = false) :
    ∃ ino ∈ img.inodes, ∃ o ∈ owned img ino, o.blk = b := by
  have wf := fsck_sound img h
  rcases (wf.marked_iff b).1 hb with hm | ho
  · rw [hd] at hm; cases hm
  · exact (mem_allOwned img b).1 ho

/-! ### the block map (model M7, tied to the code by the `blockmap` correspondence) -/

open GoNfsd.Model.BlockMap in
/-- Truncation releases an index block exactly when the shrink run VISITS the first index it
    serves.  After `Shrink` has run from `N` blocks down to `T`:
    the indirect root is gone iff `T ≤ 8 < N`, the double-indirect root iff `T ≤ 520 < N`, direct
    pointer `i` iff `T ≤ i < N`; everything else is untouched. -/
theorem truncation_releases_visited (s : S) (blks : List Nat) (T N : Nat) (hl : blks.length = NDIRECT + 2) :
    (∀ i, i < NDIRECT → (shrinkTo s blks T N).2.getD i 0 = if T ≤ i ∧ i < N then 0 else blks.getD i 0) ∧
    ((shrinkTo s blks T N).2.getD INDIRECT 0 = if T ≤ NDIRECT ∧ NDIRECT < N then 0 else blks.getD INDIRECT 0) ∧
    ((shrinkTo s blks T N).2.getD DINDIRECT 0 =
      if T ≤ NDIRECT + NBLKBLK ∧ NDIRECT + NBLKBLK < N then 0 else blks.getD DINDIRECT 0) :=
  (shrinkTo_blks s blks T N hl).2

open GoNfsd.Model.BlockMap in
/-- Why `WF.blocks_within_size` is needed for reclamation: an index block that lies at or beyond
    the range the inode accounts for (`N ≤` its first index) survives EVERY truncation — even to
    zero — and with it whatever hangs below it.  (This is the shape of the two defects repaired in
    fe9df90 and 6452525: index blocks allocated for a block whose data block could not be had.) -/
theorem index_block_beyond_range_is_never_released (s : S) (blks : List Nat) (T N : Nat)
    (hl : blks.length = NDIRECT + 2) (hN : N ≤ NDIRECT + NBLKBLK) :
    (shrinkTo s blks T N).2.getD DINDIRECT 0 = blks.getD DINDIRECT 0 := by
  rw [(shrinkTo_blks s blks T N hl).2.2.2]
  have : ¬ (T ≤ NDIRECT + NBLKBLK ∧ NDIRECT + NBLKBLK < N) := by omega
  simp [this]

open GoNfsd.Model.BlockMap in
/-- A short write (some blocks written, then a block that cannot be mapped) leaves `ShrinkSize`
    above the block that failed, so that the index blocks `bmap` may have allocated for it lie
    inside the range a later truncation or removal visits. -/
theorem short_write_covers_failed_block (s : S) (ino : Ino) (bn n cnt : Nat) :
    let r := writeBlocks s ino bn n cnt
    r.2.2 < cnt + n → 0 < r.2.2 → bn + r.2.2 + 1 ≤ r.2.1.shrink := by
  induction n generalizing s ino cnt with
  | zero => intro r h; simp [r, writeBlocks] at h
  | succ m ih =>
    intro r hlt hpos
    simp only [r, writeBlocks] at hlt hpos ⊢
    generalize hb : bmap s ino.blks (bn + cnt) = res at hlt hpos ⊢
    obtain ⟨s', blks', blkno, al⟩ := res
    simp only at hlt hpos ⊢
    by_cases h0 : blkno = 0
    · simp only [h0, if_true] at hlt hpos ⊢
      split
      · omega
      · rename_i hn
        omega
    · simp only [h0, if_false] at hlt hpos ⊢
      exact ih s' { ino with blks := blks' } (cnt + 1) (by omega) hpos

/-! ### truncation on the tree view of M7: what is unmapped is exactly what is freed -/

open GoNfsd.Model.BlockMap in
/-- THE RUN OF `Shrink` FREES EXACTLY WHAT IT UNMAPS.  On a file whose pointer map is injective
    and which maps nothing from block `N` on, shrinking from `N` down to `T` blocks
      * clears exactly the positions (data blocks and index blocks) whose range starts at or
        beyond `T` and leaves every other position its block,
      * passes to `FreeBlock` exactly the blocks those positions pointed to — none twice, none
        that is still mapped, none forgotten —,
      * keeps the map injective and draws nothing from the allocator. -/
theorem truncation_frees_exactly_what_it_unmaps (s : S) (blks : List Nat) (T N : Nat)
    (hl : blks.length = NDIRECT + 2) (hinj : InjB s.st blks) (hN : N ≤ MAXBLKS)
    (hemp : EmptyFrom s.st blks N) :
    InjB (shrinkTo s blks T N).1.st (shrinkTo s blks T N).2 ∧
    (∀ q, q.valid → ptr (shrinkTo s blks T N).1.st (shrinkTo s blks T N).2 q =
      if T ≤ firstBn q then 0 else ptr s.st blks q) ∧
    (∀ b, b ∈ (shrinkTo s blks T N).1.freed ↔
      b ∈ s.freed ∨ (b ≠ 0 ∧ ∃ q, q.valid ∧ T ≤ firstBn q ∧ ptr s.st blks q = b)) ∧
    (shrinkTo s blks T N).1.allocs = s.allocs :=
  (shrinkTo_ok T N s blks hl hinj hN hemp).2

open GoNfsd.Model.BlockMap in
theorem firstBn_posOf (bn : Nat) : firstBn (posOf bn) = bn := by
  unfold posOf
  by_cases h1 : bn < NDIRECT
  · simp only [h1, if_true, firstBn]
  · by_cases h2 : bn - NDIRECT < NBLKBLK
    · simp only [h1, h2, if_true, if_false, firstBn]; omega
    · simp only [h1, h2, if_false, firstBn]
      have := Nat.div_add_mod (bn - NDIRECT - NBLKBLK) NBLKBLK
      omega

open GoNfsd.Model.BlockMap in
/-- the file blocks below the new size keep their disk blocks; those at or beyond it are holes -/
theorem truncation_keeps_the_blocks_below (s : S) (blks : List Nat) (T N bn : Nat)
    (hl : blks.length = NDIRECT + 2) (hinj : InjB s.st blks) (hN : N ≤ MAXBLKS)
    (hemp : EmptyFrom s.st blks N) (hbn : bn < MAXBLKS) :
    lookup (shrinkTo s blks T N).1.st (shrinkTo s blks T N).2 bn =
      if T ≤ bn then 0 else lookup s.st blks bn := by
  rw [lookup_eq_ptr, lookup_eq_ptr]
  have := (shrinkTo_ok T N s blks hl hinj hN hemp).2.2.1 (posOf bn) (posOf_valid bn (by rw [MAXBLKS_eq] at hbn; exact hbn)).1
  rw [firstBn_posOf] at this
  exact this

open GoNfsd.Model.BlockMap in
/-- WRITE ANYTHING, THEN DELETE: from the empty file, after any sequence of block mappings (any
    allocator that hands out no block twice, running dry at any point) followed by the run of
    `Shrink` down to 0, the file points to nothing and EVERY block it had acquired — data, indirect,
    double-indirect root and middle blocks — has been passed to `FreeBlock`: no block is lost. -/
theorem write_anything_then_delete_frees_everything (allocs bns : List Nat) (hd : DistinctNZ allocs)
    (hb : ∀ bn ∈ bns, bn < NDIRECT + NBLKBLK + NBLKBLK * NBLKBLK) :
    let f := bmapAll { st := emptyStore, allocs := allocs } (List.replicate (NDIRECT + 2) 0) bns
    (∀ q, q.valid → ptr (shrinkTo f.1 f.2 0 MAXBLKS).1.st (shrinkTo f.1 f.2 0 MAXBLKS).2 q = 0) ∧
    (∀ b, b ≠ 0 → (∃ q, q.valid ∧ ptr f.1.st f.2 q = b) → b ∈ (shrinkTo f.1 f.2 0 MAXBLKS).1.freed) ∧
    (∀ b, b ∈ (shrinkTo f.1 f.2 0 MAXBLKS).1.freed → ∃ q, q.valid ∧ ptr f.1.st f.2 q = b) := by
  -- (no `let` for the result of the run: the kernel would evaluate `shrinkTo … MAXBLKS`, a
  -- quarter of a million steps, to put the let-bound value into weak head normal form)
  intro f
  have hW := bmapAll_wf { st := emptyStore, allocs := allocs } (List.replicate (NDIRECT + 2) 0) bns (WFB_empty allocs hd) hb
  have hemp : EmptyFrom f.1.st f.2 MAXBLKS := by
    intro q hq hle
    exfalso
    rw [MAXBLKS_eq] at hle
    cases q <;> simp only [firstBn, Pos.valid, NDIRECT, NBLKBLK] at * <;> omega
  obtain ⟨_, _, hp, hf, _⟩ := shrinkTo_ok 0 MAXBLKS f.1 f.2 hW.len hW.inj (Nat.le_refl _) hemp
  have hfreed0 : f.1.freed = [] := by
    -- nothing is freed by mapping
    have : ∀ (s : S) (blks : List Nat) (l : List Nat), s.freed = [] → (bmapAll s blks l).1.freed = [] := by
      intro s blks l
      induction l generalizing s blks with
      | nil => intro h; exact h
      | cons bn rest ih =>
        intro h
        simp only [bmapAll]
        apply ih
        -- bmap never touches `freed`
        have hfr : ∀ (s : S) (root lvl off : Nat), (indbmap s root lvl off).1.freed = s.freed := by
          intro s root lvl
          induction lvl generalizing s root with
          | zero =>
            intro off
            rw [indbmap0]
            split
            · unfold S.alloc; split <;> rfl
            · rfl
          | succ l ihl =>
            intro off
            unfold indbmap
            by_cases hr : root = 0
            · simp only [hr, if_true]
              cases ha : s.alloc with
              | mk a s1 =>
                have hs1 : s1.freed = s.freed := by
                  unfold S.alloc at ha
                  split at ha <;> (cases ha; rfl)
                simp only
                by_cases ha0 : a = 0
                · simp [ha0, hs1]
                · simp only [ha0, if_false]
                  have := ihl s1 (s1.st a (off / pow l)) (off % pow l)
                  split <;> simp_all
            · simp only [hr, if_false]
              have := ihl s (s.st root (off / pow l)) (off % pow l)
              split <;> simp_all
        unfold bmap
        by_cases h1 : bn < NDIRECT
        · simp only [h1, if_true]
          split
          · unfold S.alloc; split <;> simp_all
          · exact h
        · simp only [h1, if_false]
          split
          · rw [hfr]; exact h
          · rw [hfr]; exact h
    exact this _ _ _ rfl
  refine ⟨?_, ?_, ?_⟩
  · intro q hq
    rw [hp q hq]; simp
  · intro b hb0 ⟨q, hq, hpq⟩
    exact (hf b).2 (Or.inr ⟨hb0, q, hq, Nat.zero_le _, hpq⟩)
  · intro b hbm
    rcases (hf b).1 hbm with h | ⟨_, q, hq, _, hpq⟩
    · rw [hfreed0] at h; cases h
    · exact ⟨q, hq, hpq⟩

/-! ### the bookkeeping invariant: nothing is mapped beyond what size and ShrinkSize account for -/

open GoNfsd.Model.BlockMap in
/-- NO BLOCK BEYOND THE BOOKKEEPING, EVER.  From the empty file, after ANY sequence of WRITEs
    (complete, short — the allocator may run dry at any block, in the middle of an index-block
    chain — or failing), hole-filling READs, SETATTRs of the size (growing, shrinking, to unaligned
    sizes) and finishings of a pending shrink, with any allocator that hands out no block twice:
      * the pointer tree is well-formed (no block with two owners, the allocator's blocks unused),
      * and NOTHING is mapped from block max(ShrinkSize, ⌈size/4096⌉) on —
    which is exactly the hypothesis under which `truncation_frees_exactly_what_it_unmaps`
    guarantees that a later truncation or removal frees every block.  (This is the invariant
    that the defects fixed in 9627749 and fe9df90 broke; the transliterated model contains both
    repairs, and the `blockmap` correspondence ties it to the code.) -/
theorem nothing_mapped_beyond_the_bookkeeping (allocs : List Nat) (hd : DistinctNZ allocs)
    (ops : List IOp) (hops : ∀ op ∈ ops, op.ok) :
    InoOK (inoRun ({ st := emptyStore, allocs := allocs }, emptyIno) ops).1
      (inoRun ({ st := emptyStore, allocs := allocs }, emptyIno) ops).2 :=
  inoRun_ok _ ops (InoOK_empty allocs hd) hops

open GoNfsd.Model.BlockMap in
/-- … and therefore: after any such history, removing the file (the run of `Shrink` from its
    bookkeeping bound down to 0) leaves the file pointing to nothing and has freed every block it
    owned. -/
theorem any_history_then_delete_frees_everything (allocs : List Nat) (hd : DistinctNZ allocs)
    (ops : List IOp) (hops : ∀ op ∈ ops, op.ok) :
    let f := inoRun ({ st := emptyStore, allocs := allocs }, emptyIno) ops
    let r := shrinkTo f.1 f.2.blks 0 (bound f.2)
    (∀ q, q.valid → ptr r.1.st r.2 q = 0) ∧
    (∀ b, b ≠ 0 → (∃ q, q.valid ∧ ptr f.1.st f.2.blks q = b) → b ∈ r.1.freed) := by
  intro f r
  have hok := nothing_mapped_beyond_the_bookkeeping allocs hd ops hops
  obtain ⟨_, _, hp, hf, _⟩ := shrinkTo_ok 0 (bound f.2) f.1 f.2.blks hok.wf.len hok.wf.inj hok.le hok.empty
  refine ⟨fun q hq => by rw [hp q hq]; simp, ?_⟩
  intro b hb0 ⟨q, hq, hpq⟩
  exact (hf b).2 (Or.inr ⟨hb0, q, hq, Nat.zero_le _, hpq⟩)

open GoNfsd.Model.BlockMap in
/-- Non-vacuity: a history with writes into the direct and indirect range, a hole-filling read,
    an unaligned truncation that frees five blocks, a write cut short by the allocator and a
    regrowth meets the hypotheses and ends with blocks mapped. -/
example :
    let ops : List IOp := [.write 0 3, .write 8 3, .read 1, .resize 5000, .write 9 2, .finish, .resize 50000]
    let f := inoRun ({ st := emptyStore, allocs := [100, 101, 102, 103, 104, 105, 106, 107, 108, 0, 109, 110] }, emptyIno) ops
    (f.2.size, f.2.shrink, f.2.blks, f.1.allocs, f.1.freed) =
      (50000, 13, [100, 101, 0, 0, 0, 0, 0, 0, 107, 0], [109, 110], [102, 103, 104, 105, 106]) := by
  decide +kernel

open GoNfsd.Model.BlockMap in
/-- A REQUEST THAT CANNOT FINISH FREEING SAYS SO, AND LEAVES THE BOOKS RIGHT.  `Resize` inside one
    transaction, with an estimate `fits` that may be wrong in either direction and room for only
    `budget` rounds of `Shrink`: the flag it returns tells the caller to start the background
    shrinker exactly when blocks are left to free, and the file it leaves satisfies the
    bookkeeping invariant (nothing mapped beyond its new ShrinkSize) — so whoever finishes the
    shrink later (`finishShrink_ok`) frees everything.  This is the statement the code violated
    before fix b79792e (the flag was `false` whenever the estimate held). -/
theorem unfinished_shrink_is_reported_and_consistent (s : S) (ino : Ino) (sz : Nat) (fits : Bool)
    (budget : Nat) (h : InoOK s ino) (hsz : roundUp sz ≤ MAXBLKS) :
    ((opResizeB s ino sz fits budget).2.2 = true ↔
      (opResizeB s ino sz fits budget).2.1.shrink > roundUp (opResizeB s ino sz fits budget).2.1.size) ∧
    InoOK (opResizeB s ino sz fits budget).1 (opResizeB s ino sz fits budget).2.1 :=
  ⟨resize_flag_is_exact s ino sz fits budget, opResizeB_ok s ino sz fits budget h hsz⟩

/-! ### the allocator itself (model M2, tied to go-journal's `alloc.Alloc` by the `alloc` correspondence) -/

open GoNfsd.Model.Alloc in
/-- A number handed out was free, is in range, and its bit is the only thing that changes; a
    failed allocation changes no bit.  (Number 0 is reserved: its bit is set at format time.) -/
theorem allocator_hands_out_only_free_numbers (a : Alloc) (h0 : a.bits.getD 0 true = true) (hpos : 0 < a.size) :
    ((a.allocNum).2 ≠ 0 →
      a.bits.getD (a.allocNum).2 true = false ∧ (a.allocNum).2 < a.size ∧
      (a.allocNum).1.bits = a.bits.set (a.allocNum).2 true) ∧
    ((a.allocNum).2 = 0 → (a.allocNum).1.bits = a.bits) :=
  Alloc.allocNum_sound a h0 hpos

open GoNfsd.Model.Alloc in
/-- The free count is exact: an allocation takes exactly one, a failed one none, a free of a
    number in use gives exactly one back. -/
theorem allocator_free_count_is_exact (a : Alloc) (h0 : a.bits.getD 0 true = true) (hpos : 0 < a.size) :
    (a.allocNum).1.numFree + (if (a.allocNum).2 = 0 then 0 else 1) = a.numFree ∧
    ∀ a' n, a.freeNum n = some a' → a.bits.getD n true = true → a'.numFree = a.numFree + 1 :=
  ⟨Alloc.allocNum_numFree a h0 hpos, fun a' n h hb => Alloc.freeNum_numFree a a' n h hb⟩

open GoNfsd.Model.Alloc in
/-- "No space" is reported only when nothing is free — a freed number is never stranded behind
    the roving pointer: the scan visits every position before giving up. -/
theorem allocator_reports_full_only_when_full (a : Alloc) (h0 : a.bits.getD 0 true = true)
    (hpos : 0 < a.size) (hn : a.next < a.size) (hz : (a.allocNum).2 = 0) : a.numFree = 0 :=
  Alloc.allocNum_none_means_full a h0 hpos hn hz

open GoNfsd.Model.Alloc GoNfsd.Model.BlockMap in
/-- THE ALLOCATOR MEETS THE HYPOTHESIS OF THE BLOCK-MAP THEOREMS: the numbers it hands out in a row
    were all free when the row began and are pairwise distinct — the stream `bmap_ok` and
    `nothing_mapped_beyond_the_bookkeeping` assume. -/
theorem allocator_stream_is_fresh_and_distinct (a : Alloc) (k : Nat) (h0 : a.bits.getD 0 true = true)
    (hpos : 0 < a.size) :
    (∀ n ∈ (a.allocMany k).2, n ≠ 0 ∧ n < a.size ∧ a.bits.getD n true = false) ∧
    DistinctNZ (a.allocMany k).2 := by
  obtain ⟨h1, h2, _⟩ := Alloc.allocMany_fresh k a h0 hpos
  refine ⟨h1, ?_⟩
  unfold DistinctNZ
  exact List.Pairwise.imp (fun hne => Or.inr (Or.inr hne)) h2

/-! ### at the level of shared disk blocks (model M7d `G`: any number of files on one disk) -/

/-- Dropping the content of ONE file among many (SETATTR to 0, the removal of the last link; a
    directory is a file of slots, `Props/C04.directory_blocks_refine_the_slot_list`) gives back
    EVERY block it had: afterwards the file maps nothing, each of its former blocks belongs to
    nobody, holds zeros, and the invariant — one owner per block across all files, unowned blocks
    zero — holds again, so the allocator may hand the blocks to anybody. -/
theorem removal_gives_back_every_block (g : GoNfsd.Model.FileData.G) (a : Nat) (h : GoNfsd.Model.FileData.GInv g) :
    GoNfsd.Model.FileData.GInv (g.resize a 0) ∧
    (∀ i, (g.resize a 0).maps a i = 0) ∧
    ∀ i, g.maps a i ≠ 0 →
      (∀ b j, (g.resize a 0).maps b j ≠ g.maps a i) ∧ ∀ o, (g.resize a 0).data (g.maps a i) o = 0 :=
  ⟨(GoNfsd.Model.FileData.gresize_ok g a 0 h).1, GoNfsd.Model.FileData.gresize_zero_frees_everything g a h⟩

/-! ### who finishes a truncation left to the background (model M15) -/

section handoff
open GoNfsd.Model.ShrinkHandoff

/-- ONCE BACKGROUND FREEING HAS FINISHED NOTHING IS LEFT PENDING: whatever the order in which requests leave
    truncations to the background (of the same inode again and again, while a thread for it is in any phase), threads
    run their transactions, other requests help, and threads exit — when no shrinker thread is left, no inode has
    blocks still to be freed.  (A removed file is unreachable: blocks left pending on it would stay allocated until its
    number is reused.)  Holds because `StartShrinker` starts a thread on every call. -/
theorem quiescent_means_nothing_is_left_to_free (evs : List Ev)
    (hq : (run always {} evs).threads = []) : (run always {} evs).pending = [] := by
  have h := run_inv {} evs init_inv
  cases hp : (run always {} evs).pending with
  | nil => rfl
  | cons i rest =>
    obtain ⟨t, ht, _⟩ := h i (by rw [hp]; simp)
    rw [hq] at ht; cases ht

/-- the stronger statement it follows from: at every moment every pending inode has a thread that will look at it again -/
theorem every_pending_truncation_has_a_thread_that_will_look (evs : List Ev) (i : Nat)
    (hi : i ∈ (run always {} evs).pending) :
    ∃ t ∈ (run always {} evs).threads, t.inum = i ∧ t.looping = true :=
  run_inv {} evs init_inv i hi

/-- … and it is FALSE for a `StartShrinker` that starts no second thread for an inode that has one (seeded change
    C05m): the thread has had its last look, the file is removed (pending again), no thread is started, the thread
    exits — quiescent with inode 5 still holding its blocks. -/
theorem deduplicating_the_threads_loses_a_truncation :
    let s := run dedupe {} [.request 5, .round 0 false, .request 5, .exit 0]
    s.threads = [] ∧ s.pending = [5] := by decide

/-- what the code does (tables regenerated from shrinker/*.go and nfs/*.go on every run): `StartShrinker` reaches its
    `go` statement on every path; the thread starts with `DoShrink`, whose loop runs `Shrink` and `Commit` and is left
    early only after a refused commit or a crash; and every `Resize` in package nfs hands its "more to free" result to
    `StartShrinker`. -/
theorem start_shrinker_always_starts_a_thread :
    (∀ f ∈ GoNfsd.Gen.Skeleton.shrinkerSpawn, f.1 = "StartShrinker" → GoNfsd.Model.Skeleton.spawnsOnEveryPath f.2 = true) ∧
    (∀ f ∈ GoNfsd.Gen.Skeleton.shrinkerSpawn, f.1 = "shrinker" → GoNfsd.Model.Skeleton.threadRunsDoShrink f.2 = true) ∧
    (∀ f ∈ GoNfsd.Gen.Skeleton.shrinkerSpawn, f.1 = "DoShrink" → GoNfsd.Model.Skeleton.doShrinkLoops f.2 = true) ∧
    (∀ u ∈ GoNfsd.Gen.Skeleton.resizeUses, u.2 = "starts-shrinker") := by decide

/-- the tables do contain the three functions and both callers -/
theorem handoff_tables_nonempty :
    (GoNfsd.Gen.Skeleton.shrinkerSpawn.map (·.1)).contains "StartShrinker" = true ∧
    (GoNfsd.Gen.Skeleton.shrinkerSpawn.map (·.1)).contains "shrinker" = true ∧
    (GoNfsd.Gen.Skeleton.shrinkerSpawn.map (·.1)).contains "DoShrink" = true ∧
    2 ≤ GoNfsd.Gen.Skeleton.resizeUses.length := by decide

/-- the checker rejects the deduplicating `StartShrinker` of C05m as the translator renders it -/
example : GoNfsd.Model.Skeleton.spawnsOnEveryPath
    ["call:DPrintf", "call:Lock", "if", "call:Unlock", "return", "fi", "set", "set", "call:Unlock", "go"] = false := by decide

/-- non-vacuity: a history that ends quiescent with two truncations of one inode finished -/
example : (run always {} [.request 5, .round 0 true, .round 0 false, .request 5, .exit 0, .round 0 false, .exit 0]).threads = [] := by decide

end handoff

/-! ### deleting everything, on the reference model M6 -/

/-- the root holds no name: every slot beyond "." and ".." is free -/
def RootEmpty (s : GoNfsd.Model.Fs.FS) : Prop := ∀ idx sl, 2 ≤ idx → (s.get GoNfsd.Gen.Consts.ROOTINUM).slots[idx]? = some sl → sl.inum = 0

theorem reach_root_only (s : GoNfsd.Model.Fs.FS) (he : RootEmpty s) : ∀ x, GoNfsd.Model.Fs.Reach s x → x = GoNfsd.Gen.Consts.ROOTINUM := by
  intro x hr
  induction hr with
  | root => rfl
  | step d idx ino _ href ih =>
    subst ih
    obtain ⟨sl, hg, hi, hne, h2⟩ := href
    have := he idx sl h2 hg
    rw [hi] at this; exact absurd this hne

/-- DELETING EVERYTHING FREES EVERY INODE (reference model, histories in which no RENAME moves a directory to another
    directory — the known finding): in every reachable state in which the root directory holds no name, no inode but the
    root's is in use.  (Every object in use is reachable from the root by names, `tree_clauses_partial`; with no name in the
    root there is nothing to reach.) -/
theorem deleting_everything_frees_every_inode_partial (u : Bool) (sz : Nat) (ops : List (GoNfsd.Model.Fs.Op × GoNfsd.Model.Fs.Choice))
    (hn : GoNfsd.Model.Fs.NoDirMoves (GoNfsd.Model.Fs.mkfs u sz) ops) (he : RootEmpty (GoNfsd.Model.Fs.run (GoNfsd.Model.Fs.mkfs u sz) ops).1) (x : Nat) (hx : x ≠ GoNfsd.Gen.Consts.ROOTINUM) :
    ((GoNfsd.Model.Fs.run (GoNfsd.Model.Fs.mkfs u sz) ops).1.get x).kind = 0 := by
  have hw := GoNfsd.Model.Fs.run_WFT _ ops (GoNfsd.Model.Fs.WFT_mkfs u sz) hn
  cases hk : ((GoNfsd.Model.Fs.run (GoNfsd.Model.Fs.mkfs u sz) ops).1.get x).kind with
  | zero => rfl
  | succ n =>
    have := reach_root_only _ he x (hw.tree x (by rw [hk]; exact Nat.succ_ne_zero n))
    exact absurd this hx

/-- non-vacuity: CREATE then REMOVE of a name in the root is a history without directory moves after which the root holds no name -/
example :
    GoNfsd.Model.Fs.NoDirMoves (GoNfsd.Model.Fs.mkfs true 100000)
      [(.create (GoNfsd.Model.Fs.mkFh 1 1) [97] 0, { inum := 2, slot := 2 }), (.remove (GoNfsd.Model.Fs.mkFh 1 1) [97], {})] ∧
    ((GoNfsd.Model.Fs.run (GoNfsd.Model.Fs.mkfs true 100000)
      [(.create (GoNfsd.Model.Fs.mkFh 1 1) [97] 0, { inum := 2, slot := 2 }), (.remove (GoNfsd.Model.Fs.mkFh 1 1) [97], {})]).1.get 1).slots.drop 2
      = [GoNfsd.Model.Fs.freeSlot] := by decide

/-- A FREED OBJECT HOLDS NOTHING (reference model, every history, any choices): an inode that is not in use has size 0, no
    content and no directory slots — whatever REMOVE, RMDIR or a RENAME over it took away is gone completely, and the next
    object created under that number starts empty. -/
theorem a_freed_object_holds_nothing (u : Bool) (sz : Nat) (ops : List (GoNfsd.Model.Fs.Op × GoNfsd.Model.Fs.Choice)) (i : Nat)
    (hk : ((GoNfsd.Model.Fs.run (GoNfsd.Model.Fs.mkfs u sz) ops).1.get i).kind = 0) :
    ((GoNfsd.Model.Fs.run (GoNfsd.Model.Fs.mkfs u sz) ops).1.get i).size = 0 ∧
    ((GoNfsd.Model.Fs.run (GoNfsd.Model.Fs.mkfs u sz) ops).1.get i).content = [] ∧
    ((GoNfsd.Model.Fs.run (GoNfsd.Model.Fs.mkfs u sz) ops).1.get i).slots = [] :=
  GoNfsd.Model.Fs.run_freeempty _ ops (GoNfsd.Model.Fs.mkfs_freeempty u sz) i hk

end GoNfsd.Props.C05

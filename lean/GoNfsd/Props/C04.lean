/-
C04 — the on-disk structure is always a well-formed file system.

Proof part: the structure checker `fsckOk` (Model/Fsck.lean), which the check runs on the
logical disk of the REAL server at every quiescent point of generated histories and on every
crash image after recovery, is SOUND with respect to the declarative statement `WF` below:
if it accepts an image, then every clause of the property holds of that image.  The theorem is
what makes an accepting run evidence for the property rather than for the checker.
That `WF` holds after EVERY history and crash is decided by running the checker on the images
of sampled histories (labelled PARTIAL): the block-level operations are not modelled.
-/
import GoNfsd.Lemmas.MultiShrink
import GoNfsd.Lemmas.FsckBridge
import GoNfsd.Lemmas.MultiRegion
import GoNfsd.Lemmas.MultiTree
import GoNfsd.Gen.Skeleton
import GoNfsd.Lemmas.InodeTable
import GoNfsd.Props.C10
import GoNfsd.Lemmas.DirData
import GoNfsd.Model.Fsck
import GoNfsd.Lemmas.FsckMeta
import GoNfsd.Lemmas.Names
import GoNfsd.Lemmas.Refs
import GoNfsd.Lemmas.Named
import GoNfsd.Lemmas.Tree
import GoNfsd.Lemmas.BlockTree

namespace GoNfsd.Props.C04
open GoNfsd.Model.Fsck GoNfsd.Gen.Consts GoNfsd.Gen.Super

/-- reachable from the root by names (in lenient mode also from a directory moved by RENAME,
    the known finding; `img.moved = []` in strict mode) -/
inductive Reachable (img : Image) : Nat → Prop where
  | root : Reachable img ROOTINUM
  | moved (m : Nat) : m ∈ img.moved → Reachable img m
  | child (p c : Nat) : Reachable img p → (p, c) ∈ refs img → Reachable img c

/-- "." is slot 0 and names the directory itself; ".." is slot 1 and names the parent -/
def DotsRight (img : Image) (d p : Nat) : Prop :=
  (∃ e ∈ entsOf img d, e.slot = 0 ∧ e.name = dot ∧ e.inum = d) ∧
  (∃ e ∈ entsOf img d, e.slot = 1 ∧ e.name = dotdot ∧ (e.inum = p ∨ d ∈ img.moved))

/-- the well-formedness statement of C04 (and, in `quiescent`, of C05) -/
structure WF (img : Image) : Prop where
  inums_distinct : (img.inodes.map (·.inum)).Nodup
  inums_in_table : ∀ ino ∈ img.inodes, ino.inum < nInode img
  /-- all pointers lie in the data region -/
  ptr_in_data : ∀ b ∈ allOwned img, dataStart img ≤ b ∧ b < img.sz
  /-- no block belongs to two owners (nor twice to one) -/
  one_owner : (allOwned img).Nodup
  /-- a block is marked in use exactly if it is metadata or owned -/
  marked_iff : ∀ b, marked img b = true ↔ (metaBlock img.sz b = true ∨ b ∈ allOwned img)
  /-- an inode is marked in use exactly if it is in use (number 0 is reserved) -/
  imarked_iff : ∀ i, imarked img i = true ↔ (i = 0 ∨ ∃ ino ∈ img.inodes, ino.inum = i ∧ ino.kind ≠ 0)
  /-- sizes agree with the blocks present -/
  blocks_within_size : ∀ ino ∈ img.inodes, ∀ o ∈ owned img ino, o.minIdx < bound ino
  dir_size : ∀ ino ∈ img.inodes, ino.kind = NF3DIR →
    ino.size % DIRENTSZ = 0 ∧ ∀ e ∈ entsOf img ino.inum, (e.slot + 1) * DIRENTSZ ≤ ino.size
  /-- names are unique and well-formed -/
  names_unique : ∀ d ∈ dirInodes img, ((entsOf img d.inum).map (·.name)).Nodup
  names_wellformed : ∀ d ∈ dirInodes img, ∀ e ∈ entsOf img d.inum,
    e.name.length ≤ MAXNAMELEN ∧ (2 ≤ e.slot → e.name ≠ dot ∧ e.name ≠ dotdot)
  /-- every live object other than the root has exactly one name; every name denotes a live object -/
  one_name : ((refs img).map (·.2)).Nodup ∧
    ∀ i, i ∈ (refs img).map (·.2) ↔ ∃ ino ∈ img.inodes, ino.inum = i ∧ ino.kind ≠ 0 ∧ i ≠ ROOTINUM
  root_is_dir : ∃ ino ∈ img.inodes, ino.inum = ROOTINUM ∧ ino.kind = NF3DIR
  /-- "." and ".." are right -/
  dots : DotsRight img ROOTINUM ROOTINUM ∧
    ∀ r ∈ refs img, (∃ d ∈ img.inodes, d.inum = r.2 ∧ d.kind = NF3DIR) → DotsRight img r.2 r.1
  /-- the directories form a tree rooted at the root: every live object is reachable -/
  tree : ∀ ino ∈ img.inodes, ino.kind ≠ 0 → Reachable img ino.inum

/-! ### soundness of the individual checks -/

theorem contains_iff (l : List Nat) (a : Nat) : l.contains a = true ↔ a ∈ l := by
  simp

theorem inRuns_iff (rs : List (Nat × Nat)) (b : Nat) :
    inRuns rs b = true ↔ ∃ r ∈ rs, r.1 ≤ b ∧ b < r.2 := by
  simp [inRuns]

theorem mem_clipExpand (rs : List (Nat × Nat)) (lo hi b : Nat) :
    b ∈ clipExpand rs lo hi ↔ ∃ r ∈ rs, r.1 ≤ b ∧ b < r.2 ∧ lo ≤ b ∧ b < hi := by
  simp only [clipExpand, List.mem_flatMap, List.mem_range'_1]
  constructor
  · rintro ⟨r, hr, h1, h2⟩
    exact ⟨r, hr, by omega, by omega, by omega, by omega⟩
  · rintro ⟨r, hr, h1, h2, h3, h4⟩
    exact ⟨r, hr, by omega, by omega⟩

theorem covers_spec (rs : List (Nat × Nat)) (lo hi b : Nat) (h : covers rs lo hi = true)
    (h1 : lo ≤ b) (h2 : b < hi) : inRuns rs b = true := by
  simp only [covers, Bool.or_eq_true, decide_eq_true_eq, List.any_eq_true, Bool.and_eq_true] at h
  rcases h with h | ⟨r, hr, h3, h4⟩
  · omega
  · exact (inRuns_iff rs b).2 ⟨r, hr, by omega, by omega⟩

theorem bitmap_sound (img : Image) (h : chkBitmap img = true) :
    ∀ b, marked img b = true ↔ (metaBlock img.sz b = true ∨ b ∈ allOwned img) := by
  simp only [chkBitmap, Bool.and_eq_true, List.all_eq_true, decide_eq_true_eq, contains_iff] at h
  obtain ⟨⟨⟨⟨h1, h2⟩, h3⟩, h4⟩, h5⟩ := h
  intro b
  simp only [metaBlock, Bool.or_eq_true, Bool.and_eq_true, decide_eq_true_eq]
  constructor
  · intro hm
    obtain ⟨r, hr, ha, hb⟩ := (inRuns_iff _ _).1 hm
    have hp := h1 r hr
    by_cases hd : b < (MkFsSuper img.sz).DataStart
    · exact Or.inl (Or.inl hd)
    · by_cases hs : img.sz ≤ b
      · exact Or.inl (Or.inr ⟨hs, by omega⟩)
      · right
        apply h4
        rw [mem_clipExpand]
        exact ⟨r, hr, ha, hb, by unfold dataStart; omega, by omega⟩
  · rintro ((hd | ⟨hs, hp⟩) | ho)
    · exact covers_spec _ _ _ _ h2 (Nat.zero_le _) hd
    · exact covers_spec _ _ _ _ h3 hs hp
    · exact h5 b ho

theorem ibitmap_sound (img : Image) (h : chkIBitmap img = true) :
    ∀ i, imarked img i = true ↔ (i = 0 ∨ ∃ ino ∈ img.inodes, ino.inum = i ∧ ino.kind ≠ 0) := by
  simp only [chkIBitmap, live, Bool.and_eq_true, List.all_eq_true, Bool.or_eq_true, List.any_eq_true,
    List.mem_filter, beq_iff_eq, bne_iff_ne, ne_eq, decide_eq_true_eq] at h
  obtain ⟨⟨⟨h0, h1⟩, h2⟩, h3⟩ := h
  intro i
  constructor
  · intro hi
    obtain ⟨r, hr, ha, hb⟩ := (inRuns_iff _ _).1 hi
    have hp := h0 r hr
    have : i ∈ clipExpand img.iruns 0 (nInode img) := by
      rw [mem_clipExpand]; exact ⟨r, hr, ha, hb, Nat.zero_le _, by omega⟩
    rcases h1 i this with h0 | ⟨ino, ⟨hm, hk⟩, he⟩
    · exact Or.inl h0
    · exact Or.inr ⟨ino, hm, he, hk⟩
  · rintro (h0 | ⟨ino, hm, he, hk⟩)
    · subst h0; exact h3
    · subst he; exact h2 ino ⟨hm, hk⟩

theorem sizes_sound (img : Image) (h : chkSizes img = true) :
    (∀ ino ∈ img.inodes, ∀ o ∈ owned img ino, o.minIdx < bound ino) ∧
    (∀ ino ∈ img.inodes, ino.kind = NF3DIR →
      ino.size % DIRENTSZ = 0 ∧ ∀ e ∈ entsOf img ino.inum, (e.slot + 1) * DIRENTSZ ≤ ino.size) := by
  simp only [chkSizes, Bool.and_eq_true, List.all_eq_true, Bool.or_eq_true, decide_eq_true_eq, bne_iff_ne, ne_eq] at h
  constructor
  · intro ino hm o ho
    exact (h ino hm).1 o ho
  · intro ino hm hk
    rcases (h ino hm).2 with h1 | h1
    · exact absurd hk h1
    · exact h1

theorem names_sound (img : Image) (h : chkNames img = true) :
    (∀ d ∈ dirInodes img, ((entsOf img d.inum).map (·.name)).Nodup) ∧
    (∀ d ∈ dirInodes img, ∀ e ∈ entsOf img d.inum,
      e.name.length ≤ MAXNAMELEN ∧ (2 ≤ e.slot → e.name ≠ dot ∧ e.name ≠ dotdot)) := by
  simp only [chkNames, nameOk, Bool.and_eq_true, List.all_eq_true, Bool.or_eq_true, decide_eq_true_eq, bne_iff_ne, ne_eq] at h
  constructor
  · intro d hd
    exact (h d hd).1.1
  · intro d hd e he
    obtain ⟨h1, h2⟩ := (h d hd).2 e he
    refine ⟨h1, fun h3 => ?_⟩
    rcases h2 with h2 | h2
    · omega
    · exact h2

theorem mem_liveNonRoot (img : Image) (i : Nat) :
    i ∈ liveNonRoot img ↔ ∃ ino ∈ img.inodes, ino.inum = i ∧ ino.kind ≠ 0 ∧ i ≠ ROOTINUM := by
  simp only [liveNonRoot, live, List.mem_map, List.mem_filter, bne_iff_ne, ne_eq]
  constructor
  · rintro ⟨ino, ⟨⟨hm, hk⟩, hr⟩, he⟩
    subst he
    exact ⟨ino, hm, rfl, hk, hr⟩
  · rintro ⟨ino, hm, he, hk, hr⟩
    subst he
    exact ⟨ino, ⟨⟨hm, hk⟩, hr⟩, rfl⟩

theorem onename_sound (img : Image) (h : chkOneName img = true) :
    ((refs img).map (·.2)).Nodup ∧
    ∀ i, i ∈ (refs img).map (·.2) ↔ ∃ ino ∈ img.inodes, ino.inum = i ∧ ino.kind ≠ 0 ∧ i ≠ ROOTINUM := by
  simp only [chkOneName, Bool.and_eq_true, List.all_eq_true, decide_eq_true_eq, contains_iff] at h
  obtain ⟨⟨h1, h2⟩, h3⟩ := h
  refine ⟨h1, fun i => ?_⟩
  rw [← mem_liveNonRoot]
  exact ⟨h2 i, h3 i⟩

theorem isDirInum_iff (img : Image) (i : Nat) :
    isDirInum img i = true ↔ ∃ d ∈ img.inodes, d.inum = i ∧ d.kind = NF3DIR := by
  simp only [isDirInum, dirInodes, List.any_eq_true, List.mem_filter, beq_iff_eq]
  constructor
  · rintro ⟨d, ⟨hm, hk⟩, he⟩; exact ⟨d, hm, he, hk⟩
  · rintro ⟨d, hm, he, hk⟩; exact ⟨d, ⟨hm, hk⟩, he⟩

theorem slotEnt_some (img : Image) (d slot : Nat) (e : Ent) (h : slotEnt img d slot = some e) :
    e ∈ entsOf img d ∧ e.slot = slot := by
  unfold slotEnt at h
  exact ⟨List.mem_of_find?_eq_some h, by simpa using List.find?_some h⟩

theorem dotsOk_sound (img : Image) (d p : Nat) (h : dotsOk img d p = true) : DotsRight img d p := by
  unfold dotsOk at h
  simp only [Bool.and_eq_true] at h
  obtain ⟨h0, h1⟩ := h
  constructor
  · split at h0
    · rename_i e he
      obtain ⟨hm, hs⟩ := slotEnt_some img d 0 e he
      simp only [Bool.and_eq_true, beq_iff_eq] at h0
      exact ⟨e, hm, hs, h0.1, h0.2⟩
    · simp at h0
  · split at h1
    · rename_i e he
      obtain ⟨hm, hs⟩ := slotEnt_some img d 1 e he
      simp only [Bool.and_eq_true, Bool.or_eq_true, beq_iff_eq, contains_iff] at h1
      exact ⟨e, hm, hs, h1.1, h1.2⟩
    · simp at h1

theorem dots_sound (img : Image) (h : chkDots img = true) :
    DotsRight img ROOTINUM ROOTINUM ∧
    ∀ r ∈ refs img, (∃ d ∈ img.inodes, d.inum = r.2 ∧ d.kind = NF3DIR) → DotsRight img r.2 r.1 := by
  simp only [chkDots, Bool.and_eq_true, List.all_eq_true, Bool.or_eq_true, Bool.not_eq_true'] at h
  refine ⟨dotsOk_sound _ _ _ h.1, fun r hr hd => ?_⟩
  rcases h.2 r hr with h1 | h1
  · have := (isDirInum_iff img r.2).2 hd
    rw [h1] at this; cases this
  · exact dotsOk_sound _ _ _ h1

theorem parentOf_some (img : Image) (i p : Nat) (h : parentOf img i = some p) : (p, i) ∈ refs img := by
  unfold parentOf at h
  split at h
  · rename_i r hr
    have hm := List.mem_of_find?_eq_some hr
    have hs : r.2 = i := by simpa using List.find?_some hr
    cases h
    rw [← hs]; exact hm
  · cases h

theorem climbs_sound (img : Image) (fuel i : Nat) (h : climbs img fuel i = true) : Reachable img i := by
  induction fuel generalizing i with
  | zero =>
    simp only [climbs, Bool.or_eq_true, decide_eq_true_eq, contains_iff] at h
    rcases h with h | h
    · subst h; exact Reachable.root
    · exact Reachable.moved i h
  | succ n ih =>
    simp only [climbs, Bool.or_eq_true, decide_eq_true_eq, contains_iff] at h
    rcases h with (h | h) | h
    · subst h; exact Reachable.root
    · exact Reachable.moved i h
    · split at h
      · rename_i p hp
        exact Reachable.child p i (ih p h) (parentOf_some img i p hp)
      · cases h

theorem reach_sound (img : Image) (h : chkReach img = true) :
    ∀ ino ∈ img.inodes, ino.kind ≠ 0 → Reachable img ino.inum := by
  simp only [chkReach, live, List.all_eq_true, List.mem_filter, bne_iff_ne, ne_eq] at h
  intro ino hm hk
  exact climbs_sound img _ _ (h ino ⟨hm, hk⟩)

/-- SOUNDNESS OF THE CHECKER: an image the checker accepts is a well-formed file system. -/
theorem fsck_sound (img : Image) (h : fsckOk img = true) : WF img := by
  simp only [fsckOk, Bool.and_eq_true] at h
  obtain ⟨⟨⟨⟨⟨⟨⟨⟨⟨⟨⟨⟨hI, hP⟩, hO⟩, hB⟩, hIB⟩, hS⟩, hN⟩, hON⟩, hD⟩, hR⟩, hT⟩, _⟩, _⟩ := h
  have hI' : (img.inodes.map (·.inum)).Nodup ∧ ∀ ino ∈ img.inodes, ino.inum < nInode img := by
    simp only [chkInodes, Bool.and_eq_true, List.all_eq_true, decide_eq_true_eq] at hI
    exact ⟨hI.1, fun ino hm => (hI.2 ino hm).1⟩
  have hP' : ∀ b ∈ allOwned img, dataStart img ≤ b ∧ b < img.sz := by
    simpa only [chkPtrs, List.all_eq_true, Bool.and_eq_true, decide_eq_true_eq] using hP
  exact {
    inums_distinct := hI'.1
    inums_in_table := hI'.2
    ptr_in_data := hP'
    one_owner := by simpa only [chkOneOwner, decide_eq_true_eq] using hO
    marked_iff := bitmap_sound img hB
    imarked_iff := ibitmap_sound img hIB
    blocks_within_size := (sizes_sound img hS).1
    dir_size := (sizes_sound img hS).2
    names_unique := (names_sound img hN).1
    names_wellformed := (names_sound img hN).2
    one_name := onename_sound img hON
    root_is_dir := (isDirInum_iff img ROOTINUM).1 hR
    dots := dots_sound img hD
    tree := reach_sound img hT }

/-- The blocks the checker treats as metadata are exactly the blocks that formatting marks in the
    format model (which the mkfs correspondence of C15 ties to the real `nfs.makeFs` on every
    size of a dense range): the closed form is not an independent assumption. -/
theorem metaBlock_is_format_model (sz b : Nat) (hacc : GoNfsd.Props.C15.accepts sz) (hb : b < padEnd sz) :
    GoNfsd.Model.Mkfs.freshBlockBit sz b = metaBlock sz b :=
  GoNfsd.Lemmas.FsckMeta.freshBlockBit_eq_metaBlock sz b hacc hb

/-! ### the namespace clause for ALL histories, on the reference model -/

/-- "Names are unique" holds after EVERY history: in the reference file system M6 (which the
    operation-sequence correspondence of C02 ties to the real server reply by reply, and which
    reproduces the real RENAME, target unlinking and slot reuse), every directory of every state
    reachable from the freshly formatted file system — by any sequence of operations with any
    allocator and slot choices — has pairwise distinct names. -/
theorem names_unique_in_every_reachable_state (u : Bool) (sz : Nat)
    (ops : List (GoNfsd.Model.Fs.Op × GoNfsd.Model.Fs.Choice)) (i : Nat) :
    (GoNfsd.Model.Fs.liveNames ((GoNfsd.Model.Fs.run (GoNfsd.Model.Fs.mkfs u sz) ops).1.get i).slots).Nodup :=
  GoNfsd.Model.Fs.run_NU _ ops (GoNfsd.Model.Fs.mkfs_NU u sz) i

/-- The name space of EVERY reachable state of the reference file system is well-formed — after
    any sequence of CREATE, MKDIR, SYMLINK, REMOVE, RMDIR, RENAME (within and across directories,
    onto existing targets), SETATTR, WRITE and the read-only procedures, with any allocator and
    slot choices:
      * every directory starts with live "." and ".." entries; other objects have no entries;
      * every name (an entry past the two dot entries) denotes an object in use;
      * no object has two names (there are no hard links: LINK is refused);
      * names within a directory are distinct.
    (What is NOT claimed is that ".." names the parent: RENAME leaves it stale — the known
    finding.  The proof of the RENAME case is what exposed that RENAME accepted ".." as a target
    name, fixed in 7e58aef: with that name allowed the second clause is false.) -/
theorem namespace_wellformed_in_every_reachable_state (u : Bool) (sz : Nat)
    (ops : List (GoNfsd.Model.Fs.Op × GoNfsd.Model.Fs.Choice)) :
    GoNfsd.Model.Fs.WFN (GoNfsd.Model.Fs.run (GoNfsd.Model.Fs.mkfs u sz) ops).1 :=
  GoNfsd.Model.Fs.run_WFN _ ops (GoNfsd.Model.Fs.WFN_mkfs u sz)

/-- every name denotes a live object, in every reachable state -/
theorem every_name_denotes_a_live_object (u : Bool) (sz : Nat)
    (ops : List (GoNfsd.Model.Fs.Op × GoNfsd.Model.Fs.Choice)) (d idx ino : Nat)
    (h : GoNfsd.Model.Fs.Ref (GoNfsd.Model.Fs.run (GoNfsd.Model.Fs.mkfs u sz) ops).1 d idx ino) :
    ((GoNfsd.Model.Fs.run (GoNfsd.Model.Fs.mkfs u sz) ops).1.get ino).kind ≠ 0 :=
  (namespace_wellformed_in_every_reachable_state u sz ops).nd d idx ino h

/-- no object is reachable under two names, in every reachable state -/
theorem no_object_has_two_names (u : Bool) (sz : Nat)
    (ops : List (GoNfsd.Model.Fs.Op × GoNfsd.Model.Fs.Choice)) (d1 i1 d2 i2 ino : Nat)
    (h1 : GoNfsd.Model.Fs.Ref (GoNfsd.Model.Fs.run (GoNfsd.Model.Fs.mkfs u sz) ops).1 d1 i1 ino)
    (h2 : GoNfsd.Model.Fs.Ref (GoNfsd.Model.Fs.run (GoNfsd.Model.Fs.mkfs u sz) ops).1 d2 i2 ino) :
    d1 = d2 ∧ i1 = i2 :=
  (namespace_wellformed_in_every_reachable_state u sz ops).ur d1 i1 d2 i2 ino h1 h2

/-- EXACTLY ONE NAME: in every reachable state of the reference file system every object in use
    other than the root has a name (nothing is orphaned by REMOVE, RMDIR or a RENAME over a
    target: what is freed has no entries of its own), the root has none, and — by
    `no_object_has_two_names` — that name is the only one. -/
theorem every_live_object_has_a_name (u : Bool) (sz : Nat)
    (ops : List (GoNfsd.Model.Fs.Op × GoNfsd.Model.Fs.Choice)) (ino : Nat)
    (hk : ((GoNfsd.Model.Fs.run (GoNfsd.Model.Fs.mkfs u sz) ops).1.get ino).kind ≠ 0)
    (hr : ino ≠ GoNfsd.Gen.Consts.ROOTINUM) :
    ∃ d idx, GoNfsd.Model.Fs.Ref (GoNfsd.Model.Fs.run (GoNfsd.Model.Fs.mkfs u sz) ops).1 d idx ino :=
  (GoNfsd.Model.Fs.run_WFO _ ops (GoNfsd.Model.Fs.WFO_mkfs u sz)).named ino hk hr

/-- the root is a directory and has no name, in every reachable state: it can be neither removed
    nor renamed nor overwritten -/
theorem root_is_permanent (u : Bool) (sz : Nat)
    (ops : List (GoNfsd.Model.Fs.Op × GoNfsd.Model.Fs.Choice)) :
    ((GoNfsd.Model.Fs.run (GoNfsd.Model.Fs.mkfs u sz) ops).1.get GoNfsd.Gen.Consts.ROOTINUM).kind
      = GoNfsd.Gen.Consts.NF3DIR ∧
    ∀ d idx, ¬ GoNfsd.Model.Fs.Ref (GoNfsd.Model.Fs.run (GoNfsd.Model.Fs.mkfs u sz) ops).1 d idx
      GoNfsd.Gen.Consts.ROOTINUM :=
  ⟨(GoNfsd.Model.Fs.run_WFO _ ops (GoNfsd.Model.Fs.WFO_mkfs u sz)).root_dir,
   (GoNfsd.Model.Fs.run_WFO _ ops (GoNfsd.Model.Fs.WFO_mkfs u sz)).root_unnamed⟩

/-- THE TREE CLAUSES, PARTIAL.  Full statement (what C04 asks): in every reachable state "."
    names the directory itself, ".." names the directory holding its name, the root's ".." is
    the root, and every object in use is reachable from the root.  Proved: for every history in
    which no RENAME moves a directory to ANOTHER directory (`NoDirMoves`: decided operation by
    operation on the state the operation meets; renames of files anywhere, of directories within
    their directory, and renames over targets are all included).  Missing: histories with such a
    move — there the statement is FALSE of model and code alike (`tree_clauses_fail_after_a_directory_move`
    below; the known finding rename:directory-dotdot-and-cycles). -/
theorem tree_clauses_partial (u : Bool) (sz : Nat)
    (ops : List (GoNfsd.Model.Fs.Op × GoNfsd.Model.Fs.Choice))
    (hn : GoNfsd.Model.Fs.NoDirMoves (GoNfsd.Model.Fs.mkfs u sz) ops) :
    GoNfsd.Model.Fs.WFT (GoNfsd.Model.Fs.run (GoNfsd.Model.Fs.mkfs u sz) ops).1 :=
  GoNfsd.Model.Fs.run_WFT _ ops (GoNfsd.Model.Fs.WFT_mkfs u sz) hn

/-- every object in use is reachable from the root by names (same hypothesis) -/
theorem every_live_object_reachable_partial (u : Bool) (sz : Nat)
    (ops : List (GoNfsd.Model.Fs.Op × GoNfsd.Model.Fs.Choice))
    (hn : GoNfsd.Model.Fs.NoDirMoves (GoNfsd.Model.Fs.mkfs u sz) ops) (ino : Nat)
    (hk : ((GoNfsd.Model.Fs.run (GoNfsd.Model.Fs.mkfs u sz) ops).1.get ino).kind ≠ 0) :
    GoNfsd.Model.Fs.Reach (GoNfsd.Model.Fs.run (GoNfsd.Model.Fs.mkfs u sz) ops).1 ino :=
  (tree_clauses_partial u sz ops hn).tree ino hk

/-- MKDIR /a; MKDIR /a/b; RENAME /a/b → /b -/
def dirMoveHistory : List (GoNfsd.Model.Fs.Op × GoNfsd.Model.Fs.Choice) :=
  [(.mkdir (GoNfsd.Model.Fs.mkFh 1 1) [97], { inum := 2, slot := 2 }),
   (.mkdir (GoNfsd.Model.Fs.mkFh 2 1) [98], { inum := 3, slot := 2 }),
   (.rename (GoNfsd.Model.Fs.mkFh 2 1) [98] (GoNfsd.Model.Fs.mkFh 1 1) [98], { slot := 3 })]

/-- The full statement is false: after a directory was moved to another directory its ".." still
    names the old parent (the model reproduces the code: the `seq` correspondence compares the
    LOOKUP of ".." in exactly this scenario). -/
theorem tree_clauses_fail_after_a_directory_move :
    ¬ GoNfsd.Model.Fs.WFT (GoNfsd.Model.Fs.run (GoNfsd.Model.Fs.mkfs true 100000) dirMoveHistory).1 := by
  intro h
  have hr : GoNfsd.Model.Fs.Ref (GoNfsd.Model.Fs.run (GoNfsd.Model.Fs.mkfs true 100000) dirMoveHistory).1 1 3 3 :=
    ⟨⟨3, [98]⟩, by decide, rfl, by decide, by decide⟩
  obtain ⟨sl, hg, hi⟩ := h.dotdot 1 3 3 hr (by decide)
  have hdd : ((GoNfsd.Model.Fs.run (GoNfsd.Model.Fs.mkfs true 100000) dirMoveHistory).1.get 3).slots[1]?
      = some ⟨2, [46, 46]⟩ := by decide
  rw [hdd] at hg
  simp only [Option.some.injEq] at hg
  rw [← hg] at hi
  exact absurd hi (by decide)

/-- Non-vacuity of `tree_clauses_partial`: a history with a file moved across directories over
    an existing target, and a directory renamed within its directory, meets `NoDirMoves`. -/
example : GoNfsd.Model.Fs.NoDirMoves (GoNfsd.Model.Fs.mkfs true 100000)
      [(.mkdir (GoNfsd.Model.Fs.mkFh 1 1) [97], { inum := 2, slot := 2 }),
       (.create (GoNfsd.Model.Fs.mkFh 2 1) [102] 0, { inum := 3, slot := 2 }),
       (.create (GoNfsd.Model.Fs.mkFh 1 1) [103] 0, { inum := 4, slot := 3 }),
       (.rename (GoNfsd.Model.Fs.mkFh 2 1) [102] (GoNfsd.Model.Fs.mkFh 1 1) [103], { slot := 3 }),
       (.rename (GoNfsd.Model.Fs.mkFh 1 1) [97] (GoNfsd.Model.Fs.mkFh 1 1) [99], { slot := 2 })] := by
  decide

/-- Non-vacuity: a history with a cross-directory RENAME onto an existing target reaches a state
    with names in two directories. -/
example :
    let s := (GoNfsd.Model.Fs.run (GoNfsd.Model.Fs.mkfs true 100000)
      [(.mkdir (GoNfsd.Model.Fs.mkFh 1 1) [97], { inum := 2, slot := 2 }),
       (.create (GoNfsd.Model.Fs.mkFh 2 1) [102] 0, { inum := 3, slot := 2 }),
       (.create (GoNfsd.Model.Fs.mkFh 1 1) [103] 0, { inum := 4, slot := 3 }),
       (.rename (GoNfsd.Model.Fs.mkFh 2 1) [102] (GoNfsd.Model.Fs.mkFh 1 1) [103], { slot := 3 })]).1
    ((s.get 1).slots.map (·.inum), (s.get 2).slots.map (·.inum), (s.get 4).kind, (s.get 3).kind)
      = ([1, 1, 2, 3], [2, 1, 0], 0, 1) := by
  decide

/-! ### "no block has two owners" under block mapping, on the block-map model M7 -/

/-- `bmap` — the only place a file acquires blocks (WRITE, hole-filling READ, the partial block
    of a truncation) — keeps the pointer tree of the file well-formed: no block is pointed to from
    two positions, and what the allocator still holds stays unused and zero.  Hypothesis `WFB`
    on the state before is observed on the real file and allocator by the `blockmap` driver. -/
theorem bmap_keeps_one_owner (s : GoNfsd.Model.BlockMap.S) (blks : List Nat) (bn : Nat)
    (h : GoNfsd.Model.BlockMap.WFB s blks) (hbn : bn < NDIRECT + NBLKBLK + NBLKBLK * NBLKBLK) :
    GoNfsd.Model.BlockMap.WFB (GoNfsd.Model.BlockMap.bmap s blks bn).1 (GoNfsd.Model.BlockMap.bmap s blks bn).2.1 :=
  (GoNfsd.Model.BlockMap.bmap_ok s blks bn h hbn).wf

/-- From the empty file, after ANY sequence of mappings of addressable file blocks — whatever
    the allocator hands out, provided it never hands out a block twice (0 = out of space, at any
    point) — the pointer tree is well-formed: in particular no disk block serves two positions. -/
theorem one_owner_after_any_mapping_sequence (allocs bns : List Nat)
    (hd : GoNfsd.Model.BlockMap.DistinctNZ allocs)
    (hb : ∀ bn ∈ bns, bn < NDIRECT + NBLKBLK + NBLKBLK * NBLKBLK) :
    GoNfsd.Model.BlockMap.WFB
      (GoNfsd.Model.BlockMap.bmapAll { st := GoNfsd.Model.BlockMap.emptyStore, allocs := allocs } (List.replicate (NDIRECT + 2) 0) bns).1
      (GoNfsd.Model.BlockMap.bmapAll { st := GoNfsd.Model.BlockMap.emptyStore, allocs := allocs } (List.replicate (NDIRECT + 2) 0) bns).2 :=
  GoNfsd.Model.BlockMap.bmapAll_wf _ _ bns (GoNfsd.Model.BlockMap.WFB_empty allocs hd) hb

/-- NO BLOCK HAS TWO OWNERS, ACROSS FILES: any number of files (pointer trees) over one store of index
    blocks and one allocator; after ANY sequence of mappings of addressable blocks of ANY of the files
    — whatever the allocator hands out, provided it hands out no block twice — no disk block is
    pointed to from two positions, of one file or of two: data blocks, indirect blocks,
    double-indirect roots and middle blocks alike; and what the allocator still holds is used by no
    file.  (One step: `mbmap_ok`, which also shows that no pointer of any OTHER file moves.) -/
theorem one_owner_across_files_after_any_mapping_sequence (allocs : List Nat)
    (hd : GoNfsd.Model.BlockMap.DistinctNZ allocs) (ops : List (Nat × Nat))
    (hb : ∀ op ∈ ops, op.2 < NDIRECT + NBLKBLK + NBLKBLK * NBLKBLK) :
    GoNfsd.Model.BlockMap.MWF
      (ops.foldl GoNfsd.Model.BlockMap.mstep ({ st := GoNfsd.Model.BlockMap.emptyStore, allocs := allocs }, fun _ => List.replicate (NDIRECT + 2) 0)).1
      (ops.foldl GoNfsd.Model.BlockMap.mstep ({ st := GoNfsd.Model.BlockMap.emptyStore, allocs := allocs }, fun _ => List.replicate (NDIRECT + 2) 0)).2 :=
  GoNfsd.Model.BlockMap.mrun_wf ops _ (GoNfsd.Model.BlockMap.MWF_empty allocs hd) hb

/-- ... and mapping a block of one file moves no pointer of any other file. -/
theorem mapping_in_one_file_moves_no_pointer_of_another (s : GoNfsd.Model.BlockMap.S) (roots : Nat → List Nat)
    (a bn : Nat) (h : GoNfsd.Model.BlockMap.MWF s roots) (hbn : bn < NDIRECT + NBLKBLK + NBLKBLK * NBLKBLK)
    (b : Nat) (hb : b ≠ a) (q : GoNfsd.Model.BlockMap.Pos) (hq : q.valid) :
    GoNfsd.Model.BlockMap.ptr (GoNfsd.Model.BlockMap.bmap s (roots a) bn).1.st (roots b) q =
      GoNfsd.Model.BlockMap.ptr s.st (roots b) q :=
  (GoNfsd.Model.BlockMap.mbmap_ok s roots a bn h hbn).2 b hb q hq

/-- ... AND UNDER TRUNCATION: the run of `Shrink` on one file of many (from its bookkeeping bound
    `N` down to `T`) keeps one owner per block across all files, moves no pointer of another file,
    and every block it frees belongs to NOBODY afterwards and is all zeros — so handing freed
    blocks out again, to any file, keeps the invariant (`blocks_may_be_recycled`). -/
theorem truncation_of_one_file_among_many (s : GoNfsd.Model.BlockMap.S) (roots : Nat → List Nat) (a T N : Nat)
    (h : GoNfsd.Model.BlockMap.MWF s roots) (hN : N ≤ GoNfsd.Model.BlockMap.MAXBLKS)
    (hemp : GoNfsd.Model.BlockMap.EmptyFrom s.st (roots a) N) :
    GoNfsd.Model.BlockMap.MWF (GoNfsd.Model.BlockMap.shrinkTo s (roots a) T N).1
      (GoNfsd.Model.BlockMap.setRoots roots a (GoNfsd.Model.BlockMap.shrinkTo s (roots a) T N).2) ∧
    (∀ b, b ≠ a → ∀ q, q.valid →
      GoNfsd.Model.BlockMap.ptr (GoNfsd.Model.BlockMap.shrinkTo s (roots a) T N).1.st (roots b) q =
        GoNfsd.Model.BlockMap.ptr s.st (roots b) q) ∧
    (∀ x, x ∈ (GoNfsd.Model.BlockMap.shrinkTo s (roots a) T N).1.freed → x ∉ s.freed →
      x ≠ 0 ∧
      (∀ f p, p.valid → GoNfsd.Model.BlockMap.ptr (GoNfsd.Model.BlockMap.shrinkTo s (roots a) T N).1.st
        (GoNfsd.Model.BlockMap.setRoots roots a (GoNfsd.Model.BlockMap.shrinkTo s (roots a) T N).2 f) p ≠ x) ∧
      ∀ i, (GoNfsd.Model.BlockMap.shrinkTo s (roots a) T N).1.st x i = 0) :=
  GoNfsd.Model.BlockMap.mshrink_ok s roots a T N h hN hemp

theorem blocks_may_be_recycled (s : GoNfsd.Model.BlockMap.S) (roots : Nat → List Nat) (L : List Nat)
    (h : GoNfsd.Model.BlockMap.MWF s roots)
    (hL : ∀ x ∈ L, x ≠ 0 → (∀ f p, p.valid → GoNfsd.Model.BlockMap.ptr s.st (roots f) p ≠ x) ∧ ∀ i, s.st x i = 0)
    (hd : GoNfsd.Model.BlockMap.DistinctNZ (s.allocs ++ L)) :
    GoNfsd.Model.BlockMap.MWF { s with allocs := s.allocs ++ L } roots :=
  GoNfsd.Model.BlockMap.mrecycle s roots L h hL hd

/-- ... composed: after ANY history of mappings, truncations and reuse of freed blocks on any
    number of files (each truncation starting at its file's bookkeeping bound, each reused block
    owned by nobody, zero and not in the allocator already) no block has two owners. -/
theorem one_owner_across_files_after_any_history (allocs : List Nat)
    (hd : GoNfsd.Model.BlockMap.DistinctNZ allocs) (ops : List GoNfsd.Model.BlockMap.MOp)
    (hv : GoNfsd.Model.BlockMap.MValid ({ st := GoNfsd.Model.BlockMap.emptyStore, allocs := allocs }, fun _ => List.replicate (NDIRECT + 2) 0) ops) :
    GoNfsd.Model.BlockMap.MWF
      (ops.foldl GoNfsd.Model.BlockMap.mapply ({ st := GoNfsd.Model.BlockMap.emptyStore, allocs := allocs }, fun _ => List.replicate (NDIRECT + 2) 0)).1
      (ops.foldl GoNfsd.Model.BlockMap.mapply ({ st := GoNfsd.Model.BlockMap.emptyStore, allocs := allocs }, fun _ => List.replicate (NDIRECT + 2) 0)).2 :=
  GoNfsd.Model.BlockMap.mhistory_wf ops _ (GoNfsd.Model.BlockMap.MWF_empty allocs hd) hv

/-- Non-vacuity: file 1 maps a direct and an indirect block, is truncated to nothing, its three
    blocks go back to the allocator, file 2 takes two of them: the history is valid. -/
example :
    let ops : List GoNfsd.Model.BlockMap.MOp := [.map 1 3, .map 1 9, .shrink 1 0 10, .recycle [102, 101, 100], .map 2 0, .map 2 8]
    let r := ops.foldl GoNfsd.Model.BlockMap.mapply
      ({ st := GoNfsd.Model.BlockMap.emptyStore, allocs := [100, 101, 102] }, fun _ => List.replicate (NDIRECT + 2) 0)
    (r.2 1, r.2 2, r.1.allocs, r.1.freed) = ([0, 0, 0, 0, 0, 0, 0, 0, 0, 0], [102, 0, 0, 0, 0, 0, 0, 0, 101, 0], [], [100, 101, 102]) := by
  decide

/-! ### the bridge to the images the checker reads -/

/-- THE CHECKER'S OWNERSHIP IS THE MODEL'S: on an image whose inode carries the model's root list
    and whose index blocks hold the model's non-null entries, the blocks the structure checker
    attributes to the inode (`Fsck.owned`, walking the image) are exactly the non-null pointers of
    the model's tree, position by position in the checker's order. -/
theorem checker_ownership_is_the_pointer_tree (img : GoNfsd.Model.Fsck.Image) (st : GoNfsd.Model.BlockMap.Store)
    (ino : GoNfsd.Model.Fsck.DInode) (hl : ino.blks.length = NDIRECT + 2)
    (h : GoNfsd.Model.BlockMap.IndOK img st ino.blks) :
    (GoNfsd.Model.Fsck.owned img ino).map (·.blk) =
      GoNfsd.Model.BlockMap.nz (GoNfsd.Model.BlockMap.posList.map (GoNfsd.Model.BlockMap.ptr st ino.blks)) :=
  GoNfsd.Model.BlockMap.owned_blk img st ino hl h

/-- ... hence the image of EVERY state reachable by any history of mappings, truncations and reuse
    of freed blocks on any number of files passes the checker's one-owner test, for any finite set
    of files put into the image: what `fsck` checks on the images exported from the running server
    is the invariant the model keeps. -/
theorem checker_one_owner_on_every_reachable_image (allocs : List Nat)
    (hd : GoNfsd.Model.BlockMap.DistinctNZ allocs) (ops : List GoNfsd.Model.BlockMap.MOp)
    (hv : GoNfsd.Model.BlockMap.MValid ({ st := GoNfsd.Model.BlockMap.emptyStore, allocs := allocs }, fun _ => List.replicate (NDIRECT + 2) 0) ops)
    (files : List Nat) (hn : files.Nodup) :
    GoNfsd.Model.Fsck.chkOneOwner
      (GoNfsd.Model.BlockMap.imageOf
        (ops.foldl GoNfsd.Model.BlockMap.mapply ({ st := GoNfsd.Model.BlockMap.emptyStore, allocs := allocs }, fun _ => List.replicate (NDIRECT + 2) 0)).1.st
        (files.map fun a => (a, (ops.foldl GoNfsd.Model.BlockMap.mapply ({ st := GoNfsd.Model.BlockMap.emptyStore, allocs := allocs }, fun _ => List.replicate (NDIRECT + 2) 0)).2 a))) = true :=
  GoNfsd.Model.BlockMap.imageOf_one_owner _ _ (one_owner_across_files_after_any_history allocs hd ops hv) files hn

/-- ... and the checker's "every pointer lies inside the data region" as well, provided the numbers
    the allocator starts with and the numbers handed back to it lie there (which C15 proves of the
    formatted bitmap and C05 / M8b of the frees): every pointer of every file was taken from the
    allocator (`StepOK.fromAllocs`), truncation only removes pointers. -/
theorem checker_pointers_in_the_data_region_on_every_reachable_image (sz : Nat) (allocs : List Nat)
    (hd : GoNfsd.Model.BlockMap.DistinctNZ allocs) (ops : List GoNfsd.Model.BlockMap.MOp)
    (hv : GoNfsd.Model.BlockMap.MValid ({ st := GoNfsd.Model.BlockMap.emptyStore, allocs := allocs }, fun _ => List.replicate (NDIRECT + 2) 0) ops)
    (ha : ∀ x ∈ allocs, x ≠ 0 → (GoNfsd.Gen.Super.MkFsSuper sz).DataStart ≤ x ∧ x < sz)
    (hrec : GoNfsd.Model.BlockMap.RecycleInRegion (GoNfsd.Gen.Super.MkFsSuper sz).DataStart sz ops)
    (files : List Nat) :
    GoNfsd.Model.Fsck.chkPtrs
      (GoNfsd.Model.BlockMap.imageOfSz sz
        (ops.foldl GoNfsd.Model.BlockMap.mapply ({ st := GoNfsd.Model.BlockMap.emptyStore, allocs := allocs }, fun _ => List.replicate (NDIRECT + 2) 0)).1.st
        (files.map fun a => (a, (ops.foldl GoNfsd.Model.BlockMap.mapply ({ st := GoNfsd.Model.BlockMap.emptyStore, allocs := allocs }, fun _ => List.replicate (NDIRECT + 2) 0)).2 a))) = true :=
  GoNfsd.Model.BlockMap.imageOf_ptrs_in_region sz _ _ (one_owner_across_files_after_any_history allocs hd ops hv)
    (GoNfsd.Model.BlockMap.mhistory_region _ sz ops _ (GoNfsd.Model.BlockMap.MWF_empty allocs hd) hv hrec
      (GoNfsd.Model.BlockMap.region_empty _ sz allocs ha)) files

/-- the test is not vacuous: a pointer into the inode table fails it (disk of 2000 blocks) -/
example : GoNfsd.Model.Fsck.chkPtrs
    { (default : GoNfsd.Model.Fsck.Image) with
      inodes := [{ inum := 2, kind := 1, nlink := 1, gen := 0, size := 0, shrink := 0, blks := [600, 0, 0, 0, 0, 0, 0, 0, 0, 0] }],
      sz := 2000 } = false := by decide

/-- ... and the checker's "sizes agree with the blocks present" (no block at or beyond
    `max(⌈size/4096⌉, ShrinkSize)`): on the image of files that satisfy the bookkeeping invariant
    `InoOK`, which every history of WRITEs, READs of holes and resizes keeps
    (`Props/C05.nothing_mapped_beyond_the_bookkeeping`: `inoRun_ok`). -/
theorem checker_sizes_on_the_image_of_files_in_bookkeeping (s : GoNfsd.Model.BlockMap.S)
    (files : List (Nat × GoNfsd.Model.BlockMap.Ino)) (h : ∀ f ∈ files, GoNfsd.Model.BlockMap.InoOK s f.2) :
    GoNfsd.Model.Fsck.chkSizes (GoNfsd.Model.BlockMap.imageOfInos s.st files) = true :=
  GoNfsd.Model.BlockMap.imageOfInos_sizes s files h

/-- in particular after any history of one file from the empty file -/
theorem checker_sizes_after_any_history (allocs : List Nat) (hd : GoNfsd.Model.BlockMap.DistinctNZ allocs)
    (ops : List GoNfsd.Model.BlockMap.IOp) (hops : ∀ op ∈ ops, op.ok) (inum : Nat) :
    GoNfsd.Model.Fsck.chkSizes (GoNfsd.Model.BlockMap.imageOfInos
      (GoNfsd.Model.BlockMap.inoRun ({ st := GoNfsd.Model.BlockMap.emptyStore, allocs := allocs }, GoNfsd.Model.BlockMap.emptyIno) ops).1.st
      [(inum, (GoNfsd.Model.BlockMap.inoRun ({ st := GoNfsd.Model.BlockMap.emptyStore, allocs := allocs }, GoNfsd.Model.BlockMap.emptyIno) ops).2)]) = true := by
  apply GoNfsd.Model.BlockMap.imageOfInos_sizes
  intro f hf
  rw [List.mem_singleton] at hf
  subst hf
  exact GoNfsd.Model.BlockMap.inoRun_ok _ ops (GoNfsd.Model.BlockMap.InoOK_empty allocs hd) hops

/-- the clause is not vacuous: a block at file index 3 of a file whose size accounts for one block fails it -/
example : GoNfsd.Model.Fsck.chkSizes
    { (default : GoNfsd.Model.Fsck.Image) with
      inodes := [{ inum := 2, kind := 1, nlink := 1, gen := 0, size := 100, shrink := 0, blks := [700, 0, 0, 701, 0, 0, 0, 0, 0, 0] }] } = false := by decide

/-- the test is not vacuous on images: two inodes pointing at one block fail it, and so does an
    inode whose index block repeats a direct pointer -/
example : GoNfsd.Model.Fsck.chkOneOwner
    { (default : GoNfsd.Model.Fsck.Image) with
      inodes := [{ inum := 2, kind := 1, nlink := 1, gen := 0, size := 0, shrink := 0, blks := [700, 0, 0, 0, 0, 0, 0, 0, 0, 0] },
                 { inum := 3, kind := 1, nlink := 1, gen := 0, size := 0, shrink := 0, blks := [0, 700, 0, 0, 0, 0, 0, 0, 0, 0] }] } = false := by decide
example : GoNfsd.Model.Fsck.chkOneOwner
    { (default : GoNfsd.Model.Fsck.Image) with
      inodes := [{ inum := 2, kind := 1, nlink := 1, gen := 0, size := 0, shrink := 0, blks := [700, 0, 0, 0, 0, 0, 0, 0, 701, 0] }],
      ind := [(701, [(4, 700)])] } = false := by decide

/-- Non-vacuity: two files take turns at the allocator (direct, indirect and double-indirect blocks):
    all pointers differ. -/
example :
    let r := [(1, 3), (2, 3), (1, 8 + 5), (2, 8 + 5), (2, 8 + 512 + 7), (1, 8 + 512 + 7)].foldl GoNfsd.Model.BlockMap.mstep
      ({ st := GoNfsd.Model.BlockMap.emptyStore, allocs := [100, 101, 102, 103, 104, 105, 106, 107, 108, 109, 110, 111, 112, 113] },
        fun _ => List.replicate (NDIRECT + 2) 0)
    (r.2 1, r.2 2, r.1.allocs) = ([0, 0, 0, 100, 0, 0, 0, 0, 102, 109], [0, 0, 0, 101, 0, 0, 0, 0, 104, 106], [112, 113]) := by
  decide

/-- Non-vacuity: mapping a direct, an indirect and two double-indirect blocks from the empty file
    with an allocator that runs dry in between builds a three-level tree. -/
example :
    let r := GoNfsd.Model.BlockMap.bmapAll { st := GoNfsd.Model.BlockMap.emptyStore, allocs := [100, 101, 102, 103, 104, 105, 0, 106, 107] }
      (List.replicate (NDIRECT + 2) 0) [3, 8 + 5, 8 + 512 + 512 * 2 + 7, 8 + 512 + 512 * 2 + 9, 8 + 512 + 512 * 4]
    (r.2, GoNfsd.Model.BlockMap.lookup r.1.st r.2 3, GoNfsd.Model.BlockMap.lookup r.1.st r.2 13,
      GoNfsd.Model.BlockMap.lookup r.1.st r.2 (8 + 512 + 512 * 2 + 7), GoNfsd.Model.BlockMap.lookup r.1.st r.2 (8 + 512 + 512 * 2 + 9),
      GoNfsd.Model.BlockMap.lookup r.1.st r.2 (8 + 512 + 512 * 4), r.1.allocs)
      = ([0, 0, 0, 100, 0, 0, 0, 0, 101, 103], 100, 102, 105, 0, 107, []) := by
  decide

/-! ### directories as blocks (models M7e on M7d on M7)

A directory is a file of 128-byte slots.  The slot list the reference model M6 works with is the
decoding (`dir.decodeDirEnt`) of the bytes of the block-level file; the one WRITE that
`AddNameDir` / `RemNameDir` / `InitDir` issue is `putSlot` / `set` on it.  With
`Props/C12.block_level_file_refines_the_content_log` and `pointer_tree_step_is_the_mapping_step`
this carries the namespace theorems above (stated on slot lists) down to directory BLOCKS. -/
section dirblocks
open GoNfsd.Model.FileData GoNfsd.Model.Codec

/-- The entry written at a slot appears at that slot (appended if the slot is the end of the
    directory), every other slot decodes exactly as before — whichever blocks the slots lie in,
    mapped or not — and the size stays a whole number of slots: `addName` of the reference model. -/
theorem directory_slot_write_is_putSlot (f : F) (fresh : Nat → Nat) (slot inum : Nat) (name : List UInt8)
    (h : Inv f) (hf : FreshOK f fresh) (L : Nat) (hsz : f.size = L * DS) (hslot : slot ≤ L)
    (hi : inum < 2 ^ 64) (hn : name.length ≤ MAXNAMELEN) :
    slotsOf (f.write fresh (slot * DS) (encodeDirEnt inum name)) =
      GoNfsd.Model.Fs.putSlot (slotsOf f) slot { inum := inum, name := name } ∧
    (f.write fresh (slot * DS) (encodeDirEnt inum name)).size =
      (GoNfsd.Model.Fs.putSlot (slotsOf f) slot { inum := inum, name := name }).length * DS :=
  slot_write_is_putSlot f fresh slot inum name h hf L hsz hslot hi hn

/-- `RemNameDir` frees exactly the slot it names: `remNameAt` of the reference model. -/
theorem directory_slot_clear_is_set (f : F) (fresh : Nat → Nat) (idx : Nat) (h : Inv f)
    (hf : FreshOK f fresh) (L : Nat) (hsz : f.size = L * DS) (hidx : idx < L) :
    slotsOf (f.write fresh (idx * DS) (encodeDirEnt 0 [])) = (slotsOf f).set idx GoNfsd.Model.Fs.freeSlot :=
  slot_clear_is_set f fresh idx h hf L hsz hidx

/-- REFINEMENT for directories: after ANY history of entry writes and entry removals (at slots
    inside the directory or at its end, with names and numbers that fit) the directory blocks
    decode to the slot list the reference model has, and the size is that many slots. -/
theorem directory_blocks_refine_the_slot_list (ops : List DirOp) (ha : DirAllowed F.empty ops) :
    slotsOf (ops.foldl F.dirApply F.empty) = ops.foldl slotApply [] ∧
    (ops.foldl F.dirApply F.empty).size = (ops.foldl slotApply []).length * DS := by
  obtain ⟨_, h2, h3⟩ := dir_history_refines ops F.empty empty_inv ⟨0, by simp [F.empty]⟩ ha
  have h0 : slotsOf F.empty = [] := by simp [slotsOf, F.empty]
  rw [h0] at h2 h3
  exact ⟨h2, h3⟩

/-- Non-vacuity: `InitDir`'s first entry on an empty directory satisfies the hypotheses, and a
    three-entry history (".", "..", then a name; the name removed again) decodes as expected. -/
example : DirAllowed F.empty [.put (fun i => 100 + i) 0 1 [46]] := by
  refine ⟨⟨?_, by simp [F.empty], by decide, by simp [MAXNAMELEN]⟩, trivial⟩
  intro i _
  refine ⟨?_, fun j => ?_, fun o => rfl, fun j _ e => ?_⟩
  · show 100 + i ≠ 0; omega
  · show (0 : Nat) ≠ 100 + i; omega
  · have e' : 100 + j = 100 + i := e
    omega
example :
    let ops : List DirOp := [.put (fun i => 100 + i) 0 1 [46], .put (fun i => 100 + i) 1 1 [46, 46],
      .put (fun i => 100 + i) 2 5 [97], .clear (fun i => 100 + i) 2, .put (fun i => 100 + i) 3 6 [98]]
    ((slotsOf (ops.foldl F.dirApply F.empty)).map fun s => (s.inum, s.name)) =
      [(1, [46]), (1, [46, 46]), (0, []), (6, [98])] := by
  decide +kernel

end dirblocks

/-! ### the inode table as disk bytes (model M7i, on the layout regenerated from super/super.go) -/
section inodetable
open GoNfsd.Model.InodeTable GoNfsd.Gen.Super GoNfsd.Model.Codec

/-- The slot `super.Inum2Addr` gives an inode lies inside one block of the inode table (from
    `InodeStart`, below `DataStart`), and the slots of two different inodes never overlap — for
    every disk size and every pair of inode numbers. -/
theorem inode_slots_do_not_overlap (fs : FsSuper) (i j : Nat) (hi : i < fs.NInode) (h : i ≠ j) :
    (slot fs i).2 + INODESZ ≤ BlockSize ∧
    (fs.InodeStart ≤ (slot fs i).1 ∧ (slot fs i).1 < fs.DataStart) ∧
    ((slot fs i).1 ≠ (slot fs j).1 ∨ (slot fs i).2 + INODESZ ≤ (slot fs j).2 ∨ (slot fs j).2 + INODESZ ≤ (slot fs i).2) :=
  ⟨slot_in_block fs i, slot_in_table fs i hi, slots_disjoint fs i j h⟩

/-- `WriteInode` of one inode: that inode reads back (through the codec) as what was written,
    EVERY OTHER inode reads as before, and no block outside the table — no data block, no bitmap
    block, no log block — changes a byte. -/
theorem writing_one_inode_changes_no_other (d : Disk) (fs : FsSuper) (i : Nat) (x : GoNfsd.Model.Codec.DInode) (hx : x.wf)
    (hi : i < fs.NInode) :
    decodeInode (readSlot (writeInode d fs i (encodeInode x)) fs i) = x ∧
    (∀ j, j ≠ i → readSlot (writeInode d fs i (encodeInode x)) fs j = readSlot d fs j) ∧
    (∀ b o, (b < fs.InodeStart ∨ fs.DataStart ≤ b) → writeInode d fs i (encodeInode x) b o = d b o) := by
  obtain ⟨h1, h2⟩ := inode_table_write_read d fs i x hx (GoNfsd.Props.C10.inode_roundtrip x hx)
    (GoNfsd.Props.C10.inode_encoding_size x hx)
  exact ⟨h1, h2, fun b o hb => write_leaves_other_blocks d fs i _ hi b hb o⟩

end inodetable

/-- "Every block in use is marked in use" also under concurrency: bitmap updates reach the journal
    as single bits, each owned by the transaction that holds the number (regenerated table; see
    `Props/C10.journal_objects_have_the_granularity_of_their_locks`). -/
theorem bitmap_updates_are_single_bits :
    ∀ e ∈ GoNfsd.Gen.Skeleton.journalObjects, e.1 = "alloctxn.WriteBits" → e.2.1 = "OverWrite" ∧ e.2.2 = "1" := by decide

example : ("alloctxn.WriteBits", "OverWrite", "1") ∈ GoNfsd.Gen.Skeleton.journalObjects := by decide

/-- "NAMES ARE UNIQUE" AT THE LEVEL OF THE DIRECTORY CODE: the nfs layer checks the absence of a name in the name
    CACHE only (`dir.LookupName`), never on disk; because the cache is the directory in every reachable state (model
    M8e, `Props/C10.name_cache_is_the_directory`), the slots on disk never hold a name twice — for every history of
    lookups, insertions, removals, evictions, restarts and aborted transactions.  (Seeded changes C04l / C10k bound the
    scan that rebuilds the cache: the cache misses entries and a second entry of the same name is written.) -/
theorem names_stay_unique_with_the_cache_as_the_only_check (ops : List GoNfsd.Model.NameCache.Op) :
    (GoNfsd.Model.Fs.liveNames (GoNfsd.Model.NameCache.run {} ops).cur.slots).Nodup :=
  GoNfsd.Props.C10.names_unique_under_cached_checks ops

/-- a new name never overwrites a live entry: the slot `AddNameDir` picks is free or the end, whatever the hint -/
theorem a_new_name_overwrites_no_entry (slots : List GoNfsd.Model.Fs.Slot) (lastoff : Nat) (sl : GoNfsd.Model.Fs.Slot)
    (h : slots[GoNfsd.Model.NameCache.addSlot slots lastoff]? = some sl) : sl.inum = 0 := by
  have := GoNfsd.Model.NameCache.addSlot_ok slots lastoff
  unfold GoNfsd.Model.Fs.slotOk at this
  simp only [Bool.or_eq_true, decide_eq_true_eq] at this
  rcases this with this | this
  · have := (List.getElem?_eq_some_iff.mp h).1; omega
  · rw [h] at this; simpa using this

end GoNfsd.Props.C04

/-
C13 — directory enumeration is complete, duplicate-free and terminates.

Property theorems about the paging functions of the reference model (`page`, which models
`dir.ApplyEnts` and `dir.Apply` with their byte accounting; tied to the server by the `seq`
correspondence, which compares every READDIR / READDIRPLUS reply entry by entry, cookie by
cookie, for all budgets and cookies).  All statements hold for BOTH procedures and ALL
budgets because they are proved for `page` with arbitrary limits and increments.
-/
import GoNfsd.Lemmas.DirData
import GoNfsd.Lemmas.Enumerate
import GoNfsd.Lemmas.EntriesStay
import GoNfsd.Lemmas.DirSize
import GoNfsd.Lemmas.NameCacheReuse
import GoNfsd.Gen.Skeleton

namespace GoNfsd.Props.C13
open GoNfsd.Model.Fs GoNfsd.Gen.Consts

variable (lim1 lim2 : Nat) (inc1 inc2 : Nat → Nat) (n1 n2 : Nat)

/-- Soundness of one page: every returned entry is a live slot of the directory, located at
    or after the offset the cookie argument designates, returned with its own inode number and
    name and with the cookie that designates the slot after it; cookies strictly increase. -/
theorem page_sound (slots : List Slot) (cookie : Nat) :
    (∀ e ∈ (page slots cookie lim1 lim2 inc1 inc2 n1 n2).2,
        ∃ j, slots[j]? = some e.1 ∧ e.1.inum ≠ 0 ∧ e.2 = (j + 1) * DIRENTSZ ∧ cookie ≤ j * DIRENTSZ ∧
          cookie < e.2) ∧
    (page slots cookie lim1 lim2 inc1 inc2 n1 n2).2.Pairwise (fun x y => x.2 < y.2) := by
  obtain ⟨k, hk, _, _⟩ := pageGo_prefix cookie lim1 lim2 inc1 inc2 slots 0 n1 n2
  unfold page
  rw [hk]
  constructor
  · intro e he
    obtain ⟨j, h1, h2, h3, h4⟩ := liveFromGo_mem cookie slots 0 e (List.mem_of_mem_take he)
    refine ⟨j, h1, h2, by simpa using h3, by simpa using h4, ?_⟩
    simp at h3 h4
    rw [h3]
    have : j * DIRENTSZ < (j + 1) * DIRENTSZ := by simp [DIRENTSZ]
    omega
  · exact List.Pairwise.sublist (List.take_sublist _ _) (liveFromGo_sorted cookie slots 0).1

/-- Progress: whatever the budgets (even 0), if a live slot exists at or after the cookie's
    offset the page is not empty — the budget test follows the emission — and (soundness) its
    last cookie exceeds the argument, so the next call starts further on. -/
theorem page_progress (slots : List Slot) (cookie : Nat) (j : Nat) (sl : Slot)
    (h : slots[j]? = some sl) (hl : sl.inum ≠ 0) (hs : cookie ≤ j * DIRENTSZ) :
    (page slots cookie lim1 lim2 inc1 inc2 n1 n2).2 ≠ [] := by
  obtain ⟨k, hk, hk2, hk3⟩ := pageGo_prefix cookie lim1 lim2 inc1 inc2 slots 0 n1 n2
  have hm := liveFromGo_complete cookie slots 0 j sl h hl (by simpa using hs)
  unfold page
  cases he : (pageGo cookie lim1 lim2 inc1 inc2 slots 0 n1 n2).1 with
  | true => rw [hk2 he]; intro h0; rw [h0] at hm; simp at hm
  | false =>
    rw [hk]
    exact take_ne_nil _ k (hk3 he).1 (hk3 he).2

/-- End of directory is only reported when every live slot at or after the cookie's offset
    has been returned in this page. -/
theorem page_eof_complete (slots : List Slot) (cookie : Nat)
    (he : (page slots cookie lim1 lim2 inc1 inc2 n1 n2).1 = true) (j : Nat) (sl : Slot)
    (h : slots[j]? = some sl) (hl : sl.inum ≠ 0) (hs : cookie ≤ j * DIRENTSZ) :
    (sl, (j + 1) * DIRENTSZ) ∈ (page slots cookie lim1 lim2 inc1 inc2 n1 n2).2 := by
  obtain ⟨k, hk, hk2, hk3⟩ := pageGo_prefix cookie lim1 lim2 inc1 inc2 slots 0 n1 n2
  have hm := liveFromGo_complete cookie slots 0 j sl h hl (by simpa using hs)
  unfold page at he ⊢
  rw [hk2 he]
  simpa using hm

/-- A page that does not report end of directory has skipped nothing: it holds exactly the
    live slots between the cookie's offset and its own last cookie. -/
theorem page_no_gap (slots : List Slot) (cookie : Nat) (j : Nat) (sl : Slot)
    (h : slots[j]? = some sl) (hl : sl.inum ≠ 0) (hs : cookie ≤ j * DIRENTSZ)
    (hlast : (j + 1) * DIRENTSZ ≤ lastCookie (page slots cookie lim1 lim2 inc1 inc2 n1 n2).2 0) :
    (sl, (j + 1) * DIRENTSZ) ∈ (page slots cookie lim1 lim2 inc1 inc2 n1 n2).2 := by
  obtain ⟨k, hk, hk2, hk3⟩ := pageGo_prefix cookie lim1 lim2 inc1 inc2 slots 0 n1 n2
  have hm := liveFromGo_complete cookie slots 0 j sl h hl (by simpa using hs)
  simp only [Nat.zero_add] at hm
  unfold page at hlast ⊢
  rw [hk] at hlast ⊢
  -- the entry is in the full list; if it were beyond the first k, its cookie would exceed the last one
  have hsorted := (liveFromGo_sorted cookie slots 0).1
  rw [← List.take_append_drop k (liveFromGo cookie slots 0)] at hm hsorted
  rcases List.mem_append.mp hm with hin | hin
  · exact hin
  · exfalso
    have hpw := List.pairwise_append.mp hsorted
    unfold lastCookie at hlast
    cases hl' : (List.take k (liveFromGo cookie slots 0)).getLast? with
    | none =>
      rw [hl'] at hlast
      simp [DIRENTSZ] at hlast
    | some e =>
      rw [hl'] at hlast
      have := hpw.2.2 e (List.mem_of_getLast? hl') _ hin
      simp at this hlast
      omega

/-- Entries never move: adding a name uses a free slot or the end and removing one clears its
    slot; every other slot keeps its offset and content, so cookies stay meaningful across
    changes of the directory. -/
theorem entries_never_move (slots : List Slot) (i : Nat) (s : Slot) (j : Nat) (hj : j ≠ i)
    (hjl : j < slots.length) :
    (putSlot slots i s)[j]? = slots[j]? ∧ (slots.set i freeSlot)[j]? = slots[j]? := by
  unfold putSlot
  constructor
  · split
    · simp [List.getElem?_append_left hjl]
    · simp [List.getElem?_set, Ne.symm hj]
  · simp [List.getElem?_set, Ne.symm hj]

theorem insertion_uses_free_slot_or_end (slots : List Slot) (i : Nat) (h : slotOk slots i = true) :
    i = slots.length ∨ ∃ s, slots[i]? = some s ∧ s.inum = 0 := by
  unfold slotOk at h
  simp at h
  rcases h with h | h
  · exact Or.inl h
  · right
    cases hs : slots[i]? with
    | none => simp [hs] at h
    | some s => exact ⟨s, rfl, by simpa [hs] using h⟩

theorem liveFrom_length_le (slots : List Slot) (ck : Nat) : (liveFrom slots ck).length ≤ slots.length := by
  unfold liveFrom
  suffices ∀ rest idx, (liveFromGo ck rest idx).length ≤ rest.length from this slots 0
  intro rest
  induction rest with
  | nil => intro idx; simp [liveFromGo]
  | cons sl rest ih =>
    intro idx
    unfold liveFromGo
    split
    · have := ih (idx + 1); simp; omega
    · have := ih (idx + 1); simp; omega

/-- Enumeration of a directory that does not change: iterating the page function from cookie 0,
    passing back the cookie of the last entry received, with ANY budgets, ends with
    end-of-directory after at most (number of slots + 1) calls and has then returned every live
    entry exactly once (the result is the list of live slots in slot order, whose cookies are
    strictly increasing — hence no duplicates), each with its own inode number and name. -/
theorem enumeration_exact (slots : List Slot) :
    enumerate (fun c => page slots c lim1 lim2 inc1 inc2 n1 n2) (slots.length + 1) 0
      = (liveFrom slots 0, true) ∧
    (liveFrom slots 0).Pairwise (fun x y => x.2 < y.2) ∧
    (∀ e, e ∈ liveFrom slots 0 ↔
        ∃ j, slots[j]? = some e.1 ∧ e.1.inum ≠ 0 ∧ e.2 = (j + 1) * DIRENTSZ) := by
  refine ⟨enumerate_exact slots lim1 lim2 inc1 inc2 n1 n2 _ 0 ?_, (liveFromGo_sorted 0 slots 0).1, ?_⟩
  · have := liveFrom_length_le slots 0; omega
  · intro e
    constructor
    · intro he
      obtain ⟨j, h1, h2, h3, _⟩ := liveFromGo_mem 0 slots 0 e he
      exact ⟨j, h1, h2, by simpa using h3⟩
    · rintro ⟨j, h1, h2, h3⟩
      have := liveFromGo_complete 0 slots 0 j e.1 h1 h2 (by simp)
      simp only [Nat.zero_add] at this
      rw [← h3] at this
      exact this

/-- The two procedures are instances of `page`. -/
theorem readdir_is_page (slots : List Slot) (cookie count : Nat) :
    readdirPage slots cookie count
      = page slots cookie count (count + 1) (fun l => 16 + l + 8 + 8) (fun _ => 0) 64 0 := rfl

theorem readdirplus_is_page (slots : List Slot) (cookie dircount maxcount : Nat) :
    readdirplusPage slots cookie dircount maxcount
      = page slots cookie dircount maxcount (fun l => 8 + l) (fun l => entryplus3Baggage + l) 0 64 := rfl

/-- PENDING (growth item, stated in full): enumeration of a directory that changes between
    calls.  `ds k` is the slot list seen by call `k`; entries that stay at their slot in all of
    them are returned exactly once and nothing is returned that is not live in the list of the
    call that returned it. -/
def enumeration_exact_dynamic : Prop :=
  ∀ (ds : Nat → List Slot) (calls : Nat) (cookies : Nat → Nat),
    cookies 0 = 0 →
    (∀ k < calls, cookies (k + 1) = lastCookie (page (ds k) (cookies k) lim1 lim2 inc1 inc2 n1 n2).2 (cookies k)) →
    (∀ k < calls, (page (ds k) (cookies k) lim1 lim2 inc1 inc2 n1 n2).1 = false) →
    (page (ds calls) (cookies calls) lim1 lim2 inc1 inc2 n1 n2).1 = true →
    ∀ (j : Nat) (sl : Slot), sl.inum ≠ 0 → (∀ k ≤ calls, (ds k)[j]? = some sl) →
      ∃ k ≤ calls, (sl, (j + 1) * DIRENTSZ) ∈ (page (ds k) (cookies k) lim1 lim2 inc1 inc2 n1 n2).2 ∧
        ∀ k' ≤ calls, k' ≠ k → (sl, (j + 1) * DIRENTSZ) ∉ (page (ds k') (cookies k') lim1 lim2 inc1 inc2 n1 n2).2

theorem lastCookie_of_ne_nil (L : List (Slot × Nat)) (a b : Nat) (h : L ≠ []) :
    lastCookie L a = lastCookie L b := by
  unfold lastCookie
  cases hl : L.getLast? with
  | none => exact absurd (List.getLast?_eq_none_iff.mp hl) h
  | some e => rfl

theorem lastCookie_mem (L : List (Slot × Nat)) (d : Nat) (h : L ≠ []) :
    ∃ e ∈ L, e.2 = lastCookie L d := by
  unfold lastCookie
  cases hl : L.getLast? with
  | none => exact absurd (List.getLast?_eq_none_iff.mp hl) h
  | some e => exact ⟨e, List.mem_of_getLast? hl, rfl⟩

theorem le_lastCookie (L : List (Slot × Nat)) (d : Nat) (hs : L.Pairwise (fun x y => x.2 < y.2))
    (e : Slot × Nat) (he : e ∈ L) : e.2 ≤ lastCookie L d := by
  induction L with
  | nil => cases he
  | cons x rest ih =>
    have hp := List.pairwise_cons.1 hs
    unfold lastCookie
    cases hr : rest with
    | nil =>
      subst hr
      simp only [List.mem_singleton] at he
      subst he
      simp
    | cons y ys =>
      have hne : rest ≠ [] := by rw [hr]; simp
      have hlast : (x :: rest).getLast? = rest.getLast? := by
        rw [hr]; simp [List.getLast?_cons_cons]
      rw [← hr, hlast]
      rcases List.mem_cons.1 he with hx | hx
      · -- x is below everything in rest, in particular below its last element
        obtain ⟨l, hl, _⟩ := lastCookie_mem rest d hne
        have := hp.1 l hl
        unfold lastCookie at *
        cases hg : rest.getLast? with
        | none => exact absurd (List.getLast?_eq_none_iff.mp hg) hne
        | some z =>
          have hz : z ∈ rest := List.mem_of_getLast? hg
          have := hp.1 z hz
          rw [hx]; simp only; omega
      · have := ih hp.2 hx
        unfold lastCookie at this
        exact this

/-- a page that does not report end of directory is not empty -/
theorem page_noneof_ne_nil (slots : List Slot) (cookie : Nat)
    (h : (page slots cookie lim1 lim2 inc1 inc2 n1 n2).1 = false) :
    (page slots cookie lim1 lim2 inc1 inc2 n1 n2).2 ≠ [] := by
  obtain ⟨k, hk, _, hk3⟩ := pageGo_prefix cookie lim1 lim2 inc1 inc2 slots 0 n1 n2
  unfold page at h ⊢
  rw [hk]
  exact take_ne_nil _ k (hk3 h).1 (hk3 h).2

/-- ENUMERATION OF A DIRECTORY THAT CHANGES BETWEEN THE CALLS: whatever happens to the other
    entries (created, removed, renamed — `ds k` is the slot list call `k` sees), with any budgets,
    an entry that stays in its slot during the whole enumeration is returned exactly once. -/
theorem enumeration_exact_dynamic_holds : enumeration_exact_dynamic lim1 lim2 inc1 inc2 n1 n2 := by
  intro ds calls cookies h0 hnext hnoeof heof j sl hl hstable
  -- per-call facts
  have hstep : ∀ k, k < calls → cookies k < cookies (k + 1) ∧ ∃ m, cookies (k + 1) = m * DIRENTSZ := by
    intro k hk
    have hne := page_noneof_ne_nil lim1 lim2 inc1 inc2 n1 n2 (ds k) (cookies k) (hnoeof k hk)
    obtain ⟨e, he, hel⟩ := lastCookie_mem _ (cookies k) hne
    obtain ⟨i, _, _, h3, _, h5⟩ := (page_sound lim1 lim2 inc1 inc2 n1 n2 (ds k) (cookies k)).1 e he
    rw [hnext k hk, ← hel]
    exact ⟨h5, i + 1, h3⟩
  have hmult : ∀ k, k ≤ calls → ∃ m, cookies k = m * DIRENTSZ := by
    intro k hk
    cases k with
    | zero => exact ⟨0, by rw [h0]; simp⟩
    | succ k => exact (hstep k (by omega)).2
  have hmono : ∀ b, b ≤ calls → ∀ a, a ≤ b → cookies a ≤ cookies b := by
    intro b
    induction b with
    | zero => intro _ a ha; have : a = 0 := by omega
              rw [this]; exact Nat.le_refl _
    | succ b ih =>
      intro hb a ha
      rcases Nat.lt_or_ge a (b + 1) with hlt | hge
      · have := ih (by omega) a (by omega)
        have := (hstep b (by omega)).1
        omega
      · have : a = b + 1 := by omega
        rw [this]; exact Nat.le_refl _
  have hck : (j + 1) * DIRENTSZ = j * DIRENTSZ + DIRENTSZ := by
    rw [Nat.add_mul]; simp
  have hD : 0 < DIRENTSZ := by decide
  -- the call in whose range the slot falls
  have hfind : ∀ d n, calls - n = d → n ≤ calls → cookies n ≤ j * DIRENTSZ →
      ∃ k, k ≤ calls ∧ cookies k ≤ j * DIRENTSZ ∧ (k = calls ∨ (k < calls ∧ (j + 1) * DIRENTSZ ≤ cookies (k + 1))) := by
    intro d
    induction d with
    | zero => intro n hd hn hc; exact ⟨n, hn, hc, Or.inl (by omega)⟩
    | succ d ih =>
      intro n hd hn hc
      have hlt : n < calls := by omega
      rcases Nat.lt_or_ge (cookies (n + 1)) ((j + 1) * DIRENTSZ) with hsmall | hbig
      · obtain ⟨m, hm⟩ := (hstep n hlt).2
        have hle : cookies (n + 1) ≤ j * DIRENTSZ := by
          rw [hm] at hsmall ⊢
          have : m < j + 1 := Nat.lt_of_mul_lt_mul_right hsmall
          exact Nat.mul_le_mul_right _ (by omega)
        exact ih (n + 1) (by omega) (by omega) hle
      · exact ⟨n, hn, hc, Or.inr ⟨hlt, hbig⟩⟩
  obtain ⟨k, hk, hkc, hkr⟩ := hfind (calls - 0) 0 rfl (Nat.zero_le _) (by rw [h0]; exact Nat.zero_le _)
  -- membership in a page pins the call down
  have hpin : ∀ k', k' ≤ calls →
      (sl, (j + 1) * DIRENTSZ) ∈ (page (ds k') (cookies k') lim1 lim2 inc1 inc2 n1 n2).2 →
      cookies k' ≤ j * DIRENTSZ ∧ (k' < calls → (j + 1) * DIRENTSZ ≤ cookies (k' + 1)) := by
    intro k' hk' hmem
    obtain ⟨hs1, hs2⟩ := page_sound lim1 lim2 inc1 inc2 n1 n2 (ds k') (cookies k')
    obtain ⟨i, _, _, h3, h4, _⟩ := hs1 _ hmem
    simp only at h3
    have hij : i = j := by
      have : j + 1 = i + 1 := Nat.eq_of_mul_eq_mul_right hD h3
      omega
    rw [hij] at h4
    refine ⟨h4, ?_⟩
    intro hlt
    rw [hnext k' hlt]
    exact le_lastCookie _ _ hs2 _ hmem
  refine ⟨k, hk, ?_, ?_⟩
  · rcases hkr with hkeq | ⟨hklt, hbig⟩
    · rw [hkeq]
      exact page_eof_complete lim1 lim2 inc1 inc2 n1 n2 (ds calls) (cookies calls) heof j sl
        (hstable calls (Nat.le_refl _)) hl (by rw [← hkeq]; exact hkc)
    · refine page_no_gap lim1 lim2 inc1 inc2 n1 n2 (ds k) (cookies k) j sl (hstable k hk) hl hkc ?_
      have hne := page_noneof_ne_nil lim1 lim2 inc1 inc2 n1 n2 (ds k) (cookies k) (hnoeof k hklt)
      rw [lastCookie_of_ne_nil _ 0 (cookies k) hne, ← hnext k hklt]
      exact hbig
  · intro k' hk' hne hmem
    obtain ⟨p1, p2⟩ := hpin k' hk' hmem
    rcases Nat.lt_or_ge k' k with hlt | hge
    · -- k' is earlier: its range ends at or before the cookie of call k
      have h1 := p2 (by omega)
      have h2 := hmono k hk (k' + 1) (by omega)
      omega
    · have hgt : k < k' := by omega
      rcases hkr with hkeq | ⟨hklt, hbig⟩
      · omega
      · have h2 := hmono k' hk' (k + 1) (by omega)
        omega

/-- Non-vacuity and the shape of the repaired defect: with a budget that admits one entry per
    call, a directory with `.`, `..`, a free slot and two files is listed in four calls. -/
example :
    let slots : List Slot := [⟨7, [46]⟩, ⟨1, [46, 46]⟩, ⟨0, []⟩, ⟨9, [97]⟩, ⟨10, [98]⟩]
    (enumerate (fun c => readdirPage slots c 97) 6 0).2 = true ∧
    (enumerate (fun c => readdirPage slots c 97) 6 0).1.map (·.2) = [128, 256, 512, 640] := by
  decide

/-! ### down to the directory's blocks (model M7e on M7d) -/

open GoNfsd.Model.FileData in
/-- Enumerating a directory AS IT LIES ON DISK — the slots decoded from the bytes of its blocks after
    any history of entry writes and removals — returns every live entry exactly once, with any
    budgets: `enumeration_exact` of the slot list the reference model has, which is what the blocks
    decode to (`Props/C04.directory_blocks_refine_the_slot_list`). -/
theorem enumeration_exact_on_directory_blocks (ops : List DirOp) (ha : DirAllowed F.empty ops) :
    enumerate (fun c => page (slotsOf (ops.foldl F.dirApply F.empty)) c lim1 lim2 inc1 inc2 n1 n2)
        ((ops.foldl slotApply []).length + 1) 0
      = (liveFrom (ops.foldl slotApply []) 0, true) := by
  obtain ⟨_, h2, _⟩ := dir_history_refines ops F.empty empty_inv ⟨0, by simp [F.empty]⟩ ha
  have h0 : slotsOf F.empty = [] := by simp [slotsOf, F.empty]
  rw [h0] at h2
  rw [h2]
  exact (enumeration_exact lim1 lim2 inc1 inc2 n1 n2 (ops.foldl slotApply [])).1

/-! ### the directory a listing reads is the one its lock protects -/

/-- A listing (and the update it is ordered with) works on the cached directory object — size,
    name cache — that `LockInode` fetches from the inode cache.  That object is THE directory only
    if it is fetched while the directory's lock is held: a slot fetched before the lock is granted
    may have been evicted by the time the request runs, and the request then lists (and appends to)
    an orphaned copy — a name twice, or a name missing.  The call order of `Acquire` / `LookupSlot` /
    `Release` in package fstxn is regenerated on every run (`Gen.Skeleton.slotUses`; the model of
    locks and slots together is M8d, `Props/C03`). -/
theorem the_directory_listed_is_the_locked_one :
    ∀ f ∈ GoNfsd.Gen.Skeleton.slotUses, GoNfsd.Model.Skeleton.slotCheck f = true := by decide

example : GoNfsd.Model.Skeleton.slotCheck ("LockInode", [(0, "LookupSlot"), (0, "Acquire")]) = false := by decide

/-! ### entries never move -/

/-- WHY "AN ENTRY THAT STAYS IN ITS SLOT" IS THE RIGHT HYPOTHESIS of `enumeration_exact_dynamic_holds`: cookies are slot
    offsets, and in the reference file system no operation ever MOVES an entry.  For every state, every operation with any
    allocator and slot choices, every live directory and every live slot of it: after the step the slot holds the same entry,
    or is free (the entry was removed), or went with its removed directory — or, in a RENAME only, holds the name that RENAME
    introduced, the old entry having been removed by it.  So an entry that is in the directory before and after a step is in
    the same slot, and whatever happens between two READDIR calls, an entry present throughout keeps its cookie.  (Seeded
    change C13p compacts directories: `RemNameDir` moves the last entry into the freed slot.) -/
theorem no_operation_moves_an_entry (s : GoNfsd.Model.Fs.FS) (op : GoNfsd.Model.Fs.Op) (c : GoNfsd.Model.Fs.Choice) (i k : Nat)
    (a : Slot) (h : (s.get i).slots[k]? = some a) (ha : a.inum ≠ 0) (hl : (s.get i).kind ≠ 0) :
    GoNfsd.Model.Fs.Stays a ((GoNfsd.Model.Fs.step s op c).1.get i) k ∨
      ∃ ffh fname tfh tname b, op = .rename ffh fname tfh tname ∧
        ((GoNfsd.Model.Fs.step s op c).1.get i).slots[k]? = some b ∧ b.name = tname :=
  GoNfsd.Model.Fs.step_entries_stay s op c i k a h ha hl

/-- non-vacuity and the refill case: RENAME b → c in a directory [., .., a, b] with the freed slot of b chosen for c -/
example :
    let s0 := (GoNfsd.Model.Fs.run (GoNfsd.Model.Fs.mkfs true 100000)
      [(.create (GoNfsd.Model.Fs.mkFh 1 1) [97] 0, { inum := 2, slot := 2 }),
       (.create (GoNfsd.Model.Fs.mkFh 1 1) [98] 0, { inum := 3, slot := 3 })]).1
    let s1 := (GoNfsd.Model.Fs.step s0 (.rename (GoNfsd.Model.Fs.mkFh 1 1) [98] (GoNfsd.Model.Fs.mkFh 1 1) [99]) { slot := 3 }).1
    (s0.get 1).slots[2]? = some { inum := 2, name := [97] } ∧ (s1.get 1).slots[2]? = some { inum := 2, name := [97] } ∧
    (s0.get 1).slots[3]? = some { inum := 3, name := [98] } ∧ (s1.get 1).slots[3]? = some { inum := 3, name := [99] } := by decide

/-- THE LOOP BOUND OF EVERY ENUMERATION IS THE DIRECTORY: in every reachable state a directory's size is its number of slots
    times the slot size (`off < dip.Size` visits every slot and no byte beyond), for any history and any choices. -/
theorem directory_size_is_its_slots (u : Bool) (sz : Nat) (ops : List (GoNfsd.Model.Fs.Op × GoNfsd.Model.Fs.Choice)) (i : Nat)
    (hk : ((GoNfsd.Model.Fs.run (GoNfsd.Model.Fs.mkfs u sz) ops).1.get i).kind = GoNfsd.Gen.Consts.NF3DIR) :
    ((GoNfsd.Model.Fs.run (GoNfsd.Model.Fs.mkfs u sz) ops).1.get i).size =
      ((GoNfsd.Model.Fs.run (GoNfsd.Model.Fs.mkfs u sz) ops).1.get i).slots.length * GoNfsd.Gen.Consts.DIRENTSZ :=
  GoNfsd.Model.Fs.run_dirsize _ ops (GoNfsd.Model.Fs.mkfs_dirsize u sz) i hk

/-- A COOKIE ONCE RETURNED STAYS INSIDE THE DIRECTORY: no operation takes slots away from a live directory (it may be
    removed as a whole, which makes its handle stale) — so a cookie a client holds never points beyond the end. -/
theorem a_live_directory_never_loses_slots (s : GoNfsd.Model.Fs.FS) (op : GoNfsd.Model.Fs.Op) (c : GoNfsd.Model.Fs.Choice)
    (i : Nat) (hl : (s.get i).kind ≠ 0) :
    ((GoNfsd.Model.Fs.step s op c).1.get i).kind = 0 ∨
      (s.get i).slots.length ≤ ((GoNfsd.Model.Fs.step s op c).1.get i).slots.length :=
  GoNfsd.Model.Fs.step_grows s op c i hl

/-- … and the refill is what the directory code does: after `RemName` has cleared slot `i > 0` the `Lastoff` hint points at it,
    and the next `AddName` on that directory (the second half of a RENAME inside one directory) writes that very slot — in
    every state reachable by model M8e (`Props/C10.name_cache_is_the_directory`).  The new name appears under the cookie of
    the old one; every other entry keeps its own. -/
theorem a_rename_inside_a_directory_refills_the_slot_of_the_old_name (ops : List GoNfsd.Model.NameCache.Op)
    (name name' : GoNfsd.Model.Fs.Bytes) (inum i : Nat)
    (hr : (GoNfsd.Model.NameCache.remName (GoNfsd.Model.NameCache.run {} ops).cur name).2 = some i) (h0 : i ≠ 0)
    (hl : name'.length ≤ GoNfsd.Gen.Consts.MAXNAMELEN) :
    (GoNfsd.Model.NameCache.addName (GoNfsd.Model.NameCache.remName (GoNfsd.Model.NameCache.run {} ops).cur name).1 inum name').2 = some i :=
  GoNfsd.Model.NameCache.add_after_remove_reuses_the_slot _ name name' inum i
    (GoNfsd.Model.NameCache.run_inv {} ops GoNfsd.Model.NameCache.empty_inv).cur hr h0 hl

end GoNfsd.Props.C13

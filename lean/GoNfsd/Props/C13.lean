/-
C13 — directory enumeration is complete, duplicate-free and terminates.

Property theorems about the paging functions of the reference model (`page`, which models
`dir.ApplyEnts` and `dir.Apply` with their byte accounting; tied to the server by the `seq`
correspondence, which compares every READDIR / READDIRPLUS reply entry by entry, cookie by
cookie, for all budgets and cookies).  All statements hold for BOTH procedures and ALL
budgets because they are proved for `page` with arbitrary limits and increments.
-/
import GoNfsd.Lemmas.Enumerate

namespace GoNfsd.Props.C13
open GoNfsd.Model.Fs GoNfsd.Gen.Consts

variable (lim1 lim2 : Nat) (inc1 inc2 : Nat → Nat) (n1 n2 : Nat)

/-- Soundness of one page: every returned entry is a live slot of the directory, located at
    or after the offset the cookie argument designates, returned with its own inode number and
    name and with the cookie that designates the slot after it; cookies strictly increase. -/
theorem page_sound (slots : List Slot) (cookie : Nat) :
    (∀ e ∈ (page slots cookie lim1 lim2 inc1 inc2 n1 n2).2,
        ∃ j, slots[j]? = some e.1 ∧ e.1.inum ≠ 0 ∧ e.2 = (j + 1) * DIRENTSZ ∧ cookie ≤ j * DIRENTSZ ∧
          cookie < e.2) ∧
    (page slots cookie lim1 lim2 inc1 inc2 n1 n2).2.Pairwise (fun x y => x.2 < y.2) := by
  obtain ⟨k, hk, _, _⟩ := pageGo_prefix cookie lim1 lim2 inc1 inc2 slots 0 n1 n2
  unfold page
  rw [hk]
  constructor
  · intro e he
    obtain ⟨j, h1, h2, h3, h4⟩ := liveFromGo_mem cookie slots 0 e (List.mem_of_mem_take he)
    refine ⟨j, h1, h2, by simpa using h3, by simpa using h4, ?_⟩
    simp at h3 h4
    rw [h3]
    have : j * DIRENTSZ < (j + 1) * DIRENTSZ := by simp [DIRENTSZ]
    omega
  · exact List.Pairwise.sublist (List.take_sublist _ _) (liveFromGo_sorted cookie slots 0).1

/-- Progress: whatever the budgets (even 0), if a live slot exists at or after the cookie's
    offset the page is not empty — the budget test follows the emission — and (soundness) its
    last cookie exceeds the argument, so the next call starts further on. -/
theorem page_progress (slots : List Slot) (cookie : Nat) (j : Nat) (sl : Slot)
    (h : slots[j]? = some sl) (hl : sl.inum ≠ 0) (hs : cookie ≤ j * DIRENTSZ) :
    (page slots cookie lim1 lim2 inc1 inc2 n1 n2).2 ≠ [] := by
  obtain ⟨k, hk, hk2, hk3⟩ := pageGo_prefix cookie lim1 lim2 inc1 inc2 slots 0 n1 n2
  have hm := liveFromGo_complete cookie slots 0 j sl h hl (by simpa using hs)
  unfold page
  cases he : (pageGo cookie lim1 lim2 inc1 inc2 slots 0 n1 n2).1 with
  | true => rw [hk2 he]; intro h0; rw [h0] at hm; simp at hm
  | false =>
    rw [hk]
    exact take_ne_nil _ k (hk3 he).1 (hk3 he).2

/-- End of directory is only reported when every live slot at or after the cookie's offset
    has been returned in this page. -/
theorem page_eof_complete (slots : List Slot) (cookie : Nat)
    (he : (page slots cookie lim1 lim2 inc1 inc2 n1 n2).1 = true) (j : Nat) (sl : Slot)
    (h : slots[j]? = some sl) (hl : sl.inum ≠ 0) (hs : cookie ≤ j * DIRENTSZ) :
    (sl, (j + 1) * DIRENTSZ) ∈ (page slots cookie lim1 lim2 inc1 inc2 n1 n2).2 := by
  obtain ⟨k, hk, hk2, hk3⟩ := pageGo_prefix cookie lim1 lim2 inc1 inc2 slots 0 n1 n2
  have hm := liveFromGo_complete cookie slots 0 j sl h hl (by simpa using hs)
  unfold page at he ⊢
  rw [hk2 he]
  simpa using hm

/-- A page that does not report end of directory has skipped nothing: it holds exactly the
    live slots between the cookie's offset and its own last cookie. -/
theorem page_no_gap (slots : List Slot) (cookie : Nat) (j : Nat) (sl : Slot)
    (h : slots[j]? = some sl) (hl : sl.inum ≠ 0) (hs : cookie ≤ j * DIRENTSZ)
    (hlast : (j + 1) * DIRENTSZ ≤ lastCookie (page slots cookie lim1 lim2 inc1 inc2 n1 n2).2 0) :
    (sl, (j + 1) * DIRENTSZ) ∈ (page slots cookie lim1 lim2 inc1 inc2 n1 n2).2 := by
  obtain ⟨k, hk, hk2, hk3⟩ := pageGo_prefix cookie lim1 lim2 inc1 inc2 slots 0 n1 n2
  have hm := liveFromGo_complete cookie slots 0 j sl h hl (by simpa using hs)
  simp only [Nat.zero_add] at hm
  unfold page at hlast ⊢
  rw [hk] at hlast ⊢
  -- the entry is in the full list; if it were beyond the first k, its cookie would exceed the last one
  have hsorted := (liveFromGo_sorted cookie slots 0).1
  rw [← List.take_append_drop k (liveFromGo cookie slots 0)] at hm hsorted
  rcases List.mem_append.mp hm with hin | hin
  · exact hin
  · exfalso
    have hpw := List.pairwise_append.mp hsorted
    unfold lastCookie at hlast
    cases hl' : (List.take k (liveFromGo cookie slots 0)).getLast? with
    | none =>
      rw [hl'] at hlast
      simp [DIRENTSZ] at hlast
    | some e =>
      rw [hl'] at hlast
      have := hpw.2.2 e (List.mem_of_getLast? hl') _ hin
      simp at this hlast
      omega

/-- Entries never move: adding a name uses a free slot or the end and removing one clears its
    slot; every other slot keeps its offset and content, so cookies stay meaningful across
    changes of the directory. -/
theorem entries_never_move (slots : List Slot) (i : Nat) (s : Slot) (j : Nat) (hj : j ≠ i)
    (hjl : j < slots.length) :
    (putSlot slots i s)[j]? = slots[j]? ∧ (slots.set i freeSlot)[j]? = slots[j]? := by
  unfold putSlot
  constructor
  · split
    · simp [List.getElem?_append_left hjl]
    · simp [List.getElem?_set, Ne.symm hj]
  · simp [List.getElem?_set, Ne.symm hj]

theorem insertion_uses_free_slot_or_end (slots : List Slot) (i : Nat) (h : slotOk slots i = true) :
    i = slots.length ∨ ∃ s, slots[i]? = some s ∧ s.inum = 0 := by
  unfold slotOk at h
  simp at h
  rcases h with h | h
  · exact Or.inl h
  · right
    cases hs : slots[i]? with
    | none => simp [hs] at h
    | some s => exact ⟨s, rfl, by simpa [hs] using h⟩

theorem liveFrom_length_le (slots : List Slot) (ck : Nat) : (liveFrom slots ck).length ≤ slots.length := by
  unfold liveFrom
  suffices ∀ rest idx, (liveFromGo ck rest idx).length ≤ rest.length from this slots 0
  intro rest
  induction rest with
  | nil => intro idx; simp [liveFromGo]
  | cons sl rest ih =>
    intro idx
    unfold liveFromGo
    split
    · have := ih (idx + 1); simp; omega
    · have := ih (idx + 1); simp; omega

/-- Enumeration of a directory that does not change: iterating the page function from cookie 0,
    passing back the cookie of the last entry received, with ANY budgets, ends with
    end-of-directory after at most (number of slots + 1) calls and has then returned every live
    entry exactly once (the result is the list of live slots in slot order, whose cookies are
    strictly increasing — hence no duplicates), each with its own inode number and name. -/
theorem enumeration_exact (slots : List Slot) :
    enumerate (fun c => page slots c lim1 lim2 inc1 inc2 n1 n2) (slots.length + 1) 0
      = (liveFrom slots 0, true) ∧
    (liveFrom slots 0).Pairwise (fun x y => x.2 < y.2) ∧
    (∀ e, e ∈ liveFrom slots 0 ↔
        ∃ j, slots[j]? = some e.1 ∧ e.1.inum ≠ 0 ∧ e.2 = (j + 1) * DIRENTSZ) := by
  refine ⟨enumerate_exact slots lim1 lim2 inc1 inc2 n1 n2 _ 0 ?_, (liveFromGo_sorted 0 slots 0).1, ?_⟩
  · have := liveFrom_length_le slots 0; omega
  · intro e
    constructor
    · intro he
      obtain ⟨j, h1, h2, h3, _⟩ := liveFromGo_mem 0 slots 0 e he
      exact ⟨j, h1, h2, by simpa using h3⟩
    · rintro ⟨j, h1, h2, h3⟩
      have := liveFromGo_complete 0 slots 0 j e.1 h1 h2 (by simp)
      simp only [Nat.zero_add] at this
      rw [← h3] at this
      exact this

/-- The two procedures are instances of `page`. -/
theorem readdir_is_page (slots : List Slot) (cookie count : Nat) :
    readdirPage slots cookie count
      = page slots cookie count (count + 1) (fun l => 16 + l + 8 + 8) (fun _ => 0) 64 0 := rfl

theorem readdirplus_is_page (slots : List Slot) (cookie dircount maxcount : Nat) :
    readdirplusPage slots cookie dircount maxcount
      = page slots cookie dircount maxcount (fun l => 8 + l) (fun l => entryplus3Baggage + l) 0 64 := rfl

/-- PENDING (growth item, stated in full): enumeration of a directory that changes between
    calls.  `ds k` is the slot list seen by call `k`; entries that stay at their slot in all of
    them are returned exactly once and nothing is returned that is not live in the list of the
    call that returned it. -/
def enumeration_exact_dynamic : Prop :=
  ∀ (ds : Nat → List Slot) (calls : Nat) (cookies : Nat → Nat),
    cookies 0 = 0 →
    (∀ k < calls, cookies (k + 1) = lastCookie (page (ds k) (cookies k) lim1 lim2 inc1 inc2 n1 n2).2 (cookies k)) →
    (∀ k < calls, (page (ds k) (cookies k) lim1 lim2 inc1 inc2 n1 n2).1 = false) →
    (page (ds calls) (cookies calls) lim1 lim2 inc1 inc2 n1 n2).1 = true →
    ∀ (j : Nat) (sl : Slot), sl.inum ≠ 0 → (∀ k ≤ calls, (ds k)[j]? = some sl) →
      ∃ k ≤ calls, (sl, (j + 1) * DIRENTSZ) ∈ (page (ds k) (cookies k) lim1 lim2 inc1 inc2 n1 n2).2 ∧
        ∀ k' ≤ calls, k' ≠ k → (sl, (j + 1) * DIRENTSZ) ∉ (page (ds k') (cookies k') lim1 lim2 inc1 inc2 n1 n2).2

/-- Non-vacuity and the shape of the repaired defect: with a budget that admits one entry per
    call, a directory with `.`, `..`, a free slot and two files is listed in four calls. -/
example :
    let slots : List Slot := [⟨7, [46]⟩, ⟨1, [46, 46]⟩, ⟨0, []⟩, ⟨9, [97]⟩, ⟨10, [98]⟩]
    (enumerate (fun c => readdirPage slots c 97) 6 0).2 = true ∧
    (enumerate (fun c => readdirPage slots c 97) 6 0).1.map (·.2) = [128, 256, 512, 640] := by
  decide

end GoNfsd.Props.C13

/-
C10 — the running server and a restart from its disk are indistinguishable.

Three ingredients, each a theorem: (1) the on-disk codecs are bijective on well-formed values
(what is written is what is read back, and re-encoding what was read changes no byte);
(2) the inode-cache protocol keeps every cached inode equal to the logical disk at every
quiescent point, for every sequence of loads, in-place modifications, evictions, commits and
aborts; (3) hence a server rebuilt from the disk reads the same value for every inode.
Tie: `codec` correspondence for (1); for (2)/(3) the `-c10` oracle of the seq harness compares,
at quiescent points, every cached inode / name cache / allocator with the logical disk, and
complete API dumps of the running server with a cleanly restarted one and with one recovered
from a copy of the raw image.
-/
import GoNfsd.Gen.Skeleton
import GoNfsd.Lemmas.Codec
import GoNfsd.Model.Txn
import GoNfsd.Lemmas.AllocTxn
import GoNfsd.Lemmas.Cache
import GoNfsd.Lemmas.NameCache
import GoNfsd.Lemmas.NameCachePage

namespace GoNfsd.Props.C10
open GoNfsd.Model.Codec GoNfsd.Gen.Consts

/-- Decoding an encoded inode gives the inode back, for every well-formed inode. -/
theorem inode_roundtrip (i : DInode) (h : i.wf) : decodeInode (encodeInode i) = i := by
  obtain ⟨h1, h2, h3, h4, h5, h6, h7, h8, h9, h10, h11⟩ := h
  have p32 : (2:Nat) ^ 32 = 256 ^ 4 := by decide
  have p64 : (2:Nat) ^ 64 = 256 ^ 8 := by decide
  rw [p32] at h1 h2 h6 h7 h8 h9
  rw [p64] at h3 h4 h5
  unfold decodeInode encodeInode
  simp only [List.append_assoc, getLe_le _ _ _ h1, getLe_le _ _ _ h2, getLe_le _ _ _ h3, getLe_le _ _ _ h4,
    getLe_le _ _ _ h5, getLe_le _ _ _ h6, getLe_le _ _ _ h7, getLe_le _ _ _ h8, getLe_le _ _ _ h9]
  have := decodeInts_flatMap i.blks [] h11
  rw [h10] at this
  simp only [List.append_nil] at this
  rw [this]

/-- The encoding of an inode is exactly the inode slot size. -/
theorem inode_encoding_size (i : DInode) (h : i.wf) : (encodeInode i).length = INODESZ := by
  obtain ⟨_, _, _, _, _, _, _, _, _, h10, _⟩ := h
  unfold encodeInode
  have : (i.blks.flatMap (le 8)).length = 8 * i.blks.length := by
    induction i.blks with
    | nil => rfl
    | cons b bs ih => simp [List.flatMap_cons, ih]; omega
  simp [this, h10, NBLKINO, INODESZ]

/-- A directory entry with a name that fits decodes to itself and occupies exactly one slot. -/
theorem dirent_roundtrip (inum : Nat) (name : Bytes) (hi : inum < 2 ^ 64) (hn : name.length ≤ MAXNAMELEN) :
    decodeDirEnt (encodeDirEnt inum name) = some (inum, name) ∧
    (encodeDirEnt inum name).length = DIRENTSZ :=
  decode_encode_dirent inum name hi hn

/-- A file handle decodes to the inode number and generation it was made from. -/
theorem fh_roundtrip (inum gen : Nat) (hi : inum < 2 ^ 64) (hg : gen < 2 ^ 64) :
    parseFh (mkFh inum gen) = (inum, gen) ∧ (mkFh inum gen).length = 16 := by
  have p64 : (2:Nat) ^ 64 = 256 ^ 8 := by decide
  rw [p64] at hi hg
  have hlen : (mkFh inum gen).length = 16 := by simp [mkFh]
  refine ⟨?_, hlen⟩
  unfold parseFh
  simp only [hlen, Nat.lt_irrefl, if_false]
  unfold mkFh
  rw [take_append_len _ _ 8 (le_length 8 inum), drop_append_len _ _ 8 (le_length 8 inum),
    List.take_of_length_le (by simp), leNat_le 8 _ hi, leNat_le 8 _ hg]

/-- Re-encoding a decoded integer field changes no byte (so rewriting an inode that was read
    and not changed rewrites the same bytes). -/
theorem field_reencode (bs : Bytes) : le bs.length (leNat bs) = bs := le_leNat bs

section cache
open GoNfsd.Model.Txn
variable {α : Type}

/-- The cache protocol preserves coherence in every step ... -/
theorem step_coherent (s : St α) (op : TOp α) (h : Coherent s) : Coherent (step s op) := by
  obtain ⟨h1, h2⟩ := h
  cases op with
  | load i =>
    refine ⟨?_, ?_⟩
    · intro j v hv
      simp only [step] at hv ⊢
      by_cases hj : j = i
      · subst hj
        simp only [if_true] at hv
        cases hc : s.cache j with
        | some w => simp [hc] at hv; subst hv; exact h1 j w hc
        | none => simp [hc] at hv; subst hv; rfl
      · simp only [hj, if_false] at hv; exact h1 j v hv
    · intro j hb; simp only [step] at hb ⊢; exact List.mem_cons_of_mem _ (h2 j hb)
  | modify i f =>
    simp only [step]
    split
    · rename_i hown
      split
      · rename_i v hc
        refine ⟨?_, ?_⟩
        · intro j w hw
          simp only [St.read] at hw ⊢
          by_cases hj : j = i
          · simp [hj] at hw ⊢; exact hw.symm
          · simp only [hj, if_false] at hw ⊢; exact h1 j w hw
        · intro j hb
          by_cases hj : j = i
          · subst hj; exact hown
          · simp only [hj, if_false] at hb; exact h2 j hb
      · rename_i hc
        refine ⟨?_, ?_⟩
        · intro j w hw
          simp only [St.read] at hw ⊢
          by_cases hj : j = i
          · subst hj; simp [hc] at hw
          · simp only [hj, if_false]; exact h1 j w hw
        · intro j hb
          by_cases hj : j = i
          · subst hj; exact hown
          · simp only [hj, if_false] at hb; exact h2 j hb
    · exact ⟨h1, h2⟩
  | evict i =>
    refine ⟨?_, h2⟩
    intro j v hv
    simp only [step] at hv ⊢
    by_cases hj : j = i
    · simp [hj] at hv
    · simp only [hj, if_false] at hv; exact h1 j v hv
  | commit =>
    refine ⟨?_, by intro j hb; simp [step] at hb⟩
    intro j v hv
    simp only [step, St.read] at hv ⊢
    simp only [Option.getD_none]
    exact h1 j v hv
  | abort =>
    refine ⟨?_, by intro j hb; simp [step] at hb⟩
    intro j v hv
    simp only [step, St.read] at hv ⊢
    simp only [Option.getD_none]
    by_cases hj : j ∈ s.owned
    · simp [hj] at hv
    · simp only [hj, if_false] at hv
      have hb : s.buf j = none := by
        apply Classical.byContradiction; intro hne; exact hj (h2 j hne)
      have := h1 j v hv
      simpa [St.read, hb] using this

/-- ... hence after ANY sequence of loads, in-place modifications, evictions (in any order, any
    cache size), commits and aborts, started from a fresh server: -/
theorem run_coherent (s : St α) (ops : List (TOp α)) (h : Coherent s) : Coherent (run s ops) := by
  induction ops generalizing s with
  | nil => exact h
  | cons op rest ih => exact ih _ (step_coherent s op h)

theorem fresh_coherent (disk : Nat → α) : Coherent (fresh disk) :=
  ⟨by intro i v h; simp [fresh] at h, by intro i h; simp [fresh] at h⟩

/-- at every quiescent point every cached inode equals the logical disk -/
theorem cache_coherent (disk : Nat → α) (ops : List (TOp α)) (hq : Quiescent (run (fresh disk) ops))
    (i : Nat) (v : α) (hc : (run (fresh disk) ops).cache i = some v) : v = (run (fresh disk) ops).disk i := by
  have := (run_coherent _ ops (fresh_coherent disk)).1 i v hc
  simpa [St.read, hq.1 i] using this

/-- ... so a server rebuilt from the disk at that point reads, for every inode, exactly what
    the running server reads (from its cache or from the disk). -/
theorem restart_observational (disk : Nat → α) (ops : List (TOp α))
    (hq : Quiescent (run (fresh disk) ops)) (i : Nat) :
    let s := run (fresh disk) ops
    (step s (.load i)).cache i = (step (fresh s.disk) (.load i)).cache i := by
  intro s
  have hb : s.buf i = none := hq.1 i
  simp only [step, fresh, St.read, if_true]
  cases hc : s.cache i with
  | some v =>
    have := cache_coherent disk ops hq i v hc
    simp only [this]; rfl
  | none => simp [hb]

end cache

/-- Non-vacuity: a concrete well-formed inode and a quiescent state with a non-trivial history. -/
example : (DInode.mk 1 1 3 5000 2 10 20 30 40 [1600, 0, 0, 0, 0, 0, 0, 0, 0, 0]).wf := by
  unfold DInode.wf; decide
example : GoNfsd.Model.Txn.Quiescent
    (GoNfsd.Model.Txn.run (GoNfsd.Model.Txn.fresh (fun _ => (0:Nat)))
      [.load 3, .modify 3 (· + 1), .evict 3, .commit, .load 4, .modify 4 (· + 7), .abort]) := by
  constructor <;> simp [GoNfsd.Model.Txn.run, GoNfsd.Model.Txn.step, GoNfsd.Model.Txn.fresh]

/-! ### the allocators and the bitmaps (model M8b of `alloctxn`) -/

section alloctxn
open GoNfsd.Model.AllocTxn

/-- THE IN-MEMORY ALLOCATORS EQUAL THE ON-DISK BITMAPS WHENEVER NO TRANSACTION IS OPEN — after
    any interleaving of allocations, frees, commits and aborts of any number of concurrent
    transactions (a number allocated and freed by the same transaction included), provided the
    allocator hands out only numbers it holds free and a transaction frees only numbers in use
    that no other open transaction touches.  So a server restarted from the disk (which rebuilds
    the allocators from the bitmaps) has the allocators the running server had. -/
theorem allocators_agree_with_bitmaps_at_quiescence (disk : Nat → Bool) (ops : List AOp)
    (ha : AllowedAll (fresh disk) ops) (hq : Quiescent (GoNfsd.Model.AllocTxn.run (fresh disk) ops)) (n : Nat) :
    (GoNfsd.Model.AllocTxn.run (fresh disk) ops).mem n = (GoNfsd.Model.AllocTxn.run (fresh disk) ops).disk n := by
  have h := (run_inv _ ops (fresh_inv disk) ha).mem_iff n
  have hnone : ¬ ∃ t, n ∈ ((GoNfsd.Model.AllocTxn.run (fresh disk) ops).tx t).1 := by
    rintro ⟨t, ht⟩; rw [hq t] at ht; cases ht
  cases hm : (GoNfsd.Model.AllocTxn.run (fresh disk) ops).mem n <;>
    cases hd : (GoNfsd.Model.AllocTxn.run (fresh disk) ops).disk n
  · rfl
  · exact absurd (h.2 (Or.inl hd)) (by rw [hm]; simp)
  · rcases h.1 hm with h' | h'
    · rw [hd] at h'; cases h'
    · exact absurd h' hnone
  · rfl

/-- … and while transactions are open: the allocator holds exactly the numbers in use on disk
    plus those handed to an open transaction (a number being freed stays unavailable until the
    commit), and no number is in the hands of two transactions. -/
theorem allocator_is_disk_plus_open_allocations (disk : Nat → Bool) (ops : List AOp)
    (ha : AllowedAll (fresh disk) ops) :
    Inv (GoNfsd.Model.AllocTxn.run (fresh disk) ops) :=
  run_inv _ ops (fresh_inv disk) ha

/-- An abort gives back exactly what the transaction had taken: its numbers are free again in
    memory, the disk is untouched (and was never touched on their account). -/
theorem abort_returns_the_allocations (s : St) (t n : Nat) (h : Inv s) (hn : n ∈ (s.tx t).1) :
    (step s (.abort t)).mem n = false ∧ (step s (.abort t)).disk = s.disk ∧ s.disk n = false := by
  refine ⟨?_, rfl, (h.alloc_fresh t n hn).1⟩
  simp only [step, Bool.and_eq_false_iff, Bool.not_eq_false', List.contains_eq_mem, decide_eq_true_eq]
  exact Or.inr hn

/-- Non-vacuity: two interleaved transactions — one allocates 5, frees it again and commits, the
    other allocates 6, frees the in-use number 2 and aborts — are allowed at every step and end
    quiescent. -/
example :
    let disk : Nat → Bool := fun n => decide (n = 0 ∨ n = 2)
    let ops : List AOp := [.alloc 0 5, .alloc 1 6, .free 1 2, .free 0 5, .commit 0, .abort 1]
    AllowedAll (fresh disk) ops ∧ Quiescent (GoNfsd.Model.AllocTxn.run (fresh disk) ops) := by
  intro disk ops
  refine ⟨⟨?_, ?_, ?_, ?_, trivial, trivial, trivial⟩, ?_⟩
  · simp [Allowed, fresh, disk]
  · simp [Allowed, step, fresh, disk]
  · refine ⟨by simp [step, fresh, disk], ?_⟩
    intro u hu
    simp only [step, fresh, setTx, hu, if_false]
    by_cases h0 : u = 0 <;> simp [h0]
  · refine ⟨by simp [step, fresh, disk], ?_⟩
    intro u hu
    simp only [step, fresh, setTx, hu, if_false]
    by_cases h1 : u = 1 <;> simp [h1]
  · intro t
    simp only [ops, GoNfsd.Model.AllocTxn.run, step, fresh, setTx]
    by_cases h0 : t = 0 <;> by_cases h1 : t = 1 <;> simp [h0, h1]

end alloctxn

/-! ### the slot cache underneath (model M8c of `cache.Cache`) -/

/-- A SLOT OF THE CACHE NEVER COMES TO STAND FOR ANOTHER ID: whatever the capacity, the lookups and
    the evictions they cause, two lookups that return the same slot asked for the same id.  (The
    callers keep the slot pointer across blocking disk reads and fill it afterwards: a slot that
    were handed on to another id would receive the wrong inode.) -/
theorem cache_slot_stands_for_one_id (sz : Nat) (ids : List Nat) (i i' t : Nat)
    (h1 : (i, t) ∈ GoNfsd.Model.Cache.pairs ids (GoNfsd.Model.Cache.run (GoNfsd.Model.Cache.mk sz) ids).2)
    (h2 : (i', t) ∈ GoNfsd.Model.Cache.pairs ids (GoNfsd.Model.Cache.run (GoNfsd.Model.Cache.mk sz) ids).2) :
    i = i' :=
  GoNfsd.Model.Cache.slot_stands_for_one_id sz ids i i' t h1 h2

/-- non-vacuity: capacity 2, the least recently used id is evicted and gets a NEW slot later -/
example : (GoNfsd.Model.Cache.run (GoNfsd.Model.Cache.mk 2) [7, 8, 7, 9, 8, 7]).2
    = [some 0, some 1, some 0, some 2, some 3, some 4] := by decide

/-! ### the objects transactions hand to the journal (regenerated from alloctxn, inode, fstxn, dir, nfs, shrinker) -/

/-- Every journal object the file-system layer reads or overwrites has the granularity of the
    lock (or allocator number) that protects it: inode slots, whole blocks, and bitmap updates as
    SINGLE BITS — so two transactions that commit concurrently never hand the journal overlapping
    objects, and `allocators_agree_with_bitmaps_at_quiescence` is not undone when the journal
    installs them.  (Seeded change C04j gathers bitmap updates per byte: the stale byte of one
    transaction overwrites the bits of another.) -/
theorem journal_objects_have_the_granularity_of_their_locks :
    GoNfsd.Gen.Skeleton.journalObjects = GoNfsd.Model.Skeleton.journalObjectsExpected := by decide

/-! ### the name cache of a directory (model M8e of `dir/dcache.go`, `dcache.Dcache`, `AddNameDir`'s hint) -/

section namecache
open GoNfsd.Model.NameCache GoNfsd.Model.Fs
abbrev NOp := GoNfsd.Model.NameCache.Op

/-- THE CACHED DIRECTORY CONTENTS AGREE WITH WHAT IS ON DISK, in every state reachable by lookups, insertions
    (each after the lookup that found nothing, as the nfs layer does), removals, evictions / restarts and aborted
    transactions, in any order and number: the cache holds exactly the live slots — every entry names a live slot
    with that inode number at that offset, every live slot is in the cache, no name twice — and the `Lastoff`
    hint lies inside the directory. -/
theorem name_cache_is_the_directory (ops : List NOp) (c : DC) (h : (run {} ops).cur.dc = some c) :
    (∀ e ∈ c.ents, ∃ sl : Slot, (run {} ops).cur.slots[e.idx]? = some sl ∧ sl.inum ≠ 0 ∧ sl.name = e.name ∧ sl.inum = e.inum) ∧
    (∀ (i : Nat) (sl : Slot), (run {} ops).cur.slots[i]? = some sl → sl.inum ≠ 0 → ({ name := sl.name, inum := sl.inum, idx := i } : Ent) ∈ c.ents) ∧
    c.ents.Pairwise (fun a b => a.name ≠ b.name) ∧
    c.lastoff ≤ (run {} ops).cur.slots.length := by
  have hc := (run_inv {} ops empty_inv).cur.coh c h
  exact ⟨hc.sound, fun i sl hg hl => hc.complete sl.name sl.inum i ⟨sl, hg, hl, rfl, rfl⟩, hc.names, hc.hint⟩

/-- … hence `LookupName`, which trusts the cache, answers in every reachable state — cache present, evicted or
    never built — what a scan of the directory's slots answers: a restart changes no LOOKUP. -/
theorem cached_lookup_is_the_scan (ops : List NOp) (name : GoNfsd.Model.Fs.Bytes) :
    (lookupName (run {} ops).cur name).2 = lookupSlots (run {} ops).cur.slots name :=
  lookupName_eq _ name (run_inv {} ops empty_inv).cur

/-- Names stay unique on disk although uniqueness is checked in the CACHE only. -/
theorem names_unique_under_cached_checks (ops : List NOp) : (liveNames (run {} ops).cur.slots).Nodup :=
  (run_inv {} ops empty_inv).cur.uniq

/-- REFINEMENT: the directory code with its cache, its hint and its reuse of freed slots behaves, for every
    history, as a plain map from names to inode numbers — same replies (slot offsets aside), same map afterwards.
    The specification has no cache: `drop` (eviction, restart) is the identity there, so no history of requests
    can tell a server that was restarted in between from one that was not. -/
theorem directory_refines_a_plain_map (ops : List NOp) :
    absSt (runOut {} ops).1 = (specRun (absSt {}) ops).1 ∧
    (runOut {} ops).2.map Out.noIdx = (specRun (absSt {}) ops).2 :=
  run_refines {} ops empty_inv

theorem dropping_the_cache_is_invisible (s : Spec) : specStep s GoNfsd.Model.NameCache.Op.drop = (s, .unit) := rfl

/-- THE SLOT A NEW NAME GOES TO is free or the position just past the end — whatever the hint: the slot choice
    that the reference model M6 validates (`slotOk`) is what `AddNameDir` computes, no live entry is overwritten. -/
theorem a_new_name_goes_to_a_free_slot (slots : List Slot) (lastoff : Nat) :
    slotOk slots (addSlot slots lastoff) = true := addSlot_ok slots lastoff

/-- and M6's `addName` with that choice is this model's slot write -/
theorem reference_insertion_is_the_cached_insertion (d : Inode) (dc : Option DC) (inum : Nat) (name : GoNfsd.Model.Fs.Bytes)
    (hk : d.kind = GoNfsd.Gen.Consts.NF3DIR) (hl : name.length ≤ GoNfsd.Gen.Consts.MAXNAMELEN) :
    (GoNfsd.Model.Fs.addName d (addSlot d.slots (Dir.cache { slots := d.slots, dc := dc }).lastoff) inum name).map (·.slots) =
      some (GoNfsd.Model.NameCache.addName { slots := d.slots, dc := dc } inum name).1.slots := by
  have hok := addSlot_ok d.slots (Dir.cache { slots := d.slots, dc := dc }).lastoff
  unfold GoNfsd.Model.Fs.addName GoNfsd.Model.NameCache.addName
  have : ¬ name.length > GoNfsd.Gen.Consts.MAXNAMELEN := by omega
  simp [hk, this, hok]

/-- a removal clears a slot inside the directory that holds that very name (the offset comes from the cache) -/
theorem removal_clears_the_slot_of_the_name (ops : List NOp) (name : GoNfsd.Model.Fs.Bytes) (i : Nat)
    (h : (remName (run {} ops).cur name).2 = some i) :
    ∃ sl : Slot, (run {} ops).cur.slots[i]? = some sl ∧ sl.inum ≠ 0 ∧ sl.name = name := by
  obtain ⟨ino, sl, g, l, n, _⟩ := remName_clears_the_name _ name i (run_inv {} ops empty_inv).cur h
  exact ⟨sl, g, l, n⟩

/-- non-vacuity and the quirk of `AddNameDir`: offset 0 doubles as "none found", so after `a` is removed from slot 0
    the hint points at 0 and the next name is appended, not put into the free slot; a cache rebuilt after a drop
    starts with hint 0 as well -/
example :
    let s := run {} [.add [97] 5, .add [98] 6, .rem [97], .add [99] 7, .drop, .add [100] 8, .rem [98], .add [101] 9]
    s.cur.slots = [freeSlot, { inum := 9, name := [101] }, { inum := 7, name := [99] }, { inum := 8, name := [100] }] ∧
    (s.cur.dc.map (·.lastoff)) = some 1 ∧ (lookupName s.cur [99]).2 = some (7, 2) := by decide

/-- an aborted transaction: the directory is as before and the cache is gone -/
example :
    let s := run {} [.add [97] 5, .begin_, .add [98] 6, .rem [97], .abort, .look [98], .look [97]]
    s.cur.slots = [{ inum := 5, name := [97] }] ∧ (lookupName s.cur [98]).2 = none ∧ (lookupName s.cur [97]).2 = some (5, 0) := by decide

/-- WHY AN ABORT MUST FORGET THE CACHED INODE (what `forgetInodes` is for; its unconditional call is checked on the
    regenerated statement lists, `Props/C09.an_abort_forgets_every_inode_of_the_transaction`): a transaction removes
    `a` and aborts; the slots are restored by the journal, but a name cache that survived the abort no longer knows `a` —
    `LookupName` says absent although the name is on disk, and the next CREATE of `a` writes the name a second time.
    (Seeded changes C10m, C12m, C02n, C13n keep cached inodes across some aborts.) -/
theorem a_name_cache_kept_across_an_abort_contradicts_the_directory :
    let s := run {} [.add [97] 5, .begin_, .rem [97]]
    let kept : Dir := { slots := s.saved, dc := s.cur.dc }      -- the abort undoes the slots and KEEPS the cache
    (lookupName kept [97]).2 = none ∧ lookupSlots kept.slots [97] = some (5, 0) ∧
    ((GoNfsd.Model.NameCache.addName kept 6 [97]).1.slots.filter fun sl => sl.inum ≠ 0 ∧ sl.name = [97]).length = 2 := by decide

/-- `mkDcache` IS THE UNBOUNDED LISTING: the code builds the name cache by `ApplyEnts` — the very loop behind READDIR,
    M6's `readdirPage`, tied to the code by every listing reply — with the callback `Dcache.Add`; whenever the budget lies
    above the estimate of the whole directory (the code passes 2^64−1) the result is the cache of model M8e, so
    `name_cache_is_the_directory` speaks about what `mkDcache` builds. -/
theorem mkDcache_is_the_listing_with_an_unbounded_budget (slots : List Slot) (count : Nat) (h : 64 + cost slots < count) :
    buildFromPage slots count = build slots :=
  mkDcache_with_enough_budget_is_build slots count h

/-- a directory of ".", ".." and seventeen names of 112 bytes -/
def longName (k : Nat) : GoNfsd.Model.Fs.Bytes := List.replicate 111 97 ++ [UInt8.ofNat k]
def bigDir : List Slot :=
  [{ inum := 2, name := [46] }, { inum := 1, name := [46, 46] }] ++ (List.range 17).map fun k => { inum := 10 + k, name := longName k }

set_option maxRecDepth 100000 in
/-- … and with the directory's SIZE as the budget (seeded changes C10k / C04l) it is not: `ApplyEnts` charges 32 bytes plus
    the name per entry, a slot has 128, so with names of more than 96 bytes the estimate overtakes the size — the last of
    the seventeen names is on disk and not in the rebuilt cache (the next CREATE of it writes it a second time). -/
theorem a_rebuild_bounded_by_the_directory_size_misses_entries :
    ((buildFromPage bigDir (bigDir.length * DIRENTSZ)).lookup (longName 16)) = none ∧
    lookupSlots bigDir (longName 16) = some (26, 18) := by decide


end namecache

end GoNfsd.Props.C10

/-
C07 — unstable-write contract.

Proof part:
 * the reply of WRITE in the reference model M6 (tied to the code by the operation-sequence
   correspondence, which compares `committed` of every WRITE reply): the committed level
   reported is never weaker than the one requested, and with the server's unstable option off
   it is FILE_SYNC; unstable data is readable immediately (the read of the range just written
   returns the bytes written, whatever the stability level);
 * the write-ahead log (M9): a crash may lose logged updates only as a SUFFIX of the order in
   which they were appended (= the order in which the transactions were acknowledged: `MemAppend`
   assigns positions under the log's lock) — never a hole in the middle — and never anything at or
   below a durable group commit; a flush (`COMMIT`, or any later stable operation: header 1 with
   an end covering everything appended so far, then a barrier) makes everything before it durable.
Oracle part (crash harness, `-mix data`): the recovered state of every crash image equals the
state after k operations with every stable-acknowledged operation (classified by the REPLY's
committed level) among the k; the write verifier differs between server instances.
-/
import GoNfsd.Lemmas.WalCrash
import GoNfsd.Lemmas.Fs
import GoNfsd.Props.C01
import GoNfsd.Gen.Skeleton
import GoNfsd.Model.Skeleton

namespace GoNfsd.Props.C07
open GoNfsd.Model.Wal GoNfsd.Gen.Consts

variable {α : Type}

/-! ### the log: loss is a suffix -/

/-- Loss is a suffix: in every crash state of every reachable protocol state there is a cut `e`
    such that the recovered logical disk contains exactly the updates at positions below `e` —
    so if the update at position `p` is lost (`e ≤ p`), every later one (`p ≤ q`) is lost too, and if
    the one at `q` survives, every earlier one does — and the cut is never below the durable end. -/
theorem loss_is_suffix (base : Nat → α) (U : Nat → Upd α) (s : St) (c : Crash)
    (hr : Reach U s) (hv : c.valid s U) :
    ∃ e, s.eD ≤ e ∧ logical s base U c = spec base U e ∧
      (∀ p q, e ≤ p → p ≤ q → e ≤ q) ∧ (∀ p q, q < e → p ≤ q → p < e) := by
  obtain ⟨e, h1, _, h3⟩ := GoNfsd.Props.C01.wal_crash_safe base U s c hr hv
  exact ⟨e, h1, h3, fun _ _ h1 h2 => Nat.le_trans h1 h2, fun _ _ h1 h2 => Nat.lt_of_le_of_lt h2 h1⟩

/-- COMMIT flushes everything: the logger's group commit — header 1 with end `e`, then a barrier —
    makes `e` the durable end ... -/
theorem commit_flushes_all (s : St) (e : Nat) :
    (step (step s (.hdr1 e)) .barrier).eD = e := by
  simp [step, St.eIssued]

/-- ... and from then on no crash, of this or any later server instance, loses an update below
    `e`: whatever was acknowledged UNSTABLE before the COMMIT (positions below the flushed end)
    survives every crash. -/
theorem committed_data_survives (base : Nat → α) (U : Nat → Upd α) (s s' : St) (e : Nat) (c : Crash)
    (hlater : (step (step s (.hdr1 e)) .barrier).eD ≤ s'.eD) (hr : Reach U s') (hv : c.valid s' U) :
    ∃ e', e ≤ e' ∧ logical s' base U c = spec base U e' := by
  rw [commit_flushes_all] at hlater
  obtain ⟨e', h1, _, h3⟩ := GoNfsd.Props.C01.wal_crash_safe base U s' c hr hv
  exact ⟨e', by omega, h3⟩

/-- Nothing acknowledged as stable is lost: a stable acknowledgement is given only once the
    durable end covers the transaction (`Flush` waits for `diskEnd`), i.e. `n ≤ s.eD`. -/
theorem stable_never_lost (base : Nat → α) (U : Nat → Upd α) (s : St) (c : Crash) (n : Nat)
    (hack : n ≤ s.eD) (hr : Reach U s) (hv : c.valid s U) :
    ∃ e, n ≤ e ∧ logical s base U c = spec base U e :=
  GoNfsd.Props.C01.acknowledged_survives base U s s c n hack (Nat.le_refl _) hr hv

/-! ### the WRITE reply -/

open GoNfsd.Model.Fs in
/-- The committed level reported is the requested one, or FILE_SYNC when the server's unstable
    option is off: in both cases not weaker than requested. -/
theorem committed_level (s s' : FS) (c : Choice) (fh : Bytes) (off count stable : Nat) (data : Array UInt8)
    (n cm sz : Nat) (h : GoNfsd.Model.Fs.step s (.write fh off count stable data) c = (s', .written n cm sz)) :
    cm = (if s.unstable then stable else FILE_SYNC) := by
  unfold GoNfsd.Model.Fs.step at h
  grind

open GoNfsd.Model.Fs in
theorem committed_never_weaker (s s' : FS) (c : Choice) (fh : Bytes) (off count stable : Nat) (data : Array UInt8)
    (n cm sz : Nat) (hs : stable ≤ FILE_SYNC)
    (h : GoNfsd.Model.Fs.step s (.write fh off count stable data) c = (s', .written n cm sz)) : stable ≤ cm := by
  rw [committed_level s s' c fh off count stable data n cm sz h]
  split
  · exact Nat.le_refl _
  · exact hs

open GoNfsd.Model.Fs in
/-- With the unstable option off every successful WRITE reports FILE_SYNC. -/
theorem option_off_file_sync (s s' : FS) (c : Choice) (fh : Bytes) (off count stable : Nat) (data : Array UInt8)
    (n cm sz : Nat) (hu : s.unstable = false)
    (h : GoNfsd.Model.Fs.step s (.write fh off count stable data) c = (s', .written n cm sz)) : cm = FILE_SYNC := by
  rw [committed_level s s' c fh off count stable data n cm sz h, hu]; rfl

open GoNfsd.Model.Fs in
/-- Unstable data is readable immediately: after a successful WRITE of `count > 0` bytes at
    `off` — at ANY stability level, nothing is said about a flush — a READ of the same range from
    the resulting state returns exactly the bytes written. -/
theorem unstable_readable_immediately (s s' : FS) (c c' : Choice) (fh : Bytes) (off count stable : Nat) (data : Array UInt8)
    (n cm sz : Nat) (hpos : 0 < count)
    (h : GoNfsd.Model.Fs.step s (.write fh off count stable data) c = (s', .written n cm sz)) :
    ∃ eof, GoNfsd.Model.Fs.step s' (.read fh off count) c' = (s', .data count eof (data.extract 0 count).toList) := by
  unfold GoNfsd.Model.Fs.step at h
  simp only at h
  split at h
  · simp at h
  · rename_i i hres
    split at h
    · simp at h
    split at h
    · simp at h
    split at h
    · simp at h
    split at h
    · simp at h
    rw [if_neg (by omega)] at h
    simp only [Prod.mk.injEq, Reply.written.injEq] at h
    obtain ⟨hs, _, _, _⟩ := h
    subst hs
    have hsz : (data.extract 0 count).size = count := by simp; omega
    unfold GoNfsd.Model.Fs.step
    simp only
    generalize hx : ({ (s.get i) with content := Ext.write off (data.extract 0 count) :: (s.get i).content, size := max (s.get i).size (off + count) } : Inode) = x
    have hk : x.kind = (s.get i).kind := by subst hx; rfl
    have hg : x.gen = (s.get i).gen := by subst hx; rfl
    have hxs : x.size = max (s.get i).size (off + count) := by subst hx; rfl
    have hxc : x.content = Ext.write off (data.extract 0 count) :: (s.get i).content := by subst hx; rfl
    rw [resolve_set_same s fh i x hres hk hg]
    simp only [get_set, if_true]
    have hw : (s.set i x).wtmax = s.wtmax := rfl
    have hmw : min count s.wtmax = count := by unfold maxWrite at *; omega
    have hn : (if off + count ≥ x.size then x.size - off else count) = count := by
      rw [hxs]; split <;> omega
    refine ⟨false, ?_⟩
    rw [if_neg (by rw [hk]; assumption), if_neg (by rw [hxs]; omega), hw, hmw, hn, hxc]
    have := readBytes_write (s.get i).content off (data.extract 0 count)
    rw [hsz] at this
    rw [this]

/-! ### COMMIT (model M9c of `obj.Log`, Props/C01): since 0fea8f5 a stable transaction of its own -/

/-- COMMIT makes everything acknowledged before it durable in every state the log can be in —
    also right after a transaction the journal refused, where `Flush()` (what COMMIT used to call)
    makes nothing durable (`Props/C01.flush_forgets_after_a_refusal`). -/
theorem commit_makes_everything_before_it_durable (es es' : List GoNfsd.Model.ObjLog.Ev) :
    let t := GoNfsd.Model.ObjLog.step (GoNfsd.Model.ObjLog.run {} es) (.commit true true)
    t.durable = t.next ∧ t.next ≤ (GoNfsd.Model.ObjLog.run t es').durable :=
  GoNfsd.Props.C01.stable_commit_is_durable_whatever_was_remembered es es'

/-- ONLY A WRITE MAY BE ACKNOWLEDGED BEFORE IT IS DURABLE: NFSv3 gives WRITE alone a stability level; every other successful
    reply promises stable storage.  Tables regenerated from the whole module on every run: the journal's `CommitWait` is
    called by `fstxn.commitWait` alone, every committing function of package fstxn waits except `CommitUnstable`, and the
    only function outside fstxn/commit.go that calls `CommitUnstable` is the WRITE handler.  (Seeded change C07r lets a
    SETATTR that sets only times commit through `CommitUnstable`: its reply, and every unstable write acknowledged before
    it, is lost by a crash although no COMMIT was owed for it.) -/
theorem only_write_commits_without_waiting :
    (∀ c ∈ GoNfsd.Gen.Skeleton.unstableCommitters, c ∈ GoNfsd.Model.Skeleton.unstableCommittersAllowed) ∧
    (∀ f ∈ GoNfsd.Gen.Skeleton.commitPaths, GoNfsd.Model.Skeleton.commitPathCheck f = true) ∧
    GoNfsd.Model.Skeleton.unstableCommittersAllowed = ["nfs.NFSPROC3_WRITE"] := by decide

end GoNfsd.Props.C07

/-
C15 — every supported disk size yields a consistent, fully usable file system.

Property theorems only.  The layout definitions (`MkFsSuper`, `FsSuper.*`,
`makeFsPanics`) are REGENERATED from /repo/super/super.go and /repo/nfs/nfs.go on
every run, so these theorems are re-checked against what the code says now.
-/
import GoNfsd.Gen.Super
import GoNfsd.Lemmas.Alloc

namespace GoNfsd.Props.C15
open GoNfsd.Gen.Consts GoNfsd.Gen.Super

/-- A disk size is accepted iff formatting does not panic (negation of the generated
    guard of `nfs.markAlloc`, with the arguments `nfs.makeFs` passes). -/
def accepts (sz : Nat) : Prop := makeFsPanics (MkFsSuper sz) = false

instance (sz : Nat) : Decidable (accepts sz) := by unfold accepts; infer_instance

/-- Closed form of the accepted sizes: the data region starts inside the first bitmap
    block and does not start beyond the end of the disk. -/
theorem accepts_iff (sz : Nat) :
    accepts sz ↔ ((MkFsSuper sz).DataStart ≤ sz ∧ (MkFsSuper sz).DataStart < NBITBLOCK) := by
  simp [accepts, makeFsPanics, markAllocPanics, MkFsSuper, FsSuper.DataStart,
    FsSuper.InodeStart, FsSuper.BitmapInodeStart, FsSuper.BitmapBlockStart, FsSuper.MaxBnum,
    NBITBLOCK, LOGSIZE, NINODEBITMAP, INODESZ, BlockSize]
  omega

/-- The five regions (log, block bitmap, inode bitmap, inode table, data) are consecutive:
    each starts where the previous one ends, the first starts at block 0 and the last ends
    at the end of the disk.  Consecutive half-open intervals are disjoint and cover `[0,sz)`. -/
theorem regions_partition (sz : Nat) (h : accepts sz) :
    let s := MkFsSuper sz
    s.BitmapBlockStart = 0 + s.nLog ∧
    s.BitmapInodeStart = s.BitmapBlockStart + s.NBlockBitmap ∧
    s.InodeStart = s.BitmapInodeStart + s.NInodeBitmap ∧
    s.DataStart = s.InodeStart + s.nInodeBlk ∧
    s.DataStart ≤ s.MaxBnum ∧ s.MaxBnum = sz ∧
    0 < s.nLog ∧ 0 < s.NBlockBitmap ∧ 0 < s.NInodeBitmap ∧ 0 < s.nInodeBlk := by
  have h' := (accepts_iff sz).mp h
  simp only [MkFsSuper, FsSuper.DataStart, FsSuper.InodeStart, FsSuper.BitmapInodeStart,
    FsSuper.BitmapBlockStart, FsSuper.MaxBnum,
    NBITBLOCK, LOGSIZE, NINODEBITMAP, INODESZ, BlockSize, Nat.reduceMul, Nat.reduceDiv, true_and, and_true] at h' ⊢
  omega

/-- The region reserved for the journal is exactly what the write-ahead log uses:
    two header blocks plus `LOGSZ` slots. -/
theorem log_region_is_wal (sz : Nat) :
    (MkFsSuper sz).nLog = WAL_LOGSTART + WAL_LOGSZ ∧ WAL_LOGHDR < WAL_LOGSTART ∧
    WAL_LOGHDR2 < WAL_LOGSTART ∧ WAL_LOGHDR ≠ WAL_LOGHDR2 := by
  simp [MkFsSuper, LOGSIZE, WAL_LOGSTART, WAL_LOGSZ, WAL_LOGHDR, WAL_LOGHDR2]

/-- The block bitmap has a bit for every block of the disk (and at least one more). -/
theorem bitmap_covers (sz : Nat) :
    sz < (MkFsSuper sz).NBlockBitmap * NBITBLOCK := by
  simp only [MkFsSuper, NBITBLOCK]
  omega

/-- The inode bitmap has exactly one bit per inode slot of the inode table. -/
theorem inode_bitmap_covers (sz : Nat) :
    (MkFsSuper sz).NInode = (MkFsSuper sz).NInodeBitmap * NBITBLOCK := by
  simp [MkFsSuper, FsSuper.NInode, NBITBLOCK, NINODEBITMAP, INODESZ, BlockSize, INODEBLK]

/-- Every inode number below `NInode` lives inside the inode table, wholly inside one block. -/
theorem inode_slot_in_table (sz inum : Nat) (hi : inum < (MkFsSuper sz).NInode) :
    let s := MkFsSuper sz
    let a := s.Inum2Addr inum
    s.InodeStart ≤ a.1 ∧ a.1 < s.DataStart ∧ a.2 + INODESZ * 8 ≤ NBITBLOCK ∧ a.2 % 8 = 0 := by
  simp only [MkFsSuper, FsSuper.Inum2Addr, FsSuper.NInode, FsSuper.DataStart, FsSuper.InodeStart,
    FsSuper.BitmapInodeStart, FsSuper.BitmapBlockStart,
    NBITBLOCK, LOGSIZE, NINODEBITMAP, INODESZ, BlockSize, INODEBLK] at hi ⊢
  omega

/-- Two different inode numbers occupy disjoint bit ranges of the disk. -/
theorem inode_slots_disjoint (sz i j : Nat) (hij : i < j) :
    let s := MkFsSuper sz
    let a := s.Inum2Addr i
    let b := s.Inum2Addr j
    a.1 * NBITBLOCK + a.2 + INODESZ * 8 ≤ b.1 * NBITBLOCK + b.2 := by
  simp only [MkFsSuper, FsSuper.Inum2Addr, FsSuper.InodeStart,
    FsSuper.BitmapInodeStart, FsSuper.BitmapBlockStart,
    NBITBLOCK, LOGSIZE, NINODEBITMAP, INODESZ, BlockSize, INODEBLK]
  omega

/-- No intermediate of the layout arithmetic overflows a Go `uint64` for any disk the
    implementation can address (sizes below 2^50 blocks = 4 EiB), so reading the code over
    `Nat` is exact. -/
theorem layout_no_overflow (sz : Nat) (h : sz < 2 ^ 50) :
    let s := MkFsSuper sz
    s.DataStart < 2 ^ 64 ∧ s.NBlockBitmap * NBITBLOCK < 2 ^ 64 ∧
    (NINODEBITMAP * NBITBLOCK) * INODESZ < 2 ^ 64 ∧ usesSubtraction = false := by
  simp only [MkFsSuper, FsSuper.DataStart, FsSuper.InodeStart, FsSuper.BitmapInodeStart,
    FsSuper.BitmapBlockStart, usesSubtraction,
    NBITBLOCK, LOGSIZE, NINODEBITMAP, INODESZ, BlockSize, Nat.reducePow, Nat.reduceMul,
    Nat.reduceDiv, true_and, and_true] at h ⊢
  omega

/-- The hypotheses are satisfiable: the test suite's 10,000-block disk is accepted, and the
    smallest accepted disk is 1539 blocks. -/
example : accepts 10000 := by decide
example : accepts 1539 ∧ ¬ accepts 1538 := by decide

/-- FULLY USABLE, at the allocator: whatever the position of the roving pointer, asking often
    enough hands out EVERY free number — the count of numbers obtained equals the free count, so
    no free block or inode of a freshly formatted (or any other) file system is unreachable for
    the allocator (model M2, tied to the code by the `alloc` correspondence). -/
theorem every_free_number_can_be_allocated (a : GoNfsd.Model.Alloc.Alloc) (k : Nat)
    (h0 : a.bits.getD 0 true = true) (hpos : 0 < a.size) (hn : a.next < a.size) (hk : a.numFree ≤ k) :
    ((a.allocMany k).2).length = a.numFree ∧ ((a.allocMany k).2).Nodup :=
  ⟨GoNfsd.Model.Alloc.Alloc.allocMany_exhausts k a h0 hpos hn hk,
   (GoNfsd.Model.Alloc.Alloc.allocMany_fresh k a h0 hpos).2.1⟩

/-- non-vacuity: a bitmap with the reserved bit and two holes behind the roving pointer -/
example : ((GoNfsd.Model.Alloc.Alloc.allocMany { next := 4, bits := [true, false, true, false, true, true] } 5).2) = [1, 3] := by
  decide

end GoNfsd.Props.C15

/-
C14 — no data races between concurrent RPCs and background threads.

PARTIAL by nature.  What is proved: (1) the lockset discipline implies that conflicting
accesses are ordered by a release→acquire edge (stated over trace timestamps, whose hypotheses
the `locks` driver checks on the recorded lock events of every concurrent run); (2) for the
control skeleton of EVERY function of nfs/, dir/ and shrinker/ — REGENERATED from the source on
every run — no path uses an inode variable after the commit or abort that released its lock
(path-sensitive abstract execution, decided by the kernel).  Outside: the Go memory model
itself, accesses the extractor does not see as inode-variable uses (fields of FsState),
go-journal's internals; (3) the structs with their own mutex (cache.Cache, shrinker.ShrinkerSt)
access the fields that mutex guards only while holding it (`mutex_fields_under_mutex`, same
regenerated-skeleton technique); (4) the fields that sync/atomic alone synchronises (the statistics
counters) are touched through sync/atomic or in function-private copies only
(`atomic_fields_are_only_touched_atomically`, table regenerated with go/types), which rules out
races on them (`atomic_discipline_race_free`).  As search
support the thorough tier runs the concurrent harness under the Go race detector.
-/
import GoNfsd.Gen.Skeleton
import GoNfsd.Model.Skeleton
import GoNfsd.Model.Locks

namespace GoNfsd.Props.C14
open GoNfsd.Model.Skeleton

/-- Lockset discipline ⇒ ordering: if two transactions access object `o` only while holding its
    exclusive lock (accesses `a₁`, `a₂` inside the holding intervals), the accesses are separated
    by a release and a later acquire of that lock — a happens-before edge in Go's memory model
    (sync.Mutex / sync.Cond inside lockmap) — so they do not race. -/
theorem lockset_race_free (acq1 rel1 acq2 rel2 a1 a2 : Nat)
    (hexcl : rel1 < acq2 ∨ rel2 < acq1)
    (ha1 : acq1 ≤ a1 ∧ a1 ≤ rel1) (ha2 : acq2 ≤ a2 ∧ a2 ≤ rel2) :
    (a1 ≤ rel1 ∧ rel1 < acq2 ∧ acq2 ≤ a2) ∨ (a2 ≤ rel2 ∧ rel2 < acq1 ∧ acq1 ≤ a1) := by omega

/-- Every function of the transaction code uses inodes only under their locks: on no path of
    its control skeleton is an inode variable used after the commit or abort that released the
    inode it points to (parameters are locked by the caller).  Decided on the table regenerated
    from the current source. -/
theorem handlers_use_under_lock :
    ∀ h ∈ GoNfsd.Gen.Skeleton.handlers, check h.2 = true := by decide +kernel

/-- Every struct of the module that carries its own mutex (`cache.Cache`, `shrinker.ShrinkerSt`)
    touches the fields the mutex guards — maps, lists, and every field some method assigns — only
    while the mutex is held: on no path of any method is a guarded field read or written before
    `mu.Lock()`, after `mu.Unlock()`, or in a method that neither locks nor is called under the
    lock.  Decided on the skeletons regenerated from the current source. -/
theorem mutex_fields_under_mutex :
    ∀ h ∈ GoNfsd.Gen.Skeleton.mutexHandlers, check h.2 = true := by decide +kernel

/-- the table is not empty, and it does contain guarded fields -/
theorem mutex_table_nonempty :
    0 < GoNfsd.Gen.Skeleton.mutexHandlers.length ∧
    0 < (GoNfsd.Gen.Skeleton.mutexGuardedFields.map (·.2.length)).sum := by decide

/-- non-vacuity: a read of a guarded field before the lock is taken is rejected -/
example : check ([], .seq [.acq "mu", .fin, .seq [.branch [.seq [.use "mu", .ret], .seq []], .acq "mu", .use "mu", .fin]]) = false := by
  decide +kernel

/-- The extractor classified every statement it saw (an unknown construct is a translator
    failure, never a silent skip). -/
theorem extractor_classified_all :
    GoNfsd.Gen.Skeleton.statementsClassified = GoNfsd.Gen.Skeleton.statementsSeen ∧
    0 < GoNfsd.Gen.Skeleton.handlers.length := by decide

/-- The abstract execution does flag a use after release (non-vacuity of the checker): the
    shape of the repaired WRITE handler (attributes built after the commit) is rejected, the
    repaired shape accepted. -/
example : check ([], .seq [.acq "ip", .fin, .use "ip", .ret]) = false := by decide +kernel
example : check ([], .seq [.acq "ip", .use "ip", .fin, .ret]) = true := by decide +kernel
/-- path sensitivity: an error path that ends the transaction, sets `done` and leaves the loop
    does not poison the code after `if done { return }`. -/
example : check ([], .seq [.setFlag "done" false,
    .loop (.seq [.acq "d", .branch [.seq [.fin, .setFlag "done" true, .brk], .seq []], .brk]),
    .branch [.seq [.assume "done" true, .ret], .seq [.assume "done" false]], .use "d", .fin]) = true := by decide +kernel

/-! ### memory that sync/atomic alone synchronises (the statistics counters) -/

/-- one access to a memory cell, as the race detector sees it -/
structure Access where
  thread : Nat
  cell   : Nat
  write  : Bool
  atomic : Bool

/-- two accesses to a cell that no lock orders race when they come from different goroutines, one
    of them writes, and they are not both sync/atomic operations -/
def races (a b : Access) : Prop :=
  a.cell = b.cell ∧ a.thread ≠ b.thread ∧ (a.write = true ∨ b.write = true) ∧ ¬ (a.atomic = true ∧ b.atomic = true)

/-- the discipline the table below is checked for: a cell is either private to one goroutine (a
    local variable of the function) or reached through sync/atomic only -/
def AtomicDiscipline (tr : List Access) : Prop :=
  ∀ a ∈ tr, a.atomic = true ∨ ∀ b ∈ tr, b.cell = a.cell → b.thread = a.thread

/-- under that discipline no two accesses of any execution race -/
theorem atomic_discipline_race_free (tr : List Access) (h : AtomicDiscipline tr) :
    ∀ a ∈ tr, ∀ b ∈ tr, ¬ races a b := by
  intro a ha b hb ⟨hc, ht, _, hna⟩
  rcases h a ha with h1 | h1
  · rcases h b hb with h2 | h2
    · exact hna ⟨h1, h2⟩
    · exact ht (h2 a ha hc)
  · exact ht (h1 b hb hc.symm).symm

/-- and without it they do: a plain read of a counter that another goroutine adds to atomically
    (the seeded change C14k: `for i, op := range ops` copies the counters with plain loads) -/
example : races ⟨1, 7, false, false⟩ ⟨2, 7, true, true⟩ := by
  refine ⟨rfl, by decide, Or.inr rfl, ?_⟩
  intro h; exact absurd h.1 (by decide)

/-- what the code does (table regenerated from the whole module on every run, types by go/types):
    every field that some sync/atomic call synchronises is read and written through sync/atomic
    (0) or inside a variable private to the function (1: a local built by a composite literal,
    `make`, `new`, a zero `var`, or the function's own copy of a value parameter); no function
    reads, writes or COPIES (assignment, range value, argument, value receiver, return) such a
    field where another goroutine can reach it (2). -/
theorem atomic_fields_are_only_touched_atomically :
    ∀ u ∈ GoNfsd.Gen.Skeleton.atomicUses, u.2.1 ≤ 1 := by decide

/-- the table is not empty and does contain atomic accesses -/
theorem atomic_table_nonempty :
    0 < (GoNfsd.Gen.Skeleton.atomicUses.filter (fun u => u.2.1 == 0)).length := by decide

/-! ### state shared by all requests and protected by no lock -/

/-- THE SERVER-WIDE STRUCTS ARE IMMUTABLE ONCE PUBLISHED: `nfs.Nfs`, `fstxn.FsState`, `super.FsSuper`, `simple.Nfs` and
    `kvs.KVS` are reached by every request without any lock (handlers hold the locks of the inodes they touch, and two
    requests on different files share none).  Table regenerated from the whole module on every run (types by go/types):
    every assignment to a field of one of them happens in a function that built the struct itself — its constructor,
    before anybody else can see it — the daemon's option `Unstable`, set by `main` before serving, aside.  No write
    after publication ⇒ no two conflicting accesses ⇒ no race on them, whatever the handlers do concurrently.
    (Seeded change C14m adds a plain flag to `Nfs` that WRITE sets and COMMIT clears.) -/
theorem server_wide_state_is_written_by_its_constructors_only :
    ∀ w ∈ GoNfsd.Gen.Skeleton.fieldWrites, GoNfsd.Model.Skeleton.fieldWriteCheck w = true := by decide

/-- the table is not empty, contains a constructor's write to `nfs.Nfs`, and the checker rejects a handler's write -/
theorem field_write_table_nonempty :
    ("nfs.MakeNfs", "nfs.Nfs", "verf", "local") ∈ GoNfsd.Gen.Skeleton.fieldWrites := by decide

example : GoNfsd.Model.Skeleton.fieldWriteCheck ("nfs.Nfs.NFSPROC3_WRITE", "nfs.Nfs", "pendingUnstable", "shared") = false := by decide
example : GoNfsd.Model.Skeleton.fieldWriteCheck ("inode.Inode.Write", "inode.Inode", "Size", "shared") = true := by decide

/-! ### cached inodes are reached under their lock -/

/-- EVERY ACCESS TO A CACHED INODE IS ORDERED BY THE INODE'S LOCK: an `*inode.Inode` is reached through its cache
    slot only, and in every function of package `fstxn` (table `slotUses`, REGENERATED from fstxn/*.go on every run:
    the calls of `Lockmap.Acquire` / `Release` and `Icache.LookupSlot`, and the calls among the listed functions, in
    source order) the slot is looked up only while the inode's lock is held — so two requests that touch the same
    cached inode, or the slot's `Obj` field itself, are separated by a release → acquire of that lock
    (`lockset_race_free`).  (Seeded change C14o adds `GetInodeCached`, which hands READDIRPLUS the cached inode of an
    entry it cannot lock in order: `Ls3` then reads size, times and link count while CREATE / WRITE / the shrinker
    write them under the lock.) -/
theorem cached_inodes_are_reached_under_their_lock :
    ∀ f ∈ GoNfsd.Gen.Skeleton.slotUses, GoNfsd.Model.Skeleton.slotCheck f = true := by decide

example : GoNfsd.Model.Skeleton.slotCheck ("GetInodeCached", [(0, "LookupSlot")]) = false := by decide
example : ("LockInode", [(0, "Acquire"), (0, "LookupSlot")]) ∈ GoNfsd.Gen.Skeleton.slotUses := by decide

/-- THE MUTEX ASSUMPTION IS NOT A LOOPHOLE: a method that touches guarded fields and never locks is analysed as "called with
    the mutex held" (`cache.Cache.evict`, called by `LookupSlot` under the lock).  That is sound only if nothing but the
    struct's own methods can reach it: table `mutexAssumed`, regenerated on every run, lists every such method with whether
    it is exported and how many plain functions of its package call it; all are internal (the debugging printer
    `PrintCache`, exported but called by `evict` only, aside).  (Seeded change C14q takes the `Lock` / `Unlock` out of the exported `ShrinkerSt.Crash`, which
    writes the flag that the shrinker threads read under the mutex.) -/
theorem methods_assumed_to_hold_the_mutex_are_internal :
    ∀ m ∈ GoNfsd.Gen.Skeleton.mutexAssumed, GoNfsd.Model.Skeleton.mutexAssumedCheck m = true := by decide

example : GoNfsd.Model.Skeleton.mutexAssumedCheck ("mu_shrinker_ShrinkerSt_Crash", true, 0) = false := by decide
example : ("mu_cache_Cache_evict", false, 0) ∈ GoNfsd.Gen.Skeleton.mutexAssumed := by decide

end GoNfsd.Props.C14

/-
C08 — a file handle denotes one object for ever; stale handles stay stale.

Property theorems about the reference model M6 (tied to the server by the `seq`
correspondence, which presents every handle ever issued — live, stale, after inode-number
reuse, across restarts — to every procedure and argument position and compares the replies).
-/
import GoNfsd.Lemmas.FsStep
import GoNfsd.Lemmas.Fh
import GoNfsd.Lemmas.Reveal
import GoNfsd.Gen.Skeleton
import GoNfsd.Model.Skeleton

namespace GoNfsd.Props.C08
open GoNfsd.Model.Fs

/-- A handle is DEAD in a state when it names no inode, or an older generation of its inode
    number than the current one, or the current generation of a number that is free. -/
def Dead (s : FS) (h : Bytes) : Prop :=
  (parseFh h).1 ≥ s.ninode ∨ (parseFh h).2 < (s.get (parseFh h).1).gen ∨
  ((parseFh h).2 = (s.get (parseFh h).1).gen ∧ (s.get (parseFh h).1).kind = 0)

instance (s : FS) (h : Bytes) : Decidable (Dead s h) := by unfold Dead; infer_instance

theorem dead_not_resolve (s : FS) (h : Bytes) (hd : Dead s h) : resolve s h = none := by
  unfold Dead at hd
  unfold resolve
  grind

/-- Generations never decrease, in any step ... -/
theorem gen_monotone (s : FS) (op : Op) (c : Choice) (i : Nat) :
    (s.get i).gen ≤ ((step s op c).1.get i).gen := by
  have := step_gen s op c i
  unfold GenStep at this
  omega

/-- ... every allocation and every free of a number strictly increases its generation ... -/
theorem gen_strictly_increases (s : FS) (op : Op) (c : Choice) (i : Nat)
    (h : ((s.get i).kind = 0) ≠ (((step s op c).1.get i).kind = 0)) :
    (s.get i).gen < ((step s op c).1.get i).gen := by
  have := step_gen s op c i
  unfold GenStep at this
  grind

/-- ... and while an inode stays live its generation does not change, so its handle keeps
    resolving to it (through restarts too: `restart` is an operation like any other). -/
theorem handle_stable (s : FS) (op : Op) (c : Choice) (h : Bytes) (i : Nat)
    (hr : resolve s h = some i) (hl : ((step s op c).1.get i).kind ≠ 0) :
    resolve (step s op c).1 h = some i := by
  have hg := step_gen s op c i
  have hn := step_ninode s op c
  unfold resolve at hr ⊢
  unfold GenStep at hg
  grind

/-- A dead handle stays dead in every step ... -/
theorem dead_preserved (s : FS) (op : Op) (c : Choice) (h : Bytes) (hd : Dead s h) :
    Dead (step s op c).1 h := by
  have hg := step_gen s op c (parseFh h).1
  have hn := step_ninode s op c
  unfold Dead at hd ⊢
  unfold GenStep at hg
  grind

/-- ... hence for ever: after any further history (any operations, choices, restarts,
    re-use of its inode number) it still does not resolve. -/
theorem stale_forever (s : FS) (h : Bytes) (hd : Dead s h) (hist : List (Op × Choice)) :
    Dead (run s hist).1 h ∧ resolve (run s hist).1 h = none := by
  induction hist generalizing s with
  | nil => exact ⟨hd, dead_not_resolve s h hd⟩
  | cons x rest ih =>
    obtain ⟨op, c⟩ := x
    simp only [run]
    exact ih _ (dead_preserved s op c h hd)

/-- A handle that resolved and stops resolving (its object was removed or overwritten) is dead
    from then on. -/
theorem removed_is_dead (s : FS) (op : Op) (c : Choice) (h : Bytes) (i : Nat)
    (hr : resolve s h = some i) (hn : resolve (step s op c).1 h = none) :
    Dead (step s op c).1 h := by
  have hg := step_gen s op c (parseFh h).1
  have hni := step_ninode s op c
  unfold resolve at hr hn
  unfold Dead
  unfold GenStep at hg
  grind

/-- Every use of a dead handle fails, in EVERY procedure and EVERY handle-typed argument
    position: the object of the one-handle procedures, the directory of the name procedures,
    and each of the two directories of RENAME (with any other handle in the other position). -/
theorem dead_handle_refused (s : FS) (c : Choice) (h other : Bytes) (hd : Dead s h)
    (name name2 : Bytes) (n1 n2 n3 : Nat) (sz : Option Nat) (t1 t2 : TimeHow) (d : Array UInt8) :
    (step s (.getattr h) c).2.isOk = false ∧
    (step s (.setattr h sz t1 t2) c).2.isOk = false ∧
    (step s (.lookup h name) c).2.isOk = false ∧
    (step s (.access h) c).2.isOk = false ∧
    (step s (.readlink h) c).2.isOk = false ∧
    (step s (.read h n1 n2) c).2.isOk = false ∧
    (step s (.write h n1 n2 n3 d) c).2.isOk = false ∧
    (step s (.create h name n1) c).2.isOk = false ∧
    (step s (.mkdir h name) c).2.isOk = false ∧
    (step s (.symlink h name d) c).2.isOk = false ∧
    (step s (.mknod h name) c).2.isOk = false ∧
    (step s (.remove h name) c).2.isOk = false ∧
    (step s (.rmdir h name) c).2.isOk = false ∧
    (step s (.rename h name other name2) c).2.isOk = false ∧
    (step s (.rename other name h name2) c).2.isOk = false ∧
    (step s (.link h other name) c).2.isOk = false ∧
    (step s (.readdir h n1 n2) c).2.isOk = false ∧
    (step s (.readdirplus h n1 n2 n3) c).2.isOk = false ∧
    (step s (.fsstat h) c).2.isOk = false ∧
    (step s (.fsinfo h) c).2.isOk = false ∧
    (step s (.pathconf h) c).2.isOk = false ∧
    (step s (.commit h n1 n2) c).2.isOk = false := by
  have hr := dead_not_resolve s h hd
  have hdirs1 : renameDirs s h other = none := by
    unfold Dead at hd; unfold renameDirs resolveNum; grind
  have hdirs2 : renameDirs s other h = none := by
    unfold Dead at hd; unfold renameDirs resolveNum; grind
  refine ⟨?_, ?_, ?_, ?_, ?_, ?_, ?_, ?_, ?_, ?_, ?_, ?_, ?_, ?_, ?_, ?_, ?_, ?_, ?_, ?_, ?_, ?_⟩
  all_goals simp only [step, doCreate, doRemove, doRename, hr, hdirs1, hdirs2]
  all_goals (try split) <;> simp [Reply.isOk]

/-- ... and, being failures, they change nothing (with C09). -/
theorem dead_handle_no_effect (s : FS) (c : Choice) (h : Bytes) (hd : Dead s h) (name : Bytes) :
    (step s (.remove h name) c).1 = s ∧ (step s (.create h name 0) c).1 = s := by
  have := dead_handle_refused s c h h hd name name 0 0 0 none .dont .dont #[]
  exact ⟨step_fail _ _ _ this.2.2.2.2.2.2.2.2.2.2.2.1, step_fail _ _ _ this.2.2.2.2.2.2.2.1⟩

/-- The handle returned by CREATE / MKDIR / SYMLINK carries a generation strictly above the
    current generation of its inode number, so it did not resolve before, resolves to the new
    object now, and differs from every handle that could ever have resolved to that number
    (generation numbers are below 2^64: no inode number is allocated 2^64 times). -/
theorem created_handle_fresh (s : FS) (c : Choice) (dfh name : Bytes) (kind : Nat) (t : Array UInt8)
    (s' : FS) (fh : Bytes) (a : Attr)
    (hc : doCreate s c dfh name kind t = (s', .handle fh a))
    (hb : (s.get c.inum).gen + 1 < 2 ^ 64) (hi : c.inum < 2 ^ 64) (hk : kind ≠ 0) :
    parseFh fh = (c.inum, (s.get c.inum).gen + 1) ∧ resolve s fh = none ∧
    resolve s' fh = some c.inum := by
  obtain ⟨dino, d', hd, _, hne, hfree, hlt, h2, hadd, hs', hfh, _⟩ := doCreate_ok_shape s c dfh name kind t s' fh a hc
  have hp := parseFh_mkFh c.inum ((s.get c.inum).gen + 1) hi hb
  subst hs' hfh
  refine ⟨hp, ?_, ?_⟩
  · unfold resolve; rw [hp]; simp
  · unfold resolve
    rw [hp]
    have : ¬ c.inum ≥ s.ninode := by omega
    simp [get_set, hne.symm, (freshInode_gen_kind _ _ _ _ _).1, (freshInode_gen_kind _ _ _ _ _).2, this, hk]

/-- Non-vacuity: in a freshly formatted file system the handle (inode 5, generation 0) is dead,
    the root handle is not. -/
example : Dead (mkfs true 100000) (mkFh 5 0) := by decide
example : resolve (mkfs true 100000) (mkFh 1 1) = some 1 := by decide

/-! ### a handle another client was given survives a crash (model M14) -/

/-- Keys: the entries of a directory; values: the handles they map to.  Under the discipline of
    `fstxn.commitWait` (locks are given back only after the flush; validated on every recorded
    transaction by the `locks` driver's `earlyReveal`), in every state reachable by any
    interleaving, the handle a LOOKUP or READDIRPLUS finds under the directory's lock is the one
    the recovered server has for that name after a crash at that moment: no client is ever given a
    handle for an object a crash un-creates (whose number and generation the next creation would
    then hand out again).  Directories are never written by unstable WRITEs. -/
theorem a_handle_given_to_another_client_survives_a_crash
    (ops : List GoNfsd.Model.Reveal.Op) (s : GoNfsd.Model.Reveal.St) (t entry : Nat)
    (hd : GoNfsd.Model.Reveal.Disciplined GoNfsd.Model.Reveal.empty ops)
    (hr : GoNfsd.Model.Reveal.run GoNfsd.Model.Reveal.empty ops = some s)
    (hl : s.lock entry = some t) (hp : ∀ c ∈ s.pend, c.1 ≠ t)
    (hu : ∀ c ∈ s.pend, c.2.1 = true → ∀ kv ∈ c.2.2, kv.1 ≠ entry) :
    s.read entry = s.recovered entry :=
  GoNfsd.Model.Reveal.read_is_recovered s t entry
    (GoNfsd.Model.Reveal.run_inv ops _ s GoNfsd.Model.Reveal.empty_inv hd hr) hl hp hu

/-- the seeded change C08k (CREATE commits without waiting and gives the directory back): the
    other client's LOOKUP finds handle 77 under name 5; the recovered server has no such name -/
example : ∃ s, GoNfsd.Model.Reveal.run GoNfsd.Model.Reveal.empty
      [.acquire 1 5, .commit 1 [(5, 77)] false false, .release 1 5, .acquire 2 5] = some s ∧
    s.lock 5 = some 2 ∧ s.read 5 = some 77 ∧ s.recovered 5 = none := ⟨_, rfl, rfl, rfl, rfl⟩

/-! ### a handle resolved again after its locks were given back -/

/-- A HANDLE IS NEVER TRADED FOR ITS INODE NUMBER ALONE.  LOOKUP / REMOVE / RMDIR (through `lookupOrdered`) and RENAME
    give the locks of the inodes they resolved back and lock again BY NUMBER, in ascending order (`lockInodes`: "Caller
    must revalidate inodes").  In between the object may have been removed and its number reused (`stale_forever`: the
    generation then differs).  Table regenerated from nfs/*.go on every run: every function that calls `lockInodes`
    compares generations with the handle afterwards — at least once per such call, `validateRename` (both directories)
    counted — so a dead handle never resolves to the new owner of its number.  (Seeded change C08o passes
    `lookupOrdered` the parent's number instead of its handle and drops the comparison.) -/
theorem handles_are_revalidated_after_locking_by_number :
    (∀ r ∈ GoNfsd.Gen.Skeleton.relockUses, GoNfsd.Model.Skeleton.relockCheck r = true) ∧
    (GoNfsd.Gen.Skeleton.relockUses.map (·.1)).contains "nfs.lookupOrdered" = true ∧
    (GoNfsd.Gen.Skeleton.relockUses.map (·.1)).contains "nfs.NFSPROC3_RENAME" = true ∧
    (GoNfsd.Gen.Skeleton.relockUses.map (·.1)).contains "nfs.validateRename" = true := by decide

example : GoNfsd.Model.Skeleton.relockCheck ("nfs.lookupOrdered", 1, 0) = false := by decide

/-- … and so over every HISTORY: the generation stored for an inode number never decreases, whatever happens to the number —
    any sequence of operations, restarts included.  A handle (number, generation) that was handed out once can therefore be
    matched again only by the object it was handed out for: a later owner of the number has a larger generation
    (`gen_strictly_increases` at every free and every allocation).  (Seeded change C08q zeroes the slot of a freed inode,
    generation included: after a restart the number starts again at generation 1.) -/
theorem generations_never_decrease (s : FS) (ops : List (Op × Choice)) (i : Nat) :
    (s.get i).gen ≤ ((run s ops).1.get i).gen := by
  induction ops generalizing s with
  | nil => exact Nat.le_refl _
  | cons x rest ih =>
    obtain ⟨op, c⟩ := x
    simp only [run]
    exact Nat.le_trans (gen_monotone s op c i) (ih _)

end GoNfsd.Props.C08

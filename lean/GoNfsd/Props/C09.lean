/-
C09 — a failed operation leaves no trace.

Property theorems about the reference model M6 (`Model/Fs.lean`), which is tied to the NFS
server by the `seq` correspondence: every reply of every operation is compared, so the
implementation is observed to fail exactly when the model fails and to continue exactly as
the model continues.  The theorems say what "continue" means after a failure.
-/
import GoNfsd.Lemmas.FsStep
import GoNfsd.Model.Txn
import GoNfsd.Gen.Skeleton
import GoNfsd.Model.Skeleton
import GoNfsd.Lemmas.BlockTree

namespace GoNfsd.Props.C09
open GoNfsd.Model.Fs

/-- An operation whose reply is not OK changes nothing: the successor state IS the state
    before — the whole tree, every file's content and attributes, every generation number
    (so no inode was consumed), for every state, operation, argument and server choice. -/
theorem error_identity (s : FS) (op : Op) (c : Choice) :
    (step s op c).2.isOk = false → (step s op c).1 = s := step_fail s op c

/-- Consequently all later behaviour is exactly as if the failed operation had not been issued:
    any continuation produces the same replies and the same final state. -/
theorem later_behaviour (s : FS) (op : Op) (c : Choice) (rest : List (Op × Choice))
    (h : (step s op c).2.isOk = false) :
    (run s ((op, c) :: rest)).2.tail = (run s rest).2 ∧
    (run s ((op, c) :: rest)).1 = (run s rest).1 := by
  have hs := step_fail s op c h
  simp only [run]
  rw [hs]
  simp

/-- ... and the same holds for a failure anywhere inside a history. -/
theorem failed_ops_can_be_dropped (s : FS) (pre rest : List (Op × Choice)) (op : Op) (c : Choice)
    (h : (step (run s pre).1 op c).2.isOk = false) :
    (run s (pre ++ (op, c) :: rest)).1 = (run s (pre ++ rest)).1 := by
  induction pre generalizing s with
  | nil =>
    simp only [List.nil_append]
    exact (later_behaviour s op c rest (by simpa [run] using h)).2
  | cons x pre ih =>
    obtain ⟨o, ch⟩ := x
    simp only [List.cons_append, run]
    apply ih
    simpa [run] using h

/-- The unsupported procedures and EXCLUSIVE create are refused before anything is looked at. -/
theorem unsupported_no_effect (s : FS) (c : Choice) (fh dfh name : Bytes) :
    step s (.mknod dfh name) c = (s, .fail .notsupp) ∧
    step s (.link fh dfh name) c = (s, .fail .notsupp) ∧
    step s (.fsstat fh) c = (s, .fail .notsupp) ∧
    step s (.create dfh name GoNfsd.Gen.Consts.EXCLUSIVE) c = (s, .fail .notsupp) := by
  simp [step]

/-- Non-vacuity: a concrete failing request in a concrete state (RENAME of a missing name in a
    freshly formatted file system). -/
example : (step (mkfs true 100000) (.rename (mkFh 1 1) [120] (mkFh 1 1) [121]) {}).2.isOk = false := by
  decide

/-! ### below the reference model: what makes "no trace" true in the server -/

section cache
open GoNfsd.Model.Txn
variable {α : Type}

/-- the operations inside a transaction (everything but its end) -/
def TOp.inside : TOp α → Prop
  | .commit => False
  | .abort => False
  | _ => True

theorem inside_keeps_disk (s : St α) (ops : List (TOp α)) (h : ∀ op ∈ ops, TOp.inside op) :
    (GoNfsd.Model.Txn.run s ops).disk = s.disk := by
  induction ops generalizing s with
  | nil => rfl
  | cons op rest ih =>
    simp only [GoNfsd.Model.Txn.run]
    rw [ih _ (fun o ho => h o (List.mem_cons_of_mem _ ho))]
    have := h op (by simp)
    cases op with
    | load i => rfl
    | modify i f =>
      simp only [GoNfsd.Model.Txn.step]
      split
      · split <;> rfl
      · rfl
    | evict i => rfl
    | commit => exact absurd this (by simp [TOp.inside])
    | abort => exact absurd this (by simp [TOp.inside])

theorem inside_keeps_owned_buf (s : St α) (ops : List (TOp α)) (h : ∀ op ∈ ops, TOp.inside op)
    (hc : Coherent s) : Coherent (GoNfsd.Model.Txn.run s ops) := by
  induction ops generalizing s with
  | nil => exact hc
  | cons op rest ih =>
    simp only [GoNfsd.Model.Txn.run]
    refine ih _ (fun o ho => h o (List.mem_cons_of_mem _ ho)) ?_
    -- one step keeps coherence (the protocol invariant of C10, re-proved here for the four inner operations)
    obtain ⟨h1, h2⟩ := hc
    have hin := h op (by simp)
    cases op with
    | load i =>
      refine ⟨?_, ?_⟩
      · intro j v hj
        simp only [GoNfsd.Model.Txn.step] at hj ⊢
        by_cases hji : j = i
        · subst hji
          simp only [if_true] at hj
          cases hcj : s.cache j with
          | none => simp only [hcj, Option.some.injEq] at hj; rw [← hj]; rfl
          | some w => simp only [hcj, Option.some.injEq] at hj; rw [← hj]; exact h1 j w hcj
        · simp only [hji, if_false] at hj
          exact h1 j v hj
      · intro j hj
        simp only [GoNfsd.Model.Txn.step] at hj ⊢
        exact List.mem_cons_of_mem _ (h2 j hj)
    | modify i f =>
      simp only [GoNfsd.Model.Txn.step]
      by_cases ho : i ∈ s.owned
      · simp only [ho, if_true]
        cases hci : s.cache i with
        | some v =>
          simp only
          refine ⟨?_, ?_⟩
          · intro j w hj
            simp only [St.read] at hj ⊢
            by_cases hji : j = i
            · simp only [hji, if_true, Option.some.injEq] at hj ⊢
              simp [hj]
            · simp only [hji, if_false] at hj ⊢
              exact h1 j w hj
          · intro j hj
            by_cases hji : j = i
            · rw [hji]; exact ho
            · simp only [hji, if_false] at hj; exact h2 j hj
        | none =>
          simp only
          refine ⟨?_, ?_⟩
          · intro j w hj
            simp only [St.read] at hj ⊢
            by_cases hji : j = i
            · rw [hji, hci] at hj; cases hj
            · simp only [hji, if_false]; exact h1 j w hj
          · intro j hj
            by_cases hji : j = i
            · rw [hji]; exact ho
            · simp only [hji, if_false] at hj; exact h2 j hj
      · simp only [ho, if_false]; exact ⟨h1, h2⟩
    | evict i =>
      refine ⟨?_, h2⟩
      intro j v hj
      simp only [GoNfsd.Model.Txn.step] at hj ⊢
      by_cases hji : j = i
      · simp [hji] at hj
      · simp only [hji, if_false] at hj; exact h1 j v hj
    | commit => exact absurd hin (by simp [TOp.inside])
    | abort => exact absurd hin (by simp [TOp.inside])

/-- AN ABORTED TRANSACTION LEAVES NO TRACE in the server's state: whatever it loaded, modified
    (in the cached inodes, in place) or lost to eviction meanwhile — after the abort the logical
    disk is what it was, no write is buffered, no lock is held, and every inode still cached
    equals the disk.  (What `forgetInodes` is for: the modified cached copies are dropped.) -/
theorem aborted_transaction_leaves_no_trace (disk : Nat → α) (body : List (TOp α))
    (h : ∀ op ∈ body, TOp.inside op) :
    let s := GoNfsd.Model.Txn.run (fresh disk) (body ++ [.abort])
    s.disk = disk ∧ Quiescent s ∧ ∀ i v, s.cache i = some v → v = disk i := by
  intro s
  have hrun : s = step (GoNfsd.Model.Txn.run (fresh disk) body) .abort := by
    show GoNfsd.Model.Txn.run (fresh disk) (body ++ [.abort]) = _
    have : ∀ (t : St α) (l : List (TOp α)), GoNfsd.Model.Txn.run t (l ++ [.abort]) = step (GoNfsd.Model.Txn.run t l) .abort := by
      intro t l
      induction l generalizing t with
      | nil => rfl
      | cons o r ih => simp only [List.cons_append, GoNfsd.Model.Txn.run]; exact ih _
    exact this _ _
  have hd := inside_keeps_disk (fresh disk) body h
  have hc := inside_keeps_owned_buf (fresh disk) body h ⟨by intro i v h; simp [fresh] at h, by intro i h; simp [fresh] at h⟩
  generalize GoNfsd.Model.Txn.run (fresh disk) body = m at *
  rw [hrun]
  refine ⟨hd, ⟨fun _ => rfl, rfl⟩, ?_⟩
  intro i v hv
  simp only [GoNfsd.Model.Txn.step] at hv
  by_cases ho : i ∈ m.owned
  · simp [ho] at hv
  · simp only [ho, if_false] at hv
    have := hc.1 i v hv
    have hb : m.buf i = none := by
      cases hbi : m.buf i with
      | none => rfl
      | some w => exact absurd (hc.2 i (by rw [hbi]; simp)) ho
    rw [this, St.read, hb]
    simp only [Option.getD_none]
    rw [hd]
    rfl

end cache

open GoNfsd.Model.BlockMap GoNfsd.Gen.Consts in
/-- … and at the block level: a `bmap` that cannot produce its block changes the disk block of NO
    file block (it may have linked index blocks — which is why the request's transaction is
    aborted — but no READ of the file can tell). -/
theorem failed_mapping_moves_no_file_block (s : S) (blks : List Nat) (bn bn' : Nat) (h : WFB s blks)
    (hbn : bn < NDIRECT + NBLKBLK + NBLKBLK * NBLKBLK) (hbn' : bn' < NDIRECT + NBLKBLK + NBLKBLK * NBLKBLK)
    (hfail : (bmap s blks bn).2.2.1 = 0) :
    lookup (bmap s blks bn).1.st (bmap s blks bn).2.1 bn' = lookup s.st blks bn' := by
  rw [lookup_eq_ptr, lookup_eq_ptr]
  obtain ⟨hv, hd⟩ := posOf_valid bn' hbn'
  exact (bmap_ok s blks bn h hbn).miss hfail _ hv hd

/-- what the code does (statement lists of fstxn/commit.go REGENERATED on every run): `Abort` calls `forgetInodes` on
    every path, before it gives the locks back; `forgetInodes` is one loop over ALL inodes of the transaction with no way
    out; and a commit the journal refuses ends in `Abort`.  This is the hypothesis of `aborted_transaction_leaves_no_trace`
    (and of the abort steps of models M8d and M8e): the cached copies an aborted transaction may have changed in place —
    `bmap` stores a freshly allocated index block in the cached inode before anything is dirty — do not survive it.
    (Seeded changes C10m / C12m keep the inodes of a transaction "that wrote nothing".) -/
theorem an_abort_forgets_every_inode_of_the_transaction :
    (∀ f ∈ GoNfsd.Gen.Skeleton.abortPaths, f.1 = "Abort" → GoNfsd.Model.Skeleton.abortForgets f.2 = true) ∧
    (∀ f ∈ GoNfsd.Gen.Skeleton.abortPaths, f.1 = "forgetInodes" → GoNfsd.Model.Skeleton.forgetsAll f.2 = true) ∧
    (∀ f ∈ GoNfsd.Gen.Skeleton.abortPaths, f.1 = "commitWait" → GoNfsd.Model.Skeleton.refusedCommitAborts f.2 = true) ∧
    (GoNfsd.Gen.Skeleton.abortPaths.map (·.1)).contains "Abort" = true ∧
    (GoNfsd.Gen.Skeleton.abortPaths.map (·.1)).contains "forgetInodes" = true ∧
    (GoNfsd.Gen.Skeleton.abortPaths.map (·.1)).contains "commitWait" = true := by decide

/-- the checkers reject the two renderings of "forget only when something is dirty" -/
example : GoNfsd.Model.Skeleton.abortForgets ["call:verifEvent", "if", "call:forgetInodes", "fi", "call:releaseInodes", "call:PostAbort", "call:verifEvent", "return"] = false := by decide
example : GoNfsd.Model.Skeleton.forgetsAll ["if", "return", "fi", "for", "set:LookupSlot", "if", "set", "fi", "rof"] = false := by decide

end GoNfsd.Props.C09

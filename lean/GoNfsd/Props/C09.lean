/-
C09 — a failed operation leaves no trace.

Property theorems about the reference model M6 (`Model/Fs.lean`), which is tied to the NFS
server by the `seq` correspondence: every reply of every operation is compared, so the
implementation is observed to fail exactly when the model fails and to continue exactly as
the model continues.  The theorems say what "continue" means after a failure.
-/
import GoNfsd.Lemmas.FsStep

namespace GoNfsd.Props.C09
open GoNfsd.Model.Fs

/-- An operation whose reply is not OK changes nothing: the successor state IS the state
    before — the whole tree, every file's content and attributes, every generation number
    (so no inode was consumed), for every state, operation, argument and server choice. -/
theorem error_identity (s : FS) (op : Op) (c : Choice) :
    (step s op c).2.isOk = false → (step s op c).1 = s := step_fail s op c

/-- Consequently all later behaviour is exactly as if the failed operation had not been issued:
    any continuation produces the same replies and the same final state. -/
theorem later_behaviour (s : FS) (op : Op) (c : Choice) (rest : List (Op × Choice))
    (h : (step s op c).2.isOk = false) :
    (run s ((op, c) :: rest)).2.tail = (run s rest).2 ∧
    (run s ((op, c) :: rest)).1 = (run s rest).1 := by
  have hs := step_fail s op c h
  simp only [run]
  rw [hs]
  simp

/-- ... and the same holds for a failure anywhere inside a history. -/
theorem failed_ops_can_be_dropped (s : FS) (pre rest : List (Op × Choice)) (op : Op) (c : Choice)
    (h : (step (run s pre).1 op c).2.isOk = false) :
    (run s (pre ++ (op, c) :: rest)).1 = (run s (pre ++ rest)).1 := by
  induction pre generalizing s with
  | nil =>
    simp only [List.nil_append]
    exact (later_behaviour s op c rest (by simpa [run] using h)).2
  | cons x pre ih =>
    obtain ⟨o, ch⟩ := x
    simp only [List.cons_append, run]
    apply ih
    simpa [run] using h

/-- The unsupported procedures and EXCLUSIVE create are refused before anything is looked at. -/
theorem unsupported_no_effect (s : FS) (c : Choice) (fh dfh name : Bytes) :
    step s (.mknod dfh name) c = (s, .fail .notsupp) ∧
    step s (.link fh dfh name) c = (s, .fail .notsupp) ∧
    step s (.fsstat fh) c = (s, .fail .notsupp) ∧
    step s (.create dfh name GoNfsd.Gen.Consts.EXCLUSIVE) c = (s, .fail .notsupp) := by
  simp [step]

/-- Non-vacuity: a concrete failing request in a concrete state (RENAME of a missing name in a
    freshly formatted file system). -/
example : (step (mkfs true 100000) (.rename (mkFh 1 1) [120] (mkFh 1 1) [121]) {}).2.isOk = false := by
  decide

end GoNfsd.Props.C09

/-
C12 — bytes never written read as zero; old data is never exposed.

Byte-level theorems about the reference model M6 (a file's content is the log of its writes
and truncations; the `seq` correspondence compares every READ of the server with it,
including reads of holes, of gaps left by writing or truncating beyond the end, of regions
re-exposed by growing after a shrink, and of blocks recycled from deleted files).
The block-level half is on the block-map model M7: every block freed by a truncation is all
zeros afterwards (`freed_blocks_are_all_zeros`), and truncation writes nothing but zeros.
-/
import GoNfsd.Lemmas.FsStep
import GoNfsd.Lemmas.InoOps

namespace GoNfsd.Props.C12
open GoNfsd.Model.Fs GoNfsd.Gen.Consts

/-- position `i` has been written since the last truncation at or below it -/
def writtenAt : List Ext → Nat → Bool
  | [], _ => false
  | .write off data :: rest, i => (decide (off ≤ i ∧ i < off + data.size)) || writtenAt rest i
  | .trunc n :: rest, i => if n ≤ i then false else writtenAt rest i

/-- A byte that was never written (since the file was last cut at or below it) reads as zero:
    holes, gaps, re-exposed regions — for every history of writes and truncations. -/
theorem never_written_zero (c : List Ext) (i : Nat) (h : writtenAt c i = false) : byteAt c i = 0 := by
  induction c with
  | nil => rfl
  | cons e rest ih =>
    cases e with
    | write off data =>
      simp only [writtenAt, Bool.or_eq_false_iff, decide_eq_false_iff_not] at h
      simp only [byteAt, h.1, if_false]
      exact ih h.2
    | trunc n =>
      simp only [writtenAt] at h
      simp only [byteAt]
      split
      · rfl
      · rename_i hn; simp only [hn, if_false] at h; exact ih h

/-- A byte that was written reads as the data of the latest write covering it. -/
theorem read_last_written (off : Nat) (data : Array UInt8) (c : List Ext) (i : Nat)
    (h : off ≤ i ∧ i < off + data.size) : byteAt (.write off data :: c) i = data.getD (i - off) 0 := by
  simp [byteAt, h]

/-- A write leaves every byte outside its range as it was. -/
theorem write_frame (off : Nat) (data : Array UInt8) (c : List Ext) (i : Nat)
    (h : ¬ (off ≤ i ∧ i < off + data.size)) : byteAt (.write off data :: c) i = byteAt c i := by
  simp [byteAt, h]

/-- Shrinking to ANY size (aligned or not) and growing again exposes zeros: whatever is done
    afterwards short of writing there, every byte at or beyond the cut reads as zero. -/
theorem shrink_then_grow_zero (ino : Inode) (n m i : Nat) (hn : n < ino.size) (hi : n ≤ i) :
    byteAt (resize (resize ino n) m).content i = 0 := by
  simp only [resize, hn, if_true]
  split
  · rename_i hm
    have : m ≤ i := by omega
    simp [byteAt, this]
  · simp [byteAt, hi]

/-- What READ returns is the content, byte for byte. -/
theorem read_bytes_spec (c : List Ext) (off n k : Nat) (hk : k < n) :
    (readBytes c off n)[k]? = some (byteAt c (off + k)) := by
  simp [readBytes, hk]

/-- A freshly created file is empty: all of its bytes read as zero whatever the disk blocks it
    will get held before. -/
theorem created_file_empty (s : FS) (c : Choice) (dfh name : Bytes) (s' : FS) (fh : Bytes) (a : Attr)
    (h : doCreate s c dfh name NF3REG #[] = (s', .handle fh a)) (i : Nat) :
    byteAt (s'.get c.inum).content i = 0 ∧ a.size = 0 := by
  obtain ⟨dino, d', _, _, hne, _, _, _, _, hs', _, ha⟩ := doCreate_ok_shape s c dfh name NF3REG #[] s' fh a h
  subst hs' ha
  have hf : freshInode NF3REG ((s.get c.inum).gen + 1) c.inum dino #[] =
      { kind := NF3REG, gen := (s.get c.inum).gen + 1, size := 0 } := by
    unfold freshInode; simp [NF3REG, NF3DIR, NF3LNK]
  simp [get_set, hne.symm, hf, byteAt, attrOf]

/-- WRITE and SETATTR change the content of the file they name and of no other inode: no file
    ever shows bytes written to a different file. -/
theorem write_touches_one_file (s : FS) (c : Choice) (fh : Bytes) (off count stable : Nat)
    (data : Array UInt8) (i j : Nat) (hr : resolve s fh = some i) (hj : j ≠ i) :
    (step s (.write fh off count stable data) c).1.get j = s.get j := by
  simp only [step, hr]
  grind [get_set]

theorem setattr_touches_one_file (s : FS) (c : Choice) (fh : Bytes) (sz : Option Nat) (t1 t2 : TimeHow)
    (i j : Nat) (hr : resolve s fh = some i) (hj : j ≠ i) :
    (step s (.setattr fh sz t1 t2) c).1.get j = s.get j := by
  simp only [step, hr]
  grind [get_set]

/-- Non-vacuity: the repaired defect's input — write 8192 bytes, cut to 100, grow to 4096 —
    reads zero at position 2000 in the model. -/
example : byteAt (resize (resize { kind := 1, size := 8192, content := [.write 0 (Array.replicate 8192 171)] } 100) 4096).content 2000 = 0 := by
  decide

/-! ### at the block level (model M7): a block changes owner only through zero -/

open GoNfsd.Model.BlockMap in
/-- OLD DATA IS NEVER EXPOSED THROUGH THE ALLOCATOR: every block the run of `Shrink` passes to
    `FreeBlock` — data blocks and index blocks, whatever range the truncation covers — is all
    zeros when the run ends (it was zeroed when it was freed and nothing writes to it afterwards),
    so the next owner of the block, whoever it is, starts from zeros: exactly what the hypothesis
    `WFB.fresh` of the mapping theorems asks of a block the allocator hands out. -/
theorem freed_blocks_are_all_zeros (s : S) (blks : List Nat) (T N b : Nat)
    (h : b ∈ (shrinkTo s blks T N).1.freed) (hnew : b ∉ s.freed) :
    ∀ x, (shrinkTo s blks T N).1.st b x = 0 := by
  rcases shrinkTo_freed_zero T N s blks b h with h1 | h1
  · exact absurd h1 hnew
  · exact h1

open GoNfsd.Model.BlockMap in
/-- … and a block that is still mapped afterwards keeps every cell that is not cleared: the run
    only ever ZEROES cells (it never writes anything else anywhere). -/
theorem truncation_only_zeroes (s : S) (blks : List Nat) (T N y x : Nat) :
    (shrinkTo s blks T N).1.st y x = s.st y x ∨ (shrinkTo s blks T N).1.st y x = 0 :=
  shrinkTo_cells T N s blks y x

end GoNfsd.Props.C12

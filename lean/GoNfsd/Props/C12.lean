/-
C12 — bytes never written read as zero; old data is never exposed.

Byte-level theorems about the reference model M6 (a file's content is the log of its writes
and truncations; the `seq` correspondence compares every READ of the server with it,
including reads of holes, of gaps left by writing or truncating beyond the end, of regions
re-exposed by growing after a shrink, and of blocks recycled from deleted files).
The block-level half is on the block-map model M7: every block freed by a truncation is all
zeros afterwards (`freed_blocks_are_all_zeros`), and truncation writes nothing but zeros.
-/
import GoNfsd.Gen.Skeleton
import GoNfsd.Lemmas.FsStep
import GoNfsd.Lemmas.InoOps
import GoNfsd.Lemmas.FileDataBridge
import GoNfsd.Lemmas.Files
import GoNfsd.Lemmas.FilesBridge
import GoNfsd.Lemmas.AllocTxn

namespace GoNfsd.Props.C12
open GoNfsd.Model.Fs GoNfsd.Gen.Consts

/-- position `i` has been written since the last truncation at or below it -/
def writtenAt : List Ext → Nat → Bool
  | [], _ => false
  | .write off data :: rest, i => (decide (off ≤ i ∧ i < off + data.size)) || writtenAt rest i
  | .trunc n :: rest, i => if n ≤ i then false else writtenAt rest i

/-- A byte that was never written (since the file was last cut at or below it) reads as zero:
    holes, gaps, re-exposed regions — for every history of writes and truncations. -/
theorem never_written_zero (c : List Ext) (i : Nat) (h : writtenAt c i = false) : byteAt c i = 0 := by
  induction c with
  | nil => rfl
  | cons e rest ih =>
    cases e with
    | write off data =>
      simp only [writtenAt, Bool.or_eq_false_iff, decide_eq_false_iff_not] at h
      simp only [byteAt, h.1, if_false]
      exact ih h.2
    | trunc n =>
      simp only [writtenAt] at h
      simp only [byteAt]
      split
      · rfl
      · rename_i hn; simp only [hn, if_false] at h; exact ih h

/-- A byte that was written reads as the data of the latest write covering it. -/
theorem read_last_written (off : Nat) (data : Array UInt8) (c : List Ext) (i : Nat)
    (h : off ≤ i ∧ i < off + data.size) : byteAt (.write off data :: c) i = data.getD (i - off) 0 := by
  simp [byteAt, h]

/-- A write leaves every byte outside its range as it was. -/
theorem write_frame (off : Nat) (data : Array UInt8) (c : List Ext) (i : Nat)
    (h : ¬ (off ≤ i ∧ i < off + data.size)) : byteAt (.write off data :: c) i = byteAt c i := by
  simp [byteAt, h]

/-- Shrinking to ANY size (aligned or not) and growing again exposes zeros: whatever is done
    afterwards short of writing there, every byte at or beyond the cut reads as zero. -/
theorem shrink_then_grow_zero (ino : Inode) (n m i : Nat) (hn : n < ino.size) (hi : n ≤ i) :
    byteAt (resize (resize ino n) m).content i = 0 := by
  simp only [resize, hn, if_true]
  split
  · rename_i hm
    have : m ≤ i := by omega
    simp [byteAt, this]
  · simp [byteAt, hi]

/-- What READ returns is the content, byte for byte. -/
theorem read_bytes_spec (c : List Ext) (off n k : Nat) (hk : k < n) :
    (readBytes c off n)[k]? = some (byteAt c (off + k)) := by
  simp [readBytes, hk]

/-- A freshly created file is empty: all of its bytes read as zero whatever the disk blocks it
    will get held before. -/
theorem created_file_empty (s : FS) (c : Choice) (dfh name : Bytes) (s' : FS) (fh : Bytes) (a : Attr)
    (h : doCreate s c dfh name NF3REG #[] = (s', .handle fh a)) (i : Nat) :
    byteAt (s'.get c.inum).content i = 0 ∧ a.size = 0 := by
  obtain ⟨dino, d', _, _, hne, _, _, _, _, hs', _, ha⟩ := doCreate_ok_shape s c dfh name NF3REG #[] s' fh a h
  subst hs' ha
  have hf : freshInode NF3REG ((s.get c.inum).gen + 1) c.inum dino #[] =
      { kind := NF3REG, gen := (s.get c.inum).gen + 1, size := 0 } := by
    unfold freshInode; simp [NF3REG, NF3DIR, NF3LNK]
  simp [get_set, hne.symm, hf, byteAt, attrOf]

/-- WRITE and SETATTR change the content of the file they name and of no other inode: no file
    ever shows bytes written to a different file. -/
theorem write_touches_one_file (s : FS) (c : Choice) (fh : Bytes) (off count stable : Nat)
    (data : Array UInt8) (i j : Nat) (hr : resolve s fh = some i) (hj : j ≠ i) :
    (step s (.write fh off count stable data) c).1.get j = s.get j := by
  simp only [step, hr]
  grind [get_set]

theorem setattr_touches_one_file (s : FS) (c : Choice) (fh : Bytes) (sz : Option Nat) (t1 t2 : TimeHow)
    (i j : Nat) (hr : resolve s fh = some i) (hj : j ≠ i) :
    (step s (.setattr fh sz t1 t2) c).1.get j = s.get j := by
  simp only [step, hr]
  grind [get_set]

/-- Non-vacuity: the repaired defect's input — write 8192 bytes, cut to 100, grow to 4096 —
    reads zero at position 2000 in the model. -/
example : byteAt (resize (resize { kind := 1, size := 8192, content := [.write 0 (Array.replicate 8192 171)] } 100) 4096).content 2000 = 0 := by
  decide

/-! ### at the block level (model M7): a block changes owner only through zero -/

open GoNfsd.Model.BlockMap in
/-- OLD DATA IS NEVER EXPOSED THROUGH THE ALLOCATOR: every block the run of `Shrink` passes to
    `FreeBlock` — data blocks and index blocks, whatever range the truncation covers — is all
    zeros when the run ends (it was zeroed when it was freed and nothing writes to it afterwards),
    so the next owner of the block, whoever it is, starts from zeros: exactly what the hypothesis
    `WFB.fresh` of the mapping theorems asks of a block the allocator hands out. -/
theorem freed_blocks_are_all_zeros (s : S) (blks : List Nat) (T N b : Nat)
    (h : b ∈ (shrinkTo s blks T N).1.freed) (hnew : b ∉ s.freed) :
    ∀ x, (shrinkTo s blks T N).1.st b x = 0 := by
  rcases shrinkTo_freed_zero T N s blks b h with h1 | h1
  · exact absurd h1 hnew
  · exact h1

open GoNfsd.Model.BlockMap in
/-- … and a block that is still mapped afterwards keeps every cell that is not cleared: the run
    only ever ZEROES cells (it never writes anything else anywhere). -/
theorem truncation_only_zeroes (s : S) (blks : List Nat) (T N y x : Nat) :
    (shrinkTo s blks T N).1.st y x = s.st y x ∨ (shrinkTo s blks T N).1.st y x = 0 :=
  shrinkTo_cells T N s blks y x

/-! ### at the byte level of the blocks (model M7d): the data path of Write / Read / Resize

A file as disk blocks: a map from file blocks to disk blocks (the pointer tree of M7 read at its
data positions: `pointer_tree_step_is_the_mapping_step`), the bytes of the blocks, a size.  The
three theorems below say that this file shows, byte for byte, what the content log of the
reference model M6 says — whose READ replies the correspondence compares with the server. -/
section blocks
open GoNfsd.Model.FileData

/-- A WRITE shows exactly its bytes and moves no other byte — not in the blocks it fills, not in
    the blocks it maps (they come zeroed from the allocator), not in the gap it may leave behind
    the old end of the file — for every offset, length, block layout and set of holes. -/
theorem block_level_write_shows_exactly_its_bytes (f : F) (fresh : Nat → Nat) (off : Nat)
    (bytes : List UInt8) (h : Inv f) (hf : FreshOK f fresh) (p : Nat) :
    (f.write fresh off bytes).byte p =
      if off ≤ p ∧ p < off + bytes.length then bytes.getD (p - off) 0 else f.byte p :=
  write_byte f fresh off bytes h hf p

/-- A truncation cuts the file off — also INSIDE the last block, whose rest is cleared — and growing
    a file exposes zeros: never what the blocks held before. -/
theorem block_level_resize_cuts_and_exposes_zeros (f : F) (n : Nat) (h : Inv f) (p : Nat) :
    (f.resize n).byte p = if n ≤ p then 0 else f.byte p := resize_byte f n h p

/-- A READ over holes maps them (the code allocates in `Read`): what it maps is all zeros, so no
    byte of the file changes — the READ, and every later one, sees zeros there. -/
theorem block_level_hole_filling_changes_no_byte (f : F) (fresh : Nat → Nat) (i : Nat) (h : Inv f)
    (hf : FreshOK f fresh) :
    Inv (f.ensure i (fresh i)) ∧ ∀ p, (f.ensure i (fresh i)).byte p = f.byte p := by
  have hs : (f.ensure i (fresh i)).size = f.size := by unfold F.ensure; split <;> rfl
  refine ⟨⟨ensure_inj f fresh i h.inj hf, fun p hp => ?_⟩, fun p => ?_⟩
  · rw [ensure_cell f fresh i hf p]; exact h.tail p (by rw [hs] at hp; exact hp)
  · unfold F.byte; rw [hs, ensure_cell f fresh i hf p]

/-- ... and both keep the invariant they need (no block serves two file blocks; beyond the size
    the file's blocks hold zeros), so the statements compose over any history. -/
theorem block_level_invariant_is_kept (f : F) (h : Inv f) :
    (∀ fresh off bytes, FreshOK f fresh → Inv (f.write fresh off bytes)) ∧ (∀ n, Inv (f.resize n)) :=
  ⟨fun fresh off bytes hf => write_inv f fresh off bytes h hf, fun n => resize_inv f n h⟩

/-- REFINEMENT: after ANY history of writes and size changes the block-level file and the content
    log of the reference model agree on the size and on every byte, hence on every READ. -/
theorem block_level_file_refines_the_content_log (ops : List DOp) (hf : FreshAll F.empty ops) :
    let f := ops.foldl F.apply F.empty
    let cs := ops.foldl logApply ([], 0)
    f.size = cs.2 ∧ (∀ p, f.byte p = byteAt cs.1 p) ∧ ∀ off n, f.read off n = readBytes cs.1 off n := by
  obtain ⟨_, hr⟩ := history_refines ops F.empty ([], 0) empty_inv empty_rel hf
  exact ⟨hr.1, hr.2, fun off n => read_refines _ _ _ off n hr⟩

open GoNfsd.Model.BlockMap in
/-- The map M7d works with is M7's pointer tree: one `bmap` (any depth: direct, indirect, double
    indirect, with whatever index blocks it has to allocate on the way) is one `ensure` — the file
    block asked for gets the returned block if it was a hole, no other file block moves — and the
    injectivity M7d needs is part of M7's well-formedness. -/
theorem pointer_tree_step_is_the_mapping_step (s : S) (blks : List Nat) (bn : Nat)
    (data : Nat → Nat → UInt8) (size : Nat) (h : WFB s blks) (hbn : bn < MAXB) :
    (F.mk (mapOf (bmap s blks bn).1 (bmap s blks bn).2.1) data size).map =
      ((F.mk (mapOf s blks) data size).ensure bn (bmap s blks bn).2.2.1).map ∧
    Inj (F.mk (mapOf s blks) data size) :=
  ⟨bmap_refines_ensure s blks bn data size h hbn, inj_of_WFB s blks data size h⟩

/-- Non-vacuity: the shape of the seeded change C12h — write, cut INSIDE the block, grow — with an
    allocator stream that satisfies the hypotheses: the re-exposed position reads zero. -/
def h12 : List DOp := [.write (fun i => 100 + i) 0 #[0xe2, 0xe2, 0xe2, 0xe2, 0xe2, 0xe2, 0xe2, 0xe2], .resize 5, .resize 20]
example : FreshAll F.empty h12 := by
  refine ⟨?_, trivial, trivial, trivial⟩
  intro i _
  refine ⟨?_, fun j => ?_, fun o => rfl, fun j _ e => ?_⟩
  · show 100 + i ≠ 0; omega
  · show (0 : Nat) ≠ 100 + i; omega
  · have e' : 100 + j = 100 + i := e
    omega
example : ((h12.foldl F.apply F.empty).byte 6, (h12.foldl F.apply F.empty).byte 3) = (0, 0xe2) := by
  decide

/-! #### many files on one disk: blocks change owner, bytes never do -/

/-- That a block the allocator hands out holds zero BYTES is not assumed: it follows from the
    invariant "a block nobody owns holds zeros" (true of a formatted disk, kept because `FreeBlock`
    clears what `Resize` gives back).  What is asked of the allocator is only what M2 proves of it:
    a real block, owned by nobody, none twice. -/
theorem fresh_blocks_hold_zero_bytes (g : G) (h : GInv g) (a : Nat) (fresh : Nat → Nat)
    (hf : GFresh g a fresh) : FreshOK (g.file a) fresh := freshOK_of_GFresh g h a fresh hf

/-- A WRITE to one file and a size change of one file (also to 0: the content of a removed file)
    change no byte of any other file — whatever blocks they take from or give back to the
    allocator — and keep the invariant. -/
theorem one_file_changes_no_byte_of_another (g : G) (a : Nat) (h : GInv g) :
    (∀ fresh off bytes, GFresh g a fresh →
      GInv (g.write a fresh off bytes) ∧
      ∀ b, b ≠ a → ∀ p, ((g.write a fresh off bytes).file b).byte p = (g.file b).byte p) ∧
    (∀ n, GInv (g.resize a n) ∧ ∀ b, b ≠ a → ∀ p, ((g.resize a n).file b).byte p = (g.file b).byte p) :=
  ⟨fun fresh off bytes hf => ⟨(gwrite_ok g a fresh off bytes h hf).1, (gwrite_ok g a fresh off bytes h hf).2.2⟩,
   fun n => ⟨(gresize_ok g a n h).1, (gresize_ok g a n h).2.2⟩⟩

/-- OLD DATA IS NEVER EXPOSED, at the level of disk blocks: on a disk shared by any number of
    files, after ANY history of writes, truncations, growths and removals of content — blocks
    freed by one file and handed to another any number of times — EVERY file shows, byte for byte
    and in every READ, exactly its own content log (the reference model M6), in which a byte never
    written reads as zero (`never_written_zero`). -/
theorem no_file_ever_shows_foreign_bytes (ops : List GOp) (hf : GFreshAll G.empty ops) (a : Nat) :
    let g := ops.foldl G.apply G.empty
    let L := ops.foldl logsApply (fun _ => ([], 0))
    (g.file a).size = (L a).2 ∧ (∀ p, (g.file a).byte p = byteAt (L a).1 p) ∧
    ∀ off n, (g.file a).read off n = readBytes (L a).1 off n := by
  obtain ⟨_, hr⟩ := ghistory_refines ops G.empty (fun _ => ([], 0)) gempty_inv gempty_rel hf
  exact ⟨(hr a).1, (hr a).2, fun off n => read_refines _ _ _ off n (hr a)⟩

open GoNfsd.Model.BlockMap in
/-- The block maps `G` works with are the pointer trees of the many-file tree model: its "one owner
    across files" is `MWF`'s (direct, indirect and double-indirect positions alike), and one `bmap`
    on the tree of a file is `ensure` on that file's map and nothing on any other file's. -/
theorem many_files_maps_are_the_pointer_trees (s : S) (roots : Nat → List Nat) (h : MWF s roots) :
    (∀ a i b j, gmaps s roots a i ≠ 0 → gmaps s roots a i = gmaps s roots b j → a = b ∧ i = j) ∧
    ∀ a bn, bn < MAXB → ∀ b j,
      gmaps (bmap s (roots a) bn).1 (setRoots roots a (bmap s (roots a) bn).2.1) b j =
        if b = a ∧ gmaps s roots a bn = 0 ∧ j = bn then (bmap s (roots a) bn).2.2.1 else gmaps s roots b j :=
  ⟨ginj_of_MWF s roots h, fun a bn hbn b j => mbmap_is_gensure s roots a bn h hbn b j⟩

open GoNfsd.Model.BlockMap in
/-- ... and the run of `Shrink` on the tree of one file is the `map` part of `resize` on that file
    (the blocks from the new block count on become holes) and nothing on any other file's map. -/
theorem truncation_on_the_pointer_trees_is_resize_on_the_maps (s : S) (roots : Nat → List Nat) (a T N : Nat)
    (h : MWF s roots) (hN : N ≤ MAXBLKS) (hemp : EmptyFrom s.st (roots a) N) (b j : Nat) :
    gmaps (shrinkTo s (roots a) T N).1 (setRoots roots a (shrinkTo s (roots a) T N).2) b j =
      if b = a ∧ T ≤ j then 0 else gmaps s roots b j :=
  mshrink_is_gunmap s roots a T N h hN hemp b j

/-- Non-vacuity: file 1 writes, is cut to nothing (its block 100 goes back, cleared), file 2 takes
    the SAME block 100 and grows over it: file 2 reads zeros where file 1's bytes were. -/
def g12 : List GOp := [.write 1 (fun i => 100 + i) 0 #[0xaa, 0xaa, 0xaa, 0xaa], .resize 1 0,
  .write 2 (fun i => 100 + i) 0 #[0xbb], .resize 2 4]
example : GFreshAll G.empty g12 := by
  refine ⟨?_, trivial, ?_, trivial, trivial⟩
  · intro i _
    exact ⟨by show 100 + i ≠ 0; omega, fun b j => by show (0 : Nat) ≠ 100 + i; omega,
      fun j _ e => by have e' : 100 + j = 100 + i := e; omega⟩
  · intro i _
    refine ⟨by show 100 + i ≠ 0; omega, fun b j => ?_, fun j _ e => by have e' : 100 + j = 100 + i := e; omega⟩
    -- after the truncation to 0 nobody owns anything
    have : ∀ b j, (((G.empty.write 1 (fun i => 100 + i) 0 [0xaa, 0xaa, 0xaa, 0xaa]).resize 1 0).maps b j) = 0 := by
      intro b j
      by_cases hb : b = 1
      · subst hb
        simp [G.resize, G.setFile, F.resizeZ, resize_map, roundUp, BS, G.file, G.write, F.write]
      · simp [G.resize, G.setFile, G.write, G.empty, hb]
    show ((G.empty.write 1 (fun i => 100 + i) 0 [0xaa, 0xaa, 0xaa, 0xaa]).resize 1 0).maps b j ≠ 100 + i
    rw [this]; omega
example : ((g12.foldl G.apply G.empty).maps 2 0, ((g12.foldl G.apply G.empty).file 2).read 0 4) =
    (100, [0xbb, 0, 0, 0]) := by decide +kernel

end blocks

/-! ### the inode a request reads and writes is the one its lock protects -/

/-- A request trusts the cached inode — size, block pointers — that `LockInode` fetches from the
    inode cache, and writes it back.  That object is THE inode only if it is fetched while the
    inode's lock is held: a slot fetched before the lock is granted may have been evicted by the
    time the request runs; writing the orphaned copy back resurrects a truncated file's size and
    pointers, and the file then shows whatever the next owner of those blocks writes.  The call
    order of `Acquire` / `LookupSlot` / `Release` in package fstxn is regenerated on every run
    (`Gen.Skeleton.slotUses`; model M8d in `Props/C03`). -/
theorem the_inode_written_back_is_the_locked_one :
    ∀ f ∈ GoNfsd.Gen.Skeleton.slotUses, GoNfsd.Model.Skeleton.slotCheck f = true := by decide

example : GoNfsd.Model.Skeleton.slotCheck ("LockInode", [(0, "LookupSlot"), (0, "Acquire")]) = false := by decide

/-! ### when a freed block becomes available (allocation discipline, model M8b) -/

/-- A BLOCK A TRANSACTION FREES IS UNAVAILABLE UNTIL THAT TRANSACTION HAS COMMITTED: in every state reachable by any
    interleaving of allocations, frees, commits and aborts of concurrently open transactions, a number in the free list of an
    open transaction is still held in use by the in-memory allocator, and no other open transaction has it in a list.  So
    nobody is handed the block while its zero image (`FreeBlock` zeroes it in the freeing transaction's own buffers) and its
    free bit are not yet in the journal — the new owner of a block always reads zeros (`fresh_blocks_hold_zero_bytes`).  Tied
    to the code by the `atxn` correspondence, which observes allocator and bitmap also BETWEEN `PreCommit` and the
    journal's commit.  (Seeded change C12q releases the freed numbers at the end of `PreCommit`.) -/
theorem a_freed_block_is_unavailable_until_its_commit (disk : Nat → Bool) (ops : List GoNfsd.Model.AllocTxn.AOp)
    (ha : GoNfsd.Model.AllocTxn.AllowedAll (GoNfsd.Model.AllocTxn.fresh disk) ops) (t n : Nat)
    (hn : n ∈ ((GoNfsd.Model.AllocTxn.run (GoNfsd.Model.AllocTxn.fresh disk) ops).tx t).2) :
    (GoNfsd.Model.AllocTxn.run (GoNfsd.Model.AllocTxn.fresh disk) ops).mem n = true ∧
    ∀ u, u ≠ t → n ∉ ((GoNfsd.Model.AllocTxn.run (GoNfsd.Model.AllocTxn.fresh disk) ops).tx u).1 ∧
                 n ∉ ((GoNfsd.Model.AllocTxn.run (GoNfsd.Model.AllocTxn.fresh disk) ops).tx u).2 :=
  (GoNfsd.Model.AllocTxn.run_inv _ ops (GoNfsd.Model.AllocTxn.fresh_inv disk) ha).free_owned t n hn

end GoNfsd.Props.C12

/-
C02 — sequential NFSv3 semantics match a reference file system.

C02 is a refinement statement: the deciding half is the `seq` correspondence (every reply of
every operation of generated histories is compared with the reference model M6, through
restarts).  The theorems here establish that the reference IS a plain file system: what was
written is read back, what was created is found, read-only procedures and restarts change
nothing, refused procedures have no effect.
-/
import GoNfsd.Lemmas.DirData
import GoNfsd.Lemmas.Files
import GoNfsd.Lemmas.Lookup
import GoNfsd.Lemmas.BlockMap
import GoNfsd.Lemmas.Names
import GoNfsd.Lemmas.Rename
import GoNfsd.Lemmas.BlockTree

namespace GoNfsd.Props.C02
open GoNfsd.Model.Fs GoNfsd.Gen.Consts

/-- The procedures that only look: GETATTR, LOOKUP, ACCESS, READLINK, READ, READDIR,
    READDIRPLUS, FSINFO, PATHCONF, COMMIT, MNT — and a restart — leave the state as it is,
    for every argument. -/
theorem read_only_ops (s : FS) (c : Choice) (fh name : Bytes) (a b d : Nat) :
    (step s (.getattr fh) c).1 = s ∧ (step s (.lookup fh name) c).1 = s ∧
    (step s (.access fh) c).1 = s ∧ (step s (.readlink fh) c).1 = s ∧
    (step s (.read fh a b) c).1 = s ∧ (step s (.readdir fh a b) c).1 = s ∧
    (step s (.readdirplus fh a b d) c).1 = s ∧ (step s (.fsinfo fh) c).1 = s ∧
    (step s (.pathconf fh) c).1 = s ∧ (step s (.commit fh a b) c).1 = s ∧
    (step s (.mnt name) c).1 = s ∧ (step s .restart c).1 = s := by
  refine ⟨?_, ?_, ?_, ?_, ?_, ?_, ?_, ?_, ?_, ?_, ?_, ?_⟩
  all_goals simp only [step]
  all_goals grind

/-- A clean restart is the identity on everything a client can observe. -/
theorem restart_identity (s : FS) (c : Choice) : step s .restart c = (s, .done) := rfl

theorem readBytes_write_same (off : Nat) (d : Array UInt8) (c : List Ext) :
    readBytes (.write off d :: c) off d.size = d.toList := by
  apply List.ext_getElem
  · simp [readBytes]
  · intro k h1 h2
    simp [readBytes] at h1
    simp [readBytes, byteAt, h1]

/-- READ returns exactly the bytes last written: after a successful WRITE of `count > 0`
    bytes, READ of the same range returns the first `count` bytes of the data supplied (and not
    end-of-file), whatever was there before (holes, old data, beyond the old end). -/
theorem write_then_read (s : FS) (c c' : Choice) (fh : Bytes) (off count stable : Nat) (data : Array UInt8)
    (n cm sz : Nat) (hpos : 0 < count)
    (hw : (step s (.write fh off count stable data) c).2 = .written n cm sz) :
    n = count ∧
    (step (step s (.write fh off count stable data) c).1 (.read fh off count) c').2
      = .data count false (data.extract 0 count).toList := by
  simp only [step] at hw ⊢
  cases hr : resolve s fh with
  | none => simp [hr] at hw
  | some i =>
    simp only [hr] at hw ⊢
    split at hw
    · simp at hw
    · split at hw
      · simp at hw
      · split at hw
        · simp at hw
        · split at hw
          · simp at hw
          · rename_i hk h1 h2 h3
            have hc0 : ¬ count = 0 := by omega
            simp only [hc0, if_false] at hw ⊢
            simp only [Reply.written.injEq] at hw
            refine ⟨hw.1.symm, ?_⟩
            -- the handle still resolves (generation and kind untouched)
            have hres : resolve (s.set i { (s.get i) with
                content := .write off (data.extract 0 count) :: (s.get i).content,
                size := max (s.get i).size (off + count) }) fh = some i := by
              refine Eq.trans (resolve_set s fh i _ ?_ ?_) hr <;> rfl
            have hk' : (s.get i).kind = NF3REG := by simpa using hk
            simp only [hk', ne_eq, not_true_eq_false, if_false, h1, h2, h3]
            simp only [hk'] at hres
            simp only [hres, get_set_same]
            simp only [ne_eq, not_true_eq_false, if_false]
            have hsz : (data.extract 0 count).size = count := by
              simp; omega
            have hlt : ¬ off ≥ max (s.get i).size (off + count) := by omega
            simp only [hlt, if_false]
            have hmin : min count s.wtmax = count := by
              simp only [maxWrite] at h1; omega
            simp only [set_wtmax, hmin]
            have hn : (if off + count ≥ max (s.get i).size (off + count)
                then max (s.get i).size (off + count) - off else count) = count := by
              split <;> omega
            rw [hn]
            have := readBytes_write_same off (data.extract 0 count) (s.get i).content
            rw [hsz] at this
            rw [this]

/-- A name resolves to the object created there: after a successful CREATE / MKDIR / SYMLINK,
    LOOKUP of that name in that directory returns the very handle and attributes the creation
    returned. -/
theorem create_then_lookup (s : FS) (c c' : Choice) (dfh name : Bytes) (kind : Nat) (t : Array UInt8)
    (s' : FS) (fh : Bytes) (a : Attr) (hk : kind ≠ 0)
    (hc : doCreate s c dfh name kind t = (s', .handle fh a)) :
    step s' (.lookup dfh name) c' = (s', .handle fh a) := by
  obtain ⟨dino, d', hd, hlook, hne, hfree, hlt, h2, hadd, hs', hfh, ha⟩ :=
    doCreate_ok_shape s c dfh name kind t s' fh a hc
  -- the directory handle still resolves to the directory
  have hdk : (s.get dino).kind = NF3DIR ∧ d'.kind = NF3DIR ∧ d'.gen = (s.get dino).gen ∧
      d'.slots = putSlot (s.get dino).slots c.slot { inum := c.inum, name := name } ∧
      slotOk (s.get dino).slots c.slot = true := by
    unfold addName at hadd
    split at hadd
    · simp at hadd
    · rename_i h1
      split at hadd
      · simp at hadd
      · rename_i h2'
        simp only [Option.some.injEq] at hadd
        subst hadd
        have hkd : (s.get dino).kind = NF3DIR := by
          apply Classical.byContradiction; intro hx; exact h1 (Or.inl hx)
        exact ⟨hkd, hkd, rfl, rfl, by simpa using h2'⟩
  have hres : resolve s' dfh = some dino := by
    subst hs'
    unfold resolve at hd ⊢
    generalize parseFh dfh = p at hd ⊢
    obtain ⟨ino, g⟩ := p
    simp only [set_ninode] at hd ⊢
    have h1 := hdk.1; have h2 := hdk.2.1; have h3 := hdk.2.2.1
    have hnz : NF3DIR ≠ 0 := by decide
    grind [get_set]
  have hl : lookupIn d' name = some (c.inum, c.slot) := by
    unfold lookupIn at hlook ⊢
    simp only [hdk.1, hdk.2.1, ne_eq, not_true_eq_false, if_false] at hlook ⊢
    rw [hdk.2.2.2.1]
    exact lookup_putSlot_same _ _ _ _ hlook hdk.2.2.2.2 (by omega)
  simp only [step, hres]
  subst hs'
  simp only [get_set_same, hl]
  have : ((s.set c.inum (freshInode kind ((s.get c.inum).gen + 1) c.inum dino t)).set dino d').get c.inum
      = freshInode kind ((s.get c.inum).gen + 1) c.inum dino t := by
    simp [get_set, hne.symm]
  rw [this, freshInode_gen, hfh, ha]

/-- Non-vacuity: a concrete write/read and create/lookup on a fresh file system. -/
example :
    let s0 := mkfs true 100000
    let s1 := (step s0 (.create (mkFh 1 1) [102] 0) { inum := 2, slot := 2 }).1
    let s2 := (step s1 (.write (mkFh 2 1) 5 3 2 #[7, 8, 9]) {}).1
    (match (step s2 (.read (mkFh 2 1) 0 100) {}).2 with
      | .data n _ bytes => (n, bytes)
      | _ => (0, [])) = (8, [0, 0, 0, 0, 0, 7, 8, 9]) := by
  decide

/-- A removed name is gone: in any reachable state (names unique), after a successful REMOVE or
    RMDIR of `name` a LOOKUP of `name` in that directory finds nothing. -/
theorem removed_name_is_gone (u : Bool) (sz : Nat) (ops : List (Op × Choice)) (s' : FS)
    (dfh name : Bytes) (isdir : Bool) (d : Nat)
    (hres : resolve (run (mkfs u sz) ops).1 dfh = some d)
    (h : doRemove (run (mkfs u sz) ops).1 dfh name isdir = (s', .done)) :
    lookupIn (s'.get d) name = none :=
  GoNfsd.Model.Fs.removed_disappear _ s' dfh name isdir d (run_NU _ ops (mkfs_NU u sz)) hres h

/-- RENAME moves the name: in any reachable state, after an acknowledged RENAME a LOOKUP of the
    new name (in the target directory) finds the object the old name denoted, and — unless both
    names are the same name in the same directory, or already denoted that one object — a LOOKUP of
    the old name finds nothing.  (An existing target is unlinked first; source and target
    directory may be the same; the slot chosen for the new entry is arbitrary.) -/
theorem rename_then_lookup (u : Bool) (sz : Nat) (ops : List (Op × Choice)) (c : Choice)
    (ffh fname tfh tname : Bytes) (s' : FS)
    (h : doRename (run (mkfs u sz) ops).1 c ffh fname tfh tname = (s', .done)) :
    ∃ fd td fino fidx, renameDirs (run (mkfs u sz) ops).1 ffh tfh = some (fd, td) ∧
      lookupIn ((run (mkfs u sz) ops).1.get fd) fname = some (fino, fidx) ∧
      (lookupIn (s'.get td) tname).map (·.1) = some fino ∧
      (¬ (fd = td ∧ fname = tname) →
        ¬ (fd = td ∧ (lookupIn ((run (mkfs u sz) ops).1.get td) tname).map (·.1) = some fino) →
        lookupIn (s'.get fd) fname = none) :=
  GoNfsd.Model.Fs.renamed _ c ffh fname tfh tname s' (run_NU _ ops (mkfs_NU u sz)) h

/-- Non-vacuity: a RENAME across directories over an existing target is acknowledged. -/
example :
    (match (doRename (run (mkfs true 100000)
      [(.mkdir (mkFh 1 1) [97], { inum := 2, slot := 2 }),
       (.create (mkFh 2 1) [102] 0, { inum := 3, slot := 2 }),
       (.create (mkFh 1 1) [103] 0, { inum := 4, slot := 3 })]).1
      { slot := 3 } (mkFh 2 1) [102] (mkFh 1 1) [103]).2 with
     | .done => true
     | _ => false) = true := by
  decide

/-! ### block level (model M7, tied to the code by the `blockmap` correspondence) -/

/-- The block a WRITE obtains from `bmap` for file block `bn` (direct and single-indirect range)
    is the block the block map maps `bn` to afterwards: what is written there is what a READ of
    `bn` finds. -/
theorem written_block_is_mapped (s : GoNfsd.Model.BlockMap.S) (blks : List Nat) (bn : Nat)
    (hl : blks.length = NDIRECT + 2) (hbn : bn < NDIRECT + NBLKBLK)
    (hok : (GoNfsd.Model.BlockMap.bmap s blks bn).2.2.1 ≠ 0) :
    GoNfsd.Model.BlockMap.lookup (GoNfsd.Model.BlockMap.bmap s blks bn).1.st (GoNfsd.Model.BlockMap.bmap s blks bn).2.1 bn =
      (GoNfsd.Model.BlockMap.bmap s blks bn).2.2.1 :=
  GoNfsd.Model.BlockMap.bmap_maps s blks bn hl hbn hok

/-- The same for EVERY file block the block map can address (direct, single- and double-indirect
    range), on a well-formed pointer tree (`WFB`: no block pointed to twice; what the allocator
    will hand out is distinct, unused and zero — observed on the real file and allocator by the
    `blockmap` driver): the block `bmap` returns for `bn` is the block the map then has for `bn`. -/
theorem written_block_is_mapped_in_every_range (s : GoNfsd.Model.BlockMap.S) (blks : List Nat) (bn : Nat)
    (h : GoNfsd.Model.BlockMap.WFB s blks) (hbn : bn < NDIRECT + NBLKBLK + NBLKBLK * NBLKBLK)
    (hok : (GoNfsd.Model.BlockMap.bmap s blks bn).2.2.1 ≠ 0) :
    GoNfsd.Model.BlockMap.lookup (GoNfsd.Model.BlockMap.bmap s blks bn).1.st (GoNfsd.Model.BlockMap.bmap s blks bn).2.1 bn =
      (GoNfsd.Model.BlockMap.bmap s blks bn).2.2.1 := by
  rw [GoNfsd.Model.BlockMap.lookup_eq_ptr]
  exact (GoNfsd.Model.BlockMap.bmap_ok s blks bn h hbn).hit hok

/-- A WRITE to one block leaves every other block of the file where it is: mapping file block
    `bn` (allocating the data block and whatever index blocks are missing) changes the disk block
    of NO other file block — mapped blocks stay, holes stay holes — whether or not it succeeds. -/
theorem mapping_one_block_moves_no_other (s : GoNfsd.Model.BlockMap.S) (blks : List Nat) (bn bn' : Nat)
    (h : GoNfsd.Model.BlockMap.WFB s blks) (hbn : bn < NDIRECT + NBLKBLK + NBLKBLK * NBLKBLK)
    (hbn' : bn' < NDIRECT + NBLKBLK + NBLKBLK * NBLKBLK) (hne : bn' ≠ bn) :
    GoNfsd.Model.BlockMap.lookup (GoNfsd.Model.BlockMap.bmap s blks bn).1.st (GoNfsd.Model.BlockMap.bmap s blks bn).2.1 bn' =
      GoNfsd.Model.BlockMap.lookup s.st blks bn' := by
  rw [GoNfsd.Model.BlockMap.lookup_eq_ptr, GoNfsd.Model.BlockMap.lookup_eq_ptr]
  obtain ⟨hv, hd⟩ := GoNfsd.Model.BlockMap.posOf_valid bn' hbn'
  exact (GoNfsd.Model.BlockMap.bmap_ok s blks bn h hbn).frame _ hv hd (fun he => hne (GoNfsd.Model.BlockMap.posOf_inj _ _ he))

/-! ### read your writes, down to the disk blocks (models M7d / `G`) -/

open GoNfsd.Model.FileData in
/-- What a WRITE stored is what a READ of the same range returns — whatever blocks the file had,
    whichever holes the write filled with blocks from the allocator, wherever the range lies. -/
theorem read_your_write_on_disk_blocks (f : F) (fresh : Nat → Nat) (off : Nat) (bytes : List UInt8)
    (h : Inv f) (hf : FreshOK f fresh) :
    (f.write fresh off bytes).read off bytes.length = bytes := read_written f fresh off bytes h hf

open GoNfsd.Model.FileData in
/-- ... and on a disk shared by many files a READ of any file returns what the reference model's
    content log of THAT file says, after any history of writes and size changes to any of them. -/
theorem reads_agree_with_the_reference_on_shared_blocks (ops : List GOp) (hf : GFreshAll G.empty ops)
    (a off n : Nat) :
    ((ops.foldl G.apply G.empty).file a).read off n =
      GoNfsd.Model.Fs.readBytes ((ops.foldl logsApply (fun _ => ([], 0))) a).1 off n := by
  obtain ⟨_, hr⟩ := ghistory_refines ops G.empty (fun _ => ([], 0)) gempty_inv gempty_rel hf
  exact read_refines _ _ _ off n (hr a)

end GoNfsd.Props.C02

/-
C19 — advertised limits are honoured exactly.

The announced values are REGENERATED on every run by calling the real FSINFO / PATHCONF
handlers (Gen/Announce.lean); the constants by linking the real packages (Gen/Consts.lean).
The acceptance conditions are those of the reference model M6, tied to the server by the `seq`
correspondence with boundary-dense name lengths, sizes, offsets and counts.
-/
import GoNfsd.Lemmas.FsStep
import GoNfsd.Gen.Announce
import GoNfsd.Lemmas.Dirty
import GoNfsd.Lemmas.SizeBound
import GoNfsd.Lemmas.NameBound

namespace GoNfsd.Props.C19
open GoNfsd.Model.Fs GoNfsd.Gen.Consts

/-- What the server announces is what the code enforces: the announced maximum name length is
    the directory-entry name capacity, the announced maximum file size is the enforced one and within the block map's reach,
    names are never truncated, and the announced maximum transfer (on the disk the announcement
    was taken from, 10,000 blocks) is the bound `wtmaxOf`. -/
theorem announced_consistent :
    GoNfsd.Gen.Announce.Name_max = MAXNAMELEN ∧ GoNfsd.Gen.Announce.Maxfilesize = MaxFileSize ∧
    GoNfsd.Gen.Announce.No_trunc = true ∧ GoNfsd.Gen.Announce.Wtmax = wtmaxOf 10000 ∧
    GoNfsd.Gen.Announce.Rtmax = wtmaxOf 10000 ∧
    MAXNAMELEN + 16 = DIRENTSZ ∧ MaxFileSize ≤ (NDIRECT + NBLKBLK + NBLKBLK * NBLKBLK) * BlockSize ∧
    GoNfsd.Gen.Announce.fsinfoStatus = 0 ∧ GoNfsd.Gen.Announce.pathconfStatus = 0 := by
  decide

/-- Names: in a directory, with the name not yet present and a valid choice of inode number and
    slot, CREATE / MKDIR / SYMLINK succeed EXACTLY for names of at most the announced length;
    longer names are refused (never truncated) and leave no trace. -/
theorem name_max_exact (s : FS) (c : Choice) (dfh name : Bytes) (kind : Nat) (t : Array UInt8) (d : Nat)
    (hd : resolve s dfh = some d) (hk : (s.get d).kind = NF3DIR) (hn : lookupIn (s.get d) name = none)
    (hi : ¬ (c.inum < 2 ∨ c.inum ≥ s.ninode ∨ (s.get c.inum).kind ≠ 0)) (hs : slotOk (s.get d).slots c.slot = true)
    (ht : ¬ (kind = NF3LNK ∧ t.size > MaxFileSize)) :
    ((doCreate s c dfh name kind t).2.isOk = true ↔ name.length ≤ GoNfsd.Gen.Announce.Name_max) ∧
    (name.length > GoNfsd.Gen.Announce.Name_max → (doCreate s c dfh name kind t).1 = s) := by
  have hnm : GoNfsd.Gen.Announce.Name_max = MAXNAMELEN := by decide
  rw [hnm]
  unfold doCreate
  simp only [hd, hn, ht, hk, hi, if_false, ne_eq, not_true_eq_false, false_or]
  by_cases hl : name.length > MAXNAMELEN
  · simp [hl, Reply.isOk]
  · have : addName (s.get d) c.slot c.inum name ≠ none := by
      simp [addName, hk, hl, hs]
    simp only [hl, if_false]
    cases ha : addName (s.get d) c.slot c.inum name with
    | none => exact absurd ha this
    | some d' => simp [Reply.isOk]; omega

/-- The same limit governs the new name of a RENAME. -/
theorem rename_name_max (s1 : FS) (c : Choice) (fd fidx td fino : Nat) (tname : Bytes)
    (h : tname.length > GoNfsd.Gen.Announce.Name_max) :
    moveName s1 c fd fidx td fino tname = none := by
  have hnm : GoNfsd.Gen.Announce.Name_max = MAXNAMELEN := by decide
  rw [hnm] at h
  simp [moveName, h]

/-- File size: a WRITE to a regular file that carries its data and respects the transfer limit
    is accepted EXACTLY when it ends at or below the announced maximum file size — for every
    offset and count in the natural numbers, so no wrap-around can sneak past — and a refused
    one leaves no trace. -/
theorem maxfilesize_exact (s : FS) (c : Choice) (fh : Bytes) (off count stable : Nat) (data : Array UInt8)
    (i : Nat) (hr : resolve s fh = some i) (hk : (s.get i).kind = NF3REG)
    (hc : count ≤ s.wtmax) (hd : count ≤ data.size) :
    ((step s (.write fh off count stable data) c).2.isOk = true ↔ off + count ≤ GoNfsd.Gen.Announce.Maxfilesize) ∧
    (off + count > GoNfsd.Gen.Announce.Maxfilesize → (step s (.write fh off count stable data) c).1 = s) := by
  have hm : GoNfsd.Gen.Announce.Maxfilesize = MaxFileSize := by decide
  rw [hm]
  simp only [step, hr, hk, maxWrite]
  have h1 : ¬ count > s.wtmax := by omega
  have h2 : ¬ count > data.size := by omega
  simp only [h1, h2, ne_eq, not_true_eq_false, if_false]
  by_cases hb : count > MaxFileSize ∨ off > MaxFileSize - count
  · simp only [hb, if_true, Reply.isOk]
    constructor
    · constructor
      · intro h; simp at h
      · intro h; omega
    · intro _; trivial
  · simp only [hb, if_false]
    constructor
    · constructor
      · intro _; omega
      · intro _; split <;> simp [Reply.isOk]
    · intro h; omega

/-- ... and SETATTR accepts exactly the sizes up to the announced maximum. -/
theorem setattr_size_exact (s : FS) (c : Choice) (fh : Bytes) (sz : Nat) (i : Nat)
    (hr : resolve s fh = some i) (hk : (s.get i).kind = NF3REG) :
    (step s (.setattr fh (some sz) .dont .dont) c).2.isOk = true ↔ sz ≤ GoNfsd.Gen.Announce.Maxfilesize := by
  have hm : GoNfsd.Gen.Announce.Maxfilesize = MaxFileSize := by decide
  rw [hm]
  simp only [step, hr, hk]
  by_cases hb : sz > MaxFileSize
  · simp [hb, Reply.isOk]
  · simp [hb, Reply.isOk]; omega

/-- Transfer size: a WRITE above the announced maximum transfer is refused with no effect. -/
theorem wtmax_enforced (s : FS) (c : Choice) (fh : Bytes) (off count stable : Nat) (data : Array UInt8)
    (h : count > s.wtmax) :
    (step s (.write fh off count stable data) c).2.isOk = false ∧
    (step s (.write fh off count stable data) c).1 = s := by
  have : (step s (.write fh off count stable data) c).2.isOk = false := by
    simp only [step, maxWrite]
    grind [Reply.isOk]
  exact ⟨this, step_fail _ _ _ this⟩

/-- Reads: a READ of up to the announced rtmax bytes that lies inside the file is served in
    full, and a larger one is a short read of exactly rtmax bytes (RFC 1813), never an error. -/
theorem rtmax_served (s : FS) (c : Choice) (fh : Bytes) (off count : Nat) (i : Nat)
    (hr : resolve s fh = some i) (hk : (s.get i).kind = NF3REG) (hin : off + count < (s.get i).size) :
    ∃ bytes, (step s (.read fh off count) c).2 = .data (min count s.wtmax) false bytes ∧
      bytes.length = min count s.wtmax := by
  simp only [step, hr, hk, ne_eq, not_true_eq_false, if_false]
  have h1 : ¬ off ≥ (s.get i).size := by omega
  have h2 : ¬ off + min count s.wtmax ≥ (s.get i).size := by
    have : min count s.wtmax ≤ count := Nat.min_le_left _ _
    omega
  simp only [h1, h2, if_false]
  exact ⟨_, rfl, by simp [readBytes]⟩

/-- The announced maximum transfer fits the journal on every disk: its data blocks (one more
    when unaligned), four index blocks, the inode block and the block-bitmap blocks never exceed
    the 511-block log.  (Arithmetic half of `wtmax_fits_journal`; the other half is
    `write_dirties_at_most_four_index_blocks` below.) -/
theorem wtmax_fits_journal_arith (disksz : Nat) :
    wtmaxOf disksz / BlockSize + 1 + 4 + 1 + min (GoNfsd.Gen.Super.MkFsSuper disksz).NBlockBitmap (LogBlocks / 2)
      ≤ LogBlocks ∧ wtmaxOf disksz % BlockSize = 0 ∧ 0 < wtmaxOf disksz := by
  simp only [wtmaxOf, LogBlocks, BlockSize]
  generalize (GoNfsd.Gen.Super.MkFsSuper disksz).NBlockBitmap = nbb
  have : min nbb (511 / 2) ≤ 255 := by simp; omega
  omega

/-- The other half, on the block-map model M7: a WRITE of the announced maximum spans at most
    `wtmax/4096 + 1 ≤ 513` file blocks, and a WRITE of up to 513 consecutive file blocks writes
    to the contents of at most FOUR index blocks — the indirect root, the double-indirect root and
    two neighbouring middle blocks (whatever it has to allocate on the way, and also when the
    allocator runs dry in the middle). -/
theorem write_dirties_at_most_four_index_blocks (disksz : Nat)
    (s : GoNfsd.Model.BlockMap.S) (ino : GoNfsd.Model.BlockMap.Ino) (bn n : Nat)
    (h : GoNfsd.Model.BlockMap.WFB s ino.blks) (hn : n ≤ wtmaxOf disksz / BlockSize + 1)
    (hle : bn + n ≤ GoNfsd.Model.BlockMap.MAXBLKS) (y x : Nat)
    (hch : (GoNfsd.Model.BlockMap.writeBlocks s ino bn n 0).1.st y x ≠ s.st y x) :
    ∃ P ∈ [GoNfsd.Model.BlockMap.Pos.iroot, GoNfsd.Model.BlockMap.Pos.droot,
           GoNfsd.Model.BlockMap.Pos.dmid ((bn - NDIRECT - NBLKBLK) / NBLKBLK),
           GoNfsd.Model.BlockMap.Pos.dmid ((bn - NDIRECT - NBLKBLK) / NBLKBLK + 1)],
      GoNfsd.Model.BlockMap.ptr (GoNfsd.Model.BlockMap.writeBlocks s ino bn n 0).1.st
        (GoNfsd.Model.BlockMap.writeBlocks s ino bn n 0).2.1.blks P = y := by
  have hw := (wtmax_fits_journal_arith disksz).1
  have hn' : n ≤ NBLKBLK + 1 := by
    simp only [LogBlocks, NBLKBLK] at *; omega
  exact GoNfsd.Model.BlockMap.write_touches_four_index_blocks s ino bn n h hn' hle y x hch

/-- Non-vacuity: on a fresh file system a 112-byte name is accepted and a 113-byte name is not. -/
example :
    (step (mkfs true 100000) (.create (mkFh 1 1) (List.replicate 112 97) 0) { inum := 2, slot := 2 }).2.isOk = true ∧
    (step (mkfs true 100000) (.create (mkFh 1 1) (List.replicate 113 97) 0) { inum := 2, slot := 2 }).2.isOk = false := by
  decide

/-- NO FILE EVER EXCEEDS THE ANNOUNCED MAXIMUM FILE SIZE: in every state reachable from the freshly formatted file system
    — any sequence of all procedures, any allocator and slot choices, failing requests included — every regular file's size is
    at most `MaxFileSize`, the value FSINFO announces (`announced_consistent`).  It is an invariant of every operation
    (`Lemmas/SizeBound`: WRITE and SETATTR by their guards, creation by the size of a new inode, removal and RENAME because
    they change no file's size).  The creating procedures of the model take no initial size; that the server's do not apply
    one beyond the limit either is probed by `harness initattr` (seeded change C19p: CREATE applies it through `Resize`
    without the test SETATTR makes). -/
theorem no_file_ever_exceeds_the_announced_maximum (u : Bool) (sz : Nat) (ops : List (Op × Choice)) (i : Nat)
    (hk : ((run (mkfs u sz) ops).1.get i).kind = NF3REG) :
    ((run (mkfs u sz) ops).1.get i).size ≤ MaxFileSize :=
  run_allsize _ ops (mkfs_allsize u sz) i hk

/-- non-vacuity: the bound is reached — CREATE, then SETATTR to exactly `MaxFileSize` -/
example :
    ((run (mkfs true 100000) [(.create (mkFh 1 1) [102] 0, { inum := 2, slot := 2 }),
      (.setattr (mkFh 2 1) (some MaxFileSize) .dont .dont, {})]).1.get 2).size = MaxFileSize ∧
    ((run (mkfs true 100000) [(.create (mkFh 1 1) [102] 0, { inum := 2, slot := 2 }),
      (.setattr (mkFh 2 1) (some MaxFileSize) .dont .dont, {})]).1.get 2).kind = NF3REG := by decide

/-- NO DIRECTORY EVER HOLDS A NAME LONGER THAN THE ANNOUNCED name_max: in every state reachable from the freshly formatted
    file system, by any sequence of all procedures with any choices, every slot of every directory carries a name of at most
    `MAXNAMELEN` = 112 bytes — the value PATHCONF announces with no_trunc (`name_max_exact`) and the capacity of a slot, so
    `encodeDirEnt` never truncates ("Caller must ensure de.Name fits").  Every path that writes a name goes through
    `AddName`'s guard: CREATE, MKDIR, SYMLINK and both halves of RENAME.  (Seeded change C19n adds an in-place RENAME path
    around the guard.) -/
theorem no_name_ever_exceeds_name_max (u : Bool) (sz : Nat) (ops : List (Op × Choice)) (i k : Nat) (sl : Slot)
    (h : ((run (mkfs u sz) ops).1.get i).slots[k]? = some sl) : sl.name.length ≤ MAXNAMELEN :=
  run_short _ ops (mkfs_short u sz) i k sl h

end GoNfsd.Props.C19

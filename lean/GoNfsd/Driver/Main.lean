import GoNfsd.Driver.Mkfs
import GoNfsd.Driver.Xdr
import GoNfsd.Driver.Fs

def main (args : List String) : IO UInt32 :=
  match args with
  | ["mkfs"] => GoNfsd.Driver.Mkfs.main
  | ["xdr"] => GoNfsd.Driver.Xdr.main
  | ["fs"] => GoNfsd.Driver.Fs.main
  | _ => do
    IO.eprintln "usage: drv <mkfs>"
    return 2

import GoNfsd.Driver.Mkfs
import GoNfsd.Driver.Xdr
import GoNfsd.Driver.Fs
import GoNfsd.Driver.Codec
import GoNfsd.Driver.Kvs
import GoNfsd.Driver.Simple
import GoNfsd.Driver.Locks
import GoNfsd.Driver.Wal
import GoNfsd.Driver.Fsck
import GoNfsd.Driver.BlockMap
import GoNfsd.Driver.Cache
import GoNfsd.Driver.NameCache
import GoNfsd.Driver.AllocTxn

def main (args : List String) : IO UInt32 :=
  match args with
  | ["mkfs"] => GoNfsd.Driver.Mkfs.main
  | ["xdr"] => GoNfsd.Driver.Xdr.main
  | ["fs"] => GoNfsd.Driver.Fs.main
  | ["codec"] => GoNfsd.Driver.Codec.main
  | ["kvs"] => GoNfsd.Driver.Kvs.main
  | ["simple"] => GoNfsd.Driver.Simple.main
  | ["locks"] => GoNfsd.Driver.Locks.main
  | ["wal"] => GoNfsd.Driver.Wal.main
  | ["fsck"] => GoNfsd.Driver.Fsck.main
  | ["blockmap"] => GoNfsd.Driver.BlockMap.main
  | ["cache"] => GoNfsd.Driver.Cache.main
  | ["dcache"] => GoNfsd.Driver.NameCache.main
  | ["atxn"] => GoNfsd.Driver.AllocTxn.main
  | _ => do
    IO.eprintln "usage: drv <mkfs>"
    return 2

import GoNfsd.Driver.Mkfs

def main (args : List String) : IO UInt32 :=
  match args with
  | ["mkfs"] => GoNfsd.Driver.Mkfs.main
  | _ => do
    IO.eprintln "usage: drv <mkfs>"
    return 2

import GoNfsd.Driver.Util
import GoNfsd.Model.AllocTxn

/-! `atxn`: replays on model M8b what `harness atxn` did with several real `alloctxn.AllocTxn` transactions open at the
    same time (block and inode allocator of a real server) and compares, after every step, the in-memory allocator and
    the bitmap on the logical disk over the window of numbers the workload uses.

    Lines:  ainit <b|i> <lo> <hi> <mem bits> <disk bits>
            aalloc <b|i> <t> => <n>      (0: the allocator is full)
            afree <b|i> <t> <n>
            aprecommit <t> | acommit <t> | aabort <t>
            afreedzero <n> <0|1>
            astate <b|i> <mem bits> <disk bits> -/
namespace GoNfsd.Driver.AllocTxn
open GoNfsd.Driver GoNfsd.Model.AllocTxn

structure Inst where
  lo : Nat := 0
  hi : Nat := 0
  st : St := fresh (fun _ => true)

structure DS where
  b : Inst := {}
  i : Inst := {}

def ofBits (lo : Nat) (s : String) : Nat → Bool :=
  let a := s.toList.toArray
  fun n => if lo ≤ n ∧ n - lo < a.size then a[n - lo]! == '1' else true

def render (lo hi : Nat) (f : Nat → Bool) : String :=
  String.ofList ((List.range (hi - lo)).map fun k => if f (lo + k) then '1' else '0')

def get (d : DS) (tag : String) : Option Inst := if tag = "b" then some d.b else if tag = "i" then some d.i else none
def put (d : DS) (tag : String) (x : Inst) : DS := if tag = "b" then { d with b := x } else { d with i := x }

def otherTouches (s : St) (t n : Nat) : Bool :=
  (List.range 8).any fun u => u != t && ((s.tx u).1.contains n || (s.tx u).2.contains n)

def stepLine (d : DS) (line : String) : DS × Option String :=
  match words line with
  | ["ainit", tag, lo, hi, mem, disk] =>
    match lo.toNat?, hi.toNat? with
    | some l, some h =>
      (put d tag { lo := l, hi := h, st := { disk := ofBits l disk, mem := ofBits l mem, tx := fun _ => ([], []) } },
       if mem = disk then none else some "a fresh server's allocator differs from the bitmap on disk")
    | _, _ => (d, some "bad ainit")
  | ["aalloc", tag, t, "=>", n] =>
    match get d tag, t.toNat?, n.toNat? with
    | some x, some t, some n =>
      if n = 0 then
        (d, if tag = "b" && (List.range (x.hi - x.lo)).any (fun k => !x.st.mem (x.lo + k))
            then some "the allocator reports full although the model holds a free number" else none)
      else if n < x.lo || n ≥ x.hi then (d, some s!"the allocator handed out {n}, outside [{x.lo},{x.hi})")
      else if x.st.mem n then (d, some s!"the allocator handed out {n}, which the model holds in use (allocated, or freed by a transaction that has not committed)")
      else (put d tag { x with st := step x.st (.alloc t n) }, none)
    | _, _, _ => (d, some "bad aalloc")
  | ["afree", tag, t, n] =>
    match get d tag, t.toNat?, n.toNat? with
    | some x, some t, some n =>
      if !x.st.mem n || otherTouches x.st t n then (d, some s!"harness: freeing {n} is not allowed in the model's state")
      else (put d tag { x with st := step x.st (.free t n) }, none)
    | _, _, _ => (d, some "bad afree")
  | ["acommit", t] =>
    match t.toNat? with
    | some t => ({ b := { d.b with st := step d.b.st (.commit t) }, i := { d.i with st := step d.i.st (.commit t) } }, none)
    | none => (d, some "bad acommit")
  | ["aabort", t] =>
    match t.toNat? with
    | some t => ({ b := { d.b with st := step d.b.st (.abort t) }, i := { d.i with st := step d.i.st (.abort t) } }, none)
    | none => (d, some "bad aabort")
  | ["afreedzero", n, z] => (d, if z = "1" then none else some s!"block {n} was freed by a committed transaction and does not read as zeros")
  | ["astate", tag, mem, disk] =>
    match get d tag with
    | some x =>
      let wm := render x.lo x.hi x.st.mem
      let wd := render x.lo x.hi x.st.disk
      (d, if wm ≠ mem then some s!"in-memory allocator differs: model {wm}"
          else if wd ≠ disk then some s!"bitmap on the logical disk differs: model {wd}" else none)
    | none => (d, some "bad astate")
  | ["aprecommit", _] => (d, none)   -- `PreCommit` writes bitmap bits into the transaction's own buffers: no visible effect
  | ["apanic"] => (d, some "the implementation panicked")
  | "config" :: _ => (d, none)
  | _ => (d, some "unknown line")

def main : IO UInt32 := runLines ({} : DS) stepLine

end GoNfsd.Driver.AllocTxn

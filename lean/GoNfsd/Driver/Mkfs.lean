import GoNfsd.Driver.Util
import GoNfsd.Model.Mkfs
import GoNfsd.Model.Alloc

namespace GoNfsd.Driver.Mkfs
open GoNfsd.Driver GoNfsd.Gen.Consts GoNfsd.Gen.Super GoNfsd.Model.Mkfs GoNfsd.Model.Alloc

structure St where
  alloc : Option Alloc := none

def cmp (what : String) (model impl : Nat) : Option String :=
  if model = impl then none else some s!"{what}: model {model} impl {impl}"

def firstSome : List (Option String) → Option String
  | [] => none
  | some m :: _ => some m
  | none :: r => firstSome r

def parseAddrs (s : String) : Option (List (Nat × Nat × Nat)) :=
  if s = "-" then some [] else
  (s.splitOn ",").mapM fun r =>
    match r.splitOn ":" with
    | [a, b, c] => do pure ((← a.toNat?), (← b.toNat?), (← c.toNat?))
    | _ => none

def stepMkfs (ws : List String) : Option String :=
  match ws with
  | [szS, panicS, maxb, bbs, bis, is, ds, ninode, nbb, nib, bruns, iruns, addrs] =>
    match szS.toNat?, panicS.toNat? with
    | some sz, some panic =>
      let s := MkFsSuper sz
      let mp := if makeFsPanics s then 1 else 0
      if mp ≠ panic then some s!"panic: model {mp} impl {panic}" else
      let fields := firstSome [
        cmp "MaxBnum" s.MaxBnum (maxb.toNat?.getD 0),
        cmp "BitmapBlockStart" s.BitmapBlockStart (bbs.toNat?.getD 0),
        cmp "BitmapInodeStart" s.BitmapInodeStart (bis.toNat?.getD 0),
        cmp "InodeStart" s.InodeStart (is.toNat?.getD 0),
        cmp "DataStart" s.DataStart (ds.toNat?.getD 0),
        cmp "NInode" s.NInode (ninode.toNat?.getD 0),
        cmp "NBlockBitmap" s.NBlockBitmap (nbb.toNat?.getD 0),
        cmp "NInodeBitmap" s.NInodeBitmap (nib.toNat?.getD 0)]
      match fields with
      | some m => some m
      | none =>
        let addrBad := match parseAddrs addrs with
          | none => some "bad addrs"
          | some as => firstSome (as.map fun (i, b, o) =>
              let a := s.Inum2Addr i
              if a = (b, o) then none else some s!"Inum2Addr {i}: model {a} impl ({b},{o})")
        match addrBad with
        | some m => some m
        | none =>
          if panic = 1 then none else
          let d := freshDisk sz
          let mb := (List.range s.NBlockBitmap).flatMap fun k =>
            runsOf (d (s.BitmapBlockStart + k)) (k * NBITBLOCK)
          let mi := (List.range s.NInodeBitmap).flatMap fun k =>
            runsOf (d (s.BitmapInodeStart + k)) (k * NBITBLOCK)
          -- closed forms proved in Props/C15 (fresh_block_bitmap / fresh_inode_bitmap)
          match parseRuns bruns, parseRuns iruns with
          | some ib, some ii =>
            if mb ≠ ib then some s!"block bitmap: model {showRuns mb} impl {showRuns ib}"
            else if mi ≠ ii then some s!"inode bitmap: model {showRuns mi} impl {showRuns ii}"
            else none
          | _, _ => some "bad runs"
    | _, _ => some "bad mkfs line"
  | _ => some "bad mkfs line"

def step (st : St) (line : String) : St × Option String :=
  match words line with
  | "mkfs" :: ws => (st, stepMkfs ws)
  | ["ainit", hex] =>
    match hexBytes hex with
    | some bs => ({ st with alloc := some (Alloc.mk' (bitsOfBytes bs)) }, none)
    | none => (st, some "bad hex")
  | ["aalloc", r] =>
    match st.alloc, r.toNat? with
    | some a, some r =>
      let (a', m) := a.allocNum
      ({ st with alloc := some a' }, cmp "AllocNum" m r)
    | _, _ => (st, some "bad aalloc")
  | ["afree", n] =>
    match st.alloc, n.toNat? with
    | some a, some n =>
      match a.freeNum n with
      | some a' => ({ st with alloc := some a' }, none)
      | none => (st, some s!"FreeNum {n}: model panics")
    | _, _ => (st, some "bad afree")
  | ["amark", n] =>
    match st.alloc, n.toNat? with
    | some a, some n => ({ st with alloc := some (a.markUsed n) }, none)
    | _, _ => (st, some "bad amark")
  | ["anumfree", r] =>
    match st.alloc, r.toNat? with
    | some a, some r => (st, cmp "NumFree" a.numFree r)
    | _, _ => (st, some "bad anumfree")
  | _ => (st, some "unknown command")

def main : IO UInt32 := runLines ({} : St) step

end GoNfsd.Driver.Mkfs

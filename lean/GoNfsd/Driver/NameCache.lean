import GoNfsd.Driver.Util
import GoNfsd.Model.NameCache

/-! `dcache`: replays on model M8e what `harness dcache` did to a real directory inode through
    `dir.LookupName / AddName / RemName` inside real transactions (commits, aborts, dropped caches) and
    compares every reply and, after every step, the whole state: `Lastoff`, the cache map, the slots.

    Lines:  dinit <self> <parent>
            dlook <namehex> => found <inum> <idx> | absent
            dadd <namehex> <inum> => added <idx> | present | refused
            drem <namehex> => removed <idx> | absent
            ddrop | dbegin | dabort
            dstate L=<n|-> cache=<namehex:inum:idx,…|-|nil> slots=<inum:namehex,…|-> -/
namespace GoNfsd.Driver.NameCache
open GoNfsd.Driver GoNfsd.Model.NameCache

def showOut : Out → String
  | .found ino i => s!"found {ino} {i}"
  | .absent => "absent"
  | .added i => s!"added {i}"
  | .present => "present"
  | .refused => "refused"
  | .removed i => s!"removed {i}"
  | .unit => "unit"

/-- insertion sort of the entries by the hex of their name (the harness sorts the same strings) -/
def insertBy (x : String × String) : List (String × String) → List (String × String)
  | [] => [x]
  | y :: r => if x.1 ≤ y.1 then x :: y :: r else y :: insertBy x r

def showState (d : Dir) : String :=
  let slots := if d.slots.isEmpty then "-" else ",".intercalate (d.slots.map fun s => s!"{s.inum}:{toHex s.name}")
  match d.dc with
  | none => s!"L=- cache=nil slots={slots}"
  | some c =>
    let es := (c.ents.map fun e => (toHex e.name, s!"{toHex e.name}:{e.inum}:{e.idx}")).foldl (fun acc x => insertBy x acc) []
    let cs := if es.isEmpty then "-" else ",".intercalate (es.map (·.2))
    s!"L={c.lastoff} cache={cs} slots={slots}"

def doOp (s : St) (op : Op) (impl : String) : St × Option String :=
  let r : St × Out := step s op
  let want := showOut r.2
  (r.1, if want = impl then none else some s!"reply differs: model '{want}' impl '{impl}'")

def stepLine (s : St) (line : String) : St × Option String :=
  match words line with
  | ["dinit", a, b] =>
    match a.toNat?, b.toNat? with
    | some x, some y => let d := initDir x y; ({ cur := d, saved := d.slots }, none)
    | _, _ => (s, some "bad dinit")
  | "dlook" :: n :: "=>" :: rest =>
    match hexBytes n with
    | some name => doOp s (.look name) (" ".intercalate rest)
    | none => (s, some "bad dlook")
  | "dadd" :: n :: i :: "=>" :: rest =>
    match hexBytes n, i.toNat? with
    | some name, some ino => doOp s (.add name ino) (" ".intercalate rest)
    | _, _ => (s, some "bad dadd")
  | "drem" :: n :: "=>" :: rest =>
    match hexBytes n with
    | some name => doOp s (.rem name) (" ".intercalate rest)
    | none => (s, some "bad drem")
  | "config" :: _ => (s, none)
  | ["ddrop"] => ((step s .drop).1, none)
  | ["dbegin"] => ((step s .begin_).1, none)
  | ["dabort"] => ((step s .abort).1, none)
  | "dstate" :: rest =>
    let impl := " ".intercalate rest
    let want := showState s.cur
    (s, if want = impl then none else some s!"state differs: model '{want.take 600}'")
  | _ => (s, some "unknown line")

def main : IO UInt32 := runLines ({} : St) stepLine

end GoNfsd.Driver.NameCache

import GoNfsd.Driver.Util
import GoNfsd.Model.Fs

/-! `fscheck`: replays a recorded sequence of NFS operations on the reference model and compares
    every reply of the implementation with the model's. -/
namespace GoNfsd.Driver.Fs
open GoNfsd.Driver GoNfsd.Model.Fs GoNfsd.Gen.Consts

def hexArr (s : String) : Option (Array UInt8) := (hexBytes s).map List.toArray

def showTime : Option (Nat × Nat) → String
  | none => "*"
  | some (a, b) => s!"{a}.{b}"

def attrToks (a : Attr) : List String :=
  [toString a.kind, toString a.size, toString a.fileid, showTime a.atime, showTime a.mtime]

def attrToksShort (a : Attr) : List String :=
  [toString a.kind, toString a.size, toString a.fileid]

def b01 (b : Bool) : String := if b then "1" else "0"

def entryTok (e : DirEntry) : String :=
  let base := s!"{e.fileid}:{toHex e.name}:{e.cookie}"
  match e.plus with
  | none => base
  | some (a, fh) => s!"{base}:{a.kind}:{a.size}:{toHex fh}"

def statusTok : Status → String
  | .ok => "ok" | .stale => "stale" | .notsupp => "notsupp" | .err => "err"

def classOf (st : Nat) : String :=
  if st = NFS3_OK then "ok" else if st = NFS3ERR_STALE then "stale"
  else if st = NFS3ERR_NOTSUPP then "notsupp" else "err"

open GoNfsd.Gen.Announce in
def replyToks : Reply → List String
  | .fail st => [statusTok st]
  | .badChoice why => ["badchoice:" ++ why]
  | .attr a => "ok" :: attrToks a
  | .handle fh a => "ok" :: toHex fh :: attrToksShort a
  | .access bits => ["ok", toString bits]
  | .data n eof bytes => ["ok", toString n, b01 eof, toHexD bytes]
  | .written n c sz => ["ok", toString n, toString c, toString sz]
  | .done => ["ok"]
  | .listing eof es => ["ok", b01 eof, if es.isEmpty then "-" else ",".intercalate (es.map entryTok)]
  | .fsinfo wtmax => ["ok", toString wtmax, toString Rtpref, toString Rtmult, toString wtmax, toString Wtpref,
      toString Wtmult, toString Dtpref, toString Maxfilesize, toString Properties]
  | .pathconf => ["ok", toString Linkmax, toString Name_max, b01 No_trunc, b01 Chown_restricted,
      b01 Case_insensitive, b01 Case_preserving]
  | .mounted fh => ["ok", toHex fh]

def parseTimeHow (s : String) : Option TimeHow :=
  match s.splitOn ":" with
  | ["d"] => some .dont
  | ["s"] => some .server
  | ["c", a, b] => do pure (.client (← a.toNat?) (← b.toNat?))
  | _ => none

def parseOp (ws : List String) : Option Op :=
  match ws with
  | ["getattr", fh] => do pure (.getattr (← hexBytes fh))
  | ["setattr", fh, sz, a, m] => do
    let size ← if sz = "-" then some none else sz.toNat?.map some
    pure (.setattr (← hexBytes fh) size (← parseTimeHow a) (← parseTimeHow m))
  | ["lookup", fh, n] => do pure (.lookup (← hexBytes fh) (← hexBytes n))
  | ["access", fh] => do pure (.access (← hexBytes fh))
  | ["readlink", fh] => do pure (.readlink (← hexBytes fh))
  | ["read", fh, off, cnt] => do pure (.read (← hexBytes fh) (← off.toNat?) (← cnt.toNat?))
  | ["write", fh, off, cnt, st, d] => do
    pure (.write (← hexBytes fh) (← off.toNat?) (← cnt.toNat?) (← st.toNat?) (← hexArr d))
  | ["create", fh, n, mode] => do pure (.create (← hexBytes fh) (← hexBytes n) (← mode.toNat?))
  | ["mkdir", fh, n] => do pure (.mkdir (← hexBytes fh) (← hexBytes n))
  | ["symlink", fh, n, t] => do pure (.symlink (← hexBytes fh) (← hexBytes n) (← hexArr t))
  | ["mknod", fh, n] => do pure (.mknod (← hexBytes fh) (← hexBytes n))
  | ["link", fh, d, n] => do pure (.link (← hexBytes fh) (← hexBytes d) (← hexBytes n))
  | ["fsstat", fh] => do pure (.fsstat (← hexBytes fh))
  | ["remove", fh, n] => do pure (.remove (← hexBytes fh) (← hexBytes n))
  | ["rmdir", fh, n] => do pure (.rmdir (← hexBytes fh) (← hexBytes n))
  | ["rename", f, fn, t, tn] => do
    pure (.rename (← hexBytes f) (← hexBytes fn) (← hexBytes t) (← hexBytes tn))
  | ["readdir", fh, c, n] => do pure (.readdir (← hexBytes fh) (← c.toNat?) (← n.toNat?))
  | ["readdirplus", fh, c, d, m] => do
    pure (.readdirplus (← hexBytes fh) (← c.toNat?) (← d.toNat?) (← m.toNat?))
  | ["fsinfo", fh] => do pure (.fsinfo (← hexBytes fh))
  | ["pathconf", fh] => do pure (.pathconf (← hexBytes fh))
  | ["commit", fh, off, cnt] => do pure (.commit (← hexBytes fh) (← off.toNat?) (← cnt.toNat?))
  | ["mnt", p] => do pure (.mnt (← hexBytes p))
  | ["restart"] => some .restart
  | _ => none

def parseChoice (ws : List String) : Choice :=
  match ws with
  | [i, sl] => { inum := i.toNat?.getD 0, slot := sl.toNat?.getD 0 }
  | [sl] => { slot := sl.toNat?.getD 0 }
  | _ => {}

/-- split `a b ; c d => e f` into the three token groups -/
def splitLine (ws : List String) : List String × List String × List String :=
  let (lhs, rhs) := (ws.takeWhile (· ≠ "=>"), (ws.dropWhile (· ≠ "=>")).drop 1)
  let (op, ch) := (lhs.takeWhile (· ≠ ";"), (lhs.dropWhile (· ≠ ";")).drop 1)
  (op, ch, rhs)

/-- one reply token: `*` on either side matches anything; entry lists are compared entry by
    entry, field by field (fields separated by `:`), with the same wildcard rule -/
def fieldMatch (m i : String) : Bool := m = "*" || i = "*" || m = i

def tokMatch (model impl : String) : Bool :=
  fieldMatch model impl ||
  (impl.contains '*' &&
    let ms := model.splitOn ","
    let is := impl.splitOn ","
    ms.length = is.length &&
    (ms.zip is).all fun (a, b) =>
      let af := a.splitOn ":"
      let bf := b.splitOn ":"
      af.length = bf.length && (af.zip bf).all fun (x, y) => fieldMatch x y)

def toksMatch : List String → List String → Bool
  | [], [] => true
  | m :: ms, i :: is => tokMatch m i && toksMatch ms is
  | _, _ => false

structure St where
  fs : FS := mkfs true 100000
  deriving Inhabited

def step (st : St) (line : String) : St × Option String :=
  let ws := words line
  match ws with
  | ["config", u, n] => ({ fs := mkfs (u = "1") (n.toNat?.getD 100000) }, none)
  | _ =>
    let (opW, chW, rW) := splitLine ws
    match parseOp opW with
    | none => (st, some "unparsable operation")
    | some op =>
      let (fs', r) := GoNfsd.Model.Fs.step st.fs op (parseChoice chW)
      let mt := replyToks r
      -- the implementation's status is numeric: compare by class
      let it := match rW with
        | s :: rest => classOf (s.toNat?.getD 99999) :: rest
        | [] => []
      let it := if it.head? = some "ok" then it else it.take 1
      if toksMatch mt it then ({ fs := fs' }, none)
      else
        let short := fun (l : List String) => " ".intercalate (l.map fun t => if t.length > 80 then (t.take 80).toString ++ "…" else t)
        -- keep the model state in step with the implementation only when it agreed; on a
        -- mismatch the model's own successor state is kept (later lines may mismatch too)
        ({ fs := fs' }, some s!"reply differs: model [{short mt}] impl [{short it}]")

def main : IO UInt32 := runLines ({} : St) step

end GoNfsd.Driver.Fs

import GoNfsd.Driver.Util
import GoNfsd.Model.Kvs

namespace GoNfsd.Driver.Kvs
open GoNfsd.Driver GoNfsd.Model.Kvs

abbrev V := Nat × Nat

def parseV (s : String) : Option V :=
  match s.splitOn "." with
  | [a, b] => do pure ((← a.toNat?), (← b.toNat?))
  | _ => none

def parsePairs (s : String) : Option (List (Nat × V)) :=
  if s = "-" then some [] else
  (s.splitOn ",").mapM fun p =>
    match p.splitOn ":" with
    | [k, v] => do pure ((← k.toNat?), (← parseV v))
    | _ => none

def showOut : Out V → String
  | .panic => "panic"
  | .refused => "refused"
  | .ok none => "ok"
  | .ok (some (b, n)) => s!"{b}.{n}"

/-- all orders of a (short) list -/
def perms {α : Type} : List α → List (List α)
  | [] => [[]]
  | x :: xs => (perms xs).flatMap fun p => (List.range (p.length + 1)).map fun i => p.take i ++ [x] ++ p.drop i

def step (st : KVS V) (line : String) : KVS V × Option String :=
  match words line with
  | ["kinit", sz] => ({ sz := sz.toNat?.getD 0, store := fun _ => (0, 0) }, none)
  | ["krestart"] => (st, none)   -- the store is opened again on the same disk: nothing changes
  | ["kput", ps, "=>", r] =>
    match parsePairs ps with
    | none => (st, some "bad pairs")
    | some pairs =>
      let (st', o) := multiPut st pairs
      (st', if showOut o = r then none else some s!"MultiPut: model {showOut o} impl {r}")
  | ["kget", k, "=>", r] =>
    match k.toNat? with
    | none => (st, some "bad key")
    | some key =>
      let o := get st key
      (st, if showOut o = r then none else some s!"Get: model {showOut o} impl {r}")
  | ["klockorder", ks, "=>", r] =>
    -- the order in which MultiPut takes its locks (kvs.lockOrder on the keys of the pairs)
    let parse (x : String) : Option (List Nat) := if x = "-" then some [] else (x.splitOn ",").mapM (·.toNat?)
    match parse ks, parse r with
    | some keys, some got =>
      (st, if lockOrder keys = got then none else some s!"lockOrder: model {lockOrder keys} impl {got}")
    | _, _ => (st, some "bad klockorder line")
  | "kround" :: rest =>
    -- kround <s0> | <put> | <put> ... => <final>
    match (" ".intercalate rest).splitOn " => " with
    | [lhs, fin] =>
      match lhs.splitOn " | " with
      | s0 :: puts =>
        match parsePairs s0, puts.mapM parsePairs, parsePairs fin with
        | some s0, some puts, some fin =>
          let (st0, _) := multiPut st s0
          let reachable := (perms puts).any fun order =>
            let stF := order.foldl (fun s p => (multiPut s p).1) st0
            fin.all fun kv => stF.store kv.1 == kv.2
          ({ st with store := applyPairs st.store fin },
           if reachable then none else some s!"no order of the {puts.length} concurrent MultiPuts explains the final state: not linearizable")
        | _, _, _ => (st, some "bad kround line")
      | [] => (st, some "bad kround line")
    | _ => (st, some "bad kround line")
  | _ => (st, some "unknown command")

def main : IO UInt32 := runLines ({ sz := 0, store := fun _ => (0, 0) } : KVS V) step

end GoNfsd.Driver.Kvs

import GoNfsd.Driver.Util
import GoNfsd.Model.Kvs

namespace GoNfsd.Driver.Kvs
open GoNfsd.Driver GoNfsd.Model.Kvs

abbrev V := Nat × Nat

def parseV (s : String) : Option V :=
  match s.splitOn "." with
  | [a, b] => do pure ((← a.toNat?), (← b.toNat?))
  | _ => none

def parsePairs (s : String) : Option (List (Nat × V)) :=
  if s = "-" then some [] else
  (s.splitOn ",").mapM fun p =>
    match p.splitOn ":" with
    | [k, v] => do pure ((← k.toNat?), (← parseV v))
    | _ => none

def showOut : Out V → String
  | .panic => "panic"
  | .refused => "refused"
  | .ok none => "ok"
  | .ok (some (b, n)) => s!"{b}.{n}"

def step (st : KVS V) (line : String) : KVS V × Option String :=
  match words line with
  | ["kinit", sz] => ({ sz := sz.toNat?.getD 0, store := fun _ => (0, 0) }, none)
  | ["kput", ps, "=>", r] =>
    match parsePairs ps with
    | none => (st, some "bad pairs")
    | some pairs =>
      let (st', o) := multiPut st pairs
      (st', if showOut o = r then none else some s!"MultiPut: model {showOut o} impl {r}")
  | ["kget", k, "=>", r] =>
    match k.toNat? with
    | none => (st, some "bad key")
    | some key =>
      let o := get st key
      (st, if showOut o = r then none else some s!"Get: model {showOut o} impl {r}")
  | _ => (st, some "unknown command")

def main : IO UInt32 := runLines ({ sz := 0, store := fun _ => (0, 0) } : KVS V) step

end GoNfsd.Driver.Kvs

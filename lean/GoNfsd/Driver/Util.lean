/- Line-protocol helpers shared by all drivers (core-only, so the driver links as a `lean_exe`). -/
namespace GoNfsd.Driver

def words (s : String) : List String :=
  (s.splitOn " ").filter (· ≠ "")

def hexVal (c : Char) : Option Nat :=
  if '0' ≤ c ∧ c ≤ '9' then some (c.toNat - '0'.toNat)
  else if 'a' ≤ c ∧ c ≤ 'f' then some (c.toNat - 'a'.toNat + 10)
  else if 'A' ≤ c ∧ c ≤ 'F' then some (c.toNat - 'A'.toNat + 10)
  else none

/-- decode a hex string ("-" = empty) into bytes -/
def hexBytes (s : String) : Option (List UInt8) :=
  if s = "-" then some [] else
  if s.startsWith "r" then
    -- r<byte>:<count> = a run of one byte value
    match (s.drop 1).toString.splitOn ":" with
    | [b, n] =>
      match b.toList, n.toNat? with
      | [x, y], some k =>
        match hexVal x, hexVal y with
        | some hi, some lo => some (List.replicate k (UInt8.ofNat (hi * 16 + lo)))
        | _, _ => none
      | _, _ => none
    | _ => none
  else
  let rec go : List Char → List UInt8 → Option (List UInt8)
    | [], acc => some acc.reverse
    | [_], _ => none
    | a :: b :: rest, acc =>
      match hexVal a, hexVal b with
      | some x, some y => go rest (UInt8.ofNat (x * 16 + y) :: acc)
      | _, _ => none
  go s.toList []

def hexDigit (n : Nat) : Char :=
  if n < 10 then Char.ofNat ('0'.toNat + n) else Char.ofNat ('a'.toNat + n - 10)

def toHex (bs : List UInt8) : String :=
  if bs.isEmpty then "-" else
  String.ofList (bs.flatMap fun b => [hexDigit (b.toNat / 16), hexDigit (b.toNat % 16)])

/-- data payloads: same convention as the harness (`hxd`): a run of >= 64 equal bytes is
    written r<byte>:<count> -/
def toHexD (bs : List UInt8) : String :=
  if bs.length ≥ 64 && bs.all (· == bs.head!) then
    let b := bs.head!
    s!"r{String.ofList [hexDigit (b.toNat / 16), hexDigit (b.toNat % 16)]}:{bs.length}"
  else toHex bs

def bitsOfBytes (bs : List UInt8) : List Bool :=
  bs.flatMap fun b => (List.range 8).map fun i => (b.toNat >>> i) % 2 == 1

/-- parse "a-b,c-d" ("-" = empty) -/
def parseRuns (s : String) : Option (List (Nat × Nat)) :=
  if s = "-" then some [] else
  (s.splitOn ",").mapM fun r =>
    match r.splitOn "-" with
    | [a, b] => do let x ← a.toNat?; let y ← b.toNat?; pure (x, y)
    | _ => none

def showRuns (rs : List (Nat × Nat)) : String :=
  if rs.isEmpty then "-" else ",".intercalate (rs.map fun (a, b) => s!"{a}-{b}")

/-- Process stdin line by line with a state machine; prints `MISMATCH <lineno> <msg>` for each
    disagreement and a final `done <lines> <mismatches>` line. -/
partial def runLines {σ : Type} (init : σ) (step : σ → String → σ × Option String) : IO UInt32 := do
  let stdin ← IO.getStdin
  let rec loop (st : σ) (n bad : Nat) : IO (Nat × Nat) := do
    let line ← stdin.getLine
    if line.isEmpty then return (n, bad)
    let l := line.trimAsciiEnd.toString
    if l.isEmpty || l.startsWith "#" then loop st n bad else
    let (st', r) := step st l
    match r with
    | none => loop st' (n + 1) bad
    | some msg =>
      IO.println s!"MISMATCH {n + 1} {msg} :: {l.take 300}"
      loop st' (n + 1) (bad + 1)
  let (n, bad) ← loop init 0 0
  IO.println s!"done {n} {bad}"
  return (if bad == 0 then 0 else 1)

end GoNfsd.Driver

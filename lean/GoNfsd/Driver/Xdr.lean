import GoNfsd.Driver.Util
import GoNfsd.Model.Xdr
import GoNfsd.Spec.Rfc1813

namespace GoNfsd.Driver.Xdr
open GoNfsd.Driver GoNfsd.Model.Xdr

/-- text form of a value, the same as the harness prints -/
partial def showVal : Val → String
  | .num n => s!"n{n}"
  | .bool b => if b then "t" else "f"
  | .bytes bs => "x" ++ toHex bs
  | .nums ns => "a(" ++ ",".intercalate (ns.map toString) ++ ")"
  | .struct vs => "s(" ++ ",".intercalate (vs.map showVal) ++ ")"
  | .union d v => s!"u{d}(" ++ showVal v ++ ")"
  | .bunion b v => (if b then "b1(" else "b0(") ++ showVal v ++ ")"
  | .list vs => "l(" ++ ",".intercalate (vs.map showVal) ++ ")"

def takeDigits (cs : List Char) : String × List Char :=
  (String.ofList (cs.takeWhile Char.isDigit), cs.dropWhile Char.isDigit)

mutual
partial def parseVal : List Char → Option (Val × List Char)
  | 'n' :: cs =>
    let (d, r) := takeDigits cs
    d.toNat?.map fun n => (.num n, r)
  | 't' :: cs => some (.bool true, cs)
  | 'f' :: cs => some (.bool false, cs)
  | 'x' :: '-' :: cs => some (.bytes [], cs)
  | 'x' :: cs =>
    let h := cs.takeWhile fun c => c.isDigit || ('a' ≤ c && c ≤ 'f')
    (hexBytes (String.ofList h)).map fun b => (.bytes b, cs.drop h.length)
  | 'a' :: '(' :: cs =>
    let body := cs.takeWhile (· != ')')
    let rest := (cs.dropWhile (· != ')')).drop 1
    if body.isEmpty then some (.nums [], rest) else
    (((String.ofList body).splitOn ",").mapM fun (s : String) => s.toNat?).map fun ns => (Val.nums ns, rest)
  | 's' :: '(' :: cs => (parseKids cs).map fun (vs, r) => (.struct vs, r)
  | 'l' :: '(' :: cs => (parseKids cs).map fun (vs, r) => (.list vs, r)
  | 'b' :: '1' :: '(' :: cs =>
    match parseKids cs with
    | some ([v], r) => some (.bunion true v, r)
    | _ => none
  | 'b' :: '0' :: '(' :: cs =>
    match parseKids cs with
    | some ([v], r) => some (.bunion false v, r)
    | _ => none
  | 'u' :: cs =>
    let (d, r) := takeDigits cs
    match d.toNat?, r with
    | some n, '(' :: r' =>
      match parseKids r' with
      | some ([v], r'') => some (.union n v, r'')
      | _ => none
    | _, _ => none
  | _ => none

/-- children up to the closing parenthesis -/
partial def parseKids : List Char → Option (List Val × List Char)
  | ')' :: cs => some ([], cs)
  | cs =>
    match parseVal cs with
    | none => none
    | some (v, ',' :: r) => (parseKids r).map fun (vs, r') => (v :: vs, r')
    | some (v, ')' :: r) => some ([v], r)
    | _ => none
end

def lookupTy (name : String) : Option Ty := GoNfsd.Spec.Rfc1813.types.lookup name

def step (_ : Unit) (line : String) : Unit × Option String :=
  match words line with
  | ["xenc", name, tree, hex] =>
    match lookupTy name, parseVal tree.toList with
    | some ty, some (v, []) =>
      let m := enc ty v
      if hex = "ERR" then
        ((), if m.isNone then none else some "implementation refuses to encode, model encodes")
      else match m with
        | none => ((), some "model refuses to encode, implementation encodes")
        | some bs => ((), if toHex bs = hex then none else some s!"encoding differs: model {toHex bs}")
    | none, _ => ((), some s!"type {name} is not in the RFC table")
    | _, _ => ((), some "unparsable value")
  | ["xdec", name, hex, ok, tree] =>
    match lookupTy name, hexBytes hex with
    | some ty, some bs =>
      match decode ty bs with
      | none => ((), if ok = "0" then none else some "implementation decodes, model refuses")
      | some v =>
        if ok = "0" then ((), some s!"model decodes ({showVal v}), implementation refuses")
        else ((), if showVal v = tree then none else some s!"decoded value differs: model {showVal v}")
    | none, _ => ((), some s!"type {name} is not in the RFC table")
    | _, _ => ((), some "bad hex")
  | ["disp", prog, vers, proc, name, ok] =>
    match prog.toNat?, vers.toNat?, proc.toNat? with
    | some p, some v, some n =>
      match GoNfsd.Spec.Rfc1813.procs.find? fun e => e.1 = p && e.2.1 = v && e.2.2.1 = n with
      | none => ((), some "procedure is not in the RFC table")
      | some e =>
        if e.2.2.2.1 ≠ name then ((), some s!"procedure number reaches {name}, RFC says {e.2.2.2.1}")
        else if ok ≠ "1" then ((), some "argument decoder refused an all-zero message")
        else ((), none)
    | _, _, _ => ((), some "bad disp line")
  | ["dispr", _prog, _vers, _proc, before, after] =>
    -- the reply object of request A, encoded before and after other requests were dispatched: the RPC server encodes
    -- a result after the wrapper has returned and while other requests run, so the object must belong to A alone
    ((), if before = after then none
         else some s!"the reply of one request was changed by the dispatch of others: it would be sent as {after.take 24}… instead of {before.take 24}…")
  | ["dispt", prog, vers, proc, bytes, name, ok] =>
    -- a (possibly truncated) argument message delivered to the registered handler: the handler is
    -- reached exactly when the RFC decoder accepts the message (`truncated_rejected`: a proper
    -- prefix of an encoding never decodes)
    match prog.toNat?, vers.toNat?, proc.toNat?, hexBytes bytes with
    | some p, some v, some n, some bs =>
      match GoNfsd.Spec.Rfc1813.procs.find? fun e => e.1 = p && e.2.1 = v && e.2.2.1 = n with
      | none => ((), some "procedure is not in the RFC table")
      | some e =>
        match GoNfsd.Spec.Rfc1813.types.lookup e.2.2.2.2.1 with
        | none => ((), some s!"argument type {e.2.2.2.2.1} is not in the RFC table")
        | some ty =>
          match dec ty bs with
          | none =>
            if name ≠ "-" then ((), some s!"the handler {name} was reached with arguments the RFC decoder refuses (message cut short or malformed)")
            else if ok ≠ "0" then ((), some "a message the RFC decoder refuses was reported as decoded")
            else ((), none)
          | some _ =>
            if name ≠ e.2.2.2.1 then ((), some s!"a well-formed message reached {name}, RFC says {e.2.2.2.1}")
            else if ok ≠ "1" then ((), some "a well-formed message was refused")
            else ((), none)
    | _, _, _, _ => ((), some "bad dispt line")
  | _ => ((), some "unknown command")

def main : IO UInt32 := runLines () step

end GoNfsd.Driver.Xdr

import GoNfsd.Driver.Util
import GoNfsd.Model.Cache

/-! `cache`: replays lookups on the real `cache.Cache` on the model and compares the identity of
    the slot returned (the harness numbers the slot pointers in order of first appearance and keeps
    every pointer alive, so an address cannot be reused by the allocator). -/
namespace GoNfsd.Driver.Cache
open GoNfsd.Driver GoNfsd.Model.Cache

def step (c : C) (line : String) : C × Option String :=
  match words line with
  | ["cinit", sz] =>
    match sz.toNat? with
    | some n => (mk n, none)
    | none => (c, some "bad cinit")
  | ["clook", id, "=>", tok] =>
    match id.toNat? with
    | some i =>
      let r := lookupSlot c i
      let want := match r.2 with | some t => toString t | none => "panic"
      (r.1, if want = tok then none else some s!"slot identity differs: model {want} impl {tok}")
    | none => (c, some "bad clook")
  | _ => (c, some "unknown line")

def main : IO UInt32 := runLines (mk 0) step

end GoNfsd.Driver.Cache

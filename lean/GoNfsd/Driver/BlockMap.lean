import GoNfsd.Driver.Util
import GoNfsd.Model.BlockMap

/-! `blockmap`: runs the transliterated bmap / indbmap / indshrink / Shrink on the pointer structure
    of a real file before an operation and compares with the structure after it. -/
namespace GoNfsd.Driver.BlockMap
open GoNfsd.Driver GoNfsd.Model.BlockMap

structure Snap where
  size : Nat
  shrink : Nat
  blks : List Nat
  ind : List (Nat × List (Nat × Nat))

def parseNats (s : String) : Option (List Nat) :=
  if s = "-" then some [] else (s.splitOn ",").mapM (·.toNat?)

def parseEnts (es : String) : Option (List (Nat × Nat)) :=
  if es = "-" then some [] else
  (es.splitOn ",").mapM fun e =>
    match e.splitOn ":" with
    | [i, p] => do pure ((← i.toNat?), (← p.toNat?))
    | _ => none

def parseSnap (s : String) : Option Snap :=
  match s.splitOn " | " with
  | head :: inds =>
    match words head with
    | [sz, sh, bl] => do
      let size ← sz.toNat?
      let shrink ← sh.toNat?
      let blks ← parseNats bl
      let ind ← inds.mapM fun x =>
        match x.splitOn "=" with
        | [b, es] => do
          let bn ← b.trimAscii.toString.toNat?
          let es := es.trimAscii.toString
          let ents ← parseEnts es
          pure (bn, ents)
        | _ => none
      pure { size, shrink, blks, ind }
    | _ => none
  | [] => none

def storeOf (sn : Snap) : Store := fun b i =>
  match sn.ind.find? (fun x => x.1 == b) with
  | some x => match x.2.find? (fun e => e.1 == i) with
    | some e => e.2
    | none => 0
  | none => 0

structure St where
  before : Option Snap := none
  result : Option (S × Ino × String) := none   -- model result and a description of the op

def sameIndex (st : Store) (sn : Snap) : Option String :=
  sn.ind.findSome? fun (b, ents) =>
    (List.range 512).findSome? fun i =>
      let want := match ents.find? (fun e => e.1 == i) with | some e => e.2 | none => 0
      if st b i = want then none else some s!"index block {b} slot {i}: model {st b i}, file {want}"

/-- every block the file points to (its own pointers and the entries of its index blocks) -/
def ownedOf (sn : Snap) : List Nat :=
  (sn.blks ++ sn.ind.flatMap fun x => x.2.map (·.2)).filter (· ≠ 0)

/-- the hypotheses of `bmap_ok` (Lemmas/BlockTree: `WFB`), observed on the real file and the real
    allocator: no block is pointed to twice, and what the allocator hands out is pairwise distinct
    and in use nowhere in the file.  (That a block handed out is all zeros is observed by the
    comparison of the index blocks afterwards.) -/
def hypothesesHold (sn : Snap) (freedFirst : List Nat) (allocs : List Nat) : Option String :=
  -- (WRITE and SETATTR first finish a pending shrink, in transactions of their own: what that
  -- frees is back in the allocator before the operation itself allocates)
  let owned := (ownedOf sn).filter fun b => !freedFirst.contains b
  let al := allocs.filter (· ≠ 0)
  if !owned.Nodup then some s!"a block is pointed to twice in the file: {owned}"
  else if !al.Nodup then some s!"the allocator handed out a block twice: {allocs}"
  else match al.find? (fun a => owned.contains a) with
    | some a => some s!"the allocator handed out block {a}, which the file already points to"
    | none => none

def stepCore (d : St) (line : String) : St × Option String :=
  match words line with
  | "config" :: _ => (d, none)
  | "bm" :: "case" :: _ => ({}, none)
  | "bm" :: "before" :: rest =>
    match parseSnap (" ".intercalate rest) with
    | some sn => ({ before := some sn }, none)
    | none => (d, some "bad snapshot")
  | ["bm", "op", "write", bn, n, status, cnt, allocs] =>
    match d.before, bn.toNat?, n.toNat?, cnt.toNat?, parseNats allocs with
    | some b, some bn, some n, some cnt, some al =>
      let (s0, ino0) := finishShrink { st := storeOf b, allocs := al } { blks := b.blks, size := b.size, shrink := b.shrink }
      let (s', ino', mcnt) := opWrite s0 ino0 bn n
      if mcnt = 0 then
        -- nothing could be mapped: the request fails and its transaction is aborted (the pending shrink it finished first stays)
        ({ d with result := some ({ s0 with allocs := [] }, ino0, s!"write {bn} {n} (failed)") },
         if status ≠ "0" then none else some s!"model: the write maps nothing (fails), the server returned OK with {cnt} blocks")
      else
        ({ d with result := some (s', ino', s!"write {bn} {n}") },
         if status = "0" ∧ mcnt = cnt then none else some s!"model writes {mcnt} blocks, the server: status {status}, {cnt} blocks")
    | _, _, _, _, _ => (d, some "bad write op")
  | ["bm", "op", "read", bn, _status, allocs] =>
    match d.before, bn.toNat?, parseNats allocs with
    | some b, some bn, some al =>
      let (s', ino') := opReadBlock { st := storeOf b, allocs := al } { blks := b.blks, size := b.size, shrink := b.shrink } bn
      ({ d with result := some (s', ino', s!"read {bn}") }, none)
    | _, _, _ => (d, some "bad read op")
  | ["bm", "op", "resize", sz, status, allocs] =>
    match d.before, sz.toNat?, parseNats allocs with
    | some b, some sz, some al =>
      if status ≠ "0" then ({ d with result := some ({ st := storeOf b, allocs := [] }, { blks := b.blks, size := b.size, shrink := b.shrink }, s!"resize {sz} (refused)") }, none)
      else
        let (s0, ino0) := finishShrink { st := storeOf b, allocs := al } { blks := b.blks, size := b.size, shrink := b.shrink }
        let (s', ino') := opResize s0 ino0 sz
        ({ d with result := some (s', ino', s!"resize {sz}") }, none)
    | _, _, _ => (d, some "bad resize op")
  | "bm" :: "after" :: rest =>
    match d.result, parseSnap (" ".intercalate rest) with
    | some (s', ino', what), some a =>
      let r : Option String :=
        if ino'.blks ≠ a.blks then some s!"{what}: pointers: model {ino'.blks}, file {a.blks}"
        else if ino'.size ≠ a.size then some s!"{what}: size: model {ino'.size}, file {a.size}"
        else if ino'.shrink ≠ a.shrink then some s!"{what}: ShrinkSize: model {ino'.shrink}, file {a.shrink}"
        else match sameIndex s'.st a with
          | some m => some s!"{what}: {m}"
          | none =>
            -- the model must not have allocations left over (it asked for exactly what the file got)
            if s'.allocs.any (· ≠ 0) then some s!"{what}: the file allocated blocks {s'.allocs} the model did not ask for" else none
      ({}, r)
    | _, _ => (d, some "bad after line")
  | _ => (d, some "unknown line")

def step (d : St) (line : String) : St × Option String :=
  let r := stepCore d line
  match r.2, words line with
  | none, "bm" :: "op" :: rest =>
    match d.before, rest.getLast?.bind parseNats with
    | some b, some al =>
      let freedFirst :=
        match rest.head? with
        | some "read" => []
        | _ => (finishShrink { st := storeOf b, allocs := [] } { blks := b.blks, size := b.size, shrink := b.shrink }).1.freed
      (r.1, (hypothesesHold b freedFirst al).map fun m => s!"hypothesis of bmap_ok not met: {m}")
    | _, _ => r
  | _, _ => r

def main : IO UInt32 := runLines ({} : St) step

end GoNfsd.Driver.BlockMap
